/-
  LZMA2 writer model (`Model/Lzma2Writer.lean`), one encoder instance ("segment"):

  * `SInv`: the invariant of the encoder inside a chunk (symbols so far valid w.r.t. the chunk's start state and
    history, position / finder / read-ahead bookkeeping, range encoder = `encFold` of the symbols so far);
  * `step_inv`, `encodeFor_inv`: one `encode_symbol`, and `encode_for_lzma2`, keep it; the chunk never holds more
    than `LZMA2_UNCOMPRESSED_LIMIT + MATCH_LEN_MAX = 2^21` bytes;
  * `writeChunk_ok`, `finishLoop_ok`, `segEvents_ok`: the events of a segment are valid (`EvsOk`) and denote
    exactly the bytes of the segment - through compressed chunks, stored chunks (state reset, the read-ahead
    byte stored too) and chunk boundaries that keep state and read-ahead.
-/
import LzmaVerif.Proofs.Lzma2WriterRc
import LzmaVerif.Proofs.EncFastLoop

namespace LzmaVerif.Lzma2W
open LzmaVerif Mf Lzma Prog Rc EncFast
open LzmaVerif.Mf.Hc4 (Eqs byteAt_lt)

/-! ## small facts -/

theorem parseRun_copy_step (dictBuf : Nat) (s : Sym) (rest : List Sym) (c : Coder) (h : Hist)
    (dist len : Nat) (hok : SymOk s) (hs : ∀ b, s ≠ .lit b) (hc : s.copyOf c = some (dist, len))
    (hd1 : dist < h.size) (hd2 : dist < dictBuf) :
    parseRun dictBuf (s :: rest) c h = parseRun dictBuf rest (c.apply s) (h.copy dist len) := by
  cases s with
  | lit b => exact absurd rfl (hs b)
  | mtch d l =>
    simp only [Sym.copyOf, Option.some.injEq, Prod.mk.injEq] at hc
    obtain ⟨rfl, rfl⟩ := hc
    have : SymOk (.mtch d l) ∧ d < h.size ∧ d < dictBuf := ⟨hok, hd1, hd2⟩
    simp only [parseRun, Sym.copyOf, if_pos this]
  | rep i l =>
    simp only [Sym.copyOf, Option.some.injEq, Prod.mk.injEq] at hc
    obtain ⟨rfl, rfl⟩ := hc
    have : SymOk (.rep i l) ∧ c.rep i < h.size ∧ c.rep i < dictBuf := ⟨hok, hd1, hd2⟩
    simp only [parseRun, Sym.copyOf, if_pos this]
  | shortRep =>
    simp only [Sym.copyOf, Option.some.injEq, Prod.mk.injEq] at hc
    obtain ⟨rfl, rfl⟩ := hc
    have : SymOk .shortRep ∧ c.rep0 < h.size ∧ c.rep0 < dictBuf := ⟨hok, hd1, hd2⟩
    simp only [parseRun, Sym.copyOf, if_pos this]

theorem parseRun_append (dictBuf : Nat) (p q : List Sym) :
    ∀ (c c₁ : Coder) (h h₁ : Hist), parseRun dictBuf p c h = some (c₁, h₁) →
      parseRun dictBuf (p ++ q) c h = parseRun dictBuf q c₁ h₁ := by
  induction p with
  | nil =>
    intro c c₁ h h₁ hp
    simp only [parseRun, Option.some.injEq, Prod.mk.injEq] at hp
    obtain ⟨rfl, rfl⟩ := hp
    rfl
  | cons s p ih =>
    intro c c₁ h h₁ hp
    obtain ⟨hok, hcase⟩ := parseRun_cons_inv hp
    rcases hcase with ⟨b, rfl, hrest⟩ | ⟨dist, len, hs, hc, _, hd1, hd2, hrest⟩
    · rw [List.cons_append, parseRun_lit dictBuf b _ c h hok]
      exact ih _ _ _ _ hrest
    · rw [List.cons_append, parseRun_copy_step dictBuf s _ c h dist len hok hs hc hd1 hd2]
      exact ih _ _ _ _ hrest

/-- the context the model computes from the data is the decoder's context of the history -/
theorem ctxAt_eq {d : Array UInt8} {p : Nat} {h : Hist} (hh : HistIs d p h) (c : Coder) :
    ctxAt d p c = ctxOf c h := by
  have hs := hh.1
  unfold ctxAt ctxOf
  congr 1
  · exact hs.symm
  · by_cases hp : 0 < p
    · rw [if_pos hp, hh.back 0 (by omega)]
    · rw [if_neg hp]
      unfold Hist.back
      rw [if_neg (by omega)]
  · by_cases hr : c.rep0 < p
    · rw [if_pos hr, hh.back c.rep0 (by omega)]
      congr 1
      omega
    · rw [if_neg hr]
      unfold Hist.back
      rw [if_neg (by omega)]

/-! ## one symbol -/

/-- what one `encode_init` / `encode_symbol` guarantees -/
structure StepFacts {σ : Type} {F : Finder σ} {d : Array UInt8} {dict : Nat}
    (FS : FinderSound F d dict 273) (dictBuf p : Nat) (c : Coder) (h : Hist) (st : Step σ) : Prop where
  len1 : 1 ≤ st.len
  len273 : st.len ≤ 273
  ple : p + st.len + st.ra ≤ d.size
  parse : ∃ h', parseRun dictBuf [st.sym] c h = some (c.apply st.sym, h') ∧ HistIs d (p + st.len) h'
  repsP : RepsLt (c.apply st.sym) (p + st.len)
  repsD : RepsLt (c.apply st.sym) dict
  mfR : FS.R st.mf
  mfPos : FS.pos st.mf = p + st.len + st.ra
  ra : st.ra = 0 ∨ (st.ra = 1 ∧ ∀ m ∈ st.ms,
        ValidMatch d dict (p + st.len) (min 273 (d.size - (p + st.len))) m)

/-- the look-ahead `find_matches` is only made when more than `MATCH_LEN_MIN` bytes are left, and a step that
    leaves `read_ahead = 0` behind codes a literal -/
theorem nextCore_ra {σ : Type} (F : Finder σ) (P : FastParams) (hP : P.ok) (nice : Nat) (d : Array UInt8)
    (p : Nat) (c : Coder) (mf : σ) (ms : List Match) :
    (nextCore F P nice d p c mf ms).ra = 0 ∨
      (p + 3 ≤ d.size ∧ (nextCore F P nice d p c mf ms).len = 1) := by
  obtain ⟨hmin, hmax⟩ := hP
  unfold nextCore
  simp only [hmin, hmax]
  repeat' split
  all_goals first | exact Or.inl rfl | (right; refine ⟨?_, rfl⟩; omega)

theorem nextSymbol_ra {σ : Type} (F : Finder σ) (P : FastParams) (hP : P.ok) (nice : Nat) (d : Array UInt8)
    (p : Nat) (c : Coder) (mf : σ) (ms : List Match) (ra : Nat) :
    (nextSymbol F P nice d p c mf ms ra).ra = 0 ∨
      (p + 3 ≤ d.size ∧ (nextSymbol F P nice d p c mf ms ra).len = 1) := by
  unfold nextSymbol
  exact nextCore_ra F P hP nice d p c _ _

theorem stepFacts_of_stepOk {σ : Type} {F : Finder σ} {d : Array UInt8} {dict : Nat}
    (FS : FinderSound F d dict 273) (dictBuf p : Nat) (c : Coder) (h : Hist) (st : Step σ)
    (hdb : min dict d.size ≤ dictBuf) (h32 : dict ≤ 2 ^ 32)
    (hs : StepOk FS p c st) (hra : st.ra = 0 ∨ (p + 3 ≤ d.size ∧ st.len = 1))
    (hh : HistIs d p h) (hrp : RepsLt c p) (hrd : RepsLt c dict) :
    StepFacts FS dictBuf p c h st := by
  obtain ⟨hl1, hlle, hsym, hmR, hmPos, hmRa⟩ := hs
  have hple : p + st.len + st.ra ≤ d.size := by
    rcases hra with h0 | ⟨h3, h1⟩
    · omega
    · rcases hmRa with h0 | ⟨h1', _⟩ <;> omega
  rcases hsym with ⟨hlit, hlen⟩ | ⟨i, hrep, hok⟩ | ⟨dist, hm, hv⟩
  · refine ⟨hl1, by omega, hple, ⟨h.push (byteAt d p), ?_, ?_⟩, ?_, ?_, hmR, hmPos, hmRa⟩
    · rw [hlit, parseRun_lit dictBuf _ _ _ _ (byteAt_lt d p)]
      rfl
    · rw [hlen]; exact hh.push
    · rw [hlit]; exact (hrp.lit _).mono (by omega)
    · rw [hlit]; exact hrd.lit _
  · obtain ⟨hi, h2, hl, he⟩ := hok
    have hdp : c.rep i < p := hrp.rep i
    have hdd : c.rep i < dict := hrd.rep i
    refine ⟨hl1, by omega, hple, ⟨h.copy (c.rep i) st.len, ?_, ?_⟩, ?_, ?_, hmR, hmPos, hmRa⟩
    · rw [hrep, parseRun_rep dictBuf i st.len _ c h hi h2 (by omega) (by rw [hh.1]; exact hdp) (by omega)]
      rfl
    · exact HistIs.copy (c.rep i) st.len p h hh (by omega) he
    · rw [hrep]; exact (hrp.repSym i st.len).mono (by omega)
    · rw [hrep]; exact hrd.repSym i st.len
  · obtain ⟨h2, hl, _, hdp, hdd, he⟩ := hv
    simp only at h2 hl hdp hdd he
    refine ⟨hl1, by omega, hple, ⟨h.copy dist st.len, ?_, ?_⟩, ?_, ?_, hmR, hmPos, hmRa⟩
    · rw [hm, parseRun_mtch dictBuf dist st.len _ c h h2 (by omega) (by omega) (by rw [hh.1]; omega)
        (by omega)]
      rfl
    · exact HistIs.copy dist st.len p h hh hdp he
    · rw [hm]; exact (hrp.mtch dist st.len (by omega)).mono (by omega)
    · rw [hm]; exact hrd.mtch dist st.len (by omega)

/-! ## the invariant inside a chunk -/

section Seg
variable {σ : Type} {F : Finder σ} {d : Array UInt8} {dict : Nat}

/-- Invariant of the encoder inside a chunk that started with coder state `c0`, history `h0` (the first
    `h0.size` bytes of `d`) and tables `ps0`. -/
def SInv (FS : FinderSound F d dict 273) (pr : Params) (dictBuf : Nat) (c0 : Coder) (h0 : Hist) (ps0 : Probs)
    (s : EncSt σ) : Prop :=
  ∃ h : Hist, parseRun dictBuf s.syms.reverse c0 h0 = some (s.c, h) ∧ HistIs d s.p h ∧
    h0.size + s.unc = s.p ∧ s.p + s.ra ≤ d.size ∧ (s.p = 0 → s.ra = 0) ∧
    RepsLt s.c (max s.p 1) ∧ RepsLt s.c dict ∧
    FS.R s.mf ∧ FS.pos s.mf = s.p + s.ra ∧
    (s.ra = 0 ∨ (s.ra = 1 ∧ ∀ m ∈ s.ms, ValidMatch d dict s.p (min 273 (d.size - s.p)) m)) ∧
    s.probs = (encFold pr s.syms.reverse c0 h0 ps0 Enc.init).1 ∧
    s.rc = (encFold pr s.syms.reverse c0 h0 ps0 Enc.init).2 ∧ s.outLen = s.rc.out.length

/-- the symbol choice of `step` -/
def stepSt (F : Finder σ) (P : FastParams) (nice : Nat) (d : Array UInt8) (s : EncSt σ) : Step σ :=
  if s.p = 0 then ⟨.lit (byteAt d 0), 1, F.skip d 1 s.mf, [], 0⟩
  else nextSymbol F P nice d s.p s.c s.mf s.ms s.ra

theorem step_eq (P : FastParams) (nice : Nat) (pr : Params) (s : EncSt σ) :
    step F P nice pr d s =
      { p := s.p + (stepSt F P nice d s).len, c := s.c.apply (stepSt F P nice d s).sym,
        mf := (stepSt F P nice d s).mf, ms := (stepSt F P nice d s).ms, ra := (stepSt F P nice d s).ra,
        probs := (encSymL pr (ctxAt d s.p s.c) (stepSt F P nice d s).sym s.probs s.rc).1,
        rc := (encSymL pr (ctxAt d s.p s.c) (stepSt F P nice d s).sym s.probs s.rc).2.1,
        outLen := s.outLen + (encSymL pr (ctxAt d s.p s.c) (stepSt F P nice d s).sym s.probs s.rc).2.2,
        unc := s.unc + (stepSt F P nice d s).len, syms := (stepSt F P nice d s).sym :: s.syms } := by
  cases s
  rfl

theorem stepSt_facts (FS : FinderSound F d dict 273) (P : FastParams) (hP : P.ok) (nice dictBuf : Nat)
    (hdb : min dict d.size ≤ dictBuf) (h32 : dict ≤ 2 ^ 32) (s : EncSt σ) (h : Hist)
    (hp : s.p < d.size) (hh : HistIs d s.p h) (hp0 : s.p = 0 → s.ra = 0)
    (hrp : RepsLt s.c (max s.p 1)) (hrd : RepsLt s.c dict) (hR : FS.R s.mf) (hpos : FS.pos s.mf = s.p + s.ra)
    (hra : s.ra = 0 ∨ (s.ra = 1 ∧ ∀ m ∈ s.ms, ValidMatch d dict s.p (min 273 (d.size - s.p)) m)) :
    StepFacts FS dictBuf s.p s.c h (stepSt F P nice d s) := by
  unfold stepSt
  by_cases h0 : s.p = 0
  · rw [if_pos h0]
    have hra0 := hp0 h0
    rw [h0] at hh hrp hp ⊢
    rw [h0, hra0] at hpos
    refine ⟨Nat.le_refl 1, by show 1 ≤ 273; omega, by show 0 + 1 + 0 ≤ d.size; omega,
      ⟨h.push (byteAt d 0), ?_, hh.push⟩, ?_, ?_, FS.skip_R _ _ hR, ?_, Or.inl rfl⟩
    · show parseRun dictBuf [.lit (byteAt d 0)] s.c h = _
      rw [parseRun_lit dictBuf _ _ _ _ (byteAt_lt d 0)]
      rfl
    · exact (hrp.lit _).mono (by show max 0 1 ≤ 0 + 1; omega)
    · exact hrd.lit _
    · show FS.pos (F.skip d 1 s.mf) = 0 + 1 + 0
      rw [FS.skip_pos _ _ hR, hpos]
  · rw [if_neg h0]
    have hs := nextSymbol_ok FS P hP nice s.p s.c s.mf s.ms s.ra hp hR hpos hra
    have hr := nextSymbol_ra F P hP nice d s.p s.c s.mf s.ms s.ra
    exact stepFacts_of_stepOk FS dictBuf s.p s.c h _ hdb h32 hs hr hh (hrp.mono (by omega)) hrd

theorem step_inv (FS : FinderSound F d dict 273) (P : FastParams) (hP : P.ok) (nice : Nat) (pr : Params)
    (dictBuf : Nat) (hdb : min dict d.size ≤ dictBuf) (h32 : dict ≤ 2 ^ 32)
    (c0 : Coder) (h0 : Hist) (ps0 : Probs) (s : EncSt σ)
    (hinv : SInv FS pr dictBuf c0 h0 ps0 s) (hp : s.p < d.size) :
    SInv FS pr dictBuf c0 h0 ps0 (step F P nice pr d s) ∧
      s.unc + 1 ≤ (step F P nice pr d s).unc ∧ (step F P nice pr d s).unc ≤ s.unc + 273 := by
  obtain ⟨h, hpr, hh, hsz, hple, hp0, hrp, hrd, hR, hpos, hra, hps, hrc, hol⟩ := hinv
  have sf := stepSt_facts FS P hP nice dictBuf hdb h32 s h hp hh hp0 hrp hrd hR hpos hra
  obtain ⟨h', hp', hh'⟩ := sf.parse
  have hL := encSymL_eq pr (ctxAt d s.p s.c) (stepSt F P nice d s).sym s.probs s.rc
  rw [ctxAt_eq hh] at hL
  obtain ⟨hL1, hL2, hL3⟩ := hL
  rw [step_eq]
  have hfold : encFold pr ((stepSt F P nice d s).sym :: s.syms).reverse c0 h0 ps0 Enc.init =
      encSym pr (ctxOf s.c h) (stepSt F P nice d s).sym s.probs s.rc := by
    rw [List.reverse_cons, encFold_append pr dictBuf _ _ _ _ _ _ _ _ hpr, ← hps, ← hrc]
    rfl
  refine ⟨⟨h', ?_, hh', ?_, sf.ple, ?_, sf.repsP.mono (Nat.le_max_left _ 1), sf.repsD, sf.mfR, sf.mfPos, sf.ra, ?_, ?_, ?_⟩,
    ?_, ?_⟩
  · show parseRun dictBuf ((stepSt F P nice d s).sym :: s.syms).reverse c0 h0 = _
    rw [List.reverse_cons, parseRun_append dictBuf _ _ _ _ _ _ hpr]
    exact hp'
  · show h0.size + (s.unc + (stepSt F P nice d s).len) = s.p + (stepSt F P nice d s).len
    omega
  · intro h0'
    have := sf.len1
    have h0'' : s.p + (stepSt F P nice d s).len = 0 := h0'
    omega
  · show (encSymL pr (ctxAt d s.p s.c) (stepSt F P nice d s).sym s.probs s.rc).1 = _
    rw [hfold, ctxAt_eq hh]
    exact hL1
  · show (encSymL pr (ctxAt d s.p s.c) (stepSt F P nice d s).sym s.probs s.rc).2.1 = _
    rw [hfold, ctxAt_eq hh]
    exact hL2
  · show s.outLen + (encSymL pr (ctxAt d s.p s.c) (stepSt F P nice d s).sym s.probs s.rc).2.2 =
      (encSymL pr (ctxAt d s.p s.c) (stepSt F P nice d s).sym s.probs s.rc).2.1.out.length
    rw [ctxAt_eq hh, hL2, hL3, hol]
  · show s.unc + 1 ≤ s.unc + (stepSt F P nice d s).len
    have := sf.len1
    omega
  · show s.unc + (stepSt F P nice d s).len ≤ s.unc + 273
    have := sf.len273
    omega

theorem limit_val : Consts.LZMA2_UNCOMPRESSED_LIMIT = 2096879 := rfl

theorem encodeFor_succ (P : FastParams) (nice : Nat) (pr : Params) (lim fuel : Nat) (s : EncSt σ) :
    encodeFor F P nice pr d lim (fuel + 1) s =
      if s.unc ≤ Consts.LZMA2_UNCOMPRESSED_LIMIT ∧ s.pending ≤ Consts.LZMA2_COMPRESSED_LIMIT then
        if s.p < lim then encodeFor F P nice pr d lim fuel (step F P nice pr d s) else (s, false)
      else (s, true) := rfl

/-- `encode_for_lzma2` keeps the invariant; the chunk never exceeds `2^21` bytes -/
theorem encodeFor_inv (FS : FinderSound F d dict 273) (P : FastParams) (hP : P.ok) (nice : Nat) (pr : Params)
    (dictBuf : Nat) (hdb : min dict d.size ≤ dictBuf) (h32 : dict ≤ 2 ^ 32)
    (c0 : Coder) (h0 : Hist) (ps0 : Probs) (lim : Nat) (hlim : lim ≤ d.size) :
    ∀ (fuel : Nat) (s : EncSt σ), SInv FS pr dictBuf c0 h0 ps0 s → s.unc ≤ 2 ^ 21 →
      SInv FS pr dictBuf c0 h0 ps0 (encodeFor F P nice pr d lim fuel s).1 ∧
      (encodeFor F P nice pr d lim fuel s).1.unc ≤ 2 ^ 21 ∧
      s.unc ≤ (encodeFor F P nice pr d lim fuel s).1.unc
  | 0, s, hi, hu => ⟨hi, hu, Nat.le_refl _⟩
  | fuel + 1, s, hi, hu => by
    rw [encodeFor_succ]
    have hL := limit_val
    split
    · next hc =>
      split
      · next hpl =>
        have hs := step_inv FS P hP nice pr dictBuf hdb h32 c0 h0 ps0 s hi (by omega)
        have ih := encodeFor_inv FS P hP nice pr dictBuf hdb h32 c0 h0 ps0 lim hlim fuel _ hs.1
          (by have := hc.1; have := hs.2.2; omega)
        exact ⟨ih.1, ih.2.1, by have := hs.2.1; have := ih.2.2; omega⟩
      · exact ⟨hi, hu, Nat.le_refl _⟩
    · exact ⟨hi, hu, Nat.le_refl _⟩

/-! ## slices of the data -/

theorem sliceNat_length (d : Array UInt8) (a n : Nat) : (sliceNat d a n).length = n := by
  unfold sliceNat
  rw [List.length_map, List.length_range]

theorem sliceNat_append (d : Array UInt8) (a k m : Nat) :
    sliceNat d a (k + m) = sliceNat d a k ++ sliceNat d (a + k) m := by
  unfold sliceNat
  rw [List.range_add, List.map_append, List.map_map]
  congr 1
  apply List.map_congr_left
  intro i _
  show byteAt d (a + (k + i)) = byteAt d (a + k + i)
  rw [Nat.add_assoc]

theorem sliceNat_split (d : Array UInt8) (a b e : Nat) (hab : a ≤ b) (hbe : b ≤ e) :
    sliceNat d a (e - a) = sliceNat d a (b - a) ++ sliceNat d b (e - b) := by
  have h1 : e - a = (b - a) + (e - b) := by omega
  have h2 : a + (b - a) = b := by omega
  rw [h1, sliceNat_append, h2]

theorem sliceNat_zero (d : Array UInt8) (a : Nat) : sliceNat d a 0 = [] := rfl

theorem sliceNat_succ (d : Array UInt8) (a n : Nat) :
    sliceNat d a (n + 1) = byteAt d a :: sliceNat d (a + 1) n := by
  rw [Nat.add_comm n 1, sliceNat_append]
  rfl

theorem pushAll_slice (d : Array UInt8) : ∀ (n a : Nat) (h : Hist), HistIs d a h →
    HistIs d (a + n) (Lzma2.pushAll h (sliceNat d a n))
  | 0, a, h, hh => hh
  | n + 1, a, h, hh => by
    rw [sliceNat_succ, Lzma2.pushAll]
    have := pushAll_slice d n (a + 1) _ hh.push
    have e : a + 1 + n = a + (n + 1) := by omega
    rw [e] at this
    exact this

/-- the bytes a chunk adds to the history are the bytes of the data -/
theorem extract_slice {d : Array UInt8} {a b : Nat} {h' : Hist} (hh' : HistIs d b h') (hab : a ≤ b) :
    (h'.extract a b).toList = sliceNat d a (b - a) := by
  obtain ⟨hs, hb⟩ := hh'
  apply List.ext_getElem
  · rw [Array.length_toList, Array.size_extract, sliceNat_length, hs, Nat.min_self]
  · intro i h1 h2
    rw [Array.length_toList, Array.size_extract, hs, Nat.min_self] at h1
    rw [Array.getElem_toList, Array.getElem_extract]
    have := hb (a + i) (by omega)
    rw [Array.getD_eq_getD_getElem?, Array.getElem?_eq_getElem (by omega)] at this
    simp only [Option.getD_some] at this
    rw [this]
    simp only [sliceNat, List.getElem_map, List.getElem_range]

/-! ## what a segment's events must satisfy -/

/-- Validity of an event list as seen from the writer's side: `fresh` = the next LZMA chunk starts from the
    initial coder state and fresh tables (a state reset or new properties are announced), `c` / `ps` = the state
    the previous LZMA chunk left, `h` = the history, `data` = what the events denote. -/
def EvsOk (pr : Params) (dictBuf : Nat) : List Ev → Bool → Coder → Probs → Hist → List Nat → Prop
  | [], _, _, _, _, data => data = []
  | .lzma unc parse body :: rest, fresh, c, ps, h, data =>
    ∃ (c' : Coder) (h' : Hist) (data' : List Nat),
      parseRun dictBuf parse (if fresh then Coder.init else c) h = some (c', h') ∧
      h'.size = h.size + unc ∧ 1 ≤ unc ∧ unc ≤ 2 ^ 21 ∧
      body = (encFold pr parse (if fresh then Coder.init else c) h
                (if fresh then Lzma2.freshProbs pr else ps) Enc.init).2.bytes ∧
      body.length ≤ 65536 ∧
      data = (h'.extract h.size h'.size).toList ++ data' ∧
      EvsOk pr dictBuf rest false c'
        (encFold pr parse (if fresh then Coder.init else c) h
          (if fresh then Lzma2.freshProbs pr else ps) Enc.init).1 h' data'
  | .stored raw :: rest, _, c, ps, h, data =>
    ∃ data' : List Nat, 1 ≤ raw.length ∧ data = raw ++ data' ∧
      EvsOk pr dictBuf rest true c ps (Lzma2.pushAll h raw) data'
  | .restart :: _, _, _, _, _, _ => False

theorem repsLt_init (m : Nat) (hm : 1 ≤ m) : RepsLt Coder.init m := ⟨hm, hm, hm, hm⟩

theorem wmax_val : Consts.W_COMPRESSED_SIZE_MAX = 65536 := rfl

/-- the events of a segment from a chunk boundary on are valid and denote the rest of the segment -/
theorem finishLoop_ok (FS : FinderSound F d dict 273) (P : FastParams) (hP : P.ok) (nice : Nat) (pr : Params)
    (dictBuf : Nat) (hd1 : 1 ≤ dict) (hdb : min dict d.size ≤ dictBuf) (h32 : dict ≤ 2 ^ 32) :
    ∀ (fuel : Nat) (s : EncSt σ) (acc evs : List Ev) (h0 : Hist) (fresh : Bool) (c : Coder) (ps : Probs),
      finishLoop F P nice pr d fuel s acc = some evs →
      SInv FS pr dictBuf s.c h0 s.probs s → s.unc = 0 → s.syms = [] →
      s.c = (if fresh then Coder.init else c) → s.probs = (if fresh then Lzma2.freshProbs pr else ps) →
      ∃ evs', evs = acc.reverse ++ evs' ∧
        EvsOk pr dictBuf evs' fresh c ps h0 (sliceNat d h0.size (d.size - h0.size))
  | 0, s, acc, evs, h0, fresh, c, ps, hf, _, _, _, _, _ => by
    simp only [finishLoop] at hf
    exact absurd hf (by simp)
  | fuel + 1, s, acc, evs, h0, fresh, c, ps, hf, hinv, hu0, hsy, hc, hps => by
    simp only [finishLoop] at hf
    have hsz0 : h0.size = s.p := by
      obtain ⟨h, _, _, hsz, _⟩ := hinv
      omega
    split at hf
    · next hlt =>
      rw [hu0, Nat.sub_zero] at hlt
      -- `encode_for_lzma2`
      have he := encodeFor_inv FS P hP nice pr dictBuf hdb h32 s.c h0 s.probs d.size (Nat.le_refl _)
        (d.size + 1) s hinv (by rw [hu0]; omega)
      -- at least one symbol is coded
      have hpos : 1 ≤ (encodeFor F P nice pr d d.size (d.size + 1) s).1.unc := by
        rw [encodeFor_succ]
        have hpend : s.pending = 5 := by
          obtain ⟨h, _, _, _, _, _, _, _, _, _, _, _, hrc, hol⟩ := hinv
          unfold EncSt.pending
          rw [hol, hrc, hsy]
          rfl
        have hcond : s.unc ≤ Consts.LZMA2_UNCOMPRESSED_LIMIT ∧ s.pending ≤ Consts.LZMA2_COMPRESSED_LIMIT := by
          rw [hu0, hpend]
          decide
        rw [if_pos hcond, if_pos hlt]
        have hs := step_inv FS P hP nice pr dictBuf hdb h32 s.c h0 s.probs s hinv hlt
        have hm := encodeFor_inv FS P hP nice pr dictBuf hdb h32 s.c h0 s.probs d.size (Nat.le_refl _)
          d.size _ hs.1 (by have := hs.2.2; omega)
        have := hs.2.1
        have := hm.2.2
        omega
      generalize (encodeFor F P nice pr d d.size (d.size + 1) s).1 = s1 at hf he hpos
      obtain ⟨hinv1, hu1, _⟩ := he
      obtain ⟨h, hpr, hh, hsz, hple, hp0, hrp, hrd, hR, hpos', hra, hps1, hrc1, hol1⟩ := hinv1
      have hW := wmax_val
      cases hw : writeChunk pr d s1 with
      | none => rw [hw] at hf; exact absurd hf (by simp)
      | some r =>
        obtain ⟨s', ev⟩ := r
        rw [hw] at hf
        simp only at hf
        unfold writeChunk at hw
        simp only at hw
        split at hw
        · exact absurd hw (by simp)
        · next hbl =>
          split at hw
          · -- compressed chunk
            next hcmp =>
            simp only [Option.some.injEq, Prod.mk.injEq] at hw
            obtain ⟨rfl, rfl⟩ := hw
            obtain ⟨evs', hev, hok⟩ := finishLoop_ok FS P hP nice pr dictBuf hd1 hdb h32 fuel _ _ evs h false s1.c
              s1.probs hf
              ⟨h, rfl, hh, by show h.size + 0 = s1.p; rw [hh.1, Nat.add_zero], hple, hp0, hrp, hrd, hR, hpos', hra, rfl, rfl, rfl⟩
              rfl rfl rfl rfl
            refine ⟨_ :: evs', by rw [hev, List.reverse_cons, List.append_assoc]; rfl, ?_⟩
            rw [hc] at hpr
            rw [hc, hps] at hps1 hrc1
            refine ⟨s1.c, h, sliceNat d h.size (d.size - h.size), ?_, ?_, hpos, hu1, ?_, ?_, ?_, ?_⟩
            · exact hpr
            · rw [hh.1]; omega
            · rw [hrc1]
            · omega
            · have hx := extract_slice hh (a := h0.size) (by omega)
              rw [← hh.1] at hx
              rw [hx]
              have := hh.1
              exact sliceNat_split d h0.size h.size d.size (by omega) (by omega)
            · rw [← hps1]
              exact hok
          · -- stored chunk
            next hcmp =>
            simp only [Option.some.injEq, Prod.mk.injEq] at hw
            obtain ⟨rfl, rfl⟩ := hw
            have hbase : s1.p + s1.ra - (s1.unc + s1.ra) = h0.size := by omega
            rw [hbase] at hf
            have hh0 : HistIs d h0.size h0 := by
              -- the chunk's start history: `parseRun` of nothing from it
              obtain ⟨hA, hprA, hhA, hszA, _⟩ := hinv
              rw [hsy] at hprA
              simp only [List.reverse_nil, parseRun] at hprA
              cases hprA
              rw [hsz0]
              exact hhA
            have hnew := pushAll_slice d (s1.unc + s1.ra) h0.size h0 hh0
            have hpe : h0.size + (s1.unc + s1.ra) = s1.p + s1.ra := by omega
            rw [hpe] at hnew
            obtain ⟨evs', hev, hok⟩ := finishLoop_ok FS P hP nice pr dictBuf hd1 hdb h32 fuel _ _ evs
              (Lzma2.pushAll h0 (sliceNat d h0.size (s1.unc + s1.ra))) true c ps hf
              ⟨_, rfl, hnew, by show _ + 0 = s1.p + s1.ra; rw [hnew.1, Nat.add_zero], by show s1.p + s1.ra + 0 ≤ d.size; omega,
                fun _ => rfl, repsLt_init _ (Nat.le_max_right _ 1), repsLt_init _ hd1, hR,
                by show FS.pos s1.mf = s1.p + s1.ra + 0; rw [hpos', Nat.add_zero], Or.inl rfl, rfl, rfl, rfl⟩
              rfl rfl rfl rfl
            refine ⟨_ :: evs', by rw [hev, List.reverse_cons, List.append_assoc]; rfl, ?_⟩
            refine ⟨sliceNat d (s1.p + s1.ra) (d.size - (s1.p + s1.ra)), ?_, ?_, ?_⟩
            · rw [sliceNat_length]; omega
            · rw [← hpe, ← sliceNat_append]
              congr 1
              omega
            · rw [hnew.1] at hok
              exact hok
    · next hge =>
      simp only [Option.some.injEq] at hf
      refine ⟨[], by rw [← hf, List.append_nil], ?_⟩
      have : d.size - h0.size = 0 := by omega
      rw [this]
      rfl

/-- the history of the first `q0` bytes of `d` (the used part of the preset dictionary) -/
def histOf (d : Array UInt8) (q0 : Nat) : Hist := Lzma2.pushAll #[] (sliceNat d 0 q0)

theorem histOf_is (d : Array UInt8) (q0 : Nat) : HistIs d q0 (histOf d q0) := by
  have := pushAll_slice d q0 0 #[] (HistIs.empty d)
  rw [Nat.zero_add] at this
  exact this

/-- **one encoder instance, every input**: the events `segEvents` returns are valid from the writer's initial
    state (fresh coder, history = the `q0` preset bytes) and denote exactly the bytes `d[q0 ..]`. -/
theorem segEvents_ok (FS : FinderSound F d dict 273) (P : FastParams) (hP : P.ok) (nice : Nat) (pr : Params)
    (dictBuf : Nat) (hd1 : 1 ≤ dict) (hdb : min dict d.size ≤ dictBuf) (h32 : dict ≤ 2 ^ 32)
    (q0 : Nat) (hq : q0 ≤ d.size) (evs : List Ev) (c : Coder) (ps : Probs)
    (h : segEvents F P nice pr d q0 = some evs) :
    EvsOk pr dictBuf evs true c ps (histOf d q0) (sliceNat d q0 (d.size - q0)) := by
  unfold segEvents at h
  have hh := histOf_is d q0
  obtain ⟨evs', hev, hok⟩ := finishLoop_ok FS P hP nice pr dictBuf hd1 hdb h32 (d.size + 1) _ [] evs
    (histOf d q0) true c ps h
    ⟨histOf d q0, rfl, hh, by show _ + 0 = q0; rw [hh.1, Nat.add_zero], by show q0 + 0 ≤ d.size; omega,
      fun _ => rfl, repsLt_init _ (Nat.le_max_right _ 1), repsLt_init _ hd1, FS.skip_R _ _ FS.init_R,
      by show FS.pos (F.skip d q0 F.init) = q0 + 0; rw [FS.skip_pos _ _ FS.init_R, FS.init_pos]; omega,
      Or.inl rfl, rfl, rfl, rfl⟩
    rfl rfl rfl rfl
  rw [List.reverse_nil, List.nil_append] at hev
  rw [hev, hh.1] at *
  exact hok

end Seg

end LzmaVerif.Lzma2W
