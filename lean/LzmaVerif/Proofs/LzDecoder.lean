import LzmaVerif.Proofs.LzDecoderLoop
import LzmaVerif.Model.Parse
/-!
# The cyclic dictionary buffer refines the unbounded history (`src/lz/lz_decoder.rs`)

Model: `Model/LzDecoder.lean` (validated against the real `LZDecoder` through `verif_hooks::lz_decoder_script`).
Invariant and per-method theorems: `Proofs/LzDecoderInv.lean`, `Proofs/LzDecoderMethods.lean`
(`new_spec`, `reset_spec`, `setLimit_spec`, `getByte_spec`, `putByte_spec`, `repeat_spec`,
`repeatPending_spec`, `flush_spec`); reader loop: `Proofs/LzDecoderLoop.lean` (`consume_spec`, `round_spec`).

This file: the end-to-end theorems (`rounds_refine`, `readAll_refine`, partition independence), the
abstraction function `abs` (the window = the last `full` bytes of the history), and the witnesses.
-/
namespace LzmaVerif.LzDecoder
open LzmaVerif LzmaVerif.Lzma

/-! ## Any sequence of iterations -/

theorem rounds_spec {n : Nat} (hn : 1 ≤ n) {Final : Hist} : ∀ (sizes : List Nat) (s : State) (H : Hist) (base : Nat)
    (rest : List Sym), Between n s H base rest Final → (∀ x ∈ sizes, 1 ≤ x) →
    ∃ out s' rest' H' base', rounds s sizes rest = .ok (out, s', rest') ∧ Between n s' H' base' rest' Final ∧
      H'.toList = H.toList ++ out := by
  intro sizes
  induction sizes with
  | nil =>
    intro s H base rest hb _
    exact ⟨[], s, rest, H, base, rfl, hb, by simp⟩
  | cons x xs ih =>
    intro s H base rest hb hpos
    obtain ⟨o1, s1, r1, H1, base1, hrun1, hb1, hl1, _, _, _⟩ := round_spec hb hn x (hpos x (by simp))
    obtain ⟨o2, s2, r2, H2, base2, hrun2, hb2, hl2⟩ := ih s1 H1 base1 r1 hb1 (fun y hy => hpos y (by simp [hy]))
    refine ⟨o1 ++ o2, s2, r2, H2, base2, ?_, hb2, by rw [hl2, hl1, List.append_assoc]⟩
    simp only [rounds, hrun1, hrun2]

theorem between_new (dict : Nat) (preset : Option (List Nat)) (syms : List Sym)
    (hadm : Admissible dict (presetUsed dict preset).toArray syms) :
    Between dict (new dict preset) (presetUsed dict preset).toArray 0 syms
      (applySyms (presetUsed dict preset).toArray syms) := by
  obtain ⟨hi, hst, hpl, hbs, _⟩ := new_spec dict preset
  have hv : virt (new dict preset) (presetUsed dict preset).toArray = (presetUsed dict preset).toArray := by
    unfold virt; rw [hpl]; rfl
  exact ⟨hi, hbs, hst, by intro h; omega, by rw [hv]; exact hadm, by rw [hv]⟩

/-- **Refinement, iteration level.**  Start from `LZDecoder::new(dict, preset)`, run the iteration
`set_limit(n); repeat_pending; symbols while has_space; flush` for ANY list of positive sizes over an
admissible symbol sequence.  Then no step fails (no index out of range, no underflow, no failed debug
assertion, no "dist overflow"), and the bytes handed out so far, followed by the pending part of a cut
match and the symbols not yet consumed, are exactly the one-shot history of the unbounded model. -/
theorem rounds_refine (dict : Nat) (preset : Option (List Nat)) (syms : List Sym) (sizes : List Nat)
    (hd : 1 ≤ dict) (hpos : ∀ x ∈ sizes, 1 ≤ x)
    (hadm : Admissible dict (presetUsed dict preset).toArray syms) :
    ∃ out s' rest, rounds (new dict preset) sizes syms = .ok (out, s', rest) ∧
      applySyms (Hist.copy (presetUsed dict preset ++ out).toArray s'.pendingDist s'.pendingLen) rest =
        applySyms (presetUsed dict preset).toArray syms ∧
      out = (((applySyms (presetUsed dict preset).toArray syms).toList.drop (presetUsed dict preset).length).take out.length) ∧
      (rest = [] → s'.pendingLen = 0 →
        out = (applySyms (presetUsed dict preset).toArray syms).toList.drop (presetUsed dict preset).length) := by
  obtain ⟨out, s', rest, H', base', hrun, hb', hl⟩ :=
    rounds_spec hd sizes _ _ _ _ (between_new dict preset syms hadm) hpos
  have hH' : H' = (presetUsed dict preset ++ out).toArray := by
    rw [← Array.toArray_toList (xs := H'), hl]
  have hfin := hb'.fin
  unfold virt at hfin
  have hext := ext_toList hb'.ext
  refine ⟨out, s', rest, hrun, by rw [← hH']; exact hfin, ?_, ?_⟩
  · rw [hext, hl]
    simp
  · intro hr hp
    rw [hr, hp] at hfin
    have : H' = applySyms (presetUsed dict preset).toArray syms := hfin
    rw [← this, hl]
    simp

/-- the result does not depend on the iteration sizes once everything has been consumed -/
theorem rounds_partition_free (dict : Nat) (preset : Option (List Nat)) (syms : List Sym) (sizes₁ sizes₂ : List Nat)
    (hd : 1 ≤ dict) (h1 : ∀ x ∈ sizes₁, 1 ≤ x) (h2 : ∀ x ∈ sizes₂, 1 ≤ x)
    (hadm : Admissible dict (presetUsed dict preset).toArray syms)
    {o1 o2 : List Nat} {s1 s2 : State}
    (r1 : rounds (new dict preset) sizes₁ syms = .ok (o1, s1, [])) (p1 : s1.pendingLen = 0)
    (r2 : rounds (new dict preset) sizes₂ syms = .ok (o2, s2, [])) (p2 : s2.pendingLen = 0) : o1 = o2 := by
  obtain ⟨out, s', rest, hrun, _, _, hfull⟩ := rounds_refine dict preset syms sizes₁ hd h1 hadm
  obtain ⟨out', s'', rest', hrun', _, _, hfull'⟩ := rounds_refine dict preset syms sizes₂ hd h2 hadm
  rw [r1] at hrun; rw [r2] at hrun'
  cases hrun; cases hrun'
  rw [hfull rfl p1, hfull' rfl p2]

/-! ## `read` calls -/

theorem readCall_spec {n : Nat} (hn : 1 ≤ n) {Final : Hist} : ∀ (fuel : Nat) (s : State) (H : Hist) (base : Nat)
    (rest : List Sym) (len : Nat), Between n s H base rest Final → (len < fuel ∨ (len ≤ fuel ∧ s.pos < n)) →
    ∃ out s' rest' H' base', readCall fuel s len rest = .ok (out, s', rest') ∧ Between n s' H' base' rest' Final ∧
      H'.toList = H.toList ++ out ∧ out.length = min len (Final.size - H.size) := by
  intro fuel
  induction fuel with
  | zero =>
    intro s H base rest len hb hf
    have : len = 0 := by omega
    subst this
    exact ⟨[], s, rest, H, base, rfl, hb, by simp, by simp⟩
  | succ f ih =>
    intro s H base rest len hb hf
    by_cases hl0 : len = 0
    · subst hl0
      refine ⟨[], s, rest, H, base, ?_, hb, by simp, by simp⟩
      simp only [readCall, if_true]
    · obtain ⟨o1, s1, r1, H1, base1, hrun1, hb1, hl1, hle1, hpos1, hprog1⟩ := round_spec hb hn len (by omega)
      have hsz1 : H1.size = H.size + o1.length := by
        have := congrArg List.length hl1
        rw [List.length_append, Array.length_toList, Array.length_toList] at this
        exact this
      have hF1 := hb1.ext.1
      by_cases hend : r1 = [] ∧ s1.pendingLen = 0
      · refine ⟨o1, s1, r1, H1, base1, ?_, hb1, hl1, ?_⟩
        · simp only [readCall, hl0, if_false, hrun1, hend, and_self, if_true]
        · have hfin := hb1.fin
          unfold virt at hfin
          rw [hend.1, hend.2] at hfin
          have : H1 = Final := hfin
          rw [← this, hsz1]; omega
      · have hfuel : len - o1.length < f ∨ (len - o1.length ≤ f ∧ s1.pos < n) := by
          right
          refine ⟨?_, hpos1⟩
          rcases hf with h | ⟨h, hp⟩
          · omega
          · rcases hprog1 hp with h' | h'
            · have := hb.inv.rep.pos_le; have := hb.bufSize; omega
            · exact absurd h' hend
        obtain ⟨o2, s2, r2, H2, base2, hrun2, hb2, hl2, hlen2⟩ := ih s1 H1 base1 r1 (len - o1.length) hb1 hfuel
        refine ⟨o1 ++ o2, s2, r2, H2, base2, ?_, hb2, by rw [hl2, hl1, List.append_assoc], ?_⟩
        · simp only [readCall, hl0, if_false, hrun1, hend, hrun2]
        · rw [List.length_append, hlen2, hsz1]; omega

theorem readAll_spec {n : Nat} (hn : 1 ≤ n) {Final : Hist} : ∀ (sizes : List Nat) (s : State) (H : Hist) (base : Nat)
    (rest : List Sym), Between n s H base rest Final →
    ∃ out s' rest' H' base', readAll s sizes rest = .ok (out, s', rest') ∧ Between n s' H' base' rest' Final ∧
      H'.toList = H.toList ++ out ∧ out.length = min sizes.sum (Final.size - H.size) := by
  intro sizes
  induction sizes with
  | nil =>
    intro s H base rest hb
    exact ⟨[], s, rest, H, base, rfl, hb, by simp, by simp⟩
  | cons x xs ih =>
    intro s H base rest hb
    obtain ⟨o1, s1, r1, H1, base1, hrun1, hb1, hl1, hlen1⟩ :=
      readCall_spec hn (x + 1) s H base rest x hb (Or.inl (Nat.lt_succ_self _))
    obtain ⟨o2, s2, r2, H2, base2, hrun2, hb2, hl2, hlen2⟩ := ih s1 H1 base1 r1 hb1
    have hsz1 : H1.size = H.size + o1.length := by
      have := congrArg List.length hl1
      rw [List.length_append, Array.length_toList, Array.length_toList] at this
      exact this
    refine ⟨o1 ++ o2, s2, r2, H2, base2, ?_, hb2, by rw [hl2, hl1, List.append_assoc], ?_⟩
    · simp only [readAll, hrun1, hrun2]
    · rw [List.length_append, hlen1, hlen2, hsz1, hlen1, List.sum_cons]; omega

/-- **Refinement, `read` level (C07 for the reader side, C06/C15 index safety).**  For every admissible
symbol sequence and EVERY list of read buffer lengths (zero-length reads included), the `read` calls of
the reader over the cyclic buffer never fail and return, concatenated, exactly the first `sizes.sum`
bytes of what the unbounded history model produces after the preset dictionary. -/
theorem readAll_refine (dict : Nat) (preset : Option (List Nat)) (syms : List Sym) (sizes : List Nat)
    (hd : 1 ≤ dict) (hadm : Admissible dict (presetUsed dict preset).toArray syms) :
    ∃ s' rest, readAll (new dict preset) sizes syms =
      .ok (((applySyms (presetUsed dict preset).toArray syms).toList.drop (presetUsed dict preset).length).take sizes.sum,
           s', rest) := by
  obtain ⟨out, s', rest, H', base', hrun, hb', hl, hlen⟩ :=
    readAll_spec hd sizes _ _ _ _ (between_new dict preset syms hadm)
  have hext := ext_toList hb'.ext
  refine ⟨s', rest, ?_⟩
  rw [hrun]
  congr 2
  have hX : (Array.extract (applySyms (presetUsed dict preset).toArray syms) H'.size
      (applySyms (presetUsed dict preset).toArray syms).size).toList.length =
      (applySyms (presetUsed dict preset).toArray syms).size - H'.size := by
    rw [Array.length_toList, Array.size_extract]; omega
  have hsz : H'.size = (presetUsed dict preset).length + out.length := by
    have := congrArg List.length hl
    rw [List.length_append, Array.length_toList] at this
    simpa using this
  generalize (Array.extract (applySyms (presetUsed dict preset).toArray syms) H'.size
      (applySyms (presetUsed dict preset).toArray syms).size).toList = X at hext hX
  rw [hext, hl]
  have hFs : (applySyms (presetUsed dict preset).toArray syms).size = H'.size + X.length := by
    have := congrArg List.length hext
    rw [List.length_append, Array.length_toList, Array.length_toList] at this
    exact this
  simp only [List.append_assoc, List.drop_left, List.size_toArray] at hlen ⊢
  rw [List.take_append]
  by_cases hc : out.length = sizes.sum
  · rw [← hc]; simp
  · have : X = [] := by
      apply List.eq_nil_of_length_eq_zero; omega
    subst this
    rw [List.take_of_length_le (by omega)]; simp

/-- **Independence from call partitioning**: two read schedules that ask for the same number of bytes
    get the same bytes -/
theorem readAll_partition_free (dict : Nat) (preset : Option (List Nat)) (syms : List Sym) (sizes₁ sizes₂ : List Nat)
    (hd : 1 ≤ dict) (hadm : Admissible dict (presetUsed dict preset).toArray syms) (hsum : sizes₁.sum = sizes₂.sum) :
    (readAll (new dict preset) sizes₁ syms).map (·.1) = (readAll (new dict preset) sizes₂ syms).map (·.1) := by
  obtain ⟨s1, r1, h1⟩ := readAll_refine dict preset syms sizes₁ hd hadm
  obtain ⟨s2, r2, h2⟩ := readAll_refine dict preset syms sizes₂ hd hadm
  rw [h1, h2, hsum]; rfl

/-- asking for at least as many bytes as there are yields the complete one-shot result -/
theorem readAll_complete (dict : Nat) (preset : Option (List Nat)) (syms : List Sym) (sizes : List Nat)
    (hd : 1 ≤ dict) (hadm : Admissible dict (presetUsed dict preset).toArray syms)
    (hsum : (applySyms (presetUsed dict preset).toArray syms).size - (presetUsed dict preset).length ≤ sizes.sum) :
    (readAll (new dict preset) sizes syms).map (·.1) =
      .ok ((applySyms (presetUsed dict preset).toArray syms).toList.drop (presetUsed dict preset).length) := by
  obtain ⟨s1, r1, h1⟩ := readAll_refine dict preset syms sizes hd hadm
  rw [h1]
  show Except.ok _ = Except.ok _
  congr 1
  apply List.take_of_length_le
  rw [List.length_drop, Array.length_toList]; exact hsum

/-! ## The abstraction function: the window -/

/-- the last `k` bytes of a history -/
def lastN (k : Nat) (h : Hist) : Hist := h.extract (h.size - k) h.size

/-- the dictionary window held by the buffer, oldest byte first: the previous lap from `pos` up to `full`,
    then the current lap up to `pos` -/
def abs (s : State) : Hist := s.buf.extract s.pos s.full ++ s.buf.extract 0 s.pos

theorem size_lastN (k : Nat) (h : Hist) (hk : k ≤ h.size) : (lastN k h).size = k := by
  unfold lastN; rw [Array.size_extract]; omega

theorem getD_lastN (k : Nat) (h : Hist) (hk : k ≤ h.size) (i : Nat) (hi : i < k) :
    (lastN k h).getD i 0 = h.getD (h.size - k + i) 0 := by
  unfold lastN
  have := getD_extract h (h.size - k) k i (by omega) hi
  rw [Nat.sub_add_cancel hk] at this
  exact this

theorem lastN_self (h : Hist) : lastN h.size h = h := by
  unfold lastN; rw [Nat.sub_self]; exact Array.extract_size

theorem extract_eq_of_getD' (a b : Array Nat) (sa ea sb eb : Nat) (hc : ea - sa = eb - sb) (h1 : sa ≤ ea)
    (h2 : sb ≤ eb) (ha : ea ≤ a.size) (hb : eb ≤ b.size)
    (h : ∀ j, j < ea - sa → a.getD (sa + j) 0 = b.getD (sb + j) 0) : a.extract sa ea = b.extract sb eb := by
  have e1 : ea = sa + (ea - sa) := by omega
  have e2 : eb = sb + (ea - sa) := by omega
  rw [e1, e2]
  exact extract_eq_of_getD a b sa sb (ea - sa) (by omega) (by omega) h

/-- **Abstraction.** Under the invariant the window is the last `full = min |H| buf_size` bytes of the history -/
theorem abs_eq {s : State} {H : Hist} {base : Nat} (hi : Inv s H base) : abs s = lastN s.full H := by
  have hr := hi.rep
  have hsz := hr.size
  have htot := hr.total
  have hple := hr.pos_le
  unfold abs lastN
  rcases hi.full_eq with ⟨h1, h2⟩ | ⟨h1, h2⟩
  · subst h1
    rw [h2, Array.extract_eq_empty_of_le (by omega), Array.empty_append]
    apply extract_eq_of_getD' _ _ _ _ _ _ (by omega) (by omega) (by omega) (by omega) (by omega)
    intro j hj
    rw [hr.cur _ (by omega)]; congr 1; omega
  · rw [h2]
    have e1 : s.buf.extract s.pos s.bufSize = H.extract (base + s.pos - s.bufSize) base := by
      apply extract_eq_of_getD' _ _ _ _ _ _ (by omega) (by omega) (by omega) (by omega) (by omega)
      intro j hj
      rw [hr.old h1 _ (by omega) (by omega)]; congr 1; omega
    have e2 : s.buf.extract 0 s.pos = H.extract base (base + s.pos) := by
      apply extract_eq_of_getD' _ _ _ _ _ _ (by omega) (by omega) (by omega) (by omega) (by omega)
      intro j hj
      rw [hr.cur _ (by omega)]; congr 1; omega
    rw [e1, e2, Array.extract_append_extract, htot]
    congr 1 <;> omega

theorem back_lastN (k : Nat) (h : Hist) (hk : k ≤ h.size) (d : Nat) (hd : d < k) : (lastN k h).back d = h.back d := by
  rw [back_def _ _ (by rw [size_lastN k h hk]; exact hd), back_def _ _ (by omega), size_lastN k h hk,
      getD_lastN k h hk _ (by omega)]
  congr 1; omega

/-- `get_byte(dist)` reads the window byte `dist+1` back -/
theorem getByte_abs {s : State} {H : Hist} {base : Nat} (hi : Inv s H base) (dist : Nat) (hd : dist < s.full) :
    s.getByte dist = .ok ((abs s).back dist) := by
  have hf := hi.full_eq_min
  rw [getByte_spec hi dist (Or.inl hd), abs_eq hi, back_lastN _ _ (by omega) _ hd]

theorem lastN_push (k f : Nat) (H : Hist) (b : Nat) (hk : k ≤ f + 1) (hf : f ≤ H.size) :
    lastN k ((lastN f H).push b) = lastN k (H.push b) := by
  have hs1 : ((lastN f H).push b).size = f + 1 := by rw [Array.size_push, size_lastN f H hf]
  have hs2 : (H.push b).size = H.size + 1 := Array.size_push _
  apply ext_getD
  · rw [size_lastN _ _ (by omega), size_lastN _ _ (by omega)]
  · intro i hi
    rw [size_lastN _ _ (by omega)] at hi
    rw [getD_lastN _ _ (by omega) _ hi, getD_lastN _ _ (by omega) _ hi, hs1, hs2, getD_push, getD_push,
        size_lastN f H hf]
    by_cases h : f + 1 - k + i = f
    · rw [if_pos h, if_pos (by omega)]
    · rw [if_neg h, if_neg (by omega), getD_lastN f H hf _ (by omega)]
      congr 1; omega

theorem lastN_copy (d : Nat) : ∀ (l k f : Nat) (H : Hist), d < f → f ≤ H.size → k ≤ f + l →
    lastN k (Hist.copy (lastN f H) d l) = lastN k (Hist.copy H d l) := by
  intro l
  induction l with
  | zero =>
    intro k f H hd hf hk
    rw [copy_zero, copy_zero]
    apply ext_getD
    · rw [size_lastN _ _ (by rw [size_lastN f H hf]; omega), size_lastN _ _ (by omega)]
    · intro i hi
      rw [size_lastN _ _ (by rw [size_lastN f H hf]; omega)] at hi
      rw [getD_lastN _ _ (by rw [size_lastN f H hf]; omega) _ hi, getD_lastN _ _ (by omega) _ hi,
          size_lastN f H hf, getD_lastN f H hf _ (by omega)]
      congr 1; omega
  | succ l ih =>
    intro k f H hd hf hk
    rw [copy_succ, copy_succ, back_lastN f H hf d hd]
    have e : (lastN f H).push (H.back d) = lastN (f + 1) (H.push (H.back d)) := by
      have := lastN_push (f + 1) f H (H.back d) (Nat.le_refl _) hf
      rw [← this]
      have hs : ((lastN f H).push (H.back d)).size = f + 1 := by rw [Array.size_push, size_lastN f H hf]
      conv => lhs; rw [← lastN_self ((lastN f H).push (H.back d)), hs]
    rw [e]
    exact ih k (f + 1) (H.push (H.back d)) (by omega) (by rw [Array.size_push]; omega) (by omega)

/-- `put_byte` is `Hist.push` on the window (truncated to the dictionary size) -/
theorem abs_putByte {s : State} {H : Hist} {base : Nat} (hi : Inv s H base) (hspace : s.pos < s.limit) (b : Nat) :
    ∃ s', s.putByte b = .ok s' ∧ abs s' = lastN s'.full ((abs s).push b) ∧ s'.full = min (s.full + 1) s.bufSize := by
  obtain ⟨s', hrun, hi', post⟩ := putByte_spec hi hspace b
  have hf := hi.full_eq_min
  have hf' := hi'.full_eq_min
  rw [Array.size_push, post.bufSize] at hf'
  refine ⟨s', hrun, ?_, by omega⟩
  rw [abs_eq hi', abs_eq hi, lastN_push _ _ _ _ (by omega) (by omega)]

/-- `repeat(dist, len)` is `Hist.copy` on the window for the `c = min (limit - pos) len` bytes that fit;
    the rest stays pending and is copied by the following `repeat_pending` calls (`repeatPending_spec`) -/
theorem abs_repeat {s : State} {H : Hist} {base dist len : Nat} (hi : Inv s H base)
    (hspace : s.pos < s.limit) (hd : dist < s.full) (hlen : 1 ≤ len) :
    ∃ s', s.repeat dist len = .ok s' ∧
      abs s' = lastN s'.full (Hist.copy (abs s) dist (min (s.limit - s.pos) len)) ∧
      s'.full = min (s.full + min (s.limit - s.pos) len) s.bufSize ∧
      s'.pendingLen = len - min (s.limit - s.pos) len ∧ s'.pendingDist = dist := by
  obtain ⟨s', hrun, hi', post⟩ := repeat_spec hi hspace hd hlen
  have hf := hi.full_eq_min
  have hf' := hi'.full_eq_min
  rw [size_copy, post.bufSize] at hf'
  refine ⟨s', hrun, ?_, by omega, post.pendingLen, post.pendingDist⟩
  rw [abs_eq hi', abs_eq hi, lastN_copy _ _ _ _ _ hd (by omega) (by omega)]

/-! ## `copy_uncompressed` (LZMA2 stored chunks) -/

theorem appendList_ext (H : Hist) (xs : List Nat) : Ext H (H ++ xs.toArray) := by
  refine ⟨by rw [Array.size_append]; omega, fun i hi => ?_⟩
  simp only [getD_def, Array.getElem?_append_left hi]

theorem copyUncompressed_spec {s : State} {H : Hist} {base : Nat} (hi : Inv s H base) (data : List Nat) (len : Nat)
    (hdata : min (s.bufSize - s.pos) len ≤ data.length) :
    ∃ s', s.copyUncompressed data len = .ok s' ∧
      Inv s' (H ++ (data.take (min (s.bufSize - s.pos) len)).toArray) base ∧
      s'.pos = s.pos + min (s.bufSize - s.pos) len := by
  have hr := hi.rep
  have hsz := hr.size
  have htot := hr.total
  have hple := hr.pos_le
  generalize hc : min (s.bufSize - s.pos) len = c at *
  have hxs : (data.take c).toArray.size = c := by
    rw [List.size_toArray, List.length_take]; omega
  unfold State.copyUncompressed
  rw [if_neg (by omega)]
  simp only [hc]
  rw [if_neg (by omega), if_neg (by omega)]
  have hrep := hr.blit_step (data.take c).toArray (H ++ (data.take c).toArray) (appendList_ext _ _)
    (by rw [Array.size_append]) (by rw [hxs]; omega)
    (by intro j hj
        simp only [getD_def]
        rw [Array.getElem?_append_right (by omega)]
        congr 2; omega)
  rw [hxs] at hrep
  refine ⟨_, rfl, ⟨hrep, by simp only []; have := hi.start_le; omega, hi.limit_le, ?_, ?_⟩, rfl⟩
  · simp only []
    rcases hi.full_eq with ⟨h1, h2⟩ | ⟨h1, h2⟩
    · left; refine ⟨h1, ?_⟩; split <;> omega
    · right; refine ⟨h1, ?_⟩; rw [if_neg (by omega)]; exact h2
  · intro h0
    simp only [] at h0 ⊢
    have hc0 : c = 0 := by split at h0 <;> omega
    have hf0 : s.full = 0 := by split at h0 <;> omega
    rw [blit_getD _ _ _ _ (by rw [hxs]; omega), if_neg (by rw [hxs]; omega)]
    exact hi.zero hf0

/-! ## Witnesses: every copy strategy of `repeat` is exercised; why `dist ≥ full` is rejected -/

deriving instance DecidableEq for Except

/-- no wrap, `dist ≥ left`: `split_at_mut` + `copy_from_slice` -/
theorem witness_direct :
    runScript 8 none [(0, 8, 0), (1, 1, 0), (1, 2, 0), (1, 3, 0), (2, 2, 2), (4, 0, 0)] = .ok [1, 2, 3, 1, 2] := by
  decide +kernel

/-- no wrap, `dist < left`: the overlapping `copy_within` loop (period 1, then period 2 with doubling) -/
theorem witness_overlap :
    runScript 8 none [(0, 8, 0), (1, 7, 0), (2, 0, 3), (4, 0, 0)] = .ok [7, 7, 7, 7] ∧
    runScript 16 none [(0, 16, 0), (1, 1, 0), (1, 2, 0), (2, 1, 7), (4, 0, 0)] = .ok [1, 2, 1, 2, 1, 2, 1, 2, 1] := by
  decide +kernel

/-- the distance wraps around the end of the buffer: early return (match ends inside the old lap),
    wrap + direct copy, wrap + overlapping loop -/
theorem witness_wrap :
    runScript 4 none [(0, 4, 0), (1, 1, 0), (1, 2, 0), (1, 3, 0), (1, 4, 0), (4, 0, 0), (0, 4, 0), (2, 3, 2), (4, 0, 0)]
      = .ok [1, 2, 3, 4, 1, 2] ∧
    runScript 4 none [(0, 4, 0), (1, 1, 0), (1, 2, 0), (1, 3, 0), (1, 4, 0), (4, 0, 0), (0, 4, 0), (2, 2, 4), (4, 0, 0)]
      = .ok [1, 2, 3, 4, 2, 3, 4, 2] ∧
    runScript 4 none [(0, 4, 0), (1, 1, 0), (1, 2, 0), (1, 3, 0), (1, 4, 0), (4, 0, 0), (0, 4, 0), (2, 1, 4), (4, 0, 0)]
      = .ok [1, 2, 3, 4, 3, 4, 3, 4] := by
  decide +kernel

/-- a match cut by the limit is completed by `repeat_pending` over later calls, across a wrap of the buffer,
    with a preset dictionary longer than the buffer -/
theorem witness_pending :
    runScript 4 (some [9, 9, 5, 6, 7, 8]) [(0, 3, 0), (3, 0, 0), (4, 0, 0), (0, 3, 0), (2, 3, 7), (4, 0, 0),
        (0, 2, 0), (3, 0, 0), (4, 0, 0), (0, 9, 0), (3, 0, 0), (4, 0, 0), (0, 9, 0), (3, 0, 0), (4, 0, 0)]
      = .ok [5, 6, 7, 8, 5, 6, 7] := by
  decide +kernel

/-- the same symbols under two different read schedules (model of the reader loop) -/
theorem witness_schedules :
    (readAll (new 4 (some [1, 2])) [1, 1, 1, 1, 1, 1, 1, 1, 1] [.lit 3, .mtch 2 6, .lit 4, .mtch 0 1]).map (·.1)
      = .ok [3, 1, 2, 3, 1, 2, 3, 4, 4] ∧
    (readAll (new 4 (some [1, 2])) [0, 7, 0, 5] [.lit 3, .mtch 2 6, .lit 4, .mtch 0 1]).map (·.1)
      = .ok [3, 1, 2, 3, 1, 2, 3, 4, 4] := by
  decide +kernel

/-- `dist = full` is rejected ("dist overflow"), `dist = full - 1` is accepted -/
theorem witness_dist_overflow :
    runScript 8 none [(0, 8, 0), (1, 1, 0), (1, 2, 0), (2, 2, 1)] = .error "dist overflow" ∧
    runScript 8 none [(0, 8, 0), (1, 1, 0), (1, 2, 0), (2, 1, 1), (4, 0, 0)] = .ok [1, 2, 1] := by
  decide +kernel

/-- why the check is needed: the buffer keeps bytes the history no longer has.  After `reset` the history
    is empty (`Hist.back #[] 1 = 0`), but slot `buf_size - 2` still holds a byte written before the reset;
    `get_byte` (which has no check) hands it out, and so would an unchecked `repeat`. -/
theorem witness_stale :
    (((new 4 none).setLimit 4).putByte 1 >>= (·.putByte 2) >>= (·.putByte 3) >>= (·.putByte 4)
      >>= (·.flush 4) >>= (·.2.reset) >>= (·.getByte 1)) = .ok 3 ∧
    Hist.back #[] 1 = 0 := by
  decide +kernel

/-- a zero-length iteration with a pending match trips `debug_assert!(left > 0)` (debug builds only; the
    readers never do this: they return early on an empty buffer) -/
theorem witness_zero_limit :
    runScript 4 none [(0, 2, 0), (1, 1, 0), (2, 0, 3), (4, 0, 0), (0, 0, 0), (3, 0, 0)]
      = .error "panic: debug assertion" := by
  decide +kernel

/-! ## Link to the LZMA symbol model (`Model/Parse.lean`) -/

/-- the dictionary operations behind a parse of the LZMA symbol model (`Model/Parse.lean`) -/
def ofParse : Coder → List Lzma.Sym → List Sym
  | _, [] => []
  | c, s :: r =>
    (match s with
     | .lit b => Sym.lit b
     | _ => match s.copyOf c with
            | some (d, l) => Sym.mtch d l
            | none => Sym.lit 0) :: ofParse (c.apply s) r

/-- a parse that `parseRun` accepts is an admissible symbol sequence for the cyclic buffer, and the
    history `parseRun` computes is `applySyms` of it -/
theorem ofParse_admissible (n : Nat) : ∀ (syms : List Lzma.Sym) (c : Coder) (h : Hist) (c' : Coder) (h' : Hist),
    parseRun n syms c h = some (c', h') → Admissible n h (ofParse c syms) ∧ applySyms h (ofParse c syms) = h' := by
  intro syms
  induction syms with
  | nil =>
    intro c h c' h' hp
    simp only [parseRun, Option.some.injEq, Prod.mk.injEq] at hp
    exact ⟨trivial, hp.2⟩
  | cons s r ih =>
    intro c h c' h' hp
    cases s with
    | lit b =>
      simp only [parseRun] at hp
      split at hp
      · exact ih _ _ _ _ hp
      · exact absurd hp (by simp)
    | mtch d l =>
      simp only [parseRun, Sym.copyOf] at hp
      split at hp
      · rename_i hc
        obtain ⟨hok, h1, h2⟩ := hc
        simp only [SymOk] at hok
        have := ih _ _ _ _ hp
        exact ⟨⟨by omega, h1, h2, this.1⟩, this.2⟩
      · exact absurd hp (by simp)
    | rep i l =>
      simp only [parseRun, Sym.copyOf] at hp
      split at hp
      · rename_i hc
        obtain ⟨hok, h1, h2⟩ := hc
        simp only [SymOk] at hok
        have := ih _ _ _ _ hp
        exact ⟨⟨by omega, h1, h2, this.1⟩, this.2⟩
      · exact absurd hp (by simp)
    | shortRep =>
      simp only [parseRun, Sym.copyOf] at hp
      split at hp
      · rename_i hc
        obtain ⟨hok, h1, h2⟩ := hc
        have := ih _ _ _ _ hp
        exact ⟨⟨by omega, h1, h2, this.1⟩, this.2⟩
      · exact absurd hp (by simp)

/-- the reader over the cyclic buffer hands out, for every read schedule, the history that `parseRun`
    (the specification used by the LZMA / LZMA2 round-trip theorems) assigns to the parse -/
theorem readAll_of_parse (dict : Nat) (preset : Option (List Nat)) (syms : List Lzma.Sym) (sizes : List Nat)
    (hd : 1 ≤ dict) (c' : Coder) (h' : Hist)
    (hp : parseRun dict syms Coder.init (presetUsed dict preset).toArray = some (c', h')) :
    ∃ s' rest, readAll (new dict preset) sizes (ofParse Coder.init syms) =
      .ok ((h'.toList.drop (presetUsed dict preset).length).take sizes.sum, s', rest) := by
  obtain ⟨hadm, hfin⟩ := ofParse_admissible dict syms _ _ _ _ hp
  have := readAll_refine dict preset (ofParse Coder.init syms) sizes hd hadm
  rw [hfin] at this
  exact this

end LzmaVerif.LzDecoder

section Axioms
open LzmaVerif.LzDecoder
#print axioms copyLoop_spec
#print axioms copyLoop_fuel_irrelevant
#print axioms new_spec
#print axioms reset_spec
#print axioms setLimit_spec
#print axioms getByte_spec
#print axioms putByte_spec
#print axioms repeat_spec
#print axioms repeatPending_spec
#print axioms flush_spec
#print axioms copyUncompressed_spec
#print axioms consume_spec
#print axioms round_spec
#print axioms rounds_refine
#print axioms rounds_partition_free
#print axioms readAll_refine
#print axioms readAll_partition_free
#print axioms readAll_complete
#print axioms ofParse_admissible
#print axioms readAll_of_parse
#print axioms abs_eq
#print axioms getByte_abs
#print axioms abs_putByte
#print axioms abs_repeat
#print axioms witness_direct
#print axioms witness_overlap
#print axioms witness_wrap
#print axioms witness_pending
#print axioms witness_schedules
#print axioms witness_dist_overflow
#print axioms witness_stale
#print axioms witness_zero_limit
end Axioms
