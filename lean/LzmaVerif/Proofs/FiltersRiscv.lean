import LzmaVerif.Proofs.FiltersBase
import LzmaVerif.Proofs.FiltersBits
/-!
RISC-V BCJ filter: decoding inverts encoding (`riscv_inv`).  Core Lean only.

Structure: (1) bit-level / word-level arithmetic for the JAL conversion and the two AUIPC-pair
conversions (`b1b2`: an AUIPC+inst2 pair converted by encoder branch 1 is recognised and undone by
decoder branch 2; `b2b1`: a "special" AUIPC converted by encoder branch 2 is recognised and undone
by decoder branch 1); (2) the loop body as a `scan` step (`riscvStep`, `riscvLoop_eq_scan`) and
`le32`/`be32`/`setLe32`/`setBe32` lemmas; (3) the `StepOK` record (window 8, advance 2/4/6/8,
signature = low nibble of the first byte after the advance, needed for the advance-6 over-read of
the pair test) and the final theorem.
-/
namespace LzmaVerif.Filters
open LzmaVerif.Bits

/-! ## 1. Bit-level and word-level arithmetic -/

theorem and_0F (x : Nat) : x &&& 0x0F = x % 16 := and_mask x 4
theorem and_7F (x : Nat) : x &&& 0x7F = x % 128 := and_mask x 7
theorem and_F0 (x : Nat) : x &&& 0xF0 = x / 2 ^ 4 % 2 ^ 4 * 2 ^ 4 := and_mask_shl x 4 4
theorem and_10 (x : Nat) : x &&& 0x10 = x / 2 ^ 4 % 2 ^ 1 * 2 ^ 4 := and_mask_shl x 1 4
theorem and_E0 (x : Nat) : x &&& 0xE0 = x / 2 ^ 5 % 2 ^ 3 * 2 ^ 5 := and_mask_shl x 3 5
theorem and_0C (x : Nat) : x &&& 0x0C = x / 2 ^ 2 % 2 ^ 2 * 2 ^ 2 := and_mask_shl x 2 2
theorem and_0D (x : Nat) : x &&& 0x0D = x / 4 % 4 * 4 + x % 2 := by
  have : (0x0D : Nat) = 0x0C ||| 0x01 := by decide
  rw [this, Nat.and_or_distrib_left, and_0C, and_1, or_disj _ _ 2 (by omega) (by omega)]

/-! ### JAL -/
def jalAE (b1 b2 b3 : Nat) : Nat :=
  ((b1 &&& 0xF0) <<< 8) ||| ((b2 &&& 0x0F) <<< 16) ||| ((b2 &&& 0x10) <<< 7) |||
    ((b2 &&& 0xE0) >>> 4) ||| ((b3 &&& 0x7F) <<< 4) ||| ((b3 &&& 0x80) <<< 13)
def jalAD (b1 b2 b3 : Nat) : Nat := ((b1 &&& 0xF0) <<< 13) ||| (b2 <<< 9) ||| (b3 <<< 1)
def jalE1 (b1 a : Nat) : Nat := (b1 &&& 0x0F) ||| ((a >>> 13) &&& 0xF0)
def jalD1 (b1 a : Nat) : Nat := (b1 &&& 0x0F) ||| ((a >>> 8) &&& 0xF0)
def jalD2 (a : Nat) : Nat := ((a >>> 16) &&& 0x0F) ||| ((a >>> 7) &&& 0x10) ||| ((a <<< 4) &&& 0xE0)
def jalD3 (a : Nat) : Nat := ((a >>> 4) &&& 0x7F) ||| ((a >>> 13) &&& 0x80)

theorem jalAE_eq (b1 b2 b3 : Nat) (h1 : b1 < 256) (h2 : b2 < 256) (h3 : b3 < 256) :
    jalAE b1 b2 b3 = b1 / 16 * 2 ^ 12 + b2 % 16 * 2 ^ 16 + b2 / 16 % 2 * 2 ^ 11 + b2 / 32 * 2
      + b3 % 128 * 16 + b3 / 128 * 2 ^ 20 := by
  unfold jalAE
  rw [and_F0, and_0F, and_10, and_E0, and_7F, and_80, shl_eq, shl_eq, shl_eq, shr_eq, shl_eq, shl_eq]
  rw [or_disj' (b1 / 2 ^ 4 % 2 ^ 4 * 2 ^ 4 * 2 ^ 8) (b2 % 16 * 2 ^ 16) 16 (by omega) (by omega)]
  rw [or_disj (b1 / 2 ^ 4 % 2 ^ 4 * 2 ^ 4 * 2 ^ 8 + b2 % 16 * 2 ^ 16) (b2 / 2 ^ 4 % 2 ^ 1 * 2 ^ 4 * 2 ^ 7) 12
    (by omega) (by omega)]
  rw [or_disj (b1 / 2 ^ 4 % 2 ^ 4 * 2 ^ 4 * 2 ^ 8 + b2 % 16 * 2 ^ 16 + b2 / 2 ^ 4 % 2 ^ 1 * 2 ^ 4 * 2 ^ 7)
    (b2 / 2 ^ 5 % 2 ^ 3 * 2 ^ 5 / 2 ^ 4) 11 (by omega) (by omega)]
  rw [or_mid (b1 / 2 ^ 4 % 2 ^ 4 * 2 ^ 4 * 2 ^ 8 + b2 % 16 * 2 ^ 16 + b2 / 2 ^ 4 % 2 ^ 1 * 2 ^ 4 * 2 ^ 7 +
      b2 / 2 ^ 5 % 2 ^ 3 * 2 ^ 5 / 2 ^ 4) (b3 % 128 * 2 ^ 4)
    (b1 / 2 ^ 4 % 2 ^ 4 * 2 ^ 4 * 2 ^ 8 + b2 % 16 * 2 ^ 16 + b2 / 2 ^ 4 % 2 ^ 1 * 2 ^ 4 * 2 ^ 7)
    (b2 / 2 ^ 5 % 2 ^ 3 * 2 ^ 5 / 2 ^ 4) 4 11 rfl (by omega) (by omega) (by omega) (by omega)]
  rw [or_disj' _ (b3 / 2 ^ 7 % 2 ^ 1 * 2 ^ 7 * 2 ^ 13) 20 (by omega) (by omega)]
  omega

theorem jalAD_eq (b1 b2 b3 : Nat) (h1 : b1 < 256) (h2 : b2 < 256) (h3 : b3 < 256) :
    jalAD b1 b2 b3 = b1 / 16 * 2 ^ 17 + b2 * 2 ^ 9 + b3 * 2 := by
  unfold jalAD
  rw [and_F0, shl_eq, shl_eq, shl_eq]
  rw [or_disj (b1 / 2 ^ 4 % 2 ^ 4 * 2 ^ 4 * 2 ^ 13) (b2 * 2 ^ 9) 17 (by omega) (by omega)]
  rw [or_disj _ (b3 * 2 ^ 1) 9 (by omega) (by omega)]
  omega

theorem jalE1_eq (b1 a : Nat) : jalE1 b1 a = b1 % 16 + a / 2 ^ 17 % 16 * 16 := by
  unfold jalE1
  rw [and_0F, and_F0, shr_eq, or_disj' _ _ 4 (by omega) (by omega)]
  omega

theorem jalD1_eq (b1 a : Nat) : jalD1 b1 a = b1 % 16 + a / 2 ^ 12 % 16 * 16 := by
  unfold jalD1
  rw [and_0F, and_F0, shr_eq, or_disj' _ _ 4 (by omega) (by omega)]
  omega

theorem jalD2_eq (a : Nat) : jalD2 a = a / 2 ^ 16 % 16 + a / 2 ^ 11 % 2 * 16 + a / 2 % 8 * 32 := by
  unfold jalD2
  rw [and_0F, and_10, and_E0, shr_eq, shr_eq, shl_eq]
  rw [or_disj' (a / 2 ^ 16 % 16) _ 4 (by omega) (by omega)]
  rw [or_disj' _ _ 5 (by omega) (by omega)]
  omega

theorem jalD3_eq (a : Nat) : jalD3 a = a / 2 ^ 4 % 128 + a / 2 ^ 20 % 2 * 128 := by
  unfold jalD3
  rw [and_7F, and_80, shr_eq, shr_eq, or_disj' _ _ 7 (by omega) (by omega)]
  omega

theorem jal_k1 (A c1 c2 c3 b1 : Nat) (hA : A % 2 = 0)
    (hc1 : c1 = (b1 % 16 + A / 2 ^ 17 % 16 * 16) % 256) (hc2 : c2 = A / 2 ^ 9 % 256)
    (hc3 : c3 = A / 2 % 256) :
    c1 / 16 * 2 ^ 17 + c2 * 2 ^ 9 + c3 * 2 = A % 2 ^ 21 ∧ c1 % 16 = b1 % 16 ∧ c1 < 256 ∧ c2 < 256 ∧ c3 < 256 := by
  omega

theorem jal_k3 (S p A A' : Nat) (hS : S < 2 ^ 21) (hp2 : p < 2 ^ 32)
    (hA : A = (S + p) % 2 ^ 32) (hA' : A' = (A % 2 ^ 21 + 2 ^ 32 - p % 2 ^ 32) % 2 ^ 32) :
    A' % 2 ^ 21 = S := by
  omega


theorem jal_fields (X f1 n2 s2 t2 l3 s3 : Nat) (h1 : f1 < 16) (h2 : n2 < 16) (h3 : s2 < 2) (h4 : t2 < 8)
    (h5 : l3 < 128) (_h6 : s3 < 2)
    (hX : X % 2 ^ 21 = f1 * 2 ^ 12 + n2 * 2 ^ 16 + s2 * 2 ^ 11 + t2 * 2 + l3 * 16 + s3 * 2 ^ 20) :
    X / 2 ^ 12 % 16 = f1 ∧ X / 2 ^ 16 % 16 = n2 ∧ X / 2 ^ 11 % 2 = s2 ∧ X / 2 % 8 = t2 ∧
    X / 2 ^ 4 % 128 = l3 ∧ X / 2 ^ 20 % 2 = s3 := by
  refine ⟨?_, ?_, ?_, ?_, ?_, ?_⟩ <;> omega

theorem jal_k4 (b1 b2 b3 c1 A' : Nat) (h1 : b1 < 256) (h2 : b2 < 256) (h3 : b3 < 256)
    (hc : c1 % 16 = b1 % 16)
    (hA' : A' % 2 ^ 21 = b1 / 16 * 2 ^ 12 + b2 % 16 * 2 ^ 16 + b2 / 16 % 2 * 2 ^ 11 + b2 / 32 * 2
      + b3 % 128 * 16 + b3 / 128 * 2 ^ 20) :
    (c1 % 16 + A' / 2 ^ 12 % 16 * 16) % 256 = b1 ∧
    (A' / 2 ^ 16 % 16 + A' / 2 ^ 11 % 2 * 16 + A' / 2 % 8 * 32) % 256 = b2 ∧
    (A' / 2 ^ 4 % 128 + A' / 2 ^ 20 % 2 * 128) % 256 = b3 := by
  obtain ⟨e1, e2, e3, e4, e5, e6⟩ := jal_fields A' (b1 / 16) (b2 % 16) (b2 / 16 % 2) (b2 / 32) (b3 % 128) (b3 / 128)
    (by omega) (by omega) (by omega) (by omega) (by omega) (by omega) hA'
  rw [e1, e2, e3, e4, e5, e6]
  clear hA' e1 e2 e3 e4 e5 e6
  omega

theorem xor_small : ∀ p : Fin 32, ∀ q : Fin 32, (p.val ^^^ q.val = 0) = (p.val = q.val) := by decide

theorem xor32_eq_zero (p q : Nat) (hp : p < 32) (hq : q < 32) : p ^^^ q = 0 ↔ p = q := by
  have := xor_small ⟨p, hp⟩ ⟨q, hq⟩
  simp only at this
  rw [this]

theorem and_F8000 (x : Nat) : x &&& 0xF8000 = x / 2 ^ 15 % 2 ^ 5 * 2 ^ 15 := and_mask_shl x 5 15

theorem and_F8003 (x : Nat) : x &&& 0xF8003 = x / 2 ^ 15 % 2 ^ 5 * 2 ^ 15 + x % 4 := by
  have : (0xF8003 : Nat) = 0xF8000 ||| 3 := by decide
  rw [this, Nat.and_or_distrib_left, and_F8000, and_3, or_disj _ _ 2 (by omega) (by omega)]

theorem pair_iff (full inst2 : Nat) :
    (((u32 (full <<< 8)) ^^^ inst2) &&& 0xF8003 = 3) ↔
      (inst2 % 4 = 3 ∧ inst2 / 2 ^ 15 % 32 = full / 2 ^ 7 % 32) := by
  rw [and_F8003, shl_eq]
  have e4 : (u32 (full * 2 ^ 8) ^^^ inst2) % 4 = inst2 % 4 := by
    have := @Nat.xor_mod_two_pow (u32 (full * 2 ^ 8)) inst2 2
    have h0 : u32 (full * 2 ^ 8) % 2 ^ 2 = 0 := by simp only [u32]; omega
    rw [h0, Nat.zero_xor] at this
    exact this
  have e5 : (u32 (full * 2 ^ 8) ^^^ inst2) / 2 ^ 15 % 2 ^ 5 = (full / 2 ^ 7 % 32) ^^^ (inst2 / 2 ^ 15 % 32) := by
    rw [Nat.xor_div_two_pow, Nat.xor_mod_two_pow]
    have h0 : u32 (full * 2 ^ 8) / 2 ^ 15 % 2 ^ 5 = full / 2 ^ 7 % 32 := by simp only [u32]; omega
    rw [h0]
  rw [e4, e5]
  have hx := xor32_eq_zero (full / 2 ^ 7 % 32) (inst2 / 2 ^ 15 % 32) (by omega) (by omega)
  constructor
  · intro h
    have h1 : (full / 2 ^ 7 % 32 ^^^ inst2 / 2 ^ 15 % 32) = 0 := by omega
    have := hx.mp h1
    omega
  · intro ⟨h1, h2⟩
    have := hx.mpr h2.symm
    rw [this]; omega

theorem and_E00 (x : Nat) : x &&& 0xE00 = x / 2 ^ 9 % 2 ^ 3 * 2 ^ 9 := and_mask_shl x 3 9
theorem and_E80 (x : Nat) : x &&& 0xE80 = x / 2 ^ 9 % 8 * 2 ^ 9 + x / 2 ^ 7 % 2 * 2 ^ 7 := by
  have : (0xE80 : Nat) = 0xE00 ||| 0x80 := by decide
  rw [this, Nat.and_or_distrib_left, and_E00, and_80, or_disj _ _ 8 (by omega) (by omega)]
theorem and_1C (x : Nat) : x &&& 0x1C = x / 2 ^ 2 % 2 ^ 3 * 2 ^ 2 := and_mask_shl x 3 2
theorem and_1D (x : Nat) : x &&& 0x1D = x / 4 % 8 * 4 + x % 2 := by
  have : (0x1D : Nat) = 0x1C ||| 0x01 := by decide
  rw [this, Nat.and_or_distrib_left, and_1C, and_1, or_disj _ _ 2 (by omega) (by omega)]
theorem and_3F80 (x : Nat) : x &&& 0x3F80 = x / 2 ^ 7 % 2 ^ 7 * 2 ^ 7 := and_mask_shl x 7 7
theorem and_FFFFF000 (x : Nat) : x &&& 0xFFFFF000 = x / 2 ^ 12 % 2 ^ 20 * 2 ^ 12 := and_mask_shl x 20 12

def auF1 (inst2 : Nat) : Nat := u32 (0x17 ||| (2 <<< 7) ||| (inst2 <<< 12))
def auAE (full inst2 pc : Nat) : Nat := wadd (wadd (full &&& 0xFFFFF000) (sar20 inst2)) pc
def auAD (full inst2 : Nat) : Nat := wadd (full &&& 0xFFFFF000) (inst2 >>> 20)
def auI2 (full a : Nat) : Nat := u32 ((full >>> 12) ||| (a <<< 20))
def auF2 (full fa : Nat) : Nat := 0x17 ||| ((full >>> 27) <<< 7) ||| (fa &&& 0xFFFFF000)
def auSkip (full : Nat) : Prop := (wsub full 0x3100) &&& 0x3F80 ≥ (full >>> 27) &&& 0x1D
instance (full : Nat) : Decidable (auSkip full) :=
  inferInstanceAs (Decidable ((wsub full 0x3100) &&& 0x3F80 ≥ (full >>> 27) &&& 0x1D))

theorem auF1_eq (inst2 : Nat) : auF1 inst2 = 0x117 + inst2 % 2 ^ 20 * 2 ^ 12 := by
  unfold auF1
  rw [show ((0x17 : Nat) ||| (2 <<< 7)) = 0x117 from by decide, shl_eq,
    or_disj' 0x117 _ 12 (by omega) (by omega)]
  simp only [u32]; omega

theorem auAE_eq (full inst2 pc : Nat) : auAE full inst2 pc =
    ((full / 2 ^ 12 % 2 ^ 20 * 2 ^ 12 +
      (if inst2 ≥ 2 ^ 31 then inst2 / 2 ^ 20 + (2 ^ 32 - 2 ^ 12) else inst2 / 2 ^ 20)) % 2 ^ 32 + pc) % 2 ^ 32 := by
  unfold auAE sar20
  rw [and_FFFFF000, shr_eq]
  simp only [wadd]

theorem auAD_eq (full inst2 : Nat) : auAD full inst2 =
    (full / 2 ^ 12 % 2 ^ 20 * 2 ^ 12 + inst2 / 2 ^ 20) % 2 ^ 32 := by
  unfold auAD
  rw [and_FFFFF000, shr_eq]
  simp only [wadd]

theorem auI2_eq (full a : Nat) (_hf : full < 2 ^ 32) : auI2 full a = full / 2 ^ 12 + a % 2 ^ 12 * 2 ^ 20 := by
  unfold auI2
  rw [shr_eq, shl_eq, or_disj' _ _ 20 (by omega) (by omega)]
  simp only [u32]; omega

theorem auF2_eq (full fa : Nat) (hf : full < 2 ^ 32) :
    auF2 full fa = 0x17 + full / 2 ^ 27 * 2 ^ 7 + fa / 2 ^ 12 % 2 ^ 20 * 2 ^ 12 := by
  unfold auF2
  rw [shr_eq, shl_eq, and_FFFFF000, or_disj' 0x17 _ 7 (by omega) (by omega),
    or_disj' _ _ 12 (by omega) (by omega)]

theorem auSkip_iff (full : Nat) (_hf : full < 2 ^ 32) :
    auSkip full ↔ (full + 2 ^ 32 - 0x3100) % 2 ^ 32 / 2 ^ 7 % 2 ^ 7 * 2 ^ 7 ≥
      full / 2 ^ 27 / 4 % 8 * 4 + full / 2 ^ 27 % 2 := by
  unfold auSkip
  rw [and_3F80, and_1D, shr_eq]
  simp only [wsub]

/-! ### B1 (encoder) → B2 (decoder) -/
theorem b1_k1 (full inst2 F : Nat) (_hi : inst2 < 2 ^ 32)
    (hrd : full / 2 ^ 9 % 8 * 2 ^ 9 + full / 2 ^ 7 % 2 * 2 ^ 7 ≠ 0)
    (hp1 : inst2 % 4 = 3) (hp2 : inst2 / 2 ^ 15 % 32 = full / 2 ^ 7 % 32)
    (hF : F = 0x117 + inst2 % 2 ^ 20 * 2 ^ 12) :
    F < 2 ^ 32 ∧ F % 256 = 0x17 ∧ F / 2 ^ 9 % 8 * 2 ^ 9 + F / 2 ^ 7 % 2 * 2 ^ 7 = 0 ∧
    F / 2 ^ 27 = full / 2 ^ 7 % 32 ∧
    (F + 2 ^ 32 - 0x3100) % 2 ^ 32 / 2 ^ 7 % 2 ^ 7 * 2 ^ 7 = 0 ∧
    F / 2 ^ 27 / 4 % 8 * 4 + F / 2 ^ 27 % 2 ≠ 0 ∧ F / 2 ^ 12 = inst2 % 2 ^ 20 := by
  have e1 : F / 2 ^ 27 = full / 2 ^ 7 % 32 := by omega
  have e2 : F % 2 ^ 14 = 0x3117 := by omega
  refine ⟨by omega, by omega, by omega, e1, by omega, ?_, by omega⟩
  rw [e1]; omega

theorem b1_k2 (H inst2 pc A A2 : Nat) (hH1 : H % 2 ^ 12 = 0) (hH2 : H < 2 ^ 32) (_hi : inst2 < 2 ^ 32) (hpc : pc < 2 ^ 32)
    (hA : A = ((H + (if inst2 ≥ 2 ^ 31 then inst2 / 2 ^ 20 + (2 ^ 32 - 2 ^ 12) else inst2 / 2 ^ 20)) % 2 ^ 32 + pc) % 2 ^ 32)
    (hA2 : A2 = (A + 2 ^ 32 - pc % 2 ^ 32) % 2 ^ 32) :
    A2 % 2 ^ 12 = inst2 / 2 ^ 20 ∧ (A2 + 0x800) % 2 ^ 32 / 2 ^ 12 % 2 ^ 20 * 2 ^ 12 = H := by
  have e : A2 = (H + (if inst2 ≥ 2 ^ 31 then inst2 / 2 ^ 20 + (2 ^ 32 - 2 ^ 12) else inst2 / 2 ^ 20)) % 2 ^ 32 := by
    omega
  clear hA hA2
  split at e <;> omega

theorem b1b2 (full inst2 pc : Nat) (hf : full < 2 ^ 32) (hi : inst2 < 2 ^ 32) (hpc : pc < 2 ^ 32)
    (h17 : full % 128 = 0x17) (hrd : full &&& 0xE80 ≠ 0)
    (hp1 : inst2 % 4 = 3) (hp2 : inst2 / 2 ^ 15 % 32 = full / 2 ^ 7 % 32) :
    auF1 inst2 < 2 ^ 32 ∧ auAE full inst2 pc < 2 ^ 32 ∧ auF1 inst2 % 256 = 0x17 ∧
    auF1 inst2 &&& 0xE80 = 0 ∧ ¬ auSkip (auF1 inst2) ∧
    auI2 (auF1 inst2) (wsub (auAE full inst2 pc) pc) = inst2 ∧
    auF2 (auF1 inst2) (wadd (wsub (auAE full inst2 pc) pc) 0x800) = full := by
  rw [and_E80] at hrd
  obtain ⟨k1, k2, k3, k4, k5, k6, k7⟩ := b1_k1 full inst2 _ hi hrd hp1 hp2 (auF1_eq inst2)
  obtain ⟨m1, m2⟩ := b1_k2 (full / 2 ^ 12 % 2 ^ 20 * 2 ^ 12) inst2 pc _ _ (by omega) (by omega) hi hpc
    (auAE_eq full inst2 pc) rfl
  have hA : auAE full inst2 pc < 2 ^ 32 := by rw [auAE_eq]; exact Nat.mod_lt _ (by decide)
  refine ⟨k1, hA, k2, by rw [and_E80]; exact k3, ?_, ?_, ?_⟩
  · rw [auSkip_iff _ k1, k5]; omega
  · rw [auI2_eq _ _ k1, k7]
    simp only [wsub]
    rw [m1]; omega
  · rw [auF2_eq _ _ k1, k4]
    simp only [wsub, wadd]
    rw [m2]; omega

/-! ### B2 (encoder) → B1 (decoder) -/
theorem b2_k1 (full fa F I : Nat) (hf : full < 2 ^ 32) (hfa : fa < 2 ^ 32) (h17 : full % 128 = 0x17)
    (hc : ¬ ((full + 2 ^ 32 - 0x3100) % 2 ^ 32 / 2 ^ 7 % 2 ^ 7 * 2 ^ 7 ≥
      full / 2 ^ 27 / 4 % 8 * 4 + full / 2 ^ 27 % 2))
    (hF : F = 0x17 + full / 2 ^ 27 * 2 ^ 7 + fa / 2 ^ 12 % 2 ^ 20 * 2 ^ 12)
    (hI : I = full / 2 ^ 12 + fa % 2 ^ 12 * 2 ^ 20) :
    F < 2 ^ 32 ∧ I < 2 ^ 32 ∧ F % 256 ≠ 0xEF ∧ F % 256 % 128 = 0x17 ∧
    F / 2 ^ 9 % 8 * 2 ^ 9 + F / 2 ^ 7 % 2 * 2 ^ 7 ≠ 0 ∧ I % 4 = 3 ∧ I / 2 ^ 15 % 32 = F / 2 ^ 7 % 32 ∧
    0x117 + I % 2 ^ 20 * 2 ^ 12 = full ∧ (F / 2 ^ 12 % 2 ^ 20 * 2 ^ 12 + I / 2 ^ 20) % 2 ^ 32 = fa := by
  have e0 : (full + 2 ^ 32 - 0x3100) % 2 ^ 32 / 2 ^ 7 % 2 ^ 7 = 0 := by omega
  have e1 : full % 2 ^ 14 = 0x3117 := by omega
  have e2 : full / 2 ^ 27 / 4 % 8 * 4 + full / 2 ^ 27 % 2 ≠ 0 := by omega
  have e3 : F / 2 ^ 7 % 32 = full / 2 ^ 27 := by omega
  have e4 : I / 2 ^ 15 % 32 = full / 2 ^ 27 := by omega
  clear hc e0
  refine ⟨by omega, by omega, by omega, by omega, by omega, by omega, by omega, by omega, by omega⟩

theorem b2b1 (full fa : Nat) (hf : full < 2 ^ 32) (hfa : fa < 2 ^ 32) (h17 : full % 128 = 0x17)
    (hc : ¬ auSkip full) :
    auF2 full fa < 2 ^ 32 ∧ auI2 full fa < 2 ^ 32 ∧ auF2 full fa % 256 ≠ 0xEF ∧
    auF2 full fa % 256 % 128 = 0x17 ∧ auF2 full fa &&& 0xE80 ≠ 0 ∧
    auI2 full fa % 4 = 3 ∧ auI2 full fa / 2 ^ 15 % 32 = auF2 full fa / 2 ^ 7 % 32 ∧
    auF1 (auI2 full fa) = full ∧ auAD (auF2 full fa) (auI2 full fa) = fa := by
  rw [auSkip_iff _ hf] at hc
  obtain ⟨k1, k2, k3, k4, k5, k6, k7, k8, k9⟩ := b2_k1 full fa _ _ hf hfa h17 hc (auF2_eq full fa hf) (auI2_eq full fa hf)
  refine ⟨k1, k2, k3, k4, by rw [and_E80]; exact k5, k6, k7, by rw [auF1_eq]; exact k8, by rw [auAD_eq]; exact k9⟩

/-! ## 2. The step, buffer/word helpers, branches -/

/-! ### the step -/
def riscvStep (enc : Bool) (st : St) (i : Nat) (b : Buf) : Buf × Nat :=
  if gb b i = 0xEF then
    if gb b (i + 1) &&& 0x0D ≠ 0 then (b, 2) else
    if enc then
      (sb (sb (sb b (i + 1) (jalE1 (gb b (i + 1)) (wadd (jalAE (gb b (i + 1)) (gb b (i + 2)) (gb b (i + 3))) (posAt st i))))
        (i + 2) (wadd (jalAE (gb b (i + 1)) (gb b (i + 2)) (gb b (i + 3))) (posAt st i) >>> 9))
        (i + 3) (wadd (jalAE (gb b (i + 1)) (gb b (i + 2)) (gb b (i + 3))) (posAt st i) >>> 1), 4)
    else
      (sb (sb (sb b (i + 1) (jalD1 (gb b (i + 1)) (wsub (jalAD (gb b (i + 1)) (gb b (i + 2)) (gb b (i + 3))) (posAt st i))))
        (i + 2) (jalD2 (wsub (jalAD (gb b (i + 1)) (gb b (i + 2)) (gb b (i + 3))) (posAt st i))))
        (i + 3) (jalD3 (wsub (jalAD (gb b (i + 1)) (gb b (i + 2)) (gb b (i + 3))) (posAt st i))), 4)
  else if gb b i &&& 0x7F = 0x17 then
    if le32 b i &&& 0xE80 ≠ 0 then
      if ((u32 (le32 b i <<< 8)) ^^^ le32 b (i + 4)) &&& 0xF8003 ≠ 3 then (b, 6) else
      if enc then
        (setBe32 (setLe32 b i (auF1 (le32 b (i + 4)))) (i + 4) (auAE (le32 b i) (le32 b (i + 4)) (posAt st i)), 8)
      else
        (setLe32 (setLe32 b i (auF1 (le32 b (i + 4)))) (i + 4) (auAD (le32 b i) (le32 b (i + 4))), 8)
    else
      if (wsub (le32 b i) 0x3100) &&& 0x3F80 ≥ (le32 b i >>> 27) &&& 0x1D then (b, 4) else
      if enc then
        (setLe32 (setLe32 b i (auF2 (le32 b i) (le32 b (i + 4)))) (i + 4) (auI2 (le32 b i) (le32 b (i + 4))), 8)
      else
        (setLe32 (setLe32 b i (auF2 (le32 b i) (wadd (wsub (be32 b (i + 4)) (posAt st i)) 0x800)))
          (i + 4) (auI2 (le32 b i) (wsub (be32 b (i + 4)) (posAt st i))), 8)
  else (b, 2)

theorem riscvLoop_eq_scan (enc : Bool) (st : St) : ∀ fuel i b,
    riscvLoop enc st fuel i b = scan 8 (riscvStep enc st) fuel i b := by
  intro fuel
  induction fuel with
  | zero => intro i b; rfl
  | succ n ih =>
    intro i b
    simp only [riscvLoop, scan]
    split
    · rfl
    · rw [← ih]
      simp only [riscvStep, jalE1, jalAE, jalAD, jalD1, jalD2, jalD3, auF1, auAE, auAD, auF2, auI2]
      repeat' split
      all_goals first | (with_reducible rfl) | skip

/-! ### `le32`/`be32`/`setLe32`/`setBe32` -/
theorem size_setLe32 (b : Buf) (o v : Nat) : (setLe32 b o v).size = b.size := by
  simp only [setLe32, size_sb]
theorem size_setBe32 (b : Buf) (o v : Nat) : (setBe32 b o v).size = b.size := by
  simp only [setBe32, size_sb]

theorem gb_setLe32_out (b : Buf) (o v k : Nat) (h : k < o ∨ o + 4 ≤ k) : gb (setLe32 b o v) k = gb b k := by
  simp only [setLe32]
  rw [gb_sb_ne _ _ _ _ (by omega), gb_sb_ne _ _ _ _ (by omega), gb_sb_ne _ _ _ _ (by omega),
    gb_sb_ne _ _ _ _ (by omega)]
theorem gb_setBe32_out (b : Buf) (o v k : Nat) (h : k < o ∨ o + 4 ≤ k) : gb (setBe32 b o v) k = gb b k := by
  simp only [setBe32]
  rw [gb_sb_ne _ _ _ _ (by omega), gb_sb_ne _ _ _ _ (by omega), gb_sb_ne _ _ _ _ (by omega),
    gb_sb_ne _ _ _ _ (by omega)]

theorem gb_setLe32_in (b : Buf) (o v : Nat) (h : o + 4 ≤ b.size) :
    gb (setLe32 b o v) o = v % 256 ∧ gb (setLe32 b o v) (o + 1) = v / 2 ^ 8 % 256 ∧
    gb (setLe32 b o v) (o + 2) = v / 2 ^ 16 % 256 ∧ gb (setLe32 b o v) (o + 3) = v / 2 ^ 24 % 256 := by
  simp only [setLe32, shr_eq]
  refine ⟨?_, ?_, ?_, ?_⟩
  · rw [gb_sb_ne _ _ _ _ (by omega), gb_sb_ne _ _ _ _ (by omega), gb_sb_ne _ _ _ _ (by omega),
      gb_sb_eq _ _ _ (by omega)]
  · rw [gb_sb_ne _ _ _ _ (by omega), gb_sb_ne _ _ _ _ (by omega),
      gb_sb_eq _ _ _ (by simp only [size_sb]; omega)]
  · rw [gb_sb_ne _ _ _ _ (by omega), gb_sb_eq _ _ _ (by simp only [size_sb]; omega)]
  · rw [gb_sb_eq _ _ _ (by simp only [size_sb]; omega)]

theorem gb_setBe32_in (b : Buf) (o v : Nat) (h : o + 4 ≤ b.size) :
    gb (setBe32 b o v) o = v / 2 ^ 24 % 256 ∧ gb (setBe32 b o v) (o + 1) = v / 2 ^ 16 % 256 ∧
    gb (setBe32 b o v) (o + 2) = v / 2 ^ 8 % 256 ∧ gb (setBe32 b o v) (o + 3) = v % 256 := by
  simp only [setBe32, shr_eq]
  refine ⟨?_, ?_, ?_, ?_⟩
  · rw [gb_sb_ne _ _ _ _ (by omega), gb_sb_ne _ _ _ _ (by omega), gb_sb_ne _ _ _ _ (by omega),
      gb_sb_eq _ _ _ (by omega)]
  · rw [gb_sb_ne _ _ _ _ (by omega), gb_sb_ne _ _ _ _ (by omega),
      gb_sb_eq _ _ _ (by simp only [size_sb]; omega)]
  · rw [gb_sb_ne _ _ _ _ (by omega), gb_sb_eq _ _ _ (by simp only [size_sb]; omega)]
  · rw [gb_sb_eq _ _ _ (by simp only [size_sb]; omega)]

theorem le32_setLe32 (b : Buf) (o v : Nat) (h : o + 4 ≤ b.size) : le32 (setLe32 b o v) o = v % 2 ^ 32 := by
  obtain ⟨e0, e1, e2, e3⟩ := gb_setLe32_in b o v h
  simp only [le32]
  rw [e0, e1, e2, e3]
  omega

theorem be32_setBe32 (b : Buf) (o v : Nat) (h : o + 4 ≤ b.size) : be32 (setBe32 b o v) o = v % 2 ^ 32 := by
  obtain ⟨e0, e1, e2, e3⟩ := gb_setBe32_in b o v h
  simp only [be32]
  rw [e0, e1, e2, e3]
  omega

theorem le32_congr (b b' : Buf) (o : Nat) (h : ∀ k, o ≤ k → k < o + 4 → gb b' k = gb b k) :
    le32 b' o = le32 b o := by
  simp only [le32]
  rw [h o (by omega) (by omega), h (o + 1) (by omega) (by omega), h (o + 2) (by omega) (by omega),
    h (o + 3) (by omega) (by omega)]

theorem be32_congr (b b' : Buf) (o : Nat) (h : ∀ k, o ≤ k → k < o + 4 → gb b' k = gb b k) :
    be32 b' o = be32 b o := by
  simp only [be32]
  rw [h o (by omega) (by omega), h (o + 1) (by omega) (by omega), h (o + 2) (by omega) (by omega),
    h (o + 3) (by omega) (by omega)]

theorem le32_lt (b : Buf) (o : Nat) (h : BBytes b) : le32 b o < 2 ^ 32 := by
  have := h o; have := h (o + 1); have := h (o + 2); have := h (o + 3)
  simp only [le32]; omega

theorem le32_mod (b : Buf) (o : Nat) : le32 b o % 256 = gb b o % 256 := by
  simp only [le32]; omega

theorem BBytes_setLe32 (b : Buf) (o v : Nat) (h : BBytes b) : BBytes (setLe32 b o v) :=
  BBytes_sb _ _ _ (BBytes_sb _ _ _ (BBytes_sb _ _ _ (BBytes_sb _ _ _ h)))
theorem BBytes_setBe32 (b : Buf) (o v : Nat) (h : BBytes b) : BBytes (setBe32 b o v) :=
  BBytes_sb _ _ _ (BBytes_sb _ _ _ (BBytes_sb _ _ _ (BBytes_sb _ _ _ h)))

theorem Agree.setLe32 {i w : Nat} {b b' : Buf} (h : Agree i w b b') (o v : Nat) :
    Agree i w (setLe32 b o v) (setLe32 b' o v) := (((h.sb _ _).sb _ _).sb _ _).sb _ _
theorem Agree.setBe32 {i w : Nat} {b b' : Buf} (h : Agree i w b b') (o v : Nat) :
    Agree i w (setBe32 b o v) (setBe32 b' o v) := (((h.sb _ _).sb _ _).sb _ _).sb _ _

/-- writing back the two original words restores the buffer -/
theorem restore8 (b E : Buf) (i : Nat) (hB : BBytes b) (hw : i + 8 ≤ b.size) (hs : E.size = b.size)
    (hout : ∀ k, (k < i ∨ i + 8 ≤ k) → gb E k = gb b k) :
    setLe32 (setLe32 E i (le32 b i)) (i + 4) (le32 b (i + 4)) = b := by
  apply buf_ext
  · rw [size_setLe32, size_setLe32, hs]
  · intro k _
    have b0 := hB i; have b1 := hB (i + 1); have b2 := hB (i + 2); have b3 := hB (i + 3)
    have b4 := hB (i + 4); have b5 := hB (i + 4 + 1); have b6 := hB (i + 4 + 2); have b7 := hB (i + 4 + 3)
    obtain ⟨e0, e1, e2, e3⟩ := gb_setLe32_in E i (le32 b i) (by omega)
    obtain ⟨e4, e5, e6, e7⟩ := gb_setLe32_in (setLe32 E i (le32 b i)) (i + 4) (le32 b (i + 4))
      (by rw [size_setLe32]; omega)
    by_cases hk : k < i ∨ i + 8 ≤ k
    · rw [gb_setLe32_out _ _ _ _ (by omega), gb_setLe32_out _ _ _ _ (by omega), hout k hk]
    · by_cases hk2 : k < i + 4
      · rw [gb_setLe32_out _ _ _ _ (by omega)]
        have : k = i ∨ k = i + 1 ∨ k = i + 2 ∨ k = i + 3 := by omega
        rcases this with rfl | rfl | rfl | rfl
        · rw [e0]; simp only [le32]; omega
        · rw [e1]; simp only [le32]; omega
        · rw [e2]; simp only [le32]; omega
        · rw [e3]; simp only [le32]; omega
      · have : k = i + 4 ∨ k = i + 4 + 1 ∨ k = i + 4 + 2 ∨ k = i + 4 + 3 := by omega
        rcases this with rfl | rfl | rfl | rfl
        · rw [e4]; simp only [le32]; omega
        · rw [e5]; simp only [le32]; omega
        · rw [e6]; simp only [le32]; omega
        · rw [e7]; simp only [le32]; omega

/-! ### branches of the step -/
def rvPair (full inst2 : Nat) : Prop := ((u32 (full <<< 8)) ^^^ inst2) &&& 0xF8003 = 3

theorem rvPair_iff (full inst2 : Nat) :
    rvPair full inst2 ↔ (inst2 % 4 = 3 ∧ inst2 / 2 ^ 15 % 32 = full / 2 ^ 7 % 32) := pair_iff full inst2

theorem step_jskip (enc : Bool) (st : St) (i : Nat) (b : Buf) (h0 : gb b i = 0xEF)
    (h1 : gb b (i + 1) &&& 0x0D ≠ 0) : riscvStep enc st i b = (b, 2) := by
  simp only [riscvStep, if_pos h0, if_pos h1]

theorem step_other (enc : Bool) (st : St) (i : Nat) (b : Buf) (h0 : gb b i ≠ 0xEF)
    (h1 : gb b i &&& 0x7F ≠ 0x17) : riscvStep enc st i b = (b, 2) := by
  simp only [riscvStep, if_neg h0, if_neg h1]

theorem step_jalE (st : St) (i : Nat) (b : Buf) (h0 : gb b i = 0xEF) (h1 : gb b (i + 1) &&& 0x0D = 0) (A : Nat)
    (hA : A = wadd (jalAE (gb b (i + 1)) (gb b (i + 2)) (gb b (i + 3))) (posAt st i)) :
    riscvStep true st i b =
      (sb (sb (sb b (i + 1) (jalE1 (gb b (i + 1)) A)) (i + 2) (A >>> 9)) (i + 3) (A >>> 1), 4) := by
  subst hA
  simp only [riscvStep, if_pos h0, if_neg (not_not_intro h1), if_pos]

theorem step_jalD (st : St) (i : Nat) (b : Buf) (h0 : gb b i = 0xEF) (h1 : gb b (i + 1) &&& 0x0D = 0) (A : Nat)
    (hA : A = wsub (jalAD (gb b (i + 1)) (gb b (i + 2)) (gb b (i + 3))) (posAt st i)) :
    riscvStep false st i b =
      (sb (sb (sb b (i + 1) (jalD1 (gb b (i + 1)) A)) (i + 2) (jalD2 A)) (i + 3) (jalD3 A), 4) := by
  subst hA
  simp only [riscvStep, if_pos h0, if_neg (not_not_intro h1), Bool.false_eq_true, if_false]

theorem step_b1skip (enc : Bool) (st : St) (i : Nat) (b : Buf) (h0 : gb b i ≠ 0xEF) (h1 : gb b i &&& 0x7F = 0x17)
    (h2 : le32 b i &&& 0xE80 ≠ 0) (h3 : ¬ rvPair (le32 b i) (le32 b (i + 4))) :
    riscvStep enc st i b = (b, 6) := by
  simp only [riscvStep, if_neg h0, if_pos h1, if_pos h2]
  rw [if_pos (show _ ≠ 3 from h3)]

theorem step_b1E (st : St) (i : Nat) (b : Buf) (h0 : gb b i ≠ 0xEF) (h1 : gb b i &&& 0x7F = 0x17)
    (h2 : le32 b i &&& 0xE80 ≠ 0) (h3 : rvPair (le32 b i) (le32 b (i + 4))) :
    riscvStep true st i b =
      (setBe32 (setLe32 b i (auF1 (le32 b (i + 4)))) (i + 4) (auAE (le32 b i) (le32 b (i + 4)) (posAt st i)), 8) := by
  simp only [riscvStep, if_neg h0, if_pos h1, if_pos h2]
  rw [if_neg (show ¬ _ ≠ 3 from not_not_intro h3)]
  simp only [if_pos]

theorem step_b1D (st : St) (i : Nat) (b : Buf) (h0 : gb b i ≠ 0xEF) (h1 : gb b i &&& 0x7F = 0x17)
    (h2 : le32 b i &&& 0xE80 ≠ 0) (h3 : rvPair (le32 b i) (le32 b (i + 4))) :
    riscvStep false st i b =
      (setLe32 (setLe32 b i (auF1 (le32 b (i + 4)))) (i + 4) (auAD (le32 b i) (le32 b (i + 4))), 8) := by
  simp only [riscvStep, if_neg h0, if_pos h1, if_pos h2]
  rw [if_neg (show ¬ _ ≠ 3 from not_not_intro h3)]
  simp only [Bool.false_eq_true, if_false]

theorem step_b2skip (enc : Bool) (st : St) (i : Nat) (b : Buf) (h0 : gb b i ≠ 0xEF) (h1 : gb b i &&& 0x7F = 0x17)
    (h2 : le32 b i &&& 0xE80 = 0) (h3 : auSkip (le32 b i)) :
    riscvStep enc st i b = (b, 4) := by
  simp only [riscvStep, if_neg h0, if_pos h1, if_neg (not_not_intro h2)]
  rw [if_pos (show _ ≥ _ from h3)]

theorem step_b2E (st : St) (i : Nat) (b : Buf) (h0 : gb b i ≠ 0xEF) (h1 : gb b i &&& 0x7F = 0x17)
    (h2 : le32 b i &&& 0xE80 = 0) (h3 : ¬ auSkip (le32 b i)) :
    riscvStep true st i b =
      (setLe32 (setLe32 b i (auF2 (le32 b i) (le32 b (i + 4)))) (i + 4) (auI2 (le32 b i) (le32 b (i + 4))), 8) := by
  simp only [riscvStep, if_neg h0, if_pos h1, if_neg (not_not_intro h2)]
  rw [if_neg (show ¬ _ ≥ _ from h3)]
  simp only [if_pos]

theorem step_b2D (st : St) (i : Nat) (b : Buf) (h0 : gb b i ≠ 0xEF) (h1 : gb b i &&& 0x7F = 0x17)
    (h2 : le32 b i &&& 0xE80 = 0) (h3 : ¬ auSkip (le32 b i)) (A : Nat)
    (hA : A = wsub (be32 b (i + 4)) (posAt st i)) :
    riscvStep false st i b =
      (setLe32 (setLe32 b i (auF2 (le32 b i) (wadd A 0x800))) (i + 4) (auI2 (le32 b i) A), 8) := by
  subst hA
  simp only [riscvStep, if_neg h0, if_pos h1, if_neg (not_not_intro h2)]
  rw [if_neg (show ¬ _ ≥ _ from h3)]
  simp only [Bool.false_eq_true, if_false]

/-! ## 3. `StepOK` and the theorem -/

theorem riscvStep_size (enc : Bool) (st : St) (i : Nat) (b : Buf) : (riscvStep enc st i b).1.size = b.size := by
  simp only [riscvStep]
  repeat' split
  all_goals simp only [size_sb, size_setLe32, size_setBe32]

theorem riscvStep_adv (enc : Bool) (st : St) (i : Nat) (b : Buf) :
    (riscvStep enc st i b).2 = 2 ∨ (riscvStep enc st i b).2 = 4 ∨ (riscvStep enc st i b).2 = 6 ∨
      (riscvStep enc st i b).2 = 8 := by
  simp only [riscvStep]
  repeat' split
  all_goals first
    | exact Or.inl rfl
    | exact Or.inr (Or.inl rfl)
    | exact Or.inr (Or.inr (Or.inl rfl))
    | exact Or.inr (Or.inr (Or.inr rfl))

theorem riscvStep_bytes (enc : Bool) (st : St) (i : Nat) (b : Buf) (h : BBytes b) :
    BBytes (riscvStep enc st i b).1 := by
  simp only [riscvStep]
  repeat' split
  all_goals first
    | with_reducible exact h
    | with_reducible exact BBytes_setBe32 _ _ _ (BBytes_setLe32 _ _ _ h)
    | with_reducible exact BBytes_setLe32 _ _ _ (BBytes_setLe32 _ _ _ h)
    | with_reducible exact BBytes_sb _ _ _ (BBytes_sb _ _ _ (BBytes_sb _ _ _ h))

theorem riscvStep_frame (enc : Bool) (st : St) (i : Nat) (b : Buf) (k : Nat)
    (hk : k < i ∨ i + (riscvStep enc st i b).2 ≤ k) : gb (riscvStep enc st i b).1 k = gb b k := by
  revert hk
  simp only [riscvStep]
  repeat' split
  all_goals intro hk
  all_goals simp only at hk ⊢
  all_goals first
    | with_reducible rfl
    | rw [gb_sb_ne _ _ _ _ (by omega), gb_sb_ne _ _ _ _ (by omega), gb_sb_ne _ _ _ _ (by omega)]
    | rw [gb_setBe32_out _ _ _ _ (by omega), gb_setLe32_out _ _ _ _ (by omega)]
    | rw [gb_setLe32_out _ _ _ _ (by omega), gb_setLe32_out _ _ _ _ (by omega)]

theorem step_cases (b : Buf) (i : Nat) :
    (gb b i = 0xEF ∧ gb b (i + 1) &&& 0x0D ≠ 0) ∨
    (gb b i = 0xEF ∧ gb b (i + 1) &&& 0x0D = 0) ∨
    (gb b i ≠ 0xEF ∧ gb b i &&& 0x7F ≠ 0x17) ∨
    (gb b i ≠ 0xEF ∧ gb b i &&& 0x7F = 0x17 ∧ le32 b i &&& 0xE80 ≠ 0 ∧ ¬ rvPair (le32 b i) (le32 b (i + 4))) ∨
    (gb b i ≠ 0xEF ∧ gb b i &&& 0x7F = 0x17 ∧ le32 b i &&& 0xE80 ≠ 0 ∧ rvPair (le32 b i) (le32 b (i + 4))) ∨
    (gb b i ≠ 0xEF ∧ gb b i &&& 0x7F = 0x17 ∧ le32 b i &&& 0xE80 = 0 ∧ auSkip (le32 b i)) ∨
    (gb b i ≠ 0xEF ∧ gb b i &&& 0x7F = 0x17 ∧ le32 b i &&& 0xE80 = 0 ∧ ¬ auSkip (le32 b i)) := by
  by_cases h0 : gb b i = 0xEF
  · by_cases h1 : gb b (i + 1) &&& 0x0D = 0
    · exact Or.inr (Or.inl ⟨h0, h1⟩)
    · exact Or.inl ⟨h0, h1⟩
  · by_cases h1 : gb b i &&& 0x7F = 0x17
    · by_cases h2 : le32 b i &&& 0xE80 = 0
      · by_cases h3 : auSkip (le32 b i)
        · exact Or.inr (Or.inr (Or.inr (Or.inr (Or.inr (Or.inl ⟨h0, h1, h2, h3⟩)))))
        · exact Or.inr (Or.inr (Or.inr (Or.inr (Or.inr (Or.inr ⟨h0, h1, h2, h3⟩)))))
      · by_cases h3 : rvPair (le32 b i) (le32 b (i + 4))
        · exact Or.inr (Or.inr (Or.inr (Or.inr (Or.inl ⟨h0, h1, h2, h3⟩))))
        · exact Or.inr (Or.inr (Or.inr (Or.inl ⟨h0, h1, h2, h3⟩)))
    · exact Or.inr (Or.inr (Or.inl ⟨h0, h1⟩))

def riscvSig (r x : Nat) : Nat := if r = 0 then x % 16 else 0

theorem auF2_mod (full fa : Nat) : auF2 full fa % 128 = 0x17 := by
  unfold auF2
  rw [shl_eq, and_FFFFF000, or_disj' 0x17 _ 7 (by omega) (by omega)]
  have := @Nat.or_mod_two_pow (0x17 + full >>> 27 * 2 ^ 7) (fa / 2 ^ 12 % 2 ^ 20 * 2 ^ 12) 7
  have e1 : (0x17 + full >>> 27 * 2 ^ 7) % 2 ^ 7 = 0x17 := by omega
  have e2 : (fa / 2 ^ 12 % 2 ^ 20 * 2 ^ 12) % 2 ^ 7 = 0 := by omega
  rw [e1, e2] at this
  exact this

theorem step_nibble (st : St) (i : Nat) (b : Buf) (hw : i + 8 ≤ b.size) :
    gb (riscvStep true st i b).1 i % 16 = gb b i % 16 := by
  rcases step_cases b i with ⟨h0, h1⟩ | ⟨h0, h1⟩ | ⟨h0, h1⟩ | ⟨h0, h1, h2, h3⟩ | ⟨h0, h1, h2, h3⟩ |
    ⟨h0, h1, h2, h3⟩ | ⟨h0, h1, h2, h3⟩
  · rw [step_jskip _ _ _ _ h0 h1]
  · rw [step_jalE _ _ _ h0 h1 _ rfl]
    simp only
    rw [gb_sb_ne _ _ _ _ (by omega), gb_sb_ne _ _ _ _ (by omega), gb_sb_ne _ _ _ _ (by omega)]
  · rw [step_other _ _ _ _ h0 h1]
  · rw [step_b1skip _ _ _ _ h0 h1 h2 h3]
  · rw [step_b1E _ _ _ h0 h1 h2 h3]
    simp only
    rw [gb_setBe32_out _ _ _ _ (by omega), (gb_setLe32_in _ _ _ (by omega)).1, auF1_eq]
    rw [and_7F] at h1
    omega
  · rw [step_b2skip _ _ _ _ h0 h1 h2 h3]
  · rw [step_b2E _ _ _ h0 h1 h2 h3]
    simp only
    rw [gb_setLe32_out _ _ _ _ (by omega), (gb_setLe32_in _ _ _ (by omega)).1]
    have := auF2_mod (le32 b i) (le32 b (i + 4))
    rw [and_7F] at h1
    omega

theorem pair_loc (L g6 g7 g6' g7' : Nat) (h : g6 % 16 = g6' % 16) :
    (L + 65536 * g6 + 16777216 * g7) % 4 = (L + 65536 * g6' + 16777216 * g7') % 4 ∧
    (L + 65536 * g6 + 16777216 * g7) / 2 ^ 15 % 32 = (L + 65536 * g6' + 16777216 * g7') / 2 ^ 15 % 32 := by
  omega

theorem riscvStep_loc (st : St) (i : Nat) (b b' : Buf) (hs : b.size = b'.size)
    (hag : ∀ k, i ≤ k → k < i + (riscvStep false st i b).2 → gb b' k = gb b k)
    (hsig : ∀ r, riscvSig r (gb b (i + (riscvStep false st i b).2 + r)) =
      riscvSig r (gb b' (i + (riscvStep false st i b).2 + r))) :
    (riscvStep false st i b').2 = (riscvStep false st i b).2 ∧
      ∀ k, i ≤ k → k < i + (riscvStep false st i b).2 →
        gb (riscvStep false st i b').1 k = gb (riscvStep false st i b).1 k := by
  rcases step_cases b i with ⟨h0, h1⟩ | ⟨h0, h1⟩ | ⟨h0, h1⟩ | ⟨h0, h1, h2, h3⟩ | ⟨h0, h1, h2, h3⟩ |
    ⟨h0, h1, h2, h3⟩ | ⟨h0, h1, h2, h3⟩
  · -- JAL-like byte, not converted: advance 2
    rw [step_jskip _ _ _ _ h0 h1] at hag hsig ⊢
    simp only at hag hsig ⊢
    have g0 := hag i (by omega) (by omega)
    have g1 := hag (i + 1) (by omega) (by omega)
    rw [step_jskip _ _ _ _ (by rw [g0]; exact h0) (by rw [g1]; exact h1)]
    exact ⟨rfl, hag⟩
  · -- JAL converted: advance 4
    rw [step_jalD _ _ _ h0 h1 _ rfl] at hag hsig ⊢
    simp only at hag hsig ⊢
    have g0 := hag i (by omega) (by omega)
    have g1 := hag (i + 1) (by omega) (by omega)
    have g2 := hag (i + 2) (by omega) (by omega)
    have g3 := hag (i + 3) (by omega) (by omega)
    rw [step_jalD _ _ _ (by rw [g0]; exact h0) (by rw [g1]; exact h1) _ rfl, g1, g2, g3]
    simp only
    refine ⟨trivial, ?_⟩
    have hA : Agree i 4 b b' := ⟨hs, hag⟩
    exact (((hA.sb _ _).sb _ _).sb _ _).2
  · -- other byte: advance 2
    rw [step_other _ _ _ _ h0 h1] at hag hsig ⊢
    simp only at hag hsig ⊢
    have g0 := hag i (by omega) (by omega)
    rw [step_other _ _ _ _ (by rw [g0]; exact h0) (by rw [g0]; exact h1)]
    exact ⟨rfl, hag⟩
  · -- AUIPC, rd ∉ {x0,x2}, no pair: advance 6
    rw [step_b1skip _ _ _ _ h0 h1 h2 h3] at hag hsig ⊢
    simp only at hag hsig ⊢
    have g0 := hag i (by omega) (by omega)
    have gf : le32 b' i = le32 b i := le32_congr b b' i (fun k k1 k2 => hag k k1 (by omega))
    have g4 := hag (i + 4) (by omega) (by omega)
    have g5 := hag (i + 4 + 1) (by omega) (by omega)
    have g6 := hsig 0
    simp only [riscvSig, if_pos, Nat.add_zero] at g6
    have h3' : ¬ rvPair (le32 b' i) (le32 b' (i + 4)) := by
      rw [gf, rvPair_iff]
      rw [rvPair_iff] at h3
      have := pair_loc (gb b (i + 4) + 256 * gb b (i + 4 + 1)) (gb b (i + 4 + 2)) (gb b (i + 4 + 3))
        (gb b' (i + 4 + 2)) (gb b' (i + 4 + 3)) g6
      simp only [le32] at h3 ⊢
      rw [g4, g5, ← this.1, ← this.2]
      exact h3
    rw [step_b1skip _ _ _ _ (by rw [g0]; exact h0) (by rw [g0]; exact h1) (by rw [gf]; exact h2) h3']
    exact ⟨rfl, hag⟩
  · -- AUIPC pair converted (decoder branch 1): advance 8
    rw [step_b1D _ _ _ h0 h1 h2 h3] at hag hsig ⊢
    simp only at hag hsig ⊢
    have g0 := hag i (by omega) (by omega)
    have gf : le32 b' i = le32 b i := le32_congr b b' i (fun k k1 k2 => hag k k1 (by omega))
    have gi : le32 b' (i + 4) = le32 b (i + 4) := le32_congr b b' (i + 4) (fun k k1 k2 => hag k (by omega) (by omega))
    rw [step_b1D _ _ _ (by rw [g0]; exact h0) (by rw [g0]; exact h1) (by rw [gf]; exact h2)
      (by rw [gf, gi]; exact h3), gf, gi]
    simp only
    refine ⟨trivial, ?_⟩
    have hA : Agree i 8 b b' := ⟨hs, hag⟩
    intro k k1 k2
    exact ((hA.setLe32 _ _).setLe32 _ _).2 k k1 k2
  · -- AUIPC with rd ∈ {x0,x2}, not special: advance 4
    rw [step_b2skip _ _ _ _ h0 h1 h2 h3] at hag hsig ⊢
    simp only at hag hsig ⊢
    have g0 := hag i (by omega) (by omega)
    have gf : le32 b' i = le32 b i := le32_congr b b' i (fun k k1 k2 => hag k k1 (by omega))
    rw [step_b2skip _ _ _ _ (by rw [g0]; exact h0) (by rw [g0]; exact h1) (by rw [gf]; exact h2)
      (by rw [gf]; exact h3)]
    exact ⟨rfl, hag⟩
  · -- special AUIPC converted back (decoder branch 2): advance 8
    rw [step_b2D _ _ _ h0 h1 h2 h3 _ rfl] at hag hsig ⊢
    simp only at hag hsig ⊢
    have g0 := hag i (by omega) (by omega)
    have gf : le32 b' i = le32 b i := le32_congr b b' i (fun k k1 k2 => hag k k1 (by omega))
    have gi : be32 b' (i + 4) = be32 b (i + 4) := be32_congr b b' (i + 4) (fun k k1 k2 => hag k (by omega) (by omega))
    rw [step_b2D _ _ _ (by rw [g0]; exact h0) (by rw [g0]; exact h1) (by rw [gf]; exact h2)
      (by rw [gf]; exact h3) _ rfl, gf, gi]
    simp only
    refine ⟨trivial, ?_⟩
    have hA : Agree i 8 b b' := ⟨hs, hag⟩
    intro k k1 k2
    exact ((hA.setLe32 _ _).setLe32 _ _).2 k k1 k2

theorem jal_arith (p b1 b2 b3 A c1 c2 c3 A' : Nat) (hp : p % 2 = 0) (hp2 : p < 2 ^ 32)
    (h1 : b1 < 256) (h2 : b2 < 256) (h3 : b3 < 256) (hr : b1 &&& 0x0D = 0)
    (hA : A = wadd (jalAE b1 b2 b3) p)
    (hc1 : c1 = jalE1 b1 A % 256) (hc2 : c2 = (A >>> 9) % 256) (hc3 : c3 = (A >>> 1) % 256)
    (hA' : A' = wsub (jalAD c1 c2 c3) p) :
    c1 &&& 0x0D = 0 ∧ jalD1 c1 A' % 256 = b1 ∧ jalD2 A' % 256 = b2 ∧ jalD3 A' % 256 = b3 := by
  rw [and_0D] at hr ⊢
  rw [jalE1_eq] at hc1
  rw [shr_eq] at hc2 hc3
  rw [jalAE_eq _ _ _ h1 h2 h3] at hA
  simp only [wadd] at hA
  have hS : b1 / 16 * 2 ^ 12 + b2 % 16 * 2 ^ 16 + b2 / 16 % 2 * 2 ^ 11 + b2 / 32 * 2
      + b3 % 128 * 16 + b3 / 128 * 2 ^ 20 < 2 ^ 21 := by omega
  have hAe : A % 2 = 0 := by omega
  obtain ⟨f1, f2, f3, f4, f5⟩ := jal_k1 A c1 c2 c3 b1 hAe hc1 hc2 (by rw [hc3])
  rw [jalAD_eq _ _ _ f3 f4 f5, f1] at hA'
  simp only [wsub] at hA'
  have k3 := jal_k3 _ p A A' hS hp2 hA hA'
  obtain ⟨w1, w2, w3⟩ := jal_k4 b1 b2 b3 c1 A' h1 h2 h3 f2 k3
  rw [jalD1_eq, jalD2_eq, jalD3_eq]
  refine ⟨?_, w1, w2, w3⟩
  clear hA hA' k3 w1 w2 w3 hc1 hc2 hc3 f1
  omega

theorem posAt_facts (st : St) (hp : st.pos % 2 = 0) (i : Nat) (hi : i % 2 = 0) :
    posAt st i % 2 = 0 ∧ posAt st i < 2 ^ 32 := by
  simp only [posAt, u32]; omega

theorem riscvStep_inv (st : St) (hp : st.pos % 2 = 0) (i : Nat) (b : Buf) (hi : i % 2 = 0) (hB : BBytes b)
    (hw : i + 8 ≤ b.size) :
    riscvStep false st i (riscvStep true st i b).1 = (b, (riscvStep true st i b).2) := by
  obtain ⟨hpe, hp2⟩ := posAt_facts st hp i hi
  rcases step_cases b i with ⟨h0, h1⟩ | ⟨h0, h1⟩ | ⟨h0, h1⟩ | ⟨h0, h1, h2, h3⟩ | ⟨h0, h1, h2, h3⟩ |
    ⟨h0, h1, h2, h3⟩ | ⟨h0, h1, h2, h3⟩
  · rw [step_jskip _ _ _ _ h0 h1]
    simp only
    rw [step_jskip _ _ _ _ h0 h1]
  · -- JAL
    rw [step_jalE _ _ _ h0 h1 _ rfl]
    simp only
    generalize hA : wadd (jalAE (gb b (i + 1)) (gb b (i + 2)) (gb b (i + 3))) (posAt st i) = A
    generalize hE : sb (sb (sb b (i + 1) (jalE1 (gb b (i + 1)) A)) (i + 2) (A >>> 9)) (i + 3) (A >>> 1) = E
    have hsz : E.size = b.size := by rw [← hE]; simp only [size_sb]
    have e0 : gb E i = gb b i := by
      rw [← hE, gb_sb_ne _ _ _ _ (by omega), gb_sb_ne _ _ _ _ (by omega), gb_sb_ne _ _ _ _ (by omega)]
    have e1 : gb E (i + 1) = jalE1 (gb b (i + 1)) A % 256 := by
      rw [← hE, gb_sb_ne _ _ _ _ (by omega), gb_sb_ne _ _ _ _ (by omega), gb_sb_eq _ _ _ (by omega)]
    have e2 : gb E (i + 2) = (A >>> 9) % 256 := by
      rw [← hE, gb_sb_ne _ _ _ _ (by omega), gb_sb_eq _ _ _ (by simp only [size_sb]; omega)]
    have e3 : gb E (i + 3) = (A >>> 1) % 256 := by
      rw [← hE, gb_sb_eq _ _ _ (by simp only [size_sb]; omega)]
    have eout : ∀ k, (k < i + 1 ∨ i + 4 ≤ k) → gb E k = gb b k := by
      intro k hk
      rw [← hE, gb_sb_ne _ _ _ _ (by omega), gb_sb_ne _ _ _ _ (by omega), gb_sb_ne _ _ _ _ (by omega)]
    obtain ⟨r0, r1, r2, r3⟩ := jal_arith (posAt st i) (gb b (i + 1)) (gb b (i + 2)) (gb b (i + 3)) A
      (gb E (i + 1)) (gb E (i + 2)) (gb E (i + 3)) _ hpe hp2 (hB _) (hB _) (hB _) h1 hA.symm e1 e2 e3 rfl
    rw [step_jalD _ _ _ (by rw [e0]; exact h0) r0 _ rfl]
    apply Prod.ext
    · simp only
      apply buf_ext
      · simp only [size_sb]; exact hsz
      · intro k _
        by_cases hk : k < i + 1 ∨ i + 4 ≤ k
        · rw [gb_sb_ne _ _ _ _ (by omega), gb_sb_ne _ _ _ _ (by omega), gb_sb_ne _ _ _ _ (by omega), eout k hk]
        · have : k = i + 1 ∨ k = i + 2 ∨ k = i + 3 := by omega
          rcases this with rfl | rfl | rfl
          · rw [gb_sb_ne _ _ _ _ (by omega), gb_sb_ne _ _ _ _ (by omega), gb_sb_eq _ _ _ (by omega), r1]
          · rw [gb_sb_ne _ _ _ _ (by omega), gb_sb_eq _ _ _ (by simp only [size_sb]; omega), r2]
          · rw [gb_sb_eq _ _ _ (by simp only [size_sb]; omega), r3]
    · rfl
  · rw [step_other _ _ _ _ h0 h1]
    simp only
    rw [step_other _ _ _ _ h0 h1]
  · rw [step_b1skip _ _ _ _ h0 h1 h2 h3]
    simp only
    rw [step_b1skip _ _ _ _ h0 h1 h2 h3]
  · -- AUIPC pair (encoder branch 1, decoder branch 2)
    rw [step_b1E _ _ _ h0 h1 h2 h3]
    simp only
    have hf := le32_lt b i hB
    have hi2 := le32_lt b (i + 4) hB
    have h17 : le32 b i % 128 = 0x17 := by
      have := le32_mod b i
      rw [and_7F] at h1
      omega
    obtain ⟨p1, p2⟩ := (rvPair_iff _ _).mp h3
    obtain ⟨q1, q2, q3, q4, q5, q6, q7⟩ := b1b2 (le32 b i) (le32 b (i + 4)) (posAt st i) hf hi2 hp2 h17 h2 p1 p2
    generalize hF : auF1 (le32 b (i + 4)) = F at q1 q3 q4 q5 q6 q7 ⊢
    generalize hA : auAE (le32 b i) (le32 b (i + 4)) (posAt st i) = A at q2 q6 q7 ⊢
    generalize hE : setBe32 (setLe32 b i F) (i + 4) A = E
    have hsz : E.size = b.size := by rw [← hE, size_setBe32, size_setLe32]
    have e0 : gb E i = F % 256 := by
      rw [← hE, gb_setBe32_out _ _ _ _ (by omega), (gb_setLe32_in _ _ _ (by omega)).1]
    have el : le32 E i = F := by
      rw [← hE, le32_congr (setLe32 b i F) _ i (fun k k1 k2 => gb_setBe32_out _ _ _ _ (by omega)),
        le32_setLe32 _ _ _ (by omega), Nat.mod_eq_of_lt q1]
    have eb : be32 E (i + 4) = A := by
      rw [← hE, be32_setBe32 _ _ _ (by rw [size_setLe32]; omega), Nat.mod_eq_of_lt q2]
    have eout : ∀ k, (k < i ∨ i + 8 ≤ k) → gb E k = gb b k := by
      intro k hk
      rw [← hE, gb_setBe32_out _ _ _ _ (by omega), gb_setLe32_out _ _ _ _ (by omega)]
    rw [step_b2D _ _ _ (by rw [e0, q3]; decide) (by rw [e0, q3]; decide) (by rw [el]; exact q4)
      (by rw [el]; exact q5) _ rfl, el, eb, q6, q7, restore8 b E i hB hw hsz eout]
  · rw [step_b2skip _ _ _ _ h0 h1 h2 h3]
    simp only
    rw [step_b2skip _ _ _ _ h0 h1 h2 h3]
  · -- special AUIPC (encoder branch 2, decoder branch 1)
    rw [step_b2E _ _ _ h0 h1 h2 h3]
    simp only
    have hf := le32_lt b i hB
    have hi2 := le32_lt b (i + 4) hB
    have h17 : le32 b i % 128 = 0x17 := by
      have := le32_mod b i
      rw [and_7F] at h1
      omega
    obtain ⟨q1, q2, q3, q4, q5, q6, q7, q8, q9⟩ := b2b1 (le32 b i) (le32 b (i + 4)) hf hi2 h17 h3
    generalize hF : auF2 (le32 b i) (le32 b (i + 4)) = F at q1 q3 q4 q5 q7 q9 ⊢
    generalize hI : auI2 (le32 b i) (le32 b (i + 4)) = I at q2 q6 q7 q8 q9 ⊢
    generalize hE : setLe32 (setLe32 b i F) (i + 4) I = E
    have hsz : E.size = b.size := by rw [← hE, size_setLe32, size_setLe32]
    have e0 : gb E i = F % 256 := by
      rw [← hE, gb_setLe32_out _ _ _ _ (by omega), (gb_setLe32_in _ _ _ (by omega)).1]
    have el : le32 E i = F := by
      rw [← hE, le32_congr (setLe32 b i F) _ i (fun k k1 k2 => gb_setLe32_out _ _ _ _ (by omega)),
        le32_setLe32 _ _ _ (by omega), Nat.mod_eq_of_lt q1]
    have ei : le32 E (i + 4) = I := by
      rw [← hE, le32_setLe32 _ _ _ (by rw [size_setLe32]; omega), Nat.mod_eq_of_lt q2]
    have eout : ∀ k, (k < i ∨ i + 8 ≤ k) → gb E k = gb b k := by
      intro k hk
      rw [← hE, gb_setLe32_out _ _ _ _ (by omega), gb_setLe32_out _ _ _ _ (by omega)]
    rw [step_b1D _ _ _ (by rw [e0]; exact q3) (by rw [e0, and_7F]; exact q4) (by rw [el]; exact q5)
      (by rw [el, ei, rvPair_iff]; exact ⟨q6, q7⟩), el, ei, q8, q9, restore8 b E i hB hw hsz eout]

theorem riscv_stepOK (st : St) (hp : st.pos % 2 = 0) :
    StepOK 8 (fun i => i % 2 = 0) riscvSig (riscvStep true st) (riscvStep false st) where
  size_e := riscvStep_size _ _
  size_d := riscvStep_size _ _
  adv_V := fun i b h => by
    rcases riscvStep_adv true st i b with e | e | e | e <;> rw [e] <;> omega
  frame_e := riscvStep_frame _ _
  frame_d := riscvStep_frame _ _
  bytes_e := riscvStep_bytes _ _
  sig_e := by
    intro j b E _ hw hE r
    unfold riscvSig
    by_cases hr : r = 0
    · subst hr
      rw [if_pos rfl, if_pos rfl, Nat.add_zero]
      have h2 : j < j + (riscvStep true st j b).2 := by
        rcases riscvStep_adv true st j b with e | e | e | e <;> rw [e] <;> omega
      rw [hE _ h2, step_nibble st j b hw]
    · rw [if_neg hr, if_neg hr]
  loc_d := fun i b b' _ hs _ hag hsig => riscvStep_loc st i b b' hs hag hsig
  inv := fun i b hi hB hw => riscvStep_inv st hp i b hi hB hw

/-- STRETCH: RISC-V -/
theorem riscv_inv (start : Nat) (hs : start % 2 = 0) (xs : List Nat) (h : Bytes xs) :
    oneShot .riscv false start (oneShot .riscv true start xs) = xs := by
  have hp : (St.init .riscv start).pos % 2 = 0 := by simp only [St.init]; exact hs
  simp only [oneShot, code, riscvLoop_eq_scan]
  rw [Array.toArray_toList, scan_size _ (riscvStep_size _ _)]
  rw [scan_inv (riscv_stepOK _ hp) _ _ (by rfl) (BBytes_toArray xs h)]

end LzmaVerif.Filters
