/-
  Fast encoder: the BT4 model is a sound match finder in the sense of `FinderSound`
  (invariants `Bt4.Inv` and `Bt4.BInv` of the reachable states, logical position in step, `Bt4.find_bst`).
-/
import LzmaVerif.Proofs.EncFastLoop
import LzmaVerif.Proofs.Bt4BstInv

namespace LzmaVerif.EncFast
open LzmaVerif Mf Lzma

theorem bt4_stepHs_pos (B : Bt4.Bt4Params) (c : Bt4.Cfg) (d : Array UInt8) (s : Bt4.St) :
    (Bt4.stepHs B c d s).st.pos = s.pos + 1 := by
  unfold Bt4.stepHs; rw [Bt4.hashStage_st]; rfl

theorem bt4_skipTree_pos (B : Bt4.Bt4Params) (c : Bt4.Cfg) (d : Array UInt8) (s : Bt4.St) (n cur : Nat) :
    (Bt4.skipTree B c d s n cur).pos = s.pos := by
  rw [Bt4.skipTree_eq]

theorem bt4_find_pos {B : Bt4.Bt4Params} {c : Bt4.Cfg} {d : Array UInt8} (hH : Bt4.Hyp B c d) (s : Bt4.St) :
    (Bt4.find B c d s).1.pos = s.pos + 1 := by
  by_cases hp : Bt4.pending B c d s.pos
  · rw [Bt4.find_pending hH hp]
  · rw [Bt4.find_nonpending hH hp]
    split
    · rw [bt4_skipTree_pos]; exact bt4_stepHs_pos B c d s
    · exact bt4_stepHs_pos B c d s

theorem bt4_skipOne_pos {B : Bt4.Bt4Params} {c : Bt4.Cfg} {d : Array UInt8} (hH : Bt4.Hyp B c d) (s : Bt4.St) :
    (Bt4.skipOne B c d s).pos = s.pos + 1 := by
  rw [Bt4.skipOne_eq]
  have hml := hH.nice
  rcases Bt4.movePos_cases hH s with ⟨_, hmv⟩ | ⟨_, h3, hmv⟩
  · simp only [hmv]
    rw [if_pos ⟨by omega, trivial⟩]
  · simp only [hmv]
    rw [if_neg (by omega), bt4_skipTree_pos]
    exact bt4_stepHs_pos B c d s

theorem bt4_skip_pos {B : Bt4.Bt4Params} {c : Bt4.Cfg} {d : Array UInt8} (hH : Bt4.Hyp B c d) :
    ∀ (n : Nat) (s : Bt4.St), (Bt4.skip B c d n s).pos = s.pos + n
  | 0, s => rfl
  | n + 1, s => by
    rw [Bt4.skip, bt4_skip_pos hH n, bt4_skipOne_pos hH]; omega

/-- BT4 (`match_len_max = 273`) is a sound finder for the fast encoder -/
def bt4Sound (B : Bt4.Bt4Params) (dict nice depth : Nat) (d : Array UInt8)
    (hA : Bt4.HypA B { dict := dict, niceLen := nice, mlmax := 273, depth := depth } d) :
    FinderSound (bt4Finder B { dict := dict, niceLen := nice, mlmax := 273, depth := depth }) d dict 273 where
  R := fun s => Bt4.Inv B { dict := dict, niceLen := nice, mlmax := 273, depth := depth } d s ∧
    Bt4.BInv B { dict := dict, niceLen := nice, mlmax := 273, depth := depth } d s
  pos := fun s => s.pos
  init_R := ⟨Bt4.init_inv hA.toHyp false, Bt4.init_binv hA.toHyp false⟩
  init_pos := rfl
  find_R := fun _ h => ⟨Bt4.find_inv hA.toHyp h.1, (Bt4.find_bst hA h.1 h.2).1⟩
  find_pos := fun s _ => bt4_find_pos hA.toHyp s
  find_valid := fun _ h => (Bt4.find_bst hA h.1 h.2).2
  skip_R := fun _ n h => ⟨Bt4.skip_inv hA.toHyp n h.1, Bt4.skip_binv hA.toHyp n h.1 h.2⟩
  skip_pos := fun s n _ => bt4_skip_pos hA.toHyp n s

end LzmaVerif.EncFast
