/-
  (H3) `find` in a state satisfying the invariant reports only valid matches; (H5) the lift to scripts.
-/
import LzmaVerif.Proofs.Hc4Find

namespace LzmaVerif.Mf.Hc4

/-- `find` on a pending position (fewer than `minAvail` bytes left) reports nothing -/
theorem find_fst_pending (P : Hc4Params) (c : Cfg) (d : Array UInt8) (s : State)
    (h0 : encMovePos P d s.pos = 0) (hm : 1 ≤ c.mlmax) : (find P c d s).1 = [] := by
  unfold find
  have : encMovePos P d s.pos < c.mlmax ∧ encMovePos P d s.pos = 0 := ⟨by omega, h0⟩
  simp only [if_pos this]

/-- `find` on a position that is inserted, in terms of the fields of the old state -/
theorem find_fst_insert (P : Hc4Params) (c : Cfg) (d : Array UInt8) (s : State)
    (he : encMovePos P d s.pos = d.size - s.pos) (hne : d.size - s.pos ≠ 0) :
    let hs := hashesAt P c d s.pos
    let cp' : Int := if s.cyclicPos + 1 = (cyclicSize P c : Int) then 0 else s.cyclicPos + 1
    (find P c d s).1 =
      findMatches P c d (s.chain.setIfInBounds cp'.toNat (s.h4.getD hs.h4 0)) cp' (s.lzPos + 1) s.pos
        (d.size - s.pos) (s.lzPos + 1 - s.h2.getD hs.h2 0) (s.lzPos + 1 - s.h3.getD hs.h3 0)
        (s.h4.getD hs.h4 0) := by
  intro hs cp'
  simp only [find]
  rw [he]
  have : ¬ (d.size - s.pos < c.mlmax ∧ d.size - s.pos = 0) := fun h => hne h.2
  simp only [if_neg this]
  unfold movePos
  simp only [if_pos hne]
  cases s
  rfl

theorem entryOk_of_tbl {cs lz dict p : Nat} {R : Nat → Nat → Prop} {t : Array Nat}
    (h : TblOk cs lz R t) (hcs : cs = dict + 1) (hlz : lz = dict + 1 + p) (i : Nat) :
    EntryOk dict p (t.getD i 0) := by
  rcases h i with h0 | ⟨h1, h2, _⟩
  · exact Or.inl h0
  · exact Or.inr ⟨by omega, by omega⟩

/-- (H3) soundness of one `find_matches` call in a state satisfying the invariant -/
theorem find_sound (P : Hc4Params) (hP : P.ok) (c : Cfg) (d : Array UInt8) (s : State)
    (hinv : Inv P c d s) (hd : 1 ≤ c.dict) (hml : 3 ≤ c.mlmax) :
    (∀ m ∈ (find P c d s).1, ValidMatch d c.dict s.pos (min c.mlmax (d.size - s.pos)) m) ∧
    lensIncreasing (find P c d s).1 = true ∧
    (3 ≤ c.niceLen → (find P c d s).1.length ≤ c.niceLen - 1) := by
  have hP' := hP
  obtain ⟨_, _, _, hce, _, _, _, _, _, hm4, hho⟩ := hP
  rcases encMovePos_cases P d s.pos hm4 with ⟨h0, _⟩ | ⟨he, hge, hne⟩
  · rw [find_fst_pending P c d s h0 (by omega)]
    exact ⟨fun m hm => (by cases hm), rfl, fun _ => Nat.zero_le _⟩
  · have hF := find_fst_insert P c d s he (by omega)
    simp only at hF
    rw [hF]
    have hcs : cyclicSize P c = c.dict + 1 := by unfold cyclicSize; rw [hce]
    have hins : insCount P d s.pos = s.pos := by unfold insCount; omega
    have hlz : s.lzPos = c.dict + 1 + s.pos := by rw [hinv.lz, hins, hcs]
    have hlz1 : s.lzPos + 1 = c.dict + 1 + s.pos + 1 := by rw [hlz]
    refine ⟨?_, ?_, fun hn => findMatches_length P hP' c d _ _ _ _ _ _ _ _ hn⟩
    all_goals
      rw [hlz1]
      have hv := findMatches_valid P hP' c d
        (s.chain.setIfInBounds
          (if s.cyclicPos + 1 = (cyclicSize P c : Int) then 0 else s.cyclicPos + 1).toNat
          (s.h4.getD (hashesAt P c d s.pos).h4 0))
        (if s.cyclicPos + 1 = (cyclicSize P c : Int) then 0 else s.cyclicPos + 1)
        s.pos (d.size - s.pos)
        (c.dict + 1 + s.pos + 1 - s.h2.getD (hashesAt P c d s.pos).h2 0)
        (c.dict + 1 + s.pos + 1 - s.h3.getD (hashesAt P c d s.pos).h3 0)
        (s.h4.getD (hashesAt P c d s.pos).h4 0) rfl hge hml ?_ ?_ ?_ ?_
      · first | exact hv.1 | exact lensIncreasing_of_pairwise _ hv.2
      · -- hash2 candidate
        intro hlt
        rcases hinv.t2 (hashesAt P c d s.pos).h2 with h0 | ⟨h1, h2, h3⟩
        · rw [h0] at hlt; omega
        · rw [hcs] at h1 h3
          rw [hlz] at h2
          generalize s.h2.getD (hashesAt P c d s.pos).h2 0 = e at *
          refine ⟨by omega, by omega, ?_⟩
          intro hb
          have hq : e - (c.dict + 1) - 1 = s.pos - (c.dict + 1 + s.pos + 1 - e) := by omega
          rw [hq] at h3
          unfold hashesAt at h3
          rw [hb] at h3
          have := hash2_sound P.hash hho _ _ _ _ _ _ _ _ _ (byteAt_lt _ _) (byteAt_lt _ _) h3
          have hq2 : s.pos - (c.dict + 1 + s.pos + 1 - e) + 1 = s.pos + 1 - (c.dict + 1 + s.pos + 1 - e) := by
            omega
          rw [hq2] at this
          exact this.symm
      · -- hash3 candidate
        intro hlt
        rcases hinv.t3 (hashesAt P c d s.pos).h3 with h0 | ⟨h1, h2, h3⟩
        · rw [h0] at hlt; omega
        · rw [hcs] at h1 h3
          rw [hlz] at h2
          generalize s.h3.getD (hashesAt P c d s.pos).h3 0 = e at *
          refine ⟨by omega, by omega, ?_⟩
          intro hb
          have hq : e - (c.dict + 1) - 1 = s.pos - (c.dict + 1 + s.pos + 1 - e) := by omega
          rw [hq] at h3
          unfold hashesAt at h3
          rw [hb] at h3
          have := hash3_sound P.hash hho _ _ _ _ _ _ _ _ _ (byteAt_lt _ _) (byteAt_lt _ _)
            (byteAt_lt _ _) (byteAt_lt _ _) h3
          have hq2 : s.pos - (c.dict + 1 + s.pos + 1 - e) + 1 = s.pos + 1 - (c.dict + 1 + s.pos + 1 - e) := by
            omega
          have hq3 : s.pos - (c.dict + 1 + s.pos + 1 - e) + 2 = s.pos + 2 - (c.dict + 1 + s.pos + 1 - e) := by
            omega
          rw [hq2, hq3] at this
          exact ⟨this.1.symm, this.2.symm⟩
      · exact entryOk_of_tbl hinv.t4 hcs hlz _
      · intro i
        refine entryOk_of_tbl (hinv.ch.set _ _ ?_) hcs hlz i
        rcases hinv.t4 (hashesAt P c d s.pos).h4 with h0 | ⟨h1, h2, _⟩
        · exact Or.inl h0
        · exact Or.inr ⟨h1, h2, trivial⟩

/-! ### (H5) scripts -/

/-- what is claimed about one entry `(position, matches)` of a trace -/
def FindOk (c : Cfg) (d : Array UInt8) (f : Nat × List Match) : Prop :=
  (∀ m ∈ f.2, ValidMatch d c.dict f.1 (min c.mlmax (d.size - f.1)) m) ∧
  lensIncreasing f.2 = true ∧
  (3 ≤ c.niceLen → f.2.length ≤ c.niceLen - 1)

/-- states reachable from `init` by `find_matches` and `skip` calls -/
inductive Reachable (P : Hc4Params) (c : Cfg) (d : Array UInt8) : State → Prop
  | init : Reachable P c d (init P c)
  | find (s : State) : Reachable P c d s → Reachable P c d (find P c d s).2
  | skip (s : State) (n : Nat) : Reachable P c d s → Reachable P c d (skip P c d n s)

theorem Reachable.inv {P : Hc4Params} (hP : P.ok) {c : Cfg} {d : Array UInt8} (hd : 1 ≤ c.dict)
    (hm : 1 ≤ c.mlmax) {s : State} (h : Reachable P c d s) : Inv P c d s := by
  induction h with
  | init => exact init_inv P hP c d
  | find s _ ih => exact find_inv P hP c d s ih hd hm
  | skip s n _ ih => exact skip_inv P hP c d hd n s ih

theorem runScriptAux_sound (P : Hc4Params) (hP : P.ok) (c : Cfg) (d : Array UInt8) (hd : 1 ≤ c.dict)
    (hml : 3 ≤ c.mlmax) :
    ∀ (script : List Nat) (s : State) (acc : List (Nat × List Match)),
      Reachable P c d s → (∀ f ∈ acc, FindOk c d f) →
      (∀ f ∈ (runScriptAux P c d script s acc).1, FindOk c d f) ∧
      Reachable P c d (runScriptAux P c d script s acc).2 := by
  intro script
  induction script with
  | nil =>
    intro s acc hr hacc
    simp only [runScriptAux]
    exact ⟨fun f hf => hacc f (List.mem_reverse.mp hf), hr⟩
  | cons op rest ih =>
    intro s acc hr hacc
    simp only [runScriptAux]
    split
    · exact ⟨fun f hf => hacc f (List.mem_reverse.mp hf), hr⟩
    · split
      · apply ih _ _ (Reachable.find s hr)
        intro f hf
        rcases List.mem_cons.mp hf with h | h
        · subst h
          exact find_sound P hP c d s (hr.inv hP hd (by omega)) hd hml
        · exact hacc f h
      · exact ih _ _ (Reachable.skip s op hr) hacc

end LzmaVerif.Mf.Hc4
