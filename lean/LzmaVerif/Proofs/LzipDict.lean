import LzmaVerif.Model.Lzip
import Mathlib.Tactic.IntervalCases
/-! Helper lemmas for the LZIP dictionary-size byte. -/
namespace LzmaVerif.Lzip

theorem min_eq : MIN_DICT_SIZE = 4096 := by decide
theorem max_eq : MAX_DICT_SIZE = 2 ^ 29 := by decide

theorem ceilLog2_spec (d : Nat) (h1 : 4096 ≤ d) (h2 : d ≤ 2^29) :
    12 ≤ ceilLog2 d ∧ ceilLog2 d ≤ 29 ∧ d ≤ 2 ^ (ceilLog2 d) ∧
      (ceilLog2 d = 12 ∨ 2 ^ (ceilLog2 d - 1) < d) := by
  have hd : d ≠ 0 := by omega
  have hlo : 2 ^ (Nat.log2 d) ≤ d := Nat.log2_self_le hd
  have hhi : d < 2 ^ (Nat.log2 d + 1) := Nat.lt_log2_self
  have hl29 : Nat.log2 d ≤ 29 := by
    by_contra hc
    have : 2 ^ 30 ≤ 2 ^ Nat.log2 d := Nat.pow_le_pow_right (by decide) (by omega)
    omega
  have hl12 : 12 ≤ Nat.log2 d := by
    by_contra hc
    have : 2 ^ (Nat.log2 d + 1) ≤ 2 ^ 12 := Nat.pow_le_pow_right (by decide) (by omega)
    omega
  unfold ceilLog2
  simp only
  split <;> rename_i hlt
  · have hl28 : Nat.log2 d ≤ 28 := by
      by_contra hc
      have : Nat.log2 d = 29 := by omega
      rw [this] at hlt; omega
    have : ¬ (Nat.log2 d + 1 < 12) := by omega
    simp only [this, if_false]
    refine ⟨by omega, by omega, by omega, Or.inr ?_⟩
    simpa using hlt
  · have : ¬ (Nat.log2 d < 12) := by omega
    simp only [this, if_false]
    have heq : d = 2 ^ Nat.log2 d := by omega
    refine ⟨hl12, hl29, by omega, ?_⟩
    by_cases h12 : Nat.log2 d = 12
    · exact Or.inl h12
    · right
      have : 2 ^ (Nat.log2 d - 1) < 2 ^ (Nat.log2 d) := Nat.pow_lt_pow_right (by decide) (by omega)
      omega

/-- `2^b = 16 * 2^(b-4)` for `b ≥ 4` -/
theorem pow_split (b : Nat) (hb : 4 ≤ b) : 2 ^ b = 16 * 2 ^ (b - 4) := by
  have : b = (b - 4) + 4 := by omega
  conv => lhs; rw [this, Nat.pow_add]
  omega

theorem pow_div16 (b : Nat) (hb : 4 ≤ b) : 2 ^ b / 16 = 2 ^ (b - 4) := by
  rw [pow_split b hb]; omega

/-- what `decodeDict` computes on a well-formed byte -/
theorem decodeDict_eq (b k : Nat) (hb1 : 12 ≤ b) (hb2 : b ≤ 29) (hk : k ≤ 7) :
    decodeDict (k * 32 + b) =
      (if 4096 ≤ 2 ^ b - 2 ^ (b - 4) * k ∧ 2 ^ b - 2 ^ (b - 4) * k ≤ 2 ^ 29
       then some (2 ^ b - 2 ^ (b - 4) * k) else none) := by
  unfold decodeDict
  have hm : (k * 32 + b) % 32 = b := by omega
  have hdv : (k * 32 + b) / 32 = k := by omega
  simp only [hm, hdv, hb1, hb2, and_self, if_true, min_eq, max_eq, pow_div16 b (by omega)]

/-- every accepted byte has this shape -/
theorem decodeDict_some (e d : Nat) (h : decodeDict e = some d) :
    12 ≤ e % 32 ∧ e % 32 ≤ 29 ∧ d = 2 ^ (e % 32) - 2 ^ (e % 32 - 4) * (e / 32) ∧ 4096 ≤ d ∧ d ≤ 2 ^ 29 := by
  unfold decodeDict at h
  simp only [min_eq, max_eq] at h
  split at h
  · rename_i hb
    split at h
    · rename_i hd
      simp only [Option.some.injEq] at h
      rw [pow_div16 _ (by omega)] at h hd
      exact ⟨hb.1, hb.2, h.symm, by omega, by omega⟩
    · cases h
  · cases h

end LzmaVerif.Lzip
