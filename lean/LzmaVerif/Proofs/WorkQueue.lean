import LzmaVerif.Model.WorkQueue
namespace LzmaVerif.WorkQueue

def holdsLock : WPc → Bool
  | .locked | .check | .toWait => true
  | _ => false

def prodHolds : PPc → Bool
  | .pushDo _ | .closeStore | .closeUnlock => true
  | _ => false

structure Inv (s : Sys) : Prop where
  fixed : s.fixed = true
  lockProd : s.lock = .prod ↔ prodHolds s.p = true
  lockW : ∀ i, s.lock = .worker i ↔ (∃ w, s.ws[i]? = some w ∧ holdsLock w = true)
  closedIff : s.closed = true ↔ (s.p = .closeUnlock ∨ s.p = .closeNotify ∨ s.p = .done)
  closedNoToWait : s.closed = true → ∀ w ∈ s.ws, w ≠ .toWait
  doneNoWait : s.p = .done → ∀ w ∈ s.ws, w ≠ .waiting
  exitedQ : (.exited ∈ s.ws) → s.q = 0 ∧ s.closed = true
  chkQ : ∀ w ∈ s.ws, (w = .check ∨ w = .toWait) → s.q = 0

theorem wakeAll_noWait (ws : List WPc) : ∀ w ∈ wakeAll ws, w ≠ .waiting := by
  intro w hw
  simp only [wakeAll, List.mem_map] at hw
  obtain ⟨a, _, rfl⟩ := hw
  split <;> simp_all

theorem holds_wakeAll (ws : List WPc) (i : Nat) :
    (∃ w, (wakeAll ws)[i]? = some w ∧ holdsLock w = true) ↔ (∃ w, ws[i]? = some w ∧ holdsLock w = true) := by
  simp only [wakeAll, List.getElem?_map]
  cases h : ws[i]? with
  | none => simp
  | some a => cases a <;> simp [holdsLock]

theorem wakeOne_get (ws : List WPc) (i : Nat) :
    (wakeOne ws)[i]? = ws[i]? ∨ (ws[i]? = some .waiting ∧ (wakeOne ws)[i]? = some .woken) := by
  induction ws generalizing i with
  | nil => simp [wakeOne]
  | cons a r ih =>
    cases a <;> cases i <;> simp [wakeOne] <;> exact ih _

theorem holds_wakeOne (ws : List WPc) (i : Nat) :
    (∃ w, (wakeOne ws)[i]? = some w ∧ holdsLock w = true) ↔ (∃ w, ws[i]? = some w ∧ holdsLock w = true) := by
  rcases wakeOne_get ws i with h | ⟨h1, h2⟩
  · rw [h]
  · rw [h1, h2]; simp [holdsLock]

theorem mem_wakeOne (ws : List WPc) (w : WPc) (h : w ∈ wakeOne ws) : w ∈ ws ∨ w = .woken := by
  induction ws with
  | nil => simp [wakeOne] at h
  | cons a r ih =>
    cases a <;> simp only [wakeOne, List.mem_cons] at h ⊢ <;> grind

theorem mem_wakeAll (ws : List WPc) (w : WPc) (h : w ∈ wakeAll ws) : w ∈ ws ∨ w = .woken := by
  simp only [wakeAll, List.mem_map] at h
  obtain ⟨a, ha, rfl⟩ := h
  split
  · right; rfl
  · left; exact ha

theorem noHolder_of_prod (s : Sys)
    (hlw : ∀ i, s.lock = .worker i ↔ (∃ w, s.ws[i]? = some w ∧ holdsLock w = true))
    (hl : s.lock = .prod) : ∀ w ∈ s.ws, holdsLock w = false := by
  intro w hw
  obtain ⟨j, hj⟩ := List.getElem?_of_mem hw
  cases hh : holdsLock w with
  | false => rfl
  | true => have := (hlw j).mpr ⟨w, hj, hh⟩; rw [hl] at this; cases this

theorem prod_step_inv (s s' : Sys) (h : Inv s) (hs : step s .prod = some s') : Inv s' := by
  obtain ⟨hf, hlp, hlw, hcl, hntw, hdn, hex, hcq⟩ := h
  simp only [step] at hs
  split at hs
  · -- pushLock
    rename_i l hp
    split at hs <;> simp at hs
    rename_i hl; subst hs
    constructor <;> simp_all [prodHolds] <;> (try assumption)
  · -- pushDo
    rename_i l hp
    simp at hs; subst hs
    have hl : s.lock = .prod := hlp.mpr (by simp [hp, prodHolds])
    have hnh := noHolder_of_prod s hlw hl
    constructor <;> simp_all [prodHolds] <;> (try assumption)
    all_goals (try (intro he; have := hex he; simp_all))
    · intro w hw
      have := hnh w hw
      constructor <;> (intro hc; subst hc; simp [holdsLock] at this)
  · -- pushNotify
    rename_i l hp
    simp at hs; subst hs
    have hl : s.lock ≠ .prod := by intro hc; have := hlp.mp hc; simp [hp, prodHolds] at this
    have hclf : s.closed = false := by
      cases hc : s.closed with
      | false => rfl
      | true => have := hcl.mp hc; simp [hp] at this
    constructor <;> simp only
    · exact hf
    · simp only [nextAfterNotify, startClose, hf]
      split <;> simp_all [prodHolds]
    · intro i; rw [holds_wakeOne]; exact hlw i
    · simp only [nextAfterNotify, startClose, hf]
      split <;> simp_all
    · intro hc; rw [hclf] at hc; cases hc
    · simp only [nextAfterNotify, startClose, hf]
      split <;> simp
    · intro he
      have : WPc.exited ∈ s.ws := by
        rcases mem_wakeOne _ _ he with h | h
        · exact h
        · cases h
      exact hex this
    · intro w hw hc
      rcases mem_wakeOne _ _ hw with h | h
      · exact hcq w h hc
      · subst h; rcases hc with hc | hc <;> cases hc
  · -- closeLock
    rename_i hp
    split at hs <;> simp at hs
    rename_i hl; subst hs
    constructor <;> simp_all [prodHolds] <;> (try assumption)
  · -- closeStore: the flag becomes visible while the producer holds the mutex,
    -- hence no worker sits between its `closed` load and its wait
    rename_i hp
    simp at hs; subst hs
    have hl : s.lock = .prod := hlp.mpr (by simp [hp, prodHolds])
    have hnh := noHolder_of_prod s hlw hl
    constructor <;> simp only [hf, if_true]
    · simp [hl, prodHolds]
    · exact hlw
    · simp
    · intro _ w hw hc
      have := hnh w hw
      subst hc; simp [holdsLock] at this
    · intro hc; cases hc
    · intro he; have := hex he; rw [hcl] at this; simp [hp] at this
    · exact hcq
  · -- closeUnlock
    rename_i hp
    simp at hs; subst hs
    have hl : s.lock = .prod := hlp.mpr (by simp [hp, prodHolds])
    have hnh := noHolder_of_prod s hlw hl
    have hc : s.closed = true := hcl.mpr (Or.inl hp)
    constructor <;> simp only
    · exact hf
    · simp [prodHolds]
    · intro i
      constructor
      · intro h; cases h
      · rintro ⟨w, hw1, hw2⟩
        rw [hnh w (List.mem_of_getElem? hw1)] at hw2; cases hw2
    · simp [hc]
    · exact hntw
    · intro h; cases h
    · exact hex
    · exact hcq
  · -- closeNotify
    rename_i hp
    simp at hs; subst hs
    have hl : s.lock ≠ .prod := by intro hc; have := hlp.mp hc; simp [hp, prodHolds] at this
    have hc : s.closed = true := hcl.mpr (Or.inr (Or.inl hp))
    constructor <;> simp only
    · exact hf
    · simp [prodHolds, hl]
    · intro i; rw [holds_wakeAll]; exact hlw i
    · simp [hc]
    · intro _ w hw hw2
      rcases mem_wakeAll _ _ hw with h | h
      · exact hntw hc w h hw2
      · subst h; cases hw2
    · intro _ w hw
      exact wakeAll_noWait _ w hw
    · intro he
      have : WPc.exited ∈ s.ws := by
        rcases mem_wakeAll _ _ he with h | h
        · exact h
        · cases h
      exact hex this
    · intro w hw hc
      rcases mem_wakeAll _ _ hw with h | h
      · exact hcq w h hc
      · subst h; rcases hc with hc | hc <;> cases hc
  · -- done
    simp at hs

theorem mem_set (ws : List WPc) (i : Nat) (v w : WPc) (h : w ∈ ws.set i v) : w = v ∨ w ∈ ws := by
  rcases List.mem_or_eq_of_mem_set h with h | h
  · right; exact h
  · left; exact h

theorem get_set (ws : List WPc) (i j : Nat) (v : WPc) :
    (ws.set i v)[j]? = if i = j then (if i < ws.length then some v else none) else ws[j]? := by
  rw [List.getElem?_set]

theorem holder_of_mem (s : Sys) (hlw : ∀ i, s.lock = .worker i ↔ (∃ w, s.ws[i]? = some w ∧ holdsLock w = true))
    (w : WPc) (hw : w ∈ s.ws) (hh : holdsLock w = true) : ∃ i, s.lock = .worker i := by
  obtain ⟨i, hi⟩ := List.getElem?_of_mem hw
  exact ⟨i, (hlw i).mpr ⟨w, hi, hh⟩⟩


/-- generic preservation for a worker move `old → new` at index `i` -/
theorem move_inv (s : Sys) (i : Nat) (old new : WPc) (lk : Owner) (q' : Nat)
    (h : Inv s) (hold : s.ws[i]? = some old)
    -- lock bookkeeping of the move
    (hlk : (holdsLock new = true → lk = .worker i) ∧
           (holdsLock new = false → holdsLock old = true → lk = .none) ∧
           (holdsLock new = false → holdsLock old = false → lk = s.lock) ∧
           (holdsLock new = true → holdsLock old = false → s.lock = .none))
    (hq : q' ≤ s.q)
    (hnw : new = .waiting → old = .toWait)
    (hntw : new = .toWait → s.closed = false ∧ q' = 0)
    (hnck : new = .check → q' = 0)
    (hnex : new = .exited → s.closed = true ∧ q' = 0)
    (hqlock : q' ≠ s.q → holdsLock old = true) :
    Inv { s with q := q', lock := lk, ws := s.ws.set i new } := by
  obtain ⟨hf, hlp, hlw, hcl, hnt, hdn, hex, hcq⟩ := h
  obtain ⟨hil, hget⟩ := List.getElem?_eq_some_iff.mp hold
  have hmem : old ∈ s.ws := List.mem_of_getElem? hold
  obtain ⟨hk1, hk2, hk3, hk4⟩ := hlk
  -- who holds the lock before
  have hown : holdsLock old = true → s.lock = .worker i := fun hh => (hlw i).mpr ⟨old, hold, hh⟩
  have hnot : holdsLock old = false → s.lock ≠ .worker i := by
    intro hh hc
    obtain ⟨w, hw1, hw2⟩ := (hlw i).mp hc
    rw [hold] at hw1; cases hw1; rw [hh] at hw2; cases hw2
  constructor <;> simp only
  · exact hf
  · -- lockProd
    cases hn : holdsLock new <;> cases ho : holdsLock old
    · rw [hk3 hn ho]; exact hlp
    · rw [hk2 hn ho]
      have := hown ho
      constructor
      · intro hc; cases hc
      · intro hc; have := hlp.mpr hc; rw [hown ho] at this; cases this
    · rw [hk1 hn]
      have h0 := hk4 hn ho
      constructor
      · intro hc; cases hc
      · intro hc; have := hlp.mpr hc; rw [h0] at this; cases this
    · rw [hk1 hn]
      constructor
      · intro hc; cases hc
      · intro hc; have := hlp.mpr hc; rw [hown ho] at this; cases this
  · -- lockW
    intro j
    rw [get_set]
    by_cases hij : i = j
    · subst hij
      simp only [if_true, hil]
      cases hn : holdsLock new
      · constructor
        · intro hc
          cases ho : holdsLock old
          · rw [hk3 hn ho] at hc; exact absurd hc (hnot ho)
          · rw [hk2 hn ho] at hc; cases hc
        · rintro ⟨w, hw1, hw2⟩; cases hw1; rw [hn] at hw2; cases hw2
      · constructor
        · intro _; exact ⟨new, rfl, hn⟩
        · intro _; exact hk1 hn
    · simp only [hij, if_false]
      have hne : Owner.worker i ≠ Owner.worker j := by intro hc; cases hc; exact hij rfl
      cases hn : holdsLock new <;> cases ho : holdsLock old
      · rw [hk3 hn ho]; exact hlw j
      · rw [hk2 hn ho]
        constructor
        · intro hc; cases hc
        · intro hc; have := (hlw j).mpr hc; rw [hown ho] at this; exact absurd this hne
      · rw [hk1 hn]
        constructor
        · intro hc; exact absurd hc hne
        · intro hc; have := (hlw j).mpr hc; rw [hk4 hn ho] at this; cases this
      · rw [hk1 hn]
        constructor
        · intro hc; exact absurd hc hne
        · intro hc; have := (hlw j).mpr hc; rw [hown ho] at this; exact absurd this hne
  · exact hcl
  · -- closedNoToWait: `toWait` is entered only after loading closed = false under the lock
    intro hc2 w hw
    rcases mem_set _ _ _ _ hw with h | h
    · subst h
      intro hc
      have := (hntw hc).1
      rw [this] at hc2; cases hc2
    · exact hnt hc2 w h
  · -- doneNoWait
    intro hp w hw
    have hc2 : s.closed = true := hcl.mpr (Or.inr (Or.inr hp))
    rcases mem_set _ _ _ _ hw with h | h
    · subst h
      intro hc
      have := hnw hc; subst this
      exact hnt hc2 _ hmem rfl
    · exact hdn hp w h
  · -- exitedQ
    intro he
    rcases mem_set _ _ _ _ he with h | h
    · have := hnex h.symm; exact ⟨this.2, this.1⟩
    · have := hex h
      exact ⟨by omega, this.2⟩
  · -- chkQ
    intro w hw hc
    rcases mem_set _ _ _ _ hw with h | h
    · subst h
      rcases hc with hc | hc
      · exact hnck hc
      · exact (hntw hc).2
    · have := hcq w h hc; omega


theorem worker_step_inv (s s' : Sys) (i : Nat) (h : Inv s) (hs : step s (.worker i) = some s') : Inv s' := by
  have h0 := h
  obtain ⟨hf, hlp, hlw, hcl, hnt, hdn, hex, hcq⟩ := h
  simp only [step] at hs
  split at hs
  · simp at hs
  · rename_i pc hpc
    have hmem : pc ∈ s.ws := List.mem_of_getElem? hpc
    have hown : holdsLock pc = true → s.lock = .worker i := fun hh => (hlw i).mpr ⟨pc, hpc, hh⟩
    cases pc <;> simp only at hs
    · -- idle
      split at hs <;> simp at hs
      rename_i hl; subst hs
      exact move_inv s i .idle .locked (.worker i) s.q h0 hpc (by simp [holdsLock, hl]) (Nat.le_refl _)
        (by simp) (by simp) (by simp) (by simp) (by simp)
    · -- locked
      have hl := hown rfl
      split at hs <;> simp at hs <;> subst hs
      · exact move_inv s i .locked .work .none (s.q - 1) h0 hpc (by simp [holdsLock]) (by omega)
          (by simp) (by simp) (by simp) (by simp) (by simp [holdsLock])
      · rename_i hq
        have := move_inv s i .locked .check s.lock s.q h0 hpc (by simp [holdsLock, hl]) (Nat.le_refl _)
          (by simp) (by simp) (by intro _; omega) (by simp) (by simp)
        simpa using this
    · -- check
      have hl := hown rfl
      have hq0 : s.q = 0 := hcq _ hmem (Or.inl rfl)
      split at hs <;> simp at hs <;> subst hs
      · rename_i hc
        have := move_inv s i .check .exited .none s.q h0 hpc (by simp [holdsLock]) (Nat.le_refl _)
          (by simp) (by simp) (by simp) (by intro _; exact ⟨hc, hq0⟩) (by simp)
        simpa using this
      · rename_i hc
        have hc' : s.closed = false := by cases h : s.closed <;> simp_all
        have := move_inv s i .check .toWait s.lock s.q h0 hpc (by simp [holdsLock, hl]) (Nat.le_refl _)
          (by simp) (by intro _; exact ⟨hc', hq0⟩) (by simp) (by simp) (by simp)
        simpa using this
    · -- toWait
      simp at hs; subst hs
      have := move_inv s i .toWait .waiting .none s.q h0 hpc (by simp [holdsLock]) (Nat.le_refl _)
        (by simp) (by simp) (by simp) (by simp) (by simp)
      simpa using this
    · -- waiting
      simp at hs
    · -- woken
      split at hs <;> simp at hs
      rename_i hl; subst hs
      exact move_inv s i .woken .locked (.worker i) s.q h0 hpc (by simp [holdsLock, hl]) (Nat.le_refl _)
        (by simp) (by simp) (by simp) (by simp) (by simp)
    · -- work
      simp at hs; subst hs
      have hnl : s.lock ≠ .worker i := by
        intro hc
        obtain ⟨w, hw1, hw2⟩ := (hlw i).mp hc
        rw [hpc] at hw1; cases hw1; simp [holdsLock] at hw2
      have := move_inv s i .work .idle s.lock s.q h0 hpc (by simp [holdsLock]) (Nat.le_refl _)
        (by simp) (by simp) (by simp) (by simp) (by simp)
      simpa using this
    · -- exited
      simp at hs

theorem step_inv (s s' : Sys) (t : Tid) (h : Inv s) (hs : step s t = some s') : Inv s' := by
  cases t with
  | prod => exact prod_step_inv s s' h hs
  | worker i => exact worker_step_inv s s' i h hs

theorem run_inv (sched : List Tid) : ∀ s s', Inv s → runSched s sched = some s' → Inv s' := by
  induction sched with
  | nil => intro s s' h hr; simp [runSched] at hr; subst hr; exact h
  | cons t ts ih =>
    intro s s' h hr
    simp only [runSched] at hr
    cases hst : step s t with
    | none => rw [hst] at hr; simp at hr
    | some s1 =>
      rw [hst] at hr
      exact ih s1 s' (step_inv s s1 t h hst) hr


theorem init_inv (n k : Nat) : Inv (init true n k) := by
  have hrep : ∀ w ∈ List.replicate k WPc.idle, w = .idle := fun w hw => (List.mem_replicate.mp hw).2
  constructor <;> simp only [init]
  · constructor
    · intro hc; cases hc
    · intro hc; simp only [startClose] at hc; split at hc <;> simp [prodHolds] at hc
  · intro i
    constructor
    · intro hc; cases hc
    · rintro ⟨w, hw1, hw2⟩
      have := hrep w (List.mem_of_getElem? hw1)
      subst this; simp [holdsLock] at hw2
  · constructor
    · intro hc; cases hc
    · intro hc; simp only [startClose] at hc; split at hc <;> simp at hc
  · intro hc; cases hc
  · intro hc; simp only [startClose] at hc; split at hc <;> simp at hc
  · intro hc; have := hrep _ hc; cases this
  · intro w hw hc; have := hrep _ hw; subst this; rcases hc with hc | hc <;> cases hc

/-- In the fixed model every terminal state has all workers exited and the producer done. -/
theorem terminal_good (s : Sys) (h : Inv s) (ht : terminal s = true) :
    s.p = .done ∧ ∀ w ∈ s.ws, w = .exited := by
  obtain ⟨hf, hlp, hlw, hcl, hnt, hdn, hex, hcq⟩ := h
  simp only [terminal, Bool.and_eq_true, List.all_eq_true, List.mem_range, Option.isNone_iff_eq_none] at ht
  obtain ⟨htp, htw⟩ := ht
  -- no worker holds the lock (a holder can always step)
  have hnoholder : ∀ (i : Nat) (w : WPc), s.ws[i]? = some w → holdsLock w = false := by
    intro i w hw
    have hil := (List.getElem?_eq_some_iff.mp hw).1
    have hst := htw i hil
    cases w <;> simp only [step, hw] at hst <;> (try rfl) <;> (try (split at hst <;> simp at hst)) <;> simp at hst
  have hlockNotW : ∀ i, s.lock ≠ .worker i := by
    intro i hc
    obtain ⟨w, hw1, hw2⟩ := (hlw i).mp hc
    rw [hnoholder i w hw1] at hw2; cases hw2
  -- producer is done
  have hpd : s.p = .done := by
    cases hp : s.p <;> simp only [step, hp] at htp <;> (try rfl)
    all_goals (try (simp at htp))
    all_goals (
      have hlk : s.lock ≠ .prod := by
        intro hc; have := hlp.mp hc; rw [hp] at this; simp [prodHolds] at this
      cases hl : s.lock with
      | none => simp [hl] at htp
      | prod => exact absurd hl hlk
      | worker i => exact absurd hl (hlockNotW i))
  refine ⟨hpd, ?_⟩
  have hlnone : s.lock = .none := by
    cases hl : s.lock with
    | none => rfl
    | prod => have := hlp.mp hl; rw [hpd] at this; simp [prodHolds] at this
    | worker i => exact absurd hl (hlockNotW i)
  intro w hw
  obtain ⟨i, hi⟩ := List.getElem?_of_mem hw
  have hil := (List.getElem?_eq_some_iff.mp hi).1
  have hst := htw i hil
  have hnw := hdn hpd w hw
  cases w <;> simp only [step, hi, hlnone] at hst <;> (try rfl) <;> (try (split at hst)) <;> (try (simp at hst)) <;> simp_all

/-- Every maximal run of the fixed queue ends with all workers exited. -/
theorem fixed_no_lost_wakeup (n k : Nat) (sched : List Tid) (s : Sys)
    (hr : runSched (init true n k) sched = some s) (ht : terminal s = true) :
    s.p = .done ∧ ∀ w ∈ s.ws, w = .exited :=
  terminal_good s (run_inv sched _ _ (init_inv n k) hr) ht

/-! ## Termination under every scheduler

`mu` strictly decreases along every enabled step (of either mode), so no schedule is longer
than `mu` of the initial state: no livelock, and together with `fixed_no_lost_wakeup` every
maximal execution of the repaired queue ends with all workers exited. -/

def rank : WPc → Nat
  | .work => 5 | .idle => 4 | .woken => 4 | .locked => 3 | .check => 2 | .toWait => 1
  | .waiting => 0 | .exited => 0

def sumRank : List WPc → Nat
  | [] => 0
  | w :: r => rank w + sumRank r

/-- remaining producer work, prepaying for the workers its notifications wake
    (`notify_one`: at most one worker, +4; `notify_all`: at most `K` workers, +4K)
    and for the items it enqueues (+3 each) -/
def prodRank (K : Nat) : PPc → Nat
  | .done => 0
  | .closeNotify => 4 * K + 1
  | .closeUnlock => 4 * K + 2
  | .closeStore => 4 * K + 3
  | .closeLock => 4 * K + 4
  | .pushNotify l => 4 * K + 5 + 10 * l + 5
  | .pushDo l => 4 * K + 5 + 10 * (l - 1) + 9
  | .pushLock l => 4 * K + 5 + 10 * (l - 1) + 10

def mu (s : Sys) : Nat := prodRank s.ws.length s.p + 3 * s.q + sumRank s.ws

theorem wakeOne_length (ws : List WPc) : (wakeOne ws).length = ws.length := by
  induction ws with
  | nil => rfl
  | cons a r ih => cases a <;> simp [wakeOne, ih]

theorem wakeAll_length (ws : List WPc) : (wakeAll ws).length = ws.length := by
  simp [wakeAll]

theorem sumRank_wakeOne (ws : List WPc) : sumRank (wakeOne ws) ≤ sumRank ws + 4 := by
  induction ws with
  | nil => simp [wakeOne, sumRank]
  | cons a r ih => cases a <;> simp only [wakeOne, sumRank, rank] <;> omega

theorem sumRank_wakeAll (ws : List WPc) : sumRank (wakeAll ws) ≤ sumRank ws + 4 * ws.length := by
  induction ws with
  | nil => simp [wakeAll, sumRank]
  | cons a r ih =>
    have : wakeAll (a :: r) = (if a = .waiting then .woken else a) :: wakeAll r := rfl
    rw [this]
    cases a <;> simp [sumRank, rank] <;> omega

theorem sumRank_set (ws : List WPc) (i : Nat) (old new : WPc) (h : ws[i]? = some old) :
    sumRank (ws.set i new) + rank old = sumRank ws + rank new := by
  induction ws generalizing i with
  | nil => simp at h
  | cons a r ih =>
    cases i with
    | zero => simp at h; subst h; simp [sumRank]; omega
    | succ j =>
      simp at h
      have := ih j h
      simp [sumRank]; omega

theorem prod_step_mu (s s' : Sys) (hs : step s .prod = some s') : mu s' < mu s := by
  simp only [step] at hs
  split at hs
  · rename_i l hp
    split at hs <;> simp at hs
    subst hs; simp only [mu, hp, prodRank]; omega
  · rename_i l hp
    simp at hs; subst hs; simp only [mu, hp, prodRank]; omega
  · rename_i l hp
    simp at hs; subst hs
    have h1 := sumRank_wakeOne s.ws
    simp only [mu, hp, wakeOne_length, nextAfterNotify, startClose]
    split
    · rename_i hl; subst hl
      split <;> simp only [prodRank] <;> omega
    · simp only [prodRank]; omega
  · rename_i hp
    split at hs <;> simp at hs
    subst hs; simp only [mu, hp, prodRank]; omega
  · rename_i hp
    simp at hs; subst hs
    simp only [mu, hp]
    split <;> simp only [prodRank] <;> omega
  · rename_i hp
    simp at hs; subst hs; simp only [mu, hp, prodRank]; omega
  · rename_i hp
    simp at hs; subst hs
    have h1 := sumRank_wakeAll s.ws
    simp only [mu, hp, prodRank]; omega
  · simp at hs

theorem worker_step_mu (s s' : Sys) (i : Nat) (hs : step s (.worker i) = some s') : mu s' < mu s := by
  simp only [step] at hs
  split at hs
  · simp at hs
  · rename_i pc hpc
    have hset := fun new => sumRank_set s.ws i pc new hpc
    cases pc <;> simp only at hs
    · split at hs <;> simp at hs
      subst hs; have := hset .locked; simp only [mu, List.length_set, rank] at *; omega
    · split at hs <;> simp at hs <;> subst hs
      · have := hset .work; simp only [mu, List.length_set, rank] at *; omega
      · have := hset .check; simp only [mu, List.length_set, rank] at *; omega
    · split at hs <;> simp at hs <;> subst hs
      · have := hset .exited; simp only [mu, List.length_set, rank] at *; omega
      · have := hset .toWait; simp only [mu, List.length_set, rank] at *; omega
    · simp at hs; subst hs
      have := hset .waiting; simp only [mu, List.length_set, rank] at *; omega
    · simp at hs
    · split at hs <;> simp at hs
      subst hs; have := hset .locked; simp only [mu, List.length_set, rank] at *; omega
    · simp at hs; subst hs
      have := hset .idle; simp only [mu, List.length_set, rank] at *; omega
    · simp at hs

/-- Every enabled step of every thread strictly decreases `mu` (in both modes; the
    invariant is not needed). -/
theorem step_mu (s s' : Sys) (t : Tid) (hs : step s t = some s') : mu s' < mu s := by
  cases t with
  | prod => exact prod_step_mu s s' hs
  | worker i => exact worker_step_mu s s' i hs

/-- The form asked for: under the invariant every step decreases the measure. -/
theorem step_mu_inv (s s' : Sys) (t : Tid) (hs : step s t = some s') (_ : Inv s) : mu s' < mu s :=
  step_mu s s' t hs

theorem run_mu (sched : List Tid) : ∀ s s', runSched s sched = some s' → sched.length + mu s' ≤ mu s := by
  induction sched with
  | nil => intro s s' hr; simp [runSched] at hr; subst hr; simp
  | cons t ts ih =>
    intro s s' hr
    simp only [runSched] at hr
    cases hst : step s t with
    | none => rw [hst] at hr; simp at hr
    | some s1 =>
      rw [hst] at hr
      have h1 := ih s1 s' hr
      have h2 := step_mu s s1 t hst
      simp only [List.length_cons]; omega

theorem mu_init (fixed : Bool) (n k : Nat) : mu (init fixed n k) ≤ 10 * n + 8 * k + 5 := by
  have hs : ∀ k, sumRank (List.replicate k WPc.idle) = 4 * k := by
    intro k
    induction k with
    | zero => rfl
    | succ m ih => simp only [List.replicate_succ, sumRank, rank, ih]; omega
  simp only [mu, init, List.length_replicate, hs, startClose]
  split
  · split <;> simp only [prodRank] <;> omega
  · simp only [prodRank]; omega

/-- Every execution of the work queue is finite: no schedule (fair or not) runs for more than
    `mu (init ..)` steps. -/
theorem fixed_terminates (n k : Nat) (sched : List Tid) (s : Sys)
    (hr : runSched (init true n k) sched = some s) : sched.length ≤ mu (init true n k) := by
  have := run_mu sched _ _ hr; omega

/-- explicit bound: at most `10 n + 8 k + 5` steps for `n` items and `k` workers -/
theorem fixed_terminates_bound (n k : Nat) (sched : List Tid) (s : Sys)
    (hr : runSched (init true n k) sched = some s) : sched.length ≤ 10 * n + 8 * k + 5 :=
  Nat.le_trans (fixed_terminates n k sched s hr) (mu_init true n k)

/-- non-vacuity: a worker that went to sleep before the close is woken by `notify_all`
    (issued after the unlock), re-acquires the mutex, sees the flag and exits -/
example : ∃ sched s, runSched (init true 0 1) sched = some s ∧ terminal s = true ∧
    s.p = .done ∧ s.ws = [.exited] := by
  refine ⟨[.worker 0, .worker 0, .worker 0, .worker 0, .prod, .prod, .prod, .prod,
    .worker 0, .worker 0, .worker 0], ?_⟩
  exact ⟨_, rfl, by decide, by decide, by decide⟩

end LzmaVerif.WorkQueue
