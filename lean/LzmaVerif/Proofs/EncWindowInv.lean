import LzmaVerif.Model.EncWindow
/-!
# Invariants of the encoder window (`Model/EncWindow.lean`), window level

`WPos` – the positional and content invariants that hold in every state (also while flushing);
`WInv` – `WPos` plus the exact meaning of `read_limit` in a run without `flush`.
-/
namespace LzmaVerif.EncWindow

/-! ## Alignment -/

theorem align_ok : Consts.MOVE_BLOCK_ALIGN % 16 = 0 ∧ 0 < Consts.MOVE_BLOCK_ALIGN := by decide

theorem alignDown_le (x : Nat) : alignDown x ≤ x := Nat.div_mul_le_self x _

theorem alignDown_mod16 (x : Nat) : alignDown x % 16 = 0 := by
  have h := align_ok.1
  unfold alignDown
  generalize Consts.MOVE_BLOCK_ALIGN = a at *
  generalize x / a = q
  have ha : a = 16 * (a / 16) := by omega
  rw [ha, Nat.mul_comm q, Nat.mul_assoc]
  exact Nat.mul_mod_right _ _

theorem alignDown_ge (x : Nat) (h : Consts.MOVE_BLOCK_ALIGN ≤ x) : Consts.MOVE_BLOCK_ALIGN ≤ alignDown x := by
  have hp := align_ok.2
  unfold alignDown
  generalize Consts.MOVE_BLOCK_ALIGN = a at *
  have : 1 ≤ x / a := (Nat.le_div_iff_mul_le hp).mpr (by omega)
  calc a = 1 * a := (Nat.one_mul a).symm
    _ ≤ x / a * a := Nat.mul_le_mul_right a this

/-! ## List facts -/

theorem slice_of_take {l fed : List Nat} {wp base : Nat} (h : l.take wp = fed.drop base) (i n : Nat)
    (hin : i + n ≤ wp) : (l.drop i).take n = (fed.drop (base + i)).take n := by
  have h1 : (l.drop i).take n = ((l.take wp).drop i).take n := by
    rw [List.drop_take, List.take_take]
    congr 1
    omega
  rw [h1, h, List.drop_drop]

theorem slice_of_prefix {fed t inp : List Nat} (h : fed ++ t = inp) (i n : Nat) (hin : i + n ≤ fed.length) :
    (fed.drop i).take n = (inp.drop i).take n := by
  subst h
  rw [List.drop_append_of_le_length (by omega), List.take_append_of_le_length (by simp; omega)]

/-! ## The invariants -/

structure WPos (P : Params) (w : Win (List Nat)) (fed : List Nat) : Prop where
  /-- the buffer never changes its size -/
  buf_len : w.buf.length = P.bufSize
  wp_le : w.writePos ≤ P.bufSize
  rp_ge : -1 ≤ w.readPos
  /-- `read_pos < write_pos` once started (`read_pos = -1`, `write_pos = 0` before) -/
  rp_lt : w.readPos + 1 ≤ w.writePos
  /-- buffer index `i < write_pos` holds stream byte `base + i` -/
  content : w.buf.take w.writePos = fed.drop w.base
  fed_len : fed.length = w.base + w.writePos
  /-- `keep_size_before` bytes before the next position are still there (or nothing was dropped yet) -/
  lookback : w.base = 0 ∨ (P.keepBefore : Int) ≤ w.readPos + 1
  base_al : w.base % 16 = 0

structure WInv (P : Params) (w : Win (List Nat)) (fed : List Nat) : Prop extends WPos P w fed where
  lim_fin : w.finishing = true → w.readLimit = (w.writePos : Int) - 1
  lim_run : w.finishing = false → w.readLimit + (P.keepAfter : Int) ≤ w.writePos ∨ w.readLimit < 0
  pend : w.pendingSize = 0 ∨ w.finishing = true

theorem WPos.init (P : Params) : WPos P (Win.init listBuf P) [] := by
  constructor <;> simp [Win.init, listBuf]

theorem WInv.init (P : Params) : WInv P (Win.init listBuf P) [] := by
  refine ⟨WPos.init P, ?_, ?_, ?_⟩ <;> simp [Win.init]

/-! ## `move_window` -/

/-- Everything about one window move: called under the condition of `fill_window`, it shifts by a positive
    multiple of `MOVE_BLOCK_ALIGN` (so of 16), keeps `keep_size_before` bytes before the next position, its
    copy range `off .. off + size` lies inside the written part of the buffer, and absolute positions do not
    change. -/
theorem moveOffset_le {β : Type} (P : Params) (w : Win β) :
    moveOffset P w ≤ (w.readPos + 1 - (P.keepBefore : Int)).toNat := by
  unfold moveOffset
  split
  · exact alignDown_le _
  · have := alignDown_le (moveOffsetRaw P w).toNat
    unfold moveOffsetRaw at *
    omega

/-- without pending bytes the repaired statement computes what the statement before the repair computed -/
theorem moveOffset_eq_pinned {β : Type} (P : Params) (w : Win β) (hp : w.pendingSize = 0) :
    moveOffset P w = moveOffsetPinned P w := by
  unfold moveOffset
  split
  · rfl
  · unfold moveOffsetRaw moveOffsetPinned
    rw [hp]
    congr 2
    omega

theorem moveWindow_spec (P : Params) (w : Win (List Nat)) (fed : List Nat) (h : WPos P w fed)
    (hc : (P.bufSize : Int) - (P.keepAfter : Int) ≤ w.readPos) (hpend : w.pendingSize = 0) :
    let off := moveOffset P w
    let w' := moveWindow listBuf P w
    WPos P w' fed ∧
    off % 16 = 0 ∧ Consts.MOVE_BLOCK_ALIGN ≤ off ∧
    (off : Int) ≤ w.readPos + 1 - (P.keepBefore : Int) ∧
    off + (w.writePos - off) ≤ P.bufSize ∧ off ≤ w.writePos ∧
    (P.keepBefore : Int) ≤ w'.readPos + 1 ∧
    w'.readPos = w.readPos - off ∧ w'.readLimit = w.readLimit - off ∧ w'.writePos = w.writePos - off ∧
    w'.base = w.base + off ∧ w'.pendingSize = w.pendingSize ∧ w'.finishing = w.finishing := by
  intro off w'
  have hres : 262144 ≤ P.reserve := by unfold Params.reserve; omega
  have hbs : P.bufSize = P.keepBefore + P.keepAfter + P.reserve := rfl
  have hx : off ≤ (w.readPos + 1 - (P.keepBefore : Int)).toNat := moveOffset_le P w
  have hoffeq : off = alignDown (w.readPos + 1 - (P.keepBefore : Int)).toNat := moveOffset_eq_pinned P w hpend
  have h16 : off % 16 = 0 := by rw [hoffeq]; exact alignDown_mod16 _
  have hA : Consts.MOVE_BLOCK_ALIGN ≤ 262144 := by decide
  have hge : Consts.MOVE_BLOCK_ALIGN ≤ off := by
    rw [hoffeq]
    exact alignDown_ge _ (by have := h.rp_lt; have := h.wp_le; omega)
  have h1 := h.rp_lt; have h2 := h.wp_le; have h3 := h.buf_len; have h4 := h.fed_len
  have hoff : off ≤ w.writePos := by omega
  refine ⟨?_, h16, hge, by omega, by omega, hoff, ?_, rfl, rfl, rfl, rfl, rfl, rfl⟩
  · constructor
    · show ((w.buf.drop off).take (w.writePos - off) ++ w.buf.drop (w.writePos - off)).length = P.bufSize
      simp only [List.length_append, List.length_take, List.length_drop]
      omega
    · show w.writePos - off ≤ P.bufSize
      omega
    · show -1 ≤ w.readPos - (off : Int)
      omega
    · show w.readPos - (off : Int) + 1 ≤ ((w.writePos - off : Nat) : Int)
      omega
    · show (((w.buf.drop off).take (w.writePos - off) ++ w.buf.drop (w.writePos - off))).take (w.writePos - off)
          = fed.drop (w.base + off)
      rw [List.take_left' (by simp only [List.length_take, List.length_drop]; omega)]
      have := slice_of_take h.content off (w.writePos - off) (by omega)
      rw [this, List.take_of_length_le (by simp only [List.length_drop]; omega)]
    · show fed.length = w.base + off + (w.writePos - off)
      omega
    · right
      show (P.keepBefore : Int) ≤ w.readPos - (off : Int) + 1
      omega
    · show (w.base + off) % 16 = 0
      have := h.base_al
      omega
  · show (P.keepBefore : Int) ≤ w.readPos - (off : Int) + 1
    omega

/-! ## `fill_window` up to `process_pending_bytes` -/

theorem fillCore_spec (P : Params) (w : Win (List Nat)) (fed input : List Nat) (h : WInv P w fed)
    (hf : w.finishing = false) :
    let r := fillCore listBuf P w input
    WInv P r.1 (fed ++ input.take r.2) ∧
    r.2 ≤ input.length ∧ r.1.writePos ≤ P.bufSize ∧
    (r.1.base : Int) + r.1.readPos = w.base + w.readPos ∧
    r.1.base + r.1.writePos = w.base + w.writePos + r.2 ∧
    (r.1.writePos : Int) - r.1.readPos = (w.writePos : Int) - w.readPos + r.2 ∧
    r.1.finishing = false ∧ r.1.pendingSize = w.pendingSize ∧
    (input ≠ [] → r.2 = 0 → r.1.readPos < r.1.readLimit) := by
  intro r
  -- the window after the optional move
  obtain ⟨w1, hw1, hm⟩ : ∃ w1, w1 = (if w.readPos ≥ (P.bufSize : Int) - (P.keepAfter : Int) then moveWindow listBuf P w else w) ∧
      (WPos P w1 fed ∧ (w1.base : Int) + w1.readPos = w.base + w.readPos ∧ w1.base + w1.writePos = w.base + w.writePos ∧
       (w1.writePos : Int) - w1.readPos = (w.writePos : Int) - w.readPos ∧
       (w1.readLimit : Int) - w1.writePos = w.readLimit - w.writePos ∧ (w1.readLimit < 0 ↔ w.readLimit < 0 ∨ w1.readLimit < 0) ∧
       w1.finishing = false ∧ w1.pendingSize = w.pendingSize ∧
       ((w1.readPos < (P.bufSize : Int) - (P.keepAfter : Int)) ∨ w1.writePos + Consts.MOVE_BLOCK_ALIGN ≤ P.bufSize)) := by
    refine ⟨_, rfl, ?_⟩
    by_cases hc : w.readPos ≥ (P.bufSize : Int) - (P.keepAfter : Int)
    · rw [if_pos hc]
      have hpend0 : w.pendingSize = 0 := by
        rcases h.pend with hz | hz
        · exact hz
        · exact absurd hz (by simp [hf])
      obtain ⟨hp, _, hge, _, _, hoff, _, e1, e2, e3, e4, e5, e6⟩ := moveWindow_spec P w fed h.toWPos hc hpend0
      have := h.wp_le
      refine ⟨hp, ?_, ?_, ?_, ?_, ?_, ?_, ?_, ?_⟩
      · rw [e1, e4]; push_cast; omega
      · rw [e3, e4]; omega
      · rw [e1, e3]; omega
      · rw [e2, e3]; omega
      · rw [e2]; omega
      · rw [e6]; exact hf
      · exact e5
      · right; rw [e3]; omega
    · rw [if_neg hc]
      refine ⟨h.toWPos, rfl, rfl, rfl, rfl, by omega, hf, rfl, ?_⟩
      left; omega
  obtain ⟨hp, a1, a2, a3, a4, a5, a6, a7, a8⟩ := hm
  have hr : r = ({ w1 with
      buf := listBuf.write w1.buf w1.writePos (input.take (min input.length (P.bufSize - w1.writePos)))
      writePos := w1.writePos + min input.length (P.bufSize - w1.writePos)
      readLimit := if w1.writePos + min input.length (P.bufSize - w1.writePos) ≥ P.keepAfter
        then ((w1.writePos + min input.length (P.bufSize - w1.writePos) : Nat) : Int) - (P.keepAfter : Int)
        else w1.readLimit }, min input.length (P.bufSize - w1.writePos)) := by
    show fillCore listBuf P w input = _
    unfold fillCore
    simp only [← hw1]
  generalize hlen : min input.length (P.bufSize - w1.writePos) = len at hr
  have hlen1 : len ≤ input.length := by omega
  have hlen2 : w1.writePos + len ≤ P.bufSize := by have := hp.wp_le; omega
  have hchunk : (input.take len).length = len := by simp; omega
  have b1 := hp.buf_len; have b2 := hp.wp_le; have b3 := hp.rp_lt; have b4 := hp.fed_len
  have hlr := h.lim_run hf
  rw [hr]
  refine ⟨⟨⟨?_, ?_, hp.rp_ge, ?_, ?_, ?_, hp.lookback, hp.base_al⟩, ?_, ?_, ?_⟩, hlen1, hlen2, a1, ?_, ?_, a6, a7, ?_⟩
  · show (w1.buf.take w1.writePos ++ input.take len ++ w1.buf.drop (w1.writePos + (input.take len).length)).length = P.bufSize
    simp only [List.length_append, List.length_take, List.length_drop]
    omega
  · exact hlen2
  · show w1.readPos + 1 ≤ ((w1.writePos + len : Nat) : Int)
    omega
  · show (w1.buf.take w1.writePos ++ input.take len ++ w1.buf.drop (w1.writePos + (input.take len).length)).take (w1.writePos + len)
        = (fed ++ input.take len).drop w1.base
    rw [List.take_left' (by simp only [List.length_append, List.length_take]; omega), hp.content,
      List.drop_append_of_le_length (by omega)]
  · show (fed ++ input.take len).length = w1.base + (w1.writePos + len)
    simp only [List.length_append, hchunk]
    omega
  · intro hfin
    exact absurd hfin (by simp [a6])
  · intro _
    show (if w1.writePos + len ≥ P.keepAfter then ((w1.writePos + len : Nat) : Int) - (P.keepAfter : Int) else w1.readLimit)
        + (P.keepAfter : Int) ≤ ((w1.writePos + len : Nat) : Int) ∨
      (if w1.writePos + len ≥ P.keepAfter then ((w1.writePos + len : Nat) : Int) - (P.keepAfter : Int) else w1.readLimit) < 0
    split
    · left; omega
    · rcases hlr with hl | hl
      · left; omega
      · right; omega
  · show w1.pendingSize = 0 ∨ _
    rw [a7]
    rcases h.pend with hz | hz
    · exact Or.inl hz
    · exact absurd hz (by simp [hf])
  · show w1.base + (w1.writePos + len) = w.base + w.writePos + len
    omega
  · show ((w1.writePos + len : Nat) : Int) - w1.readPos = (w.writePos : Int) - w.readPos + len
    omega
  · intro hne hz
    show w1.readPos < (if w1.writePos + len ≥ P.keepAfter then ((w1.writePos + len : Nat) : Int) - (P.keepAfter : Int) else w1.readLimit)
    have hil : 0 < input.length := List.length_pos_iff.mpr hne
    have hz' : len = 0 := hz
    have hfull : w1.writePos = P.bufSize := by omega
    have hbs : P.bufSize = P.keepBefore + P.keepAfter + P.reserve := rfl
    have hA : 0 < Consts.MOVE_BLOCK_ALIGN := align_ok.2
    rw [if_pos (by omega)]
    rcases a8 with a8 | a8
    · omega
    · omega

/-! ## `move_pos` -/

theorem movePos_spec {β : Type} (P : Params) (w : Win β) :
    let avail := ((w.writePos : Int) - (w.readPos + 1)).toNat
    let pendCond := avail < P.reqFlush ∧ (avail < P.reqFinish ∨ w.finishing = false)
    (movePos P w).1 = { w with readPos := w.readPos + 1, pendingSize := w.pendingSize + (if pendCond then 1 else 0) } ∧
    (movePos P w).2 = (if pendCond then 0 else avail) := by
  intro avail pendCond
  unfold movePos
  by_cases hc : pendCond
  · have hc' : ((w.writePos : Int) - (w.readPos + 1)).toNat < P.reqFlush ∧
        (((w.writePos : Int) - (w.readPos + 1)).toNat < P.reqFinish ∨ w.finishing = false) := hc
    simp only [hc', if_pos hc, and_self, if_true]
  · have hc' : ¬ (((w.writePos : Int) - (w.readPos + 1)).toNat < P.reqFlush ∧
        (((w.writePos : Int) - (w.readPos + 1)).toNat < P.reqFinish ∨ w.finishing = false)) := hc
    simp only [hc', if_neg hc, if_false, Nat.add_zero]
    exact ⟨trivial, rfl⟩

end LzmaVerif.EncWindow
