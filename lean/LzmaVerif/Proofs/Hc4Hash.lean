/-
  (H1) soundness of the 2- and 3-byte hashes of hash234.rs: "the hashing algorithm guarantees that if
  the first byte matches, also the second byte does".
-/
import LzmaVerif.Model.Hc4

namespace LzmaVerif.Mf.Hc4

theorem xor_cancel_left {a b c : Nat} (h : a ^^^ b = a ^^^ c) : b = c := by
  have h2 : a ^^^ (a ^^^ b) = a ^^^ (a ^^^ c) := by rw [h]
  rw [← Nat.xor_assoc, ← Nat.xor_assoc, Nat.xor_self, Nat.zero_xor, Nat.zero_xor] at h2
  exact h2

/-- a mask whose low `n` bits are all set keeps the low `n` bits -/
theorem and_mask_mod {x y M n : Nat} (hM : M % 2 ^ n = 2 ^ n - 1) (h : x &&& M = y &&& M) :
    x % 2 ^ n = y % 2 ^ n := by
  have h2 : (x &&& M) % 2 ^ n = (y &&& M) % 2 ^ n := by rw [h]
  rw [Nat.and_mod_two_pow, Nat.and_mod_two_pow, hM, Nat.and_two_pow_sub_one_eq_mod,
    Nat.and_two_pow_sub_one_eq_mod, Nat.mod_mod, Nat.mod_mod] at h2
  exact h2

theorem mask_of_size {S k : Nat} (h1 : S % 2 ^ k = 0) (h2 : 0 < S) : (S - 1) % 2 ^ k = 2 ^ k - 1 := by
  have hp : 0 < 2 ^ k := Nat.pow_pos (by decide)
  generalize 2 ^ k = K at *
  have h3 := Nat.div_add_mod S K
  rw [h1] at h3
  have hq : 1 ≤ S / K := by
    rcases Nat.eq_zero_or_pos (S / K) with h0 | h0
    · rw [h0] at h3; omega
    · exact h0
  obtain ⟨q, hq'⟩ : ∃ q, S / K = q + 1 := ⟨S / K - 1, by omega⟩
  rw [hq', Nat.mul_add, Nat.mul_one] at h3
  have h4 : S - 1 = K - 1 + K * q := by omega
  rw [h4, Nat.add_mul_mod_self_left]
  exact Nat.mod_eq_of_lt (by omega)

theorem mul256_mod (x : Nat) : x * 256 % 2 ^ 8 = 0 := by omega
theorem mod16_mod8 (x : Nat) : x % 2 ^ 16 % 2 ^ 8 = x % 2 ^ 8 := by omega
theorem mul256_mod16 (x : Nat) (h : x < 256) : x * 256 % 2 ^ 16 = x * 256 := by omega

theorem h2_eq (H : HashParams) (m b0 b1 b2 b3 : Nat) :
    (calcHashes H m b0 b1 b2 b3).h2 = (hashByte H b0 ^^^ b1) &&& (H.hash2Size - 1) := rfl

theorem h3_eq (H : HashParams) (m b0 b1 b2 b3 : Nat) :
    (calcHashes H m b0 b1 b2 b3).h3 =
      (hashByte H b0 ^^^ b1 ^^^ u32 (b2 <<< H.shift3)) &&& (H.hash3Size - 1) := rfl

/-- equal `hash2` values and equal first bytes: the second bytes are equal -/
theorem hash2_sound (H : HashParams) (hok : hashOk H) (m m' b0 b1 b2 b3 c1 c2 c3 : Nat)
    (hb1 : b1 < 256) (hc1 : c1 < 256)
    (h : (calcHashes H m b0 b1 b2 b3).h2 = (calcHashes H m' b0 c1 c2 c3).h2) : b1 = c1 := by
  obtain ⟨h2a, h2b, _, _, _⟩ := hok
  rw [h2_eq, h2_eq] at h
  have hM := mask_of_size (k := 8) h2a h2b
  have h1 := and_mask_mod hM h
  rw [Nat.xor_mod_two_pow, Nat.xor_mod_two_pow] at h1
  have h3 := xor_cancel_left h1
  rw [Nat.mod_eq_of_lt hb1, Nat.mod_eq_of_lt hc1] at h3
  exact h3

/-- equal `hash3` values and equal first bytes: the second and third bytes are equal -/
theorem hash3_sound (H : HashParams) (hok : hashOk H) (m m' b0 b1 b2 b3 c1 c2 c3 : Nat)
    (hb1 : b1 < 256) (hc1 : c1 < 256) (hb2 : b2 < 256) (hc2 : c2 < 256)
    (h : (calcHashes H m b0 b1 b2 b3).h3 = (calcHashes H m' b0 c1 c2 c3).h3) :
    b1 = c1 ∧ b2 = c2 := by
  obtain ⟨_, _, h3a, h3b, hs⟩ := hok
  rw [h3_eq, h3_eq, hs] at h
  have hM := mask_of_size (k := 16) h3a h3b
  have h1 := and_mask_mod hM h
  have e0 : ∀ x : Nat, x < 256 → u32 (x <<< 8) = x * 256 := by
    intro x hx
    rw [Nat.shiftLeft_eq, show (2 : Nat) ^ 8 = 256 from rfl]
    exact Nat.mod_eq_of_lt (by omega)
  have e1 := e0 b2 hb2
  have e2 := e0 c2 hc2
  rw [e1, e2, Nat.xor_assoc, Nat.xor_assoc, Nat.xor_mod_two_pow, Nat.xor_mod_two_pow (b := c1 ^^^ c2 * 256)]
    at h1
  have h3 := xor_cancel_left h1
  -- the low byte
  have h4 : (b1 ^^^ b2 * 256) % 2 ^ 16 % 2 ^ 8 = (c1 ^^^ c2 * 256) % 2 ^ 16 % 2 ^ 8 := by rw [h3]
  have hmm := mod16_mod8
  rw [hmm, hmm, Nat.xor_mod_two_pow, Nat.xor_mod_two_pow] at h4
  have z1 : b2 * 256 % 2 ^ 8 = 0 := mul256_mod b2
  have z2 : c2 * 256 % 2 ^ 8 = 0 := mul256_mod c2
  rw [z1, z2, Nat.xor_zero, Nat.xor_zero, Nat.mod_eq_of_lt hb1, Nat.mod_eq_of_lt hc1] at h4
  subst h4
  rw [Nat.xor_mod_two_pow, Nat.xor_mod_two_pow (b := c2 * 256)] at h3
  have h5 := xor_cancel_left h3
  refine ⟨rfl, ?_⟩
  rw [mul256_mod16 b2 hb2, mul256_mod16 c2 hc2] at h5
  exact Nat.eq_of_mul_eq_mul_right (by decide : 0 < 256) h5

end LzmaVerif.Mf.Hc4
