import LzmaVerif.Proofs.Lzma2Step
import LzmaVerif.Proofs.XzStream
/-!
# LZMA2 round trip for every sequence of chunks

`lzma2_roundtrip`: for EVERY dictionary size, EVERY preset dictionary, EVERY admissible properties byte
(`pb ≤ 224`, `lc + lp ≤ 4`) and EVERY valid sequence of writer events (`ChunksOk`, `Proofs/Lzma2Step.lean`):

* LZMA chunks – any parse that is valid w.r.t. the WRITER's current history (`parseRun … = some (c', h')`,
  `h'.size = hist.size + unc`, `1 ≤ unc ≤ 2^21`) whose encoded body has at most 65536 bytes; the chunk
  continues the previous chunk's probability tables / coder state (control `0x80`), resets the state
  (`0xA0`), carries new properties (`0xC0`) or also resets the dictionary (`0xE0`) exactly as the writer's
  flags `dictResetNeeded / stateResetNeeded / propsNeeded` say;
* stored chunks (`1 ≤ raw.length ≤ 65536`; control 1 or 2 from the flags);
* independent restarts (a chunk announcing a dictionary reset that is not the first one),

the writer model `encodeChunks` produces a byte string, and the reader model `Lzma2.decode`, run on that byte
string followed by ANY bytes, returns exactly the denoted data, has consumed exactly the writer's bytes and
recovers the chunk list – for every cap that admits the data.

Chain: `sym_rt` → `loop_rt_size` → `rc_roundtrip_fin` (range coder round trip incl. `code = 0` after the final
normalisation, which `is_finished` demands; `Proofs/RcFinish.lean`) → reader-side chunk lemmas
(`chunkLoop_end / chunkLoop_stored / chunkLoop_lzma`, `Proofs/Lzma2Reader.lean`) → writer/reader simulation
of one chunk under the coupling invariant `Inv` (`stored_step`, `lzma_step`, `Proofs/Lzma2Step.lean`) →
`chunks_rt` (induction over the event sequence) → this theorem → `payloadOk_of_chunksOk` (the `PayloadOk`
hypothesis of the XZ theorems).

`checkChunks` is an executable sufficient condition for `ChunksOk` (sound: `checkChunks_sound`).
-/
namespace LzmaVerif.Lzma2
open LzmaVerif Lzma Prog Rc

/-- **Simulation along an event sequence**: from coupled states, the writer appends `bytes` to its
accumulator, and the reader's chunk loop on `bytes ++ rest` stops at the end marker with `rest` unread,
having appended the denoted data to its output and the chunks to its chunk list. -/
theorem chunks_rt (pb : Nat) (hpb : pb ≤ 224)
    (hlclp : (paramsOfProps pb).lc + (paramsOfProps pb).lp ≤ 4) :
    ∀ (chunks : List Chunk) (w : WState) (s : RState) (data acc : List Nat),
      ChunksOk pb chunks w data → Inv pb w s →
      ∃ bytes, encodeChunks pb chunks w acc = some (acc ++ bytes) ∧
        ∀ (rest : List Nat) (cap fuel : Nat), s.out.size + data.length ≤ cap →
          (bytes ++ rest).length < fuel →
          ∃ s', chunkLoop fuel s (bytes ++ rest) cap = .ok s' rest ∧ s'.out = s.out ++ data.toArray ∧
            s'.chunks = chunks.reverse ++ s.chunks := by
  intro chunks
  induction chunks with
  | nil =>
    intro w s data acc hok hinv
    simp only [ChunksOk] at hok
    subst hok
    refine ⟨[0], encodeChunks_nil pb w acc, ?_⟩
    intro rest cap fuel _ hf
    cases fuel with
    | zero => simp at hf
    | succ fuel => exact ⟨s, chunkLoop_end fuel s rest cap, by simp, by simp⟩
  | cons ch chunks ih =>
    intro w s data acc hok hinv
    rw [ChunksOk] at hok
    rw [encodeChunks_cons]
    by_cases hc : ch.control ≥ 0x80
    · rw [if_pos hc] at hok
      rw [if_pos hc]
      obtain ⟨c', h', data', hparse, hsize, hu1, hu2, hctl, hprops, hraw, hdata, hall⟩ := hok
      have hl : ch.parse.length < ch.unc + 1 := by
        have := parseRun_length_le' _ _ _ _ _ _ hparse; omega
      have hrun := loop_rt_size symRt' (restartW ch w).params (restartW ch w).dictBuf ch.parse
        (chunkCoder (restartW ch w)) (restartW ch w).hist c' h' (ch.unc + 1) ch.unc [] 0 [] hparse hsize hl
      simp only [List.append_nil, Nat.zero_add] at hrun
      obtain ⟨ps, e, henc⟩ := Prog.runBits_encRun _ _ (chunkProbs (restartW ch w)) Enc.init _ _ hrun
      have henc' : (lzmaProg (restartW ch w) ch.unc).encRun (lzmaBits (restartW ch w) ch.parse)
          (chunkProbs (restartW ch w)) Enc.init
          = some ({ stop := .limit, coder := c', hist := h', parse := ch.parse.reverse, emitted := ch.unc },
                  [], ps, e) := henc
      obtain ⟨hlen, hcomp, hok'⟩ := hall _ ps e henc'
      obtain ⟨s1, hinv1, hout1, hch1, hstep⟩ := lzma_step pb hpb hlclp w s ch hinv c' h' hparse hsize hu1 hu2
        hctl hprops hraw _ ps e henc' hlen hcomp
      obtain ⟨bytes', henc2, hdec2⟩ := ih _ s1 data'
        (acc ++ (lzmaHeader (restartW ch w).flags ch.unc e.bytes.length pb).1 ++ e.bytes) hok' hinv1
      rw [henc']
      refine ⟨(lzmaHeader (restartW ch w).flags ch.unc e.bytes.length pb).1 ++ e.bytes ++ bytes', ?_, ?_⟩
      · show encodeChunks pb chunks _ _ = _
        rw [henc2]
        simp only [List.append_assoc]
      · intro rest cap fuel hcap hf
        have hsz : (h'.extract (restartW ch w).hist.size h'.size).toList.length = ch.unc := by
          simp; omega
        have hdl : data.length = ch.unc + data'.length := by rw [hdata, List.length_append, hsz]
        have hs1 : s1.out.size = s.out.size + ch.unc := by
          rw [hout1, Array.size_append, Array.size_extract]; omega
        have hh1 : 1 ≤ (lzmaHeader (restartW ch w).flags ch.unc e.bytes.length pb).1.length := by
          rw [lzmaHeader_fst]; simp
        cases fuel with
        | zero => simp at hf
        | succ fuel =>
          rw [List.append_assoc, hstep fuel cap (bytes' ++ rest) (by omega)]
          obtain ⟨s', hs', hout', hch'⟩ := hdec2 rest cap fuel (by omega)
            (by simp only [List.length_append] at hf ⊢; omega)
          refine ⟨s', hs', ?_, ?_⟩
          · rw [hout', hout1, hdata, ← List.append_toArray, Array.toArray_toList, Array.append_assoc]
          · rw [hch', hch1]; simp
    · rw [if_neg hc] at hok
      rw [if_neg hc]
      obtain ⟨data', hctl, hunc, h1, h2, hcomp, hprops, hparse, hdata, hok'⟩ := hok
      obtain ⟨s1, hinv1, hout1, hch1, hstep⟩ := stored_step pb w s ch hinv hctl hunc h1 h2 hcomp hprops hparse
      obtain ⟨bytes', henc2, hdec2⟩ := ih _ s1 data'
        (acc ++ (storedHeader (restartW ch w).flags ch.unc).1 ++ ch.raw) hok' hinv1
      refine ⟨(storedHeader (restartW ch w).flags ch.unc).1 ++ ch.raw ++ bytes', ?_, ?_⟩
      · rw [henc2]
        simp only [List.append_assoc]
      · intro rest cap fuel hcap hf
        have hdl : data.length = ch.raw.length + data'.length := by rw [hdata, List.length_append]
        have hs1 : s1.out.size = s.out.size + ch.raw.length := by
          rw [hout1]; simp
        have hh1 : 1 ≤ (storedHeader (restartW ch w).flags ch.unc).1.length := by
          rw [storedHeader_fst]; simp
        cases fuel with
        | zero => simp at hf
        | succ fuel =>
          rw [List.append_assoc, hstep fuel cap (bytes' ++ rest) (by omega)]
          obtain ⟨s', hs', hout', hch'⟩ := hdec2 rest cap fuel (by omega)
            (by simp only [List.length_append] at hf ⊢; omega)
          refine ⟨s', hs', ?_, ?_⟩
          · rw [hout', hout1, hdata, ← List.append_toArray, Array.append_assoc]
          · rw [hch', hch1]; simp



/-! ## An executable sufficient condition for `ChunksOk`

`checkChunks pb chunks w` runs the writer model along `chunks`, checks every condition of `ChunksOk` and
returns the denoted data.  Sound for `ChunksOk` (`checkChunks_sound`); used for the concrete examples below
and usable by the driver on chunk lists recovered from real streams. -/

theorem checkChunks_sound (pb : Nat) : ∀ (chunks : List Chunk) (w : WState) (data : List Nat),
    checkChunks pb chunks w = some data → ChunksOk pb chunks w data := by
  intro chunks
  induction chunks with
  | nil =>
    intro w data h
    simp only [checkChunks, Option.some.injEq] at h
    simp only [ChunksOk]
    exact h.symm
  | cons ch rest ih =>
    intro w data h
    rw [ChunksOk]
    rw [checkChunks] at h
    by_cases hc : ch.control ≥ 0x80
    · rw [if_pos hc]
      rw [if_pos hc] at h
      cases hp : parseRun (restartW ch w).dictBuf ch.parse (chunkCoder (restartW ch w)) (restartW ch w).hist with
      | none => rw [hp] at h; simp at h
      | some x =>
        obtain ⟨c', h'⟩ := x
        rw [hp] at h
        simp only at h
        by_cases hcond : (h'.size = (restartW ch w).hist.size + ch.unc ∧ 1 ≤ ch.unc ∧ ch.unc ≤ 2 ^ 21 ∧
            ch.control = lzmaControl (restartW ch w).flags ch.unc ∧
            ch.props = (if (restartW ch w).flags.propsNeeded then some pb else none) ∧ ch.raw = [])
        · rw [if_pos hcond] at h
          obtain ⟨hsize, hu1, hu2, hctl, hprops, hraw⟩ := hcond
          cases henc0 : (lzmaProg (restartW ch w) ch.unc).encRun (lzmaBits (restartW ch w) ch.parse)
              (chunkProbs (restartW ch w)) Enc.init with
          | none => rw [henc0] at h; simp at h
          | some y =>
            obtain ⟨r0, bs, ps0, e0⟩ := y
            rw [henc0] at h
            cases bs with
            | cons b bs => simp at h
            | nil =>
              simp only at h
              by_cases hcond2 : (e0.bytes.length ≤ 65536 ∧ ch.comp = e0.bytes.length)
              · rw [if_pos hcond2] at h
                obtain ⟨d, hd, hdd⟩ := Option.map_eq_some_iff.mp h
                refine ⟨c', h', d, rfl, hsize, hu1, hu2, hctl, hprops, hraw, hdd.symm, ?_⟩
                intro r ps e henc
                injection henc with h1
                injection h1 with hr h2
                injection h2 with _ h3
                injection h3 with hps he
                subst hr hps he
                exact ⟨hcond2.1, hcond2.2, ih _ _ hd⟩
              · rw [if_neg hcond2] at h; cases h
        · rw [if_neg hcond] at h; cases h
    · rw [if_neg hc]
      rw [if_neg hc] at h
      split at h
      · rename_i hcond
        obtain ⟨hctl, hunc, h1, h2, hcomp, hprops, hparse⟩ := hcond
        obtain ⟨d, hd, hdd⟩ := Option.map_eq_some_iff.mp h
        exact ⟨d, hctl, hunc, h1, h2, hcomp, hprops, hparse, hdd.symm, ih _ _ hd⟩
      · cases h

/-! ## Whole streams -/

theorem reencode_eq (dict : Nat) (preset : Array Nat) (chunks : List Chunk) :
    reencode dict preset chunks = encodeChunks (propsOf chunks) chunks (initW dict preset (propsOf chunks)) [] := rfl

theorem inv_init (dict : Nat) (preset : Array Nat) (pb : Nat) :
    Inv pb (initW dict preset pb) (initState dict preset) := by
  refine ⟨rfl, rfl, rfl, fun h => h, fun _ => rfl, ?_, rfl, ?_, ?_⟩
  · intro h
    have he : preset = #[] := by
      have : preset.isEmpty = true := h
      simpa using this
    subst he
    rfl
  · intro h; cases h
  · intro h; cases h

/-- **LZMA2 round trip.**  For every dictionary size, every preset dictionary, every admissible properties
byte and every valid sequence of writer events `chunks` (LZMA chunks with a valid parse, stored chunks,
independent restarts – `ChunksOk`) denoting `data`: the writer model produces a byte string, and the reader
model, run on that byte string followed by ANY bytes, returns exactly `data`, has consumed exactly the
writer's bytes, and recovers the chunk sequence – for every output cap that admits the data. -/
theorem lzma2_roundtrip (dict : Nat) (preset : Array Nat) (pb : Nat) (hpb : pb ≤ 224)
    (hlclp : (paramsOfProps pb).lc + (paramsOfProps pb).lp ≤ 4)
    (chunks : List Chunk) (data : List Nat) (hok : ChunksOk pb chunks (initW dict preset pb) data) :
    ∃ bytes, encodeChunks pb chunks (initW dict preset pb) [] = some bytes ∧
      ∀ (rest : List Nat) (cap : Nat), data.length ≤ cap →
        decode dict preset (bytes ++ rest) cap
          = .ok { out := data.toArray, consumed := bytes.length, chunks := chunks } := by
  obtain ⟨bytes, henc, hdec⟩ := chunks_rt pb hpb hlclp chunks (initW dict preset pb) (initState dict preset)
    data [] hok (inv_init dict preset pb)
  refine ⟨bytes, by simpa using henc, ?_⟩
  intro rest cap hcap
  obtain ⟨s', hs', hout', hch'⟩ := hdec rest cap ((bytes ++ rest).length + 1)
    (by show (#[] : Array Nat).size + data.length ≤ cap; simpa using hcap) (Nat.lt_succ_self _)
  unfold decode
  rw [hs']
  have e1 : s'.out = data.toArray := by rw [hout']; show #[] ++ data.toArray = _; simp
  have e2 : s'.chunks.reverse = chunks := by rw [hch']; show (chunks.reverse ++ []).reverse = _; simp
  have e3 : (bytes ++ rest).length - rest.length = bytes.length := by rw [List.length_append]; omega
  simp only [e1, e2, e3]

/-- the same for `reencode` (the writer model as validated against the Rust writer) -/
theorem lzma2_reencode_roundtrip (dict : Nat) (preset : Array Nat) (chunks : List Chunk) (data : List Nat)
    (hpb : propsOf chunks ≤ 224)
    (hlclp : (paramsOfProps (propsOf chunks)).lc + (paramsOfProps (propsOf chunks)).lp ≤ 4)
    (hok : ChunksOk (propsOf chunks) chunks (initW dict preset (propsOf chunks)) data) :
    ∃ bytes, reencode dict preset chunks = some bytes ∧
      ∀ (rest : List Nat) (cap : Nat), data.length ≤ cap →
        decode dict preset (bytes ++ rest) cap
          = .ok { out := data.toArray, consumed := bytes.length, chunks := chunks } := by
  rw [reencode_eq]
  exact lzma2_roundtrip dict preset (propsOf chunks) hpb hlclp chunks data hok

/-- **`PayloadOk` of the XZ theorems**: the LZMA2 payload the writer model produces for a valid event
sequence denoting `filtered` satisfies the payload hypothesis of `Proofs/XzStream.lean`. -/
theorem payloadOk_of_chunksOk (dict : Nat) (pb : Nat) (hpb : pb ≤ 224)
    (hlclp : (paramsOfProps pb).lc + (paramsOfProps pb).lp ≤ 4)
    (chunks : List Chunk) (filtered payload : List Nat)
    (hok : ChunksOk pb chunks (initW dict #[] pb) filtered)
    (henc : encodeChunks pb chunks (initW dict #[] pb) [] = some payload) :
    Xz.PayloadOk dict payload filtered := by
  obtain ⟨bytes, henc', hdec⟩ := lzma2_roundtrip dict #[] pb hpb hlclp chunks filtered hok
  rw [henc] at henc'
  cases henc'
  intro rest cap hcap
  exact ⟨chunks, hdec rest cap hcap⟩

/-- existence form: every valid event sequence has a payload satisfying `PayloadOk` -/
theorem exists_payloadOk (dict : Nat) (pb : Nat) (hpb : pb ≤ 224)
    (hlclp : (paramsOfProps pb).lc + (paramsOfProps pb).lp ≤ 4)
    (chunks : List Chunk) (filtered : List Nat)
    (hok : ChunksOk pb chunks (initW dict #[] pb) filtered) :
    ∃ payload, encodeChunks pb chunks (initW dict #[] pb) [] = some payload ∧
      Xz.PayloadOk dict payload filtered := by
  obtain ⟨bytes, henc, _⟩ := lzma2_roundtrip dict #[] pb hpb hlclp chunks filtered hok
  exact ⟨bytes, henc, payloadOk_of_chunksOk dict pb hpb hlclp chunks filtered bytes hok henc⟩

end LzmaVerif.Lzma2

/-! ## Non-vacuity -/
namespace LzmaVerif.Lzma2.Example
open LzmaVerif Lzma Lzma2

/-- one stored chunk and the end marker -/
def exStored : List Chunk :=
  [ { control := 1, unc := 3, comp := 0, props := none, parse := [], raw := [10, 20, 30] } ]

theorem exStored_ok : ChunksOk 93 exStored (initW 4096 #[] 93) [10, 20, 30] :=
  checkChunks_sound _ _ _ _ (by decide)

theorem exStored_bytes : encodeChunks 93 exStored (initW 4096 #[] 93) [] = some [1, 0, 2, 10, 20, 30, 0] := by
  decide

/-- `lzma2_roundtrip` instantiated: the 7 bytes followed by anything decode to the 3 bytes -/
example (rest : List Nat) (cap : Nat) (h : 3 ≤ cap) :
    decode 4096 #[] ([1, 0, 2, 10, 20, 30, 0] ++ rest) cap
      = .ok { out := #[10, 20, 30], consumed := 7, chunks := exStored } := by
  obtain ⟨bytes, hb, hd⟩ := lzma2_roundtrip 4096 #[] 93 (by decide) (by decide) exStored _ exStored_ok
  rw [exStored_bytes] at hb
  cases hb
  exact hd rest cap h

/-- and directly, by evaluation, on a concrete continuation -/
example : decode 4096 #[] [1, 0, 2, 10, 20, 30, 0, 99, 98] 3
    = .ok { out := #[10, 20, 30], consumed := 7, chunks := exStored } := by
  rfl

/-- Six events exercising every header form: first LZMA chunk (`0xE0`: dictionary reset + properties `0x5D`),
an LZMA chunk continuing tables and coder state (`0x80`, starts with a short rep of the previous chunk's
`rep0`), a stored chunk without reset (`2`), an LZMA chunk with state reset (`0xA0`, match into the stored
bytes), an independent restart as LZMA chunk (`0xE0`), an independent restart as stored chunk (`1`). -/
def exChunks : List Chunk :=
  [ { control := 0xE0, unc := 6, comp := 8, props := some 93, parse := [.lit 65, .lit 66, .mtch 1 4], raw := [] },
    { control := 0x80, unc := 2, comp := 6, props := none, parse := [.shortRep, .lit 67], raw := [] },
    { control := 2, unc := 3, comp := 0, props := none, parse := [], raw := [1, 2, 3] },
    { control := 0xA0, unc := 4, comp := 7, props := none, parse := [.lit 68, .mtch 2 3], raw := [] },
    { control := 0xE0, unc := 1, comp := 6, props := some 93, parse := [.lit 69], raw := [] },
    { control := 1, unc := 1, comp := 0, props := none, parse := [], raw := [7] } ]

def exData : List Nat := [65, 66, 65, 66, 65, 66, 65, 67, 1, 2, 3, 68, 2, 3, 68, 69, 7]

/-- the hypothesis of the round-trip theorem holds for this sequence (kernel evaluation of the model
    encoder; no `native_decide`) -/
theorem exChunks_check : checkChunks 93 exChunks (initW 4096 #[] 93) = some exData := by
  decide +kernel

theorem exChunks_ok : ChunksOk 93 exChunks (initW 4096 #[] 93) exData :=
  checkChunks_sound _ _ _ _ exChunks_check

/-- `lzma2_reencode_roundtrip` instantiated -/
theorem exChunks_roundtrip :
    ∃ bytes, reencode 4096 #[] exChunks = some bytes ∧
      ∀ (rest : List Nat) (cap : Nat), 17 ≤ cap →
        decode 4096 #[] (bytes ++ rest) cap
          = .ok { out := exData.toArray, consumed := bytes.length, chunks := exChunks } :=
  lzma2_reencode_roundtrip 4096 #[] exChunks exData (by decide) (by decide) exChunks_ok

/-- … and the `PayloadOk` hypothesis of the XZ theorems is met by its payload -/
example : ∃ payload, Xz.PayloadOk 4096 payload exData :=
  let ⟨p, _, h⟩ := exists_payloadOk 4096 93 (by decide) (by decide) exChunks exData exChunks_ok
  ⟨p, h⟩

end LzmaVerif.Lzma2.Example

#print axioms LzmaVerif.Lzma2.chunks_rt
#print axioms LzmaVerif.Lzma2.lzma2_roundtrip
#print axioms LzmaVerif.Lzma2.lzma2_reencode_roundtrip
#print axioms LzmaVerif.Lzma2.payloadOk_of_chunksOk
#print axioms LzmaVerif.Lzma2.exists_payloadOk
#print axioms LzmaVerif.Lzma2.checkChunks_sound
#print axioms LzmaVerif.Lzma2.Example.exChunks_roundtrip
