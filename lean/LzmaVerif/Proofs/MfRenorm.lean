/-
  Shared part of the simulation between the renormalising match finders (`Model/Hc4Renorm.lean`,
  `Model/Bt4Renorm.lean`) and the logical ones (`Model/Hc4.lean`, `Model/Bt4.lean`): the relation between a stored
  entry of the renormalising finder (N) and the entry at the same place of the logical finder (L).

  `ERel cs lN lL eN eL`: with `lN` / `lL` the two `lz_pos` counters, the entries are not in the future and they
  denote the same candidate - the same `delta`, or BOTH are rejected by the distance test (`delta ≥ cyclic_size`).
  The second alternative is what an entry clamped to 0 by `normalize` falls into (its `delta` was already
  `≥ cyclic_size`: `ERel.norm`, the content of `normalize_delta`), and also the untouched 0 = "empty" entries
  (`ERel.zero`, needs `cyclic_size ≤ lz_pos` on both sides - the reason why `lz_pos` starts at `cyclic_size`).
  An entry `e ≠ 0` of N therefore satisfies `e = eL + (lN - lL)` whenever the logical finder would accept it.
-/
import LzmaVerif.Model.Bt4Renorm
import LzmaVerif.Proofs.Bt4Base
namespace LzmaVerif.Mf

def ERel (cs lN lL eN eL : Nat) : Prop :=
  eN ≤ lN ∧ eL ≤ lL ∧ (lN - eN = lL - eL ∨ (cs ≤ lN - eN ∧ cs ≤ lL - eL))

/-- both `lz_pos` counters advance by one -/
theorem ERel.succ {cs lN lL a b : Nat} (h : ERel cs lN lL a b) : ERel cs (lN + 1) (lL + 1) a b := by
  unfold ERel at *; omega

/-- `normalize` on the N side: `off = lN - cs`, entry `max(e, off) - off`, `lz_pos - off` -/
theorem ERel.norm {cs lN lL a b : Nat} (h : ERel cs lN lL a b) (hcs : cs ≤ lN) :
    ERel cs (lN - (lN - cs)) lL (normPos (lN - cs) a) b := by
  unfold ERel normPos at *
  rcases Nat.le_total a (lN - cs) with h1 | h1
  · rw [Nat.max_eq_right h1]; omega
  · rw [Nat.max_eq_left h1]; omega

/-- `update_tables(lz_pos)` / `chain[cyclic_pos] = lz_pos`-like writes of the current position -/
theorem ERel.self (cs lN lL : Nat) : ERel cs lN lL lN lL := by
  unfold ERel; omega

/-- the value 0 ("empty", or clamped by `normalize`) is rejected on both sides as long as
    `cyclic_size ≤ lz_pos` -/
theorem ERel.zero {cs lN lL : Nat} (hN : cs ≤ lN) (hL : cs ≤ lL) : ERel cs lN lL 0 0 := by
  unfold ERel; omega

/-- the distance tests agree -/
theorem ERel.lt_iff {cs lN lL a b : Nat} (h : ERel cs lN lL a b) : lN - a < cs ↔ lL - b < cs := by
  unfold ERel at h; omega

theorem ERel.delta_eq {cs lN lL a b : Nat} (h : ERel cs lN lL a b) (hlt : lL - b < cs) : lN - a = lL - b := by
  unfold ERel at h; omega

/-- pointwise relation of two tables (hash tables, chain, tree) -/
def TRel (cs lN lL : Nat) (tN tL : Array Nat) : Prop :=
  tN.size = tL.size ∧ ∀ i : Nat, ERel cs lN lL (tN.getD i 0) (tL.getD i 0)

theorem TRel.get {cs lN lL : Nat} {tN tL : Array Nat} (h : TRel cs lN lL tN tL) (i : Nat) :
    ERel cs lN lL (tN.getD i 0) (tL.getD i 0) := h.2 i

theorem TRel.succ {cs lN lL : Nat} {tN tL : Array Nat} (h : TRel cs lN lL tN tL) :
    TRel cs (lN + 1) (lL + 1) tN tL := ⟨h.1, fun i => (h.2 i).succ⟩

theorem getD_normTable (off : Nat) (t : Array Nat) (i : Nat) :
    (normTable off t).getD i 0 = normPos off (t.getD i 0) := by
  unfold normTable
  simp only [Array.getD_eq_getD_getElem?, Array.getElem?_map]
  cases t[i]? with
  | none => simp [normPos]
  | some v => rfl

theorem size_normTable (off : Nat) (t : Array Nat) : (normTable off t).size = t.size := by
  unfold normTable; exact Array.size_map ..

theorem TRel.norm {cs lN lL : Nat} {tN tL : Array Nat} (h : TRel cs lN lL tN tL) (hcs : cs ≤ lN) :
    TRel cs (lN - (lN - cs)) lL (normTable (lN - cs) tN) tL :=
  ⟨by rw [size_normTable]; exact h.1, fun i => by rw [getD_normTable]; exact (h.2 i).norm hcs⟩

theorem TRel.set {cs lN lL : Nat} {tN tL : Array Nat} (h : TRel cs lN lL tN tL) {vN vL : Nat}
    (hv : ERel cs lN lL vN vL) (i : Nat) :
    TRel cs lN lL (tN.setIfInBounds i vN) (tL.setIfInBounds i vL) := by
  refine ⟨by simp only [Array.size_setIfInBounds]; exact h.1, fun j => ?_⟩
  rw [getD_set, getD_set, h.1]
  by_cases hc : i = j ∧ i < tL.size
  · rw [if_pos hc, if_pos hc]; exact hv
  · rw [if_neg hc, if_neg hc]; exact h.2 j

theorem TRel.replicate {cs lN lL : Nat} (hN : cs ≤ lN) (hL : cs ≤ lL) (n : Nat) :
    TRel cs lN lL (Array.replicate n 0) (Array.replicate n 0) :=
  ⟨rfl, fun i => by rw [getD_replicate]; exact ERel.zero hN hL⟩

end LzmaVerif.Mf
