import LzmaVerif.Proofs.MTWorker
/-
Coordinator and caller steps preserve the invariant (one lemma per program counter).
-/
namespace LzmaVerif.MT

set_option hygiene false in
/-- expose the fields of the pre-state `s` whose program counter is known (`hp : s.pc = _`) -/
macro "cases_sys" : tactic => `(tactic|
  (obtain ⟨cfg, queue, closed, chan, errStored, shutdown, active, pc, st, nd, nr, lastSeq, ooo, delivered, srcDone, ws⟩ := s
   simp only at hp; subst hp))

set_option hygiene false in
macro "cases_inv" : tactic => `(tactic|
  (have h0 := h
   obtain ⟨h1, h2, h3, h4, h5, h6, h7, h8, h9, h10, h11, h12, h13, h14, h15, h16, h17, h18, h19, h20, h21, h22, h23, h24, h25, h26⟩ := h
   simp only [disp, dispOf, cnt, Failing, FailingOf, pastTop, errSeen, readPc, reduceCtorEq, ↓reduceIte]
     at h1 h2 h3 h4 h5 h6 h7 h8 h9 h10 h11 h12 h13 h14 h15 h16 h17 h18 h19 h20 h21 h22 h23 h24 h25 h26))

set_option hygiene false in
/-- clauses that do not mention anything the step changed -/
macro "keep" : tactic => `(tactic|
  first
  | exact h0.maxPos | exact h0.order | exact h0.wsBound | exact h0.dispLe | exact h0.pushSeq
  | exact h0.retLe | exact h0.cntLe | exact h0.cntRange | exact h0.cons | exact h0.okDelivered
  | exact h0.okSent | exact h0.drainInv | exact h0.finInv | exact h0.doneSt | exact h0.readSt
  | exact h0.drainSt | exact h0.shutErr | exact h0.errWake | exact h0.noExit | exact h0.closedIff
  | exact h0.dropShut | exact h0.closedNoWait | exact h0.qAlive | exact h0.emptyActive
  | exact h0.oooNext | exact h0.recvLt)

macro "inv_simp" : tactic => `(tactic|
  first
  | keep
  | ((simp_all [disp, dispOf, cnt, cntOf, Failing, FailingOf, pastTop, errSeen, readPc]) <;>
     (try (first | omega | (intros; simp_all <;> omega)))))

theorem coord_top (s s' : Sys) (h : Inv s) (hp : s.pc = .top) (hs : coordStep s = some s') : Inv s' := by
  simp only [coordStep, hp] at hs
  cases_sys
  split at hs <;> simp at hs <;> subst hs
  · rename_i hmem
    simp only at hmem
    have hc0 : 0 < cntOf queue ws chan ooo nr := cntOf_pos_of_ooo _ _ _ _ _ hmem
    have hc1 := h.cntLe nr
    have hr := h.cntRange nr hc0
    have he := cntOf_erase_self queue ws chan ooo nr hmem
    have hne := cntOf_erase_ne queue ws chan ooo nr
    simp only [cnt, disp, dispOf, reduceCtorEq, ↓reduceIte] at hc1 hr
    cases_inv
    constructor
    case order => simp only; rw [h2]; exact List.range_succ.symm
    case retLe => simp only [disp, dispOf, reduceCtorEq, ↓reduceIte]; omega
    case cntLe =>
      intro q
      by_cases hq : q = nr
      · subst hq; simp only [cnt]; omega
      · have := h7 q; simp only [cnt] at this ⊢; rw [hne q hq]; exact this
    case cntRange =>
      intro q hq0
      by_cases hq : q = nr
      · subst hq; simp only [cnt] at hq0; omega
      · simp only [cnt] at hq0; rw [hne q hq] at hq0
        have := h8 q hq0
        simp only [disp, dispOf, reduceCtorEq, ↓reduceIte]; omega
    case cons =>
      intro q hq1 hq2
      simp only at hq1
      have hq : q ≠ nr := by omega
      have := h9 q (by omega) (by simpa [disp, dispOf] using hq2)
      simp only [cnt, Failing, FailingOf, reduceCtorEq] at this ⊢
      rw [hne q hq]
      simpa using this
    case okDelivered =>
      intro q hq
      simp only at hq
      by_cases hq' : q = nr
      · subst hq'; exact h11 q (Or.inr (Or.inr hmem))
      · exact h10 q (by omega)
    case okSent =>
      intro q hq
      simp only at hq
      rcases hq with hq | hq | hq
      · exact h11 q (Or.inl hq)
      · exact h11 q (Or.inr (Or.inl hq))
      · exact h11 q (Or.inr (Or.inr (List.mem_of_mem_erase hq)))
    all_goals inv_simp
  · cases_inv
    constructor
    all_goals inv_simp

theorem coord_chkErr (s s' : Sys) (h : Inv s) (hp : s.pc = .chkErr) (hs : coordStep s = some s') : Inv s' := by
  simp only [coordStep, hp] at hs
  cases_sys
  split at hs <;> simp at hs <;> subst hs
  · cases_inv
    constructor
    all_goals inv_simp
  · cases_inv
    constructor
    all_goals inv_simp

theorem coord_byState (s s' : Sys) (h : Inv s) (hp : s.pc = .byState) (hs : coordStep s = some s') : Inv s' := by
  simp only [coordStep, hp] at hs
  cases_sys
  split at hs
  · simp at hs; subst hs
    cases_inv
    constructor
    all_goals inv_simp
  · split at hs
    · split at hs <;> simp at hs <;> subst hs
      · cases_inv
        constructor
        all_goals inv_simp
      · cases_inv
        constructor
        all_goals inv_simp
    · simp at hs; subst hs
      cases_inv
      constructor
      all_goals inv_simp
  · simp at hs; subst hs
    cases_inv
    constructor
    all_goals inv_simp
  · simp at hs; subst hs
    cases_inv
    constructor
    case cons =>
      intro q hq1 hq2
      rcases h9 q hq1 (by simpa [disp, dispOf] using hq2) with hh | ⟨hh, _⟩
      · exact Or.inl hh
      · exact Or.inr ⟨hh, Or.inr (Or.inr (Or.inl rfl))⟩
    all_goals inv_simp

theorem coord_tryRecv_nil (s s' : Sys) (h : Inv s) (hp : s.pc = .tryRecv) (hc : s.chan = [])
    (hs : coordStep s = some s') : Inv s' := by
  simp only [coordStep, hp, hc] at hs
  cases_sys
  simp at hs; subst hs
  cases_inv
  constructor
  all_goals inv_simp

theorem coord_chkQueue (s s' : Sys) (h : Inv s) (hp : s.pc = .chkQueue) (hs : coordStep s = some s') : Inv s' := by
  simp only [coordStep, hp] at hs
  cases_sys
  split at hs <;> simp at hs <;> subst hs
  · cases_inv
    constructor
    all_goals inv_simp
  · rename_i hlen
    simp only at hlen
    cases_inv
    constructor
    case recvLt =>
      refine ⟨fun _ => ?_, fun hc => by cases hc⟩
      cases hq : queue with
      | nil => rw [hq] at hlen; simp at hlen
      | cons a r =>
        have := h8 a (cntOf_pos_of_queue _ _ _ _ _ (by rw [hq]; exact List.mem_cons_self))
        simp only; omega
    all_goals inv_simp

theorem coord_source (s s' : Sys) (h : Inv s) (hp : s.pc = .source) (hs : coordStep s = some s') : Inv s' := by
  simp only [coordStep, hp] at hs
  cases_sys
  split at hs
  · simp at hs; subst hs
    cases_inv
    constructor
    all_goals inv_simp
  · split at hs <;> simp at hs <;> subst hs
    · cases_inv
      constructor
      all_goals inv_simp
    · cases_inv
      constructor
      case cons =>
        intro q hq1 hq2
        rcases h9 q hq1 (by simpa [disp, dispOf] using hq2) with hh | ⟨hh, _⟩
        · exact Or.inl hh
        · exact Or.inr ⟨hh, Or.inr (Or.inl rfl)⟩
      all_goals inv_simp


set_option hygiene false in
macro "cases_sys_gen" : tactic => `(tactic|
  (obtain ⟨cfg, queue, closed, chan, errStored, shutdown, active, pc, st, nd, nr, lastSeq, ooo, delivered, srcDone, ws⟩ := s
   simp only at hc hn1 hn2 hn3
   subst hc))

theorem onMsg_wake_inv (s : Sys) (rest : List Msg) (h : Inv s) (hc : s.chan = .wake :: rest)
    (hn1 : s.pc ≠ .spawnChk) (hn2 : s.pc ≠ .idle (some .err)) (hn3 : s.pc ≠ .dropped) :
    Inv (onMsg s .wake rest) := by
  cases_sys_gen
  simp only [onMsg]
  have hcw := cntOf_chan_wake queue ws rest ooo
  cases_inv
  simp only [if_neg hn1] at h4 h6 h8 h9
  constructor
  case cntLe => intro q; have := h7 q; rw [hcw] at this; exact this
  case cntRange => intro q hq; have := h8 q (by rw [hcw]; exact hq); simpa [disp, dispOf] using this
  case cons =>
    intro q hq1 hq2
    have := h9 q hq1 (by simpa [disp, dispOf] using hq2)
    rw [hcw] at this
    simpa [cnt, Failing, FailingOf, hn2, hn3] using this
  all_goals inv_simp

theorem onMsg_ooo_inv (s : Sys) (seq : Nat) (rest : List Msg) (h : Inv s) (hc : s.chan = .result seq :: rest)
    (hne : seq ≠ s.nextReturn)
    (hn1 : s.pc ≠ .spawnChk) (hn2 : s.pc ≠ .idle (some .err)) (hn3 : s.pc ≠ .dropped) :
    Inv (onMsg s (.result seq) rest) := by
  cases_sys_gen
  simp only at hne
  simp only [onMsg, if_neg hne]
  have hcr := cntOf_chan_result queue ws rest ooo seq
  have hoc := cntOf_ooo_cons queue ws rest ooo seq
  cases_inv
  simp only [if_neg hn1] at h4 h6 h8 h9
  constructor
  case cntLe => intro q; have := h7 q; rw [hcr] at this; simp only [cnt]; rw [hoc]; exact this
  case cntRange =>
    intro q hq; simp only [cnt] at hq; rw [hoc] at hq
    have := h8 q (by rw [hcr]; exact hq); simpa [disp, dispOf] using this
  case cons =>
    intro q hq1 hq2
    have := h9 q hq1 (by simpa [disp, dispOf] using hq2)
    rw [hcr] at this
    simp only [cnt, Failing, FailingOf]; rw [hoc]
    simpa [hn2, hn3] using this
  case okSent =>
    intro q hq
    simp only [List.mem_cons] at hq
    rcases hq with hq | hq | hq | hq
    · exact h11 q (Or.inl hq)
    · exact h11 q (Or.inr (Or.inl (List.mem_cons_of_mem _ hq)))
    · subst hq; exact h11 q (Or.inr (Or.inl List.mem_cons_self))
    · exact h11 q (Or.inr (Or.inr hq))
  all_goals (clear hcr hoc h7 h8 h9)
  all_goals inv_simp

theorem onMsg_deliver_inv (s : Sys) (rest : List Msg) (h : Inv s) (hc : s.chan = .result s.nextReturn :: rest)
    (hn1 : s.pc ≠ .spawnChk) (hn2 : s.pc ≠ .idle (some .err)) (hn3 : s.pc ≠ .dropped) :
    Inv (onMsg s (.result s.nextReturn) rest) := by
  cases_sys_gen
  simp only [onMsg, if_true]
  have hcr := cntOf_chan_result queue ws rest ooo nr
  cases_inv
  simp only [if_neg hn1] at h4 h6 h8 h9
  have hc0 : 0 < cntOf queue ws (.result nr :: rest) ooo nr := cntOf_pos_of_chan _ _ _ _ _ List.mem_cons_self
  have hc1 := h7 nr
  have hr := h8 nr hc0
  have hself := hcr nr
  simp only [if_true] at hself
  have hne : ∀ q, q ≠ nr → cntOf queue ws rest ooo q = cntOf queue ws (.result nr :: rest) ooo q := by
    intro q hq; rw [hcr q, if_neg (Ne.symm hq)]; rfl
  constructor
  case order => simp only; rw [h2]; exact List.range_succ.symm
  case retLe => simp only [disp, dispOf, reduceCtorEq, ↓reduceIte]; omega
  case cntLe =>
    intro q
    by_cases hq : q = nr
    · subst hq; simp only [cnt]; omega
    · have := h7 q; simp only [cnt]; rw [hne q hq]; exact this
  case cntRange =>
    intro q hq0
    by_cases hq : q = nr
    · subst hq; simp only [cnt] at hq0; omega
    · simp only [cnt] at hq0; rw [hne q hq] at hq0
      have := h8 q hq0
      simp only [disp, dispOf, reduceCtorEq, ↓reduceIte]; omega
  case cons =>
    intro q hq1 hq2
    simp only at hq1
    have hq : q ≠ nr := by omega
    have := h9 q (by omega) (by simpa [disp, dispOf] using hq2)
    simp only [cnt, Failing, FailingOf, reduceCtorEq] at this ⊢
    rw [hne q hq]
    simpa [hn2, hn3] using this
  case okDelivered =>
    intro q hq
    simp only at hq
    by_cases hq' : q = nr
    · subst hq'; exact h11 q (Or.inr (Or.inl List.mem_cons_self))
    · exact h10 q (by omega)
  case okSent =>
    intro q hq
    rcases hq with hq | hq | hq
    · exact h11 q (Or.inl hq)
    · exact h11 q (Or.inr (Or.inl (List.mem_cons_of_mem _ hq)))
    · exact h11 q (Or.inr (Or.inr hq))
  all_goals (clear hcr hself hne h7 h8 h9)
  all_goals inv_simp


theorem onMsg_inv (s : Sys) (m : Msg) (rest : List Msg) (h : Inv s) (hc : s.chan = m :: rest)
    (hn1 : s.pc ≠ .spawnChk) (hn2 : s.pc ≠ .idle (some .err)) (hn3 : s.pc ≠ .dropped) :
    Inv (onMsg s m rest) := by
  cases m with
  | wake => exact onMsg_wake_inv s rest h hc hn1 hn2 hn3
  | result seq =>
    by_cases hq : seq = s.nextReturn
    · subst hq; exact onMsg_deliver_inv s rest h hc hn1 hn2 hn3
    · exact onMsg_ooo_inv s seq rest h hc hq hn1 hn2 hn3

theorem coord_tryRecv (s s' : Sys) (h : Inv s) (hp : s.pc = .tryRecv) (hs : coordStep s = some s') : Inv s' := by
  cases hc : s.chan with
  | nil => exact coord_tryRecv_nil s s' h hp hc hs
  | cons m rest =>
    simp only [coordStep, hp, hc] at hs
    simp at hs; subst hs
    exact onMsg_inv s m rest h hc (by simp [hp]) (by simp [hp]) (by simp [hp])

theorem coord_recvReading (s s' : Sys) (h : Inv s) (hp : s.pc = .recvReading) (hs : coordStep s = some s') :
    Inv s' := by
  cases hc : s.chan with
  | nil => simp [coordStep, hp, hc] at hs
  | cons m rest =>
    simp only [coordStep, hp, hc] at hs
    simp at hs; subst hs
    exact onMsg_inv s m rest h hc (by simp [hp]) (by simp [hp]) (by simp [hp])

theorem coord_recvDraining (s s' : Sys) (h : Inv s) (hp : s.pc = .recvDraining) (hs : coordStep s = some s') :
    Inv s' := by
  cases hc : s.chan with
  | nil => simp [coordStep, hp, hc] at hs
  | cons m rest =>
    simp only [coordStep, hp, hc] at hs
    simp at hs; subst hs
    exact onMsg_inv s m rest h hc (by simp [hp]) (by simp [hp]) (by simp [hp])

theorem coord_push (s s' : Sys) (seq : Nat) (h : Inv s) (hp : s.pc = .push seq) (hs : coordStep s = some s') :
    Inv s' := by
  simp only [coordStep, hp] at hs
  cases_sys
  simp at hs; subst hs
  cases_inv
  obtain ⟨hseq, hlt⟩ := h5 seq rfl
  subst hseq
  have hcq : ∀ q, cntOf (queue ++ [seq]) (wakeOne ws) chan ooo q
      = cntOf queue ws chan ooo q + (if seq = q then 1 else 0) := by
    intro q; rw [cntOf_queue_snoc, cntOf_wakeOne]
  have hz : cntOf queue ws chan ooo seq = 0 := by
    cases hh : cntOf queue ws chan ooo seq with
    | zero => rfl
    | succ n => have := h8 seq (by omega); omega
  constructor
  case wsBound => simp only; rw [wakeOne_length]; exact h3
  case dispLe => simp only [disp, dispOf, ↓reduceIte]; omega
  case retLe => simp only [disp, dispOf, ↓reduceIte]; omega
  case cntLe =>
    intro q; simp only [cnt]; rw [hcq]
    by_cases hq : seq = q
    · subst hq; simp; omega
    · have := h7 q; simp [hq]; exact this
  case cntRange =>
    intro q hq0
    simp only [cnt] at hq0; rw [hcq] at hq0
    simp only [disp, dispOf, ↓reduceIte]
    by_cases hq : seq = q
    · subst hq; omega
    · simp [hq] at hq0; have := h8 q hq0; omega
  case cons =>
    intro q hq1 hq2
    simp only [disp, dispOf, ↓reduceIte] at hq1 hq2
    simp only [cnt, Failing, FailingOf]; rw [hcq, midFail_wakeOne]
    by_cases hq : seq = q
    · subst hq; left; simp; omega
    · have := h9 q hq1 (by omega)
      simpa [hq] using this
  case okSent =>
    intro q hq
    rcases hq with hq | hq | hq
    · rcases mem_wakeOne _ _ hq with hq | hq
      · exact h11 q (Or.inl hq)
      · cases hq
    · exact h11 q (Or.inr (Or.inl hq))
    · exact h11 q (Or.inr (Or.inr hq))
  case errWake =>
    intro he
    rcases h18 he with hh | hh | hh
    · simp at hh
    · exact Or.inr (Or.inl hh)
    · exact Or.inr (Or.inr (mem_wakeOne_of_mem _ _ hh (by simp)))
  case noExit =>
    intro hsh w hw
    rcases mem_wakeOne _ _ hw with hw | hw
    · exact h19 hsh w hw
    · subst hw; simp
  case closedNoWait =>
    intro hcl
    have := h20.mp hcl
    cases this
  case qAlive =>
    intro _ _
    by_cases hws : ws = []
    · right; subst hws; exact ⟨rfl, rfl⟩
    · left; exact wakeOne_alive ws hws
  case emptyActive =>
    intro hc
    exact h24 ((wakeOne_eq_nil ws).mp hc)
  all_goals (clear hcq hz h7 h8 h9)
  all_goals inv_simp


/-- the spawn check, for either continuation (`nx = top`: back to the loop top; `nx = source`: a fused
    source call goes on to its end handling) -/
theorem coord_spawnChk_aux (s s' : Sys) (h : Inv s) (hp : s.pc = .spawnChk) (nx : CPc)
    (hnx : nx = .top ∨ nx = .source)
    (hs : (if s.queue.length > 0 ∧ s.active = s.ws.length ∧ s.ws.length < s.cfg.maxWorkers then
        some { s with ws := s.ws ++ [.chkShutdown], nextDispatch := s.nextDispatch + 1, pc := nx }
      else some { s with nextDispatch := s.nextDispatch + 1, pc := nx }) = some s') :
    Inv s' := by
  rcases hnx with rfl | rfl
  all_goals (
    cases_sys
    split at hs <;> simp at hs <;> subst hs
    · rename_i hcond
      simp only at hcond
      cases_inv
      have hcq := cntOf_spawn queue ws chan ooo
      have hmf : (∃ w ∈ ws ++ [WPc.chkShutdown], midFail w = true) ↔ (∃ w ∈ ws, midFail w = true) := by
        constructor
        · rintro ⟨w, hw, hm⟩
          rcases List.mem_append.mp hw with hw | hw
          · exact ⟨w, hw, hm⟩
          · simp at hw; subst hw; cases hm
        · rintro ⟨w, hw, hm⟩
          exact ⟨w, List.mem_append_left _ hw, hm⟩
      constructor
      case wsBound => simp only [List.length_append, List.length_singleton]; omega
      case cntLe => intro q; simp only [cnt]; rw [hcq]; exact h7 q
      case cntRange =>
        intro q hq0; simp only [cnt] at hq0; rw [hcq] at hq0
        have := h8 q hq0; simp only [disp, dispOf, reduceCtorEq, ↓reduceIte]; exact this
      case cons =>
        intro q hq1 hq2
        simp only [disp, dispOf, reduceCtorEq, ↓reduceIte] at hq1 hq2
        have := h9 q hq1 hq2
        simp only [cnt, Failing, FailingOf]; rw [hcq, hmf]
        simpa using this
      case okSent =>
        intro q hq
        rcases hq with hq | hq | hq
        · rcases List.mem_append.mp hq with hq | hq
          · exact h11 q (Or.inl hq)
          · simp at hq
        · exact h11 q (Or.inr (Or.inl hq))
        · exact h11 q (Or.inr (Or.inr hq))
      case noExit =>
        intro hsh w hw
        rcases List.mem_append.mp hw with hw | hw
        · exact h19 hsh w hw
        · simp at hw; subst hw; simp
      case closedNoWait =>
        intro hcl
        have := h20.mp hcl
        cases this
      case qAlive =>
        intro _ _
        left; exact ⟨.chkShutdown, by simp, by simp⟩
      case emptyActive => intro hc; simp at hc
      all_goals (clear hcq hmf h7 h8 h9)
      all_goals inv_simp
    · rename_i hcond
      simp only at hcond
      cases_inv
      constructor
      case qAlive =>
        intro hsh hq
        rcases h23 hsh hq with hh | ⟨_, hh⟩
        · exact Or.inl hh
        · exfalso
          apply hcond
          subst hh
          refine ⟨?_, ?_, ?_⟩
          · exact List.length_pos_iff.mpr hq
          · simp [h24 rfl]
          · exact h1
      all_goals inv_simp)

theorem coord_spawnChk (s s' : Sys) (h : Inv s) (hp : s.pc = .spawnChk) (hs : coordStep s = some s') :
    Inv s' := by
  simp only [coordStep, hp] at hs
  exact coord_spawnChk_aux s s' h hp _ (by split <;> simp) hs

theorem caller_call (s s' : Sys) (h : Inv s) (hs : callerStep s false = some s') : Inv s' := by
  simp only [callerStep] at hs
  split at hs
  · rename_i last hp
    simp only [Bool.false_eq_true, if_false] at hs
    cases_sys
    split at hs
    · simp at hs
    · simp at hs
    · rename_i hl1 hl2
      simp at hs; subst hs
      cases_inv
      constructor
      all_goals inv_simp
  · simp at hs

theorem caller_drop (s s' : Sys) (h : Inv s) (hs : callerStep s true = some s') : Inv s' := by
  simp only [callerStep] at hs
  split at hs
  · rename_i last hp
    simp only [if_true] at hs
    cases_sys
    simp at hs; subst hs
    cases_inv
    have hcq := cntOf_wakeAll queue ws chan ooo
    constructor
    case wsBound => simp only; rw [wakeAll_length]; exact h3
    case cntLe => intro q; simp only [cnt]; rw [hcq]; exact h7 q
    case cntRange =>
      intro q hq0; simp only [cnt] at hq0; rw [hcq] at hq0
      have := h8 q hq0; simp only [disp, dispOf, reduceCtorEq, ↓reduceIte]; exact this
    case cons =>
      intro q hq1 hq2
      simp only [disp, dispOf, reduceCtorEq, ↓reduceIte] at hq1 hq2
      rcases h9 q hq1 hq2 with hh | ⟨hh, _⟩
      · left; simp only [cnt]; rw [hcq]; exact hh
      · right; exact ⟨hh, Or.inr (Or.inr (Or.inr rfl))⟩
    case okSent =>
      intro q hq
      rcases hq with hq | hq | hq
      · rcases mem_wakeAll _ _ hq with hq | hq
        · exact h11 q (Or.inl hq)
        · cases hq
      · exact h11 q (Or.inr (Or.inl hq))
      · exact h11 q (Or.inr (Or.inr hq))
    case closedNoWait => intro _; exact wakeAll_noWait ws
    case emptyActive =>
      intro hc
      simp only at hc
      have := wakeAll_length ws
      rw [hc] at this
      exact h24 (List.length_eq_zero_iff.mp this.symm)
    all_goals (clear hcq h7 h8 h9)
    all_goals inv_simp
  · simp at hs


theorem coord_step_inv (s s' : Sys) (h : Inv s) (hs : coordStep s = some s') : Inv s' := by
  cases hp : s.pc with
  | idle l => simp [coordStep, hp] at hs
  | dropped => simp [coordStep, hp] at hs
  | top => exact coord_top s s' h hp hs
  | chkErr => exact coord_chkErr s s' h hp hs
  | byState => exact coord_byState s s' h hp hs
  | tryRecv => exact coord_tryRecv s s' h hp hs
  | chkQueue => exact coord_chkQueue s s' h hp hs
  | source => exact coord_source s s' h hp hs
  | push q => exact coord_push s s' q h hp hs
  | spawnChk => exact coord_spawnChk s s' h hp hs
  | recvReading => exact coord_recvReading s s' h hp hs
  | recvDraining => exact coord_recvDraining s s' h hp hs

/-- every step of every thread preserves the invariant -/
theorem step_inv (s s' : Sys) (l : Label) (h : Inv s) (hs : step s l = some s') : Inv s' := by
  cases l with
  | coord => exact coord_step_inv s s' h hs
  | call => exact caller_call s s' h hs
  | drop => exact caller_drop s s' h hs
  | worker i => exact worker_step_inv s s' i h hs

theorem run_inv (sched : List Label) : ∀ s s', Inv s → runSched s sched = some s' → Inv s' := by
  induction sched with
  | nil => intro s s' h hr; simp [runSched] at hr; subst hr; exact h
  | cons t ts ih =>
    intro s s' h hr
    simp only [runSched] at hr
    cases hst : step s t with
    | none => rw [hst] at hr; simp at hr
    | some s1 =>
      rw [hst] at hr
      exact ih s1 s' (step_inv s s1 t h hst) hr

theorem init_inv (cfg : Cfg) (hmax : 1 ≤ cfg.maxWorkers) : Inv (init cfg) := by
  have hrep : ∀ w ∈ List.replicate cfg.initialWorkers WPc.chkShutdown, w = .chkShutdown :=
    fun w hw => (List.mem_replicate.mp hw).2
  have hc : ∀ q, cnt (init cfg) q = 0 := by
    intro q; simp [cnt, cntOf, init, sumW_replicate, hv]
  constructor
  case cntLe => intro q; rw [hc]; omega
  case cntRange => intro q hq; rw [hc] at hq; omega
  case cons => intro q hq1 hq2; simp [init, disp, dispOf] at hq1 hq2
  case okSent =>
    intro q hq
    simp only [init] at hq
    rcases hq with hq | hq | hq
    · have := hrep _ hq; cases this
    · cases hq
    · cases hq
  case noExit =>
    intro _ w hw
    have := hrep w hw; subst this; simp
  case qAlive => intro _ hq; simp [init] at hq
  case wsBound => simp only [init, List.length_replicate]; omega
  all_goals simp [init, disp, dispOf, pastTop, readPc, errSeen]
  all_goals (try exact hmax)

end LzmaVerif.MT
