import LzmaVerif.Proofs.FiltersBase
import LzmaVerif.Proofs.FiltersBits
/-! IA-64 BCJ filter: decoding inverts encoding. Core Lean only. -/
namespace LzmaVerif.Filters
open LzmaVerif.Bits

theorem and_F (x : Nat) : x &&& 0xF = x % 16 := and_mask x 4
theorem and_FFFFF (x : Nat) : x &&& 0xFFFFF = x % 2 ^ 20 := and_mask x 20
theorem and_100000 (x : Nat) : x &&& 0x100000 = x / 2 ^ 20 % 2 ^ 1 * 2 ^ 20 := and_mask_shl x 1 20

/-- the mask `!(0x8FFFFF << 13)` of the code, as three bit ranges -/
theorem ia64_mask_split :
    (2 ^ 64 - 1 - (0x8FFFFF <<< 13) : Nat) = (2 ^ 13 - 1) ||| ((2 ^ 3 - 1) * 2 ^ 33) ||| ((2 ^ 27 - 1) * 2 ^ 37) := by
  decide

theorem ia64_and_mask (x : Nat) :
    x &&& (2 ^ 64 - 1 - (0x8FFFFF <<< 13)) =
      x % 2 ^ 13 + x / 2 ^ 33 % 2 ^ 3 * 2 ^ 33 + x / 2 ^ 37 % 2 ^ 27 * 2 ^ 37 := by
  rw [ia64_mask_split, Nat.and_or_distrib_left, Nat.and_or_distrib_left, and_mask, and_mask_shl, and_mask_shl]
  rw [or_disj' (x % 2 ^ 13) (x / 2 ^ 33 % 2 ^ 3 * 2 ^ 33) 13 (by omega) (by omega)]
  rw [or_disj' _ (x / 2 ^ 37 % 2 ^ 27 * 2 ^ 37) 37 (by omega) (by omega)]

/-- recognition of a slot (negated in the code) -/
def ia64Skip (norm : Nat) : Prop := (norm >>> 37) &&& 0xF ≠ 5 ∨ (norm >>> 9) &&& 7 ≠ 0
instance (norm : Nat) : Decidable (ia64Skip norm) :=
  inferInstanceAs (Decidable ((norm >>> 37) &&& 0xF ≠ 5 ∨ (norm >>> 9) &&& 7 ≠ 0))

/-- the new `norm` of a recognised slot -/
def ia64Norm (enc : Bool) (p norm : Nat) : Nat :=
  let src := ((norm >>> 13) &&& 0xFFFFF) ||| (((norm >>> 36) &&& 1) <<< 20)
  let src := u32 (src * 16)
  let dest := (if enc then wadd src p else wsub src p) / 16
  let norm := norm &&& (2 ^ 64 - 1 - (0x8FFFFF <<< 13))
  let norm := norm ||| ((dest &&& 0xFFFFF) <<< 13)
  norm ||| ((dest &&& 0x100000) <<< 16)

theorem ia64Skip_iff (norm : Nat) : ia64Skip norm ↔ (norm / 2 ^ 37 % 16 ≠ 5 ∨ norm / 2 ^ 9 % 8 ≠ 0) := by
  unfold ia64Skip; rw [shr_eq, shr_eq, and_F, and_7]

/-- arithmetic form of the destination -/
def ia64Dest (enc : Bool) (p norm : Nat) : Nat :=
  (if enc then ((norm / 2 ^ 13 % 2 ^ 20 + norm / 2 ^ 36 % 2 * 2 ^ 20) * 16 % 2 ^ 32 + p) % 2 ^ 32
   else ((norm / 2 ^ 13 % 2 ^ 20 + norm / 2 ^ 36 % 2 * 2 ^ 20) * 16 % 2 ^ 32 + 2 ^ 32 - p % 2 ^ 32) % 2 ^ 32) / 16

theorem ia64Norm_eq (enc : Bool) (p norm : Nat) :
    ia64Norm enc p norm =
      norm % 2 ^ 13 + ia64Dest enc p norm % 2 ^ 20 * 2 ^ 13 + norm / 2 ^ 33 % 2 ^ 3 * 2 ^ 33 +
        ia64Dest enc p norm / 2 ^ 20 % 2 * 2 ^ 36 + norm / 2 ^ 37 % 2 ^ 27 * 2 ^ 37 := by
  have hsrc : ((norm >>> 13) &&& 0xFFFFF) ||| (((norm >>> 36) &&& 1) <<< 20)
      = norm / 2 ^ 13 % 2 ^ 20 + norm / 2 ^ 36 % 2 * 2 ^ 20 := by
    rw [shr_eq, shr_eq, and_FFFFF, and_1, shl_eq, or_disj' _ _ 20 (Nat.mod_lt _ (by decide)) (by omega)]
  simp only [ia64Norm]
  rw [hsrc, ia64_and_mask, and_FFFFF, and_100000, shl_eq, shl_eq]
  simp only [u32, wadd, wsub]
  show _ = norm % 2 ^ 13 + ia64Dest enc p norm % 2 ^ 20 * 2 ^ 13 + _ + _ + _
  unfold ia64Dest
  generalize (if enc = true then _ else _) / 16 = D
  rw [or_mid _ (D % 2 ^ 20 * 2 ^ 13) (norm / 2 ^ 33 % 2 ^ 3 * 2 ^ 33 + norm / 2 ^ 37 % 2 ^ 27 * 2 ^ 37)
    (norm % 2 ^ 13) 13 33 (by omega) (by omega) (by omega) (by omega) (by omega)]
  rw [or_mid _ (D / 2 ^ 20 % 2 ^ 1 * 2 ^ 20 * 2 ^ 16) (norm / 2 ^ 37 % 2 ^ 27 * 2 ^ 37)
    (norm % 2 ^ 13 + D % 2 ^ 20 * 2 ^ 13 + norm / 2 ^ 33 % 2 ^ 3 * 2 ^ 33) 36 37
    (by omega) (by omega) (by omega) (by omega) (by omega)]
  omega

/-- the slot transform on `norm` -/
def ia64T (enc : Bool) (p norm : Nat) : Nat := if ia64Skip norm then norm else ia64Norm enc p norm

theorem ia64Dest_congr (enc : Bool) (p a b : Nat) (h1 : a / 2 ^ 13 % 2 ^ 20 = b / 2 ^ 13 % 2 ^ 20)
    (h2 : a / 2 ^ 36 % 2 = b / 2 ^ 36 % 2) : ia64Dest enc p a = ia64Dest enc p b := by
  unfold ia64Dest; rw [h1, h2]

/-- shape of the result: only the 21 address bits change -/
theorem ia64T_shape (enc : Bool) (p norm : Nat) (hn : norm < 2 ^ 64) :
    ia64T enc p norm % 2 ^ 13 = norm % 2 ^ 13 ∧
    ia64T enc p norm / 2 ^ 33 % 2 ^ 3 = norm / 2 ^ 33 % 2 ^ 3 ∧
    ia64T enc p norm / 2 ^ 37 = norm / 2 ^ 37 := by
  unfold ia64T
  split
  · exact ⟨rfl, rfl, rfl⟩
  · rw [ia64Norm_eq]
    generalize ia64Dest enc p norm = D
    refine ⟨?_, ?_, ?_⟩ <;> omega

theorem ia64T_fields (enc : Bool) (p norm : Nat) (hs : ¬ ia64Skip norm) :
    ia64T enc p norm / 2 ^ 13 % 2 ^ 20 = ia64Dest enc p norm % 2 ^ 20 ∧
    ia64T enc p norm / 2 ^ 36 % 2 = ia64Dest enc p norm / 2 ^ 20 % 2 := by
  unfold ia64T
  rw [if_neg hs, ia64Norm_eq]
  generalize ia64Dest enc p norm = D
  refine ⟨?_, ?_⟩ <;> omega

theorem ia64Skip_congr (a b : Nat) (h1 : a % 2 ^ 13 = b % 2 ^ 13) (h2 : a / 2 ^ 37 % 16 = b / 2 ^ 37 % 16) :
    ia64Skip a ↔ ia64Skip b := by
  rw [ia64Skip_iff, ia64Skip_iff]
  have : a / 2 ^ 9 % 8 = b / 2 ^ 9 % 8 := by omega
  rw [h2, this]

theorem ia64_dest_arith (S p D D' : Nat) (hS : S < 2 ^ 21) (hp : p % 16 = 0) (hp2 : p < 2 ^ 32)
    (hD : D = (S * 16 % 2 ^ 32 + p) % 2 ^ 32 / 16)
    (hD' : D' = (D % 2 ^ 21 * 16 % 2 ^ 32 + 2 ^ 32 - p % 2 ^ 32) % 2 ^ 32 / 16) : D' % 2 ^ 21 = S := by
  omega

theorem ia64_recompose (norm D' : Nat) (hn : norm < 2 ^ 64)
    (hD' : D' % 2 ^ 21 = norm / 2 ^ 13 % 2 ^ 20 + norm / 2 ^ 36 % 2 * 2 ^ 20) :
    norm % 2 ^ 13 + D' % 2 ^ 20 * 2 ^ 13 + norm / 2 ^ 33 % 2 ^ 3 * 2 ^ 33 +
      D' / 2 ^ 20 % 2 * 2 ^ 36 + norm / 2 ^ 37 % 2 ^ 27 * 2 ^ 37 = norm := by
  have e1 : D' % 2 ^ 20 = norm / 2 ^ 13 % 2 ^ 20 := by omega
  have e2 : D' / 2 ^ 20 % 2 = norm / 2 ^ 36 % 2 := by omega
  rw [e1, e2]
  clear e1 e2 hD'
  omega

theorem ia64T_inv (p norm : Nat) (hn : norm < 2 ^ 64) (hp : p % 16 = 0) (hp2 : p < 2 ^ 32) :
    ia64T false p (ia64T true p norm) = norm := by
  obtain ⟨s1, s2, s3⟩ := ia64T_shape true p norm hn
  by_cases hs : ia64Skip norm
  · have e : ∀ enc, ia64T enc p norm = norm := by intro enc; unfold ia64T; rw [if_pos hs]
    rw [e, e]
  · obtain ⟨f1, f2⟩ := ia64T_fields true p norm hs
    generalize hN : ia64T true p norm = N at *
    have hs' : ¬ ia64Skip N := by
      rw [ia64Skip_congr N norm s1 (by rw [s3])]; exact hs
    have e : ia64T false p N = ia64Norm false p N := by unfold ia64T; rw [if_neg hs']
    rw [e, ia64Norm_eq, s1, s2, s3]
    -- the decoder's destination
    have hD' : ia64Dest false p N % 2 ^ 21 = norm / 2 ^ 13 % 2 ^ 20 + norm / 2 ^ 36 % 2 * 2 ^ 20 := by
      apply ia64_dest_arith _ p (ia64Dest true p norm) _ (by omega) hp hp2
      · unfold ia64Dest; rw [if_pos rfl]
      · unfold ia64Dest
        rw [if_neg (by simp), if_pos rfl, f1, f2]
        have : ∀ D, D % 2 ^ 20 + D / 2 ^ 20 % 2 * 2 ^ 20 = D % 2 ^ 21 := by intro D; omega
        rw [this]
        unfold ia64Dest
        rw [if_pos rfl]
    exact ia64_recompose norm _ hn hD'

/-! ### six-byte windows -/

theorem set6_size (b : Buf) (o v : Nat) : (set6 b o v).size = b.size := by
  simp only [set6, size_sb]

theorem set6_frame (b : Buf) (o v k : Nat) (hk : k < o ∨ o + 6 ≤ k) : gb (set6 b o v) k = gb b k := by
  simp only [set6]
  rw [gb_sb_ne _ _ _ _ (by omega), gb_sb_ne _ _ _ _ (by omega), gb_sb_ne _ _ _ _ (by omega),
    gb_sb_ne _ _ _ _ (by omega), gb_sb_ne _ _ _ _ (by omega), gb_sb_ne _ _ _ _ (by omega)]

theorem set6_bytes (b : Buf) (o v : Nat) (h : BBytes b) : BBytes (set6 b o v) :=
  BBytes_sb _ _ _ (BBytes_sb _ _ _ (BBytes_sb _ _ _ (BBytes_sb _ _ _ (BBytes_sb _ _ _ (BBytes_sb _ _ _ h)))))

theorem set6_get (b : Buf) (o v : Nat) (hw : o + 6 ≤ b.size) :
    gb (set6 b o v) o = v % 256 ∧ gb (set6 b o v) (o + 1) = v / 2 ^ 8 % 256 ∧
    gb (set6 b o v) (o + 2) = v / 2 ^ 16 % 256 ∧ gb (set6 b o v) (o + 3) = v / 2 ^ 24 % 256 ∧
    gb (set6 b o v) (o + 4) = v / 2 ^ 32 % 256 ∧ gb (set6 b o v) (o + 5) = v / 2 ^ 40 % 256 := by
  simp only [set6, ← shr_eq]
  refine ⟨?_, ?_, ?_, ?_, ?_, ?_⟩
  · rw [gb_sb_ne _ _ _ _ (by omega), gb_sb_ne _ _ _ _ (by omega), gb_sb_ne _ _ _ _ (by omega),
      gb_sb_ne _ _ _ _ (by omega), gb_sb_ne _ _ _ _ (by omega), gb_sb_eq _ _ _ (by omega)]
  · rw [gb_sb_ne _ _ _ _ (by omega), gb_sb_ne _ _ _ _ (by omega), gb_sb_ne _ _ _ _ (by omega),
      gb_sb_ne _ _ _ _ (by omega), gb_sb_eq _ _ _ (by simp only [size_sb]; omega)]
  · rw [gb_sb_ne _ _ _ _ (by omega), gb_sb_ne _ _ _ _ (by omega), gb_sb_ne _ _ _ _ (by omega),
      gb_sb_eq _ _ _ (by simp only [size_sb]; omega)]
  · rw [gb_sb_ne _ _ _ _ (by omega), gb_sb_ne _ _ _ _ (by omega),
      gb_sb_eq _ _ _ (by simp only [size_sb]; omega)]
  · rw [gb_sb_ne _ _ _ _ (by omega), gb_sb_eq _ _ _ (by simp only [size_sb]; omega)]
  · rw [gb_sb_eq _ _ _ (by simp only [size_sb]; omega)]

theorem set6_agree (b b' : Buf) (i w o v : Nat) (h : Agree i w b b') : Agree i w (set6 b o v) (set6 b' o v) :=
  (((((h.sb _ _).sb _ _).sb _ _).sb _ _).sb _ _).sb _ _

theorem get6_lt (b : Buf) (o : Nat) (h : BBytes b) : get6 b o < 2 ^ 48 := by
  have h0 := h o; have h1 := h (o + 1); have h2 := h (o + 2); have h3 := h (o + 3)
  have h4 := h (o + 4); have h5 := h (o + 5)
  unfold get6; omega

theorem get6_bytes (b : Buf) (o : Nat) (h : BBytes b) :
    gb b o = get6 b o % 256 ∧ gb b (o + 1) = get6 b o / 2 ^ 8 % 256 ∧
    gb b (o + 2) = get6 b o / 2 ^ 16 % 256 ∧ gb b (o + 3) = get6 b o / 2 ^ 24 % 256 ∧
    gb b (o + 4) = get6 b o / 2 ^ 32 % 256 ∧ gb b (o + 5) = get6 b o / 2 ^ 40 % 256 := by
  have h0 := h o; have h1 := h (o + 1); have h2 := h (o + 2); have h3 := h (o + 3)
  have h4 := h (o + 4); have h5 := h (o + 5)
  unfold get6; omega

/-- one slot, at byte offset `o` with `br` residual bits -/
def slotOp (enc : Bool) (p o br : Nat) (b : Buf) : Buf :=
  if ia64Skip (get6 b o >>> br) then b else
  set6 b o ((get6 b o &&& (2 ^ br - 1)) ||| ((ia64Norm enc p (get6 b o >>> br) <<< br) % 2 ^ 64))

/-- the new value of the 6-byte window -/
def slotVal (enc : Bool) (p br V : Nat) : Nat := V % 2 ^ br + ia64T enc p (V / 2 ^ br) * 2 ^ br

theorem slotVal_props (enc : Bool) (p br V : Nat) (hbr : br = 5 ∨ br = 6 ∨ br = 7) (hV : V < 2 ^ 48) :
    slotVal enc p br V < 2 ^ 48 ∧ slotVal enc p br V % 2 ^ (br + 13) = V % 2 ^ (br + 13) ∧
    slotVal enc p br V / 2 ^ (br + 37) = V / 2 ^ (br + 37) := by
  unfold slotVal
  rcases hbr with rfl | rfl | rfl
  · obtain ⟨s1, s2, s3⟩ := ia64T_shape enc p (V / 2 ^ 5) (by omega)
    generalize ia64T enc p (V / 2 ^ 5) = N at *
    refine ⟨?_, ?_, ?_⟩ <;> omega
  · obtain ⟨s1, s2, s3⟩ := ia64T_shape enc p (V / 2 ^ 6) (by omega)
    generalize ia64T enc p (V / 2 ^ 6) = N at *
    refine ⟨?_, ?_, ?_⟩ <;> omega
  · obtain ⟨s1, s2, s3⟩ := ia64T_shape enc p (V / 2 ^ 7) (by omega)
    generalize ia64T enc p (V / 2 ^ 7) = N at *
    refine ⟨?_, ?_, ?_⟩ <;> omega

theorem slotOp_size (enc : Bool) (p o br : Nat) (b : Buf) : (slotOp enc p o br b).size = b.size := by
  unfold slotOp; split
  · rfl
  · exact set6_size _ _ _

theorem slotOp_frame (enc : Bool) (p o br : Nat) (b : Buf) (k : Nat) (hk : k < o ∨ o + 6 ≤ k) :
    gb (slotOp enc p o br b) k = gb b k := by
  unfold slotOp; split
  · rfl
  · exact set6_frame _ _ _ _ hk

theorem slotOp_bytes (enc : Bool) (p o br : Nat) (b : Buf) (h : BBytes b) : BBytes (slotOp enc p o br b) := by
  unfold slotOp; split
  · exact h
  · exact set6_bytes _ _ _ h

theorem slotOp_get (enc : Bool) (p o br : Nat) (b : Buf) (hbr : br = 5 ∨ br = 6 ∨ br = 7)
    (hB : BBytes b) (hw : o + 6 ≤ b.size) :
    gb (slotOp enc p o br b) o = slotVal enc p br (get6 b o) % 256 ∧
    gb (slotOp enc p o br b) (o + 1) = slotVal enc p br (get6 b o) / 2 ^ 8 % 256 ∧
    gb (slotOp enc p o br b) (o + 2) = slotVal enc p br (get6 b o) / 2 ^ 16 % 256 ∧
    gb (slotOp enc p o br b) (o + 3) = slotVal enc p br (get6 b o) / 2 ^ 24 % 256 ∧
    gb (slotOp enc p o br b) (o + 4) = slotVal enc p br (get6 b o) / 2 ^ 32 % 256 ∧
    gb (slotOp enc p o br b) (o + 5) = slotVal enc p br (get6 b o) / 2 ^ 40 % 256 := by
  have hV := get6_lt b o hB
  unfold slotOp slotVal ia64T
  rw [shr_eq]
  split
  · have e : get6 b o % 2 ^ br + get6 b o / 2 ^ br * 2 ^ br = get6 b o := by
      rw [Nat.add_comm, Nat.mul_comm]; exact Nat.div_add_mod _ _
    rw [e]
    exact get6_bytes b o hB
  · rename_i hs
    have e : (get6 b o &&& (2 ^ br - 1)) ||| ((ia64Norm enc p (get6 b o / 2 ^ br) <<< br) % 2 ^ 64)
        = get6 b o % 2 ^ br + ia64Norm enc p (get6 b o / 2 ^ br) * 2 ^ br := by
      have hT : ia64T enc p (get6 b o / 2 ^ br) = ia64Norm enc p (get6 b o / 2 ^ br) := by
        unfold ia64T; rw [if_neg hs]
      have hlt : ia64Norm enc p (get6 b o / 2 ^ br) * 2 ^ br < 2 ^ 64 := by
        have := (slotVal_props enc p br _ hbr hV).1
        unfold slotVal at this
        rw [hT] at this
        omega
      rw [and_mask, shl_eq, Nat.mod_eq_of_lt hlt,
        or_disj' _ _ br (Nat.mod_lt _ (Nat.pow_pos (by decide))) (Nat.mul_mod_left _ _)]
    rw [e]
    exact set6_get _ _ _ hw

theorem get6_of_bytes (b : Buf) (o V : Nat) (hV : V < 2 ^ 48)
    (h0 : gb b o = V % 256) (h1 : gb b (o + 1) = V / 2 ^ 8 % 256) (h2 : gb b (o + 2) = V / 2 ^ 16 % 256)
    (h3 : gb b (o + 3) = V / 2 ^ 24 % 256) (h4 : gb b (o + 4) = V / 2 ^ 32 % 256)
    (h5 : gb b (o + 5) = V / 2 ^ 40 % 256) : get6 b o = V := by
  unfold get6; rw [h0, h1, h2, h3, h4, h5]; omega

theorem low_byte_of_mod (k V V' : Nat) (hk : k = 18 ∨ k = 19 ∨ k = 20) (p2 : V' % 2 ^ k = V % 2 ^ k) :
    V' % 256 = V % 256 := by
  rcases hk with rfl | rfl | rfl <;> omega

theorem high_of_div (k V V' : Nat) (hk : k = 42 ∨ k = 43 ∨ k = 44) (p3 : V' / 2 ^ k = V / 2 ^ k) :
    V' / 2 ^ 44 = V / 2 ^ 44 := by
  rcases hk with rfl | rfl | rfl <;> omega

theorem top_nibble (V : Nat) (hV : V < 2 ^ 48) : V / 2 ^ 40 % 256 / 16 = V / 2 ^ 44 := by omega

theorem slot_byte_facts (br V V' : Nat) (hbr : br = 5 ∨ br = 6 ∨ br = 7) (hV : V < 2 ^ 48) (hV' : V' < 2 ^ 48)
    (p2 : V' % 2 ^ (br + 13) = V % 2 ^ (br + 13)) (p3 : V' / 2 ^ (br + 37) = V / 2 ^ (br + 37)) :
    V' % 256 = V % 256 ∧ V' / 2 ^ 40 % 256 / 16 = V / 2 ^ 40 % 256 / 16 := by
  rw [top_nibble V hV, top_nibble V' hV']
  exact ⟨low_byte_of_mod (br + 13) V V' (by omega) p2, high_of_div (br + 37) V V' (by omega) p3⟩

/-- effect of one slot on its own window -/
theorem slotOp_effect (enc : Bool) (p o br : Nat) (b : Buf) (hbr : br = 5 ∨ br = 6 ∨ br = 7)
    (hB : BBytes b) (hw : o + 6 ≤ b.size) :
    get6 (slotOp enc p o br b) o / 2 ^ br = ia64T enc p (get6 b o / 2 ^ br) ∧
    gb (slotOp enc p o br b) o = gb b o ∧
    gb (slotOp enc p o br b) (o + 5) / 16 = gb b (o + 5) / 16 := by
  obtain ⟨g0, g1, g2, g3, g4, g5⟩ := slotOp_get enc p o br b hbr hB hw
  have hV := get6_lt b o hB
  obtain ⟨p1, p2, p3⟩ := slotVal_props enc p br (get6 b o) hbr hV
  have e := get6_of_bytes _ o _ p1 g0 g1 g2 g3 g4 g5
  obtain ⟨w0, _, _, _, _, w5⟩ := get6_bytes b o hB
  refine ⟨?_, ?_, ?_⟩
  · rw [e]; unfold slotVal
    rw [Nat.add_mul_div_right _ _ (Nat.pow_pos (by decide)),
      Nat.div_eq_of_lt (Nat.mod_lt _ (Nat.pow_pos (by decide))), Nat.zero_add]
  · rw [g0, w0]
    exact (slot_byte_facts br _ _ hbr hV p1 p2 p3).1
  · rw [g5, w5]
    exact (slot_byte_facts br _ _ hbr hV p1 p2 p3).2

/-! ### the bundle -/

/-- coordinates of a 16-byte bundle: template bits and the three `norm` values -/
def ia64Coords (b : Buf) (i : Nat) : Nat × Nat × Nat × Nat :=
  (gb b i % 32, get6 b i / 2 ^ 5, get6 b (i + 5) / 2 ^ 6, get6 b (i + 10) / 2 ^ 7)

theorem get6_congr (b b' : Buf) (o : Nat) (h : ∀ k, o ≤ k → k < o + 6 → gb b' k = gb b k) :
    get6 b' o = get6 b o := by
  unfold get6
  rw [h o (by omega) (by omega), h (o + 1) (by omega) (by omega), h (o + 2) (by omega) (by omega),
    h (o + 3) (by omega) (by omega), h (o + 4) (by omega) (by omega), h (o + 5) (by omega) (by omega)]

/-- `get6 / 64` only depends on the top two bits of the first byte -/
theorem get6_div_congr (b b' : Buf) (o m : Nat) (hm : m = 2 ^ 6 ∨ m = 2 ^ 7) (h0 : gb b' o / 16 = gb b o / 16)
    (_hB : gb b o < 256) (_hB' : gb b' o < 256)
    (h : ∀ k, o + 1 ≤ k → k < o + 6 → gb b' k = gb b k) : get6 b' o / m = get6 b o / m := by
  unfold get6
  rw [h (o + 1) (by omega) (by omega), h (o + 2) (by omega) (by omega),
    h (o + 3) (by omega) (by omega), h (o + 4) (by omega) (by omega), h (o + 5) (by omega) (by omega)]
  generalize gb b (o + 1) + 256 * (gb b (o + 2) + 256 * (gb b (o + 3) + 256 * (gb b (o + 4) + 256 * gb b (o + 5)))) = R
  rcases hm with rfl | rfl <;> omega

theorem slot0_coords (enc : Bool) (p i : Nat) (b : Buf) (hB : BBytes b) (hw : i + 16 ≤ b.size) :
    ia64Coords (slotOp enc p i 5 b) i =
      ((ia64Coords b i).1, ia64T enc p (ia64Coords b i).2.1, (ia64Coords b i).2.2.1, (ia64Coords b i).2.2.2) := by
  obtain ⟨e1, e2, e3⟩ := slotOp_effect enc p i 5 b (Or.inl rfl) hB (by omega)
  have hB' := slotOp_bytes enc p i 5 b hB
  unfold ia64Coords
  simp only
  rw [e1, e2]
  rw [get6_div_congr b _ (i + 5) _ (Or.inl rfl) e3 (hB _) (hB' _)
    (fun k h1 h2 => slotOp_frame enc p i 5 b k (Or.inr (by omega)))]
  rw [get6_congr b _ (i + 10) (fun k h1 h2 => slotOp_frame enc p i 5 b k (Or.inr (by omega)))]

theorem slot1_coords (enc : Bool) (p i : Nat) (b : Buf) (hB : BBytes b) (hw : i + 16 ≤ b.size) :
    ia64Coords (slotOp enc p (i + 5) 6 b) i =
      ((ia64Coords b i).1, (ia64Coords b i).2.1, ia64T enc p (ia64Coords b i).2.2.1, (ia64Coords b i).2.2.2) := by
  obtain ⟨e1, e2, e3⟩ := slotOp_effect enc p (i + 5) 6 b (Or.inr (Or.inl rfl)) hB (by omega)
  have hB' := slotOp_bytes enc p (i + 5) 6 b hB
  unfold ia64Coords
  simp only
  rw [e1, slotOp_frame enc p (i + 5) 6 b i (Or.inl (by omega))]
  rw [get6_congr b _ i (fun k h1 h2 => by
    by_cases hk : k = i + 5
    · rw [hk, e2]
    · exact slotOp_frame enc p (i + 5) 6 b k (Or.inl (by omega)))]
  rw [get6_div_congr b _ (i + 10) _ (Or.inr rfl) e3 (hB _) (hB' _)
    (fun k h1 h2 => slotOp_frame enc p (i + 5) 6 b k (Or.inr (by omega)))]

theorem slot2_coords (enc : Bool) (p i : Nat) (b : Buf) (hB : BBytes b) (hw : i + 16 ≤ b.size) :
    ia64Coords (slotOp enc p (i + 10) 7 b) i =
      ((ia64Coords b i).1, (ia64Coords b i).2.1, (ia64Coords b i).2.2.1, ia64T enc p (ia64Coords b i).2.2.2) := by
  obtain ⟨e1, e2, e3⟩ := slotOp_effect enc p (i + 10) 7 b (Or.inr (Or.inr rfl)) hB (by omega)
  unfold ia64Coords
  simp only
  rw [e1, slotOp_frame enc p (i + 10) 7 b i (Or.inl (by omega))]
  rw [get6_congr b _ i (fun k h1 h2 => slotOp_frame enc p (i + 10) 7 b k (Or.inl (by omega)))]
  rw [get6_congr b _ (i + 5) (fun k h1 h2 => by
    by_cases hk : k = i + 10
    · rw [hk, e2]
    · exact slotOp_frame enc p (i + 10) 7 b k (Or.inl (by omega)))]

theorem get6_split (b : Buf) (o m : Nat) (hm : m = 2 ^ 5 ∨ m = 2 ^ 6 ∨ m = 2 ^ 7) :
    get6 b o = gb b o % m + m * (get6 b o / m) := by
  unfold get6
  generalize gb b (o + 1) + 256 * (gb b (o + 2) + 256 * (gb b (o + 3) + 256 * (gb b (o + 4) + 256 * gb b (o + 5)))) = R
  rcases hm with rfl | rfl | rfl <;> omega

/-- a bundle of bytes is determined by its coordinates -/
theorem ia64_ext (b b' : Buf) (i : Nat) (hB : BBytes b) (hB' : BBytes b')
    (h : ia64Coords b i = ia64Coords b' i) : ∀ k, i ≤ k → k < i + 16 → gb b k = gb b' k := by
  unfold ia64Coords at h
  simp only [Prod.mk.injEq] at h
  obtain ⟨ht, h0, h1, h2⟩ := h
  -- window 0
  have v0 : get6 b i = get6 b' i := by
    rw [get6_split b i _ (Or.inl rfl), get6_split b' i _ (Or.inl rfl), h0]
    show gb b i % 32 + _ = gb b' i % 32 + _
    rw [ht]
  obtain ⟨a0, a1, a2, a3, a4, a5⟩ := get6_bytes b i hB
  obtain ⟨a0', a1', a2', a3', a4', a5'⟩ := get6_bytes b' i hB'
  rw [← v0] at a0' a1' a2' a3' a4' a5'
  have e5 : gb b (i + 5) = gb b' (i + 5) := by rw [a5, a5']
  -- window 1
  have v1 : get6 b (i + 5) = get6 b' (i + 5) := by
    rw [get6_split b (i + 5) _ (Or.inr (Or.inl rfl)), get6_split b' (i + 5) _ (Or.inr (Or.inl rfl)), h1, e5]
  obtain ⟨_, c1, c2, c3, c4, c5⟩ := get6_bytes b (i + 5) hB
  obtain ⟨_, c1', c2', c3', c4', c5'⟩ := get6_bytes b' (i + 5) hB'
  rw [← v1] at c1' c2' c3' c4' c5'
  have e10 : gb b (i + 10) = gb b' (i + 10) := by rw [c5, c5']
  -- window 2
  have v2 : get6 b (i + 10) = get6 b' (i + 10) := by
    rw [get6_split b (i + 10) _ (Or.inr (Or.inr rfl)), get6_split b' (i + 10) _ (Or.inr (Or.inr rfl)), h2, e10]
  obtain ⟨_, d1, d2, d3, d4, d5⟩ := get6_bytes b (i + 10) hB
  obtain ⟨_, d1', d2', d3', d4', d5'⟩ := get6_bytes b' (i + 10) hB'
  rw [← v2] at d1' d2' d3' d4' d5'
  intro k k1 k2
  have hk : k = i ∨ k = i + 1 ∨ k = i + 2 ∨ k = i + 3 ∨ k = i + 4 ∨ k = i + 5 ∨ k = i + 5 + 1 ∨
      k = i + 5 + 2 ∨ k = i + 5 + 3 ∨ k = i + 5 + 4 ∨ k = i + 10 ∨ k = i + 10 + 1 ∨ k = i + 10 + 2 ∨
      k = i + 10 + 3 ∨ k = i + 10 + 4 ∨ k = i + 10 + 5 := by omega
  rcases hk with rfl | rfl | rfl | rfl | rfl | rfl | rfl | rfl | rfl | rfl | rfl | rfl | rfl | rfl | rfl | rfl
  · rw [a0, a0']
  · rw [a1, a1']
  · rw [a2, a2']
  · rw [a3, a3']
  · rw [a4, a4']
  · exact e5
  · rw [c1, c1']
  · rw [c2, c2']
  · rw [c3, c3']
  · rw [c4, c4']
  · exact e10
  · rw [d1, d1']
  · rw [d2, d2']
  · rw [d3, d3']
  · rw [d4, d4']
  · rw [d5, d5']

/-! ### the step -/

def ia64Step (enc : Bool) (st : St) (i : Nat) (b : Buf) : Buf :=
  let mask := ia64Table.getD (gb b i &&& 0x1F) 0
  let b := if mask &&& 1 ≠ 0 then slotOp enc (posAt st i) i 5 b else b
  let b := if mask &&& 2 ≠ 0 then slotOp enc (posAt st i) (i + 5) 6 b else b
  let b := if mask &&& 4 ≠ 0 then slotOp enc (posAt st i) (i + 10) 7 b else b
  b

theorem ia64Loop_eq_scan (enc : Bool) (st : St) : ∀ fuel i b,
    ia64Loop enc st fuel i b = scan 16 (fun i b => (ia64Step enc st i b, 16)) fuel i b := by
  intro fuel
  induction fuel with
  | zero => intro i b; rfl
  | succ n ih =>
    intro i b
    simp only [ia64Loop, scan]
    split
    · rfl
    · rw [← ih]; rfl

/-- a conditional slot operation -/
def condSlot (c : Prop) [Decidable c] (enc : Bool) (p o br : Nat) (b : Buf) : Buf :=
  if c then slotOp enc p o br b else b

theorem ia64Step_eq (enc : Bool) (st : St) (i : Nat) (b : Buf) :
    ia64Step enc st i b =
      condSlot (ia64Table.getD (gb b i &&& 0x1F) 0 &&& 4 ≠ 0) enc (posAt st i) (i + 10) 7
        (condSlot (ia64Table.getD (gb b i &&& 0x1F) 0 &&& 2 ≠ 0) enc (posAt st i) (i + 5) 6
          (condSlot (ia64Table.getD (gb b i &&& 0x1F) 0 &&& 1 ≠ 0) enc (posAt st i) i 5 b)) := rfl

theorem condSlot_size (c : Prop) [Decidable c] (enc : Bool) (p o br : Nat) (b : Buf) :
    (condSlot c enc p o br b).size = b.size := by
  unfold condSlot; split
  · exact slotOp_size _ _ _ _ _
  · rfl

theorem condSlot_frame (c : Prop) [Decidable c] (enc : Bool) (p o br : Nat) (b : Buf) (k : Nat)
    (hk : k < o ∨ o + 6 ≤ k) : gb (condSlot c enc p o br b) k = gb b k := by
  unfold condSlot; split
  · exact slotOp_frame _ _ _ _ _ _ hk
  · rfl

theorem condSlot_bytes (c : Prop) [Decidable c] (enc : Bool) (p o br : Nat) (b : Buf) (h : BBytes b) :
    BBytes (condSlot c enc p o br b) := by
  unfold condSlot; split
  · exact slotOp_bytes _ _ _ _ _ h
  · exact h

theorem slotOp_agree (enc : Bool) (p o br i : Nat) (b b' : Buf) (h : Agree i 16 b b')
    (h1 : i ≤ o) (h2 : o + 6 ≤ i + 16) : Agree i 16 (slotOp enc p o br b) (slotOp enc p o br b') := by
  have e : get6 b' o = get6 b o := get6_congr b b' o (fun k k1 k2 => h.2 k (by omega) (by omega))
  unfold slotOp
  rw [e]
  split
  · exact h
  · exact set6_agree _ _ _ _ _ _ h

theorem condSlot_agree (c : Prop) [Decidable c] (enc : Bool) (p o br i : Nat) (b b' : Buf)
    (h : Agree i 16 b b') (h1 : i ≤ o) (h2 : o + 6 ≤ i + 16) :
    Agree i 16 (condSlot c enc p o br b) (condSlot c enc p o br b') := by
  unfold condSlot; split
  · exact slotOp_agree _ _ _ _ _ _ _ h h1 h2
  · exact h

theorem ia64Step_size (enc : Bool) (st : St) (i : Nat) (b : Buf) : (ia64Step enc st i b).size = b.size := by
  rw [ia64Step_eq, condSlot_size, condSlot_size, condSlot_size]

theorem ia64Step_frame (enc : Bool) (st : St) (i : Nat) (b : Buf) (k : Nat) (hk : k < i ∨ i + 16 ≤ k) :
    gb (ia64Step enc st i b) k = gb b k := by
  rw [ia64Step_eq, condSlot_frame _ _ _ _ _ _ _ (by omega), condSlot_frame _ _ _ _ _ _ _ (by omega),
    condSlot_frame _ _ _ _ _ _ _ (by omega)]

theorem ia64Step_bytes (enc : Bool) (st : St) (i : Nat) (b : Buf) (h : BBytes b) :
    BBytes (ia64Step enc st i b) := by
  rw [ia64Step_eq]
  exact condSlot_bytes _ _ _ _ _ _ (condSlot_bytes _ _ _ _ _ _ (condSlot_bytes _ _ _ _ _ _ h))

theorem ia64Step_loc (enc : Bool) (st : St) (i : Nat) (b b' : Buf) (h : Agree i 16 b b') :
    Agree i 16 (ia64Step enc st i b) (ia64Step enc st i b') := by
  rw [ia64Step_eq, ia64Step_eq, h.2 i (by omega) (by omega)]
  exact condSlot_agree _ _ _ _ _ _ _ _
    (condSlot_agree _ _ _ _ _ _ _ _ (condSlot_agree _ _ _ _ _ _ _ _ h (by omega) (by omega))
      (by omega) (by omega)) (by omega) (by omega)

/-- conditional transform of a coordinate -/
def condT (c : Prop) [Decidable c] (enc : Bool) (p n : Nat) : Nat := if c then ia64T enc p n else n

theorem ia64Step_coords (enc : Bool) (st : St) (i : Nat) (b : Buf) (hB : BBytes b) (hw : i + 16 ≤ b.size) :
    ia64Coords (ia64Step enc st i b) i =
      ((ia64Coords b i).1,
       condT (ia64Table.getD (gb b i &&& 0x1F) 0 &&& 1 ≠ 0) enc (posAt st i) (ia64Coords b i).2.1,
       condT (ia64Table.getD (gb b i &&& 0x1F) 0 &&& 2 ≠ 0) enc (posAt st i) (ia64Coords b i).2.2.1,
       condT (ia64Table.getD (gb b i &&& 0x1F) 0 &&& 4 ≠ 0) enc (posAt st i) (ia64Coords b i).2.2.2) := by
  rw [ia64Step_eq]
  generalize ia64Table.getD (gb b i &&& 0x1F) 0 = M
  -- stage 0
  have s0 : ia64Coords (condSlot (M &&& 1 ≠ 0) enc (posAt st i) i 5 b) i =
      ((ia64Coords b i).1, condT (M &&& 1 ≠ 0) enc (posAt st i) (ia64Coords b i).2.1,
        (ia64Coords b i).2.2.1, (ia64Coords b i).2.2.2) := by
    unfold condSlot condT; split
    · exact slot0_coords _ _ _ _ hB hw
    · rfl
  have hB0 := condSlot_bytes (M &&& 1 ≠ 0) enc (posAt st i) i 5 b hB
  have hw0 : i + 16 ≤ (condSlot (M &&& 1 ≠ 0) enc (posAt st i) i 5 b).size := by
    rw [condSlot_size]; exact hw
  generalize condSlot (M &&& 1 ≠ 0) enc (posAt st i) i 5 b = b0 at *
  have s1 : ia64Coords (condSlot (M &&& 2 ≠ 0) enc (posAt st i) (i + 5) 6 b0) i =
      ((ia64Coords b0 i).1, (ia64Coords b0 i).2.1,
        condT (M &&& 2 ≠ 0) enc (posAt st i) (ia64Coords b0 i).2.2.1, (ia64Coords b0 i).2.2.2) := by
    unfold condSlot condT; split
    · exact slot1_coords _ _ _ _ hB0 hw0
    · rfl
  have hB1 := condSlot_bytes (M &&& 2 ≠ 0) enc (posAt st i) (i + 5) 6 b0 hB0
  have hw1 : i + 16 ≤ (condSlot (M &&& 2 ≠ 0) enc (posAt st i) (i + 5) 6 b0).size := by
    rw [condSlot_size]; exact hw0
  generalize condSlot (M &&& 2 ≠ 0) enc (posAt st i) (i + 5) 6 b0 = b1 at *
  have s2 : ia64Coords (condSlot (M &&& 4 ≠ 0) enc (posAt st i) (i + 10) 7 b1) i =
      ((ia64Coords b1 i).1, (ia64Coords b1 i).2.1, (ia64Coords b1 i).2.2.1,
        condT (M &&& 4 ≠ 0) enc (posAt st i) (ia64Coords b1 i).2.2.2) := by
    unfold condSlot condT; split
    · exact slot2_coords _ _ _ _ hB1 hw1
    · rfl
  rw [s2, s1, s0]

theorem condT_inv (c : Prop) [Decidable c] (p n : Nat) (hn : n < 2 ^ 64) (hp : p % 16 = 0) (hp2 : p < 2 ^ 32) :
    condT c false p (condT c true p n) = n := by
  unfold condT; split
  · exact ia64T_inv p n hn hp hp2
  · rfl

theorem ia64Step_inv (st : St) (hp : st.pos % 16 = 0) (i : Nat) (b : Buf) (hi : i % 16 = 0) (hB : BBytes b)
    (hw : i + 16 ≤ b.size) : ia64Step false st i (ia64Step true st i b) = b := by
  have hpp : posAt st i % 16 = 0 ∧ posAt st i < 2 ^ 32 := by simp only [posAt, u32]; omega
  have hBe := ia64Step_bytes true st i b hB
  have hwe : i + 16 ≤ (ia64Step true st i b).size := by rw [ia64Step_size]; exact hw
  have ce := ia64Step_coords true st i b hB hw
  have cd := ia64Step_coords false st i (ia64Step true st i b) hBe hwe
  -- the template byte is unchanged, so both directions use the same mask
  have ht : gb (ia64Step true st i b) i &&& 0x1F = gb b i &&& 0x1F := by
    have := congrArg Prod.fst ce
    simp only [ia64Coords] at this
    rw [and_1F, and_1F]; exact this
  rw [ht, ce] at cd
  simp only at cd
  have l0 := get6_lt b i hB
  have l1 := get6_lt b (i + 5) hB
  have l2 := get6_lt b (i + 10) hB
  rw [condT_inv _ _ _ (by unfold ia64Coords; simp only; omega) hpp.1 hpp.2,
    condT_inv _ _ _ (by unfold ia64Coords; simp only; omega) hpp.1 hpp.2,
    condT_inv _ _ _ (by unfold ia64Coords; simp only; omega) hpp.1 hpp.2] at cd
  have hc : ia64Coords (ia64Step false st i (ia64Step true st i b)) i = ia64Coords b i := cd
  apply buf_ext
  · rw [ia64Step_size, ia64Step_size]
  · intro k _
    by_cases hwin : k < i ∨ i + 16 ≤ k
    · rw [ia64Step_frame _ _ _ _ _ hwin, ia64Step_frame _ _ _ _ _ hwin]
    · exact ia64_ext _ _ i (ia64Step_bytes _ _ _ _ hBe) hB hc k (by omega) (by omega)

theorem ia64_stepOK (st : St) (hp : st.pos % 16 = 0) :
    StepOK 16 (fun i => i % 16 = 0) (fun _ _ => 0) (fun i b => (ia64Step true st i b, 16))
      (fun i b => (ia64Step false st i b, 16)) :=
  StepOK.fixed 16 _ _ _ (ia64Step_size _ _) (ia64Step_size _ _) (fun i h => by omega)
    (ia64Step_frame _ _) (ia64Step_frame _ _) (ia64Step_bytes _ _)
    (fun i b b' h _ => ia64Step_loc _ _ i b b' h)
    (fun i b hi hB hw => ia64Step_inv st hp i b hi hB hw)

/-- STRETCH: IA-64 -/
theorem ia64_inv (start : Nat) (hs : start % 16 = 0) (xs : List Nat) (h : Bytes xs) :
    oneShot .ia64 false start (oneShot .ia64 true start xs) = xs := by
  have hp : (St.init .ia64 start).pos % 16 = 0 := by simp only [St.init]; omega
  simp only [oneShot, code, ia64Loop_eq_scan]
  rw [Array.toArray_toList, scan_size _ (ia64Step_size _ _)]
  rw [scan_inv (ia64_stepOK _ hp) _ _ (by rfl) (BBytes_toArray xs h)]

end LzmaVerif.Filters
