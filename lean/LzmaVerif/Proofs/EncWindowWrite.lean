import LzmaVerif.Proofs.EncWindowRun
/-!
# `write`, `finish` and the whole run against the reference run
-/
namespace LzmaVerif.EncWindow

theorem processPending_none (P : Params) (s : St (List Nat)) (h : s.win.pendingSize = 0) :
    processPending listBuf P s = s := by
  unfold processPending
  simp only [h, Nat.lt_irrefl, false_and, if_false]

theorem writeLoop_succ (P : Params) (O : Oracle) (f : Nat) (s : St (List Nat)) (rest : List Nat) :
    writeLoop listBuf P O (f + 1) s rest =
      if rest.isEmpty = true then s else
        writeLoop listBuf P O f
          (encodeLoop listBuf P O P.lzma2 ((fillWindow listBuf P s rest).1.unenc + 1) (fillWindow listBuf P s rest).1).1
          (rest.drop (fillWindow listBuf P s rest).2) := rfl

/-- one `fill_window` in a run without flush -/
theorem fillWindow_sim (P : Params) (hP : P.WF) (s : St (List Nat)) (c : RSt) (fed rest inp : List Nat)
    (hs : SInv P s fed) (hsim : Sim P inp s c) (hf : s.win.finishing = false) :
    let r := fillWindow listBuf P s rest
    SInv P r.1 (fed ++ rest.take r.2) ∧ Sim P inp r.1 c ∧ r.1.win.finishing = false ∧ r.2 ≤ rest.length ∧
    r.1.unenc = s.unenc + r.2 ∧
    (rest ≠ [] → r.2 = 0 → hasEnoughData r.1.win (r.1.readAhead + 1) = true) := by
  intro r
  have hpz : s.win.pendingSize = 0 := by
    rcases hs.win.pend with h | h
    · exact h
    · rw [hf] at h; exact absurd h (by simp)
  obtain ⟨c1, c2, c3, c4, c5, c6, c7, c8, c9⟩ := fillCore_spec P s.win fed rest hs.win hf
  have hr : r = ({ s with win := (fillCore listBuf P s.win rest).1 }, (fillCore listBuf P s.win rest).2) := by
    show (processPending listBuf P { s with win := (fillCore listBuf P s.win rest).1 }, (fillCore listBuf P s.win rest).2) = _
    rw [processPending_none P _ (by show (fillCore listBuf P s.win rest).1.pendingSize = 0; rw [c8]; exact hpz)]
  rw [hr]
  generalize fillCore listBuf P s.win rest = r0 at *
  have g1 := hs.ra_ge; have g2 := hs.ra_le; have g3 := hs.ra_lt; have g4 := hs.win.rp_lt
  have w5 := hP.ahead_before
  refine ⟨⟨c1, hs.ra_ge, ?_, hs.ra_lt, hs.not_stuck⟩, ⟨?_, hsim.ra, hsim.tr, hsim.good⟩, c7, c2, ?_, ?_⟩
  · show s.readAhead ≤ r0.1.readPos
    rcases c1.lookback with h | h
    · omega
    · omega
  · show c.readPos = (r0.1.base : Int) + r0.1.readPos
    rw [hsim.rp]; omega
  · unfold St.unenc St.encPos
    show ((r0.1.writePos : Int) - (r0.1.readPos - s.readAhead)).toNat =
      ((s.win.writePos : Int) - (s.win.readPos - s.readAhead)).toNat + r0.2
    omega
  · intro hne hz
    have := c9 hne hz
    show hasEnoughData r0.1 (s.readAhead + 1) = true
    unfold hasEnoughData
    simp only [decide_eq_true_eq]
    omega

theorem writeLoop_sim (P : Params) (hP : P.WF) (O : Oracle) (inp : List Nat) :
    ∀ (fuel : Nat) (s : St (List Nat)) (c : RSt) (fed rest t : List Nat), SInv P s fed → Sim P inp s c →
    fed ++ rest ++ t = inp → s.win.finishing = false → 2 * rest.length + s.unenc < fuel →
    ∃ c', RSteps P O inp c c' ∧ SInv P (writeLoop listBuf P O fuel s rest) (fed ++ rest) ∧
      Sim P inp (writeLoop listBuf P O fuel s rest) c' ∧ (writeLoop listBuf P O fuel s rest).win.finishing = false := by
  intro fuel
  induction fuel with
  | zero => intro s c fed rest t _ _ _ _ h; omega
  | succ f ih =>
    intro s c fed rest t hs hsim hinp hf hfuel
    rw [writeLoop_succ]
    by_cases hr : rest = []
    · subst hr
      rw [if_pos (by rfl)]
      exact ⟨c, RSteps.refl _, by simpa using hs, hsim, hf⟩
    · rw [if_neg (by simpa using hr)]
      obtain ⟨a1, a2, a3, a4, a5, a6⟩ := fillWindow_sim P hP s c fed rest inp hs hsim hf
      generalize fillWindow listBuf P s rest = r at *
      have hinp1 : (fed ++ rest.take r.2) ++ (rest.drop r.2 ++ t) = inp := by
        rw [← hinp, List.append_assoc, List.append_assoc, ← List.append_assoc (rest.take r.2), List.take_append_drop]
      obtain ⟨c', e1, e2, e3, e4, e5, _, e7, _⟩ := encodeLoop_sim P hP O (fed ++ rest.take r.2) (rest.drop r.2 ++ t) inp hinp1
        P.lzma2 (r.1.unenc + 1) r.1 c a1 a2 (by intro h; rw [a3] at h; exact absurd h (by simp))
      generalize encodeLoop listBuf P O P.lzma2 (r.1.unenc + 1) r.1 = r2 at *
      have hinp2 : (fed ++ rest.take r.2) ++ rest.drop r.2 ++ t = inp := by
        rw [List.append_assoc]; exact hinp1
      obtain ⟨c'', i1, i2, i3, i4⟩ := ih r2.1 c' (fed ++ rest.take r.2) (rest.drop r.2) t e2 e3 hinp2
        (by rw [e4.2.2.2.1]; exact a3)
        (by
          have hl : (rest.drop r.2).length = rest.length - r.2 := List.length_drop
          rw [hl]
          by_cases hu : r.2 = 0
          · have := e7 (a6 hr hu) (by omega)
            omega
          · omega)
      refine ⟨c'', e1.trans i1, ?_, i3, i4⟩
      have : fed ++ rest.take r.2 ++ rest.drop r.2 = fed ++ rest := by
        rw [List.append_assoc, List.take_append_drop]
      rw [← this]; exact i2

theorem write_sim (P : Params) (hP : P.WF) (O : Oracle) (inp : List Nat) (s : St (List Nat)) (c : RSt)
    (fed part t : List Nat) (hs : SInv P s fed) (hsim : Sim P inp s c) (hinp : fed ++ part ++ t = inp)
    (hf : s.win.finishing = false) :
    ∃ c', RSteps P O inp c c' ∧ SInv P (write listBuf P O s part) (fed ++ part) ∧
      Sim P inp (write listBuf P O s part) c' ∧ (write listBuf P O s part).win.finishing = false :=
  writeLoop_sim P hP O inp _ s c fed part t hs hsim hinp hf (by omega)

theorem writeAll_sim (P : Params) (hP : P.WF) (O : Oracle) (inp : List Nat) :
    ∀ (parts : List (List Nat)) (s : St (List Nat)) (c : RSt) (fed t : List Nat), SInv P s fed → Sim P inp s c →
    fed ++ parts.flatten ++ t = inp → s.win.finishing = false →
    ∃ c', RSteps P O inp c c' ∧ SInv P (writeAll listBuf P O s parts) (fed ++ parts.flatten) ∧
      Sim P inp (writeAll listBuf P O s parts) c' ∧ (writeAll listBuf P O s parts).win.finishing = false := by
  intro parts
  induction parts with
  | nil =>
    intro s c fed t hs hsim _ hf
    refine ⟨c, RSteps.refl _, ?_, hsim, hf⟩
    show SInv P s (fed ++ ([] : List (List Nat)).flatten)
    simpa using hs
  | cons p ps ih =>
    intro s c fed t hs hsim hinp hf
    have hfl : (p :: ps).flatten = p ++ ps.flatten := by simp
    rw [hfl] at hinp ⊢
    obtain ⟨c1, a1, a2, a3, a4⟩ := write_sim P hP O inp s c fed p (ps.flatten ++ t) hs hsim
      (by rw [← hinp]; simp [List.append_assoc]) hf
    obtain ⟨c2, b1, b2, b3, b4⟩ := ih (write listBuf P O s p) c1 (fed ++ p) t a2 a3
      (by rw [← hinp]; simp [List.append_assoc]) a4
    refine ⟨c2, a1.trans b1, ?_, b3, b4⟩
    rw [← List.append_assoc]; exact b2

theorem finish_sim (P : Params) (hP : P.WF) (O : Oracle) (inp : List Nat) (s : St (List Nat)) (c : RSt)
    (hs : SInv P s inp) (hsim : Sim P inp s c) (hf : s.win.finishing = false) :
    ∃ c', RSteps P O inp c c' ∧ ¬ c'.encPos < inp.length ∧ SInv P (finish listBuf P O s) inp ∧
      Sim P inp (finish listBuf P O s) c' := by
  have hpz : s.win.pendingSize = 0 := by
    rcases hs.win.pend with h | h
    · exact h
    · rw [hf] at h; exact absurd h (by simp)
  have hsf : setFinishing listBuf P s =
      { s with win := { s.win with readLimit := (s.win.writePos : Int) - 1, finishing := true } } :=
    processPending_none P _ hpz
  have hfin : finish listBuf P O s =
      (encodeLoop listBuf P O false ((setFinishing listBuf P s).unenc + 1) (setFinishing listBuf P s)).1 := rfl
  rw [hfin, hsf]
  generalize hs1 : ({ s with win := { s.win with readLimit := (s.win.writePos : Int) - 1, finishing := true } } : St (List Nat)) = s1
  have h1 : SInv P s1 inp := by
    subst hs1
    refine ⟨⟨⟨hs.win.buf_len, hs.win.wp_le, hs.win.rp_ge, hs.win.rp_lt, hs.win.content, hs.win.fed_len,
      hs.win.lookback, hs.win.base_al⟩, ?_, ?_, ?_⟩, hs.ra_ge, hs.ra_le, hs.ra_lt, hs.not_stuck⟩
    · intro _; rfl
    · intro h; exact absurd h (by simp)
    · right; rfl
  have h2 : Sim P inp s1 c := by
    subst hs1
    exact ⟨hsim.rp, hsim.ra, hsim.tr, hsim.good⟩
  obtain ⟨c', e1, e2, e3, e4, _, e6, _, e8⟩ := encodeLoop_sim P hP O inp [] inp (by simp) false (s1.unenc + 1) s1 c h1 h2
    (fun _ => rfl)
  generalize encodeLoop listBuf P O false (s1.unenc + 1) s1 = r at *
  refine ⟨c', e1, ?_, e2, e3⟩
  have hne : hasEnoughData r.1.win (r.1.readAhead + 1) = false := by
    rcases e6 (by omega) with h | h
    · rw [e8 rfl] at h; exact absurd h (by simp)
    · exact h
  have hne' : ¬ (r.1.win.readPos - (r.1.readAhead + 1) < r.1.win.readLimit) := by
    simpa [hasEnoughData] using hne
  obtain ⟨q1, q2, q3, q4, q5⟩ := e4
  have hl : r.1.win.readLimit = (r.1.win.writePos : Int) - 1 := e2.win.lim_fin (by rw [q4, ← hs1])
  have hfl := e2.win.fed_len
  unfold RSt.encPos
  rw [e3.rp, e3.ra]
  omega

theorem init_SInv (P : Params) : SInv P (St.init listBuf P) [] := by
  refine ⟨WInv.init P, ?_, ?_, ?_, rfl⟩
  · show (-1 : Int) ≤ -1
    omega
  · show (-1 : Int) ≤ -1
    omega
  · show (-1 : Int) + 1 ≤ (P.maxAhead : Int)
    omega

theorem init_Sim (P : Params) (inp : List Nat) : Sim P inp (St.init listBuf P) {} := by
  refine ⟨?_, rfl, rfl, ?_⟩
  · show (-1 : Int) = ((0 : Nat) : Int) + -1
    omega
  · intro v hv
    exact absurd hv (by simp [St.init])

/-- the whole run: a complete reference run exists with exactly the same views -/
theorem run_sim (P : Params) (hP : P.WF) (O : Oracle) (parts : List (List Nat)) :
    ∃ c', RSteps P O parts.flatten {} c' ∧ ¬ c'.encPos < parts.flatten.length ∧
      SInv P (run listBuf P O parts) parts.flatten ∧ Sim P parts.flatten (run listBuf P O parts) c' := by
  obtain ⟨c1, a1, a2, a3, a4⟩ := writeAll_sim P hP O parts.flatten parts (St.init listBuf P) {} [] []
    (init_SInv P) (init_Sim P _) (by simp) rfl
  obtain ⟨c2, b1, b2, b3, b4⟩ := finish_sim P hP O parts.flatten (writeAll listBuf P O (St.init listBuf P) parts) c1
    (by simpa using a2) a3 a4
  exact ⟨c2, a1.trans b1, b2, b3, b4⟩

end LzmaVerif.EncWindow
