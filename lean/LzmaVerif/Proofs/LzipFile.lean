import LzmaVerif.Model.LzipFile
/-!
# LZIP container: round trip / concatenation, rejection of damaged input, acceptance ⇒ verified trailer
-/
namespace LzmaVerif.LzipFile
open LzmaVerif Lzma Checks

def Bytes (xs : List Nat) : Prop := ∀ x ∈ xs, x < 256

theorem Bytes.append {a b : List Nat} (ha : Bytes a) (hb : Bytes b) : Bytes (a ++ b) := by
  intro x hx
  rcases List.mem_append.1 hx with h | h
  · exact ha x h
  · exact hb x h

theorem Bytes.of_append {a b : List Nat} (h : Bytes (a ++ b)) : Bytes a ∧ Bytes b :=
  ⟨fun x hx => h x (List.mem_append_left _ hx), fun x hx => h x (List.mem_append_right _ hx)⟩

theorem Bytes.take {a : List Nat} (h : Bytes a) (n : Nat) : Bytes (a.take n) :=
  fun x hx => h x (List.mem_of_mem_take hx)

theorem Bytes.drop {a : List Nat} (h : Bytes a) (n : Nat) : Bytes (a.drop n) :=
  fun x hx => h x (List.mem_of_mem_drop hx)

/-! ## `le` / `ofLe` -/

theorem le_zero (v : Nat) : le 0 v = [] := rfl

theorem le_succ (n v : Nat) : le (n + 1) v = v % 256 :: le n (v / 256) := by
  unfold le
  rw [List.range_succ_eq_map, List.map_cons, List.map_map]
  congr 1
  · simp
  · apply List.map_congr_left
    intro i _
    simp only [Function.comp, Nat.pow_succ, Nat.succ_eq_add_one]
    rw [Nat.mul_comm, Nat.div_div_eq_div_mul]

theorem le_length (n v : Nat) : (le n v).length = n := by
  simp [le]

theorem le_bytes (n v : Nat) : Bytes (le n v) := by
  intro x hx
  simp only [le, List.mem_map] at hx
  obtain ⟨i, _, rfl⟩ := hx
  exact Nat.mod_lt _ (by decide)

theorem ofLe_cons (b : Nat) (bs : List Nat) : ofLe (b :: bs) = b + 256 * ofLe bs := rfl

theorem ofLe_le (n v : Nat) (hv : v < 256 ^ n) : ofLe (le n v) = v := by
  induction n generalizing v with
  | zero =>
    have h0 : v = 0 := by simp only [Nat.pow_zero] at hv; omega
    subst h0; rfl
  | succ n ih =>
    rw [le_succ, ofLe_cons, ih (v / 256) (by rw [Nat.pow_succ] at hv; omega)]
    omega

theorem le_ofLe (n : Nat) (bs : List Nat) (hb : Bytes bs) (hl : bs.length = n) : le n (ofLe bs) = bs := by
  induction bs generalizing n with
  | nil => subst hl; rfl
  | cons b bs ih =>
    subst hl
    have hb0 : b < 256 := hb b (List.mem_cons_self ..)
    have hbs : Bytes bs := fun x hx => hb x (List.mem_cons_of_mem _ hx)
    rw [List.length_cons, le_succ, ofLe_cons]
    have h1 : (b + 256 * ofLe bs) % 256 = b := by omega
    have h2 : (b + 256 * ofLe bs) / 256 = ofLe bs := by omega
    rw [h1, h2, ih bs.length hbs rfl]

theorem ofLe_lt (bs : List Nat) (hb : Bytes bs) : ofLe bs < 256 ^ bs.length := by
  induction bs with
  | nil => simp [ofLe]
  | cons b bs ih =>
    have hb0 : b < 256 := hb b (List.mem_cons_self ..)
    have hbs : Bytes bs := fun x hx => hb x (List.mem_cons_of_mem _ hx)
    have := ih hbs
    rw [ofLe_cons, List.length_cons, Nat.pow_succ]
    omega

/-! ## `crc32` fits 32 bits (on bytes) -/

theorem crcStep_lt (poly : Nat) (hp : poly < 2 ^ 32) (c n : Nat) (hc : c < 2 ^ 32) :
    crcStep poly c n < 2 ^ 32 := by
  induction n generalizing c with
  | zero => exact hc
  | succ n ih =>
    unfold crcStep
    apply ih
    split
    · exact Nat.xor_lt_two_pow (by omega) hp
    · omega

theorem crc32_lt (bs : List Nat) (hb : Bytes bs) : crc32 bs < 2 ^ 32 := by
  unfold crc32
  apply Nat.xor_lt_two_pow _ (by decide)
  have : ∀ (bs : List Nat) (c : Nat), Bytes bs → c < 2 ^ 32 →
      bs.foldl (crcByte 0xEDB88320) c < 2 ^ 32 := by
    intro bs
    induction bs with
    | nil => intro c _ hc; exact hc
    | cons b bs ih =>
      intro c hb hc
      rw [List.foldl_cons]
      apply ih
      · exact fun x hx => hb x (List.mem_cons_of_mem _ hx)
      · unfold crcByte
        apply crcStep_lt _ (by decide)
        have hb0 : b < 256 := hb b (List.mem_cons_self ..)
        exact Nat.xor_lt_two_pow hc (by omega)
  exact this bs _ hb (by decide)

/-! ## Unfolding the member loop -/

/-- the code after an intact magic -/
def afterMagic (fuel : Nat) (inp1 : List Nat) (total : Nat) (acc : List Nat) (n : List Member) (cap : Nat) : Out :=
  match inp1 with
  | [] => .err .eof
  | ver :: inp2 =>
    if ver ≠ Consts.LZIP_VERSION then .err .invalidData else
    match inp2 with
    | [] => .err .eof
    | db :: inp3 =>
      match Lzip.decodeDict db with
      | none => .err .invalidData
      | some dict =>
        let dictBuf := lzmaReaderDictBuf dict none 0
        match decodeRaw lzipParams dictBuf #[] none inp3 (cap - acc.length) with
        | .capped => .capped
        | .err e => .err e
        | .ok out consumed _ =>
          let inp4 := inp3.drop consumed
          if inp4.length < 20 then .err .eof else
          let crc := ofLe (inp4.take 4)
          let dsize := ofLe ((inp4.drop 4).take 8)
          let msize := ofLe ((inp4.drop 12).take 8)
          let data := out.toList
          if crc ≠ crc32 data then .err .invalidData
          else if dsize ≠ data.length then .err .invalidData
          else if msize ≠ 6 + consumed + 20 then .err .invalidData
          else members fuel false (inp4.drop 20) total (acc ++ data)
            ({ dictByte := db, lzma := inp3.take consumed, data } :: n) cap

theorem members_succ (fuel : Nat) (first : Bool) (inp : List Nat) (total : Nat) (acc : List Nat)
    (n : List Member) (cap : Nat) :
    members (fuel + 1) first inp total acc n cap =
      if (inp.take 4).isEmpty then .ok acc (total - (inp.drop 4).length) n
      else if inp.take 4 ≠ Consts.LZIP_MAGIC then
        (if first then .err .invalidData
         else if (inp.take 4).isPrefixOf Consts.LZIP_MAGIC then .err .eof
         else .ok acc (total - (inp.drop 4).length) n)
      else afterMagic fuel (inp.drop 4) total acc n cap := by
  rfl

theorem members_magic (fuel : Nat) (first : Bool) (inp1 : List Nat) (total : Nat) (acc : List Nat)
    (n : List Member) (cap : Nat) :
    members (fuel + 1) first (Consts.LZIP_MAGIC ++ inp1) total acc n cap = afterMagic fuel inp1 total acc n cap := by
  rw [members_succ]
  have h1 : (Consts.LZIP_MAGIC ++ inp1).take 4 = Consts.LZIP_MAGIC := List.take_left' rfl
  have h2 : (Consts.LZIP_MAGIC ++ inp1).drop 4 = inp1 := List.drop_left' rfl
  rw [h1, h2]
  rfl

/-- what the LZMA codec has to provide for one member (discharged elsewhere by the LZMA round-trip theorem): the raw
    LZMA stream `lzma` (with end marker) followed by ANY bytes decodes to `data`, consuming exactly `lzma` -/
def PayloadOk (dictBuf : Nat) (lzma data : List Nat) : Prop :=
  ∀ (rest : List Nat) (cap : Nat), data.length ≤ cap →
    ∃ parse, decodeRaw lzipParams dictBuf #[] none (lzma ++ rest) cap = .ok data.toArray lzma.length parse

/-- the hypotheses on one written member `(dictByte, lzma, data)` -/
def MemberOk (m : Nat × List Nat × List Nat) : Prop :=
  ∃ dict, Lzip.decodeDict m.1 = some dict ∧ PayloadOk (lzmaReaderDictBuf dict none 0) m.2.1 m.2.2 ∧
    Bytes m.2.2 ∧ m.2.2.length < 2^64 ∧ m.2.1.length + 26 < 2^64

/-- one loop iteration over a well-formed member -/
theorem members_step (fuel : Nat) (first : Bool) (db : Nat) (lzma data rest : List Nat) (total : Nat)
    (acc : List Nat) (n : List Member) (cap : Nat) (hm : MemberOk (db, lzma, data))
    (hcap : acc.length + data.length ≤ cap) :
    members (fuel + 1) first (memberBytes db lzma data ++ rest) total acc n cap =
      members fuel false rest total (acc ++ data) ({ dictByte := db, lzma := lzma, data := data } :: n) cap := by
  obtain ⟨dict, hd, hp, hb, hl1, hl2⟩ := hm
  simp only at hd hp hb hl1 hl2
  obtain ⟨parse, hp⟩ := hp (le 4 (crc32 data) ++ (le 8 data.length ++ (le 8 (6 + lzma.length + 20) ++ rest)))
    (cap - acc.length) (by omega)
  have e : memberBytes db lzma data ++ rest = Consts.LZIP_MAGIC ++ (Consts.LZIP_VERSION :: db ::
      (lzma ++ (le 4 (crc32 data) ++ (le 8 data.length ++ (le 8 (6 + lzma.length + 20) ++ rest))))) := by
    simp [memberBytes]
  rw [e, members_magic]
  simp only [afterMagic, ne_eq, not_true_eq_false, if_false, hd, hp]
  have v1 : ofLe (le 4 (crc32 data)) = crc32 data :=
    ofLe_le 4 _ (Nat.lt_of_lt_of_le (crc32_lt data hb) (by decide))
  have v2 : ofLe (le 8 data.length) = data.length :=
    ofLe_le 8 _ (Nat.lt_of_lt_of_le hl1 (by decide))
  have v3 : ofLe (le 8 (6 + lzma.length + 20)) = 6 + lzma.length + 20 :=
    ofLe_le 8 _ (Nat.lt_of_lt_of_le (show 6 + lzma.length + 20 < 2 ^ 64 by omega) (by decide))
  have l1 := le_length 4 (crc32 data)
  have l2 := le_length 8 data.length
  have l3 := le_length 8 (6 + lzma.length + 20)
  generalize le 4 (crc32 data) = t1 at *
  generalize le 8 data.length = t2 at *
  generalize le 8 (6 + lzma.length + 20) = t3 at *
  rw [List.drop_left, List.take_left]
  have a1 : (t1 ++ (t2 ++ (t3 ++ rest))).take 4 = t1 := List.take_left' l1
  have a2 : (t1 ++ (t2 ++ (t3 ++ rest))).drop 4 = t2 ++ (t3 ++ rest) := List.drop_left' l1
  have a3 : (t2 ++ (t3 ++ rest)).take 8 = t2 := List.take_left' l2
  have a4 : (t1 ++ (t2 ++ (t3 ++ rest))).drop 12 = t3 ++ rest := by
    rw [← List.append_assoc]; exact List.drop_left' (by simp [l1, l2])
  have a5 : (t3 ++ rest).take 8 = t3 := List.take_left' l3
  have a6 : (t1 ++ (t2 ++ (t3 ++ rest))).drop 20 = rest := by
    rw [← List.append_assoc, ← List.append_assoc]; exact List.drop_left' (by simp [l1, l2, l3])
  have a7 : ¬ (t1 ++ (t2 ++ (t3 ++ rest))).length < 20 := by
    simp only [List.length_append, l1, l2, l3]; omega
  rw [a1, a2, a3, a4, a5, a6, v1, v2, v3]
  simp only [a7, not_true_eq_false, if_false]

/-- bytes the writer produces for a list of members `(dictByte, lzma, data)` -/
def fileBytes (ms : List (Nat × List Nat × List Nat)) : List Nat :=
  (ms.map fun m => memberBytes m.1 m.2.1 m.2.2).flatten

/-- the decoded data of a list of members -/
def fileData (ms : List (Nat × List Nat × List Nat)) : List Nat := (ms.map (·.2.2)).flatten

/-- the member records the reader keeps (most recent first) -/
def fileRecs (ms : List (Nat × List Nat × List Nat)) : List Member :=
  (ms.map fun m => ({ dictByte := m.1, lzma := m.2.1, data := m.2.2 } : Member)).reverse

theorem memberBytes_length (db : Nat) (lzma data : List Nat) :
    (memberBytes db lzma data).length = lzma.length + 26 := by
  simp [memberBytes, le_length, Consts.LZIP_MAGIC]

/-- the writer's layout consists of bytes (so `decode_accept` applies to written files) -/
theorem memberBytes_bytes (db : Nat) (lzma data : List Nat) (hdb : db < 256) (hl : Bytes lzma) :
    Bytes (memberBytes db lzma data) := by
  unfold memberBytes
  refine Bytes.append (Bytes.append (Bytes.append (Bytes.append (Bytes.append ?_ ?_) hl) (le_bytes _ _))
    (le_bytes _ _)) (le_bytes _ _)
  · unfold Bytes Consts.LZIP_MAGIC; decide
  · intro x hx
    simp only [List.mem_cons, List.not_mem_nil, or_false] at hx
    rcases hx with rfl | rfl
    · decide
    · exact hdb

theorem fileBytes_length_ge (ms : List (Nat × List Nat × List Nat)) : 26 * ms.length ≤ (fileBytes ms).length := by
  induction ms with
  | nil => simp
  | cons m ms ih =>
    have : fileBytes (m :: ms) = memberBytes m.1 m.2.1 m.2.2 ++ fileBytes ms := by simp [fileBytes]
    rw [this, List.length_append, memberBytes_length, List.length_cons]; omega

/-- **Members are skipped one by one**: reading a sequence of well-formed members followed by ANY `tail` is the same
    as continuing the loop on `tail` with the members' data appended and the members recorded. -/
theorem members_prefix (ms : List (Nat × List Nat × List Nat)) (hm : ∀ m ∈ ms, MemberOk m)
    (fuel : Nat) (first : Bool) (tail : List Nat) (total : Nat) (acc : List Nat) (n : List Member) (cap : Nat)
    (hcap : acc.length + (fileData ms).length ≤ cap) :
    members (fuel + ms.length) first (fileBytes ms ++ tail) total acc n cap =
      members fuel (first && ms.isEmpty) tail total (acc ++ fileData ms) (fileRecs ms ++ n) cap := by
  induction ms generalizing first acc n with
  | nil => simp [fileBytes, fileData, fileRecs]
  | cons m ms ih =>
    obtain ⟨db, lzma, data⟩ := m
    have hd : fileData ((db, lzma, data) :: ms) = data ++ fileData ms := by simp [fileData]
    have hb : fileBytes ((db, lzma, data) :: ms) = memberBytes db lzma data ++ fileBytes ms := by simp [fileBytes]
    have hr : fileRecs ((db, lzma, data) :: ms) ++ n =
        fileRecs ms ++ ({ dictByte := db, lzma := lzma, data := data } :: n) := by simp [fileRecs]
    rw [hd, List.length_append] at hcap
    rw [hd, hb, hr, List.length_cons, ← Nat.add_assoc, List.append_assoc,
      members_step _ _ _ _ _ _ _ _ _ _ (hm _ (List.mem_cons_self ..)) (by omega),
      ih (fun m h => hm m (List.mem_cons_of_mem _ h)) false (acc ++ data) _
        (by rw [List.length_append]; omega)]
    simp

/-- a list of exactly four bytes is a prefix of the magic only if it is the magic -/
theorem isPrefixOf_magic_of_length {x : List Nat} (hl : x.length = 4) (hx : x ≠ Consts.LZIP_MAGIC) :
    x.isPrefixOf Consts.LZIP_MAGIC = false := by
  cases h : x.isPrefixOf Consts.LZIP_MAGIC with
  | false => rfl
  | true =>
    exfalso
    have hp : x <+: Consts.LZIP_MAGIC := List.isPrefixOf_iff_prefix.mp h
    obtain ⟨t, ht⟩ := hp
    have hlen := congrArg List.length ht
    rw [List.length_append, hl] at hlen
    have : t = [] := by
      cases t with
      | nil => rfl
      | cons a t => simp [Consts.LZIP_MAGIC] at hlen
    rw [this, List.append_nil] at ht
    exact hx ht

/-- trailing data that the reader ignores: it does not start with the magic (`t.take 4 ≠ LZIP_MAGIC`, stated
    separately) and it is not a non-empty proper prefix of the magic at the end of the input.  Decidable; holds for
    `[]` (`trailingOk_nil`) and for every trailing of at least 4 bytes that does not start with the magic
    (`trailingOk_long`). -/
def TrailingOk (t : List Nat) : Prop := t = [] ∨ (t.take 4).isPrefixOf Consts.LZIP_MAGIC = false

instance (t : List Nat) : Decidable (TrailingOk t) := by unfold TrailingOk; infer_instance

theorem trailingOk_nil : TrailingOk [] := Or.inl rfl

theorem trailingOk_long {t : List Nat} (hl : 4 ≤ t.length) (ht : t.take 4 ≠ Consts.LZIP_MAGIC) : TrailingOk t :=
  Or.inr (isPrefixOf_magic_of_length (by rw [List.length_take]; omega) ht)

/-- the loop on input that does not start with the magic (and is not a fragment of it), after at least one member -/
theorem members_stop (fuel : Nat) (inp : List Nat) (total : Nat) (acc : List Nat) (n : List Member) (cap : Nat)
    (ht : inp.take 4 ≠ Consts.LZIP_MAGIC) (ht2 : TrailingOk inp) :
    members (fuel + 1) false inp total acc n cap = .ok acc (total - (inp.drop 4).length) n := by
  rw [members_succ]
  rcases ht2 with rfl | h
  · rfl
  · simp only [ne_eq, ht, not_false_eq_true, if_true, Bool.false_eq_true, if_false, h, ite_self]

/-- the loop on input that ends inside the magic of a further member -/
theorem members_magic_fragment (fuel : Nat) (inp : List Nat) (total : Nat) (acc : List Nat) (n : List Member)
    (cap : Nat) (hne : inp ≠ []) (ht : inp.take 4 ≠ Consts.LZIP_MAGIC)
    (hp : (inp.take 4).isPrefixOf Consts.LZIP_MAGIC = true) :
    members (fuel + 1) false inp total acc n cap = .err .eof := by
  rw [members_succ]
  have : (inp.take 4).isEmpty = false := by
    cases inp with
    | nil => exact absurd rfl hne
    | cons a t => rfl
  simp only [this, Bool.false_eq_true, if_false, ne_eq, ht, not_false_eq_true, if_true, hp]

/-- round trip with the member records made explicit (and without the unused `Bytes lzma` hypothesis) -/
theorem lzip_roundtrip_recs (ms : List (Nat × List Nat × List Nat)) (hne : ms ≠ []) (hm : ∀ m ∈ ms, MemberOk m)
    (trailing : List Nat) (ht : trailing.take 4 ≠ Consts.LZIP_MAGIC) (ht2 : TrailingOk trailing)
    (cap : Nat) (hcap : (fileData ms).length ≤ cap) :
    decode (fileBytes ms ++ trailing) cap =
      .ok (fileData ms) ((fileBytes ms).length + min 4 trailing.length) (fileRecs ms) := by
  have hlen := fileBytes_length_ge ms
  have hfuel : (fileBytes ms ++ trailing).length + 2 =
      (((fileBytes ms ++ trailing).length - ms.length) + 1) + 1 + ms.length := by
    rw [List.length_append]; omega
  have hms : ms.isEmpty = false := by cases ms with | nil => exact absurd rfl hne | cons _ _ => rfl
  unfold decode
  rw [hfuel, members_prefix ms hm _ _ _ _ _ _ _ (by simpa using hcap), hms, Bool.and_false,
    members_stop _ _ _ _ _ _ ht ht2]
  simp only [List.nil_append, List.append_nil, List.length_append, List.length_drop]
  congr 1
  omega

/-- round trip of a file without trailing data -/
theorem lzip_roundtrip_recs_nil (ms : List (Nat × List Nat × List Nat)) (hne : ms ≠ []) (hm : ∀ m ∈ ms, MemberOk m)
    (cap : Nat) (hcap : (fileData ms).length ≤ cap) :
    decode (fileBytes ms) cap = .ok (fileData ms) (fileBytes ms).length (fileRecs ms) := by
  have h := lzip_roundtrip_recs ms hne hm [] (by decide) trailingOk_nil cap hcap
  simpa using h

/-- **LZIP round trip / concatenation (C02, C12, C16)**: any sequence of members, each written with a dictionary byte
    the reader accepts and a payload the codec round-trips, followed by trailing bytes that do NOT start with the magic
    (or by nothing), decodes to the concatenation of the members' data. The reader consumes all members plus at most the
    4 bytes it has to look at to see that no further member follows. -/
theorem lzip_roundtrip (ms : List (Nat × List Nat × List Nat))     -- (dictByte, lzma stream, data)
    (hne : ms ≠ [])
    (hm : ∀ m ∈ ms, ∃ dict, Lzip.decodeDict m.1 = some dict ∧ PayloadOk (lzmaReaderDictBuf dict none 0) m.2.1 m.2.2 ∧
                     Bytes m.2.1 ∧ Bytes m.2.2 ∧ m.2.2.length < 2^64 ∧ m.2.1.length + 26 < 2^64)
    (trailing : List Nat) (ht : trailing.take 4 ≠ Consts.LZIP_MAGIC) (ht2 : TrailingOk trailing)
    (cap : Nat) (hcap : ((ms.map (·.2.2)).flatten).length ≤ cap) :
    ∃ recs, LzipFile.decode ((ms.map fun m => memberBytes m.1 m.2.1 m.2.2).flatten ++ trailing) cap
      = .ok (ms.map (·.2.2)).flatten (((ms.map fun m => memberBytes m.1 m.2.1 m.2.2).flatten).length + min 4 trailing.length) recs := by
  have hm' : ∀ m ∈ ms, MemberOk m := by
    intro m h
    obtain ⟨dict, h1, h2, _, h3, h4, h5⟩ := hm m h
    exact ⟨dict, h1, h2, h3, h4, h5⟩
  exact ⟨fileRecs ms, lzip_roundtrip_recs ms hne hm' trailing ht ht2 cap hcap⟩

/-! ## C04: rejection of damaged input -/

/-- non-LZIP input is an error, not an empty file -/
theorem decode_not_lzip (inp : List Nat) (cap : Nat) (hne : inp ≠ []) (hmagic : inp.take 4 ≠ Consts.LZIP_MAGIC) :
    decode inp cap = .err .invalidData := by
  unfold decode
  rw [members_succ]
  have : (inp.take 4).isEmpty = false := by
    cases inp with
    | nil => exact absurd rfl hne
    | cons a t => rfl
  simp only [this, Bool.false_eq_true, if_false, ne_eq, hmagic, not_false_eq_true, if_true]

/-- the behaviour on empty input (the model's and the code's): an empty file -/
theorem decode_empty (cap : Nat) : decode [] cap = .ok [] 0 [] := rfl

/-- the loop after an intact magic, by header shape -/
theorem afterMagic_nil (fuel total : Nat) (acc : List Nat) (n : List Member) (cap : Nat) :
    afterMagic fuel [] total acc n cap = .err .eof := rfl

theorem afterMagic_version (fuel : Nat) (v : Nat) (rest : List Nat) (total : Nat) (acc : List Nat) (n : List Member)
    (cap : Nat) (hv : v ≠ 1) : afterMagic fuel (v :: rest) total acc n cap = .err .invalidData := by
  simp only [afterMagic, Consts.LZIP_VERSION, ne_eq, hv, not_false_eq_true, if_true]

theorem afterMagic_nodict (fuel total : Nat) (acc : List Nat) (n : List Member) (cap : Nat) :
    afterMagic fuel [1] total acc n cap = .err .eof := rfl

theorem afterMagic_dict (fuel : Nat) (db : Nat) (rest : List Nat) (total : Nat) (acc : List Nat) (n : List Member)
    (cap : Nat) (hd : Lzip.decodeDict db = none) :
    afterMagic fuel (1 :: db :: rest) total acc n cap = .err .invalidData := by
  simp only [afterMagic, Consts.LZIP_VERSION, ne_eq, not_true_eq_false, if_false, hd]

theorem decode_magic (inp1 : List Nat) (cap : Nat) :
    decode (Consts.LZIP_MAGIC ++ inp1) cap =
      afterMagic ((Consts.LZIP_MAGIC ++ inp1).length + 1) inp1 (Consts.LZIP_MAGIC ++ inp1).length [] [] cap := by
  unfold decode
  rw [members_magic]

/-- damaged but recognisable header: wrong version byte -/
theorem decode_bad_version (v : Nat) (rest : List Nat) (cap : Nat) (hv : v ≠ 1) :
    decode (Consts.LZIP_MAGIC ++ v :: rest) cap = .err .invalidData := by
  rw [decode_magic, afterMagic_version _ _ _ _ _ _ _ hv]

/-- damaged but recognisable header: dictionary byte the format does not allow -/
theorem decode_bad_dict (db : Nat) (rest : List Nat) (cap : Nat) (hd : Lzip.decodeDict db = none) :
    decode (Consts.LZIP_MAGIC ++ [1, db] ++ rest) cap = .err .invalidData := by
  rw [List.append_assoc, decode_magic]
  exact afterMagic_dict _ _ _ _ _ _ _ hd

/-- the input ends inside the 6-byte header after an intact magic (and, if present, an intact version byte) -/
theorem decode_truncated_header (hdr : List Nat) (cap : Nat) (hh : hdr = [] ∨ hdr = [1]) :
    decode (Consts.LZIP_MAGIC ++ hdr) cap = .err .eof := by
  rw [decode_magic]
  rcases hh with rfl | rfl <;> rfl

/-- generally: an input that ends inside the header after an intact magic is never accepted -/
theorem decode_short_header (hdr : List Nat) (cap : Nat) (hl : hdr.length < 2) :
    decode (Consts.LZIP_MAGIC ++ hdr) cap = .err .eof ∨ decode (Consts.LZIP_MAGIC ++ hdr) cap = .err .invalidData := by
  match hdr, hl with
  | [], _ => exact Or.inl (decode_truncated_header [] cap (Or.inl rfl))
  | [v], _ =>
    by_cases hv : v = 1
    · subst hv; exact Or.inl (decode_truncated_header [1] cap (Or.inr rfl))
    · exact Or.inr (decode_bad_version v [] cap hv)

/-- what `decode` does after a non-empty sequence of valid members: continue the loop on the rest -/
theorem decode_after_members (ms : List (Nat × List Nat × List Nat)) (hne : ms ≠ []) (hm : ∀ m ∈ ms, MemberOk m)
    (tail : List Nat) (cap : Nat) (hcap : (fileData ms).length ≤ cap) :
    decode (fileBytes ms ++ tail) cap =
      members ((fileBytes ms ++ tail).length - ms.length + 2) false tail (fileBytes ms ++ tail).length
        (fileData ms) (fileRecs ms) cap := by
  have hlen := fileBytes_length_ge ms
  have hfuel : (fileBytes ms ++ tail).length + 2 =
      ((fileBytes ms ++ tail).length - ms.length + 2) + ms.length := by
    rw [List.length_append]; omega
  have hms : ms.isEmpty = false := by cases ms with | nil => exact absurd rfl hne | cons _ _ => rfl
  unfold decode
  rw [hfuel, members_prefix ms hm _ _ _ _ _ _ _ (by simpa using hcap), hms, Bool.and_false]
  simp only [List.nil_append, List.append_nil]

/-- a damaged header of a LATER member is an error, not a silent stop: wrong version -/
theorem decode_later_bad_version (ms : List (Nat × List Nat × List Nat)) (hne : ms ≠ []) (hm : ∀ m ∈ ms, MemberOk m)
    (v : Nat) (rest : List Nat) (hv : v ≠ 1) (cap : Nat) (hcap : (fileData ms).length ≤ cap) :
    decode (fileBytes ms ++ (Consts.LZIP_MAGIC ++ v :: rest)) cap = .err .invalidData := by
  rw [decode_after_members ms hne hm _ _ hcap, members_magic, afterMagic_version _ _ _ _ _ _ _ hv]

/-- … bad dictionary byte in a later member -/
theorem decode_later_bad_dict (ms : List (Nat × List Nat × List Nat)) (hne : ms ≠ []) (hm : ∀ m ∈ ms, MemberOk m)
    (db : Nat) (rest : List Nat) (hd : Lzip.decodeDict db = none) (cap : Nat) (hcap : (fileData ms).length ≤ cap) :
    decode (fileBytes ms ++ (Consts.LZIP_MAGIC ++ [1, db] ++ rest)) cap = .err .invalidData := by
  rw [decode_after_members ms hne hm _ _ hcap, List.append_assoc, members_magic]
  exact afterMagic_dict _ _ _ _ _ _ _ hd

/-- … later member truncated inside its header -/
theorem decode_later_truncated_header (ms : List (Nat × List Nat × List Nat)) (hne : ms ≠ [])
    (hm : ∀ m ∈ ms, MemberOk m) (hdr : List Nat) (hh : hdr = [] ∨ hdr = [1]) (cap : Nat)
    (hcap : (fileData ms).length ≤ cap) :
    decode (fileBytes ms ++ (Consts.LZIP_MAGIC ++ hdr)) cap = .err .eof := by
  rw [decode_after_members ms hne hm _ _ hcap, members_magic]
  rcases hh with rfl | rfl <;> rfl

/-! ## C04: acceptance implies a verified trailer -/

/-- inversion of one accepted loop iteration -/
theorem afterMagic_ok {fuel : Nat} {inp1 : List Nat} {total : Nat} {acc : List Nat} {n : List Member} {cap : Nat}
    {data : List Nat} {consumed : Nat} {recs : List Member}
    (h : afterMagic fuel inp1 total acc n cap = .ok data consumed recs) :
    ∃ db inp3 dict out c parse, inp1 = 1 :: db :: inp3 ∧ Lzip.decodeDict db = some dict ∧
      decodeRaw lzipParams (lzmaReaderDictBuf dict none 0) #[] none inp3 (cap - acc.length) = .ok out c parse ∧
      20 ≤ (inp3.drop c).length ∧
      ofLe ((inp3.drop c).take 4) = crc32 out.toList ∧
      ofLe (((inp3.drop c).drop 4).take 8) = out.toList.length ∧
      ofLe (((inp3.drop c).drop 12).take 8) = 6 + c + 20 ∧
      members fuel false ((inp3.drop c).drop 20) total (acc ++ out.toList)
        ({ dictByte := db, lzma := inp3.take c, data := out.toList } :: n) cap = .ok data consumed recs := by
  unfold afterMagic at h
  split at h
  · cases h
  · rename_i ver inp2
    split at h
    · cases h
    · rename_i hver
      split at h
      · cases h
      · rename_i db inp3
        split at h
        · cases h
        · rename_i dict hd
          simp only at h
          split at h
          · cases h
          · cases h
          · rename_i out c parse hdec
            split at h
            · cases h
            · rename_i hlen
              split at h
              · cases h
              · rename_i hcrc
                split at h
                · cases h
                · rename_i hds
                  split at h
                  · cases h
                  · rename_i hms
                    simp only [ne_eq, Decidable.not_not] at hver hcrc hds hms
                    subst hver
                    exact ⟨db, inp3, dict, out, c, parse, rfl, hd, hdec, by omega, hcrc, hds, hms, h⟩

theorem trailer_split (x : List Nat) (hb : Bytes x) (hl : 20 ≤ x.length) :
    x = le 4 (ofLe (x.take 4)) ++ le 8 (ofLe ((x.drop 4).take 8)) ++ le 8 (ofLe ((x.drop 12).take 8)) ++ x.drop 20 := by
  rw [le_ofLe 4 _ (hb.take 4) (by rw [List.length_take]; omega),
    le_ofLe 8 _ ((hb.drop 4).take 8) (by rw [List.length_take, List.length_drop]; omega),
    le_ofLe 8 _ ((hb.drop 12).take 8) (by rw [List.length_take, List.length_drop]; omega)]
  have e1 : x.drop 12 = (x.drop 4).drop 8 := by rw [List.drop_drop]
  have e2 : x.drop 20 = ((x.drop 4).drop 8).drop 8 := by rw [List.drop_drop, List.drop_drop]
  rw [e2, e1, List.append_assoc, List.append_assoc, List.take_append_drop, List.take_append_drop,
    List.take_append_drop]

theorem reassemble_cons (m : Member) (ms : List Member) :
    reassemble (m :: ms) = memberBytes m.dictByte m.lzma m.data ++ reassemble ms := by
  simp [reassemble]

/-- an accepted member's header byte is valid and its LZMA stream (followed by whatever followed it in the input)
    decoded to its data, consuming exactly the recorded stream -/
def MemberDecodes (m : Member) : Prop :=
  ∃ dict rest cap parse, Lzip.decodeDict m.dictByte = some dict ∧
    decodeRaw lzipParams (lzmaReaderDictBuf dict none 0) #[] none (m.lzma ++ rest) cap
      = .ok m.data.toArray m.lzma.length parse

/-- generalised acceptance lemma for the member loop -/
theorem members_accept (fuel : Nat) (first : Bool) (inp : List Nat) (total : Nat) (acc : List Nat) (n : List Member)
    (cap : Nat) (data : List Nat) (consumed : Nat) (recs : List Member) (hb : Bytes inp)
    (h : members fuel first inp total acc n cap = .ok data consumed recs) :
    ∃ new tail, recs = new ++ n ∧ data = acc ++ (new.reverse.map (·.data)).flatten ∧
      inp = reassemble new.reverse ++ tail ∧ tail.take 4 ≠ Consts.LZIP_MAGIC ∧ TrailingOk tail ∧
      consumed = total - (tail.drop 4).length ∧ (first = true → new = [] → inp = []) ∧
      ∀ m ∈ new, MemberDecodes m := by
  induction fuel generalizing first inp acc n with
  | zero => cases h
  | succ fuel ih =>
    rw [members_succ] at h
    split at h
    · rename_i hemp
      cases h
      have hnil : inp = [] := by
        cases inp with
        | nil => rfl
        | cons a t => cases hemp
      refine ⟨[], inp, rfl, by simp, by simp [reassemble], ?_, Or.inl hnil, rfl, ?_, by simp⟩
      · intro hc; rw [hc] at hemp; cases hemp
      · intro _ _
        cases inp with
        | nil => rfl
        | cons a t => cases hemp
    · split at h
      · rename_i hmag
        cases first with
        | true => cases h
        | false =>
          simp only [Bool.false_eq_true, if_false] at h
          split at h
          · cases h
          · rename_i hpre
            cases h
            exact ⟨[], inp, rfl, by simp, by simp [reassemble], hmag, Or.inr (Bool.eq_false_iff.mpr hpre), rfl,
              (fun h => by cases h), by simp⟩
      · rename_i hmag
        simp only [ne_eq, Decidable.not_not] at hmag
        obtain ⟨db, inp3, dict, out, c, parse, hinp1, hd, hdec, hlen, hcrc, hds, hms, hrec⟩ := afterMagic_ok h
        have hinp : inp = Consts.LZIP_MAGIC ++ (1 :: db :: inp3) := by
          rw [← hmag, ← hinp1, List.take_append_drop]
        have hb3 : Bytes inp3 := by
          rw [hinp] at hb
          have := (Bytes.of_append hb).2
          exact fun x hx => this x (List.mem_cons_of_mem _ (List.mem_cons_of_mem _ hx))
        have hb4 : Bytes (inp3.drop c) := hb3.drop c
        obtain ⟨new, tail, hr, hdat, hin, htl, htl2, hcons, _, hdecs⟩ := ih false _ _ _ (hb4.drop 20) hrec
        have hc : c ≤ inp3.length := by rw [List.length_drop] at hlen; omega
        have hlz : (inp3.take c).length = c := by rw [List.length_take]; omega
        refine ⟨new ++ [{ dictByte := db, lzma := inp3.take c, data := out.toList }], tail, ?_, ?_, ?_, htl, htl2, hcons,
          ?_, ?_⟩
        · rw [hr]; simp
        · rw [hdat]; simp
        · rw [List.reverse_append, List.reverse_singleton, List.singleton_append, reassemble_cons]
          simp only
          rw [hinp]
          conv => lhs; rw [← List.take_append_drop c inp3, trailer_split (inp3.drop c) hb4 hlen, hin, hcrc, hds, hms]
          simp [memberBytes, hlz, Consts.LZIP_VERSION]
        · intro _ hnew
          exact absurd hnew (by simp)
        · intro m hmem
          rcases List.mem_append.1 hmem with h | h
          · exact hdecs m h
          · rw [List.mem_singleton] at h
            subst h
            refine ⟨dict, inp3.drop c, cap - acc.length, parse, hd, ?_⟩
            simp only [List.take_append_drop, hlz, Array.toArray_toList]
            exact hdec

/-- **C04: acceptance implies verified members.** If the reader accepts a byte input, then the decoded data is the
    concatenation of the recorded members' data, and the input IS what the writer model lays out for the recorded
    members (magic, version, dictionary byte, the recorded LZMA stream, and a trailer holding `crc32 data`,
    `data.length` and `6 + lzma.length + 20` in little endian), followed by a `tail` that does not start with the magic;
    `consumed` covers the members plus the at most 4 bytes looked at; nothing is accepted without a member except the
    empty input; and every recorded stream really decoded to the recorded data. -/
theorem decode_accept (inp : List Nat) (cap : Nat) (data : List Nat) (consumed : Nat) (recs : List Member)
    (hb : Bytes inp) (h : decode inp cap = .ok data consumed recs) :
    data = (recs.reverse.map (·.data)).flatten ∧
    ∃ tail, inp = reassemble recs.reverse ++ tail ∧ tail.take 4 ≠ Consts.LZIP_MAGIC ∧
      consumed = (reassemble recs.reverse).length + min 4 tail.length ∧
      (recs = [] → inp = []) ∧ ∀ m ∈ recs, MemberDecodes m := by
  unfold decode at h
  obtain ⟨new, tail, hr, hdat, hin, htl, _, hcons, hemp, hdecs⟩ := members_accept _ _ _ _ _ _ _ _ _ _ hb h
  rw [List.append_nil] at hr
  subst hr
  refine ⟨by simpa using hdat, tail, hin, htl, ?_, hemp rfl, hdecs⟩
  rw [hcons]
  conv => lhs; rw [hin]
  rw [List.length_append, List.length_drop]
  omega

/-- … and what follows the accepted members is trailing data in the sense of `TrailingOk`: it does not start with the
    magic and is not a fragment (non-empty proper prefix) of it -/
theorem decode_accept_trailing (inp : List Nat) (cap : Nat) (data : List Nat) (consumed : Nat) (recs : List Member)
    (hb : Bytes inp) (h : decode inp cap = .ok data consumed recs) :
    ∃ tail, inp = reassemble recs.reverse ++ tail ∧ tail.take 4 ≠ Consts.LZIP_MAGIC ∧ TrailingOk tail := by
  unfold decode at h
  obtain ⟨new, tail, hr, _, hin, htl, htl2, _⟩ := members_accept _ _ _ _ _ _ _ _ _ _ hb h
  rw [List.append_nil] at hr
  subst hr
  exact ⟨tail, hin, htl, htl2⟩

theorem reassemble_append (a b : List Member) : reassemble (a ++ b) = reassemble a ++ reassemble b := by
  simp [reassemble]

/-- the trailer check spelled out: every accepted member sits in the input as header, stream, CRC-32 of the decoded
    data, decoded size and member size -/
theorem decode_accept_trailer (inp : List Nat) (cap : Nat) (data : List Nat) (consumed : Nat) (recs : List Member)
    (hb : Bytes inp) (h : decode inp cap = .ok data consumed recs) (m : Member) (hm : m ∈ recs) :
    ∃ pre post, inp = pre ++ (Consts.LZIP_MAGIC ++ [Consts.LZIP_VERSION, m.dictByte] ++ m.lzma ++
      le 4 (crc32 m.data) ++ le 8 m.data.length ++ le 8 (6 + m.lzma.length + 20)) ++ post := by
  obtain ⟨_, tail, hin, _⟩ := decode_accept inp cap data consumed recs hb h
  obtain ⟨s, t, hst⟩ := List.append_of_mem (List.mem_reverse.2 hm)
  refine ⟨reassemble s, reassemble t ++ tail, ?_⟩
  rw [hin, hst, reassemble_append, reassemble_cons]
  simp [memberBytes]

/-! ## Non-vacuity and axioms -/

section NonVacuity

/-- raw LZMA stream (lc=3, lp=0, pb=2, with end marker) of the two bytes "Hi", produced by liblzma -/
def exLzma : List Nat := [0, 36, 26, 92, 255, 255, 255, 255, 240, 0, 0, 0]
def exFile : List Nat := memberBytes 12 exLzma [72, 105] ++ memberBytes 12 exLzma [72, 105] ++ [1, 2, 3]

/-- every hypothesis of `lzip_roundtrip` other than the codec's `PayloadOk` is met by a concrete two-member file with
    trailing garbage, and the conclusion is the concrete expected result -/
example (h : PayloadOk 4096 exLzma [72, 105]) :
    ∃ recs, decode exFile 4 = .ok [72, 105, 72, 105] 79 recs := by
  have hd : Lzip.decodeDict 12 = some 4096 := by decide
  have hbuf : lzmaReaderDictBuf 4096 none 0 = 4096 := by decide
  have := lzip_roundtrip [(12, exLzma, [72, 105]), (12, exLzma, [72, 105])] (by simp)
    (by
      intro m hmem
      simp only [List.mem_cons, List.not_mem_nil, or_false, or_self] at hmem
      subst hmem
      exact ⟨4096, hd, by rw [hbuf]; exact h, by unfold Bytes exLzma; decide, by unfold Bytes; decide,
        by simp, by simp [exLzma]⟩)
    [1, 2, 3] (by decide) (by decide) 4 (by simp)
  simpa [exFile, memberBytes, exLzma, le, Consts.LZIP_MAGIC] using this

def Out.okWith : Out → List Nat → Nat → Bool
  | .ok d c _, d', c' => d == d' && c == c'
  | _, _, _ => false

theorem Out.okWith_spec {o : Out} {d : List Nat} {c : Nat} (h : o.okWith d c = true) : ∃ r, o = .ok d c r := by
  cases o with
  | ok d' c' r => simp [Out.okWith] at h; exact ⟨r, by rw [h.1, h.2]⟩
  | err e => cases h
  | capped => cases h

/-- the model really accepts this file with exactly the result `lzip_roundtrip` predicts (kernel evaluation of the
    executable model, no axioms), so the conclusion of the theorem is attained … -/
theorem exFile_decodes : ∃ recs, decode exFile 4 = .ok [72, 105, 72, 105] 79 recs :=
  Out.okWith_spec (by decide +kernel)

/-- … and the hypotheses of `decode_accept` are satisfiable with a non-empty member list -/
example : ∃ recs tail, recs ≠ [] ∧ exFile = reassemble recs.reverse ++ tail := by
  obtain ⟨recs, h⟩ := exFile_decodes
  have hl : Bytes exLzma := by unfold Bytes exLzma; decide
  have hb : Bytes exFile :=
    Bytes.append (Bytes.append (memberBytes_bytes _ _ _ (by decide) hl) (memberBytes_bytes _ _ _ (by decide) hl))
      (by unfold Bytes; decide)
  obtain ⟨_, tail, hin, _, _, hemp, _⟩ := decode_accept _ _ _ _ _ hb h
  exact ⟨recs, tail, fun hr => by have := hemp hr; simp [exFile, memberBytes] at this, hin⟩

example : decode [76, 90, 73, 80, 0, 12, 0] 0 = .err .invalidData := decode_bad_version 0 [12, 0] 0 (by decide)
example : decode [76, 90, 73, 80, 1, 11, 0] 0 = .err .invalidData := decode_bad_dict 11 [0] 0 (by decide)
example : decode [31, 139, 8] 0 = .err .invalidData := decode_not_lzip _ _ (by simp) (by decide)

end NonVacuity

#print axioms le_length
#print axioms ofLe_le
#print axioms le_ofLe
#print axioms crc32_lt
#print axioms members_prefix
#print axioms lzip_roundtrip_recs
#print axioms lzip_roundtrip
#print axioms decode_not_lzip
#print axioms decode_empty
#print axioms decode_bad_version
#print axioms decode_bad_dict
#print axioms decode_truncated_header
#print axioms decode_short_header
#print axioms decode_later_bad_version
#print axioms decode_later_bad_dict
#print axioms decode_later_truncated_header
#print axioms members_accept
#print axioms decode_accept
#print axioms decode_accept_trailing
#print axioms lzip_roundtrip_recs_nil
#print axioms members_magic_fragment
#print axioms decode_accept_trailer
#print axioms exFile_decodes

end LzmaVerif.LzipFile
