/-
  Normal encoder: the candidates stored in `opts[]` and what they denote.
  * `groupOf` – the 1, 2 or 3 symbols a candidate (`set1` / `set2` / `set3`) stands for and the index it starts from,
    exactly as `convert_opts` + the pending path of `get_next_symbol` will hand them out;
  * `chainOf` – the whole back-pointer chain of `opts[i]` as a list of symbols;
  * `litPrice_le` – a literal never costs more than `9 · 128` (so `opts[cur + 1]` is always below `INFINITY_PRICE`);
  * validity of the candidate of every INSERTION SITE (`cand_*`): literal, short rep, long rep of every length up to
    the measured one, match of every length up to a valid one, literal + rep0, rep + literal + rep0,
    match + literal + rep0 — each is a `ChainOk` from the position and coder state of `opts[cur]`;
  * `optStateAndReps_eq` – `update_opt_state_and_reps` computes `Coder.apply` along the group of `opts[cur]`.
-/
import LzmaVerif.Proofs.EncNormalStep

namespace LzmaVerif.EncNormal
open LzmaVerif Mf Lzma Rc EncFast EncPrices
open LzmaVerif.Mf.Hc4 (Eqs byteAt_lt extendMatch_spec)

/-! ### what a candidate denotes -/

/-- the index a candidate for index `i` starts from, and the symbols it stands for -/
def groupOf (P : NormalParams) (d : Array UInt8) (p : Nat) (o : Opt) (i : Nat) : Nat × List (Sym × Nat) :=
  if o.prev1IsLiteral then
    if o.hasPrev2 then
      (o.optPrev2,
        [(symOf P d (p + o.optPrev2) o.backPrev2 (o.optPrev - 1 - o.optPrev2), o.optPrev - 1 - o.optPrev2),
         (.lit (byteAt d (p + (o.optPrev - 1))), 1),
         (symOf P d (p + o.optPrev) o.backPrev (i - o.optPrev), i - o.optPrev)])
    else
      (o.optPrev - 1,
        [(.lit (byteAt d (p + (o.optPrev - 1))), 1),
         (symOf P d (p + o.optPrev) o.backPrev (i - o.optPrev), i - o.optPrev)])
  else (o.optPrev, [(symOf P d (p + o.optPrev) o.backPrev (i - o.optPrev), i - o.optPrev)])

theorem groupOf_set1 (P : NormalParams) (d : Array UInt8) (p : Nat) (o : Opt) (price cur : Nat) (back : Int) (i : Nat) :
    groupOf P d p (o.set1 price cur back) i = (cur, [(symOf P d (p + cur) back (i - cur), i - cur)]) := by
  simp only [groupOf, Opt.set1, Bool.false_eq_true, if_false]

theorem groupOf_set2 (P : NormalParams) (d : Array UInt8) (p : Nat) (o : Opt) (price cur : Nat) (back : Int) (i : Nat) :
    groupOf P d p (o.set2 price cur back) i =
      (cur, [(.lit (byteAt d (p + cur)), 1), (symOf P d (p + (cur + 1)) back (i - (cur + 1)), i - (cur + 1))]) := by
  simp only [groupOf, Opt.set2, if_true, Bool.false_eq_true, if_false, Nat.add_sub_cancel]

theorem groupOf_set3 (P : NormalParams) (d : Array UInt8) (p : Nat) (o : Opt) (price cur : Nat) (back2 : Int)
    (len2 : Nat) (back : Int) (i : Nat) :
    groupOf P d p (o.set3 price cur back2 len2 back) i =
      (cur, [(symOf P d (p + cur) back2 len2, len2), (.lit (byteAt d (p + (cur + len2))), 1),
             (symOf P d (p + (cur + len2 + 1)) back (i - (cur + len2 + 1)), i - (cur + len2 + 1))]) := by
  simp only [groupOf, Opt.set3, if_true, Nat.add_sub_cancel]
  have : cur + len2 - cur = len2 := by omega
  rw [this]

theorem groupOf_reset (P : NormalParams) (d : Array UInt8) (p : Nat) (o : Opt) (i : Nat) :
    groupOf P d p (o.reset P) i = groupOf P d p o i := rfl

/-! ### `symOf` -/

theorem symOf_lit (P : NormalParams) (d : Array UInt8) (q len : Nat) : symOf P d q (-1) len = .lit (byteAt d q) := by
  simp only [symOf, if_true]

theorem symOf_short (P : NormalParams) (hreps : P.reps = 4) (d : Array UInt8) (q : Nat) : symOf P d q 0 1 = .shortRep := by
  simp only [symOf, hreps]
  rw [if_neg (by decide), if_pos (by decide), if_pos trivial]

theorem symOf_rep (P : NormalParams) (hreps : P.reps = 4) (d : Array UInt8) (q rep len : Nat) (hr : rep < 4)
    (hl : 2 ≤ len) : symOf P d q (rep : Int) len = .rep rep len := by
  simp only [symOf, hreps]
  rw [if_neg (by omega), if_pos (by omega), if_neg (by omega)]
  simp only [Int.toNat_natCast]

theorem symOf_mtch (P : NormalParams) (hreps : P.reps = 4) (d : Array UInt8) (q dist len : Nat) :
    symOf P d q ((dist : Int) + (P.reps : Int)) len = .mtch dist len := by
  simp only [symOf, hreps]
  rw [if_neg (by omega), if_neg (by omega)]
  have : ((dist : Int) + ((4 : Nat) : Int) - ((4 : Nat) : Int)).toNat = dist := by omega
  rw [this]

/-! ### validity of the candidates of the insertion sites

  `q = p + cur` is the logical position of `opts[cur]`, `c` its coder state (`opts[cur].state / reps`). -/

theorem eqs_mono {d : Array UInt8} {q delta n m : Nat} (h : Eqs d q delta n) (hm : m ≤ n) : Eqs d q delta m :=
  fun i hi => h i (by omega)

theorem eqs_shift {d : Array UInt8} {q delta n : Nat} (k : Nat) (h : Eqs d (q + k) delta n) :
    ∀ i, i < n → byteAt d (q + (k + i)) = byteAt d (q + (k + i) - delta) := by
  intro i hi
  have := h i hi
  rw [Nat.add_assoc] at this
  exact this

/-- literal (`calc1_byte_prices`, first part of `get_next_symbol`) -/
theorem cand_lit (d : Array UInt8) (dict q : Nat) (c : Coder) (hq : q < d.size) :
    ChainOk d dict [(.lit (byteAt d q), 1)] q c :=
  ⟨Nat.le_refl 1, by omega, Or.inl ⟨rfl, rfl⟩, trivial⟩

/-- short rep after the byte comparison `match_byte == cur_byte` -/
theorem cand_short (d : Array UInt8) (dict q : Nat) (c : Coder) (hq : q < d.size)
    (hb : byteAt d q = byteAt d (q - (c.rep0 + 1))) : ChainOk d dict [(.shortRep, 1)] q c :=
  ⟨Nat.le_refl 1, by omega, Or.inr (Or.inl ⟨rfl, rfl, hb⟩), trivial⟩

/-- long rep of length `len ≤ L` where `L` bytes were measured equal (`get_match_len` / `get_match_len_fast_reject`) -/
theorem cand_rep (d : Array UInt8) (dict q : Nat) (c : Coder) (rep len L : Nat) (hr : rep ≤ 3) (h2 : 2 ≤ len)
    (hl : len ≤ L) (hL : L ≤ min (d.size - q) 273) (he : Eqs d q (c.rep rep + 1) L) :
    ChainOk d dict [(.rep rep len, len)] q c :=
  ⟨by omega, by omega, Or.inr (Or.inr (Or.inl ⟨rep, rfl, hr, h2, by omega, eqs_mono he hl⟩)), trivial⟩

/-- a shorter match at the same distance is valid -/
theorem validMatch_shorter {d : Array UInt8} {dict q limit len dist : Nat} (h : ValidMatch d dict q limit (len, dist))
    (len' : Nat) (h2 : 2 ≤ len') (hl : len' ≤ len) : ValidMatch d dict q limit (len', dist) := by
  obtain ⟨_, a2, a3, a4, a5, a6⟩ := h
  simp only at a2 a3 a4 a5 a6
  exact ⟨h2, by show len' ≤ limit; omega, by show q + len' ≤ d.size; omega, a4, a5, fun i hi => a6 i (by show i < len; omega)⟩

/-- match of length `len ≤ len'` where `(len', dist)` is a valid match (finder's list, possibly shortened) -/
theorem cand_mtch (d : Array UInt8) (dict q : Nat) (c : Coder) (dist len len' : Nat)
    (hv : ValidMatch d dict q (min 273 (d.size - q)) (len', dist)) (h2 : 2 ≤ len) (hl : len ≤ len') :
    ChainOk d dict [(.mtch dist len, len)] q c := by
  have hv' := validMatch_shorter hv len h2 hl
  have := hv'.2.2.1
  simp only at this
  exact ⟨by omega, this, Or.inr (Or.inr (Or.inr ⟨dist, rfl, hv'⟩)), trivial⟩

/-- `get_match_len2(forward, dist, limit)` measures a real repetition at `q + forward` -/
theorem getMatchLen2_spec (d : Array UInt8) (q forward dist limit : Nat) :
    getMatchLen2 d q forward dist limit ≤ limit ∧
      Eqs d (q + forward) (dist + 1) (getMatchLen2 d q forward dist limit) := by
  unfold getMatchLen2
  split
  · next h => subst h; exact ⟨Nat.le_refl 0, fun i hi => absurd hi (Nat.not_lt_zero i)⟩
  · have := extendMatch_spec d (q + forward) (dist + 1) limit 0 (Nat.zero_le _)
      (fun i hi => absurd hi (Nat.not_lt_zero i))
    exact ⟨this.2.1, this.2.2⟩

/-- the tail `literal + rep0` of the composite candidates: after a symbol `X` that leaves `reps[0] = dist`, at
    position `r`, the literal of the data byte and a rep0 of the length measured by `get_match_len2` -/
theorem cand_lit_rep0 (d : Array UInt8) (dict r : Nat) (c : Coder) (len2 L : Nat)
    (h2 : 2 ≤ len2) (hl : len2 ≤ L) (hL : L ≤ min (d.size - (r + 1)) 273) (hr : r < d.size)
    (he : Eqs d (r + 1) (c.rep0 + 1) L) :
    ChainOk d dict [(.lit (byteAt d r), 1), (.rep 0 len2, len2)] r c := by
  refine ⟨Nat.le_refl 1, by omega, Or.inl ⟨rfl, rfl⟩, ?_⟩
  have : (c.apply (.lit (byteAt d r))).rep 0 = c.rep0 := rfl
  exact cand_rep d dict (r + 1) _ 0 len2 L (by omega) h2 hl hL (by rw [this]; exact he)

/-- rep0 of the coder after a long rep `rep` / after a match `dist` -/
theorem rep0_after_rep (c : Coder) (rep len : Nat) : (c.apply (.rep rep len)).rep0 = c.rep rep := by
  rcases rep with _ | _ | _ | rep <;> rfl

theorem rep0_after_mtch (c : Coder) (dist len : Nat) : (c.apply (.mtch dist len)).rep0 = dist := rfl

/-- `X + literal + rep0` where `X` is a valid one-symbol chain of length `len` that leaves `reps[0] = dist` -/
theorem cand_composite (d : Array UInt8) (dict q : Nat) (c : Coder) (s : Sym) (len dist len2 L : Nat)
    (hX : ChainOk d dict [(s, len)] q c) (hd : (c.apply s).rep0 = dist)
    (h2 : 2 ≤ len2) (hl : len2 ≤ L) (hL : L ≤ min (d.size - (q + len + 1)) 273) (hr : q + len < d.size)
    (he : Eqs d (q + (len + 1)) (dist + 1) L) :
    ChainOk d dict [(s, len), (.lit (byteAt d (q + len)), 1), (.rep 0 len2, len2)] q c := by
  obtain ⟨a1, a2, a3, _⟩ := hX
  refine ⟨a1, a2, a3, ?_⟩
  refine cand_lit_rep0 d dict (q + len) _ len2 L h2 hl hL hr ?_
  rw [hd]
  have : q + len + 1 = q + (len + 1) := by omega
  rw [this]
  exact he

end LzmaVerif.EncNormal
