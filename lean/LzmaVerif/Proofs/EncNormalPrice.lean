/-
  Normal encoder: a literal never costs more than `9 · 128` (every entry of `PRICES` is at most 128).  This is what
  keeps `opts[cur + 1]` below `INFINITY_PRICE` while `opt_cur` advances.
-/
import LzmaVerif.Model.EncNormal

namespace LzmaVerif.EncNormal
open LzmaVerif Mf Lzma Rc EncFast EncPrices

/-! ### a literal costs at most `9 · 128` -/

set_option maxRecDepth 4000 in
theorem prices_all : PRICES.all (fun x => decide (x ≤ 128)) = true := by decide +kernel

theorem prices_getD_le (i : Nat) : PRICES.getD i 0 ≤ 128 := by
  rw [Array.getD_eq_getD_getElem?]
  by_cases h : i < PRICES.size
  · rw [Array.getElem?_eq_getElem h]
    have := Array.all_eq_true.mp prices_all i h
    simpa using this
  · rw [Array.getElem?_eq_none (by omega)]
    simp only [Option.getD_none, Nat.zero_le]

theorem bitPrice_le (prob : Nat) (bit : Bool) : bitPrice prob bit ≤ 128 := by
  unfold bitPrice
  exact prices_getD_le _

theorem litNormalPriceAux_le (ps : Probs) (base : Nat) :
    ∀ (n symbol price : Nat), litNormalPriceAux ps base n symbol price ≤ price + 128 * n
  | 0, _, price => by simp only [litNormalPriceAux]; omega
  | n + 1, symbol, price => by
    simp only [litNormalPriceAux]
    have h1 := litNormalPriceAux_le ps base n (symbol <<< 1)
      (price + bitPrice (ps.get (base + symbol >>> 8)) ((symbol >>> 7) % 2 == 1))
    have h2 := bitPrice_le (ps.get (base + symbol >>> 8)) ((symbol >>> 7) % 2 == 1)
    omega

theorem litMatchedPriceAux_le (ps : Probs) (base : Nat) :
    ∀ (n symbol matchByte offset price : Nat),
      litMatchedPriceAux ps base n symbol matchByte offset price ≤ price + 128 * n
  | 0, _, _, _, price => by simp only [litMatchedPriceAux]; omega
  | n + 1, symbol, matchByte, offset, price => by
    simp only [litMatchedPriceAux]
    refine Nat.le_trans (litMatchedPriceAux_le ps base n _ _ _ _) ?_
    have h2 := bitPrice_le (ps.get (base + (offset + (matchByte <<< 1 &&& offset) + symbol >>> 8)))
      ((symbol >>> 7) % 2 == 1)
    omega

theorem litPrice_le (pr : Params) (ps : Probs) (curByte matchByte prevByte pos state : Nat) :
    litPrice pr ps curByte matchByte prevByte pos state ≤ 1152 := by
  simp only [litPrice]
  have h0 := bitPrice_le (ps.get (oIsMatch + state * 16 + pos % 2 ^ pr.pb)) false
  split
  · have := litNormalPriceAux_le ps (oLiteral + 0x300 * litIndex pr prevByte pos) 8 (curByte ||| 0x100) 0
    unfold litNormalPrice
    omega
  · have := litMatchedPriceAux_le ps (oLiteral + 0x300 * litIndex pr prevByte pos) 8 (curByte ||| 0x100) matchByte 0x100 0
    unfold litMatchedPrice
    omega

end LzmaVerif.EncNormal
