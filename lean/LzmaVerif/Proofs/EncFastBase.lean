/-
  Fast encoder (`Model/EncFast.lean`), basic facts:
  * the history denoted by a prefix of the data (`HistIs`), and how literals / valid copies extend it;
  * `parseRun` of one literal / repeated match / match;
  * the accumulator loop `loop` equals the plain recursion `loopSpec`.
-/
import LzmaVerif.Model.EncFast
import LzmaVerif.Proofs.LoopRt
import LzmaVerif.Proofs.Hc4Find

namespace LzmaVerif.EncFast
open LzmaVerif Mf Lzma
open LzmaVerif.Mf.Hc4 (Eqs byteAt_lt extendMatch_spec)

/-! ### the history is a prefix of the data -/

/-- `h` holds exactly the first `p` bytes of `d` -/
def HistIs (d : Array UInt8) (p : Nat) (h : Hist) : Prop :=
  h.size = p ∧ ∀ i, i < p → h.getD i 0 = byteAt d i

theorem HistIs.empty (d : Array UInt8) : HistIs d 0 (#[] : Hist) :=
  ⟨rfl, fun i hi => absurd hi (Nat.not_lt_zero i)⟩

theorem getD_push_lt (h : Hist) (b i : Nat) (hi : i < h.size) : (h.push b).getD i 0 = h.getD i 0 := by
  rw [Array.getD_eq_getD_getElem?, Array.getD_eq_getD_getElem?, Array.getElem?_push_lt hi,
    Array.getElem?_eq_getElem hi]

theorem getD_push_eq (h : Hist) (b : Nat) : (h.push b).getD h.size 0 = b := by
  rw [Array.getD_eq_getD_getElem?, Array.getElem?_push_size]
  rfl

theorem HistIs.push {d : Array UInt8} {p : Nat} {h : Hist} (hh : HistIs d p h) :
    HistIs d (p + 1) (h.push (byteAt d p)) := by
  obtain ⟨hs, hb⟩ := hh
  refine ⟨by rw [Array.size_push, hs], ?_⟩
  intro i hi
  by_cases hip : i < p
  · rw [getD_push_lt h _ i (by omega)]; exact hb i hip
  · have : i = h.size := by omega
    subst this
    rw [getD_push_eq, hs]

theorem HistIs.back {d : Array UInt8} {p : Nat} {h : Hist} (hh : HistIs d p h) (dist : Nat)
    (hd : dist + 1 ≤ p) : h.back dist = byteAt d (p - (dist + 1)) := by
  obtain ⟨hs, hb⟩ := hh
  unfold Hist.back
  rw [if_pos (by omega), hs]
  have : p - 1 - dist = p - (dist + 1) := by omega
  rw [this]
  exact hb _ (by omega)

/-- a copy of `len` bytes at distance `dist` that really repeats the data extends the prefix -/
theorem HistIs.copy {d : Array UInt8} (dist : Nat) :
    ∀ (len p : Nat) (h : Hist), HistIs d p h → dist + 1 ≤ p → Eqs d p (dist + 1) len →
      HistIs d (p + len) (h.copy dist len)
  | 0, p, h, hh, _, _ => hh
  | len + 1, p, h, hh, hd, he => by
    rw [Hist.copy]
    have hb : h.back dist = byteAt d p := by
      rw [hh.back dist hd]
      have := he 0 (by omega)
      simp only [Nat.add_zero] at this
      exact this.symm
    rw [hb]
    have hh' := hh.push
    have he' : Eqs d (p + 1) (dist + 1) len := by
      intro i hi
      have := he (i + 1) (by omega)
      have e1 : p + (i + 1) = p + 1 + i := by omega
      rw [e1] at this
      exact this
    have := HistIs.copy dist len (p + 1) _ hh' (by omega) he'
    have e2 : p + 1 + len = p + (len + 1) := by omega
    rw [e2] at this
    exact this

/-- a prefix of the whole length is the data -/
theorem HistIs.eq_map {d : Array UInt8} {h : Hist} (hh : HistIs d d.size h) :
    h = d.map (fun b => b.toNat) := by
  obtain ⟨hs, hb⟩ := hh
  apply Array.ext
  · rw [Array.size_map, hs]
  · intro i h1 h2
    have := hb i (by omega)
    rw [Array.getD_eq_getD_getElem?, Array.getElem?_eq_getElem h1] at this
    simp only [Option.getD_some] at this
    rw [this, Array.getElem_map]
    unfold byteAt
    rw [Array.getD_eq_getD_getElem?, Array.getElem?_eq_getElem (by omega)]
    rfl

/-! ### `parseRun`, one symbol -/

theorem parseRun_lit (dictBuf b : Nat) (rest : List Sym) (c : Coder) (h : Hist) (hb : b < 256) :
    parseRun dictBuf (.lit b :: rest) c h = parseRun dictBuf rest (c.apply (.lit b)) (h.push b) := by
  simp only [parseRun, if_pos hb]

theorem parseRun_rep (dictBuf i len : Nat) (rest : List Sym) (c : Coder) (h : Hist)
    (hi : i ≤ 3) (h2 : 2 ≤ len) (hl : len ≤ 273) (hd : c.rep i < h.size) (hdb : c.rep i < dictBuf) :
    parseRun dictBuf (.rep i len :: rest) c h =
      parseRun dictBuf rest (c.apply (.rep i len)) (h.copy (c.rep i) len) := by
  have : SymOk (.rep i len) ∧ c.rep i < h.size ∧ c.rep i < dictBuf := ⟨⟨hi, h2, hl⟩, hd, hdb⟩
  simp only [parseRun, Sym.copyOf, if_pos this]

theorem parseRun_mtch (dictBuf dist len : Nat) (rest : List Sym) (c : Coder) (h : Hist)
    (h2 : 2 ≤ len) (hl : len ≤ 273) (h32 : dist < 2 ^ 32) (hd : dist < h.size) (hdb : dist < dictBuf) :
    parseRun dictBuf (.mtch dist len :: rest) c h =
      parseRun dictBuf rest (c.apply (.mtch dist len)) (h.copy dist len) := by
  have : SymOk (.mtch dist len) ∧ dist < h.size ∧ dist < dictBuf := ⟨⟨h2, hl, h32⟩, hd, hdb⟩
  simp only [parseRun, Sym.copyOf, if_pos this]

/-! ### the loop without accumulator -/

/-- `loop` as a plain recursion -/
def loopSpec {σ : Type} (F : Finder σ) (P : FastParams) (nice : Nat) (d : Array UInt8) :
    (fuel : Nat) → (p : Nat) → Coder → σ → List Match → (ra : Nat) → List Sym
  | 0, _, _, _, _, _ => []
  | fuel + 1, p, c, mf, ms, ra =>
    if p < d.size then
      let st := nextSymbol F P nice d p c mf ms ra
      st.sym :: loopSpec F P nice d fuel (p + st.len) (c.apply st.sym) st.mf st.ms st.ra
    else []

theorem loop_eq {σ : Type} (F : Finder σ) (P : FastParams) (nice : Nat) (d : Array UInt8) :
    ∀ (fuel p : Nat) (c : Coder) (mf : σ) (ms : List Match) (ra : Nat) (acc : List Sym),
      loop F P nice d fuel p c mf ms ra acc = acc.reverse ++ loopSpec F P nice d fuel p c mf ms ra
  | 0, p, c, mf, ms, ra, acc => by simp only [loop, loopSpec, List.append_nil]
  | fuel + 1, p, c, mf, ms, ra, acc => by
    simp only [loop, loopSpec]
    split
    · rw [loop_eq F P nice d fuel]
      simp only [List.reverse_cons, List.append_assoc, List.singleton_append]
    · simp only [List.append_nil]

theorem fastParse_eq {σ : Type} (F : Finder σ) (P : FastParams) (nice : Nat) (d : Array UInt8) :
    fastParse F P nice d =
      if d.size = 0 then []
      else .lit (byteAt d 0) ::
        loopSpec F P nice d d.size 1 (Coder.init.apply (.lit (byteAt d 0))) (F.skip d 1 F.init) [] 0 := by
  unfold fastParse
  split
  · rfl
  · simp only [loop_eq, List.reverse_cons, List.reverse_nil, List.nil_append, List.singleton_append]

end LzmaVerif.EncFast
