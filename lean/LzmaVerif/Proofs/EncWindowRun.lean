import LzmaVerif.Proofs.EncWindowSim
/-!
# Symbols, the encode loop, the write loop and `finish` against the reference run
-/
namespace LzmaVerif.EncWindow

/-! ## The reference run as a relation -/

inductive RSteps (P : Params) (O : Oracle) (inp : List Nat) : RSt → RSt → Prop
  | refl (c : RSt) : RSteps P O inp c c
  | step {c c' : RSt} : c.encPos < inp.length → RSteps P O inp (refSymbol P O inp c).1 c' → RSteps P O inp c c'

theorem RSteps.trans {P : Params} {O : Oracle} {inp : List Nat} {a b c : RSt}
    (h1 : RSteps P O inp a b) (h2 : RSteps P O inp b c) : RSteps P O inp a c := by
  induction h1 with
  | refl _ => exact h2
  | step hlt _ ih => exact RSteps.step hlt (ih h2)

theorem RSteps.single {P : Params} {O : Oracle} {inp : List Nat} {c : RSt} (h : c.encPos < inp.length) :
    RSteps P O inp c (refSymbol P O inp c).1 := RSteps.step h (RSteps.refl _)

/-- the reference run is deterministic: two complete runs from the same state end in the same state -/
theorem RSteps.deterministic {P : Params} {O : Oracle} {inp : List Nat} {a b c : RSt}
    (h1 : RSteps P O inp a b) (hb : ¬ b.encPos < inp.length)
    (h2 : RSteps P O inp a c) (hc : ¬ c.encPos < inp.length) : b = c := by
  induction h1 with
  | refl x =>
    cases h2 with
    | refl _ => rfl
    | step hlt _ => exact absurd hlt hb
  | step hlt _ ih =>
    cases h2 with
    | refl _ => exact absurd hlt hc
    | step _ h2' => exact ih hb h2'

/-! ## What `has_enough_data(read_ahead + 1)` gives -/

theorem hasEnough_facts (P : Params) (hP : P.WF) (s : St (List Nat)) (fed : List Nat) (h : SInv P s fed)
    (he : hasEnoughData s.win (s.readAhead + 1) = true) :
    0 ≤ s.win.readPos - s.readAhead ∧ s.win.readPos - s.readAhead + 1 ≤ s.win.writePos ∧
    (s.win.finishing = false → s.win.readPos - s.readAhead + P.keepAfter ≤ s.win.writePos) := by
  have he' : s.win.readPos - (s.readAhead + 1) < s.win.readLimit := by
    simpa [hasEnoughData] using he
  have h1 := h.ra_le; have h2 := h.ra_ge; have h3 := h.win.rp_lt
  have hka : P.keepAfter = P.extraAfter + P.matchLenMax := rfl
  have hm := hP.mlm_pos
  refine ⟨by omega, ?_, ?_⟩
  · by_cases hf : s.win.finishing = false
    · rcases h.win.lim_run hf with hl | hl
      · omega
      · omega
    · have := h.win.lim_fin ((Bool.not_eq_false _).mp hf)
      omega
  · intro hf
    rcases h.win.lim_run hf with hl | hl
    · omega
    · omega

/-! ## One symbol -/

theorem symbolStep_sim (P : Params) (hP : P.WF) (O : Oracle) (s : St (List Nat)) (c : RSt) (fed t inp : List Nat)
    (hs : SInv P s fed) (hinp : fed ++ t = inp) (hsim : Sim P inp s c)
    (he : hasEnoughData s.win (s.readAhead + 1) = true) (hfin : s.win.finishing = true → t = []) :
    SInv P (symbolStep listBuf P O s).1 fed ∧ Sim P inp (symbolStep listBuf P O s).1 (refSymbol P O inp c).1 ∧
    (symbolStep listBuf P O s).2 = (refSymbol P O inp c).2 ∧ SameWin s.win (symbolStep listBuf P O s).1.win ∧
    c.encPos < inp.length ∧ (symbolStep listBuf P O s).1.unenc < s.unenc := by
  obtain ⟨f1, f2, f3⟩ := hasEnough_facts P hP s fed hs he
  have hil : inp.length = fed.length + t.length := by rw [← hinp, List.length_append]
  have g1 := hs.ra_ge; have g2 := hs.ra_le; have g3 := hs.ra_lt; have g4 := hs.win.rp_ge
  have g5 := hs.win.fed_len; have g6 := hs.win.rp_lt
  have hka : P.keepAfter = P.extraAfter + P.matchLenMax := rfl
  have w1 := hP.mlm_pos; have w4 := hP.ahead_le; have w6 := hP.kb_pos
  have hcr := hsim.rp; have hcra := hsim.ra; have hctr := hsim.tr
  -- the decision of the search is the same
  have hd : (if c.readPos = -1 then ((1 : Nat), (1 : Nat), false) else O c.trace) =
      (if s.win.readPos = -1 then ((1 : Nat), (1 : Nat), false) else O s.trace) := by
    by_cases h1 : s.win.readPos = -1
    · have hb : s.win.base = 0 := by
        rcases hs.win.lookback with h | h
        · exact h
        · omega
      rw [if_pos h1, if_pos (by omega)]
    · rw [if_neg h1, if_neg (by omega), hctr]
  -- and so is the clamp
  have hhi : min (((P.maxAhead : Int) - s.readAhead).toNat) (((inp.length : Int) - 1 - c.readPos).toNat) =
      min (((P.maxAhead : Int) - s.readAhead).toNat) (((s.win.writePos : Int) - 1 - s.win.readPos).toNat) := by
    by_cases hf : s.win.finishing = false
    · have := f3 hf
      omega
    · have ht := hfin ((Bool.not_eq_false _).mp hf)
      subst ht
      simp only [List.length_nil] at hil
      omega
  have hE : c.encPos.toNat = s.win.base + s.encPos.toNat := by
    unfold RSt.encPos St.encPos
    omega
  unfold symbolStep refSymbol
  simp only [hd, hE, hcra]
  unfold clampAdv
  rw [hhi]
  generalize (if s.win.readPos = -1 then ((1 : Nat), (1 : Nat), false) else O s.trace) = D
  generalize hadv : max (if s.readAhead = -1 then 1 else 0)
    (min D.1 (min (((P.maxAhead : Int) - s.readAhead).toNat) (((s.win.writePos : Int) - 1 - s.win.readPos).toNat))) = adv
  have hlo : (if s.readAhead = -1 then 1 else 0) ≤ adv := by omega
  have hadv1 : (adv : Int) ≤ P.maxAhead - s.readAhead := by
    split at hadv <;> omega
  have hadv2 : (adv : Int) ≤ (s.win.writePos : Int) - 1 - s.win.readPos := by
    split at hadv <;> omega
  have hadv3 : 0 ≤ s.readAhead + adv := by
    split at hlo <;> omega
  obtain ⟨b1, b2, b3, b4, b5, b6⟩ := advance_sim P hP fed t inp (s.win.base + s.encPos.toNat) hinp adv s c hs.win hsim
    (by unfold St.encPos; omega) (by omega) (by unfold St.encPos; omega)
    (by
      by_cases hf : s.win.finishing = false
      · right
        refine ⟨hf, ?_⟩
        have := f3 hf
        unfold St.encPos
        omega
      · left
        exact ⟨(Bool.not_eq_false _).mp hf, hfin ((Bool.not_eq_false _).mp hf)⟩)
  generalize hS : advance listBuf P (s.win.base + s.encPos.toNat) adv s = S at *
  generalize hC : refAdvance P inp (s.win.base + s.encPos.toNat) adv c = C at *
  generalize hlen : clampLen D.2.1 (s.readAhead + adv) = len
  have hlen1 : 1 ≤ len := by rw [← hlen]; unfold clampLen; omega
  have hlen2 : (len : Int) ≤ s.readAhead + adv + 1 := by rw [← hlen]; unfold clampLen; omega
  obtain ⟨s1, s2, s3, s4, s5⟩ := b3
  refine ⟨⟨b1, ?_, ?_, ?_, ?_⟩, ⟨?_, ?_, ?_, ?_⟩, trivial, ⟨s1, s2, s3, s4, s5⟩, ?_, ?_⟩
  · show -1 ≤ s.readAhead + adv - len
    omega
  · show s.readAhead + adv - len ≤ S.win.readPos
    omega
  · show s.readAhead + adv - len + 1 ≤ P.maxAhead
    omega
  · show S.stuck = false
    rw [b6]; exact hs.not_stuck
  · show C.readPos = (S.win.base : Int) + S.win.readPos
    exact b2.rp
  · rfl
  · show C.trace = S.trace
    exact b2.tr
  · exact b2.good
  · unfold RSt.encPos
    omega
  · unfold St.unenc St.encPos
    show ((S.win.writePos : Int) - (S.win.readPos - (s.readAhead + adv - len))).toNat <
      ((s.win.writePos : Int) - (s.win.readPos - s.readAhead)).toNat
    rw [s1, b4]
    omega

/-! ## `encode_for_lzma1` / `encode_for_lzma2` -/

theorem encodeLoop_sim (P : Params) (hP : P.WF) (O : Oracle) (fed t inp : List Nat) (hinp : fed ++ t = inp)
    (honor : Bool) :
    ∀ (fuel : Nat) (s : St (List Nat)) (c : RSt), SInv P s fed → Sim P inp s c →
    (s.win.finishing = true → t = []) →
    ∃ c', RSteps P O inp c c' ∧
      SInv P (encodeLoop listBuf P O honor fuel s).1 fed ∧ Sim P inp (encodeLoop listBuf P O honor fuel s).1 c' ∧
      SameWin s.win (encodeLoop listBuf P O honor fuel s).1.win ∧
      (encodeLoop listBuf P O honor fuel s).1.unenc ≤ s.unenc ∧
      (s.unenc < fuel → (encodeLoop listBuf P O honor fuel s).2 = true ∨
        hasEnoughData (encodeLoop listBuf P O honor fuel s).1.win ((encodeLoop listBuf P O honor fuel s).1.readAhead + 1) = false) ∧
      (hasEnoughData s.win (s.readAhead + 1) = true → 0 < fuel → (encodeLoop listBuf P O honor fuel s).1.unenc < s.unenc) ∧
      (honor = false → (encodeLoop listBuf P O honor fuel s).2 = false) := by
  intro fuel
  induction fuel with
  | zero =>
    intro s c hs hsim _
    refine ⟨c, RSteps.refl _, hs, hsim, SameWin.refl _, Nat.le_refl _, ?_, ?_, ?_⟩
    · intro h; omega
    · intro _ h; omega
    · intro _; rfl
  | succ f ih =>
    intro s c hs hsim hfin
    by_cases he : hasEnoughData s.win (s.readAhead + 1) = true
    · obtain ⟨a1, a2, a3, a4, a5, a6⟩ := symbolStep_sim P hP O s c fed t inp hs hinp hsim he hfin
      by_cases hstop : (honor && (symbolStep listBuf P O s).2) = true
      · have hr : encodeLoop listBuf P O honor (f + 1) s = ((symbolStep listBuf P O s).1, true) := by
          show (if hasEnoughData s.win (s.readAhead + 1) = true then
              (if (honor && (symbolStep listBuf P O s).2) = true then ((symbolStep listBuf P O s).1, true)
               else encodeLoop listBuf P O honor f (symbolStep listBuf P O s).1) else (s, false)) = _
          rw [if_pos he, if_pos hstop]
        rw [hr]
        refine ⟨_, RSteps.single a5, a1, a2, a4, Nat.le_of_lt a6, ?_, ?_, ?_⟩
        · intro _; exact Or.inl rfl
        · intro _ _; exact a6
        · intro hh; rw [hh] at hstop; simp at hstop
      · have hr : encodeLoop listBuf P O honor (f + 1) s = encodeLoop listBuf P O honor f (symbolStep listBuf P O s).1 := by
          show (if hasEnoughData s.win (s.readAhead + 1) = true then
              (if (honor && (symbolStep listBuf P O s).2) = true then ((symbolStep listBuf P O s).1, true)
               else encodeLoop listBuf P O honor f (symbolStep listBuf P O s).1) else (s, false)) = _
          rw [if_pos he, if_neg hstop]
        rw [hr]
        obtain ⟨q1, q2, q3, q4, q5⟩ := a4
        obtain ⟨c', r1, r2, r3, r4, r5, r6, r7, r8⟩ := ih (symbolStep listBuf P O s).1 (refSymbol P O inp c).1 a1 a2
          (by rw [q4]; exact hfin)
        refine ⟨c', RSteps.step a5 r1, r2, r3, SameWin.trans ⟨q1, q2, q3, q4, q5⟩ r4, by omega, ?_, ?_, r8⟩
        · intro h; exact r6 (by omega)
        · intro _ _; omega
    · have hr : encodeLoop listBuf P O honor (f + 1) s = (s, false) := by
        show (if hasEnoughData s.win (s.readAhead + 1) = true then
            (if (honor && (symbolStep listBuf P O s).2) = true then ((symbolStep listBuf P O s).1, true)
             else encodeLoop listBuf P O honor f (symbolStep listBuf P O s).1) else (s, false)) = _
        rw [if_neg he]
      rw [hr]
      refine ⟨c, RSteps.refl _, hs, hsim, SameWin.refl _, Nat.le_refl _, ?_, ?_, ?_⟩
      · intro _; right; exact (Bool.not_eq_true _).mp he
      · intro h; exact absurd h he
      · intro _; rfl

end LzmaVerif.EncWindow
