import LzmaVerif.Model.Xz
/-! The block filters of the model preserve the length of the data (needed for the output-cap checks of the
container reader). -/
namespace LzmaVerif.Filters

theorem sb_size (b : Buf) (i v : Nat) : (sb b i v).size = b.size := by simp [sb]

theorem run_length (f : Delta → Nat → Nat × Delta) : ∀ (xs : List Nat) (d : Delta), (Delta.run f d xs).1.length = xs.length := by
  intro xs
  induction xs with
  | nil => intro d; rfl
  | cons x xs ih => intro d; simp [Delta.run, ih]

theorem armLoop_size (enc : Bool) (st : St) : ∀ (fuel i : Nat) (b : Buf), (armLoop enc st fuel i b).1.size = b.size := by
  intro fuel
  induction fuel with
  | zero => intro i b; rfl
  | succ n ih =>
    intro i b
    unfold armLoop
    simp only []
    repeat' split
    all_goals simp [ih, sb_size]

theorem thumbLoop_size (enc : Bool) (st : St) : ∀ (fuel i : Nat) (b : Buf), (thumbLoop enc st fuel i b).1.size = b.size := by
  intro fuel
  induction fuel with
  | zero => intro i b; rfl
  | succ n ih =>
    intro i b
    unfold thumbLoop
    simp only []
    repeat' split
    all_goals simp [ih, sb_size]

theorem ppcLoop_size (enc : Bool) (st : St) : ∀ (fuel i : Nat) (b : Buf), (ppcLoop enc st fuel i b).1.size = b.size := by
  intro fuel
  induction fuel with
  | zero => intro i b; rfl
  | succ n ih =>
    intro i b
    unfold ppcLoop
    simp only []
    repeat' split
    all_goals simp [ih, sb_size]

theorem sparcLoop_size (enc : Bool) (st : St) : ∀ (fuel i : Nat) (b : Buf), (sparcLoop enc st fuel i b).1.size = b.size := by
  intro fuel
  induction fuel with
  | zero => intro i b; rfl
  | succ n ih =>
    intro i b
    unfold sparcLoop
    simp only []
    repeat' split
    all_goals simp [ih, sb_size]

theorem arm64Loop_size (enc : Bool) (st : St) : ∀ (fuel i : Nat) (b : Buf), (arm64Loop enc st fuel i b).1.size = b.size := by
  intro fuel
  induction fuel with
  | zero => intro i b; rfl
  | succ n ih =>
    intro i b
    unfold arm64Loop
    simp only []
    repeat' split
    all_goals simp [ih, sb_size]


theorem set6_size (b : Buf) (o v : Nat) : (set6 b o v).size = b.size := by simp [set6, sb_size]
theorem setLe32_size (b : Buf) (o v : Nat) : (setLe32 b o v).size = b.size := by simp [setLe32, sb_size]
theorem setBe32_size (b : Buf) (o v : Nat) : (setBe32 b o v).size = b.size := by simp [setBe32, sb_size]

theorem ia64Slot_size (enc : Bool) (st : St) (i slot : Nat) (b : Buf) : (ia64Slot enc st i slot b).size = b.size := by
  unfold ia64Slot
  simp only []
  split
  · rfl
  · simp [set6_size]

theorem ia64Loop_size (enc : Bool) (st : St) : ∀ (fuel i : Nat) (b : Buf), (ia64Loop enc st fuel i b).1.size = b.size := by
  intro fuel
  induction fuel with
  | zero => intro i b; rfl
  | succ n ih =>
    intro i b
    unfold ia64Loop
    simp only []
    repeat' split
    all_goals simp [ih, ia64Slot_size]

theorem riscvLoop_size (enc : Bool) (st : St) : ∀ (fuel i : Nat) (b : Buf), (riscvLoop enc st fuel i b).1.size = b.size := by
  intro fuel
  induction fuel with
  | zero => intro i b; rfl
  | succ n ih =>
    intro i b
    unfold riscvLoop
    simp only []
    repeat' split
    all_goals simp [ih, sb_size, setLe32_size, setBe32_size]

theorem x86Loop_size (enc : Bool) (st : St) : ∀ (fuel i : Nat) (pp : Option Nat) (pm : Nat) (b : Buf),
    (x86Loop enc st fuel i pp pm b).1.size = b.size := by
  intro fuel
  induction fuel with
  | zero => intro i pp pm b; rfl
  | succ n ih =>
    intro i pp pm b
    unfold x86Loop
    simp only []
    repeat' split
    all_goals simp [ih, sb_size]

theorem code_size (a : Arch) (enc : Bool) (st : St) (b : Buf) : (code a enc st b).1.size = b.size := by
  cases a <;> simp only [code]
  · split
    · rfl
    · exact x86Loop_size ..
  · exact ppcLoop_size ..
  · exact ia64Loop_size ..
  · exact armLoop_size ..
  · exact thumbLoop_size ..
  · exact sparcLoop_size ..
  · exact arm64Loop_size ..
  · exact riscvLoop_size ..

theorem oneShot_length (a : Arch) (enc : Bool) (start : Nat) (xs : List Nat) : (oneShot a enc start xs).length = xs.length := by
  simp [oneShot, code_size]

theorem deltaEncode_length (d : Nat) (xs : List Nat) : (deltaEncode d xs).length = xs.length := run_length _ _ _
theorem deltaDecode_length (d : Nat) (xs : List Nat) : (deltaDecode d xs).length = xs.length := run_length _ _ _

end LzmaVerif.Filters

namespace LzmaVerif.Xz
open LzmaVerif

theorem applyFilters_length : ∀ (fs : List Filter) (d : List Nat), (applyFilters fs d).length = d.length := by
  intro fs
  induction fs with
  | nil => intro d; rfl
  | cons f fs ih =>
    intro d
    cases f with
    | delta dist => simp only [applyFilters, ih, Filters.deltaEncode_length]
    | bcj a s => simp only [applyFilters, ih, Filters.oneShot_length]
    | lzma2 _ => simp only [applyFilters, ih]

theorem unfilter_length : ∀ (fs : List Filter) (d : List Nat), (unfilter fs d).length = d.length := by
  intro fs
  induction fs with
  | nil => intro d; rfl
  | cons f fs ih =>
    intro d
    cases f with
    | delta dist => simp only [unfilter, ih, Filters.deltaDecode_length]
    | bcj a s => simp only [unfilter, ih, Filters.oneShot_length]
    | lzma2 _ => simp only [unfilter, ih]

end LzmaVerif.Xz
