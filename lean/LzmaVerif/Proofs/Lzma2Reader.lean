import LzmaVerif.Model.Lzma2
/-!
Reader side of the LZMA2 chunk framing: what one iteration of `chunkLoop` does on a well-formed
end marker, stored chunk and LZMA chunk.  No encoder here; `chunkLoop_lzma` takes the facts about
the range decoder run (`Dec.init`, the `decRun` equation, `isFinished`) as hypotheses.
-/
namespace LzmaVerif.Lzma2
open LzmaVerif Lzma Prog Rc

/-- **End marker**: control byte 0 ends the stream; the bytes after it are left unread. -/
theorem chunkLoop_end (fuel : Nat) (s : RState) (tail : List Nat) (cap : Nat) :
    chunkLoop (fuel + 1) s (0 :: tail) cap = .ok s tail := by
  simp only [chunkLoop, if_true]

theorem pushAll_eq (l : List Nat) : ∀ (a : Array Nat), pushAll a l = a ++ l.toArray := by
  induction l with
  | nil => intro a; simp [pushAll]
  | cons b bs ih => intro a; simp [pushAll, ih]

/-- the effect of a dictionary reset (control `1` or `≥ 0xE0`) on the reader state -/
def resetR (s : RState) : RState := { s with needProps := true, needDictReset := false, hist := #[] }

/-- **LZMA chunk**, reader side: if the header parses (`chunkProps`), the body `body` has the announced
    length, starts with 0, initialises the range decoder, and the symbol loop run on it stops at the
    limit with a finished range decoder, then the iteration continues after the body with the state
    updated from the loop result. -/
theorem chunkLoop_lzma (fuel : Nat) (s : RState) (control u1 u2 c1 c2 : Nat) (inp : List Nat) (cap : Nat)
    (unc comp : Nat) (s1 : RState) (props : Option Nat) (body tail : List Nat) (d0 d' : Dec) (r : LoopRes)
    (ps' : Probs)
    (hunc : (control % 32) * 65536 + be16 u1 u2 + 1 = unc) (hcompv : be16 c1 c2 + 1 = comp)
    (hc : control ≥ 0x80)
    (hreset : (control ≥ 0xE0 ∨ control = 1) ∨ s.needDictReset = false)
    (hprops : chunkProps (if control ≥ 0xE0 ∨ control = 1 then resetR s else s) control inp
        = .ok (s1, body ++ tail, props))
    (hcomp : body.length = comp) (h5 : 5 ≤ body.length) (hhead : body.head? = some 0)
    (hinit : Dec.init body = some d0)
    (hcap : s1.out.size + unc ≤ cap)
    (hdec : (loopProg s1.params s1.dictBuf (unc + 1) (some unc) s1.coder s1.hist [] 0).decRun s1.probs d0
        = (r, ps', d'))
    (hstop : r.stop = .limit) (hfin : d'.normalize.isFinished = true) :
    chunkLoop (fuel + 1) s (control :: u1 :: u2 :: c1 :: c2 :: inp) cap
      = chunkLoop fuel
          { s1 with
            hist := r.hist, probs := ps', coder := r.coder,
            out := s1.out ++ r.hist.extract s1.hist.size r.hist.size,
            chunks := { control := control, unc := unc, comp := comp, props := props,
                        parse := r.parse.reverse, raw := [] } :: s1.chunks }
          tail cap := by
  subst hunc
  subst hcompv
  have hc0 : control ≠ 0 := by omega
  simp only [resetR] at hprops
  have hr : ¬ (¬(control ≥ 224 ∨ control = 1) ∧ s.needDictReset = true) := by
    rintro ⟨h1, h2⟩
    rcases hreset with h | h
    · exact h1 h
    · rw [h] at h2; cases h2
  obtain ⟨b0, btl, rfl⟩ : ∃ b0 btl, body = b0 :: btl := by
    cases body with
    | nil => simp at h5
    | cons b t => exact ⟨b, t, rfl⟩
  simp only [List.head?_cons, Option.some.injEq] at hhead
  subst hhead
  have hlen : ¬ ((0 :: btl) ++ tail).length < (0 :: btl).length := by
    rw [List.length_append]; omega
  have h5' : ¬ (0 :: btl).length < 5 := by omega
  have hcap' : ¬ s1.out.size + (control % 32 * 65536 + be16 u1 u2 + 1) > cap := by omega
  have hfin' : ¬ ¬ d'.normalize.isFinished = true := by rw [hfin]; simp
  rw [chunkLoop]
  simp only [hc0, if_false]
  rw [if_neg hr, if_pos hc, hprops]
  simp only []
  rw [← hcomp, if_neg h5']
  simp only [List.cons_append, ne_eq, not_true_eq_false, if_false]
  rw [show (0 :: (btl ++ tail)) = (0 :: btl) ++ tail from rfl, if_neg hlen, List.take_left, List.drop_left, hinit]
  simp only [hdec, hstop, if_neg hcap', if_neg hfin']

/-- header of a stored chunk of `n` bytes (`1 ≤ n ≤ 65536`) -/
theorem be16_size (n : Nat) (h1 : 1 ≤ n) (h2 : n ≤ 65536) :
    be16 (((n - 1) / 256) % 256) ((n - 1) % 256) + 1 = n := by
  unfold be16; omega

/-- **Stored chunk** (control 1: with dictionary reset; control 2: without, allowed only when no
    dictionary reset is pending). -/
theorem chunkLoop_stored (fuel : Nat) (s : RState) (ctl : Nat) (raw tail : List Nat) (cap : Nat)
    (hctl : ctl = 1 ∨ (ctl = 2 ∧ s.needDictReset = false))
    (h1 : 1 ≤ raw.length) (h2 : raw.length ≤ 65536) (hcap : s.out.size + raw.length ≤ cap) :
    chunkLoop (fuel + 1) s
        (ctl :: ((raw.length - 1) / 256) % 256 :: (raw.length - 1) % 256 :: (raw ++ tail)) cap
      = chunkLoop fuel
          { (if ctl = 1 then resetR s else s) with
            hist := pushAll (if ctl = 1 then resetR s else s).hist raw,
            out := pushAll s.out raw,
            chunks := { control := ctl, unc := raw.length, comp := 0, props := none, parse := [], raw := raw }
                        :: s.chunks }
          tail cap := by
  have hb := be16_size raw.length h1 h2
  have hlen : ¬ (raw ++ tail).length < raw.length := by rw [List.length_append]; omega
  have hcap' : ¬ s.out.size + raw.length > cap := by omega
  rcases hctl with rfl | ⟨rfl, hnd⟩
  · rw [chunkLoop]
    simp only [resetR, hb, Nat.one_ne_zero, if_false, or_true, not_true_eq_false, false_and, if_true,
      ge_iff_le, Nat.reduceLeDiff, gt_iff_lt, Nat.reduceLT, if_neg hlen, if_neg hcap',
      List.take_left, List.drop_left]
  · have e20 : ¬ (2 : Nat) = 0 := by decide
    have e21 : ¬ (2 : Nat) = 1 := by decide
    have e2g : ¬ (2 : Nat) ≥ 224 := by decide
    have e2h : ¬ (2 : Nat) ≥ 128 := by decide
    have e2i : ¬ (2 : Nat) > 2 := by decide
    rw [chunkLoop]
    simp only [resetR, hb, hnd, e20, e21, e2g, e2h, e2i, if_false, or_self, Bool.false_eq_true, and_false,
      if_neg hlen, if_neg hcap', List.take_left, List.drop_left]

end LzmaVerif.Lzma2
