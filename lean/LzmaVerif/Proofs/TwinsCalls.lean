import LzmaVerif.Proofs.Twins
/-!
Proofs about the two twins as they are CALLED (the granularity at which the real functions are run against the
model through the verification hooks `lz_match_len_fast_reject` / `rc_decode_direct_bits`):

* `get_match_len_fast_reject` = two-byte reject, then `extend_match(.., current_len = 2, ..)`;
* `decode_direct_bits` of the buffer decoder = guard, then assembly or portable loop.
-/
namespace LzmaVerif.Twins

/-! ## T2 as called: `get_match_len_fast_reject` -/

/-- **C15.**  Every byte the optimized `get_match_len_fast_reject` reads (clamped u16 reads, then the words /
    bytes of the optimized `extend_match`) is inside `buf`, for ALL `read_pos`, `dist`, `len_limit` — also
    `len_limit < 2`, where the logical extension `(len_limit - 2) as usize` is huge and only the clamp to the
    physical buffer bounds the reads. -/
theorem matchLenFastRejectOptT_inBounds (P : TwinParams) (hu : P.u16Bytes ≤ P.bufLimitSub)
    (buf : List Nat) (hlen : P.bufLimitSub ≤ buf.length) (readPos dist lenLimit : Nat) :
    ∀ i ∈ (matchLenFastRejectOptT P buf readPos dist lenLimit).2, i < buf.length := by
  intro i hi
  unfold matchLenFastRejectOptT at hi
  simp only at hi
  split at hi
  · exact fastRejectOpt_inBounds P hu buf hlen _ _ i hi
  · rw [List.mem_append] at hi
    rcases hi with hi | hi
    · exact fastRejectOpt_inBounds P hu buf hlen _ _ i hi
    · exact extendMatchOptT_inBounds P buf _ _ _ _ i hi

/-- **C14.**  Whenever the portable `get_match_len_fast_reject` does not panic, the optimized one returns the
    same length (caller's invariant `dist + 1 ≤ read_pos`). -/
theorem matchLenFastRejectOpt_eq_portable (P : TwinParams) (hs : P.bufLimitSub = 2) (hu : P.u16Bytes = 2)
    (buf : List Nat) (hB : Bytes buf) (readPos dist lenLimit : Nat) (hd : dist + 1 ≤ readPos) (v : Nat)
    (h : matchLenFastRejectPortable P buf readPos dist lenLimit = some v) :
    (matchLenFastRejectOptT P buf readPos dist lenLimit).1 = v := by
  unfold matchLenFastRejectPortable at h
  unfold matchLenFastRejectOptT
  simp only
  cases hq : fastRejectPortable buf readPos (dist + 1) with
  | none => rw [hq] at h; simp at h
  | some b =>
    rw [hq] at h
    have hv := fastRejectOpt_eq_portable P hs hu buf hB readPos (dist + 1) hd b hq
    cases b with
    | true =>
      simp only [Option.some.injEq] at h
      rw [hv]; simp only [if_true]; exact h
    | false =>
      simp only at h
      rw [hv]; simp only [Bool.false_eq_true, if_false]
      exact extendMatchOpt_eq_portable P buf _ _ _ _ _ h

/-- the portable twin against the byte-wise specification, inside the callers' invariants
    (`2 ≤ len_limit`, `read_pos + len_limit ≤ buf.len()`) -/
theorem matchLenFastRejectPortable_spec (P : TwinParams) (hW : 0 < P.wordSize) (hd8 : P.tzDiv = 8)
    (buf : List Nat) (hB : Bytes buf) (readPos dist lenLimit : Nat) (h2 : 2 ≤ lenLimit)
    (hb : readPos + lenLimit ≤ buf.length) :
    matchLenFastRejectPortable P buf readPos dist lenLimit =
      some (if buf.getD readPos 0 ≠ buf.getD (readPos - (dist + 1)) 0
               ∨ buf.getD (readPos + 1) 0 ≠ buf.getD (readPos + 1 - (dist + 1)) 0 then 0
            else 2 + byteMatchLen (slice buf (readPos + 2) (lenLimit - 2))
                                  (slice buf (readPos + 2 - (dist + 1)) (lenLimit - 2))) := by
  unfold matchLenFastRejectPortable fastRejectPortable
  have h1 : readPos + 1 < buf.length := by omega
  simp only [if_pos h1]
  by_cases hc : buf.getD readPos 0 ≠ buf.getD (readPos - (dist + 1)) 0
               ∨ buf.getD (readPos + 1) 0 ≠ buf.getD (readPos + 1 - (dist + 1)) 0
  · simp only [hc, decide_true, if_true]
  · simp only [hc, decide_false, if_false]
    exact extendMatchPortable_spec P hW hd8 buf hB readPos 2 (dist + 1) lenLimit h2 (by omega)

/-- non-vacuity: a match of length 5 found behind an accepted two-byte check, both twins -/
example :
    let buf := [1, 2, 3, 1, 2, 3, 1, 2, 9]
    matchLenFastRejectPortable srcParams buf 3 2 6 = some 5 ∧
    (matchLenFastRejectOptT srcParams buf 3 2 6).1 = 5 ∧
    matchLenFastRejectPortable srcParams buf 4 0 4 = some 0 ∧
    (matchLenFastRejectOptT srcParams buf 4 0 4).1 = 0 := by decide

/-- witness (outside the callers' invariant `2 ≤ len_limit`, observed on the real code through the hook): with
    `len_limit = 1` the optimized twin does not return 2 but extends to the physical end of the buffer, because
    `(1 - 2) as usize` is `2^64 - 1`; the portable twin panics on its slice bound. -/
theorem fastReject_small_limit_extends :
    (matchLenFastRejectOptT srcParams [7, 7, 7, 7, 7, 7] 1 0 1).1 = 6 - 1 ∧
    matchLenFastRejectPortable srcParams [7, 7, 7, 7, 7, 7] 1 0 1 = none := by decide

/-! ## T4 as called: the guard of `decode_direct_bits` -/

theorem normCount_le (P : TwinParams) : ∀ k r, normCount P k r ≤ k := by
  intro k
  induction k with
  | zero => intro r; simp [normCount]
  | succ k ih =>
    intro r
    unfold normCount
    split
    · have := ih ((r * 2 ^ P.shiftBits) % 2 ^ 32 / 2); omega
    · have := ih (r / 2); omega

/-- **C14.**  `decode_direct_bits` of the buffer decoder in the default x86-64 build (guard, then assembly or
    portable loop) computes exactly what the portable loop computes — result, `range`, `code` and `pos` — from
    EVERY decoder state with `2^16 ≤ range < 2^32`, `code < 2^32` (no `code < range` needed: corrupt streams
    included), every `count`, every buffer and every position (inside, at, or beyond the end): the guard
    `pos + count ≤ len` implies that the run requests no byte beyond the buffer, because a run of `count`
    bits normalises at most `count` times. -/
theorem directBitsOpt_eq_portable (P : TwinParams) (hT : P.topValue = 2 ^ 24) (hS : P.shiftBits = 8)
    (hs : P.signShift = 31) (ha : P.asmLimitSub = 1) (buf : List Nat) (hB : Bytes buf) (k : Nat)
    (s : DState) (hs0 : RangeOk s) :
    directBitsOpt P buf k s = directPortable P buf (directFuel k) k s := by
  unfold directBitsOpt
  split
  · rename_i hg
    apply directX86_eq_directPortable P hT hS hs ha buf hB k s hs0
    rw [directPortable_pos P hT hS hs buf hB k s hs0]
    have := normCount_le P k s.range
    omega
  · rfl

/-- the guard is what makes this true: non-vacuity (a run that ends exactly at the end of the buffer takes the
    assembly) and the state of `direct_overrun_diverges` (already past the end: guard fails, portable loop) -/
example :
    let s : DState := ⟨0x00FFFFFF, 0x00123456, 1, 0⟩
    RangeOk s ∧ (0 < 2 ∧ s.pos + 2 ≤ [1, 2, 3].length) ∧
    directBitsOpt srcParams [1, 2, 3] 2 s = directX86 srcParams [1, 2, 3] 2 s ∧
    directBitsOpt srcParams [0xFF] 1 ⟨2 ^ 23 + 1, 2 ^ 22, 1, 0⟩ = ⟨2 ^ 30 + 128, 2 ^ 30, 2, 0⟩ := by
  refine ⟨by unfold RangeOk; decide, by decide, by decide +kernel, by decide +kernel⟩

end LzmaVerif.Twins

#print axioms LzmaVerif.Twins.matchLenFastRejectOptT_inBounds
#print axioms LzmaVerif.Twins.matchLenFastRejectOpt_eq_portable
#print axioms LzmaVerif.Twins.matchLenFastRejectPortable_spec
#print axioms LzmaVerif.Twins.fastReject_small_limit_extends
#print axioms LzmaVerif.Twins.normCount_le
#print axioms LzmaVerif.Twins.directBitsOpt_eq_portable
