import LzmaVerif.Proofs.ProgUnfold
/-!
# Truncation, level 1: the range decoder is monotone in its input

`ExtBy extra d d'` : `d` and `d'` are the same decoder state, neither has read past the end, and `d'` has exactly the
bytes `extra` more input available behind what `d` has.  Every decoder step (`normalize`, `decodeBitP p`,
`decodeDirect1`) from `ExtBy`-related states either stays `ExtBy`-related (same `extra`) with equal outputs, or the
short side has run out (`over > 0`).  Lifted to every decision program (`decRun_ext`).  Also: `over` never decreases
and the remaining input is always a suffix of the earlier remaining input.
-/
namespace LzmaVerif.Rc

/-- same state, `d'` just has `extra` more input available -/
def ExtBy (extra : List Nat) (d d' : Dec) : Prop :=
  d.range = d'.range ∧ d.code = d'.code ∧ d.over = 0 ∧ d'.over = 0 ∧ d'.inp = d.inp ++ extra

/-- same state, `d'` just has more input available -/
def Ext (d d' : Dec) : Prop :=
  d.range = d'.range ∧ d.code = d'.code ∧ d.over = 0 ∧ d'.over = 0 ∧ ∃ extra, d'.inp = d.inp ++ extra

theorem ExtBy.ext {x : List Nat} {d d' : Dec} (h : ExtBy x d d') : Ext d d' :=
  ⟨h.1, h.2.1, h.2.2.1, h.2.2.2.1, x, h.2.2.2.2⟩

theorem Ext.extBy {d d' : Dec} (h : Ext d d') : ∃ x, ExtBy x d d' := by
  obtain ⟨h1, h2, h3, h4, x, h5⟩ := h
  exact ⟨x, h1, h2, h3, h4, h5⟩

/-! ## `normalize` -/

theorem normalize_cases (d : Dec) :
    (¬ d.range < 2^24 ∧ d.normalize = d) ∨
    (d.range < 2^24 ∧ ∃ b rest, d.inp = b :: rest ∧
      d.normalize = { range := d.range * 256, code := (d.code * 256 + b) % 2^32, inp := rest, over := d.over }) ∨
    (d.range < 2^24 ∧ d.inp = [] ∧
      d.normalize = { range := d.range * 256, code := (d.code * 256 + 0) % 2^32, inp := [], over := d.over + 1 }) := by
  obtain ⟨r, c, i, o⟩ := d
  by_cases h : r < 2^24
  · right
    cases i with
    | nil =>
      right
      refine ⟨h, rfl, ?_⟩
      unfold Dec.normalize Dec.readByte
      simp only [if_pos h]
    | cons b rest =>
      left
      refine ⟨h, b, rest, rfl, ?_⟩
      unfold Dec.normalize Dec.readByte
      simp only [if_pos h]
  · left
    refine ⟨h, ?_⟩
    unfold Dec.normalize
    simp only [if_neg h]

theorem normalize_over_le (d : Dec) : d.over ≤ d.normalize.over := by
  rcases normalize_cases d with ⟨_, h⟩ | ⟨_, b, rest, _, h⟩ | ⟨_, _, h⟩ <;> rw [h]
  · exact Nat.le_refl _
  · exact Nat.le_refl _
  · exact Nat.le_succ _

theorem normalize_inp_suffix (d : Dec) : d.normalize.inp <:+ d.inp := by
  rcases normalize_cases d with ⟨_, h⟩ | ⟨_, b, rest, hi, h⟩ | ⟨_, hi, h⟩ <;> rw [h]
  · exact List.suffix_refl _
  · rw [hi]; exact List.suffix_cons b rest
  · rw [hi]; exact List.suffix_refl _

/-- one `normalize` from related states: still related, or the short side has run out -/
theorem normalize_ext {x : List Nat} {d d' : Dec} (h : ExtBy x d d') :
    d.normalize.over > 0 ∨ ExtBy x d.normalize d'.normalize := by
  obtain ⟨hr, hc, ho, ho', hi⟩ := h
  rcases normalize_cases d with ⟨hlt, hn⟩ | ⟨hlt, b, rest, hinp, hn⟩ | ⟨hlt, hinp, hn⟩
  · right
    rcases normalize_cases d' with ⟨_, hn'⟩ | ⟨hlt', _⟩ | ⟨hlt', _⟩
    · rw [hn, hn']; exact ⟨hr, hc, ho, ho', hi⟩
    · rw [← hr] at hlt'; exact absurd hlt' hlt
    · rw [← hr] at hlt'; exact absurd hlt' hlt
  · right
    rw [hinp, List.cons_append] at hi
    rcases normalize_cases d' with ⟨hlt', _⟩ | ⟨_, b', rest', hinp', hn'⟩ | ⟨_, hinp', _⟩
    · rw [← hr] at hlt'; exact absurd hlt hlt'
    · rw [hinp'] at hi
      injection hi with hb hrest
      rw [hn, hn', hr, hc, hb]
      exact ⟨rfl, rfl, ho, ho', hrest⟩
    · rw [hinp'] at hi; cases hi
  · left
    rw [hn]
    exact Nat.succ_pos _

/-! ## `decodeBitP` and `decodeDirect1`: `normalize` followed by an update of `range`/`code` that depends on
`range`/`code` only.

NOTE: nothing here may mention a projection of `d.decodeDirect1` (`d.decodeDirect1.1`, `.2`): weak-head normalising
it makes Lean compare `2^31` with an open term in unary.  Results are always named through an equation
`d.decodeDirect1 = (b, d1)`. -/

theorem decodeBitP_pair (d d' : Dec) (p : Nat) (hr : d.normalize.range = d'.normalize.range)
    (hc : d.normalize.code = d'.normalize.code) :
    ∃ b r c, d.decodeBitP p = (b, { d.normalize with range := r, code := c }) ∧
      d'.decodeBitP p = (b, { d'.normalize with range := r, code := c }) := by
  simp only [Dec.decodeBitP]
  generalize d.normalize = n at *
  generalize d'.normalize = n' at *
  rw [← hr, ← hc]
  by_cases h : n.code < n.range / 2 ^ 11 * p
  · rw [if_pos h, if_pos h]
    exact ⟨false, n.range / 2 ^ 11 * p, n.code, rfl, by rw [hr, hc]⟩
  · rw [if_neg h, if_neg h]
    exact ⟨true, n.range - n.range / 2 ^ 11 * p, n.code - n.range / 2 ^ 11 * p, rfl, rfl⟩

theorem decodeDirect1_pair (d d' : Dec) (hr : d.normalize.range = d'.normalize.range)
    (hc : d.normalize.code = d'.normalize.code) :
    ∃ b r c, d.decodeDirect1 = (b, { d.normalize with range := r, code := c }) ∧
      d'.decodeDirect1 = (b, { d'.normalize with range := r, code := c }) := by
  simp only [Dec.decodeDirect1]
  generalize d.normalize = n at *
  generalize d'.normalize = n' at *
  rw [← hr, ← hc]
  by_cases h : (n.code + 2 ^ 32 - n.range / 2) % 2 ^ 32 ≥ 2 ^ 31
  · rw [if_pos h, if_pos h]
    exact ⟨false, n.range / 2, n.code, rfl, by rw [hc]⟩
  · rw [if_neg h, if_neg h]
    exact ⟨true, n.range / 2, (n.code + 2 ^ 32 - n.range / 2) % 2 ^ 32, rfl, rfl⟩

/-- `decodeBitP` leaves `inp`/`over` as `normalize` left them -/
theorem decodeBitP_norm (d : Dec) (p : Nat) :
    ∃ b d1, d.decodeBitP p = (b, d1) ∧ d1.over = d.normalize.over ∧ d1.inp = d.normalize.inp := by
  obtain ⟨b, r, c, h, _⟩ := decodeBitP_pair d d p rfl rfl
  exact ⟨b, _, h, rfl, rfl⟩

/-- `decodeDirect1` leaves `inp`/`over` as `normalize` left them -/
theorem decodeDirect1_norm (d : Dec) :
    ∃ b d1, d.decodeDirect1 = (b, d1) ∧ d1.over = d.normalize.over ∧ d1.inp = d.normalize.inp := by
  obtain ⟨b, r, c, h, _⟩ := decodeDirect1_pair d d rfl rfl
  exact ⟨b, _, h, rfl, rfl⟩

theorem extBy_upd {x : List Nat} {n n' : Dec} (h : ExtBy x n n') (r c : Nat) :
    ExtBy x { n with range := r, code := c } { n' with range := r, code := c } :=
  ⟨rfl, rfl, h.2.2.1, h.2.2.2.1, h.2.2.2.2⟩

/-- one adaptive bit from related states: the short side has run out, or same bit and still related -/
theorem decodeBitP_ext {x : List Nat} {d d' : Dec} (h : ExtBy x d d') (p : Nat) :
    (∃ b d1, d.decodeBitP p = (b, d1) ∧ d1.over > 0) ∨
    (∃ b d1 d1', d.decodeBitP p = (b, d1) ∧ d'.decodeBitP p = (b, d1') ∧ ExtBy x d1 d1') := by
  rcases normalize_ext h with ho | he
  · left
    obtain ⟨b, d1, h1, h2, _⟩ := decodeBitP_norm d p
    exact ⟨b, d1, h1, by rw [h2]; exact ho⟩
  · right
    obtain ⟨b, r, c, h1, h2⟩ := decodeBitP_pair d d' p he.1 he.2.1
    exact ⟨b, _, _, h1, h2, extBy_upd he r c⟩

/-- one direct bit from related states -/
theorem decodeDirect1_ext {x : List Nat} {d d' : Dec} (h : ExtBy x d d') :
    (∃ b d1, d.decodeDirect1 = (b, d1) ∧ d1.over > 0) ∨
    (∃ b d1 d1', d.decodeDirect1 = (b, d1) ∧ d'.decodeDirect1 = (b, d1') ∧ ExtBy x d1 d1') := by
  rcases normalize_ext h with ho | he
  · left
    obtain ⟨b, d1, h1, h2, _⟩ := decodeDirect1_norm d
    exact ⟨b, d1, h1, by rw [h2]; exact ho⟩
  · right
    obtain ⟨b, r, c, h1, h2⟩ := decodeDirect1_pair d d' he.1 he.2.1
    exact ⟨b, _, _, h1, h2, extBy_upd he r c⟩

end LzmaVerif.Rc

namespace LzmaVerif.Prog
open LzmaVerif Rc

/-- `over` never decreases along a run -/
theorem decRun_over_le {α : Type} (prog : Prog α) : ∀ (ps : Probs) (d : Dec) (a : α) (ps₁ : Probs) (e₁ : Dec),
    prog.decRun ps d = (a, ps₁, e₁) → d.over ≤ e₁.over := by
  induction prog with
  | ret a =>
    intro ps d a' ps₁ e₁ hr
    rw [decRun_ret] at hr
    injection hr with _ hr; injection hr with _ hr
    subst hr; exact Nat.le_refl _
  | bit i k ih =>
    intro ps d a ps₁ e₁ hr
    obtain ⟨b, d1, hres, h1, _⟩ := decodeBitP_norm d (ps.get i)
    rw [decRun_bit_eq i k ps d b d1 hres] at hr
    have := ih b _ d1 a ps₁ e₁ hr
    have := normalize_over_le d
    omega
  | direct k ih =>
    intro ps d a ps₁ e₁ hr
    obtain ⟨b, d1, hres, h1, _⟩ := decodeDirect1_norm d
    rw [decRun_direct_eq k ps d b d1 hres] at hr
    have := ih b _ d1 a ps₁ e₁ hr
    have := normalize_over_le d
    omega

/-- the input only shrinks along a run: what is left is a suffix of what was there -/
theorem decRun_inp_suffix {α : Type} (prog : Prog α) : ∀ (ps : Probs) (d : Dec) (a : α) (ps₁ : Probs) (e₁ : Dec),
    prog.decRun ps d = (a, ps₁, e₁) → e₁.inp <:+ d.inp := by
  induction prog with
  | ret a =>
    intro ps d a' ps₁ e₁ hr
    rw [decRun_ret] at hr
    injection hr with _ hr; injection hr with _ hr
    subst hr; exact List.suffix_refl _
  | bit i k ih =>
    intro ps d a ps₁ e₁ hr
    obtain ⟨b, d1, hres, _, h1⟩ := decodeBitP_norm d (ps.get i)
    rw [decRun_bit_eq i k ps d b d1 hres] at hr
    have h2 := ih b _ d1 a ps₁ e₁ hr
    have h3 := normalize_inp_suffix d
    rw [h1] at h2
    exact List.IsSuffix.trans h2 h3
  | direct k ih =>
    intro ps d a ps₁ e₁ hr
    obtain ⟨b, d1, hres, _, h1⟩ := decodeDirect1_norm d
    rw [decRun_direct_eq k ps d b d1 hres] at hr
    have h2 := ih b _ d1 a ps₁ e₁ hr
    have h3 := normalize_inp_suffix d
    rw [h1] at h2
    exact List.IsSuffix.trans h2 h3

/-- the number of consumed bytes is monotone: never more input left than before -/
theorem decRun_inp_length_le {α : Type} (prog : Prog α) (ps : Probs) (d : Dec) (a : α) (ps₁ : Probs) (e₁ : Dec)
    (hr : prog.decRun ps d = (a, ps₁, e₁)) : e₁.inp.length ≤ d.inp.length :=
  (decRun_inp_suffix prog ps d a ps₁ e₁ hr).length_le

/-- **Range decoder monotonicity, every decision program** (with the surplus `x` tracked): running the same program
    on the same state with `x` more input behind it either makes the short side run out, or gives the same result, the
    same adapted tables, and final states that are again the same up to the surplus `x`. -/
theorem decRun_extBy {α : Type} (prog : Prog α) : ∀ (ps : Probs) (d d' : Dec) (x : List Nat), ExtBy x d d' →
    ∀ (a a' : α) (ps₁ ps₁' : Probs) (e₁ e₁' : Dec),
    prog.decRun ps d = (a, ps₁, e₁) → prog.decRun ps d' = (a', ps₁', e₁') →
    e₁.over > 0 ∨ (a = a' ∧ ps₁ = ps₁' ∧ ExtBy x e₁ e₁') := by
  induction prog with
  | ret a =>
    intro ps d d' x h a₁ a₁' ps₁ ps₁' e₁ e₁' hr hr'
    right
    rw [decRun_ret] at hr hr'
    injection hr with ha hr; injection hr with hp he
    injection hr' with ha' hr'; injection hr' with hp' he'
    subst ha hp he ha' hp' he'
    exact ⟨rfl, rfl, h⟩
  | bit i k ih =>
    intro ps d d' x h a a' ps₁ ps₁' e₁ e₁' hr hr'
    rcases decodeBitP_ext h (ps.get i) with ⟨b, d1, hres, ho⟩ | ⟨b, d1, d1', hres, hres', he⟩
    · left
      rw [decRun_bit_eq i k ps d b d1 hres] at hr
      have := decRun_over_le (k b) _ d1 a ps₁ e₁ hr
      omega
    · rw [decRun_bit_eq i k ps d b d1 hres] at hr
      rw [decRun_bit_eq i k ps d' b d1' hres'] at hr'
      exact ih b _ d1 d1' x he a a' ps₁ ps₁' e₁ e₁' hr hr'
  | direct k ih =>
    intro ps d d' x h a a' ps₁ ps₁' e₁ e₁' hr hr'
    rcases decodeDirect1_ext h with ⟨b, d1, hres, ho⟩ | ⟨b, d1, d1', hres, hres', he⟩
    · left
      rw [decRun_direct_eq k ps d b d1 hres] at hr
      have := decRun_over_le (k b) _ d1 a ps₁ e₁ hr
      omega
    · rw [decRun_direct_eq k ps d b d1 hres] at hr
      rw [decRun_direct_eq k ps d' b d1' hres'] at hr'
      exact ih b _ d1 d1' x he a a' ps₁ ps₁' e₁ e₁' hr hr'

/-- **Range decoder monotonicity** in the form: for `(a, ps₁, e₁) = prog.decRun ps d` and
    `(a', ps₁', e₁') = prog.decRun ps d'` with `Ext d d'`: either `e₁.over > 0`, or `a = a'`, `ps₁ = ps₁'`, `Ext e₁ e₁'`. -/
theorem decRun_ext {α : Type} (prog : Prog α) (ps : Probs) (d d' : Dec) (h : Ext d d')
    (a a' : α) (ps₁ ps₁' : Probs) (e₁ e₁' : Dec)
    (hr : prog.decRun ps d = (a, ps₁, e₁)) (hr' : prog.decRun ps d' = (a', ps₁', e₁')) :
    e₁.over > 0 ∨ (a = a' ∧ ps₁ = ps₁' ∧ Ext e₁ e₁') := by
  obtain ⟨x, hx⟩ := h.extBy
  rcases decRun_extBy prog ps d d' x hx a a' ps₁ ps₁' e₁ e₁' hr hr' with h | ⟨h1, h2, h3⟩
  · exact Or.inl h
  · exact Or.inr ⟨h1, h2, h3.ext⟩

end LzmaVerif.Prog
