/-
  The normalisation of bt4.rs:62-67 (`LZEncoder::normalize`, lz_encoder.rs:482-489), which the step
  function omits because `lz_pos = 0x7FFFFFFF` needs 2 GiB of input (`bt4_inv_reachable`):
  `entry := max(entry, off) - off`, `lz_pos := lz_pos - off` with `off = lz_pos - cyclic_size`
  keeps every `delta < cyclic_size` and maps every other entry to a rejected `delta ≥ cyclic_size`.
-/
import LzmaVerif.Proofs.Bt4Base
namespace LzmaVerif.Mf.Bt4

/-- `normalize_scalar` on one entry -/
def normEntry (off e : Nat) : Nat := max e off - off

theorem normalize_delta (cs lz e : Nat) (hcs : cs ≤ lz) (he : e ≤ lz) :
    let off := lz - cs
    (lz - e < cs → (lz - off) - normEntry off e = lz - e) ∧
    (¬ lz - e < cs → (lz - off) - normEntry off e ≥ cs) := by
  intro off
  unfold normEntry
  constructor
  · intro h; simp only [off]; omega
  · intro h; simp only [off]; omega

/-- normalised entries are again valid entries (0, or above the new `cyclic_size` floor is not needed:
    a normalised live entry `e - off` satisfies `0 < e - off ≤ cs`, and is rejected or accepted by `delta` alone) -/
theorem normalize_entry_le (cs lz e : Nat) (hcs : cs ≤ lz) (he : e ≤ lz) :
    normEntry (lz - cs) e ≤ lz - (lz - cs) := by
  unfold normEntry; omega

end LzmaVerif.Mf.Bt4
