import LzmaVerif.Proofs.FiltersBase
import LzmaVerif.Proofs.FiltersBits
/-!
x86 BCJ filter: decoding inverts encoding, for any start offset.  Core Lean only.

The filter is stateful (`prevPos`, `prevMask`) and the decoder's decisions read bytes that later
encoder steps modify, so the generic `scan`/`StepOK` machinery does not apply.  Structure:

* `xl` / `x86Loop_eq_xl`: one-step normal form of `x86Loop` (buffer component): non-opcode /
  converted (`cvt`) / not converted, with the effective mask `effPm`.
* `conv`, `conv_rt`, `conv_cong`, `x86Conv_rt`: the inner `x86Conv` loop; the encoder stops after at
  most two rounds on a non-MS test byte, the decoder mirrors it; only residues mod `2^25` matter.
* `cvt_store`: on a converted operand the decoder takes the same decision and restores the bytes.
* `future`: an opcode the encoder did not convert is not convertible in the final encoded buffer
  (either its four operand bytes are unchanged or byte `i+4` became a non-MS byte).
* `xl_inv`: the main induction (same fuel, same path on both sides).
-/
namespace LzmaVerif.Filters
open LzmaVerif.Bits

/-- distance to the previous opcode -/
def xDist (pp : Option Nat) (i : Nat) : Nat := match pp with | none => i + 1 | some q => i - q

/-- effective `prev_mask` at an opcode position -/
def effPm (pp : Option Nat) (m i : Nat) : Nat :=
  if xDist pp i > 3 then 0 else (m <<< (xDist pp i - 1)) &&& 7

/-- the decision "convert the operand at `i`" -/
def cvt (pm : Nat) (b : Buf) (i : Nat) : Bool :=
  (decide (pm = 0) || (maskAllowed pm && !msByte (gb b (i + 4 - maskBit pm)))) && msByte (gb b (i + 4))

def opnd (b : Buf) (i : Nat) : Nat :=
  gb b (i + 1) + 256 * gb b (i + 2) + 65536 * gb b (i + 3) + 16777216 * gb b (i + 4)

def store (b : Buf) (i dest : Nat) : Buf :=
  sb (sb (sb (sb b (i + 1) dest) (i + 2) (dest >>> 8)) (i + 3) (dest >>> 16)) (i + 4)
    (if (dest >>> 24) &&& 1 = 1 then 0xFF else 0)

/-- buffer component of `x86Loop`, in normal form -/
def xl (enc : Bool) (st : St) : Nat → Nat → Option Nat → Nat → Buf → Buf
  | 0, _, _, _, b => b
  | f+1, i, pp, m, b =>
    if i + 5 > b.size then b else
    if gb b i ≠ 0xE8 ∧ gb b i ≠ 0xE9 then xl enc st f (i + 1) pp m b else
    if cvt (effPm pp m i) b i then
      xl enc st f (i + 5) (some i) (effPm pp m i)
        (store b i (x86Conv enc (posAt st i) (effPm pp m i) 64 (opnd b i)))
    else xl enc st f (i + 1) (some i) ((effPm pp m i <<< 1) ||| 1) b

theorem x86Loop_eq_xl (enc : Bool) (st : St) : ∀ f i pp m b,
    (x86Loop enc st f i pp m b).1 = xl enc st f i pp m b := by
  intro f
  induction f with
  | zero => intro i pp m b; rfl
  | succ n ih =>
    intro i pp m b
    simp only [x86Loop, xl]
    by_cases h1 : i + 5 > b.size
    · rw [if_pos h1, if_pos h1]
    · rw [if_neg h1, if_neg h1]
      by_cases h2 : gb b i ≠ 0xE8 ∧ gb b i ≠ 0xE9
      · simp only [if_pos h2]; exact ih _ _ _ _
      · simp only [if_neg h2]
        simp only [← ih]
        have key : ∀ d : Nat, d = xDist pp i →
            (match (if d > 3 then some 0 else
                if (m <<< (d - 1)) &&& 7 ≠ 0 ∧ (¬ maskAllowed ((m <<< (d - 1)) &&& 7) ∨
                  msByte (gb b (i + 4 - maskBit ((m <<< (d - 1)) &&& 7)))) then none
                else some ((m <<< (d - 1)) &&& 7) : Option Nat) with
              | none => x86Loop enc st n (i + 1) (some i) ((((m <<< (d - 1)) &&& 7) <<< 1) ||| 1) b
              | some pm =>
                if msByte (gb b (i + 4)) then
                  x86Loop enc st n (i + 5) (some i) pm (store b i (x86Conv enc (posAt st i) pm 64 (opnd b i)))
                else x86Loop enc st n (i + 1) (some i) ((pm <<< 1) ||| 1) b).1 =
            (if cvt (effPm pp m i) b i then
              (x86Loop enc st n (i + 5) (some i) (effPm pp m i)
                (store b i (x86Conv enc (posAt st i) (effPm pp m i) 64 (opnd b i)))).1
            else (x86Loop enc st n (i + 1) (some i) ((effPm pp m i <<< 1) ||| 1) b).1) := by
          intro d hd
          subst hd
          by_cases h3 : xDist pp i > 3
          · have e : effPm pp m i = 0 := by simp only [effPm, if_pos h3]
            rw [e]
            simp only [if_pos h3, cvt, decide_true, Bool.true_or, Bool.true_and]
            split <;> rfl
          · have e : effPm pp m i = (m <<< (xDist pp i - 1)) &&& 7 := by simp only [effPm, if_neg h3]
            rw [e]
            simp only [if_neg h3, cvt]
            by_cases h5 : (m <<< (xDist pp i - 1)) &&& 7 = 0
            · simp [h5]
              split <;> rfl
            · by_cases h6 : maskAllowed ((m <<< (xDist pp i - 1)) &&& 7) = true
              · by_cases h7 : msByte (gb b (i + 4 - maskBit ((m <<< (xDist pp i - 1)) &&& 7))) = true
                · simp [h5, h6, h7]
                · simp [h5, h6, h7]
                  split <;> rfl
              · simp [h5, h6]
        cases pp with
        | none => exact key (i + 1) rfl
        | some q => exact key (i - q) rfl

/-! ## `store` and frame lemmas -/

theorem size_store (b : Buf) (i v : Nat) : (store b i v).size = b.size := by
  simp only [store, size_sb]

theorem BBytes_store (b : Buf) (i v : Nat) (h : BBytes b) : BBytes (store b i v) :=
  BBytes_sb _ _ _ (BBytes_sb _ _ _ (BBytes_sb _ _ _ (BBytes_sb _ _ _ h)))

theorem gb_store_out (b : Buf) (i v k : Nat) (hk : k ≤ i ∨ i + 5 ≤ k) : gb (store b i v) k = gb b k := by
  simp only [store]
  rw [gb_sb_ne _ _ _ _ (by omega), gb_sb_ne _ _ _ _ (by omega), gb_sb_ne _ _ _ _ (by omega),
    gb_sb_ne _ _ _ _ (by omega)]

theorem gb_store_1 (b : Buf) (i v : Nat) (hw : i + 5 ≤ b.size) : gb (store b i v) (i + 1) = v % 256 := by
  simp only [store]
  rw [gb_sb_ne _ _ _ _ (by omega), gb_sb_ne _ _ _ _ (by omega), gb_sb_ne _ _ _ _ (by omega),
    gb_sb_eq _ _ _ (by omega)]

theorem gb_store_2 (b : Buf) (i v : Nat) (hw : i + 5 ≤ b.size) :
    gb (store b i v) (i + 2) = v / 2 ^ 8 % 256 := by
  simp only [store]
  rw [gb_sb_ne _ _ _ _ (by omega), gb_sb_ne _ _ _ _ (by omega),
    gb_sb_eq _ _ _ (by simp only [size_sb]; omega), shr_eq]

theorem gb_store_3 (b : Buf) (i v : Nat) (hw : i + 5 ≤ b.size) :
    gb (store b i v) (i + 3) = v / 2 ^ 16 % 256 := by
  simp only [store]
  rw [gb_sb_ne _ _ _ _ (by omega), gb_sb_eq _ _ _ (by simp only [size_sb]; omega), shr_eq]

theorem gb_store_4 (b : Buf) (i v : Nat) (hw : i + 5 ≤ b.size) :
    gb (store b i v) (i + 4) = if v / 2 ^ 24 % 2 = 1 then 255 else 0 := by
  simp only [store]
  rw [gb_sb_eq _ _ _ (by simp only [size_sb]; omega), shr_eq, and_1]
  split <;> rfl

theorem xl_size (enc : Bool) (st : St) : ∀ f i pp m b, (xl enc st f i pp m b).size = b.size := by
  intro f
  induction f with
  | zero => intro i pp m b; rfl
  | succ n ih =>
    intro i pp m b
    simp only [xl]
    split
    · rfl
    · split
      · exact ih _ _ _ _
      · split
        · rw [ih, size_store]
        · exact ih _ _ _ _

theorem xl_bytes (enc : Bool) (st : St) : ∀ f i pp m b, BBytes b → BBytes (xl enc st f i pp m b) := by
  intro f
  induction f with
  | zero => intro i pp m b h; exact h
  | succ n ih =>
    intro i pp m b h
    simp only [xl]
    split
    · exact h
    · split
      · exact ih _ _ _ _ h
      · split
        · exact ih _ _ _ _ (BBytes_store _ _ _ h)
        · exact ih _ _ _ _ h

/-- a run from position `i` never changes bytes at positions `≤ i` -/
theorem xl_frame (enc : Bool) (st : St) : ∀ f i pp m b k, k ≤ i →
    gb (xl enc st f i pp m b) k = gb b k := by
  intro f
  induction f with
  | zero => intro i pp m b k _; rfl
  | succ n ih =>
    intro i pp m b k hk
    simp only [xl]
    split
    · rfl
    · split
      · exact ih _ _ _ _ _ (by omega)
      · split
        · rw [ih _ _ _ _ _ (by omega), gb_store_out _ _ _ _ (Or.inl hk)]
        · exact ih _ _ _ _ _ (by omega)

/-! ## arithmetic of `x86Conv` -/

theorem msByte_iff (x : Nat) : msByte x = true ↔ (x = 0 ∨ x = 255) := by
  simp [msByte]

def xflip (K x : Nat) : Nat := x / 2 ^ K * 2 ^ K + (2 ^ K - 1 - x % 2 ^ K)

theorem xor_mask (x K : Nat) : x ^^^ (2 ^ K - 1) = xflip K x := by
  have hlt : 2 ^ K - 1 - x % 2 ^ K < 2 ^ K := by
    have := Nat.two_pow_pos K
    omega
  have e : 2 ^ K - 1 - x % 2 ^ K = 2 ^ K - (x % 2 ^ K + 1) := by omega
  unfold xflip
  rw [← Nat.shiftLeft_eq, Nat.shiftLeft_add_eq_or_of_lt hlt, e]
  apply Nat.eq_of_testBit_eq
  intro i
  have hm : x % 2 ^ K < 2 ^ K := Nat.mod_lt _ (Nat.two_pow_pos K)
  simp only [Nat.testBit_xor, Nat.testBit_or, Nat.testBit_shiftLeft, Nat.testBit_two_pow_sub_one,
    Nat.testBit_two_pow_sub_succ hm, Nat.testBit_mod_two_pow, Nat.testBit_div_two_pow]
  by_cases h : i < K
  · have h' : ¬ i ≥ K := by omega
    simp [h, h']
  · have h' : i ≥ K := by omega
    have : K + (i - K) = i := by omega
    simp [h, h']

theorem and_FF (x : Nat) : x &&& 0xFF = x % 256 := and_mask x 8

def tbK (K x : Nat) : Nat := x / 2 ^ (K - 8) % 256

def conv (enc : Bool) (p K : Nat) : Nat → Nat → Nat
  | 0, src => if enc then wadd src p else wsub src p
  | f+1, src =>
    if ¬ msByte (tbK K (if enc then wadd src p else wsub src p)) then
      (if enc then wadd src p else wsub src p)
    else conv enc p K f (xflip K (if enc then wadd src p else wsub src p))

theorem maskBit_1 : maskBit 1 = 1 := rfl
theorem maskBit_2 : maskBit 2 = 2 := rfl
theorem maskBit_4 : maskBit 4 = 3 := rfl

theorem x86Conv_zero (enc : Bool) (p f src : Nat) :
    x86Conv enc p 0 (f + 1) src = if enc then wadd src p else wsub src p := by
  simp only [x86Conv, if_pos]

theorem x86Conv_eq (enc : Bool) (p pm : Nat) (hpm : pm = 1 ∨ pm = 2 ∨ pm = 4) : ∀ f src,
    x86Conv enc p pm f src = conv enc p (32 - 8 * maskBit pm) f src := by
  intro f
  induction f with
  | zero => intro src; rfl
  | succ n ih =>
    intro src
    simp only [x86Conv, conv]
    have h0 : pm ≠ 0 := by omega
    rw [if_neg h0, xor_mask, shr_eq, and_FF, ih]
    have e1 : 24 - maskBit pm * 8 = 32 - 8 * maskBit pm - 8 := by omega
    have e2 : 32 - maskBit pm * 8 = 32 - 8 * maskBit pm := by omega
    rw [e1, e2]
    rfl


def KOK (K : Nat) : Prop := K = 8 ∨ K = 16 ∨ K = 24

theorem tbK_lt (K x : Nat) : tbK K x < 256 := Nat.mod_lt _ (by decide)

theorem ms_compl (t : Nat) (ht : t < 256) : msByte (255 - t) = msByte t := by
  rw [Bool.eq_iff_iff, msByte_iff, msByte_iff]; omega

theorem tbK_xflip (K x : Nat) (hK : KOK K) : tbK K (xflip K x) = 255 - tbK K x := by
  rcases hK with rfl | rfl | rfl <;> simp only [tbK, xflip, Nat.reduceSub, Nat.reducePow] <;> omega

theorem xflip_xflip (K x : Nat) (hK : KOK K) : xflip K (xflip K x) = x := by
  rcases hK with rfl | rfl | rfl <;> simp only [xflip, Nat.reducePow] <;> omega

theorem xflip_lt (K x : Nat) (hK : KOK K) (hx : x < 2 ^ 32) : xflip K x < 2 ^ 32 := by
  rcases hK with rfl | rfl | rfl <;> simp only [xflip, Nat.reducePow] at hx ⊢ <;> omega

theorem wadd_lt (a p : Nat) : wadd a p < 2 ^ 32 := Nat.mod_lt _ (by decide)
theorem wsub_lt (a p : Nat) : wsub a p < 2 ^ 32 := Nat.mod_lt _ (by decide)

theorem wsub_wadd (s p : Nat) (hs : s < 2 ^ 32) : wsub (wadd s p) p = s := by
  simp only [wadd, wsub]; omega

theorem tbK_second (K s p : Nat) (hK : KOK K) :
    tbK K (wadd (xflip K (wadd s p)) p) = 255 - tbK K s := by
  rcases hK with rfl | rfl | rfl <;>
    simp only [tbK, xflip, wadd, Nat.reduceSub, Nat.reducePow] <;> omega

/-- congruence modulo `2^25` -/
theorem step_cong (enc : Bool) (a a' p : Nat) (h : a % 2 ^ 25 = a' % 2 ^ 25) :
    (if enc then wadd a p else wsub a p) % 2 ^ 25 = (if enc then wadd a' p else wsub a' p) % 2 ^ 25 := by
  cases enc
  · simp only [wsub, Bool.false_eq_true, if_false]; omega
  · simp only [wadd, if_true]; omega

theorem tbK_cong (K a a' : Nat) (hK : KOK K) (h : a % 2 ^ 25 = a' % 2 ^ 25) : tbK K a = tbK K a' := by
  rcases hK with rfl | rfl | rfl <;> simp only [tbK, Nat.reduceSub, Nat.reducePow] at h ⊢ <;> omega

theorem xflip_cong (K a a' : Nat) (hK : KOK K) (h : a % 2 ^ 25 = a' % 2 ^ 25) :
    xflip K a % 2 ^ 25 = xflip K a' % 2 ^ 25 := by
  rcases hK with rfl | rfl | rfl <;> simp only [xflip, Nat.reducePow] at h ⊢ <;> omega

theorem conv_cong (enc : Bool) (p K : Nat) (hK : KOK K) : ∀ f a a', a % 2 ^ 25 = a' % 2 ^ 25 →
    conv enc p K f a % 2 ^ 25 = conv enc p K f a' % 2 ^ 25 := by
  intro f
  induction f with
  | zero => intro a a' h; exact step_cong enc a a' p h
  | succ n ih =>
    intro a a' h
    have h1 := step_cong enc a a' p h
    simp only [conv]
    generalize (if enc = true then wadd a p else wsub a p) = x at h1 ⊢
    generalize (if enc = true then wadd a' p else wsub a' p) = x' at h1 ⊢
    rw [tbK_cong K _ _ hK h1]
    split
    · exact h1
    · exact ih _ _ (xflip_cong K _ _ hK h1)

/-- the encoder's conversion ends on a non-MS test byte, and the decoder's conversion undoes it -/
theorem conv_rt (p K : Nat) (hK : KOK K) (f src : Nat) (hs : src < 2 ^ 32)
    (ht : ¬ msByte (tbK K src) = true) :
    ¬ msByte (tbK K (conv true p K (f + 2) src)) = true ∧
    conv false p K (f + 2) (conv true p K (f + 2) src) = src := by
  by_cases h0 : msByte (tbK K (wadd src p)) = true
  · have e1 : conv true p K (f + 2) src = wadd (xflip K (wadd src p)) p := by
      have hh : ¬ msByte (tbK K (wadd (xflip K (wadd src p)) p)) = true := by
        rw [tbK_second K src p hK, ms_compl _ (tbK_lt _ _)]; exact ht
      simp [conv, h0, hh]
    rw [e1]
    refine ⟨by rw [tbK_second K src p hK, ms_compl _ (tbK_lt _ _)]; exact ht, ?_⟩
    have e2 : wsub (wadd (xflip K (wadd src p)) p) p = xflip K (wadd src p) :=
      wsub_wadd _ _ (xflip_lt K _ hK (wadd_lt _ _))
    have h3 : msByte (tbK K (xflip K (wadd src p))) = true := by
      rw [tbK_xflip K _ hK, ms_compl _ (tbK_lt _ _)]; exact h0
    have e3 : wsub (wadd src p) p = src := wsub_wadd _ _ hs
    simp only [conv, Bool.false_eq_true, if_false, e2, h3, not_true, xflip_xflip K _ hK, e3, ht,
      not_false_iff, if_true]
  · have e1 : conv true p K (f + 2) src = wadd src p := by
      simp [conv, h0]
    rw [e1]
    refine ⟨h0, ?_⟩
    have e3 : wsub (wadd src p) p = src := wsub_wadd _ _ hs
    simp only [conv, Bool.false_eq_true, if_false, e3, ht, not_false_iff, if_true]

/-! ## mask facts -/

theorem mask_allowed_cases (pm : Nat) (h : pm < 8) (ha : maskAllowed pm = true) :
    pm = 0 ∨ pm = 1 ∨ pm = 2 ∨ pm = 4 := by
  have : ∀ x : Fin 8, maskAllowed x.val = true → x.val = 0 ∨ x.val = 1 ∨ x.val = 2 ∨ x.val = 4 := by decide
  exact this ⟨pm, h⟩ ha

theorem mask_single (pm t : Nat) (h : pm < 8) (ht : t < 3) (hb : pm.testBit t = true)
    (ha : maskAllowed pm = true) : maskBit pm = t + 1 ∧ (pm = 1 ∨ pm = 2 ∨ pm = 4) := by
  have : ∀ x : Fin 8, ∀ y : Fin 3, x.val.testBit y.val = true → maskAllowed x.val = true →
      maskBit x.val = y.val + 1 ∧ (x.val = 1 ∨ x.val = 2 ∨ x.val = 4) := by decide
  exact this ⟨pm, h⟩ ⟨t, ht⟩ hb ha

theorem maskBit_le (pm : Nat) (h : pm < 8) : maskBit pm ≤ 3 := by
  have : ∀ x : Fin 8, maskBit x.val ≤ 3 := by decide
  exact this ⟨pm, h⟩

theorem effPm_lt (pp : Option Nat) (m i : Nat) : effPm pp m i < 8 := by
  unfold effPm
  split
  · decide
  · exact Nat.lt_succ_of_le Nat.and_le_right

theorem cvt_iff (pm : Nat) (b : Buf) (i : Nat) :
    cvt pm b i = true ↔
      (pm = 0 ∨ (maskAllowed pm = true ∧ ¬ msByte (gb b (i + 4 - maskBit pm)) = true)) ∧
        msByte (gb b (i + 4)) = true := by
  simp [cvt]

theorem cvt_congr (pm : Nat) (b d : Buf) (i : Nat) (hpm : pm < 8)
    (h : ∀ k, i + 1 ≤ k → k ≤ i + 4 → gb d k = gb b k) : cvt pm d i = cvt pm b i := by
  have := maskBit_le pm hpm
  simp only [cvt]
  rw [h (i + 4) (by omega) (by omega), h (i + 4 - maskBit pm) (by omega) (by omega)]

theorem opnd_congr (b d : Buf) (i : Nat)
    (h : ∀ k, i + 1 ≤ k → k ≤ i + 4 → gb d k = gb b k) : opnd d i = opnd b i := by
  simp only [opnd]
  rw [h (i + 1) (by omega) (by omega), h (i + 2) (by omega) (by omega), h (i + 3) (by omega) (by omega),
    h (i + 4) (by omega) (by omega)]

theorem store_congr (b d : Buf) (i v k : Nat) (hs : d.size = b.size) (hw : i + 5 ≤ b.size)
    (h1 : i + 1 ≤ k) (h2 : k ≤ i + 4) : gb (store d i v) k = gb (store b i v) k := by
  have : k = i + 1 ∨ k = i + 2 ∨ k = i + 3 ∨ k = i + 4 := by omega
  rcases this with rfl | rfl | rfl | rfl
  · rw [gb_store_1 _ _ _ hw, gb_store_1 _ _ _ (by omega)]
  · rw [gb_store_2 _ _ _ hw, gb_store_2 _ _ _ (by omega)]
  · rw [gb_store_3 _ _ _ hw, gb_store_3 _ _ _ (by omega)]
  · rw [gb_store_4 _ _ _ hw, gb_store_4 _ _ _ (by omega)]

/-! ## buffer-level facts about a conversion -/

theorem opnd_lt (b : Buf) (i : Nat) (hB : BBytes b) : opnd b i < 2 ^ 32 := by
  have h1 := hB (i + 1); have h2 := hB (i + 2); have h3 := hB (i + 3); have h4 := hB (i + 4)
  simp only [opnd]; omega

theorem tb_gb (b : Buf) (i pm : Nat) (hB : BBytes b) (hpm : pm = 1 ∨ pm = 2 ∨ pm = 4) :
    gb b (i + 4 - maskBit pm) = tbK (32 - 8 * maskBit pm) (opnd b i) := by
  have h1 := hB (i + 1); have h2 := hB (i + 2); have h3 := hB (i + 3); have h4 := hB (i + 4)
  rcases hpm with rfl | rfl | rfl
  · rw [maskBit_1]; simp only [tbK, opnd, Nat.reduceSub, Nat.reduceMul, Nat.reducePow]
    rw [show i + 4 - 1 = i + 3 from rfl]; omega
  · rw [maskBit_2]; simp only [tbK, opnd, Nat.reduceSub, Nat.reduceMul, Nat.reducePow]
    rw [show i + 4 - 2 = i + 2 from rfl]; omega
  · rw [maskBit_4]; simp only [tbK, opnd, Nat.reduceSub, Nat.reduceMul, Nat.reducePow]
    rw [show i + 4 - 3 = i + 1 from rfl]; omega

theorem tb_store (b : Buf) (i pm v : Nat) (hw : i + 5 ≤ b.size) (hpm : pm = 1 ∨ pm = 2 ∨ pm = 4) :
    gb (store b i v) (i + 4 - maskBit pm) = tbK (32 - 8 * maskBit pm) v := by
  rcases hpm with rfl | rfl | rfl
  · rw [maskBit_1, show i + 4 - 1 = i + 3 from rfl, gb_store_3 _ _ _ hw]; rfl
  · rw [maskBit_2, show i + 4 - 2 = i + 2 from rfl, gb_store_2 _ _ _ hw]; rfl
  · rw [maskBit_4, show i + 4 - 3 = i + 1 from rfl, gb_store_1 _ _ _ hw]
    simp only [tbK, Nat.reduceSub, Nat.reduceMul, Nat.reducePow]; omega

theorem KOK_maskBit (pm : Nat) (hpm : pm = 1 ∨ pm = 2 ∨ pm = 4) : KOK (32 - 8 * maskBit pm) := by
  rcases hpm with rfl | rfl | rfl
  · right; right; rfl
  · right; left; rfl
  · left; rfl

/-- after an encoder conversion with a non-zero mask, the tested byte is not an MS byte -/
theorem cvt_tb (p : Nat) (b : Buf) (i pm : Nat) (hB : BBytes b) (hw : i + 5 ≤ b.size)
    (hpm : pm = 1 ∨ pm = 2 ∨ pm = 4) (hc : cvt pm b i = true) :
    ¬ msByte (gb (store b i (x86Conv true p pm 64 (opnd b i))) (i + 4 - maskBit pm)) = true := by
  rw [cvt_iff] at hc
  have h0 : pm ≠ 0 := by omega
  have ht : ¬ msByte (tbK (32 - 8 * maskBit pm) (opnd b i)) = true := by
    rw [← tb_gb b i pm hB hpm]
    rcases hc.1 with h | h
    · exact absurd h h0
    · exact h.2
  rw [tb_store _ _ _ _ hw hpm, x86Conv_eq true p pm hpm]
  exact (conv_rt p _ (KOK_maskBit pm hpm) 62 _ (opnd_lt b i hB) ht).1

theorem D_cong (dest D : Nat)
    (hD : D = dest % 256 + 256 * (dest / 2 ^ 8 % 256) + 65536 * (dest / 2 ^ 16 % 256) +
      16777216 * (if dest / 2 ^ 24 % 2 = 1 then 255 else 0)) : D % 2 ^ 25 = dest % 2 ^ 25 := by
  split at hD <;> omega

theorem bit24_a (r : Nat) : r / 2 ^ 24 % 2 = r % 2 ^ 25 / 2 ^ 24 := by omega

theorem bit24_0 (r t : Nat) (h : r % 2 ^ 25 = t) (ht : t < 2 ^ 24) : r / 2 ^ 24 % 2 = 0 := by
  rw [bit24_a, h]; omega

theorem bit24_1 (r t : Nat) (h : r % 2 ^ 25 = t + 2 ^ 24) (_ht : t < 2 ^ 24) : r / 2 ^ 24 % 2 = 1 := by
  rw [bit24_a, h]; omega

theorem low24 (r s0 s1 s2 x : Nat) (h0 : s0 < 256) (h1 : s1 < 256) (h2 : s2 < 256)
    (hr : r % 2 ^ 25 = s0 + 256 * s1 + 65536 * s2 + x) (hx : x = 0 ∨ x = 16777216) :
    r % 256 = s0 ∧ r / 2 ^ 8 % 256 = s1 ∧ r / 2 ^ 16 % 256 = s2 := by
  have e1 : r % 256 = r % 2 ^ 25 % 256 := by omega
  have e2 : r / 2 ^ 8 % 256 = r % 2 ^ 25 / 2 ^ 8 % 256 := by omega
  have e3 : r / 2 ^ 16 % 256 = r % 2 ^ 25 / 2 ^ 16 % 256 := by omega
  rw [e1, e2, e3, hr]
  omega

theorem bytes_back (r s0 s1 s2 s3 : Nat) (h0 : s0 < 256) (h1 : s1 < 256) (h2 : s2 < 256)
    (h3 : s3 = 0 ∨ s3 = 255)
    (hr : r % 2 ^ 25 = (s0 + 256 * s1 + 65536 * s2 + 16777216 * s3) % 2 ^ 25) :
    r % 256 = s0 ∧ r / 2 ^ 8 % 256 = s1 ∧ r / 2 ^ 16 % 256 = s2 ∧
      (if r / 2 ^ 24 % 2 = 1 then 255 else 0) = s3 := by
  rcases h3 with rfl | rfl
  · have e : (s0 + 256 * s1 + 65536 * s2 + 16777216 * 0) % 2 ^ 25 = s0 + 256 * s1 + 65536 * s2 + 0 := by omega
    rw [e] at hr
    obtain ⟨a, b, c⟩ := low24 r s0 s1 s2 0 h0 h1 h2 hr (Or.inl rfl)
    rw [bit24_0 r _ hr (by omega)]
    exact ⟨a, b, c, by simp⟩
  · have e : (s0 + 256 * s1 + 65536 * s2 + 16777216 * 255) % 2 ^ 25 =
        s0 + 256 * s1 + 65536 * s2 + 16777216 := by omega
    rw [e] at hr
    obtain ⟨a, b, c⟩ := low24 r s0 s1 s2 16777216 h0 h1 h2 hr (Or.inr rfl)
    rw [bit24_1 r _ hr (by omega)]
    exact ⟨a, b, c, by simp⟩

/-- encoder conversion followed by decoder conversion, at the level of 25-bit residues -/
theorem x86Conv_rt (p pm src : Nat) (hpm : pm = 0 ∨ pm = 1 ∨ pm = 2 ∨ pm = 4) (hs : src < 2 ^ 32)
    (ht : pm ≠ 0 → ¬ msByte (tbK (32 - 8 * maskBit pm) src) = true) (D : Nat)
    (hD : D % 2 ^ 25 = x86Conv true p pm 64 src % 2 ^ 25) :
    x86Conv false p pm 64 D % 2 ^ 25 = src % 2 ^ 25 := by
  rcases hpm with rfl | hpm
  · rw [x86Conv_zero, if_pos rfl] at hD
    rw [x86Conv_zero, if_neg (by simp)]
    simp only [wadd, wsub] at hD ⊢
    omega
  · rw [x86Conv_eq true p pm hpm] at hD
    rw [x86Conv_eq false p pm hpm, conv_cong false p _ (KOK_maskBit pm hpm) 64 _ _ hD,
      (conv_rt p _ (KOK_maskBit pm hpm) 62 src hs (ht (by omega))).2]

/-- one conversion step: the decoder makes the same decision on the converted operand and restores it -/
theorem cvt_store (p : Nat) (b : Buf) (i pm : Nat) (hB : BBytes b) (hw : i + 5 ≤ b.size) (hpm : pm < 8)
    (hc : cvt pm b i = true) (b' : Buf) (hb' : b' = store b i (x86Conv true p pm 64 (opnd b i))) :
    cvt pm b' i = true ∧
    ∀ k, i + 1 ≤ k → k ≤ i + 4 → gb (store b' i (x86Conv false p pm 64 (opnd b' i))) k = gb b k := by
  have hc' := (cvt_iff pm b i).mp hc
  have hpm4 : pm = 0 ∨ pm = 1 ∨ pm = 2 ∨ pm = 4 := by
    rcases hc'.1 with h | h
    · exact Or.inl h
    · exact mask_allowed_cases pm hpm h.1
  have hw' : i + 5 ≤ b'.size := by rw [hb', size_store]; exact hw
  have g1 : gb b' (i + 1) = x86Conv true p pm 64 (opnd b i) % 256 := by rw [hb', gb_store_1 _ _ _ hw]
  have g2 : gb b' (i + 2) = x86Conv true p pm 64 (opnd b i) / 2 ^ 8 % 256 := by rw [hb', gb_store_2 _ _ _ hw]
  have g3 : gb b' (i + 3) = x86Conv true p pm 64 (opnd b i) / 2 ^ 16 % 256 := by rw [hb', gb_store_3 _ _ _ hw]
  have g4 : gb b' (i + 4) = if x86Conv true p pm 64 (opnd b i) / 2 ^ 24 % 2 = 1 then 255 else 0 := by
    rw [hb', gb_store_4 _ _ _ hw]
  constructor
  · rw [cvt_iff]
    constructor
    · by_cases h0 : pm = 0
      · exact Or.inl h0
      · right
        have hp3 : pm = 1 ∨ pm = 2 ∨ pm = 4 := by omega
        refine ⟨?_, ?_⟩
        · rcases hc'.1 with h | h
          · exact absurd h h0
          · exact h.1
        · rw [hb']; exact cvt_tb p b i pm hB hw hp3 hc
    · rw [g4, msByte_iff]; split
      · right; rfl
      · left; rfl
  · have hD := D_cong (x86Conv true p pm 64 (opnd b i)) (opnd b' i) (by simp only [opnd, g1, g2, g3, g4])
    have ht : pm ≠ 0 → ¬ msByte (tbK (32 - 8 * maskBit pm) (opnd b i)) = true := by
      intro h0
      have hp3 : pm = 1 ∨ pm = 2 ∨ pm = 4 := by omega
      rw [← tb_gb b i pm hB hp3]
      rcases hc'.1 with h | h
      · exact absurd h h0
      · exact h.2
    have hr := x86Conv_rt p pm (opnd b i) hpm4 (opnd_lt b i hB) ht (opnd b' i) hD
    obtain ⟨r1, r2, r3, r4⟩ := bytes_back (x86Conv false p pm 64 (opnd b' i)) (gb b (i + 1)) (gb b (i + 2))
      (gb b (i + 3)) (gb b (i + 4)) (hB _) (hB _) (hB _) ((msByte_iff _).mp hc'.2) hr
    intro k k1 k2
    have : k = i + 1 ∨ k = i + 2 ∨ k = i + 3 ∨ k = i + 4 := by omega
    rcases this with rfl | rfl | rfl | rfl
    · rw [gb_store_1 _ _ _ hw', r1]
    · rw [gb_store_2 _ _ _ hw', r2]
    · rw [gb_store_3 _ _ _ hw', r3]
    · rw [gb_store_4 _ _ _ hw', r4]

/-! ## the "future" lemma: an unconverted opcode stays unconvertible -/

/-- the state at `j` still records the unconverted opcode at `i` -/
def Track (i j : Nat) (pp : Option Nat) (m : Nat) : Prop :=
  ∃ q, pp = some q ∧ i ≤ q ∧ q < j ∧ m.testBit (q - i) = true

theorem Track.mono {i j : Nat} {pp : Option Nat} {m : Nat} (h : Track i j pp m) : Track i (j + 1) pp m := by
  obtain ⟨q, h1, h2, h3, h4⟩ := h
  exact ⟨q, h1, h2, by omega, h4⟩

theorem testBit_7 (t : Nat) (ht : t < 3) : (7 : Nat).testBit t = true := by
  have : ∀ y : Fin 3, (7 : Nat).testBit y.val = true := by decide
  exact this ⟨t, ht⟩

theorem eff_track (i j : Nat) (pp : Option Nat) (m : Nat) (h : Track i j pp m) (h1 : i < j)
    (h2 : j ≤ i + 3) : (effPm pp m j).testBit (j - i - 1) = true := by
  obtain ⟨q, rfl, q1, q2, q3⟩ := h
  have hx : xDist (some q) j = j - q := rfl
  have hd : ¬ j - q > 3 := by omega
  simp only [effPm, hx, if_neg hd, Nat.testBit_and, Nat.testBit_shiftLeft]
  have e : j - i - 1 - (j - q - 1) = q - i := by omega
  have g : j - i - 1 ≥ j - q - 1 := by omega
  rw [e, q3, testBit_7 _ (by omega)]
  simp [g]

theorem track_next (i j pm : Nat) (h1 : i < j) (hb : pm.testBit (j - i - 1) = true) :
    Track i (j + 1) (some j) ((pm <<< 1) ||| 1) := by
  refine ⟨j, rfl, by omega, by omega, ?_⟩
  have g : j - i ≥ 1 := by omega
  simp only [Nat.testBit_or, Nat.testBit_shiftLeft, hb]
  simp [g]

theorem track_init (i pm : Nat) : Track i (i + 1) (some i) ((pm <<< 1) ||| 1) := by
  refine ⟨i, rfl, by omega, by omega, ?_⟩
  simp

theorem future (st : St) (i : Nat) : ∀ f j pp m b, BBytes b → i < j → j ≤ i + 4 → Track i j pp m →
    (∀ k, k ≤ i + 4 → gb (xl true st f j pp m b) k = gb b k) ∨
    ¬ msByte (gb (xl true st f j pp m b) (i + 4)) = true := by
  intro f
  induction f with
  | zero => intro j pp m b _ _ _ _; exact Or.inl (fun _ _ => rfl)
  | succ n ih =>
    intro j pp m b hB h1 h2 ht
    simp only [xl]
    by_cases c1 : j + 5 > b.size
    · rw [if_pos c1]; exact Or.inl (fun _ _ => rfl)
    · rw [if_neg c1]
      by_cases hj : j = i + 4
      · -- everything from here on only touches positions ≥ i + 5
        left
        intro k hk
        split
        · exact xl_frame _ _ _ _ _ _ _ _ (by omega)
        · split
          · rw [xl_frame _ _ _ _ _ _ _ _ (by omega), gb_store_out _ _ _ _ (Or.inl (by omega))]
          · exact xl_frame _ _ _ _ _ _ _ _ (by omega)
      · have h2' : j ≤ i + 3 := by omega
        by_cases c2 : gb b j ≠ 0xE8 ∧ gb b j ≠ 0xE9
        · rw [if_pos c2]
          exact ih _ _ _ _ hB (by omega) (by omega) ht.mono
        · rw [if_neg c2]
          have hbit := eff_track i j pp m ht h1 h2'
          by_cases c3 : cvt (effPm pp m j) b j = true
          · rw [if_pos c3]
            right
            have hc' := (cvt_iff _ _ _).mp c3
            have hne : effPm pp m j ≠ 0 := by
              intro h0; rw [h0] at hbit; simp at hbit
            have hal : maskAllowed (effPm pp m j) = true := by
              rcases hc'.1 with h | h
              · exact absurd h hne
              · exact h.1
            obtain ⟨mb, hp3⟩ := mask_single _ (j - i - 1) (effPm_lt pp m j) (by omega) hbit hal
            have := cvt_tb (posAt st j) b j _ hB (by omega) hp3 c3
            rw [mb, show j + 4 - (j - i - 1 + 1) = i + 4 by omega] at this
            rw [xl_frame _ _ _ _ _ _ _ _ (by omega)]
            exact this
          · rw [if_neg c3]
            exact ih _ _ _ _ hB (by omega) (by omega) (track_next i j _ h1 hbit)

/-! ## main induction -/

theorem xl_succ (enc : Bool) (st : St) (f i : Nat) (pp : Option Nat) (m : Nat) (b : Buf) :
    xl enc st (f + 1) i pp m b =
      if i + 5 > b.size then b else
      if gb b i ≠ 0xE8 ∧ gb b i ≠ 0xE9 then xl enc st f (i + 1) pp m b else
      if cvt (effPm pp m i) b i then
        xl enc st f (i + 5) (some i) (effPm pp m i)
          (store b i (x86Conv enc (posAt st i) (effPm pp m i) 64 (opnd b i)))
      else xl enc st f (i + 1) (some i) ((effPm pp m i <<< 1) ||| 1) b := rfl

theorem xl_inv (st : St) : ∀ f i pp m e d, BBytes e → d.size = e.size →
    (∀ k, i ≤ k → gb d k = gb (xl true st f i pp m e) k) →
    (∀ k, i ≤ k → gb (xl false st f i pp m d) k = gb e k) ∧
    (∀ k, k < i → gb (xl false st f i pp m d) k = gb d k) := by
  intro f
  induction f with
  | zero => intro i pp m e d _ _ hd; exact ⟨hd, fun _ _ => rfl⟩
  | succ n ih =>
    intro i pp m e d hB hs hd
    have hi : gb d i = gb e i := by rw [hd i (Nat.le_refl _), xl_frame _ _ _ _ _ _ _ _ (Nat.le_refl _)]
    rw [xl_succ] at hd ⊢
    by_cases c1 : i + 5 > e.size
    · have c1' : i + 5 > d.size := by omega
      rw [if_pos c1] at hd
      rw [if_pos c1']
      exact ⟨hd, fun _ _ => rfl⟩
    · have c1' : ¬ i + 5 > d.size := by omega
      rw [if_neg c1] at hd
      rw [if_neg c1']
      -- common tail: both sides move on to `i + 1` with the same state and buffers
      have tail : ∀ pp' m', (∀ k, i ≤ k → gb d k = gb (xl true st n (i + 1) pp' m' e) k) →
          (∀ k, i ≤ k → gb (xl false st n (i + 1) pp' m' d) k = gb e k) ∧
          (∀ k, k < i → gb (xl false st n (i + 1) pp' m' d) k = gb d k) := by
        intro pp' m' hd'
        obtain ⟨r2, r3⟩ := ih (i + 1) pp' m' e d hB hs (fun k hk => hd' k (by omega))
        refine ⟨?_, fun k hk => r3 k (by omega)⟩
        intro k hk
        by_cases hk' : k = i
        · subst hk'; rw [r3 k (by omega), hi]
        · exact r2 k (by omega)
      by_cases c2 : gb e i ≠ 0xE8 ∧ gb e i ≠ 0xE9
      · have c2' : gb d i ≠ 0xE8 ∧ gb d i ≠ 0xE9 := by rw [hi]; exact c2
        rw [if_pos c2] at hd
        rw [if_pos c2']
        exact tail _ _ hd
      · have c2' : ¬ (gb d i ≠ 0xE8 ∧ gb d i ≠ 0xE9) := by rw [hi]; exact c2
        rw [if_neg c2] at hd
        rw [if_neg c2']
        have hpm := effPm_lt pp m i
        by_cases c3 : cvt (effPm pp m i) e i = true
        · rw [if_pos c3] at hd
          obtain ⟨s1, s2⟩ := cvt_store (posAt st i) e i _ hB (by omega) hpm c3 _ rfl
          have hag : ∀ k, i + 1 ≤ k → k ≤ i + 4 →
              gb d k = gb (store e i (x86Conv true (posAt st i) (effPm pp m i) 64 (opnd e i))) k := by
            intro k k1 k2
            rw [hd k (by omega), xl_frame _ _ _ _ _ _ _ _ (by omega)]
          have c3' : cvt (effPm pp m i) d i = true := by
            rw [cvt_congr _ _ d i hpm hag]; exact s1
          rw [if_pos c3']
          have hw' : i + 5 ≤ (store e i (x86Conv true (posAt st i) (effPm pp m i) 64 (opnd e i))).size := by
            rw [size_store]; omega
          obtain ⟨r2, r3⟩ := ih (i + 5) (some i) (effPm pp m i) _
            (store d i (x86Conv false (posAt st i) (effPm pp m i) 64 (opnd d i)))
            (BBytes_store _ _ _ hB) (by simp only [size_store]; exact hs)
            (fun k hk => by rw [gb_store_out _ _ _ _ (Or.inr hk)]; exact hd k (by omega))
          constructor
          · intro k hk
            by_cases hk5 : i + 5 ≤ k
            · rw [r2 k hk5, gb_store_out _ _ _ _ (Or.inr hk5)]
            · rw [r3 k (by omega)]
              by_cases hk' : k = i
              · subst hk'; rw [gb_store_out _ _ _ _ (Or.inl (Nat.le_refl _)), hi]
              · rw [opnd_congr _ d i hag,
                  store_congr _ d i _ k (by rw [size_store]; exact hs) hw' (by omega) (by omega)]
                exact s2 k (by omega) (by omega)
          · intro k hk
            rw [r3 k (by omega), gb_store_out _ _ _ _ (Or.inl (by omega))]
        · rw [if_neg c3] at hd
          have c3' : ¬ cvt (effPm pp m i) d i = true := by
            rcases future st i n (i + 1) (some i) ((effPm pp m i <<< 1) ||| 1) e hB (by omega) (by omega)
              (track_init i _) with hf | hf
            · rw [cvt_congr _ e d i hpm (fun k k1 k2 => by rw [hd k (by omega), hf k k2])]
              exact c3
            · intro hc
              have := ((cvt_iff _ _ _).mp hc).2
              rw [hd (i + 4) (by omega)] at this
              exact hf this
          rw [if_neg c3']
          exact tail _ _ hd

/-- decoding inverts encoding for the x86 BCJ filter (any start offset) -/
theorem x86_inv (start : Nat) (xs : List Nat) (h : Bytes xs) :
    oneShot .x86 false start (oneShot .x86 true start xs) = xs := by
  have hB := BBytes_toArray xs h
  simp only [oneShot, code]
  by_cases hsz : xs.toArray.size < 5
  · rw [if_pos hsz, if_pos hsz]
  · rw [if_neg hsz]
    simp only [Array.toArray_toList, x86Loop_eq_xl]
    have hs : (xl true (St.init .x86 start) (xs.toArray.size + 1) 0 none (St.init .x86 start).prevMask
        xs.toArray).size = xs.toArray.size := xl_size _ _ _ _ _ _ _
    rw [hs, if_neg hsz]
    obtain ⟨r2, _⟩ := xl_inv (St.init .x86 start) (xs.toArray.size + 1) 0 none
      (St.init .x86 start).prevMask xs.toArray _ hB hs (fun _ _ => rfl)
    have : xl false (St.init .x86 start) (xs.toArray.size + 1) 0 none (St.init .x86 start).prevMask
        (xl true (St.init .x86 start) (xs.toArray.size + 1) 0 none (St.init .x86 start).prevMask
          xs.toArray) = xs.toArray := by
      apply buf_ext
      · rw [xl_size, hs]
      · intro k _
        exact r2 k (Nat.zero_le _)
    rw [this]

end LzmaVerif.Filters

