import LzmaVerif.Model.LzDecoder
import LzmaVerif.Model.Lzma
/-!
Basic facts for the refinement proof of the cyclic dictionary buffer (`Model/LzDecoder.lean`):
array views through `getD`, the `blit` (memmove) lemma, and the characterisation of the unbounded
history copy `Hist.copy` of `Model/Lzma.lean` (size, prefix, period `d+1`).
-/
namespace LzmaVerif.LzDecoder
open LzmaVerif LzmaVerif.Lzma

/-! ## `getD` views -/

theorem getD_def (a : Array Nat) (i : Nat) : a.getD i 0 = (a[i]?).getD 0 := by
  simp [Array.getD_eq_getD_getElem?]

theorem getD_ge (a : Array Nat) (i : Nat) (h : a.size ≤ i) : a.getD i 0 = 0 := by
  simp [Array.getElem?_eq_none h]

theorem getD_push (a : Array Nat) (x i : Nat) :
    (a.push x).getD i 0 = if i = a.size then x else a.getD i 0 := by
  simp only [getD_def, Array.getElem?_push]
  split <;> simp

theorem getD_set! (a : Array Nat) (k v i : Nat) :
    (a.set! k v).getD i 0 = if k = i ∧ k < a.size then v else a.getD i 0 := by
  simp only [getD_def, Array.set!_eq_setIfInBounds, Array.getElem?_setIfInBounds]
  by_cases h1 : k = i
  · subst h1
    by_cases h2 : k < a.size
    · simp [h2]
    · simp [h2]
  · simp [h1]

theorem size_extract' (a : Array Nat) (s c : Nat) (h : s + c ≤ a.size) : (a.extract s (s + c)).size = c := by
  simp only [Array.size_extract]; omega

theorem getD_extract (a : Array Nat) (s c j : Nat) (h : s + c ≤ a.size) (hj : j < c) :
    (a.extract s (s + c)).getD j 0 = a.getD (s + j) 0 := by
  simp only [getD_def, Array.getElem?_extract]
  have : j < min (s + c) a.size - s := by omega
  simp [this]

theorem getD_replicate (n i : Nat) : (Array.replicate n 0).getD i 0 = 0 := by
  simp only [getD_def, Array.getElem?_replicate]
  split <;> simp

theorem getD_toArray (l : List Nat) (i : Nat) : l.toArray.getD i 0 = l.getD i 0 := by
  simp [List.getD_eq_getElem?_getD]

/-- two arrays of the same size with the same `getD` view are equal -/
theorem ext_getD (a b : Array Nat) (hs : a.size = b.size) (h : ∀ i, i < a.size → a.getD i 0 = b.getD i 0) :
    a = b := by
  apply Array.ext_getElem?
  intro i
  by_cases hi : i < a.size
  · have := h i hi
    simp only [getD_def] at this
    have ha : a[i]? = some a[i] := Array.getElem?_eq_getElem hi
    have hb : b[i]? = some (b[i]'(hs ▸ hi)) := Array.getElem?_eq_getElem (hs ▸ hi)
    rw [ha, hb] at this ⊢
    simpa using this
  · rw [Array.getElem?_eq_none (Nat.le_of_not_lt hi), Array.getElem?_eq_none (hs ▸ Nat.le_of_not_lt hi)]

/-! ## `blit`, `copy_within`, `split_at_mut` + `copy_from_slice` -/

theorem blit_size (a : Array Nat) (dest : Nat) (xs : Array Nat) : (blit a dest xs).size = a.size := by
  simp [blit]

theorem blit_getD (a : Array Nat) (dest : Nat) (xs : Array Nat) (i : Nat) (hfit : dest + xs.size ≤ a.size) :
    (blit a dest xs).getD i 0 = if dest ≤ i ∧ i < dest + xs.size then xs.getD (i - dest) 0 else a.getD i 0 := by
  simp only [getD_def, blit, Array.getElem?_ofFn]
  by_cases hi : i < a.size
  · simp [hi]
  · have : ¬ (dest ≤ i ∧ i < dest + xs.size) := by omega
    simp [hi, this]

theorem copyWithin_ok (a : Array Nat) (src n dest : Nat) (h1 : src + n ≤ a.size) (h2 : dest + n ≤ a.size) :
    copyWithin a src n dest = .ok (blit a dest (a.extract src (src + n))) := by
  unfold copyWithin; rw [if_pos ⟨h1, h2⟩]

theorem copyFromFirstHalf_ok (a : Array Nat) (pos back n : Nat) (h1 : pos + n ≤ a.size) (h2 : back + n ≤ pos) :
    copyFromFirstHalf a pos back n = .ok (blit a pos (a.extract back (back + n))) := by
  unfold copyFromFirstHalf; rw [if_pos ⟨by omega, by omega, h2⟩]

/-! ## The unbounded history -/

theorem back_def (h : Hist) (d : Nat) (hd : d < h.size) : h.back d = h.getD (h.size - 1 - d) 0 := by
  unfold Hist.back; rw [if_pos hd]

theorem back_ge (h : Hist) (d : Nat) (hd : h.size ≤ d) : h.back d = 0 := by
  unfold Hist.back; rw [if_neg (by omega)]

theorem copy_zero (h : Hist) (d : Nat) : Hist.copy h d 0 = h := rfl

theorem copy_succ (h : Hist) (d n : Nat) : Hist.copy h d (n + 1) = Hist.copy (h.push (h.back d)) d n := rfl

theorem size_copy (h : Hist) (d n : Nat) : (Hist.copy h d n).size = h.size + n := by
  induction n generalizing h with
  | zero => rfl
  | succ n ih => rw [copy_succ, ih, Array.size_push]; omega

theorem copy_add (h : Hist) (d a b : Nat) : Hist.copy h d (a + b) = Hist.copy (Hist.copy h d a) d b := by
  induction a generalizing h with
  | zero => simp [copy_zero]
  | succ a ih => rw [Nat.add_right_comm, copy_succ, copy_succ, ih]

/-- the copy only appends -/
theorem copy_getD_lt (h : Hist) (d n i : Nat) (hi : i < h.size) : (Hist.copy h d n).getD i 0 = h.getD i 0 := by
  induction n generalizing h with
  | zero => rfl
  | succ n ih =>
    rw [copy_succ, ih _ (by rw [Array.size_push]; omega), getD_push, if_neg (by omega)]

/-- every appended byte equals the byte `d+1` positions earlier -/
theorem copy_rec (h : Hist) (d n i : Nat) (hd : d < h.size) (h1 : h.size ≤ i) (h2 : i < h.size + n) :
    (Hist.copy h d n).getD i 0 = (Hist.copy h d n).getD (i - (d + 1)) 0 := by
  induction n generalizing h with
  | zero => omega
  | succ n ih =>
    rw [copy_succ]
    by_cases hi : i = h.size
    · subst hi
      rw [copy_getD_lt _ _ _ _ (by rw [Array.size_push]; omega),
          copy_getD_lt _ _ _ _ (by rw [Array.size_push]; omega),
          getD_push, if_pos rfl, getD_push, if_neg (by omega), back_def _ _ hd]
      congr 1; omega
    · exact ih (h.push (h.back d)) (by rw [Array.size_push]; omega) (by rw [Array.size_push]; omega)
        (by rw [Array.size_push]; omega)

/-- going back `m+1` periods -/
theorem copy_periodic (h : Hist) (d n : Nat) (hd : d < h.size) :
    ∀ m i, h.size + m * (d + 1) ≤ i → i < h.size + n →
      (Hist.copy h d n).getD i 0 = (Hist.copy h d n).getD (i - (m + 1) * (d + 1)) 0 := by
  intro m
  induction m with
  | zero => intro i h1 h2; rw [Nat.zero_add, Nat.one_mul]; exact copy_rec h d n i hd (by omega) h2
  | succ m ih =>
    intro i h1 h2
    have e1 : (m + 1) * (d + 1) = m * (d + 1) + (d + 1) := Nat.succ_mul _ _
    have e2 : (m + 1 + 1) * (d + 1) = (m + 1) * (d + 1) + (d + 1) := Nat.succ_mul _ _
    rw [copy_rec h d n i hd (by omega) h2, ih (i - (d + 1)) (by omega) (by omega)]
    congr 1; omega

/-- `T` extends `H` -/
def Ext (H T : Hist) : Prop := H.size ≤ T.size ∧ ∀ i, i < H.size → T.getD i 0 = H.getD i 0

theorem Ext.refl (H : Hist) : Ext H H := ⟨Nat.le_refl _, fun _ _ => rfl⟩

theorem Ext.trans {A B C : Hist} (h1 : Ext A B) (h2 : Ext B C) : Ext A C :=
  ⟨Nat.le_trans h1.1 h2.1, fun i hi => by rw [h2.2 i (by have := h1.1; omega), h1.2 i hi]⟩

theorem ext_copy (h : Hist) (d n : Nat) : Ext h (Hist.copy h d n) :=
  ⟨by rw [size_copy]; omega, fun i hi => copy_getD_lt h d n i hi⟩

theorem ext_push (h : Hist) (b : Nat) : Ext h (h.push b) :=
  ⟨by rw [Array.size_push]; omega, fun i hi => by rw [getD_push, if_neg (by omega)]⟩

end LzmaVerif.LzDecoder
