/-
  Fast encoder: the HC4 model is a sound match finder in the sense of `FinderSound`
  (reachable states, logical position in step, `hc4_find_sound`).
-/
import LzmaVerif.Proofs.EncFastLoop
import LzmaVerif.Props.C01Hc4

namespace LzmaVerif.EncFast
open LzmaVerif Mf Lzma

theorem hc4_skip1_pos (H : Hc4.Hc4Params) (c : Hc4.Cfg) (d : Array UInt8) (s : Hc4.State) :
    (Hc4.skip1 H c d s).pos = s.pos + 1 := by
  obtain ⟨h2, h3, h4, ch, cp, lz, pos⟩ := s
  unfold Hc4.skip1 Hc4.movePos
  by_cases h : Hc4.encMovePos H d pos ≠ 0
  · simp only [if_pos h, Hc4.updateTables, Hc4.setChain]
  · simp only [if_neg h]

theorem hc4_skip_pos (H : Hc4.Hc4Params) (c : Hc4.Cfg) (d : Array UInt8) :
    ∀ (n : Nat) (s : Hc4.State), (Hc4.skip H c d n s).pos = s.pos + n
  | 0, s => rfl
  | n + 1, s => by
    rw [Hc4.skip, hc4_skip_pos H c d n, hc4_skip1_pos]; omega

theorem hc4_find_pos (H : Hc4.Hc4Params) (c : Hc4.Cfg) (d : Array UInt8) (s : Hc4.State)
    (hm : 1 ≤ c.mlmax) : (Hc4.find H c d s).2.pos = s.pos + 1 := by
  rw [Hc4.find_snd H c d s hm, hc4_skip1_pos]

/-- HC4 (`match_len_max = 273`) is a sound finder for the fast encoder -/
def hc4Sound (H : Hc4.Hc4Params) (hH : H.ok) (dict nice depth : Nat) (hd : 1 ≤ dict) (d : Array UInt8) :
    FinderSound (hc4Finder H { dict := dict, niceLen := nice, mlmax := 273, depthLimit := depth }) d dict 273 where
  R := Hc4.Reachable H { dict := dict, niceLen := nice, mlmax := 273, depthLimit := depth } d
  pos := fun s => s.pos
  init_R := Hc4.Reachable.init
  init_pos := rfl
  find_R := fun s h => Hc4.Reachable.find s h
  find_pos := fun s _ => hc4_find_pos H _ d s (by show 1 ≤ 273; omega)
  find_valid := fun s h => (Hc4.hc4_find_sound H hH _ d hd (by show 3 ≤ 273; omega) s h).1
  skip_R := fun s n h => Hc4.Reachable.skip s n h
  skip_pos := fun s n _ => hc4_skip_pos H _ d n s

end LzmaVerif.EncFast
