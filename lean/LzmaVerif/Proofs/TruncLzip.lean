import LzmaVerif.Proofs.LzipFile
import LzmaVerif.Proofs.TruncLzma
/-!
# Truncation, level 3: LZIP files

A proper, non-empty prefix of a well-formed multi-member LZIP file is never decoded to the full file.  It is an error,
EXCEPT when the cut falls exactly on a member boundary (after at least one complete member): what is left then IS a
valid, shorter LZIP file and is decoded as such.  (A cut 1–3 bytes behind a member boundary, i.e. inside the magic of
the next member, is `UnexpectedEof`: the reader does not take a fragment of the magic for trailing data.)

The payload codec enters through `PayloadOk` only (round trip, as in `lzip_roundtrip_recs`).  The truncation property
of the payload (`PayloadTrunc`: no proper prefix of the member's LZMA stream is accepted) need NOT be assumed: it
follows from `PayloadOk` and the decoder-level theorem `decodeRaw_trunc` (`payloadTrunc_of_payloadOk`).
-/
namespace LzmaVerif.LzipFile
open LzmaVerif Lzma Checks

/-- truncation property of the payload codec: no proper prefix of the member's LZMA stream is accepted
    (for every cap that suffices for the member's data) -/
def PayloadTrunc (dictBuf : Nat) (lzma data : List Nat) : Prop :=
  ∀ (k cap : Nat), data.length ≤ cap → k < lzma.length →
    decodeRaw lzipParams dictBuf #[] none (lzma.take k) cap = .err .eof

/-- the truncation property is a consequence of the round-trip property (level 2) -/
theorem payloadTrunc_of_payloadOk {dictBuf : Nat} {lzma data : List Nat} (h : PayloadOk dictBuf lzma data) :
    PayloadTrunc dictBuf lzma data := by
  intro k cap hcap hk
  obtain ⟨parse, hp⟩ := h [] cap hcap
  rw [List.append_nil] at hp
  exact decodeRaw_trunc hp k hk

/-- the 20-byte member trailer -/
def trailerBytes (lzma data : List Nat) : List Nat :=
  le 4 (crc32 data) ++ (le 8 data.length ++ le 8 (6 + lzma.length + 20))

theorem trailerBytes_length (lzma data : List Nat) : (trailerBytes lzma data).length = 20 := by
  simp [trailerBytes, le_length]

theorem memberBytes_eq (db : Nat) (lzma data : List Nat) :
    memberBytes db lzma data = Consts.LZIP_MAGIC ++ (Consts.LZIP_VERSION :: db :: (lzma ++ trailerBytes lzma data)) := by
  simp [memberBytes, trailerBytes]

theorem magic_take_ne (k : Nat) (hk : k < 4) : (Consts.LZIP_MAGIC.take k).take 4 ≠ Consts.LZIP_MAGIC := by
  intro h
  have := congrArg List.length h
  simp only [List.length_take, Consts.LZIP_MAGIC, List.length_cons, List.length_nil] at this
  omega

/-- the loop on a member cut somewhere inside (`k` bytes of it are left) -/
theorem members_cut_member (fuel : Nat) (first : Bool) (db : Nat) (lzma data : List Nat) (total : Nat)
    (acc : List Nat) (n : List Member) (cap k : Nat) (hm : MemberOk (db, lzma, data))
    (hcap : acc.length + data.length ≤ cap)
    (hk : k < lzma.length + 26) (hfk : first = true → 0 < k) :
    (∃ e, members (fuel + 1) first ((memberBytes db lzma data).take k) total acc n cap = .err e) ∨
    (first = false ∧ k = 0 ∧
      members (fuel + 1) first ((memberBytes db lzma data).take k) total acc n cap = .ok acc total n) := by
  obtain ⟨dict, hd, hp, hb, hl1, hl2⟩ := hm
  simp only at hd hp hb hl1 hl2
  have htr := payloadTrunc_of_payloadOk hp
  rw [memberBytes_eq]
  by_cases hk4 : k < 4
  · -- inside the magic
    have htk : (Consts.LZIP_MAGIC ++ (Consts.LZIP_VERSION :: db :: (lzma ++ trailerBytes lzma data))).take k
        = Consts.LZIP_MAGIC.take k := List.take_append_of_le_length (by simp [Consts.LZIP_MAGIC]; omega)
    rw [htk, members_succ]
    have hne := magic_take_ne k hk4
    have hlen : (Consts.LZIP_MAGIC.take k).length = k := by
      simp only [List.length_take, Consts.LZIP_MAGIC, List.length_cons, List.length_nil]; omega
    have hdrop : (Consts.LZIP_MAGIC.take k).drop 4 = [] := List.drop_eq_nil_of_le (by omega)
    cases first with
    | true =>
      left
      have hk0 := hfk rfl
      have : ((Consts.LZIP_MAGIC.take k).take 4).isEmpty = false := by
        match k, hk4, hk0 with
        | 1, _, _ => rfl
        | 2, _, _ => rfl
        | 3, _, _ => rfl
      refine ⟨.invalidData, ?_⟩
      simp only [this, Bool.false_eq_true, if_false, ne_eq, hne, not_false_eq_true, if_true]
    | false =>
      match k, hk4 with
      | 0, _ => exact Or.inr ⟨rfl, rfl, rfl⟩
      | 1, _ => exact Or.inl ⟨.eof, rfl⟩
      | 2, _ => exact Or.inl ⟨.eof, rfl⟩
      | 3, _ => exact Or.inl ⟨.eof, rfl⟩
  · -- the magic is intact
    obtain ⟨j, rfl⟩ : ∃ j, k = 4 + j := ⟨k - 4, by omega⟩
    have htk : (Consts.LZIP_MAGIC ++ (Consts.LZIP_VERSION :: db :: (lzma ++ trailerBytes lzma data))).take (4 + j)
        = Consts.LZIP_MAGIC ++ (Consts.LZIP_VERSION :: db :: (lzma ++ trailerBytes lzma data)).take j := by
      have h4 : Consts.LZIP_MAGIC.length = 4 := rfl
      rw [List.take_append, h4, List.take_of_length_le (by rw [h4]; omega), Nat.add_sub_cancel_left]
    rw [htk, members_magic]
    match j with
    | 0 => exact Or.inl ⟨.eof, rfl⟩
    | 1 => exact Or.inl ⟨.eof, rfl⟩
    | j + 2 =>
      simp only [List.take_succ_cons]
      by_cases hj : j < lzma.length
      · -- cut inside the LZMA stream
        have htk2 : (lzma ++ trailerBytes lzma data).take j = lzma.take j :=
          List.take_append_of_le_length (by omega)
        rw [htk2]
        have hno := htr j (cap - acc.length) (by omega) hj
        refine Or.inl ⟨.eof, ?_⟩
        simp only [afterMagic, ne_eq, not_true_eq_false, if_false, hd, hno]
      · -- cut inside the trailer
        have htk2 : (lzma ++ trailerBytes lzma data).take j
            = lzma ++ (trailerBytes lzma data).take (j - lzma.length) := by
          rw [List.take_append, List.take_of_length_le (by omega)]
        rw [htk2]
        obtain ⟨parse, hp⟩ := hp ((trailerBytes lzma data).take (j - lzma.length)) (cap - acc.length) (by omega)
        have hshort : ((trailerBytes lzma data).take (j - lzma.length)).length < 20 := by
          rw [List.length_take, trailerBytes_length]; omega
        refine Or.inl ⟨.eof, ?_⟩
        simp only [afterMagic, ne_eq, not_true_eq_false, if_false, hd, hp, List.drop_left, hshort, if_true]

theorem fileBytes_cons (m : Nat × List Nat × List Nat) (ms : List (Nat × List Nat × List Nat)) :
    fileBytes (m :: ms) = memberBytes m.1 m.2.1 m.2.2 ++ fileBytes ms := by simp [fileBytes]

theorem fileData_cons (m : Nat × List Nat × List Nat) (ms : List (Nat × List Nat × List Nat)) :
    fileData (m :: ms) = m.2.2 ++ fileData ms := by simp [fileData]

/-- the member loop on a well-formed member sequence cut after `k` bytes -/
theorem members_trunc (ms : List (Nat × List Nat × List Nat)) (hm : ∀ m ∈ ms, MemberOk m) :
    ∀ (fuel : Nat) (first : Bool) (total : Nat) (acc : List Nat) (n : List Member) (cap k : Nat),
    k < fuel → acc.length + (fileData ms).length ≤ cap → k < (fileBytes ms).length → (first = true → 0 < k) →
    (∃ e, members fuel first ((fileBytes ms).take k) total acc n cap = .err e) ∨
    (∃ j, j < ms.length ∧ (first = true → 0 < j) ∧ (fileBytes (ms.take j)).length = k ∧
      members fuel first ((fileBytes ms).take k) total acc n cap
        = .ok (acc ++ fileData (ms.take j)) total (fileRecs (ms.take j) ++ n)) := by
  induction ms with
  | nil => intro fuel first total acc n cap k _ _ hk _; simp [fileBytes] at hk
  | cons m ms ih =>
    intro fuel first total acc n cap k hfuel hcap hk hfk
    obtain ⟨db, lzma, data⟩ := m
    obtain ⟨f, rfl⟩ : ∃ f, fuel = f + 1 := ⟨fuel - 1, by omega⟩
    rw [fileBytes_cons] at hk ⊢
    rw [fileData_cons, List.length_append] at hcap
    simp only at hk hcap ⊢
    have hL := memberBytes_length db lzma data
    rw [List.length_append, hL] at hk
    by_cases hin : k < lzma.length + 26
    · -- the cut is inside this member
      rw [List.take_append_of_le_length (by omega)]
      rcases members_cut_member f first db lzma data total acc n cap k (hm _ List.mem_cons_self)
        (by omega) hin hfk with h | ⟨h1, h2, h3⟩
      · exact Or.inl h
      · refine Or.inr ⟨0, by simp, ?_, by simp [fileBytes, h2], ?_⟩
        · intro h; rw [h1] at h; cases h
        · rw [h3]; simp [fileData, fileRecs]
    · -- this member is complete
      have htk : (memberBytes db lzma data ++ fileBytes ms).take k
          = memberBytes db lzma data ++ (fileBytes ms).take (k - (lzma.length + 26)) := by
        rw [List.take_append, hL, List.take_of_length_le (by omega)]
      rw [htk, members_step f first db lzma data _ total acc n cap (hm _ List.mem_cons_self) (by omega)]
      rcases ih (fun x hx => hm x (List.mem_cons_of_mem _ hx))
        f false total (acc ++ data) ({ dictByte := db, lzma := lzma, data := data } :: n) cap
        (k - (lzma.length + 26)) (by omega) (by rw [List.length_append]; omega) (by omega)
        (fun h => by cases h) with h | ⟨j, hj, _, hlo, hres⟩
      · exact Or.inl h
      · refine Or.inr ⟨j + 1, by simp only [List.length_cons]; omega, fun _ => Nat.succ_pos _, ?_, ?_⟩
        · rw [List.take_succ_cons, fileBytes_cons, List.length_append, hL]; omega
        · rw [hres, List.take_succ_cons, fileData_cons]
          simp [fileRecs]

/-- **A truncated LZIP file is never decoded as the whole file.**  `ms` is any sequence of well-formed members
    (`MemberOk`, exactly the hypothesis of `lzip_roundtrip_recs`).  For every cut `0 < k < length`: the reader reports
    an error, unless the cut lies EXACTLY on a member boundary after `j ≥ 1` complete members — then what is left is
    itself a valid LZIP file, and the reader accepts exactly its `j < ms.length` members. -/
theorem lzip_trunc (ms : List (Nat × List Nat × List Nat)) (hm : ∀ m ∈ ms, MemberOk m)
    (cap : Nat) (hcap : (fileData ms).length ≤ cap)
    (k : Nat) (hk0 : 0 < k) (hk : k < (fileBytes ms).length) :
    (∃ e, decode ((fileBytes ms).take k) cap = .err e) ∨
    (∃ j, 0 < j ∧ j < ms.length ∧ (fileBytes (ms.take j)).length = k ∧
      decode ((fileBytes ms).take k) cap = .ok (fileData (ms.take j)) k (fileRecs (ms.take j))) := by
  have hlen : ((fileBytes ms).take k).length = k := by rw [List.length_take]; omega
  unfold decode
  rw [hlen]
  rcases members_trunc ms hm (k + 2) true k [] [] cap k (by omega) (by simpa using hcap) hk (fun _ => hk0)
    with h | ⟨j, hj, hj0, hlo, hres⟩
  · exact Or.inl h
  · refine Or.inr ⟨j, hj0 rfl, hj, hlo, ?_⟩
    rw [hres]; simp

/-- in particular: whatever a proper non-empty prefix decodes to, it is not the full member list -/
theorem lzip_trunc_not_full (ms : List (Nat × List Nat × List Nat)) (hm : ∀ m ∈ ms, MemberOk m)
    (cap : Nat) (hcap : (fileData ms).length ≤ cap)
    (k : Nat) (hk0 : 0 < k) (hk : k < (fileBytes ms).length) (data : List Nat) (c : Nat) (recs : List Member)
    (h : decode ((fileBytes ms).take k) cap = .ok data c recs) : recs.length < ms.length := by
  rcases lzip_trunc ms hm cap hcap k hk0 hk with ⟨e, he⟩ | ⟨j, _, hj, _, hres⟩
  · rw [he] at h; cases h
  · rw [hres] at h
    injection h with _ _ hr
    rw [← hr]
    simp only [fileRecs, List.length_reverse, List.length_map, List.length_take]
    omega

/-- … and a cut that is not exactly on an inner member boundary is always an error -/
theorem lzip_trunc_inside (ms : List (Nat × List Nat × List Nat)) (hm : ∀ m ∈ ms, MemberOk m)
    (cap : Nat) (hcap : (fileData ms).length ≤ cap)
    (k : Nat) (hk0 : 0 < k) (hk : k < (fileBytes ms).length)
    (hin : ∀ j, 0 < j → j < ms.length → (fileBytes (ms.take j)).length ≠ k) :
    ∃ e, decode ((fileBytes ms).take k) cap = .err e := by
  rcases lzip_trunc ms hm cap hcap k hk0 hk with h | ⟨j, hj0, hj, hlo, _⟩
  · exact h
  · exact absurd hlo (hin j hj0 hj)

/-- single member: every proper non-empty prefix is an error -/
theorem lzip_trunc_single (m : Nat × List Nat × List Nat) (hm : MemberOk m) (cap : Nat) (hcap : m.2.2.length ≤ cap)
    (k : Nat) (hk0 : 0 < k) (hk : k < (memberBytes m.1 m.2.1 m.2.2).length) :
    ∃ e, decode ((memberBytes m.1 m.2.1 m.2.2).take k) cap = .err e := by
  have hb : fileBytes [m] = memberBytes m.1 m.2.1 m.2.2 := by simp [fileBytes]
  have := lzip_trunc_inside [m] (by simpa using hm) cap (by simpa [fileData] using hcap) k hk0 (by rw [hb]; exact hk)
    (by intro j h0 h1; simp only [List.length_cons, List.length_nil] at h1; omega)
  rwa [hb] at this

end LzmaVerif.LzipFile
