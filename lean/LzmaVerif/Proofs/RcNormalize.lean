import LzmaVerif.Proofs.TruncRc
import LzmaVerif.Proofs.RcRoundtrip
/-!
# Where the range decoder is normalised does not matter (read-call boundaries are unobservable)

`LZMADecoder::decode` ends every call whose symbol loop ran to the output limit with `rc.normalize()`.  How many such
calls there are, and after which symbols they end, is decided by the sizes of the buffers the caller passes to `read`
(and by the wrap-around of the dictionary buffer).  This file proves that these extra normalisations change nothing:

* `normalize_idem`   : between two decoder operations (`2^16 ≤ range`) `normalize` is idempotent;
* `decRun_rangeOk`   : every decision program keeps `2^16 ≤ range` (adaptive probabilities in `31 ..= 2017`);
* `decRun_normalize` : running ANY decision program from `d.normalize` instead of `d` gives the same decisions, the
                       same adapted probabilities and - after the normalisation that ends the call - the same decoder
                       state: same bytes consumed, same count of bytes requested past the end of the source;
* `segRun_eq`        : a list of programs run one after the other (the calls of `decode`), with or without a
                       normalisation after each of them, ends in the same results and the same normalised state, for
                       EVERY segmentation.

What IS schedule dependent in the real reader is therefore not what is decoded, nor which source bytes are consumed,
nor whether a source byte is found missing, but only how much of the decoded data has been handed out when an error
is reported (the bytes decoded during the failing `read` call are dropped with it).
-/
namespace LzmaVerif.Rc

/-- between two decoder operations one byte suffices to normalise -/
def RangeOk (d : Dec) : Prop := 2 ^ 16 ≤ d.range

theorem normalize_range_ge (d : Dec) (h : RangeOk d) : 2 ^ 24 ≤ d.normalize.range := by
  unfold RangeOk at h
  rcases normalize_cases d with ⟨hlt, hn⟩ | ⟨hlt, b, rest, _, hn⟩ | ⟨hlt, _, hn⟩ <;> rw [hn]
  · omega
  · show 2 ^ 24 ≤ d.range * 256; omega
  · show 2 ^ 24 ≤ d.range * 256; omega

/-- `normalize` is idempotent on states a decoder operation can leave -/
theorem normalize_idem (d : Dec) (h : RangeOk d) : d.normalize.normalize = d.normalize := by
  have h24 := normalize_range_ge d h
  rcases normalize_cases d.normalize with ⟨_, hn⟩ | ⟨hlt, _⟩ | ⟨hlt, _⟩
  · exact hn
  · omega
  · omega

theorem normalize_rangeOk (d : Dec) (h : RangeOk d) : RangeOk d.normalize := by
  have := normalize_range_ge d h
  unfold RangeOk; omega

/-- an adaptive bit starts with `normalize`: starting from the normalised state is the same -/
theorem decodeBitP_normalize (d : Dec) (p : Nat) (h : RangeOk d) : d.normalize.decodeBitP p = d.decodeBitP p := by
  simp only [Dec.decodeBitP, normalize_idem d h]

theorem decodeDirect1_normalize (d : Dec) (h : RangeOk d) : d.normalize.decodeDirect1 = d.decodeDirect1 := by
  simp only [Dec.decodeDirect1, normalize_idem d h]

/-- an adaptive bit with a probability in `31 ..= 2017` leaves `2^16 ≤ range` -/
theorem decodeBitP_rangeOk (d : Dec) (p : Nat) (hp : 31 ≤ p ∧ p ≤ 2017) (h : RangeOk d) (b : Bool) (d1 : Dec)
    (hres : d.decodeBitP p = (b, d1)) : RangeOk d1 := by
  have h24 := normalize_range_ge d h
  obtain ⟨b', r, c, h1, _⟩ := decodeBitP_pair d d p rfl rfl
  simp only [Dec.decodeBitP] at hres
  generalize d.normalize = n at *
  have hq : 2 ^ 13 ≤ n.range / 2 ^ 11 := by omega
  have hb1 : n.range / 2 ^ 11 * 31 ≤ n.range / 2 ^ 11 * p := Nat.mul_le_mul_left _ hp.1
  have hb2 : n.range / 2 ^ 11 * p ≤ n.range / 2 ^ 11 * 2017 := Nat.mul_le_mul_left _ hp.2
  have hb3 : n.range / 2 ^ 11 * 2048 ≤ n.range := by omega
  by_cases hc : n.code < n.range / 2 ^ 11 * p
  · rw [if_pos hc] at hres
    injection hres with _ hd
    subst hd
    show 2 ^ 16 ≤ n.range / 2 ^ 11 * p
    omega
  · rw [if_neg hc] at hres
    injection hres with _ hd
    subst hd
    show 2 ^ 16 ≤ n.range - n.range / 2 ^ 11 * p
    omega

theorem decodeDirect1_rangeOk (d : Dec) (h : RangeOk d) (b : Bool) (d1 : Dec)
    (hres : d.decodeDirect1 = (b, d1)) : RangeOk d1 := by
  have h24 := normalize_range_ge d h
  obtain ⟨b', r, c, h1, _⟩ := decodeDirect1_pair d d rfl rfl
  simp only [Dec.decodeDirect1] at hres
  generalize d.normalize = n at *
  by_cases hc : (n.code + 2 ^ 32 - n.range / 2) % 2 ^ 32 ≥ 2 ^ 31
  · rw [if_pos hc] at hres
    injection hres with _ hd
    subst hd
    show 2 ^ 16 ≤ n.range / 2
    omega
  · rw [if_neg hc] at hres
    injection hres with _ hd
    subst hd
    show 2 ^ 16 ≤ n.range / 2
    omega

end LzmaVerif.Rc

namespace LzmaVerif.Prog
open LzmaVerif Rc

/-- every decision program keeps the probabilities in range and `2^16 ≤ range` -/
theorem decRun_rangeOk {α : Type} (prog : Prog α) : ∀ (ps : Probs) (d : Dec) (a : α) (ps₁ : Probs) (e₁ : Dec),
    ProbsOk ps → RangeOk d → prog.decRun ps d = (a, ps₁, e₁) → ProbsOk ps₁ ∧ RangeOk e₁ := by
  induction prog with
  | ret a =>
    intro ps d a' ps₁ e₁ hps hd hr
    rw [decRun_ret] at hr
    injection hr with _ hr; injection hr with hp he
    subst hp he; exact ⟨hps, hd⟩
  | bit i k ih =>
    intro ps d a ps₁ e₁ hps hd hr
    obtain ⟨b, d1, hres, _, _⟩ := decodeBitP_norm d (ps.get i)
    rw [decRun_bit_eq i k ps d b d1 hres] at hr
    exact ih b _ d1 a ps₁ e₁ (ProbsOk_set ps i b hps) (decodeBitP_rangeOk d _ (hps i) hd b d1 hres) hr
  | direct k ih =>
    intro ps d a ps₁ e₁ hps hd hr
    obtain ⟨b, d1, hres, _, _⟩ := decodeDirect1_norm d
    rw [decRun_direct_eq k ps d b d1 hres] at hr
    exact ih b _ d1 a ps₁ e₁ hps (decodeDirect1_rangeOk d hd b d1 hres) hr

/-- **An extra normalisation before a program is unobservable.**  From `d.normalize` instead of `d`, every decision
    program takes the same decisions, adapts the probabilities in the same way and, once the run is closed by a
    normalisation (as every call of `decode` is), leaves the same decoder state: same `range`/`code`, same input left,
    same number of bytes requested past the end. -/
theorem decRun_normalize {α : Type} (prog : Prog α) (ps : Probs) (d : Dec) (hd : RangeOk d)
    (a a' : α) (ps₁ ps₁' : Probs) (e₁ e₁' : Dec)
    (hr : prog.decRun ps d.normalize = (a, ps₁, e₁)) (hr' : prog.decRun ps d = (a', ps₁', e₁')) :
    a = a' ∧ ps₁ = ps₁' ∧ e₁.normalize = e₁'.normalize := by
  cases prog with
  | ret x =>
    rw [decRun_ret] at hr hr'
    injection hr with ha hr; injection hr with hp he
    injection hr' with ha' hr'; injection hr' with hp' he'
    subst ha hp he ha' hp' he'
    exact ⟨rfl, rfl, normalize_idem d hd⟩
  | bit i k =>
    obtain ⟨b, d1, hres, _, _⟩ := decodeBitP_norm d (ps.get i)
    have hres' : d.normalize.decodeBitP (ps.get i) = (b, d1) := by rw [decodeBitP_normalize d _ hd]; exact hres
    rw [decRun_bit_eq i k ps d b d1 hres] at hr'
    rw [decRun_bit_eq i k ps d.normalize b d1 hres'] at hr
    rw [hr] at hr'
    injection hr' with ha hr'; injection hr' with hp he
    subst ha hp he
    exact ⟨rfl, rfl, rfl⟩
  | direct k =>
    obtain ⟨b, d1, hres, _, _⟩ := decodeDirect1_norm d
    have hres' : d.normalize.decodeDirect1 = (b, d1) := by rw [decodeDirect1_normalize d hd]; exact hres
    rw [decRun_direct_eq k ps d b d1 hres] at hr'
    rw [decRun_direct_eq k ps d.normalize b d1 hres'] at hr
    rw [hr] at hr'
    injection hr' with ha hr'; injection hr' with hp he
    subst ha hp he
    exact ⟨rfl, rfl, rfl⟩

/-- run a list of programs one after the other (each one may depend on nothing but its position: the caller's state
    between two calls is threaded by the caller); `norm = true` closes every program with `normalize`, as
    `LZMADecoder::decode` closes every call -/
def segRun {α : Type} (norm : Bool) : List (Prog α) → Probs → Dec → List α × Probs × Dec
  | [], ps, d => ([], ps, d)
  | p :: rest, ps, d =>
    let (a, ps₁, d₁) := p.decRun ps d
    let (rs, ps₂, d₂) := segRun norm rest ps₁ (if norm then d₁.normalize else d₁)
    (a :: rs, ps₂, d₂)

theorem segRun_cons {α : Type} (norm : Bool) (p : Prog α) (rest : List (Prog α)) (ps : Probs) (d : Dec)
    (a : α) (ps₁ : Probs) (d₁ : Dec) (h : p.decRun ps d = (a, ps₁, d₁)) :
    segRun norm (p :: rest) ps d =
      (a :: (segRun norm rest ps₁ (if norm then d₁.normalize else d₁)).1,
       (segRun norm rest ps₁ (if norm then d₁.normalize else d₁)).2.1,
       (segRun norm rest ps₁ (if norm then d₁.normalize else d₁)).2.2) := by
  simp only [segRun, h]

/-- **The calls of `decode` may end anywhere.**  Running the segments with a normalisation after each of them, or
    without any, from the same state: same results, same probabilities, same final state up to the closing
    normalisation.  Since the segmentation is arbitrary, this covers every sequence of `read` buffer sizes and the
    wrap-arounds of the dictionary buffer. -/
theorem segRun_eq {α : Type} (segs : List (Prog α)) : ∀ (ps : Probs) (d d' : Dec), ProbsOk ps → RangeOk d' →
    (d = d' ∨ d = d'.normalize) →
    (segRun true segs ps d).1 = (segRun false segs ps d').1 ∧
    (segRun true segs ps d).2.1 = (segRun false segs ps d').2.1 ∧
    (segRun true segs ps d).2.2.normalize = (segRun false segs ps d').2.2.normalize := by
  induction segs with
  | nil =>
    intro ps d d' _ hd' hdd
    simp only [segRun, true_and]
    rcases hdd with h | h
    · rw [h]
    · rw [h, normalize_idem d' hd']
  | cons p rest ih =>
    intro ps d d' hps hd' hdd
    generalize hrun' : p.decRun ps d' = t'
    obtain ⟨a', ps₁', e'⟩ := t'
    generalize hrun : p.decRun ps d = t
    obtain ⟨a, ps₁, e⟩ := t
    obtain ⟨hps₁', he'⟩ := decRun_rangeOk p ps d' a' ps₁' e' hps hd' hrun'
    have key : a = a' ∧ ps₁ = ps₁' ∧ e.normalize = e'.normalize := by
      rcases hdd with h | h
      · subst h
        rw [hrun] at hrun'
        injection hrun' with h1 h2; injection h2 with h2 h3
        subst h1 h2 h3
        exact ⟨rfl, rfl, rfl⟩
      · subst h
        exact decRun_normalize p ps d' hd' a a' ps₁ ps₁' e e' hrun hrun'
    obtain ⟨ha, hp, hen⟩ := key
    subst ha hp
    rw [segRun_cons true p rest ps d a ps₁ e hrun, segRun_cons false p rest ps d' a ps₁ e' hrun']
    simp only [if_true, Bool.false_eq_true, if_false]
    rw [hen]
    have := ih ps₁ e'.normalize e' hps₁' he' (Or.inr rfl)
    exact ⟨by rw [this.1], this.2.1, this.2.2⟩

/-- non-vacuity: two segments of one adaptive bit each on a concrete input; the state after the first segment needs a
    byte (`range = 2^23`), so the normalisation between the segments really reads one (one byte less is left) -/
def exSeg : Prog Bool := .bit 0 fun a => .ret a
def exDec : Dec := { range := 0x01000000, code := 0x00000123, inp := [7, 9, 11], over := 0 }

example : (segRun true [exSeg, exSeg] #[1024] exDec).1 = (segRun false [exSeg, exSeg] #[1024] exDec).1 ∧
    (segRun true [exSeg, exSeg] #[1024] exDec).2.2.normalize.inp
      = (segRun false [exSeg, exSeg] #[1024] exDec).2.2.normalize.inp ∧
    (segRun true [exSeg] #[1024] exDec).2.2.inp.length + 1 = (segRun false [exSeg] #[1024] exDec).2.2.inp.length ∧
    RangeOk exDec ∧ ProbsOk #[1024] := by
  refine ⟨by decide, by decide, by decide, by unfold RangeOk exDec; decide, ?_⟩
  intro i
  simp only [Probs.get]
  rcases i with _ | i <;> simp [PROB_INIT]

end LzmaVerif.Prog
