import LzmaVerif.Proofs.Total
/-!
# `LZIPReaderMT::scan_members`: junk in front of an acceptable file is reported

`scan_members` walks the trailers from the end of the file.  If the file is `junk ++ rest`, where the scan accepts
`rest` on its own, the walk over `junk ++ rest` makes exactly the decisions of the walk over `rest` (all positions
shifted by `|junk|`) until it stands at position `|junk|`; with `0 < |junk| < 20` that is the `leading` error
("Data in front of the first LZIP member").  Before the repair of `scan_members` this was `Ok` with the members
of `rest`: the junk was ignored.  (With 20 or more bytes in front the answer depends on those bytes - they are
read as a trailer -; `Total.scanFile_tiles` says that whatever is accepted is tiled by members from byte 0.)
-/
namespace LzmaVerif.Total
open LzmaVerif Guards

section Shift
variable (fileSize : Nat) (msA msA' : Nat → Nat) (mgA mgA' : Nat → Bool) (j : Nat)

/-- the walk over the shifted oracles follows the walk over the original ones and ends in `leading` -/
theorem scanLoop_shift (hj0 : 0 < j) (hj : j < 20)
    (hsz : ∀ p, 20 ≤ p → msA' (p + j) = msA p) (hmg : ∀ p, mgA' (p + j) = mgA p) :
    ∀ (fuel cur : Nat) (acc acc' ms : List Member),
      scanLoop fileSize msA mgA fuel cur acc = .ok ms →
      scanLoop (fileSize + j) msA' mgA' (fuel + j) (cur + j) acc' = .error .leading := by
  intro fuel
  induction fuel with
  | zero => intro cur acc acc' ms h; rw [scanLoop] at h; cases h
  | succ f ih =>
    intro cur acc acc' ms
    have hf : f + 1 + j = (f + j) + 1 := by omega
    rw [hf, scanLoop_succ, scanLoop_succ]
    by_cases h0 : cur = 0
    · intro _
      rw [if_neg (show ¬ cur + j = 0 by omega), if_pos (show cur + j < 20 by omega)]
    rw [if_neg h0]
    by_cases h20 : cur < 20
    · rw [if_pos h20]; intro h; cases h
    rw [if_neg h20, if_neg (show ¬ cur + j = 0 by omega), if_neg (show ¬ cur + j < 20 by omega)]
    have e : msA' (cur + j) = msA cur := hsz cur (by omega)
    rw [e]
    by_cases hm : msA cur = 0 ∨ msA cur > cur
    · rw [if_pos hm]; intro h; cases h
    rw [if_neg hm, if_neg (show ¬ (msA cur = 0 ∨ msA cur > cur + j) by omega)]
    have es : cur + j - msA cur = (cur - msA cur) + j := by omega
    rw [es]
    by_cases he : cur - msA cur + 4 > fileSize
    · rw [if_pos he]; intro h; cases h
    rw [if_neg he, if_neg (show ¬ (cur - msA cur + j + 4 > fileSize + j) by omega)]
    rw [hmg]
    by_cases hg : ¬ mgA (cur - msA cur)
    · rw [if_pos hg]; intro h; cases h
    rw [if_neg hg, if_neg hg]
    intro h
    exact ih _ _ _ ms h

end Shift

theorem memberSizeOf_append (junk rest : List Nat) (p : Nat) (hp : 8 ≤ p) :
    memberSizeOf (junk ++ rest) (p + junk.length) = memberSizeOf rest p := by
  unfold memberSizeOf
  have : p + junk.length - 8 = junk.length + (p - 8) := by omega
  rw [this, List.drop_append, List.drop_eq_nil_of_le (Nat.le_add_right _ _), Nat.add_sub_cancel_left,
    List.nil_append]

theorem magicOf_append (junk rest : List Nat) (p : Nat) :
    magicOf (junk ++ rest) (p + junk.length) = magicOf rest p := by
  unfold magicOf
  rw [Nat.add_comm p, List.drop_append, List.drop_eq_nil_of_le (Nat.le_add_right _ _), Nat.add_sub_cancel_left,
    List.nil_append]

/-- 1..19 bytes of anything in front of a file that `scan_members` accepts: the `leading` error -/
theorem scanFile_leading_junk (junk rest : List Nat) (ms : List Member) (h : scanFile rest = .ok ms)
    (h0 : 0 < junk.length) (h20 : junk.length < 20) :
    scanFile (junk ++ rest) = .error .leading := by
  unfold scanFile scanMembers scanMembersFuel at *
  by_cases hs : rest.length < Consts.LZIP_HEADER_SIZE + Consts.LZIP_TRAILER_SIZE
  · rw [if_pos hs] at h; cases h
  rw [if_neg hs] at h
  have hlen : (junk ++ rest).length = rest.length + junk.length := by
    rw [List.length_append, Nat.add_comm]
  rw [hlen, if_neg (show ¬ rest.length + junk.length < Consts.LZIP_HEADER_SIZE + Consts.LZIP_TRAILER_SIZE by omega)]
  cases hl : scanLoop rest.length (memberSizeOf rest) (magicOf rest) (rest.length + 1) rest.length [] with
  | error e => rw [hl] at h; cases h
  | ok ms' =>
    have key := scanLoop_shift rest.length (memberSizeOf rest) (memberSizeOf (junk ++ rest)) (magicOf rest)
      (magicOf (junk ++ rest)) junk.length h0 h20
      (fun p hp => memberSizeOf_append junk rest p (by omega)) (fun p => magicOf_append junk rest p)
      (rest.length + 1) rest.length [] [] ms' hl
    have hfu : rest.length + junk.length + 1 = rest.length + 1 + junk.length := by omega
    rw [hfu, key]

/-- non-vacuity: three bytes in front of the two-member file of `exScan` -/
example : scanFile ([9, 9, 9] ++ (exMember ++ exMember)) = .error .leading :=
  scanFile_leading_junk [9, 9, 9] (exMember ++ exMember) _ exScan (by decide) (by decide)

end LzmaVerif.Total

#print axioms LzmaVerif.Total.scanLoop_shift
#print axioms LzmaVerif.Total.scanFile_leading_junk
