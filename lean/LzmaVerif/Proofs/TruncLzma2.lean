import LzmaVerif.Proofs.Lzma2
import LzmaVerif.Proofs.TruncXz
/-!
# Truncation of LZMA2 streams

Decoder-only: the chunk loop is monotone in its input (`chunkLoop_ext`): if it reaches the end marker on `p`, it
reaches the same end marker, with the same state, on `p ++ x` (and with more fuel / a larger output cap).  Every read of
the loop is either a pattern match on header bytes or a length-checked `take`; in particular the body of an LZMA chunk
is cut out with `take comp` BEFORE the range decoder runs, so the range decoder never sees the cut.

Consequences: `decode_trunc` (accepted with `consumed` bytes ⇒ no shorter prefix is accepted, for ANY cap),
`lzma2_trunc` (every proper prefix of the writer model's bytes for a valid event sequence is not accepted), and
`payloadTrunc_of_chunksOk`: the `PayloadTrunc` hypothesis of the XZ truncation theorem holds for writer-model payloads.
-/
namespace LzmaVerif.Lzma2
open LzmaVerif Lzma Prog Rc

theorem chunkProps_ext {s : RState} {control : Nat} {inp : List Nat} {s2 : RState} {inp' : List Nat}
    {pr : Option Nat} (h : chunkProps s control inp = .ok (s2, inp', pr)) (x : List Nat) :
    chunkProps s control (inp ++ x) = .ok (s2, inp' ++ x, pr) := by
  unfold chunkProps at h ⊢
  by_cases hc : control ≥ 0xC0
  · rw [if_pos hc] at h ⊢
    cases inp with
    | nil => cases h
    | cons p inp =>
      simp only [List.cons_append] at h ⊢
      by_cases hp : p > 224
      · rw [if_pos hp] at h; cases h
      · rw [if_neg hp] at h ⊢
        by_cases hl : (paramsOfProps p).lc + (paramsOfProps p).lp > 4
        · rw [if_pos hl] at h; cases h
        · rw [if_neg hl] at h ⊢
          injection h with h
          injection h with h1 h2
          injection h2 with h2 h3
          subst h1 h2 h3
          rfl
  · rw [if_neg hc] at h ⊢
    by_cases hn : s.needProps = true
    · rw [if_pos hn] at h; cases h
    · rw [if_neg hn] at h ⊢
      by_cases ha : control ≥ 0xA0
      · rw [if_pos ha] at h ⊢
        injection h with h
        injection h with h1 h2
        injection h2 with h2 h3
        subst h1 h2 h3
        rfl
      · rw [if_neg ha] at h ⊢
        injection h with h
        injection h with h1 h2
        injection h2 with h2 h3
        subst h1 h2 h3
        rfl

/-- **The chunk loop is monotone in its input** (and in fuel and cap): success on `p` is success on `p ++ x` with the
    same final state; exactly the bytes `x` more are left unread. -/
theorem chunkLoop_ext : ∀ (fuel : Nat) (s : RState) (p : List Nat) (cap : Nat) (s' : RState) (rest : List Nat),
    chunkLoop fuel s p cap = .ok s' rest →
    ∀ (x : List Nat) (fuel' cap' : Nat), fuel ≤ fuel' → cap ≤ cap' →
      chunkLoop fuel' s (p ++ x) cap' = .ok s' (rest ++ x) := by
  intro fuel
  induction fuel with
  | zero => intro s p cap s' rest h; rw [chunkLoop] at h; cases h
  | succ fuel ih =>
    intro s p cap s' rest h x fuel' cap' hf hcap
    obtain ⟨f', rfl⟩ : ∃ f', fuel' = f' + 1 := ⟨fuel' - 1, by omega⟩
    cases p with
    | nil => rw [chunkLoop] at h; cases h
    | cons control inp =>
      rw [List.cons_append]
      rw [chunkLoop] at h ⊢
      by_cases hc0 : control = 0
      · simp only [hc0, if_true] at h ⊢
        injection h with h1 h2
        subst h1 h2
        rfl
      · simp only [hc0, if_false] at h ⊢
        by_cases hr : ¬(control ≥ 0xE0 ∨ control = 1) ∧ s.needDictReset = true
        · rw [if_pos hr] at h; cases h
        · rw [if_neg hr] at h ⊢
          generalize (if control ≥ 0xE0 ∨ control = 1 then
            ({ s with needProps := true, needDictReset := false, hist := #[] } : RState) else s) = s1 at h ⊢
          by_cases hc : control ≥ 0x80
          · -- LZMA chunk
            rw [if_pos hc] at h ⊢
            rcases inp with _ | ⟨u1, _ | ⟨u2, _ | ⟨c1, _ | ⟨c2, inp4⟩⟩⟩⟩
            · cases h
            · cases h
            · cases h
            · cases h
            · simp only [List.cons_append] at h ⊢
              cases hcp : chunkProps s1 control inp4 with
              | error e => rw [hcp] at h; cases h
              | ok t =>
                obtain ⟨s2, inp5, props⟩ := t
                rw [hcp] at h
                rw [chunkProps_ext hcp x]
                simp only [] at h ⊢
                by_cases h5 : be16 c1 c2 + 1 < 5
                · rw [if_pos h5] at h; cases h
                · rw [if_neg h5] at h ⊢
                  cases inp5 with
                  | nil => cases h
                  | cons b0 t5 =>
                    simp only [List.cons_append] at h ⊢
                    by_cases hb0 : b0 ≠ 0
                    · rw [if_pos hb0] at h; cases h
                    · rw [if_neg hb0] at h ⊢
                      by_cases hlen : (b0 :: t5).length < be16 c1 c2 + 1
                      · rw [if_pos hlen] at h; cases h
                      · rw [if_neg hlen] at h
                        have hlen' : ¬ (b0 :: (t5 ++ x)).length < be16 c1 c2 + 1 := by
                          simp only [List.length_cons, List.length_append] at hlen ⊢; omega
                        rw [if_neg hlen']
                        have htake : (b0 :: (t5 ++ x)).take (be16 c1 c2 + 1) = (b0 :: t5).take (be16 c1 c2 + 1) := by
                          rw [← List.cons_append]
                          exact List.take_append_of_le_length (by omega)
                        have hdrop : (b0 :: (t5 ++ x)).drop (be16 c1 c2 + 1)
                            = (b0 :: t5).drop (be16 c1 c2 + 1) ++ x := by
                          rw [← List.cons_append]
                          exact List.drop_append_of_le_length (by omega)
                        rw [htake, hdrop]
                        cases hinit : Dec.init ((b0 :: t5).take (be16 c1 c2 + 1)) with
                        | none => rw [hinit] at h; cases h
                        | some d0 =>
                          rw [hinit] at h
                          simp only [] at h ⊢
                          by_cases hcp' : s2.out.size + (control % 32 * 65536 + be16 u1 u2 + 1) > cap
                          · rw [if_pos hcp'] at h; cases h
                          · rw [if_neg hcp'] at h
                            rw [if_neg (by omega : ¬ s2.out.size + (control % 32 * 65536 + be16 u1 u2 + 1) > cap')]
                            generalize (loopProg s2.params s2.dictBuf (control % 32 * 65536 + be16 u1 u2 + 1 + 1)
                              (some (control % 32 * 65536 + be16 u1 u2 + 1)) s2.coder s2.hist [] 0).decRun
                              s2.probs d0 = t at h ⊢
                            obtain ⟨r, probs, d⟩ := t
                            simp only [] at h ⊢
                            rcases r with ⟨stop, coder, hist, parse, em⟩
                            cases stop <;> simp only [] at h ⊢
                            · -- limit
                              by_cases hfin : ¬ d.normalize.isFinished = true
                              · rw [if_pos hfin] at h; cases h
                              · rw [if_neg hfin] at h ⊢
                                exact ih _ _ _ _ _ h x f' cap' (by omega) hcap
                            all_goals cases h
          · -- stored chunk
            rw [if_neg hc] at h ⊢
            by_cases hc2 : control > 2
            · rw [if_pos hc2] at h; cases h
            · rw [if_neg hc2] at h ⊢
              rcases inp with _ | ⟨u1, _ | ⟨u2, inp2⟩⟩
              · cases h
              · cases h
              · simp only [List.cons_append] at h ⊢
                by_cases hlen : inp2.length < be16 u1 u2 + 1
                · rw [if_pos hlen] at h; cases h
                · rw [if_neg hlen] at h
                  rw [if_neg (by rw [List.length_append]; omega : ¬ (inp2 ++ x).length < be16 u1 u2 + 1)]
                  by_cases hcp' : s1.out.size + (be16 u1 u2 + 1) > cap
                  · rw [if_pos hcp'] at h; cases h
                  · rw [if_neg hcp'] at h
                    rw [if_neg (by omega : ¬ s1.out.size + (be16 u1 u2 + 1) > cap')]
                    rw [List.take_append_of_le_length (by omega), List.drop_append_of_le_length (by omega)]
                    exact ih _ _ _ _ _ h x f' cap' (by omega) hcap

/-- **A truncated LZMA2 stream is never accepted** (decoder-only form).  If the reader accepts `input` having consumed
    `r.consumed` bytes, then no prefix shorter than that is accepted — whatever the output cap. -/
theorem decode_trunc {dict : Nat} {preset : Array Nat} {input : List Nat} {cap : Nat} {r : DecOk}
    (h : decode dict preset input cap = .ok r) (k : Nat) (hk : k < r.consumed) (cap' : Nat) (r' : DecOk) :
    decode dict preset (input.take k) cap' ≠ .ok r' := by
  intro h'
  unfold decode at h h'
  cases hcl : chunkLoop (input.length + 1) (initState dict preset) input cap with
  | err e => rw [hcl] at h; cases h
  | capped => rw [hcl] at h; cases h
  | ok s rest =>
    rw [hcl] at h
    injection h with h
    subst h
    simp only at hk
    cases hcl' : chunkLoop ((input.take k).length + 1) (initState dict preset) (input.take k) cap' with
    | err e => rw [hcl'] at h'; cases h'
    | capped => rw [hcl'] at h'; cases h'
    | ok s1 rest1 =>
      have e1 := chunkLoop_ext _ _ _ _ _ _ hcl [] (input.length + 1) (max cap cap') (Nat.le_refl _)
        (Nat.le_max_left _ _)
      have e2 := chunkLoop_ext _ _ _ _ _ _ hcl' (input.drop k) (input.length + 1) (max cap cap')
        (by rw [List.length_take]; omega) (Nat.le_max_right _ _)
      rw [List.append_nil, List.append_nil] at e1
      rw [List.take_append_drop, e1] at e2
      injection e2 with _ e3
      have hl := congrArg List.length e3
      rw [List.length_append, List.length_drop] at hl
      omega

/-- **Truncated writer-model LZMA2 stream.**  For every valid event sequence (hypotheses of `lzma2_roundtrip`): no
    proper prefix of the writer model's bytes is accepted by the reader, whatever the cap. -/
theorem lzma2_trunc (dict : Nat) (preset : Array Nat) (pb : Nat) (hpb : pb ≤ 224)
    (hlclp : (paramsOfProps pb).lc + (paramsOfProps pb).lp ≤ 4)
    (chunks : List Chunk) (data : List Nat) (hok : ChunksOk pb chunks (initW dict preset pb) data)
    (bytes : List Nat) (henc : encodeChunks pb chunks (initW dict preset pb) [] = some bytes)
    (k : Nat) (hk : k < bytes.length) (cap : Nat) (r : DecOk) :
    decode dict preset (bytes.take k) cap ≠ .ok r := by
  obtain ⟨bytes', henc', hdec⟩ := lzma2_roundtrip dict preset pb hpb hlclp chunks data hok
  rw [henc] at henc'
  cases henc'
  have h := hdec [] data.length (Nat.le_refl _)
  rw [List.append_nil] at h
  exact decode_trunc h k hk cap r

/-- **`PayloadTrunc` of the XZ truncation theorem** holds for the LZMA2 payload the writer model produces for a valid
    event sequence: it need not be assumed. -/
theorem payloadTrunc_of_chunksOk (dict : Nat) (pb : Nat) (hpb : pb ≤ 224)
    (hlclp : (paramsOfProps pb).lc + (paramsOfProps pb).lp ≤ 4)
    (chunks : List Chunk) (filtered payload : List Nat)
    (hok : ChunksOk pb chunks (initW dict #[] pb) filtered)
    (henc : encodeChunks pb chunks (initW dict #[] pb) [] = some payload) :
    Xz.PayloadTrunc dict payload := by
  intro i cap hi r
  exact lzma2_trunc dict #[] pb hpb hlclp chunks filtered hok payload henc i hi cap r

/-- more generally, `PayloadTrunc` follows from `PayloadOk` alone (decoder-only argument) -/
theorem payloadTrunc_of_payloadOk {dict : Nat} {payload filtered : List Nat}
    (h : Xz.PayloadOk dict payload filtered) : Xz.PayloadTrunc dict payload := by
  intro i cap hi r
  obtain ⟨chunks, hdec⟩ := h [] filtered.length (Nat.le_refl _)
  rw [List.append_nil] at hdec
  exact decode_trunc hdec i hi cap r

end LzmaVerif.Lzma2

#print axioms LzmaVerif.Lzma2.chunkLoop_ext
#print axioms LzmaVerif.Lzma2.decode_trunc
#print axioms LzmaVerif.Lzma2.lzma2_trunc
#print axioms LzmaVerif.Lzma2.payloadTrunc_of_chunksOk
#print axioms LzmaVerif.Lzma2.payloadTrunc_of_payloadOk
