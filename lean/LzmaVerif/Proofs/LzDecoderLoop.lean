import LzmaVerif.Proofs.LzDecoderMethods
/-!
The reader loop over the cyclic buffer (`round`, `rounds`, `readCall`, `readAll` of `Model/LzDecoder.lean`)
against the unbounded history model (`Hist.push` / `Hist.copy` of `Model/Lzma.lean`).
-/
namespace LzmaVerif.LzDecoder
open LzmaVerif LzmaVerif.Lzma

/-! ## The unbounded model of a symbol sequence -/

def applySym (h : Hist) : Sym → Hist
  | .lit b => h.push b
  | .mtch d l => h.copy d l

def applySyms (h : Hist) : List Sym → Hist
  | [] => h
  | s :: r => applySyms (applySym h s) r

/-- what the symbol decoder guarantees before it calls the dictionary (`repeat` rejects the rest with
    "dist overflow"): a match has a positive length and reaches back at most to the first byte of the
    history (incl. the preset dictionary) and less than the dictionary size -/
def Admissible (n : Nat) : Hist → List Sym → Prop
  | _, [] => True
  | h, .lit b :: r => Admissible n (h.push b) r
  | h, .mtch d l :: r => 1 ≤ l ∧ d < h.size ∧ d < n ∧ Admissible n (h.copy d l) r

theorem ext_applySyms (syms : List Sym) : ∀ h, Ext h (applySyms h syms) := by
  induction syms with
  | nil => intro h; exact Ext.refl h
  | cons s r ih =>
    intro h
    cases s with
    | lit b => exact (ext_push h b).trans (ih _)
    | mtch d l => exact (ext_copy h d l).trans (ih _)

theorem ext_toList {H T : Hist} (h : Ext H T) : T.toList = H.toList ++ (T.extract H.size T.size).toList := by
  have h1 : T.extract 0 H.size = H := by
    apply ext_getD
    · rw [Array.size_extract]; have := h.1; omega
    · intro i hi
      rw [Array.size_extract] at hi
      have := getD_extract T 0 H.size i (by have := h.1; omega) (by omega)
      rw [Nat.zero_add, Nat.zero_add] at this
      rw [this, h.2 i (by omega)]
  have h2 : T.extract 0 H.size ++ T.extract H.size T.size = T := by
    rw [Array.extract_append_extract, Nat.zero_min, Nat.max_eq_right h.1, Array.extract_size]
  rw [h1] at h2
  conv => lhs; rw [← h2]
  rw [Array.toList_append]

/-! ## `while has_space { decode a symbol }` -/

/-- the history that will exist once the pending part of a cut match has been copied -/
def virt (s : State) (H : Hist) : Hist := Hist.copy H s.pendingDist s.pendingLen

/-- a cut match leaves no space, and its distance stays valid -/
def PendOk (s : State) : Prop := 0 < s.pendingLen → s.pos = s.limit ∧ s.pendingDist < s.full

theorem consume_spec {n : Nat} : ∀ (syms : List Sym) (s : State) (H : Hist) (base : Nat),
    Inv s H base → s.bufSize = n → s.pos ≤ s.limit → PendOk s → Admissible n (virt s H) syms →
    ∃ s' rest H', consume s syms = .ok (s', rest) ∧ Inv s' H' base ∧ Ext H H' ∧ s'.bufSize = n ∧
      s'.pos ≤ s'.limit ∧ s'.start = s.start ∧ s'.limit = s.limit ∧ PendOk s' ∧
      Admissible n (virt s' H') rest ∧ applySyms (virt s' H') rest = applySyms (virt s H) syms ∧
      (rest ≠ [] → s'.pos = s'.limit) := by
  intro syms
  induction syms with
  | nil =>
    intro s H base hi hn hle hp hadm
    exact ⟨s, [], H, rfl, hi, Ext.refl H, hn, hle, rfl, rfl, hp, hadm, rfl, fun h => absurd rfl h⟩
  | cons sym rest ih =>
    intro s H base hi hn hle hp hadm
    by_cases hs : s.pos < s.limit
    · have hp0 : s.pendingLen = 0 := by
        by_cases h0 : 0 < s.pendingLen
        · have := (hp h0).1; omega
        · omega
      have hv : virt s H = H := by unfold virt; rw [hp0]; rfl
      rw [hv] at hadm ⊢
      have hfull := hi.full_eq_min
      cases sym with
      | lit b =>
        obtain ⟨s1, hrun, hi1, post⟩ := putByte_spec hi hs b
        have hp1 : PendOk s1 := by intro h; rw [post.pendingLen] at h; omega
        have hv1 : virt s1 (H.push b) = H.push b := by unfold virt; rw [post.pendingLen, hp0]; rfl
        have hadm1 : Admissible n (virt s1 (H.push b)) rest := by rw [hv1]; simpa [Admissible] using hadm
        obtain ⟨s', rest', H', hrun', hi', hext, hn', hle', hst, hlm, hp', hadm', hfin, hprog⟩ :=
          ih s1 (H.push b) base hi1 (by rw [post.bufSize]; exact hn) (by rw [post.pos, post.limit]; omega) hp1 hadm1
        refine ⟨s', rest', H', ?_, hi', (ext_push H b).trans hext, hn', hle', by rw [hst, post.start],
          by rw [hlm, post.limit], hp', hadm', ?_, hprog⟩
        · simp only [consume, State.hasSpace, decide_eq_true_eq, hs, if_true, hrun]; exact hrun'
        · rw [hfin, hv1]; rfl
      | mtch d l =>
        simp only [Admissible] at hadm
        obtain ⟨hl, hdH, hdn, hadmr⟩ := hadm
        obtain ⟨s1, hrun, hi1, post⟩ := repeat_spec (dist := d) (len := l) hi hs (by omega) hl
        generalize hc : min (s.limit - s.pos) l = c at hi1 post
        have hp1 : PendOk s1 := by
          intro h
          rw [post.pendingLen] at h
          refine ⟨by rw [post.pos, post.limit]; omega, ?_⟩
          rw [post.pendingDist]; have := post.full_ge; omega
        have hv1 : virt s1 (Hist.copy H d c) = Hist.copy H d l := by
          unfold virt
          rw [post.pendingLen, post.pendingDist, ← copy_add, Nat.add_sub_cancel' (by omega)]
        have hadm1 : Admissible n (virt s1 (Hist.copy H d c)) rest := by rw [hv1]; exact hadmr
        obtain ⟨s', rest', H', hrun', hi', hext, hn', hle', hst, hlm, hp', hadm', hfin, hprog⟩ :=
          ih s1 (Hist.copy H d c) base hi1 (by rw [post.bufSize]; exact hn) (by rw [post.pos, post.limit]; omega) hp1 hadm1
        refine ⟨s', rest', H', ?_, hi', (ext_copy H d c).trans hext, hn', hle', by rw [hst, post.start],
          by rw [hlm, post.limit], hp', hadm', ?_, hprog⟩
        · simp only [consume, State.hasSpace, decide_eq_true_eq, hs, if_true, hrun]; exact hrun'
        · rw [hfin, hv1]; rfl
    · refine ⟨s, sym :: rest, H, ?_, hi, Ext.refl H, hn, hle, rfl, rfl, hp, hadm, rfl, fun _ => by omega⟩
      simp only [consume, State.hasSpace, decide_eq_true_eq, hs, if_false]

/-! ## One iteration of `read_decode` -/

/-- the state between two iterations: everything decoded so far has been handed out -/
structure Between (n : Nat) (s : State) (H : Hist) (base : Nat) (rest : List Sym) (Final : Hist) : Prop where
  inv : Inv s H base
  bufSize : s.bufSize = n
  start : s.start = s.pos
  pend : 0 < s.pendingLen → s.pos < n ∧ s.pendingDist < s.full
  adm : Admissible n (virt s H) rest
  fin : applySyms (virt s H) rest = Final

theorem Between.ext {n s H base rest Final} (h : Between n s H base rest Final) : Ext H Final := by
  rw [← h.fin]
  exact (ext_copy _ _ _).trans (ext_applySyms _ _)

theorem round_spec {n : Nat} {s : State} {H : Hist} {base : Nat} {rest : List Sym} {Final : Hist}
    (hb : Between n s H base rest Final) (hn : 1 ≤ n) (sz : Nat) (hsz : 1 ≤ sz) :
    ∃ out s' rest' H' base', round s sz rest = .ok (out, s', rest') ∧ Between n s' H' base' rest' Final ∧
      H'.toList = H.toList ++ out ∧ out.length ≤ sz ∧ s'.pos < n ∧
      (s.pos < n → out.length = min sz (n - s.pos) ∨ (rest' = [] ∧ s'.pendingLen = 0)) := by
  have hi := hb.inv
  have hbs := hb.bufSize
  have hple := hi.rep.pos_le
  have htot := hi.rep.total
  obtain ⟨hi0, hle0, hlim0⟩ := setLimit_spec hi sz
  have hlim0' : (s.setLimit sz).limit = min (sz + s.pos) n := by rw [hlim0, hbs]
  have hpos0 : (s.setLimit sz).pos = s.pos := rfl
  obtain ⟨s2, hrun2, hi2, post2⟩ := repeatPending_spec (s := s.setLimit sz) hi0
    (by intro h; have := hb.pend h; exact ⟨by rw [hlim0', hpos0]; omega, this.2⟩)
  have hpl0 : (s.setLimit sz).pendingLen = s.pendingLen := rfl
  have hpd0 : (s.setLimit sz).pendingDist = s.pendingDist := rfl
  generalize hc : min ((s.setLimit sz).limit - (s.setLimit sz).pos) (s.setLimit sz).pendingLen = c at hi2 post2
  replace post2 : RepeatPost (s.setLimit sz) s2 s.pendingDist s.pendingLen c := post2
  replace hi2 : Inv s2 (Hist.copy H s.pendingDist c) base := hi2
  have hp2 : PendOk s2 := by
    intro h
    rw [post2.pendingLen] at h
    refine ⟨by rw [post2.pos, post2.limit]; omega, ?_⟩
    rw [post2.pendingDist]
    have := post2.full_ge
    have := (hb.pend (by omega)).2
    have hf : (s.setLimit sz).full = s.full := rfl
    omega
  have hv2 : virt s2 (Hist.copy H s.pendingDist c) = virt s H := by
    unfold virt
    rw [post2.pendingLen, post2.pendingDist, ← copy_add, Nat.add_sub_cancel' (by omega)]
  obtain ⟨s3, rest', H', hrun3, hi3, hext3, hn3, hle3, hst3, hlm3, hp3, hadm3, hfin3, hprog3⟩ :=
    consume_spec (n := n) rest s2 (Hist.copy H s.pendingDist c) base hi2 (by rw [post2.bufSize]; exact hbs)
      (by rw [post2.pos, post2.limit]; omega) hp2 (by rw [hv2]; exact hb.adm)
  have hstart3 : s3.start = s.pos := by rw [hst3, post2.start]; exact hb.start
  have hlimit3 : s3.limit = min (sz + s.pos) n := by rw [hlm3, post2.limit]; exact hlim0'
  obtain ⟨s4, base4, hrun4, hi4, post4⟩ := flush_spec (cap := sz) hi3 (by omega)
  have hextH : Ext H H' := (ext_copy _ _ _).trans hext3
  have htot3 := hi3.rep.total
  have hout : H'.toList = H.toList ++ (H'.extract (base + s3.start) (base + s3.pos)).toList := by
    rw [hstart3, ← htot, ← htot3]; exact ext_toList hextH
  have hlen : (H'.extract (base + s3.start) (base + s3.pos)).toList.length = s3.pos - s.pos := by
    rw [Array.length_toList, Array.size_extract, hstart3]; omega
  have hge3 : s.pos ≤ s3.pos := by have := hi3.start_le; omega
  have hpos4 : s4.pos < n := by
    have := post4.pos_lt (by omega); have := post4.bufSize; omega
  refine ⟨_, s4, rest', H', base4, ?_, ⟨hi4, by rw [post4.bufSize]; exact hn3, post4.start, ?_, ?_, ?_⟩, hout, ?_, ?_, ?_⟩
  · simp only [round, hrun2, hrun3, hrun4]
  · intro h
    rw [post4.pendingLen] at h
    have := hp3 h
    exact ⟨hpos4, by rw [post4.pendingDist, post4.full]; exact this.2⟩
  · have : virt s4 H' = virt s3 H' := by unfold virt; rw [post4.pendingLen, post4.pendingDist]
    rw [this]; exact hadm3
  · have : virt s4 H' = virt s3 H' := by unfold virt; rw [post4.pendingLen, post4.pendingDist]
    rw [this, hfin3, hv2]; exact hb.fin
  · rw [hlen]; omega
  · exact hpos4
  · intro hlt
    rw [hlen]
    by_cases hfullr : s3.pos = s3.limit
    · left; omega
    · right
      have hr : rest' = [] := by
        by_cases h : rest' = []
        · exact h
        · exact absurd (hprog3 h) hfullr
      refine ⟨hr, ?_⟩
      rw [post4.pendingLen]
      by_cases h0 : 0 < s3.pendingLen
      · exact absurd (hp3 h0).1 hfullr
      · omega

end LzmaVerif.LzDecoder
