import LzmaVerif.Proofs.FiltersBase
import LzmaVerif.Proofs.FiltersBits
/-! PowerPC BCJ filter: decoding inverts encoding. Core Lean only. -/
namespace LzmaVerif.Filters
open LzmaVerif.Bits


def ppcRec (b0 b3 : Nat) : Prop := b0 &&& 0xFC = 0x48 ∧ b3 &&& 3 = 1
def ppcDest (enc : Bool) (p b0 b1 b2 b3 : Nat) : Nat :=
  let src := ((b0 &&& 3) <<< 24) ||| (b1 <<< 16) ||| (b2 <<< 8) ||| (b3 &&& 0xFC)
  if enc then wadd src p else wsub src p
def ppcO0 (D : Nat) : Nat := 0x48 ||| ((D >>> 24) &&& 3)
def ppcO3 (b3 D : Nat) : Nat := (b3 &&& 3) ||| (D % 256)

theorem ppcSrc_eq (b0 b1 b2 b3 : Nat) (h1 : b1 < 256) (h2 : b2 < 256) (h3 : b3 < 256) :
    ((b0 &&& 3) <<< 24) ||| (b1 <<< 16) ||| (b2 <<< 8) ||| (b3 &&& 0xFC)
      = (b0 % 4) * 2 ^ 24 + b1 * 2 ^ 16 + b2 * 2 ^ 8 + b3 / 4 * 4 := by
  rw [and_3, and_FC, shl_eq, shl_eq, shl_eq]
  rw [or_disj (b0 % 4 * 2 ^ 24) (b1 * 2 ^ 16) 24 (by omega) (by omega),
    or_disj (b0 % 4 * 2 ^ 24 + b1 * 2 ^ 16) _ 16 (by omega) (by omega),
    or_disj _ _ 8 (by omega) (by omega)]
  omega

theorem ppcRec_iff (b0 b3 : Nat) : ppcRec b0 b3 ↔ (b0 / 4 % 64 * 4 = 0x48 ∧ b3 % 4 = 1) := by
  unfold ppcRec; rw [and_FC, and_3]

theorem ppcDest_eq (enc : Bool) (p b0 b1 b2 b3 : Nat) (h1 : b1 < 256) (h2 : b2 < 256) (h3 : b3 < 256) :
    ppcDest enc p b0 b1 b2 b3 =
      if enc then ((b0 % 4) * 2 ^ 24 + b1 * 2 ^ 16 + b2 * 2 ^ 8 + b3 / 4 * 4 + p) % 2 ^ 32
      else ((b0 % 4) * 2 ^ 24 + b1 * 2 ^ 16 + b2 * 2 ^ 8 + b3 / 4 * 4 + 2 ^ 32 - p % 2 ^ 32) % 2 ^ 32 := by
  simp only [ppcDest, wadd, wsub]
  rw [ppcSrc_eq _ _ _ _ h1 h2 h3]

theorem ppcO0_eq (D : Nat) : ppcO0 D = 0x48 + D / 2 ^ 24 % 4 := by
  unfold ppcO0
  rw [shr_eq, and_3, or_disj 0x48 _ 2 (by omega) (by omega)]

theorem ppcO3_eq (b3 D : Nat) (hD : D % 4 = 0) : ppcO3 b3 D = b3 % 4 + D % 256 := by
  unfold ppcO3
  rw [and_3, or_disj' _ _ 2 (by omega) (by omega)]

theorem wsub_wadd_low (S p D D' : Nat) (hlt : S < 2 ^ 26) (hp2 : p < 2 ^ 32) (hD : D = (S + p) % 2 ^ 32)
    (hD' : D' = (D % 2 ^ 26 + 2 ^ 32 - p % 2 ^ 32) % 2 ^ 32) : D' % 2 ^ 26 = S := by
  omega

theorem ppc_arith (p b0 b1 b2 b3 D c0 c1 c2 c3 D' : Nat) (hp : p % 4 = 0) (hp2 : p < 2 ^ 32)
    (h0 : b0 < 256) (h1 : b1 < 256) (h2 : b2 < 256) (h3 : b3 < 256) (hr : ppcRec b0 b3)
    (hD : D = ppcDest true p b0 b1 b2 b3)
    (hc0 : c0 = ppcO0 D % 256) (hc1 : c1 = (D >>> 16) % 256) (hc2 : c2 = (D >>> 8) % 256)
    (hc3 : c3 = ppcO3 b3 D % 256)
    (hD' : D' = ppcDest false p c0 c1 c2 c3) :
    ppcRec c0 c3 ∧ ppcO0 D' % 256 = b0 ∧ (D' >>> 16) % 256 = b1 ∧
      (D' >>> 8) % 256 = b2 ∧ ppcO3 c3 D' % 256 = b3 := by
  rw [ppcRec_iff] at hr ⊢
  obtain ⟨hr0, hr3⟩ := hr
  rw [ppcDest_eq _ _ _ _ _ _ h1 h2 h3, if_pos rfl] at hD
  have hD4 : D % 4 = 0 := by omega
  rw [ppcO0_eq] at hc0
  rw [shr_eq] at hc1 hc2
  rw [ppcO3_eq _ _ hD4] at hc3
  rw [ppcDest_eq _ _ _ _ _ _ (by omega) (by omega) (by omega), if_neg (by simp)] at hD'
  -- the decoder's source word is the encoder's destination word (low 26 bits)
  have hS' : c0 % 4 * 2 ^ 24 + c1 * 2 ^ 16 + c2 * 2 ^ 8 + c3 / 4 * 4 = D % 2 ^ 26 := by
    clear hD hD'; omega
  rw [hS'] at hD'
  have hc3' : c3 % 4 = 1 := by clear hD hD' hS'; omega
  have hc0' : c0 / 4 % 64 * 4 = 72 := by clear hD hD' hS'; omega
  -- and the decoder's destination is the encoder's source
  have hS : D' % 2 ^ 26 = b0 % 4 * 2 ^ 24 + b1 * 2 ^ 16 + b2 * 2 ^ 8 + b3 / 4 * 4 := by
    have hlt : b0 % 4 * 2 ^ 24 + b1 * 2 ^ 16 + b2 * 2 ^ 8 + b3 / 4 * 4 < 2 ^ 26 := by omega
    exact wsub_wadd_low _ p D D' hlt hp2 hD hD'
  have hD4' : D' % 4 = 0 := by omega
  rw [ppcO0_eq, shr_eq, shr_eq, ppcO3_eq _ _ hD4']
  clear hD hD' hS' hc0 hc1 hc2 hc3
  refine ⟨⟨hc0', hc3'⟩, ?_, ?_, ?_, ?_⟩ <;> omega


instance (b0 b3 : Nat) : Decidable (ppcRec b0 b3) :=
  inferInstanceAs (Decidable (b0 &&& 0xFC = 0x48 ∧ b3 &&& 3 = 1))

def ppcStep (enc : Bool) (st : St) (i : Nat) (b : Buf) : Buf :=
  if ppcRec (gb b i) (gb b (i + 3)) then
    let dest := ppcDest enc (posAt st i) (gb b i) (gb b (i + 1)) (gb b (i + 2)) (gb b (i + 3))
    sb (sb (sb (sb b i (ppcO0 dest)) (i + 1) (dest >>> 16)) (i + 2) (dest >>> 8)) (i + 3) (ppcO3 (gb b (i + 3)) dest)
  else b

theorem ppcLoop_eq_scan (enc : Bool) (st : St) : ∀ fuel i b,
    ppcLoop enc st fuel i b = scan 4 (fun i b => (ppcStep enc st i b, 4)) fuel i b := by
  intro fuel
  induction fuel with
  | zero => intro i b; rfl
  | succ n ih =>
    intro i b
    simp only [ppcLoop, scan]
    split
    · rfl
    · rw [← ih]
      simp only [ppcStep]
      split <;> rename_i h
      · rw [if_pos (show ppcRec _ _ from h)]; rfl
      · rw [if_neg (show ¬ ppcRec _ _ from h)]

theorem ppcStep_size (enc : Bool) (st : St) (i : Nat) (b : Buf) : (ppcStep enc st i b).size = b.size := by
  simp only [ppcStep]; split <;> simp only [size_sb]

theorem ppcStep_frame (enc : Bool) (st : St) (i : Nat) (b : Buf) (k : Nat) (hk : k < i ∨ i + 4 ≤ k) :
    gb (ppcStep enc st i b) k = gb b k := by
  simp only [ppcStep]; split
  · rw [gb_sb_ne _ _ _ _ (by omega), gb_sb_ne _ _ _ _ (by omega), gb_sb_ne _ _ _ _ (by omega),
      gb_sb_ne _ _ _ _ (by omega)]
  · rfl

theorem ppcStep_bytes (enc : Bool) (st : St) (i : Nat) (b : Buf) (h : BBytes b) : BBytes (ppcStep enc st i b) := by
  simp only [ppcStep]; split
  · exact BBytes_sb _ _ _ (BBytes_sb _ _ _ (BBytes_sb _ _ _ (BBytes_sb _ _ _ h)))
  · exact h

theorem ppcStep_loc (enc : Bool) (st : St) (i : Nat) (b b' : Buf) (h : Agree i 4 b b') :
    Agree i 4 (ppcStep enc st i b) (ppcStep enc st i b') := by
  have h0 := h.2 i (by omega) (by omega)
  have h1 := h.2 (i + 1) (by omega) (by omega)
  have h2 := h.2 (i + 2) (by omega) (by omega)
  have h3 := h.2 (i + 3) (by omega) (by omega)
  simp only [ppcStep, h0, h1, h2, h3]
  split
  · exact (((h.sb _ _).sb _ _).sb _ _).sb _ _
  · exact h

theorem ppcStep_get (enc : Bool) (st : St) (i : Nat) (b : Buf) (hw : i + 4 ≤ b.size)
    (hr : ppcRec (gb b i) (gb b (i + 3))) (D : Nat)
    (hD : D = ppcDest enc (posAt st i) (gb b i) (gb b (i + 1)) (gb b (i + 2)) (gb b (i + 3))) :
    gb (ppcStep enc st i b) i = ppcO0 D % 256 ∧
    gb (ppcStep enc st i b) (i + 1) = (D >>> 16) % 256 ∧
    gb (ppcStep enc st i b) (i + 2) = (D >>> 8) % 256 ∧
    gb (ppcStep enc st i b) (i + 3) = ppcO3 (gb b (i + 3)) D % 256 := by
  simp only [ppcStep, if_pos hr, ← hD]
  refine ⟨?_, ?_, ?_, ?_⟩
  · rw [gb_sb_ne _ _ _ _ (by omega), gb_sb_ne _ _ _ _ (by omega), gb_sb_ne _ _ _ _ (by omega),
      gb_sb_eq _ _ _ (by omega)]
  · rw [gb_sb_ne _ _ _ _ (by omega), gb_sb_ne _ _ _ _ (by omega),
      gb_sb_eq _ _ _ (by simp only [size_sb]; omega)]
  · rw [gb_sb_ne _ _ _ _ (by omega), gb_sb_eq _ _ _ (by simp only [size_sb]; omega)]
  · rw [gb_sb_eq _ _ _ (by simp only [size_sb]; omega)]

theorem ppcStep_inv (st : St) (hp : st.pos % 4 = 0) (i : Nat) (b : Buf) (hi : i % 4 = 0) (hB : BBytes b)
    (hw : i + 4 ≤ b.size) : ppcStep false st i (ppcStep true st i b) = b := by
  by_cases hr : ppcRec (gb b i) (gb b (i + 3))
  · obtain ⟨g0, g1, g2, g3⟩ := ppcStep_get true st i b hw hr _ rfl
    have hpp : posAt st i % 4 = 0 ∧ posAt st i < 2 ^ 32 := by simp only [posAt, u32]; omega
    obtain ⟨hr', a0, a1, a2, a3⟩ := ppc_arith (posAt st i) _ _ _ _ _ _ _ _ _ _ hpp.1 hpp.2
      (hB i) (hB (i + 1)) (hB (i + 2)) (hB (i + 3)) hr rfl g0 g1 g2 g3 rfl
    obtain ⟨f0, f1, f2, f3⟩ := ppcStep_get false st i (ppcStep true st i b)
      (by rw [ppcStep_size]; exact hw) hr' _ rfl
    apply buf_ext
    · rw [ppcStep_size, ppcStep_size]
    · intro k _
      by_cases hwin : k < i ∨ i + 4 ≤ k
      · rw [ppcStep_frame _ _ _ _ _ hwin, ppcStep_frame _ _ _ _ _ hwin]
      · have : k = i ∨ k = i + 1 ∨ k = i + 2 ∨ k = i + 3 := by omega
        rcases this with rfl | rfl | rfl | rfl
        · rw [f0, a0]
        · rw [f1, a1]
        · rw [f2, a2]
        · rw [f3, a3]
  · have e1 : ppcStep true st i b = b := by simp only [ppcStep, if_neg hr]
    have e2 : ppcStep false st i b = b := by simp only [ppcStep, if_neg hr]
    rw [e1, e2]

theorem ppc_stepOK (st : St) (hp : st.pos % 4 = 0) :
    StepOK 4 (fun i => i % 4 = 0) (fun _ _ => 0) (fun i b => (ppcStep true st i b, 4)) (fun i b => (ppcStep false st i b, 4)) :=
  StepOK.fixed 4 _ _ _ (ppcStep_size _ _) (ppcStep_size _ _) (fun i h => by omega)
    (ppcStep_frame _ _) (ppcStep_frame _ _) (ppcStep_bytes _ _)
    (fun i b b' h _ => ppcStep_loc _ _ i b b' h)
    (fun i b hi hB hw => ppcStep_inv st hp i b hi hB hw)

/-- REQUIRED 3 -/
theorem ppc_inv (start : Nat) (hs : start % 4 = 0) (xs : List Nat) (h : Bytes xs) :
    oneShot .ppc false start (oneShot .ppc true start xs) = xs := by
  have hp : (St.init .ppc start).pos % 4 = 0 := by simp only [St.init]; omega
  simp only [oneShot, code, ppcLoop_eq_scan]
  rw [Array.toArray_toList, scan_size _ (ppcStep_size _ _)]
  rw [scan_inv (ppc_stepOK _ hp) _ _ (by rfl) (BBytes_toArray xs h)]

end LzmaVerif.Filters
