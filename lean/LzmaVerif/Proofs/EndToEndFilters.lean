import LzmaVerif.Props.C11
import LzmaVerif.Proofs.Xz
/-!
# The XZ filter chain is inverted by the reader chain

`unfilter_applyFilters`: for every admissible filter chain (`FiltersOk`) and every byte string,
`unfilter fs (applyFilters fs xs) = xs`.  Ingredients: `delta_inv`, `bcj_inverse` (all eight architectures) and
the fact that every filter maps byte strings to byte strings (`oneShot_bytes`, `deltaEncode_bytes`), so the
inverse theorems apply at every stage of the chain.
-/
namespace LzmaVerif.Filters

theorem Bytes_of_BBytes (b : Buf) (h : BBytes b) : Bytes b.toList := by
  intro x hx
  obtain ⟨i, hi, rfl⟩ := List.getElem_of_mem hx
  have hi' : i < b.size := by simpa using hi
  have := h i
  simpa [gb, Array.getD_eq_getD_getElem?, hi'] using this

/-- every BCJ transform (either direction) maps buffers of bytes to buffers of bytes -/
theorem code_bytes (a : Arch) (enc : Bool) (st : St) (b : Buf) (h : BBytes b) : BBytes (code a enc st b).1 := by
  cases a <;> simp only [code]
  · split
    · exact h
    · rw [x86Loop_eq_xl]; exact xl_bytes _ _ _ _ _ _ _ h
  · rw [ppcLoop_eq_scan]; exact scan_bytes _ (fun i b hb => ppcStep_bytes enc st i b hb) _ _ _ h
  · rw [ia64Loop_eq_scan]; exact scan_bytes _ (fun i b hb => ia64Step_bytes enc st i b hb) _ _ _ h
  · rw [armLoop_eq_scan]; exact scan_bytes _ (fun i b hb => armStep_bytes enc st i b hb) _ _ _ h
  · rw [thumbLoop_eq_scan]; exact scan_bytes _ (fun i b hb => thumbStep_bytes enc st i b hb) _ _ _ h
  · rw [sparcLoop_eq_scan]; exact scan_bytes _ (fun i b hb => sparcStep_bytes enc st i b hb) _ _ _ h
  · rw [arm64Loop_eq_scan]; exact scan_bytes _ (fun i b hb => arm64Step_bytes enc st i b hb) _ _ _ h
  · rw [riscvLoop_eq_scan]; exact scan_bytes _ (fun i b hb => riscvStep_bytes enc st i b hb) _ _ _ h

theorem oneShot_bytes (a : Arch) (enc : Bool) (start : Nat) (xs : List Nat) (h : Bytes xs) :
    Bytes (oneShot a enc start xs) :=
  Bytes_of_BBytes _ (code_bytes a enc _ _ (BBytes_toArray xs h))

theorem run_bytes (f : Delta → Nat → Nat × Delta) (hf : ∀ d x, (f d x).1 < 256) :
    ∀ (xs : List Nat) (d : Delta), Bytes (Delta.run f d xs).1 := by
  intro xs
  induction xs with
  | nil => intro d x hx; cases hx
  | cons x xs ih =>
    intro d y hy
    simp only [Delta.run] at hy
    rcases List.mem_cons.mp hy with rfl | hy
    · exact hf d x
    · exact ih _ y hy

/-- the delta encoder produces bytes (from ANY input: every output is reduced modulo 256) -/
theorem deltaEncode_bytes (dist : Nat) (xs : List Nat) : Bytes (deltaEncode dist xs) :=
  run_bytes _ (fun d x => by simp only [Delta.encode1]; omega) xs _

theorem deltaDecode_bytes (dist : Nat) (xs : List Nat) : Bytes (deltaDecode dist xs) :=
  run_bytes _ (fun d x => by simp only [Delta.decode1]; omega) xs _

end LzmaVerif.Filters

namespace LzmaVerif.Xz
open LzmaVerif

theorem archAlign_eq_alignOf (a : Filters.Arch) : archAlign a = Props.C11.alignOf a := by
  cases a <;> rfl

/-- the writer-side chain maps bytes to bytes -/
theorem applyFilters_bytes : ∀ (fs : List Filter) (xs : List Nat), Bytes xs → Bytes (applyFilters fs xs) := by
  intro fs
  induction fs with
  | nil => intro xs h; exact h
  | cons f fs ih =>
    intro xs h
    cases f with
    | delta dist => exact ih _ (Filters.deltaEncode_bytes dist xs)
    | bcj a s => exact ih _ (Filters.oneShot_bytes a true s xs h)
    | lzma2 _ => exact ih _ h

/-- general form: every non-LZMA2 filter of the chain is admissible (`PreOk`: delta distance in 1..256, BCJ start
offset aligned and below 2^32); LZMA2 entries are transparent for `applyFilters`/`unfilter` -/
theorem unfilter_applyFilters_gen : ∀ (fs : List Filter),
    (∀ f ∈ fs, PreOk f ∨ ∃ d, f = .lzma2 d) → ∀ (xs : List Nat), Bytes xs → unfilter fs (applyFilters fs xs) = xs := by
  intro fs
  induction fs with
  | nil => intro _ xs _; rfl
  | cons f fs ih =>
    intro hfs xs hx
    have hrest : ∀ f ∈ fs, PreOk f ∨ ∃ d, f = .lzma2 d := fun g hg => hfs g (List.mem_cons_of_mem _ hg)
    have hf := hfs f List.mem_cons_self
    cases f with
    | delta dist =>
      simp only [applyFilters, unfilter]
      rw [ih hrest _ (Filters.deltaEncode_bytes dist xs)]
      exact Filters.delta_inv dist xs hx
    | bcj a s =>
      simp only [applyFilters, unfilter]
      rw [ih hrest _ (Filters.oneShot_bytes a true s xs hx)]
      have hal : s % Props.C11.alignOf a = 0 := by
        rcases hf with hf | ⟨d, hd⟩
        · rw [← archAlign_eq_alignOf]; exact hf.2
        · cases hd
      exact Props.C11.bcj_inverse a s hal xs hx
    | lzma2 d =>
      simp only [applyFilters, unfilter]
      exact ih hrest xs hx

theorem mem_dropLast_or_getLast {α : Type} : ∀ (l : List α) (x : α), x ∈ l → x ∈ l.dropLast ∨ l.getLast? = some x := by
  intro l
  induction l with
  | nil => intro x hx; cases hx
  | cons y l ih =>
    intro x hx
    cases l with
    | nil =>
      rw [List.mem_singleton] at hx
      subst hx
      exact Or.inr rfl
    | cons z l =>
      rw [List.dropLast_cons_cons, List.getLast?_cons_cons]
      rcases List.mem_cons.mp hx with rfl | hx
      · exact Or.inl List.mem_cons_self
      · rcases ih x hx with h | h
        · exact Or.inl (List.mem_cons_of_mem _ h)
        · exact Or.inr h

/-- **The reader's filter chain inverts the writer's**, for every admissible chain and every byte string. -/
theorem unfilter_applyFilters (fs : List Filter) (hfs : FiltersOk fs) (xs : List Nat) (hx : Bytes xs) :
    unfilter fs (applyFilters fs xs) = xs := by
  apply unfilter_applyFilters_gen fs _ xs hx
  intro f hf
  rcases mem_dropLast_or_getLast fs f hf with h | h
  · exact Or.inl (hfs.2.1 f h)
  · have hl := hfs.2.2
    rw [h] at hl
    cases f with
    | delta d => exact absurd hl (by simp [LastOk])
    | bcj a s => exact absurd hl (by simp [LastOk])
    | lzma2 d => exact Or.inr ⟨d, rfl⟩

end LzmaVerif.Xz

#print axioms LzmaVerif.Filters.oneShot_bytes
#print axioms LzmaVerif.Xz.applyFilters_bytes
#print axioms LzmaVerif.Xz.unfilter_applyFilters
