import LzmaVerif.Proofs.EndToEndFilters
import LzmaVerif.Proofs.EndToEndLzma
import LzmaVerif.Proofs.Lzma2
import LzmaVerif.Proofs.LzipFile
import LzmaVerif.Proofs.LzipDict
/-!
# Closed end-to-end theorems: XZ

The container theorems (`Proofs/Xz.lean`) are parametric in the payload codec (`PayloadOk`) and in the filter
inverse; the LZMA2 theorems (`Proofs/Lzma2.lean`) discharge the former, `unfilter_applyFilters`
(`Proofs/EndToEndFilters.lean`) the latter.  Here they are composed: NO codec or filter hypothesis is left.
What remains is

* the data are bytes,
* the options are in range (`FiltersOk`; `pb ≤ 224`, `lc + lp ≤ 4`),
* a valid chunking/parse of the FILTERED data exists (`ChunksOk` – what the real encoder's search provides and
  what the driver validates on every real stream),
* the sizes fit the container's integer fields (`SizesOk`, or the plain length bounds).
-/
namespace LzmaVerif.Xz
open LzmaVerif Lzma Checks

/-- a block as the encoder sees it: the data, the LZMA properties byte and the chunking (LZMA chunks with their
parses, stored chunks, restarts) its search has found for the filtered data -/
structure EBlock where
  pb : Nat
  chunks : List Lzma2.Chunk
  data : List Nat

/-- the LZMA2 payload the writer model emits for the block (`[]` only if `encodeChunks` fails, which `EBlock.Ok`
excludes: `EBlock.payload_eq`) -/
def EBlock.payload (fs : List Filter) (b : EBlock) : List Nat :=
  (Lzma2.encodeChunks b.pb b.chunks (Lzma2.initW (readerDict fs) #[] b.pb) []).getD []

/-- the hypotheses on one block: bytes, properties in range, and a valid chunking of the filtered data -/
def EBlock.Ok (fs : List Filter) (b : EBlock) : Prop :=
  Bytes b.data ∧ b.pb ≤ 224 ∧ (paramsOfProps b.pb).lc + (paramsOfProps b.pb).lp ≤ 4 ∧
  Lzma2.ChunksOk b.pb b.chunks (Lzma2.initW (readerDict fs) #[] b.pb) (applyFilters fs b.data)

/-- the `(payload, data)` pairs `streamBytes` lays out -/
def wire (fs : List Filter) (bs : List EBlock) : List (List Nat × List Nat) :=
  bs.map fun b => (b.payload fs, b.data)

def dataOf (bs : List EBlock) : List Nat := (bs.map (·.data)).flatten

theorem wire_data (fs : List Filter) (bs : List EBlock) : ((wire fs bs).map (·.2)).flatten = dataOf bs := by
  simp [wire, dataOf, Function.comp_def]

theorem wire_length (fs : List Filter) (bs : List EBlock) : (wire fs bs).length = bs.length := by
  simp [wire]

/-- under `EBlock.Ok` the writer model does produce a payload -/
theorem EBlock.payload_eq (fs : List Filter) (b : EBlock) (hb : b.Ok fs) :
    Lzma2.encodeChunks b.pb b.chunks (Lzma2.initW (readerDict fs) #[] b.pb) [] = some (b.payload fs) := by
  obtain ⟨_, hpb, hlclp, hok⟩ := hb
  obtain ⟨bytes, henc, _⟩ := Lzma2.lzma2_roundtrip (readerDict fs) #[] b.pb hpb hlclp b.chunks _ hok
  simp only [EBlock.payload, henc, Option.getD_some]

/-- **both hypotheses of the container theorem, discharged**: the payload decodes (LZMA2 round trip) and the
filter chain is inverted (filter inverse theorems) -/
theorem EBlock.blockHyp (fs : List Filter) (hfs : FiltersOk fs) (b : EBlock) (hb : b.Ok fs) :
    PayloadOk (readerDict fs) (b.payload fs) (applyFilters fs b.data) ∧
      unfilter fs (applyFilters fs b.data) = b.data :=
  ⟨Lzma2.payloadOk_of_chunksOk (readerDict fs) b.pb hb.2.1 hb.2.2.1 b.chunks _ _ hb.2.2.2 (b.payload_eq fs hb),
   unfilter_applyFilters fs hfs b.data hb.1⟩

theorem wire_hyp (fs : List Filter) (hfs : FiltersOk fs) (bs : List EBlock) (hb : ∀ b ∈ bs, b.Ok fs) :
    ∀ p ∈ wire fs bs, PayloadOk (readerDict fs) p.1 (applyFilters fs p.2) ∧
      unfilter fs (applyFilters fs p.2) = p.2 := by
  intro p hp
  simp only [wire, List.mem_map] at hp
  obtain ⟨b, hbm, rfl⟩ := hp
  exact b.blockHyp fs hfs (hb b hbm)

/-- **XZ end to end.**  For every check type, every admissible filter chain (up to three of Delta / BCJ, then
LZMA2), every list of data blocks (bytes), each with an admissible properties byte and a valid chunking of its
filtered data: the reader model, run on the writer model's stream followed by ANY bytes, returns exactly the
concatenated data, has consumed exactly the stream, and reports the blocks. -/
theorem xz_end_to_end (c : Check) (fs : List Filter) (hfs : FiltersOk fs) (bs : List EBlock)
    (hb : ∀ b ∈ bs, b.Ok fs) (hsz : SizesOk c fs (wire fs bs))
    (rest : List Nat) (cap : Nat) (hcap : (dataOf bs).length ≤ cap) :
    Xz.decode false (streamBytes c fs (wire fs bs) ++ rest) cap
      = .ok (dataOf bs) (streamBytes c fs (wire fs bs)).length ((wire fs bs).map (blkOf fs)).reverse := by
  have h := xz_roundtrip_blocks c fs hfs (wire fs bs) (wire_hyp fs hfs bs hb) hsz rest cap
    (by rw [wire_data]; exact hcap)
  rw [wire_data] at h
  exact h

/-- the same with the size side condition stated as plain length bounds (stream and data below 2^63 bytes, at
most 2^29 blocks) -/
theorem xz_end_to_end' (c : Check) (fs : List Filter) (hfs : FiltersOk fs) (bs : List EBlock)
    (hb : ∀ b ∈ bs, b.Ok fs)
    (hlen : (streamBytes c fs (wire fs bs)).length < 2 ^ 63) (hdat : (dataOf bs).length < 2 ^ 63)
    (hn : bs.length ≤ 2 ^ 29)
    (rest : List Nat) (cap : Nat) (hcap : (dataOf bs).length ≤ cap) :
    Xz.decode false (streamBytes c fs (wire fs bs) ++ rest) cap
      = .ok (dataOf bs) (streamBytes c fs (wire fs bs)).length ((wire fs bs).map (blkOf fs)).reverse :=
  xz_end_to_end c fs hfs bs hb
    (sizesOk_of_length c fs (wire fs bs) hlen (by rw [wire_data]; exact hdat) (by rw [wire_length]; exact hn))
    rest cap hcap

/-! ## Concatenated streams -/

/-- a stream as the encoder sees it -/
structure EStrm where
  c : Check
  fs : List Filter
  blocks : List EBlock

def EStrm.toStrm (s : EStrm) : Strm := ⟨s.c, s.fs, wire s.fs s.blocks⟩

/-- the closed hypotheses on one stream -/
def EStrm.Ok (s : EStrm) : Prop :=
  FiltersOk s.fs ∧ (∀ b ∈ s.blocks, b.Ok s.fs) ∧ SizesOk s.c s.fs (wire s.fs s.blocks)

theorem EStrm.toStrm_ok (s : EStrm) (h : s.Ok) : s.toStrm.Ok :=
  Strm.ok_of s.c s.fs (wire s.fs s.blocks) h.1 (wire_hyp s.fs h.1 s.blocks h.2.1) h.2.2

theorem EStrm.toStrm_data (s : EStrm) : s.toStrm.data = dataOf s.blocks := by
  simp only [EStrm.toStrm, Strm.data, blocksData]
  exact wire_data s.fs s.blocks

def ecat (ss : List (Nat × EStrm)) : List (Nat × Strm) := ss.map fun x => (x.1, x.2.toStrm)

/-- **XZ end to end, multi-stream**: a first stream, then any list of further streams (each with its own check
type, filter chain and blocks), each preceded by stream padding of a multiple of four bytes, then `t` bytes of
trailing padding (`t % 4 = 0`): the reader in multi-stream mode returns the concatenated data, consumes
everything and reports the blocks of the last stream. -/
theorem xz_end_to_end_multi (s₀ : EStrm) (h₀ : s₀.Ok) (ss : List (Nat × EStrm))
    (hss : ∀ x ∈ ss, x.1 % 4 = 0 ∧ x.2.Ok) (t : Nat) (ht : t % 4 = 0) (cap : Nat)
    (hcap : (dataOf s₀.blocks ++ catData (ecat ss)).length ≤ cap) :
    Xz.decode true (s₀.toStrm.bytes ++ (catBytes (ecat ss) ++ List.replicate t 0)) cap
      = .ok (dataOf s₀.blocks ++ catData (ecat ss))
          (s₀.toStrm.bytes ++ (catBytes (ecat ss) ++ List.replicate t 0)).length
          (finalBlks (ecat ss) s₀.toStrm.blks) := by
  have hss' : ∀ x ∈ ecat ss, x.1 % 4 = 0 ∧ x.2.Ok := by
    intro x hx
    simp only [ecat, List.mem_map] at hx
    obtain ⟨y, hy, rfl⟩ := hx
    exact ⟨(hss y hy).1, y.2.toStrm_ok (hss y hy).2⟩
  have h := xz_concat_list s₀.toStrm (s₀.toStrm_ok h₀) (ecat ss) hss' t ht cap
    (by rw [s₀.toStrm_data]; exact hcap)
  rw [s₀.toStrm_data] at h
  exact h

/-- the data of the further streams, spelled out -/
theorem catData_ecat : ∀ (ss : List (Nat × EStrm)), catData (ecat ss) = (ss.map fun x => dataOf x.2.blocks).flatten := by
  intro ss
  induction ss with
  | nil => rfl
  | cons x ss ih =>
    obtain ⟨k, s⟩ := x
    simp only [ecat, List.map_cons, catData, List.flatten_cons] at ih ⊢
    rw [ih, s.toStrm_data]

end LzmaVerif.Xz

/-! # Closed end-to-end theorem: LZIP

`MemberOk` (the hypothesis of `lzip_roundtrip_recs`) contains the codec hypothesis `LzipFile.PayloadOk`: the
member's raw LZMA stream decodes, under EVERY admissible cap, to the data.  It is NOT the parse hypothesis; it is
discharged here from `lzma_marker_uniform` (the LZMA round trip with end marker, one byte string for every cap). -/
namespace LzmaVerif.LzipFile
open LzmaVerif Lzma Checks

/-- the dictionary buffer of the reader for a member with dictionary byte `db` -/
def memberDictBuf (db : Nat) : Nat := lzmaReaderDictBuf ((Lzip.decodeDict db).getD 0) none 0

/-- a member as the encoder sees it: dictionary byte, the parse its search has found, the length field of the
end marker (the encoder uses 2), the data -/
structure EMember where
  dictByte : Nat
  parse : List Sym
  mlen : Nat := 2
  data : List Nat

/-- the raw LZMA stream (lc = 3, lp = 0, pb = 2, end marker) the writer model emits for the member -/
def EMember.lzma (m : EMember) : List Nat :=
  (encodeParse lzipParams (memberDictBuf m.dictByte) #[] none (m.parse.length + 1)
    (m.parse ++ [.mtch END_DIST m.mlen])).getD []

/-- the hypotheses on one member: the data are bytes; the dictionary byte is one the reader accepts; the marker
length is admissible; the parse denotes the data (every symbol admissible, every copy inside the dictionary);
and the sizes fit the trailer's 64-bit fields -/
def EMember.Ok (m : EMember) : Prop :=
  Bytes m.data ∧ (∃ dict, Lzip.decodeDict m.dictByte = some dict) ∧ (2 ≤ m.mlen ∧ m.mlen ≤ 273) ∧
  (∃ c', parseRun (memberDictBuf m.dictByte) m.parse Coder.init #[] = some (c', m.data.toArray)) ∧
  m.data.length < 2 ^ 64 ∧ m.lzma.length + 26 < 2 ^ 64

def EMember.toWire (m : EMember) : Nat × List Nat × List Nat := (m.dictByte, m.lzma, m.data)

theorem presetUsedOf_empty (d : Nat) : presetUsedOf #[] d = #[] := by
  simp [presetUsedOf]

theorem memberDictBuf_le (db dict : Nat) (h : Lzip.decodeDict db = some dict) : memberDictBuf db ≤ END_DIST := by
  obtain ⟨_, _, _, h1, h2⟩ := Lzip.decodeDict_some db dict h
  simp only [memberDictBuf, h, Option.getD_some, lzmaReaderDictBuf, lzmaDictBuf, END_DIST]
  omega

/-- **the codec hypothesis of the LZIP container theorems, discharged** -/
theorem EMember.payloadOk (m : EMember) (hm : m.Ok) :
    PayloadOk (memberDictBuf m.dictByte) m.lzma m.data ∧ Bytes m.lzma := by
  obtain ⟨_, ⟨dict, hdict⟩, hml, ⟨c', hp⟩, _, _⟩ := hm
  have hd := memberDictBuf_le m.dictByte dict hdict
  have hp' : parseRun (memberDictBuf m.dictByte) m.parse Coder.init (presetUsedOf #[] (memberDictBuf m.dictByte))
      = some (c', m.data.toArray) := by rw [presetUsedOf_empty]; exact hp
  obtain ⟨bytes, henc, hbytes, hdec⟩ := lzma_marker_uniform lzipParams (memberDictBuf m.dictByte) hd #[] m.parse
    m.mlen hml c' m.data.toArray hp'
  have hl : m.lzma = bytes := by
    have := henc (m.parse.length + 1) (Nat.lt_succ_self _)
    rw [presetUsedOf_empty] at this
    simp only [EMember.lzma, this, Option.getD_some]
  have hlen : m.parse.length ≤ m.data.length := by
    have := Props.C01.parseRun_length_le _ _ _ _ _ _ hp
    simpa using this
  rw [hl]
  refine ⟨?_, hbytes⟩
  intro rest cap hcap
  refine ⟨m.parse ++ [.mtch END_DIST m.mlen], ?_⟩
  rw [hdec rest cap (by omega), presetUsedOf_empty]
  simp

theorem EMember.memberOk (m : EMember) (hm : m.Ok) : MemberOk m.toWire := by
  obtain ⟨dict, hdict⟩ := hm.2.1
  refine ⟨dict, hdict, ?_, hm.1, hm.2.2.2.2.1, hm.2.2.2.2.2⟩
  have := (m.payloadOk hm).1
  simp only [memberDictBuf, hdict, Option.getD_some] at this
  exact this

def wireMembers (ms : List EMember) : List (Nat × List Nat × List Nat) := ms.map EMember.toWire

def membersData (ms : List EMember) : List Nat := (ms.map (·.data)).flatten

theorem fileData_wire (ms : List EMember) : fileData (wireMembers ms) = membersData ms := by
  simp [fileData, wireMembers, membersData, EMember.toWire, Function.comp_def]

/-- **LZIP end to end.**  Any non-empty sequence of members – data bytes, an accepted dictionary byte, a parse
denoting the data – written by the writer model and followed by trailing bytes that do not start with the magic
(or by nothing) decodes to the concatenated data; the reader consumes all members plus at most the four bytes it
has to look at, and reports the members. -/
theorem lzip_end_to_end (ms : List EMember) (hne : ms ≠ []) (hm : ∀ m ∈ ms, m.Ok)
    (trailing : List Nat) (ht : trailing.take 4 ≠ Consts.LZIP_MAGIC) (ht2 : TrailingOk trailing)
    (cap : Nat) (hcap : (membersData ms).length ≤ cap) :
    decode (fileBytes (wireMembers ms) ++ trailing) cap
      = .ok (membersData ms) ((fileBytes (wireMembers ms)).length + min 4 trailing.length)
          (fileRecs (wireMembers ms)) := by
  have hne' : wireMembers ms ≠ [] := by
    cases ms with
    | nil => exact absurd rfl hne
    | cons m ms => simp [wireMembers]
  have hm' : ∀ w ∈ wireMembers ms, MemberOk w := by
    intro w hw
    simp only [wireMembers, List.mem_map] at hw
    obtain ⟨m, hmm, rfl⟩ := hw
    exact m.memberOk (hm m hmm)
  have h := lzip_roundtrip_recs (wireMembers ms) hne' hm' trailing ht ht2 cap (by rw [fileData_wire]; exact hcap)
  rw [fileData_wire] at h
  exact h

/-- no trailing data: exact consumption -/
theorem lzip_end_to_end_nil (ms : List EMember) (hne : ms ≠ []) (hm : ∀ m ∈ ms, m.Ok)
    (cap : Nat) (hcap : (membersData ms).length ≤ cap) :
    decode (fileBytes (wireMembers ms)) cap
      = .ok (membersData ms) (fileBytes (wireMembers ms)).length (fileRecs (wireMembers ms)) := by
  have h := lzip_end_to_end ms hne hm [] (by decide) trailingOk_nil cap hcap
  simpa using h

end LzmaVerif.LzipFile

/-! # Non-vacuity -/
namespace LzmaVerif.Xz.Example
open LzmaVerif Lzma Checks Xz

/-- Delta (distance 1), then x86 BCJ, then LZMA2 -/
def exFs : List Filter := [.delta 1, .bcj .x86 0, .lzma2 4096]

def exData : List Nat := [0xE8, 0xF8, 0xF8, 0xF8, 0xF8, 0x4D, 0xB3, 0x2A]

/-- the data after Delta (`[0xE8, 0x10, 0, 0, 0, 0x55, 0x66, 0x77]`: a CALL with displacement 0x10) and then
x86 BCJ (displacement made absolute: 0x10 + 5 = 0x15) -/
def exFiltered : List Nat := [0xE8, 0x15, 0, 0, 0, 0x55, 0x66, 0x77]

theorem exDelta_eq : Filters.deltaEncode 1 exData = [0xE8, 0x10, 0, 0, 0, 0x55, 0x66, 0x77] := by decide +kernel

theorem exFiltered_eq : applyFilters exFs exData = exFiltered := by decide +kernel

/-- one block whose payload is a single stored chunk holding the filtered data -/
def exBlock : EBlock :=
  { pb := 93, data := exData,
    chunks := [{ control := 1, unc := 8, comp := 0, props := none, parse := [], raw := exFiltered }] }

theorem exBlock_ok : exBlock.Ok exFs := by
  refine ⟨by unfold Bytes; decide, by decide, by decide, ?_⟩
  show Lzma2.ChunksOk 93 exBlock.chunks _ (applyFilters exFs exData)
  rw [exFiltered_eq]
  exact Lzma2.checkChunks_sound _ _ _ _ (by decide)

theorem exBlock_payload : exBlock.payload exFs = [1, 0, 7, 0xE8, 0x15, 0, 0, 0, 0x55, 0x66, 0x77, 0] := by decide

/-- `xz_end_to_end` instantiated – every hypothesis discharged – for every check type and every continuation -/
theorem ex_roundtrip (c : Check) (rest : List Nat) :
    Xz.decode false (streamBytes c exFs (wire exFs [exBlock]) ++ rest) 8
      = .ok exData (streamBytes c exFs (wire exFs [exBlock])).length
          [blkOf exFs ([1, 0, 7, 0xE8, 0x15, 0, 0, 0, 0x55, 0x66, 0x77, 0], exData)] := by
  have hb : ∀ b ∈ [exBlock], b.Ok exFs := by
    intro b hb
    rw [List.mem_singleton] at hb
    subst hb
    exact exBlock_ok
  have hw : wire exFs [exBlock] = [([1, 0, 7, 0xE8, 0x15, 0, 0, 0, 0x55, 0x66, 0x77, 0], exData)] := by
    simp only [wire, List.map_cons, List.map_nil, exBlock_payload]
    rfl
  have hsz : SizesOk c exFs (wire exFs [exBlock]) := by
    rw [hw]
    refine sizesOk_of_blocks _ _ _ ⟨by simp, ?_⟩ (by simp)
    intro b hb
    rw [List.mem_singleton] at hb
    subst hb
    rw [blockHeaderBytes_length]
    have hc : c.size ≤ 32 := by cases c <;> decide
    simp only [exFs, exData, List.map_cons, List.map_nil, encFilter, List.flatten_cons, List.flatten_nil,
      List.length_cons, List.length_nil, List.length_append, if_true]
    omega
  have h := xz_end_to_end c exFs (by decide) [exBlock] hb hsz rest 8 (by decide)
  rw [hw] at h ⊢
  exact h

/-- two such streams with different check types, 4 bytes of stream padding, 8 bytes of trailing padding -/
example : ∃ n blks,
    Xz.decode true ((EStrm.mk .crc64 exFs [exBlock]).toStrm.bytes ++
        (catBytes (ecat [(4, EStrm.mk .sha256 exFs [exBlock, exBlock])]) ++ List.replicate 8 0)) 24
      = .ok (exData ++ (exData ++ exData)) n blks := by
  have hone : ∀ b ∈ [exBlock], b.Ok exFs := by
    intro b hb
    rw [List.mem_singleton] at hb
    subst hb
    exact exBlock_ok
  have htwo : ∀ b ∈ [exBlock, exBlock], b.Ok exFs := by
    intro b hb
    simp only [List.mem_cons, List.not_mem_nil, or_false, or_self] at hb
    subst hb
    exact exBlock_ok
  have hsz : ∀ (c : Check) (bs : List EBlock), (∀ b ∈ bs, b = exBlock) → bs.length ≤ 2 →
      SizesOk c exFs (wire exFs bs) := by
    intro c bs hbs hl
    refine sizesOk_of_blocks _ _ _ ⟨by rw [wire_length]; omega, ?_⟩ (by rw [wire_length]; omega)
    intro p hp
    simp only [wire, List.mem_map] at hp
    obtain ⟨b, hbm, rfl⟩ := hp
    rw [hbs b hbm, blockHeaderBytes_length]
    have hc : c.size ≤ 32 := by cases c <;> decide
    simp only [exBlock_payload]
    simp only [exFs, exBlock, exData, List.map_cons, List.map_nil, encFilter, List.flatten_cons, List.flatten_nil,
      List.length_cons, List.length_nil, List.length_append, if_true]
    omega
  have h := xz_end_to_end_multi ⟨.crc64, exFs, [exBlock]⟩ ⟨by decide, hone, hsz _ _ (by simp) (by simp)⟩
    [(4, ⟨.sha256, exFs, [exBlock, exBlock]⟩)]
    (by
      intro x hx
      rw [List.mem_singleton] at hx
      subst hx
      exact ⟨by decide, by decide, htwo, hsz _ _ (by simp) (by simp)⟩)
    8 (by decide) 24 (by rw [catData_ecat]; decide)
  rw [catData_ecat] at h
  exact ⟨_, _, h⟩

end LzmaVerif.Xz.Example

namespace LzmaVerif.LzipFile.Example
open LzmaVerif Lzma LzipFile

/-- "HiHiHi": two literals and a match (distance 1, length 4), dictionary byte 12 (4096 bytes) -/
def exM : EMember := { dictByte := 12, parse := [.lit 72, .lit 105, .mtch 1 4], data := [72, 105, 72, 105, 72, 105] }

/-- the 13 bytes of the member's LZMA stream (kernel evaluation of the model encoder; no `native_decide`) -/
theorem exM_lzma : exM.lzma = [0, 36, 26, 94, 6, 16, 123, 223, 255, 254, 248, 64, 0] := by decide +kernel

theorem exists_of_map_snd {α β : Type} (o : Option (α × β)) (b : β) (h : o.map (·.2) = some b) :
    ∃ a, o = some (a, b) := by
  cases o with
  | none => cases h
  | some x =>
    obtain ⟨a, b'⟩ := x
    simp only [Option.map_some, Option.some.injEq] at h
    subst h
    exact ⟨a, rfl⟩

theorem exM_ok : exM.Ok := by
  refine ⟨by unfold Bytes; decide, ⟨4096, by decide⟩, by decide,
    exists_of_map_snd _ _ (by decide +kernel), by decide, ?_⟩
  rw [exM_lzma]
  decide

/-- `lzip_end_to_end` instantiated: two members followed by three bytes of trailing garbage -/
example (cap : Nat) (hcap : 12 ≤ cap) :
    decode (fileBytes (wireMembers [exM, exM]) ++ [1, 2, 3]) cap
      = .ok (exM.data ++ exM.data) ((fileBytes (wireMembers [exM, exM])).length + 3)
          (fileRecs (wireMembers [exM, exM])) := by
  have hm : ∀ m ∈ [exM, exM], m.Ok := by
    intro m hm
    simp only [List.mem_cons, List.not_mem_nil, or_false, or_self] at hm
    subst hm
    exact exM_ok
  have h := lzip_end_to_end [exM, exM] (by simp) hm [1, 2, 3] (by decide) (by decide) cap
    (by simpa [membersData, exM] using hcap)
  simpa [membersData] using h

end LzmaVerif.LzipFile.Example

#print axioms LzmaVerif.Xz.unfilter_applyFilters
#print axioms LzmaVerif.Xz.xz_end_to_end
#print axioms LzmaVerif.Xz.xz_end_to_end'
#print axioms LzmaVerif.Xz.xz_end_to_end_multi
#print axioms LzmaVerif.LzipFile.EMember.payloadOk
#print axioms LzmaVerif.LzipFile.lzip_end_to_end
#print axioms LzmaVerif.LzipFile.lzip_end_to_end_nil
#print axioms LzmaVerif.Xz.Example.ex_roundtrip
#print axioms LzmaVerif.LzipFile.Example.exM_ok
