/-
  (B3) the matches that come from the hash2 / hash3 candidates are real matches.
  Uses the bit-level fact about `hash234.rs`: equal 2-byte hash and equal first byte give an equal second
  byte; equal 3-byte hash and equal first byte give equal second and third bytes (`hashes_sound`).
-/
import LzmaVerif.Proofs.Bt4Bounds
namespace LzmaVerif.Mf

theorem byteAt_lt (d : Array UInt8) (i : Nat) : byteAt d i < 256 := by
  unfold byteAt; exact UInt8.toNat_lt _

theorem xor_cancel_left {a b c : Nat} (h : a ^^^ b = a ^^^ c) : b = c := by
  have := congrArg (fun x => a ^^^ x) h
  simp only [← Nat.xor_assoc, Nat.xor_self, Nat.zero_xor] at this
  exact this

/-- masking with `S - 1` keeps the low `n` bits when `2^n` divides `S` -/
theorem and_mask_mod (t S n : Nat) (hS : 0 < S) (hd : S % 2 ^ n = 0) : (t &&& (S - 1)) % 2 ^ n = t % 2 ^ n := by
  rw [Nat.and_mod_two_pow]
  have hpos : 0 < 2 ^ n := Nat.two_pow_pos n
  have h1 : (S - 1) % 2 ^ n = 2 ^ n - 1 := by
    obtain ⟨q, hq⟩ := Nat.dvd_of_mod_eq_zero hd
    have hq0 : 0 < q := by
      rcases Nat.eq_zero_or_pos q with h | h
      · subst h; simp at hq; omega
      · exact h
    obtain ⟨q', rfl⟩ : ∃ q', q = q' + 1 := ⟨q - 1, by omega⟩
    have : S - 1 = 2 ^ n * q' + (2 ^ n - 1) := by rw [hq, Nat.mul_succ]; omega
    rw [this, Nat.mul_add_mod]
    exact Nat.mod_eq_of_lt (by omega)
  rw [h1, Nat.and_two_pow_sub_one_eq_mod, Nat.mod_mod]

/-- `hash234.rs`: the comments at bt4.rs:164-167 and :177-180 -/
theorem hashes_sound (H : HashParams)
    (h2 : 0 < H.hash2Size ∧ H.hash2Size % 256 = 0)
    (h3 : 0 < H.hash3Size ∧ H.hash3Size % 65536 = 0 ∧ H.shift3 = 8)
    (m b0 b1 b2 b3 b1' b2' b3' : Nat) (l1 : b1 < 256) (l2 : b2 < 256) (l1' : b1' < 256) (l2' : b2' < 256) :
    ((calcHashes H m b0 b1 b2 b3).h2 = (calcHashes H m b0 b1' b2' b3').h2 → b1 = b1') ∧
    ((calcHashes H m b0 b1 b2 b3).h3 = (calcHashes H m b0 b1' b2' b3').h3 → b1 = b1' ∧ b2 = b2') := by
  simp only [calcHashes]
  generalize hashByte H b0 = x
  constructor
  · intro h
    have h' := congrArg (· % 2 ^ 8) h
    simp only [and_mask_mod _ _ 8 h2.1 h2.2, Nat.xor_mod_two_pow] at h'
    have := xor_cancel_left h'
    rw [Nat.mod_eq_of_lt l1, Nat.mod_eq_of_lt l1'] at this
    exact this
  · intro h
    have h' := congrArg (· % 2 ^ 16) h
    simp only [and_mask_mod _ _ 16 h3.1 h3.2.1, Nat.xor_mod_two_pow, Nat.xor_assoc] at h'
    have e := xor_cancel_left h'
    rw [h3.2.2] at e
    have s2 : u32 (b2 <<< 8) % 2 ^ 16 = b2 * 256 := by
      unfold u32; rw [Nat.shiftLeft_eq]; omega
    have s2' : u32 (b2' <<< 8) % 2 ^ 16 = b2' * 256 := by
      unfold u32; rw [Nat.shiftLeft_eq]; omega
    rw [s2, s2', Nat.mod_eq_of_lt (Nat.lt_of_lt_of_le l1 (by decide) : b1 < 2 ^ 16),
      Nat.mod_eq_of_lt (Nat.lt_of_lt_of_le l1' (by decide) : b1' < 2 ^ 16)] at e
    have e8 := congrArg (· % 2 ^ 8) e
    simp only [Nat.xor_mod_two_pow] at e8
    have z : ∀ b : Nat, b * 256 % 2 ^ 8 = 0 := fun b => by
      show b * 256 % 256 = 0; exact Nat.mul_mod_left _ _
    rw [z, z, Nat.xor_zero, Nat.xor_zero, Nat.mod_eq_of_lt l1, Nat.mod_eq_of_lt l1'] at e8
    subst e8
    have := xor_cancel_left e
    exact ⟨rfl, by omega⟩

namespace Bt4

theorem stepHs_slots {P : Bt4Params} {c : Cfg} {data : Array UInt8} (hH : Hyp P c data) {s : St}
    (hI : Inv P c data s) (hp : ¬ pending P c data s.pos) :
    ∃ e2 e3, EntryOk (stepK P c data s).cs s.lzPos e2 ∧ EntryOk (stepK P c data s).cs s.lzPos e3 ∧
      (stepHs P c data s).delta2 = (stepK P c data s).lzPos - e2 ∧
      (stepHs P c data s).delta3 = (stepK P c data s).lzPos - e3 ∧
      (e2 ≠ 0 → (hashesAt P c data (e2 - (stepK P c data s).cs - 1)).h2 = (hashesAt P c data s.pos).h2) ∧
      (e3 ≠ 0 → (hashesAt P c data (e3 - (stepK P c data s).cs - 1)).h3 = (hashesAt P c data s.pos).h3) := by
  obtain ⟨hm, _⟩ := inv_moved hH hI hp
  refine ⟨(moved P c s).h2.getD (hashesAt P c data ((moved P c s).pos - 1)).h2 0,
    (moved P c s).h3.getD (hashesAt P c data ((moved P c s).pos - 1)).h3 0, hm.h2ok _, hm.h3ok _, ?_, ?_, ?_, ?_⟩
  · show (hashStage P c data (moved P c s)).delta2 = (hashStage P c data (moved P c s)).st.lzPos - _
    rw [hashStage_delta2, hashStage_st]
  · show (hashStage P c data (moved P c s)).delta3 = (hashStage P c data (moved P c s)).st.lzPos - _
    rw [hashStage_delta3, hashStage_st]
  · exact hm.h2slot _
  · exact hm.h3slot _

/-- a repetition of length `L` at distance `delta` is a `ValidMatch` -/
theorem valid_of_prefix {P : Bt4Params} {c : Cfg} {data : Array UInt8} {k : Ctx} {hi : Nat}
    (hk : KFacts P c data k hi) (delta L : Nat) (d1 : 1 ≤ delta) (d2 : delta ≤ k.p) (d3 : delta ≤ c.dict)
    (hL2 : 2 ≤ L) (hL : L ≤ k.lenLimit)
    (heq : ∀ i, i < L → byteAt data (k.p + i) = byteAt data (k.p + i - delta)) :
    ValidMatch data c.dict k.p (min c.mlmax (data.size - k.p)) (L, delta - 1) := by
  have h1 := hk.lenLim
  have h2 := hk.inData
  refine ⟨hL2, by rw [← h1]; exact hL, by show k.p + L ≤ _; omega, by show delta - 1 + 1 ≤ _; omega,
    by show delta - 1 + 1 ≤ _; omega, ?_⟩
  intro i hi
  show byteAt data (k.p + i) = byteAt data (k.p + i - (delta - 1 + 1))
  rw [show delta - 1 + 1 = delta by omega]
  exact heq i hi

/-- extending a repetition whose first `n` bytes are known -/
theorem valid_extend {P : Bt4Params} {c : Cfg} {data : Array UInt8} {k : Ctx} {hi : Nat}
    (hk : KFacts P c data k hi) (delta n : Nat) (d1 : 1 ≤ delta) (d2 : delta ≤ k.p) (d3 : delta ≤ c.dict)
    (hn2 : 2 ≤ n) (hn : n ≤ k.lenLimit)
    (heq : ∀ i, i < n → byteAt data (k.p + i) = byteAt data (k.p + i - delta)) :
    ValidMatch data c.dict k.p (min c.mlmax (data.size - k.p))
      (extendMatch data k.p delta k.lenLimit n, delta - 1) := by
  have g := extendMatch_ge data k.p delta k.lenLimit n
  refine valid_of_prefix hk delta _ d1 d2 d3 (by omega) (extendMatch_le _ _ _ _ _ hn) ?_
  intro i hi
  by_cases h : i < n
  · exact heq i h
  · exact extendMatch_eq data k.p delta k.lenLimit n i (by omega) hi

/-- the first two (three) bytes of a hash2 (hash3) candidate whose first byte matches -/
theorem cand_prefix {P : Bt4Params} {c : Cfg} {data : Array UInt8} (hok : P.ok) (p delta : Nat)
    (d2 : delta ≤ p) (hb : byteAt data (p - delta) = byteAt data p) :
    ((hashesAt P c data (p - delta)).h2 = (hashesAt P c data p).h2 →
      ∀ i, i < 2 → byteAt data (p + i) = byteAt data (p + i - delta)) ∧
    ((hashesAt P c data (p - delta)).h3 = (hashesAt P c data p).h3 →
      ∀ i, i < 3 → byteAt data (p + i) = byteAt data (p + i - delta)) := by
  have hs := hashes_sound P.hash (ok_hash2 hok) (ok_hash3 hok) (hash4Size P.hash c.dict - 1)
    (byteAt data p) (byteAt data (p - delta + 1)) (byteAt data (p - delta + 2)) (byteAt data (p - delta + 3))
    (byteAt data (p + 1)) (byteAt data (p + 2)) (byteAt data (p + 3))
    (byteAt_lt _ _) (byteAt_lt _ _) (byteAt_lt _ _) (byteAt_lt _ _)
  unfold hashesAt
  rw [hb]
  constructor
  · intro h i hi
    have := hs.1 h
    rcases (by omega : i = 0 ∨ i = 1) with rfl | rfl
    · exact hb.symm
    · rw [show p + 1 - delta = p - delta + 1 by omega]; exact this.symm
  · intro h i hi
    have := hs.2 h
    rcases (by omega : i = 0 ∨ i = 1 ∨ i = 2) with rfl | rfl | rfl
    · exact hb.symm
    · rw [show p + 1 - delta = p - delta + 1 by omega]; exact this.1.symm
    · rw [show p + 2 - delta = p - delta + 2 by omega]; exact this.2.symm

/-- the matches produced by the hash2 / hash3 candidates of `find` (the first 0, 1 or 2 entries) -/
def hashCandMatches (P : Bt4Params) (c : Cfg) (data : Array UInt8) (s : St) : List Match :=
  if pending P c data s.pos then [] else (stepCd P c data s).ms.toList

/-- (B3) the matches that come from the hash2 / hash3 candidates satisfy the full `Mf.ValidMatch` -/
theorem hash_candidates_valid {P : Bt4Params} {c : Cfg} {data : Array UInt8} (hH : Hyp P c data) {s : St}
    (hI : Inv P c data s) :
    ∀ m ∈ hashCandMatches P c data s, ValidMatch data c.dict s.pos (min c.mlmax (data.size - s.pos)) m := by
  unfold hashCandMatches
  by_cases hp : pending P c data s.pos
  · rw [if_pos hp]; intro m hm; simp at hm
  rw [if_neg hp]
  have hok := hH.ok
  obtain ⟨hk, hp0⟩ := stepK_facts hH hI hp
  obtain ⟨e2, e3, he2, he3, hd2, hd3, hs2, hs3⟩ := stepHs_slots hH hI hp
  have hl3 := hk.len3
  have hlz := hk.lz
  have hhi := hk.hi
  have hcases := extendCands_cases hok data (stepK P c data s).p (stepK P c data s).cs (stepHs P c data s).delta2
    (stepHs P c data s).delta3 (lenLimitOf c (data.size - s.pos)) (stepHs P c data s).st.log
  have hcd : stepCd P c data s = extendCands data (stepK P c data s).p (lenLimitOf c (data.size - s.pos))
      (hashCands P data (stepK P c data s).p (stepK P c data s).cs (stepHs P c data s).delta2
        (stepHs P c data s).delta3 (stepHs P c data s).st.log) := rfl
  have hll : lenLimitOf c (data.size - s.pos) = (stepK P c data s).lenLimit := rfl
  rw [← hcd, hll] at hcases
  rw [← hp0]
  -- validity of one candidate
  have hcand2 : (stepK P c data s).lzPos - e2 < (stepK P c data s).cs →
      byteAt data ((stepK P c data s).p - ((stepK P c data s).lzPos - e2)) = byteAt data (stepK P c data s).p →
      1 ≤ (stepK P c data s).lzPos - e2 ∧ (stepK P c data s).lzPos - e2 ≤ (stepK P c data s).p ∧
      (stepK P c data s).lzPos - e2 ≤ c.dict ∧
      ∀ i, i < 2 → byteAt data ((stepK P c data s).p + i) =
        byteAt data ((stepK P c data s).p + i - ((stepK P c data s).lzPos - e2)) := by
    intro a b
    obtain ⟨d1, d2, d3⟩ := delta_of_entry hk.toKCore he2 a
    refine ⟨d1, d2, d3, ?_⟩
    have hne : e2 ≠ 0 := by intro h; subst h; omega
    have hq : e2 - (stepK P c data s).cs - 1 = (stepK P c data s).p - ((stepK P c data s).lzPos - e2) := by
      rcases he2 with h | h
      · exact absurd h hne
      · omega
    have := hs2 hne
    rw [hq, ← hp0] at this
    exact (cand_prefix hok _ _ d2 b).1 this
  have hcand3 : (stepK P c data s).lzPos - e3 < (stepK P c data s).cs →
      byteAt data ((stepK P c data s).p - ((stepK P c data s).lzPos - e3)) = byteAt data (stepK P c data s).p →
      1 ≤ (stepK P c data s).lzPos - e3 ∧ (stepK P c data s).lzPos - e3 ≤ (stepK P c data s).p ∧
      (stepK P c data s).lzPos - e3 ≤ c.dict ∧
      ∀ i, i < 3 → byteAt data ((stepK P c data s).p + i) =
        byteAt data ((stepK P c data s).p + i - ((stepK P c data s).lzPos - e3)) := by
    intro a b
    obtain ⟨d1, d2, d3⟩ := delta_of_entry hk.toKCore he3 a
    refine ⟨d1, d2, d3, ?_⟩
    have hne : e3 ≠ 0 := by intro h; subst h; omega
    have hq : e3 - (stepK P c data s).cs - 1 = (stepK P c data s).p - ((stepK P c data s).lzPos - e3) := by
      rcases he3 with h | h
      · exact absurd h hne
      · omega
    have := hs3 hne
    rw [hq, ← hp0] at this
    exact (cand_prefix hok _ _ d2 b).2 this
  rw [hd2, hd3] at hcases
  rcases hcases with ⟨m0, _⟩ | ⟨a, b, m0, _⟩ | ⟨a, b, m0, _⟩ | ⟨a, b, a', b', _, m0, _⟩
  · rw [m0]; intro m hm; simp at hm
  · obtain ⟨d1, d2, d3, hpre⟩ := hcand2 a b
    rw [m0]; intro m hm
    simp only [List.mem_singleton] at hm; subst hm
    exact valid_extend hk _ 2 d1 d2 d3 (Nat.le_refl _) (by omega) hpre
  · obtain ⟨d1, d2, d3, hpre⟩ := hcand3 a b
    rw [m0]; intro m hm
    simp only [List.mem_singleton] at hm; subst hm
    exact valid_extend hk _ 3 d1 d2 d3 (by omega) hl3 hpre
  · obtain ⟨d1, d2, d3, hpre⟩ := hcand2 a b
    obtain ⟨d1', d2', d3', hpre'⟩ := hcand3 a' b'
    rw [m0]; intro m hm
    simp only [List.mem_cons, List.not_mem_nil, or_false] at hm
    rcases hm with hm | hm
    · subst hm
      exact valid_of_prefix hk _ 2 d1 d2 d3 (Nat.le_refl _) (by omega) hpre
    · subst hm
      exact valid_extend hk _ 3 d1' d2' d3' (by omega) hl3 hpre'

theorem prefix_push_if (ms : Array Match) (b : Bool) (m : Match) :
    ms.toList <+: (if b = true then ms.push m else ms).toList := by
  cases b
  · exact List.prefix_refl _
  · simp only [if_true, Array.toList_push]; exact List.prefix_append _ _

theorem findLoop_prefix (P : Bt4Params) (data : Array UInt8) (k : Ctx)
    (depth : Nat) (tree : Array Nat) (ptr0 ptr1 len0 len1 cur lenBest : Nat) (ms : Array Match) (lg : Log) :
    ms.toList <+: (findLoop P data k depth tree ptr0 ptr1 len0 len1 cur lenBest ms lg).2.1.toList := by
  fun_induction findLoop P data k depth tree ptr0 ptr1 len0 len1 cur lenBest ms lg with
  | case1 => exact List.prefix_refl _
  | case2 => exact List.prefix_refl _
  | case3 depth tree ptr0 ptr1 len0 len1 cur lenBest ms lg delta hstop pair len lg1 hit ms1 hnice tree' lg' hx =>
    exact prefix_push_if ms hit _
  | case4 depth tree ptr0 ptr1 len0 len1 cur lenBest ms lg delta hstop pair len lg1 hit ms1 hnice lenBest1 lg2 hlt
      tree1 lg3 ih =>
    exact List.IsPrefix.trans (prefix_push_if ms hit _) ih
  | case5 depth tree ptr0 ptr1 len0 len1 cur lenBest ms lg delta hstop pair len lg1 hit ms1 hnice lenBest1 lg2 hlt
      tree1 lg3 ih =>
    exact List.IsPrefix.trans (prefix_push_if ms hit _) ih

/-- the hash candidates are the first entries of what `find` reports -/
theorem hashCandMatches_prefix {P : Bt4Params} {c : Cfg} {data : Array UInt8} (hH : Hyp P c data) (s : St) :
    hashCandMatches P c data s <+: (find P c data s).2.toList := by
  unfold hashCandMatches
  by_cases hp : pending P c data s.pos
  · rw [if_pos hp]; exact List.nil_prefix
  · rw [if_neg hp, find_nonpending hH hp]
    split
    · exact List.prefix_refl _
    · exact findLoop_prefix _ _ _ _ _ _ _ _ _ _ _ _ _

end Bt4
end LzmaVerif.Mf
