import LzmaVerif.Proofs.RcEnc
import LzmaVerif.Proofs.RcIdeal
/-!
The real encoder refines the ideal encoder: `val s = L`, `s.range = R`,
`s.out.length + s.cacheSize - 1 = k`.  `Enc.finish` writes exactly the number `L` in `k + 5` bytes.
-/
namespace LzmaVerif.Rc
open Ideal

/-- real encoder state `s` represents ideal state `c` -/
structure Abs (s : Enc) (c : St) : Prop where
  wf : WF s
  J : s.low + s.range ≤ 2^33
  cap : val s + s.range ≤ capv s
  L : val s = c.L
  R : s.range = c.R
  k : s.out.length + s.cacheSize = c.k + 1

def st0 : St := { L := 0, R := 0xFFFFFFFF, k := 0 }

theorem st0_ROk : ROk st0 := by unfold ROk st0; simp only; omega

theorem abs_init : Abs Enc.init st0 := by
  refine ⟨⟨?_, ?_, ?_⟩, ?_, ?_, ?_, ?_, ?_⟩ <;>
    simp [Enc.init, st0, val, PP, capv, num]

/-- the part of an encode step before normalisation -/
def encCore (s : Enc) : Ev → Enc
  | .bit p b =>
    if b then { s with low := s.low + (s.range / 2^11) * p, range := s.range - (s.range / 2^11) * p }
    else { s with range := (s.range / 2^11) * p }
  | .direct b =>
    if b then { s with low := s.low + s.range / 2, range := s.range / 2 }
    else { s with range := s.range / 2 }

theorem encodeBitP_eq (s : Enc) (p : Nat) (b : Bool) :
    encodeBitP s p b = encNormalize (encCore s (.bit p b)) := by
  cases b <;> rfl

theorem encodeDirect1_eq (s : Enc) (b : Bool) :
    encodeDirect1 s b = encNormalize (encCore s (.direct b)) := by
  cases b <;> rfl

theorem val_low (s : Enc) (l r : Nat) : val { s with low := l, range := r } = PP s * 2^32 + l := rfl
theorem val_range (s : Enc) (r : Nat) : val { s with range := r } = val s := rfl
theorem capv_low (s : Enc) (l r : Nat) : capv { s with low := l, range := r } = capv s := rfl
theorem capv_range (s : Enc) (r : Nat) : capv { s with range := r } = capv s := rfl

attribute [local irreducible] val capv PP

theorem abs_core (s : Enc) (c : St) (e : Ev) (h : Abs s c) (hc : ROk c) (he : EvOk e) :
    Abs (encCore s e) (core c e) := by
  obtain ⟨hw, hJ, hcap, hL, hR, hk⟩ := h
  obtain ⟨h1, h2⟩ := hc
  have hv : val s = PP s * 2^32 + s.low := by unfold val; rfl
  generalize hQ : PP s * 2^32 = Q at hv
  rw [hR] at hJ hcap
  cases e with
  | bit p b =>
    obtain ⟨hp1, hp2⟩ := he
    have hb2 : (c.R / 2^11) * p ≤ (c.R / 2^11) * 2017 := Nat.mul_le_mul_left _ hp2
    have hb3 : (c.R / 2^11) * 2048 ≤ c.R := by omega
    have hbd : (c.R / 2^11) * p ≤ c.R := by omega
    cases b
    · simp only [encCore, core, Bool.false_eq_true, if_false, hR]
      refine ⟨⟨hw.cs, hw.cache, hw.bytes⟩, ?_, ?_, ?_, ?_, hk⟩
      · simp only; omega
      · rw [val_range, capv_range]; simp only; omega
      · rw [val_range]; exact hL
      · simp only
    · simp only [encCore, core, if_true, hR]
      generalize (c.R / 2^11) * p = bd at *
      obtain ⟨rem, hrem⟩ : ∃ rem, c.R = bd + rem := ⟨c.R - bd, by omega⟩
      have hsub : c.R - bd = rem := by omega
      rw [hsub]
      refine ⟨⟨hw.cs, hw.cache, hw.bytes⟩, ?_, ?_, ?_, ?_, hk⟩
      · simp only; omega
      · rw [val_low, capv_low, hQ]; simp only; omega
      · rw [val_low, hQ]; simp only; omega
      · simp only
  | direct b =>
    cases b
    · simp only [encCore, core, Bool.false_eq_true, if_false, hR]
      refine ⟨⟨hw.cs, hw.cache, hw.bytes⟩, ?_, ?_, ?_, ?_, hk⟩
      · simp only; omega
      · rw [val_range, capv_range]; simp only; omega
      · rw [val_range]; exact hL
      · simp only
    · simp only [encCore, core, if_true, hR]
      refine ⟨⟨hw.cs, hw.cache, hw.bytes⟩, ?_, ?_, ?_, ?_, hk⟩
      · simp only; omega
      · rw [val_low, capv_low, hQ]; simp only; omega
      · rw [val_low, hQ]; simp only; omega
      · simp only

theorem abs_norm (s : Enc) (c : St) (h : Abs s c) (hc : PreOk c) :
    Abs (encNormalize s) (norm c) := by
  obtain ⟨hw, hJ, hcap, hL, hR, hk⟩ := h
  obtain ⟨h1, h2⟩ := hc
  rcases norm_cases c with ⟨hlt, hn⟩ | ⟨hlt, hn⟩
  · rw [hn]
    have hlt' : s.range < 2^24 := by omega
    simp only [encNormalize]
    rw [if_pos hlt']
    obtain ⟨s1, hs1⟩ : ∃ s1 : Enc, s1 = { s with range := s.range * 256 } := ⟨_, rfl⟩
    have e1 : s1.low = s.low := by rw [hs1]
    have e2 : s1.range = s.range * 256 := by rw [hs1]
    have e3 : val s1 = val s := by rw [hs1, val_range]
    have e4 : capv s1 = capv s := by rw [hs1, capv_range]
    have e5 : s1.out.length + s1.cacheSize = s.out.length + s.cacheSize := by rw [hs1]
    have hw1 : WF s1 := by rw [hs1]; exact ⟨hw.cs, hw.cache, hw.bytes⟩
    rw [← hs1]
    clear hs1
    obtain ⟨g1, g2, g3, g4, g5, g6, _⟩ :=
      shiftLow_spec s1 s.range hw1 (by omega) (by omega) (by omega) (by omega)
    generalize shiftLow s1 = t at *
    refine ⟨g1, ?_, ?_, ?_, ?_, ?_⟩
    · omega
    · omega
    · simp only; omega
    · simp only; omega
    · simp only; omega
  · rw [hn]
    have hlt' : ¬ s.range < 2^24 := by omega
    simp only [encNormalize]
    rw [if_neg hlt']
    exact ⟨hw, hJ, hcap, hL, hR, hk⟩

theorem abs_step (s : Enc) (c : St) (e : Ev) (h : Abs s c) (hc : ROk c) (he : EvOk e) :
    Abs (encNormalize (encCore s e)) (step c e) :=
  abs_norm _ _ (abs_core s c e h hc he) (core_R_pos c e hc he)

/-- invariant used while finishing -/
structure Fin (s : Enc) : Prop where
  wf : WF s
  J : s.low + 1 ≤ 2^33
  cap : val s + 1 ≤ capv s

theorem fin_shift (s : Enc) (h : Fin s) :
    Fin (shiftLow s) ∧ (shiftLow s).low = (s.low % 2^24) * 256 ∧
    val (shiftLow s) = 256 * val s ∧
    (shiftLow s).out.length + (shiftLow s).cacheSize = s.out.length + s.cacheSize + 1 ∧
    (s.low = 0 → (shiftLow s).cacheSize = 1 ∧ (shiftLow s).cache = 0) := by
  obtain ⟨g1, g2, g3, g4, g5, _, g7⟩ :=
    shiftLow_spec s 1 h.wf (by omega) (by omega) h.J h.cap
  refine ⟨⟨g1, ?_, ?_⟩, g2, g3, g5, g7⟩
  · rw [g2]; omega
  · omega

/-- **`finish`**: the stream is the base-256 representation of the final ideal `L`
    in exactly `k + 5` digits -/
theorem finish_spec (s : Enc) (c : St) (h : Abs s c) (hc : ROk c) :
    (∀ b ∈ s.finish.out, b < 256) ∧ s.finish.out.length = c.k + 5 ∧
    num s.finish.out.reverse = c.L := by
  obtain ⟨hw, hJ, hcap, hL, hR, hk⟩ := h
  obtain ⟨h1, h2⟩ := hc
  have f0 : Fin s := ⟨hw, by omega, by omega⟩
  obtain ⟨f1, l1, v1, n1, _⟩ := fin_shift s f0
  obtain ⟨f2, l2, v2, n2, _⟩ := fin_shift _ f1
  obtain ⟨f3, l3, v3, n3, _⟩ := fin_shift _ f2
  obtain ⟨f4, l4, v4, n4, _⟩ := fin_shift _ f3
  obtain ⟨f5, l5, v5, n5, z5⟩ := fin_shift _ f4
  unfold Enc.finish
  generalize shiftLow s = s1 at *
  generalize shiftLow s1 = s2 at *
  generalize shiftLow s2 = s3 at *
  generalize shiftLow s3 = s4 at *
  have hz4 : s4.low = 0 := by omega
  obtain ⟨cs5, ca5⟩ := z5 hz4
  generalize shiftLow s4 = s5 at *
  have hz5 : s5.low = 0 := by omega
  refine ⟨f5.wf.bytes, by omega, ?_⟩
  have hv : val s5 = num s5.out.reverse * 2^40 := by
    simp only [val, PP, cs5, ca5, hz5]
    omega
  omega

end LzmaVerif.Rc
