import LzmaVerif.Proofs.XzStream
/-! Satisfiability of the payload hypothesis: a stored LZMA2 chunk meets `PayloadOk` (used for the non-vacuity
examples of `Proofs/Xz.lean`; the general statement is the LZMA2 round-trip theorem's job). -/
namespace LzmaVerif.Xz
open LzmaVerif Lzma Checks

theorem pushAll_eq : ∀ (l : List Nat) (a : Array Nat), Lzma2.pushAll a l = a ++ l.toArray := by
  intro l
  induction l with
  | nil => intro a; simp [Lzma2.pushAll]
  | cons x l ih => intro a; simp [Lzma2.pushAll, ih]

theorem chunkLoop_end (f : Nat) (s : Lzma2.RState) (inp : List Nat) (cap : Nat) :
    Lzma2.chunkLoop (f + 1) s (0 :: inp) cap = .ok s inp := by
  rw [Lzma2.chunkLoop]
  simp only [if_true]

theorem chunkLoop_stored1 (f : Nat) (s : Lzma2.RState) (u1 u2 : Nat) (inp : List Nat) (cap : Nat)
    (h1 : ¬ inp.length < u1 * 256 + u2 + 1) (h2 : ¬ s.out.size + (u1 * 256 + u2 + 1) > cap) :
    Lzma2.chunkLoop (f + 1) s (1 :: u1 :: u2 :: inp) cap =
      Lzma2.chunkLoop f
        { s with needProps := true, needDictReset := false,
                 hist := Lzma2.pushAll #[] (inp.take (u1 * 256 + u2 + 1)),
                 out := Lzma2.pushAll s.out (inp.take (u1 * 256 + u2 + 1)),
                 chunks := { control := 1, unc := u1 * 256 + u2 + 1, comp := 0, props := none, parse := [],
                             raw := inp.take (u1 * 256 + u2 + 1) } :: s.chunks }
        (inp.drop (u1 * 256 + u2 + 1)) cap := by
  rw [Lzma2.chunkLoop]
  simp only [Lzma2.be16]
  have a1 : ¬ ((1 : Nat) = 0) := by decide
  have a3 : ¬ ((1 : Nat) ≥ 0x80) := by decide
  have a4 : ¬ ((1 : Nat) > 2) := by decide
  simp only [a1, a3, a4, if_false, if_true, not_true_eq_false, false_and, h1, or_true]
  simp only [h2, if_false]


/-- a single stored LZMA2 chunk (1 … 65536 bytes) satisfies `PayloadOk` for every dictionary size:
    the payload hypothesis of the round-trip theorems is satisfiable -/
theorem payloadOk_stored (dict : Nat) (raw : List Nat) (h1 : 1 ≤ raw.length) (h2 : raw.length ≤ 65536) :
    PayloadOk dict (1 :: (raw.length - 1) / 256 :: (raw.length - 1) % 256 :: (raw ++ [0])) raw := by
  intro rest cap hcap
  have hu : (raw.length - 1) / 256 * 256 + (raw.length - 1) % 256 + 1 = raw.length := by omega
  have e : ((1 :: (raw.length - 1) / 256 :: (raw.length - 1) % 256 :: (raw ++ [0])) ++ rest).length + 1
      = (rest.length + raw.length + 3) + 1 + 1 := by simp; omega
  have e2 : (1 :: (raw.length - 1) / 256 :: (raw.length - 1) % 256 :: (raw ++ [0])) ++ rest
      = 1 :: (raw.length - 1) / 256 :: (raw.length - 1) % 256 :: (raw ++ 0 :: rest) := by simp
  unfold Lzma2.decode
  rw [e, e2, chunkLoop_stored1 _ _ _ _ _ _ (by rw [hu]; simp) (by rw [hu]; simp [Lzma2.initState]; omega)]
  rw [hu, List.take_left, List.drop_left, chunkLoop_end]
  simp only [pushAll_eq, Lzma2.initState]
  refine ⟨[{ control := 1, unc := raw.length, comp := 0, props := none, parse := [], raw := raw }], ?_⟩
  simp
  omega

end LzmaVerif.Xz
