import LzmaVerif.Proofs.MTTerm
/-
Main theorems about the multi-threaded reader protocol model `Model/MT.lean`, for every
configuration with `1 ≤ maxWorkers` and every schedule from `init cfg`:

* `mt_order` (C08): the caller receives units 0, 1, 2, … in order, no gaps, no duplicates;
* `mt_conservation`: a dispatched, not yet returned unit is in exactly one place (queue, a worker's
  hands, channel, reorder buffer) unless it is a failing unit whose failure is being / has been reported;
* `mt_complete`: a clean end-of-stream is only reported after all units were delivered, all of them
  processed successfully, and the source ended cleanly;
* `mt_workers_bounded`: never more than `maxWorkers` workers;
* `mt_no_deadlock` (C09): if no thread can move (ignoring the caller's option to drop the reader)
  the coordinator is not inside a call - `read` never blocks forever.  This needs
  `cfg.srcOk = true → cfg.units ≠ []`; without it the model deadlocks (`deadlock_without_units`);
* `mt_drop_all_exit` (C10): after the reader was dropped, a terminal state has all workers exited;
* `mt_terminates` (C09): no schedule is longer than `26·units + 3·initialWorkers + 20` steps.
-/
namespace LzmaVerif.MT

/-- the configurations the theorems are about -/
def CfgOk (cfg : Cfg) : Prop := 1 ≤ cfg.maxWorkers ∧ cfg.initialWorkers ≤ cfg.maxWorkers

theorem reach_inv (cfg : Cfg) (hcfg : 1 ≤ cfg.maxWorkers) (sched : List Label) (s : Sys)
    (hr : runSched (init cfg) sched = some s) : Inv s :=
  run_inv sched _ _ (init_inv cfg hcfg) hr

theorem step_cfg (s s' : Sys) (l : Label) (hs : step s l = some s') : s'.cfg = s.cfg := by
  cases l with
  | coord =>
    simp only [step, coordStep] at hs
    have honMsg : ∀ m rest, (onMsg s m rest).cfg = s.cfg := by
      intro m rest; cases m <;> simp only [onMsg] <;> (try split) <;> rfl
    split at hs
    all_goals (try (split at hs))
    all_goals (try (split at hs))
    all_goals (try (split at hs))
    all_goals first
      | (simp at hs; done)
      | (simp only [Option.some.injEq] at hs; subst hs; first | rfl | exact honMsg _ _)
  | call =>
    simp only [step, callerStep] at hs
    split at hs
    all_goals (try (split at hs))
    all_goals (try (split at hs))
    all_goals first
      | (simp at hs; done)
      | (simp only [Option.some.injEq] at hs; subst hs; rfl)
  | drop =>
    simp only [step, callerStep] at hs
    split at hs
    all_goals (try (split at hs))
    all_goals (try (split at hs))
    all_goals first
      | (simp at hs; done)
      | (simp only [Option.some.injEq] at hs; subst hs; rfl)
  | worker i =>
    simp only [step, workerStep] at hs
    split at hs
    · simp at hs
    · rename_i pc _
      cases pc <;> simp only at hs
      all_goals (try (split at hs))
      all_goals (try (split at hs))
      all_goals first
        | (simp at hs; done)
        | (simp only [Option.some.injEq] at hs; subst hs; rfl)

theorem run_cfg (sched : List Label) : ∀ s s', runSched s sched = some s' → s'.cfg = s.cfg := by
  intro s s' hr
  induction sched generalizing s with
  | nil => simp [runSched] at hr; subst hr; rfl
  | cons t ts ih =>
    simp only [runSched] at hr
    cases hst : step s t with
    | none => rw [hst] at hr; simp at hr
    | some s1 =>
      rw [hst] at hr
      rw [ih s1 hr, step_cfg s s1 t hst]

/-! ## 1. Order (C08) -/

theorem mt_order (cfg : Cfg) (hcfg : 1 ≤ cfg.maxWorkers) (sched : List Label) (s : Sys)
    (hr : runSched (init cfg) sched = some s) :
    s.delivered = List.range s.delivered.length ∧ s.nextReturn = s.delivered.length := by
  have h := reach_inv cfg hcfg sched s hr
  have := h.order
  rw [this]; simp

/-! ## 2. Conservation -/

/-- `cnt s q` counts the places holding unit `q`: queue, worker hands (`got`/`work`/`send`), result
    channel, reorder buffer.  (a) it never exceeds 1, (b) it is 0 outside the window
    `nextReturn ≤ q < disp s`, (c) inside the window it is exactly 1 unless the unit is a failing one
    and the failure is pending (`midFail` worker), stored, reported, or the reader was dropped. -/
theorem mt_conservation (cfg : Cfg) (hcfg : 1 ≤ cfg.maxWorkers) (sched : List Label) (s : Sys)
    (hr : runSched (init cfg) sched = some s) (q : Nat) :
    cnt s q ≤ 1 ∧
    (0 < cnt s q → s.nextReturn ≤ q ∧ q < disp s) ∧
    (s.nextReturn ≤ q → q < disp s →
      cnt s q = 1 ∨ (cfg.units.getD q .ok ≠ .ok ∧ Failing s)) := by
  have h := reach_inv cfg hcfg sched s hr
  have hc : s.cfg = cfg := run_cfg sched _ _ hr
  refine ⟨h.cntLe q, h.cntRange q, ?_⟩
  intro h1 h2
  have := h.cons q h1 h2
  rw [hc] at this; exact this

/-- readable corollary: a successfully processable unit that was dispatched and not yet returned is
    in the queue, in a worker's hands, in the channel or in the reorder buffer - it is never lost -/
theorem mt_ok_unit_not_lost (cfg : Cfg) (hcfg : 1 ≤ cfg.maxWorkers) (sched : List Label) (s : Sys)
    (hr : runSched (init cfg) sched = some s) (q : Nat)
    (h1 : s.nextReturn ≤ q) (h2 : q < s.nextDispatch) (hok : cfg.units.getD q .ok = .ok) :
    q ∈ s.queue ∨ (∃ w ∈ s.ws, w = .got q ∨ w = .work q ∨ w = .send q) ∨ .result q ∈ s.chan ∨ q ∈ s.ooo := by
  have hd : s.nextDispatch ≤ disp s := by
    simp only [disp, dispOf]; split <;> omega
  rcases (mt_conservation cfg hcfg sched s hr q).2.2 h1 (by omega) with h | ⟨h, _⟩
  · exact cnt_pos_cases s q (by omega)
  · exact absurd hok h

/-! ## 3. Completeness -/

theorem mt_complete (cfg : Cfg) (hcfg : 1 ≤ cfg.maxWorkers) (sched : List Label) (s : Sys)
    (hr : runSched (init cfg) sched = some s) (hdone : s.pc = .idle (some .done)) :
    s.delivered.length = cfg.units.length ∧ cfg.srcOk = true ∧ ∀ o ∈ cfg.units, o = .ok := by
  have h := reach_inv cfg hcfg sched s hr
  have hc : s.cfg = cfg := run_cfg sched _ _ hr
  have hst := h.doneSt hdone
  obtain ⟨hsrc, _, hlen⟩ := h.drainInv (Or.inr hst)
  have hfin := h.finInv hst
  have hle := h.retLe
  have hdl := h.dispLe
  have hd : disp s = s.nextDispatch := by simp [disp, dispOf, hdone]
  have hret : s.nextReturn = cfg.units.length := by rw [hc] at hlen hdl; omega
  rw [hc] at hsrc
  refine ⟨?_, hsrc, ?_⟩
  · rw [h.order, List.length_range]; exact hret
  · intro o ho
    obtain ⟨i, hi, rfl⟩ := List.getElem_of_mem ho
    have := h.okDelivered i (by omega)
    rw [hc] at this
    simpa [List.getD_eq_getElem?_getD, hi] using this

/-! ## 4. Workers bounded -/

theorem mt_workers_bounded (cfg : Cfg) (hcfg : CfgOk cfg) (sched : List Label) (s : Sys)
    (hr : runSched (init cfg) sched = some s) :
    s.ws.length ≤ max cfg.initialWorkers cfg.maxWorkers ∧ s.ws.length ≤ cfg.maxWorkers := by
  have h := reach_inv cfg hcfg.1 sched s hr
  have hc : s.cfg = cfg := run_cfg sched _ _ hr
  have := h.wsBound
  rw [hc] at this
  have := hcfg.2
  omega

/-! ## 5. No deadlock (C09) -/

/-- no thread can move, ignoring the caller's option to drop the reader -/
def terminalNoDrop (s : Sys) : Bool :=
  (step s .coord).isNone && (step s .call).isNone &&
    (List.range s.ws.length).all fun i => (step s (.worker i)).isNone

/-- a worker that cannot move is waiting on the condition variable or has exited -/
theorem worker_stuck (s : Sys) (i : Nat) (w : WPc) (hw : s.ws[i]? = some w)
    (hs : workerStep s i = none) : w = .waiting ∨ w = .exited := by
  simp only [workerStep, hw] at hs
  cases w <;> simp only at hs
  all_goals (try (split at hs))
  all_goals (try (split at hs))
  all_goals first
    | (left; rfl)
    | (right; rfl)
    | (simp at hs; done)

theorem all_stuck (s : Sys)
    (hw : ((List.range s.ws.length).all fun i => (step s (.worker i)).isNone) = true) :
    ∀ w ∈ s.ws, w = .waiting ∨ w = .exited := by
  intro w hmem
  obtain ⟨i, hi⟩ := List.getElem?_of_mem hmem
  have hil := (List.getElem?_eq_some_iff.mp hi).1
  simp only [List.all_eq_true, List.mem_range, Option.isNone_iff_eq_none] at hw
  exact worker_stuck s i w hi (hw i hil)

/-- a blocked receive (`recvReading` / `recvDraining`, empty channel) always has a worker that can
    move: the unit the caller is waiting for is somewhere, and whoever holds it makes progress -/
theorem recv_not_stuck (s : Sys) (h : Inv s) (hne : s.cfg.srcOk = true → s.cfg.units ≠ [])
    (hp : s.pc = .recvReading ∨ s.pc = .recvDraining) (hchan : s.chan = [])
    (hst : ∀ w ∈ s.ws, w = .waiting ∨ w = .exited) : False := by
  have hd : disp s = s.nextDispatch := by rcases hp with hp | hp <;> simp [disp, dispOf, hp]
  have hpt : pastTop s.pc = true := by rcases hp with hp | hp <;> simp [pastTop, hp]
  have hes : errSeen s.pc = false := by rcases hp with hp | hp <;> simp [errSeen, hp]
  have hn1 : s.pc ≠ .idle (some .err) := by rcases hp with hp | hp <;> simp [hp]
  have hn2 : s.pc ≠ .dropped := by rcases hp with hp | hp <;> simp [hp]
  have hn3 : s.pc ≠ .spawnChk := by rcases hp with hp | hp <;> simp [hp]
  -- the unit the caller waits for has been dispatched
  have hlt : s.nextReturn < s.nextDispatch := by
    rcases hp with hp | hp
    · exact h.recvLt.1 hp
    · have h1 := h.recvLt.2 hp
      obtain ⟨hsrc, _, hlen⟩ := h.drainInv (Or.inl (h.drainSt hp))
      have : s.cfg.units.length ≠ 0 := fun hc => hne hsrc (List.length_eq_zero_iff.mp hc)
      omega
  -- no error is pending
  have herr : s.errStored = false := by
    cases he : s.errStored with
    | false => rfl
    | true =>
      rcases h.errWake he with h1 | h1 | h1
      · rw [hes] at h1; cases h1
      · rw [hchan] at h1; cases h1
      · rcases hst _ h1 with h2 | h2 <;> cases h2
  have hshut : s.shutdown = false := by
    cases hs : s.shutdown with
    | false => rfl
    | true =>
      rcases h.shutErr hs with h1 | h1 | h1
      · rw [herr] at h1; cases h1
      · exact absurd h1 hn1
      · exact absurd h1 hn2
  rcases h.cons s.nextReturn (Nat.le_refl _) (by omega) with hc | ⟨_, hF⟩
  · rcases cnt_pos_cases s s.nextReturn (by omega) with hq | ⟨w, hw, hh⟩ | hq | hq
    · -- in the queue: somebody is awake to take it
      have hqne : s.queue ≠ [] := by intro hc; rw [hc] at hq; cases hq
      rcases h.qAlive hshut hqne with ⟨w, hw, hnw⟩ | ⟨hc, _⟩
      · rcases hst w hw with h1 | h1
        · exact hnw h1
        · exact (h.noExit hshut w hw).1 h1
      · exact hn3 hc
    · -- in a worker's hands: that worker can move
      rcases hst w hw with h1 | h1 <;> rcases hh with h2 | h2 | h2 <;> rw [h1] at h2 <;> cases h2
    · rw [hchan] at hq; cases hq
    · exact h.oooNext hpt hq
  · rcases hF with ⟨w, hw, hm⟩ | he | hc | hc
    · rcases hst w hw with h1 | h1 <;> rw [h1] at hm <;> cases hm
    · rw [herr] at he; cases he
    · exact hn1 hc
    · exact hn2 hc

theorem terminalNoDrop_inv (s : Sys) (h : Inv s) (hne : s.cfg.srcOk = true → s.cfg.units ≠ [])
    (ht : terminalNoDrop s = true) :
    s.pc = .dropped ∨ s.pc = .idle (some .done) ∨ s.pc = .idle (some .err) := by
  simp only [terminalNoDrop, Bool.and_eq_true] at ht
  obtain ⟨⟨hco, hca⟩, hw⟩ := ht
  have hst := all_stuck s hw
  simp only [Option.isNone_iff_eq_none, step] at hco hca
  cases hp : s.pc with
  | idle last =>
    cases last with
    | none => simp [callerStep, hp] at hca
    | some r =>
      cases r with
      | data q => simp [callerStep, hp] at hca
      | done => exact Or.inr (Or.inl rfl)
      | err => exact Or.inr (Or.inr rfl)
  | dropped => exact Or.inl rfl
  | top => simp only [coordStep, hp] at hco; split at hco <;> simp at hco
  | chkErr => simp only [coordStep, hp] at hco; split at hco <;> simp at hco
  | byState =>
    simp only [coordStep, hp] at hco
    split at hco <;> (try split at hco) <;> (try split at hco) <;> simp at hco
  | tryRecv => simp only [coordStep, hp] at hco; split at hco <;> simp at hco
  | chkQueue => simp only [coordStep, hp] at hco; split at hco <;> simp at hco
  | source =>
    simp only [coordStep, hp] at hco
    split at hco <;> (try split at hco) <;> simp at hco
  | push q => simp [coordStep, hp] at hco
  | spawnChk => simp only [coordStep, hp] at hco; split at hco <;> simp at hco
  | recvReading =>
    exfalso
    have hchan : s.chan = [] := by
      cases hc : s.chan with
      | nil => rfl
      | cons m rest => simp [coordStep, hp, hc] at hco
    exact recv_not_stuck s h hne (Or.inl hp) hchan hst
  | recvDraining =>
    exfalso
    have hchan : s.chan = [] := by
      cases hc : s.chan with
      | nil => rfl
      | cons m rest => simp [coordStep, hp, hc] at hco
    exact recv_not_stuck s h hne (Or.inr hp) hchan hst

/-- **No deadlock.**  If no thread can move (not counting the caller's freedom to drop the reader),
    the coordinator is outside a call and the last call returned end-of-stream or an error, or the
    reader has been dropped.  In particular `read` never blocks forever. -/
theorem mt_no_deadlock (cfg : Cfg) (hcfg : 1 ≤ cfg.maxWorkers)
    (hne : cfg.srcOk = true → cfg.units ≠ [])
    (sched : List Label) (s : Sys) (hr : runSched (init cfg) sched = some s)
    (ht : terminalNoDrop s = true) :
    s.pc = .dropped ∨ s.pc = .idle (some .done) ∨ s.pc = .idle (some .err) := by
  have h := reach_inv cfg hcfg sched s hr
  have hc : s.cfg = cfg := run_cfg sched _ _ hr
  exact terminalNoDrop_inv s h (by rw [hc]; exact hne) ht

theorem terminalNoDrop_of_terminal (s : Sys) (ht : terminal s = true) : terminalNoDrop s = true := by
  simp only [terminal, terminalNoDrop, Bool.and_eq_true] at ht ⊢
  exact ⟨⟨ht.1.1.1, ht.1.1.2⟩, ht.2⟩

/-- with the `drop` label available a terminal state is a dropped reader -/
theorem mt_terminal_dropped (cfg : Cfg) (hcfg : 1 ≤ cfg.maxWorkers)
    (hne : cfg.srcOk = true → cfg.units ≠ [])
    (sched : List Label) (s : Sys) (hr : runSched (init cfg) sched = some s)
    (ht : terminal s = true) : s.pc = .dropped := by
  have hdr : callerStep s true = none := by
    simp only [terminal, Bool.and_eq_true, Option.isNone_iff_eq_none, step] at ht
    exact ht.1.2
  rcases mt_no_deadlock cfg hcfg hne sched s hr (terminalNoDrop_of_terminal s ht) with h | h | h
  · exact h
  · simp [callerStep, h] at hdr
  · simp [callerStep, h] at hdr

/-! ## 6. After drop all workers exit (C10) -/

theorem mt_drop_all_exit (cfg : Cfg) (hcfg : 1 ≤ cfg.maxWorkers) (sched : List Label) (s : Sys)
    (hr : runSched (init cfg) sched = some s) (ht : terminal s = true) (hd : s.pc = .dropped) :
    ∀ w ∈ s.ws, w = .exited := by
  have h := reach_inv cfg hcfg sched s hr
  simp only [terminal, Bool.and_eq_true] at ht
  have hst := all_stuck s ht.2
  intro w hw
  rcases hst w hw with h1 | h1
  · exact absurd h1 (h.closedNoWait (h.closedIff.mpr hd) w hw)
  · exact h1

/-! ## 7. Termination (C09) -/

/-- every schedule from `init cfg` is finite, with an explicit bound -/
theorem mt_terminates (cfg : Cfg) (hcfg : 1 ≤ cfg.maxWorkers) (sched : List Label) (s : Sys)
    (hr : runSched (init cfg) sched = some s) :
    sched.length ≤ mu (init cfg) ∧
    mu (init cfg) = 26 * cfg.units.length + 3 * cfg.initialWorkers + 20 := by
  have := run_mu sched _ _ (init_inv cfg hcfg) hr
  exact ⟨by omega, mu_init cfg⟩

theorem mt_terminates_bound (cfg : Cfg) (hcfg : CfgOk cfg) (sched : List Label) (s : Sys)
    (hr : runSched (init cfg) sched = some s) :
    sched.length ≤ 26 * cfg.units.length + 3 * cfg.maxWorkers + 20 := by
  have h := mt_terminates cfg hcfg.1 sched s hr
  have := hcfg.2
  omega

/-- consequently: every maximal execution ends, and it ends with the reader dropped and all
    workers exited -/
theorem mt_maximal_run (cfg : Cfg) (hcfg : 1 ≤ cfg.maxWorkers)
    (hne : cfg.srcOk = true → cfg.units ≠ [])
    (sched : List Label) (s : Sys)
    (hr : runSched (init cfg) sched = some s) (ht : terminal s = true) :
    s.pc = .dropped ∧ (∀ w ∈ s.ws, w = .exited) ∧
      s.delivered = List.range s.delivered.length :=
  ⟨mt_terminal_dropped cfg hcfg hne sched s hr ht,
    mt_drop_all_exit cfg hcfg sched s hr ht (mt_terminal_dropped cfg hcfg hne sched s hr ht),
    (mt_order cfg hcfg sched s hr).1⟩

/-! ## Non-vacuity -/

/-- two good units, two workers: the caller gets 0, 1 and then end-of-stream -/
example : ∃ sched s,
    runSched (init { units := [.ok, .ok], srcOk := true, maxWorkers := 2, initialWorkers := 1 }) sched = some s ∧
    s.pc = .idle (some .done) ∧ s.delivered = [0, 1] := by
  refine ⟨[.call, .coord, .coord, .coord, .coord, .coord, .coord, .coord, .coord, .coord, .coord,
    .coord, .coord, .coord, .coord, .coord, .worker 0, .worker 0, .worker 0, .coord, .coord, .coord,
    .coord, .coord, .coord, .coord, .coord, .coord, .coord, .worker 0, .worker 0, .coord, .call,
    .coord, .coord, .coord, .worker 1, .worker 1, .worker 1, .worker 1, .worker 1, .coord, .call,
    .coord, .coord, .coord, .coord, .coord, .coord], _, rfl, by decide, by decide⟩

/-- second unit fails: the caller gets an error, never end-of-stream -/
example : ∃ sched s,
    runSched (init { units := [.ok, .fail], srcOk := true, maxWorkers := 2, initialWorkers := 1 }) sched = some s ∧
    s.pc = .idle (some .err) := by
  refine ⟨[.call, .coord, .coord, .coord, .coord, .coord, .coord, .coord, .coord, .coord, .coord,
    .coord, .coord, .coord, .coord, .coord, .worker 0, .worker 0, .worker 0, .coord, .coord,
    .worker 1, .worker 1, .worker 1, .worker 1, .worker 1, .worker 1, .coord], _, rfl, by decide⟩

/-- the hypothesis of `mt_no_deadlock` is needed: with no unit at all and a clean end of the
    source the model's coordinator computes `lastSeq = some (0 - 1) = some 0` and then waits for
    unit 0 forever (the Rust readers always dispatch at least one unit before a clean end) -/
theorem deadlock_without_units : ∃ sched s,
    runSched (init { units := [], srcOk := true, maxWorkers := 1, initialWorkers := 1 }) sched = some s ∧
    terminalNoDrop s = true ∧ s.pc = .recvDraining := by
  refine ⟨[.call, .coord, .coord, .coord, .coord, .coord, .coord, .coord, .coord, .coord,
    .worker 0, .worker 0], _, rfl, by decide, by decide⟩

#print axioms mt_order
#print axioms mt_conservation
#print axioms mt_ok_unit_not_lost
#print axioms mt_complete
#print axioms mt_workers_bounded
#print axioms mt_no_deadlock
#print axioms mt_terminal_dropped
#print axioms mt_drop_all_exit
#print axioms mt_terminates
#print axioms mt_terminates_bound
#print axioms mt_maximal_run
#print axioms deadlock_without_units

end LzmaVerif.MT
