import LzmaVerif.Proofs.LzDecoderInv
/-!
Every method of `LZDecoder` preserves the invariant under the callers' preconditions, never fails with
`.oob` / `.arith` / `.debugAssert` / `.diverge`, and acts on the ghost history like the unbounded model.
-/
namespace LzmaVerif.LzDecoder
open LzmaVerif LzmaVerif.Lzma

/-! ## `repeat` -/

theorem repeatTail_spec {s : State} {H : Hist} {base d back left : Nat}
    (hr : Rep s.buf s.bufSize s.pos base H) (hd : d < H.size) (hb : back + (d + 1) = s.pos) (hl : 0 < left)
    (hfit : s.pos + left ≤ s.bufSize) :
    ∃ b, s.repeatTail d back left =
        .ok { s with buf := b, pos := s.pos + left, full := if s.full < s.pos + left then s.pos + left else s.full } ∧
      Rep b s.bufSize (s.pos + left) base (Hist.copy H d left) := by
  obtain rfl : back = s.pos - (d + 1) := by omega
  have hsz := hr.size
  unfold State.repeatTail
  rw [if_neg (by omega), if_neg (by omega)]
  have hr0 : Rep s.buf s.bufSize s.pos base (Hist.copy H d (0 * (d + 1))) := by
    rw [Nat.zero_mul]; exact hr
  by_cases hdl : d ≥ left
  · simp only [hdl, if_true]
    rw [copyFromFirstHalf_ok _ _ _ _ (by omega) (by omega)]
    refine ⟨_, rfl, ?_⟩
    have hsrc := src_cur (m := 0) (c := left) hd hr0 (by omega) (by omega)
    simp only [Nat.zero_mul, Nat.zero_add, Nat.one_mul, copy_zero] at hsrc
    exact hr.copy_step _ left _ (ext_copy _ _ _) (by rw [size_copy]) hfit (by omega) hsrc
  · simp only [hdl, if_false]
    have := copyLoop_spec (n := s.bufSize) (base := base) (pos0 := s.pos) hd (by omega) left 0 s.buf
      (by rw [Nat.zero_mul, Nat.add_zero]; exact hr) hl (by rw [Nat.zero_mul, Nat.add_zero]; exact hfit)
    simp only [Nat.zero_mul, Nat.add_zero, Nat.zero_add] at this
    obtain ⟨buf', hrun, hrep⟩ := this
    rw [hrun]
    exact ⟨buf', rfl, hrep⟩

/-- what the caller may rely on after `repeat(dist, len)`; `c` is the number of bytes copied now -/
structure RepeatPost (s s' : State) (dist len c : Nat) : Prop where
  pos : s'.pos = s.pos + c
  pendingLen : s'.pendingLen = len - c
  pendingDist : s'.pendingDist = dist
  bufSize : s'.bufSize = s.bufSize
  start : s'.start = s.start
  limit : s'.limit = s.limit
  full_ge : s.full ≤ s'.full

theorem repeat_spec {s : State} {H : Hist} {base dist len : Nat} (hi : Inv s H base)
    (hspace : s.pos < s.limit) (hd : dist < s.full) (hlen : 1 ≤ len) :
    ∃ s', s.repeat dist len = .ok s' ∧ Inv s' (Hist.copy H dist (min (s.limit - s.pos) len)) base ∧
      RepeatPost s s' dist len (min (s.limit - s.pos) len) := by
  have hr := hi.rep
  have hsz := hr.size
  have htot := hr.total
  have hlim := hi.limit_le
  have hfull := hi.full_eq_min
  have hstart := hi.start_le
  have hdH : dist < H.size := by omega
  unfold State.repeat
  rw [if_neg (by omega), if_neg (by omega)]
  generalize hleft : min (s.limit - s.pos) len = left
  have hl0 : 0 < left := by omega
  have hl1 : s.pos + left ≤ s.limit := by omega
  simp only []
  by_cases hw : s.pos < dist + 1
  · -- the distance wraps
    have hfe : s.bufSize ≤ base ∧ s.full = s.bufSize := by
      rcases hi.full_eq with ⟨_, h2⟩ | h
      · omega
      · exact h
    rw [if_pos hw, if_neg (by simp only [ne_eq, Decidable.not_not]; exact hfe.2), if_neg (by omega), if_neg (by omega)]
    generalize hcs : min (s.bufSize - (s.bufSize + s.pos - dist - 1)) left = cs
    have hcs' : cs = min (dist + 1 - s.pos) left := by omega
    rw [copyWithin_ok _ _ _ _ (by omega) (by omega)]
    simp only []
    have hrep1 : Rep (blit s.buf s.pos (s.buf.extract (s.bufSize + s.pos - dist - 1) (s.bufSize + s.pos - dist - 1 + cs)))
        s.bufSize (s.pos + cs) base (Hist.copy H dist cs) :=
      hr.copy_step _ cs _ (ext_copy _ _ _) (by rw [size_copy]) (by omega) (by omega)
        (src_old hdH hr hfe.1 hw (by omega) (by omega))
    by_cases hz : left - cs = 0
    · rw [if_pos hz]
      have hcl : cs = left := by omega
      subst hcl
      refine ⟨_, rfl, ⟨hrep1, by simp only []; omega, hlim, Or.inr hfe, ?_⟩, ⟨rfl, rfl, rfl, rfl, rfl, rfl, Nat.le_refl _⟩⟩
      intro h0; simp only [] at h0; omega
    · rw [if_neg hz]
      have hcl : cs = dist + 1 - s.pos := by omega
      obtain ⟨b, hrun, hrep2⟩ := repeatTail_spec
        (s := { s with pendingLen := len - left, pendingDist := dist,
                       buf := blit s.buf s.pos (s.buf.extract (s.bufSize + s.pos - dist - 1) (s.bufSize + s.pos - dist - 1 + cs)),
                       pos := s.pos + cs })
        (H := Hist.copy H dist cs) (base := base) (d := dist) (back := 0) (left := left - cs)
        hrep1 (by rw [size_copy]; omega) (by simp only []; omega) (by omega) (by simp only []; omega)
      rw [hrun]
      simp only [] at hrep2 ⊢
      have e1 : s.pos + cs + (left - cs) = s.pos + left := by omega
      rw [← copy_add, Nat.add_sub_cancel' (by omega : cs ≤ left)] at hrep2
      rw [e1] at hrep2 ⊢
      refine ⟨_, rfl, ⟨hrep2, by simp only []; omega, hlim, Or.inr ⟨hfe.1, ?_⟩, ?_⟩,
        ⟨rfl, rfl, rfl, rfl, rfl, rfl, ?_⟩⟩
      · simp only []; rw [if_neg (by omega)]; exact hfe.2
      · intro h0; simp only [] at h0; split at h0 <;> omega
      · simp only []; split <;> omega
  · rw [if_neg hw]
    obtain ⟨b, hrun, hrep2⟩ := repeatTail_spec
      (s := { s with pendingLen := len - left, pendingDist := dist })
      (H := H) (base := base) (d := dist) (back := s.pos - dist - 1) (left := left)
      hr hdH (by simp only []; omega) hl0 (by simp only []; omega)
    rw [hrun]
    simp only [] at hrep2 ⊢
    refine ⟨_, rfl, ⟨hrep2, by simp only []; omega, hlim, ?_, ?_⟩, ⟨rfl, rfl, rfl, rfl, rfl, rfl, ?_⟩⟩
    · simp only []
      rcases hi.full_eq with ⟨h1, h2⟩ | ⟨h1, h2⟩
      · left; refine ⟨h1, ?_⟩; rw [if_pos (by omega)]
      · right; refine ⟨h1, ?_⟩; rw [if_neg (by omega)]; exact h2
    · intro h0; simp only [] at h0; split at h0 <;> omega
    · simp only []; split <;> omega

theorem repeatPending_spec {s : State} {H : Hist} {base : Nat} (hi : Inv s H base)
    (hd : 0 < s.pendingLen → s.pos < s.limit ∧ s.pendingDist < s.full) :
    ∃ s', s.repeatPending = .ok s' ∧
      Inv s' (Hist.copy H s.pendingDist (min (s.limit - s.pos) s.pendingLen)) base ∧
      RepeatPost s s' s.pendingDist s.pendingLen (min (s.limit - s.pos) s.pendingLen) := by
  unfold State.repeatPending
  by_cases hp : s.pendingLen > 0
  · rw [if_pos hp]
    exact repeat_spec hi (hd hp).1 (hd hp).2 hp
  · rw [if_neg hp]
    have h0 : s.pendingLen = 0 := by omega
    have hm : min (s.limit - s.pos) s.pendingLen = 0 := by omega
    rw [hm, copy_zero]
    exact ⟨s, rfl, hi, ⟨rfl, by omega, rfl, rfl, rfl, rfl, Nat.le_refl _⟩⟩

/-! ## `new`, `reset`, `set_limit` -/

theorem presetUsed_length (dict : Nat) (preset : Option (List Nat)) :
    (presetUsed dict preset).length ≤ dict := by
  cases preset with
  | none => simp [presetUsed]
  | some p => simp only [presetUsed, List.length_drop]; omega

theorem new_spec (dict : Nat) (preset : Option (List Nat)) :
    Inv (new dict preset) (presetUsed dict preset).toArray 0 ∧ (new dict preset).start = (new dict preset).pos ∧
      (new dict preset).pendingLen = 0 ∧ (new dict preset).bufSize = dict ∧
      (new dict preset).pos = (presetUsed dict preset).length := by
  cases preset with
  | none =>
    refine ⟨⟨⟨by simp [new], by simp [new], by simp [new, presetUsed], ?_, ?_, Or.inl rfl⟩, Nat.le_refl _,
      by simp [new], Or.inl ⟨rfl, rfl⟩, ?_⟩, rfl, rfl, rfl, by simp [new, presetUsed]⟩
    · intro i hi; simp [new] at hi
    · intro hn i _ hi; simp only [new] at hn hi; omega
    · intro _; simp only [new]; exact getD_replicate _ _
  | some p =>
    have hlen : (p.drop (p.length - min p.length dict)).length = min p.length dict := by
      rw [List.length_drop]; omega
    refine ⟨⟨⟨by simp [new, blit_size], by simp only [new]; omega, by simp [new, presetUsed]; omega, ?_, ?_, Or.inl rfl⟩,
      Nat.le_refl _, by simp [new], Or.inl ⟨rfl, rfl⟩, ?_⟩, rfl, rfl, rfl, by simp only [new, presetUsed]; omega⟩
    · intro i hi
      simp only [new] at hi ⊢
      rw [blit_getD _ _ _ _ (by simp only [List.size_toArray, Array.size_replicate]; omega),
          if_pos ⟨Nat.zero_le _, by simp only [List.size_toArray]; omega⟩]
      simp only [presetUsed, Nat.sub_zero, Nat.zero_add]
    · intro hn i _ hi; simp only [new] at hn hi; omega
    · intro h0
      simp only [new] at h0 ⊢
      rw [blit_getD _ _ _ _ (by simp only [List.size_toArray, Array.size_replicate]; omega),
          if_neg (by simp only [List.size_toArray]; omega)]
      exact getD_replicate _ _

theorem reset_spec {s : State} {H : Hist} {base : Nat} (hi : Inv s H base) (hn : 1 ≤ s.bufSize) :
    ∃ s', s.reset = .ok s' ∧ Inv s' #[] 0 ∧ s'.start = 0 ∧ s'.pos = 0 ∧ s'.limit = 0 ∧ s'.bufSize = s.bufSize ∧
      s'.pendingLen = s.pendingLen ∧ s'.pendingDist = s.pendingDist := by
  have hsz := hi.rep.size
  unfold State.reset
  rw [if_neg (by omega), if_pos (by omega)]
  refine ⟨_, rfl, ⟨⟨?_, Nat.zero_le _, rfl, ?_, ?_, Or.inl rfl⟩, Nat.le_refl _, Nat.zero_le _, Or.inl ⟨rfl, rfl⟩, ?_⟩,
    rfl, rfl, rfl, rfl, rfl, rfl⟩
  · simp only [Array.set!_eq_setIfInBounds, Array.size_setIfInBounds]; exact hsz
  · intro i hi; simp only [] at hi; omega
  · intro h0 i _ hi; simp only [] at h0 hi; omega
  · intro _; simp only []; rw [getD_set!, if_pos ⟨rfl, by omega⟩]

theorem setLimit_spec {s : State} {H : Hist} {base : Nat} (hi : Inv s H base) (n : Nat) :
    Inv (s.setLimit n) H base ∧ (s.setLimit n).pos ≤ (s.setLimit n).limit ∧
      (s.setLimit n).limit = min (n + s.pos) s.bufSize := by
  have := hi.rep.pos_le
  refine ⟨⟨hi.rep, hi.start_le, ?_, hi.full_eq, hi.zero⟩, ?_, rfl⟩
  · simp only [State.setLimit]; omega
  · simp only [State.setLimit]; omega

/-! ## `get_byte`, `put_byte` -/

/-- `get_byte(dist)` is the history byte `dist+1` back; also for `dist = 0` on an empty dictionary, where
    the literal coder reads the zero that `new` / `reset` left in the last slot -/
theorem getByte_spec {s : State} {H : Hist} {base : Nat} (hi : Inv s H base) (dist : Nat)
    (hd : dist < s.full ∨ (dist = 0 ∧ 1 ≤ s.bufSize)) : s.getByte dist = .ok (H.back dist) := by
  have hr := hi.rep
  have hsz := hr.size
  have htot := hr.total
  have hple := hr.pos_le
  have hfull := hi.full_eq_min
  by_cases hdf : dist < s.full
  · have hdH : dist < H.size := by omega
    rw [back_def _ _ hdH]
    unfold State.getByte
    by_cases hge : dist ≥ s.pos
    · have hfe : s.bufSize ≤ base ∧ s.full = s.bufSize := by
        rcases hi.full_eq with ⟨_, h2⟩ | h
        · omega
        · exact h
      rw [if_pos hge, if_neg (by omega)]
      simp only []
      rw [if_pos (by omega), hr.old hfe.1 _ (by omega) (by omega)]
      congr 2; omega
    · rw [if_neg hge]
      simp only []
      rw [if_pos (by omega), hr.cur _ (by omega)]
      congr 2; omega
  · have hd0 : dist = 0 ∧ 1 ≤ s.bufSize := by
      rcases hd with h | h
      · exact absurd h hdf
      · exact h
    have hf0 : s.full = 0 := by omega
    have hH : H.size = 0 := by omega
    rw [back_ge _ _ (by omega)]
    have hz := hi.zero hf0
    have hp0 : s.pos = 0 := by have := hi.pos_le_full; omega
    unfold State.getByte
    rw [if_pos (by omega), if_neg (by omega)]
    simp only []
    rw [if_pos (by omega)]
    have e : s.bufSize + s.pos - dist - 1 = s.bufSize - 1 := by omega
    rw [e, hz]

structure PutPost (s s' : State) : Prop where
  pos : s'.pos = s.pos + 1
  pendingLen : s'.pendingLen = s.pendingLen
  pendingDist : s'.pendingDist = s.pendingDist
  bufSize : s'.bufSize = s.bufSize
  start : s'.start = s.start
  limit : s'.limit = s.limit
  full_ge : s.full ≤ s'.full

theorem putByte_spec {s : State} {H : Hist} {base : Nat} (hi : Inv s H base) (hspace : s.pos < s.limit) (b : Nat) :
    ∃ s', s.putByte b = .ok s' ∧ Inv s' (H.push b) base ∧ PutPost s s' := by
  have hr := hi.rep
  have hsz := hr.size
  have htot := hr.total
  have hlim := hi.limit_le
  have hstart := hi.start_le
  unfold State.putByte
  rw [if_pos (by omega)]
  simp only []
  refine ⟨_, rfl, ⟨⟨?_, by simp only []; omega, ?_, ?_, ?_, hr.base0⟩, by simp only []; omega, hlim, ?_, ?_⟩,
    ⟨rfl, rfl, rfl, rfl, rfl, rfl, ?_⟩⟩
  · simp only [Array.set!_eq_setIfInBounds, Array.size_setIfInBounds]; exact hsz
  · simp only [Array.size_push]; omega
  · intro i hi'
    simp only [] at hi' ⊢
    rw [getD_set!, getD_push]
    by_cases h : s.pos = i
    · rw [if_pos ⟨h, by omega⟩, if_pos (by omega)]
    · rw [if_neg (by omega), if_neg (by omega)]; exact hr.cur i (by omega)
  · intro hb i h1 h2
    simp only [] at hb h1 h2 ⊢
    rw [getD_set!, getD_push, if_neg (by omega), if_neg (by omega)]
    exact hr.old hb i (by omega) h2
  · simp only []
    rcases hi.full_eq with ⟨h1, h2⟩ | ⟨h1, h2⟩
    · left; refine ⟨h1, ?_⟩; rw [if_pos (by omega)]
    · right; refine ⟨h1, ?_⟩; rw [if_neg (by omega)]; exact h2
  · intro h0; simp only [] at h0; split at h0 <;> omega
  · simp only []; split <;> omega

/-! ## `flush` -/

theorem extract_eq_of_getD (a b : Array Nat) (sa sb c : Nat) (ha : sa + c ≤ a.size) (hb : sb + c ≤ b.size)
    (h : ∀ j, j < c → a.getD (sa + j) 0 = b.getD (sb + j) 0) : a.extract sa (sa + c) = b.extract sb (sb + c) := by
  apply ext_getD
  · rw [size_extract' _ _ _ ha, size_extract' _ _ _ hb]
  · intro i hi
    rw [size_extract' _ _ _ ha] at hi
    rw [getD_extract _ _ _ _ ha hi, getD_extract _ _ _ _ hb hi]
    exact h i hi

structure FlushPost (s s' : State) (base base' : Nat) : Prop where
  start : s'.start = s'.pos
  total : base' + s'.pos = base + s.pos
  pendingLen : s'.pendingLen = s.pendingLen
  pendingDist : s'.pendingDist = s.pendingDist
  bufSize : s'.bufSize = s.bufSize
  full : s'.full = s.full
  pos_lt : 1 ≤ s.bufSize → s'.pos < s'.bufSize

/-- `flush` hands out the history bytes between the last flush and the write position -/
theorem flush_spec {s : State} {H : Hist} {base cap : Nat} (hi : Inv s H base) (hcap : s.pos - s.start ≤ cap) :
    ∃ s' base', s.flush cap = .ok ((H.extract (base + s.start) (base + s.pos)).toList, s') ∧ Inv s' H base' ∧
      FlushPost s s' base base' := by
  have hr := hi.rep
  have hsz := hr.size
  have htot := hr.total
  have hple := hr.pos_le
  have hstart := hi.start_le
  unfold State.flush
  rw [if_neg (by omega)]
  simp only []
  rw [if_pos ⟨hcap, by omega⟩]
  have hout : s.buf.extract s.start (s.start + (s.pos - s.start)) = H.extract (base + s.start) (base + s.pos) := by
    have e : base + s.pos = base + s.start + (s.pos - s.start) := by omega
    rw [e]
    apply extract_eq_of_getD _ _ _ _ _ (by omega) (by omega)
    intro j hj
    rw [hr.cur _ (by omega), Nat.add_assoc]
  rw [hout]
  by_cases hw : s.pos = s.bufSize
  · refine ⟨_, base + s.bufSize, rfl, ⟨⟨hsz, ?_, ?_, ?_, ?_, Or.inr (by simp only []; omega)⟩, ?_, hi.limit_le, Or.inr ⟨by simp only []; omega, ?_⟩, hi.zero⟩,
      ⟨rfl, ?_, rfl, rfl, rfl, rfl, ?_⟩⟩
    · simp only [hw, if_true]; omega
    · simp only [hw, if_true]; omega
    · intro i hi'; simp only [hw, if_true] at hi'; omega
    · intro _ i _ h2
      simp only [] at h2 ⊢
      rw [hr.cur i (by omega)]; congr 1; omega
    · simp only []; omega
    · simp only []
      rcases hi.full_eq with ⟨_, h2⟩ | ⟨_, h2⟩ <;> omega
    · simp only [hw, if_true]; omega
    · intro h1; simp only [hw, if_true]; omega
  · refine ⟨_, base, rfl, ⟨⟨hsz, ?_, ?_, ?_, ?_, hr.base0⟩, ?_, hi.limit_le, ?_, hi.zero⟩, ⟨rfl, ?_, rfl, rfl, rfl, rfl, ?_⟩⟩
    · simp only [hw, if_false]; exact hple
    · simp only [hw, if_false]; exact htot
    · intro i hi'; simp only [hw, if_false] at hi'; exact hr.cur i hi'
    · intro hb i h1 h2; simp only [hw, if_false] at h1 h2; exact hr.old hb i h1 h2
    · simp only []; omega
    · simp only [hw, if_false]; exact hi.full_eq
    · simp only [hw, if_false]
    · intro _; simp only [hw, if_false]; omega

end LzmaVerif.LzDecoder
