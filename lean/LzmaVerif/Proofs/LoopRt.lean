import LzmaVerif.Model.Parse
import LzmaVerif.Proofs.SymRt
/-
Loop-level round trip of the LZMA symbol loop: GIVEN the round trip of one symbol (`SymRt`,
proved elsewhere), running the decoder's symbol loop `loopProg` on the bit string `parseBits` of a
parse gives back exactly that parse, the history it denotes, and the unused bits.
Two modes: declared size (`remaining = some n`) and end marker (`remaining = none`).
Core Lean only.
-/


namespace LzmaVerif.Lzma
open LzmaVerif Prog

/-! ## Admissible symbols, the symbol-level hypothesis, what a parse denotes -/

/-- the symbol-level round trip, taken as a hypothesis here -/
def SymRt : Prop := ∀ (pr : Params) (c : Ctx) (s : Sym) (rest : List Bool), SymOk s →
    (symProg pr c).runBits (symBits pr c s ++ rest) = some (s, rest)

/-! ## History facts -/

theorem hist_copy_size (h : Hist) (d n : Nat) : (Hist.copy h d n).size = h.size + n := by
  induction n generalizing h with
  | zero => rfl
  | succ n ih =>
    rw [Hist.copy, ih, Array.size_push]
    omega

/-! ## One step of `parseRun`, inverted -/

/-- a successful `parseRun` on `s :: p`: `s` is admissible and is either a literal or an
in-dictionary copy of at least one byte, and the rest of the parse runs from the updated state -/
theorem parseRun_cons_inv {dictBuf : Nat} {s : Sym} {p : List Sym} {c c' : Coder} {h h' : Hist}
    (hp : parseRun dictBuf (s :: p) c h = some (c', h')) :
    SymOk s ∧
    ((∃ b, s = .lit b ∧ parseRun dictBuf p (c.apply s) (h.push b) = some (c', h')) ∨
     (∃ dist len, (∀ b, s ≠ .lit b) ∧ s.copyOf c = some (dist, len) ∧ 1 ≤ len ∧
        dist < h.size ∧ dist < dictBuf ∧
        parseRun dictBuf p (c.apply s) (h.copy dist len) = some (c', h'))) := by
  cases s with
  | lit b =>
    simp only [parseRun] at hp
    by_cases hb : b < 256
    · rw [if_pos hb] at hp
      exact ⟨hb, Or.inl ⟨b, rfl, hp⟩⟩
    · rw [if_neg hb] at hp; cases hp
  | mtch dist len =>
    simp only [parseRun, Sym.copyOf] at hp
    split at hp
    · next hc =>
      refine ⟨hc.1, Or.inr ⟨dist, len, (fun b hb => by cases hb), rfl, ?_, hc.2.1, hc.2.2, hp⟩⟩
      have := hc.1.1; omega
    · cases hp
  | rep i len =>
    simp only [parseRun, Sym.copyOf] at hp
    split at hp
    · next hc =>
      refine ⟨hc.1, Or.inr ⟨c.rep i, len, (fun b hb => by cases hb), rfl, ?_, hc.2.1, hc.2.2, hp⟩⟩
      have := hc.1.2.1; omega
    · cases hp
  | shortRep =>
    simp only [parseRun, Sym.copyOf] at hp
    split at hp
    · next hc =>
      exact ⟨hc.1, Or.inr ⟨c.rep0, 1, (fun b hb => by cases hb), rfl, Nat.le_refl 1, hc.2.1, hc.2.2, hp⟩⟩
    · cases hp

/-- the history only grows along a parse -/
theorem parseRun_size_le (dictBuf : Nat) (p : List Sym) :
    ∀ (c c' : Coder) (h h' : Hist), parseRun dictBuf p c h = some (c', h') → h.size ≤ h'.size := by
  induction p with
  | nil =>
    intro c c' h h' hp
    simp only [parseRun, Option.some.injEq, Prod.mk.injEq] at hp
    exact hp.2 ▸ Nat.le_refl _
  | cons s p ih =>
    intro c c' h h' hp
    obtain ⟨_, hcase⟩ := parseRun_cons_inv hp
    rcases hcase with ⟨b, _, hrest⟩ | ⟨dist, len, _, _, _, _, _, hrest⟩
    · have := ih _ _ _ _ hrest
      rw [Array.size_push] at this; omega
    · have := ih _ _ _ _ hrest
      rw [hist_copy_size] at this; omega

/-! ## `parseBits`, one step -/

theorem parseBits_lit (pr : Params) (b : Nat) (q : List Sym) (c : Coder) (h : Hist) :
    parseBits pr (.lit b :: q) c h
      = symBits pr (ctxOf c h) (.lit b) ++ parseBits pr q (c.apply (.lit b)) (h.push b) := rfl

theorem parseBits_copy (pr : Params) (s : Sym) (q : List Sym) (c : Coder) (h : Hist)
    (dist len : Nat) (hs : ∀ b, s ≠ .lit b) (hc : s.copyOf c = some (dist, len))
    (hd : dist < h.size) :
    parseBits pr (s :: q) c h
      = symBits pr (ctxOf c h) s ++ parseBits pr q (c.apply s) (h.copy dist len) := by
  cases s with
  | lit b => exact absurd rfl (hs b)
  | mtch d l =>
    simp only [Sym.copyOf, Option.some.injEq, Prod.mk.injEq] at hc
    obtain ⟨rfl, rfl⟩ := hc
    simp only [parseBits, Sym.copyOf, if_pos hd]
  | rep i l =>
    simp only [Sym.copyOf, Option.some.injEq, Prod.mk.injEq] at hc
    obtain ⟨rfl, rfl⟩ := hc
    simp only [parseBits, Sym.copyOf, if_pos hd]
  | shortRep =>
    simp only [Sym.copyOf, Option.some.injEq, Prod.mk.injEq] at hc
    obtain ⟨rfl, rfl⟩ := hc
    simp only [parseBits, Sym.copyOf, if_pos hd]

/-- bits of a concatenated parse: the second part is coded from the state the first part leaves -/
theorem parseBits_append (pr : Params) (dictBuf : Nat) (p q : List Sym) :
    ∀ (c c₁ : Coder) (h h₁ : Hist), parseRun dictBuf p c h = some (c₁, h₁) →
      parseBits pr (p ++ q) c h = parseBits pr p c h ++ parseBits pr q c₁ h₁ := by
  induction p with
  | nil =>
    intro c c₁ h h₁ hp
    simp only [parseRun, Option.some.injEq, Prod.mk.injEq] at hp
    obtain ⟨rfl, rfl⟩ := hp
    rfl
  | cons s p ih =>
    intro c c₁ h h₁ hp
    obtain ⟨_, hcase⟩ := parseRun_cons_inv hp
    rcases hcase with ⟨b, rfl, hrest⟩ | ⟨dist, len, hs, hc, _, hd, _, hrest⟩
    · rw [List.cons_append, parseBits_lit, parseBits_lit, ih _ _ _ _ hrest, List.append_assoc]
    · rw [List.cons_append, parseBits_copy pr s _ c h dist len hs hc hd,
        parseBits_copy pr s _ c h dist len hs hc hd, ih _ _ _ _ hrest, List.append_assoc]

/-! ## One iteration of the decoder loop -/

section Step
variable (hsym : SymRt) (pr : Params) (dictBuf fuel : Nat) (remaining : Option Nat)
  (c : Coder) (h : Hist) (acc : List Sym) (em : Nat) (rest : List Bool)
include hsym

theorem loop_lit (b : Nat) (hb : b < 256) (hr : remaining ≠ some 0) :
    (loopProg pr dictBuf (fuel + 1) remaining c h acc em).runBits
        (symBits pr (ctxOf c h) (.lit b) ++ rest)
      = (loopProg pr dictBuf fuel (remaining.map (· - 1)) (c.apply (.lit b)) (h.push b)
          (.lit b :: acc) (em + 1)).runBits rest := by
  rw [loopProg, if_neg hr, runBits_bind, hsym pr (ctxOf c h) (.lit b) rest hb]
  rfl

/-- a non-literal symbol: the loop's distance test and limit test, on the unused bits -/
theorem loop_copy (s : Sym) (dist len : Nat) (hok : SymOk s) (hs : ∀ b, s ≠ .lit b)
    (hc : s.copyOf c = some (dist, len)) (hr : remaining ≠ some 0) :
    (loopProg pr dictBuf (fuel + 1) remaining c h acc em).runBits
        (symBits pr (ctxOf c h) s ++ rest)
      = (if dist ≥ h.size ∨ dist ≥ dictBuf then
            (ret { stop := (if (c.apply s).rep0 = END_DIST then .endMarker else .distOverflow),
                   coder := c.apply s, hist := h, parse := s :: acc, emitted := em } : Prog LoopRes)
          else
            match (generalizing := false) remaining with
            | some r =>
              if len > r then
                ret { stop := .overrun, coder := c.apply s, hist := h.copy dist r,
                      parse := s :: acc, emitted := em + r }
              else loopProg pr dictBuf fuel (some (r - len)) (c.apply s) (h.copy dist len)
                    (s :: acc) (em + len)
            | none => loopProg pr dictBuf fuel none (c.apply s) (h.copy dist len)
                    (s :: acc) (em + len)).runBits rest := by
  rw [loopProg, if_neg hr, runBits_bind, hsym pr (ctxOf c h) s rest hok]
  cases s with
  | lit b => exact absurd rfl (hs b)
  | mtch d l =>
    simp only [Sym.copyOf, Option.some.injEq, Prod.mk.injEq] at hc
    obtain ⟨rfl, rfl⟩ := hc
    rfl
  | rep i l =>
    simp only [Sym.copyOf, Option.some.injEq, Prod.mk.injEq] at hc
    obtain ⟨rfl, rfl⟩ := hc
    rfl
  | shortRep =>
    simp only [Sym.copyOf, Option.some.injEq, Prod.mk.injEq] at hc
    obtain ⟨rfl, rfl⟩ := hc
    rfl

/-- in-dictionary copy that fits into the declared size -/
theorem loop_copy_some (s : Sym) (dist len r : Nat) (hok : SymOk s) (hs : ∀ b, s ≠ .lit b)
    (hc : s.copyOf c = some (dist, len)) (h1 : dist < h.size) (h2 : dist < dictBuf)
    (hr : r ≠ 0) (hl : len ≤ r) :
    (loopProg pr dictBuf (fuel + 1) (some r) c h acc em).runBits
        (symBits pr (ctxOf c h) s ++ rest)
      = (loopProg pr dictBuf fuel (some (r - len)) (c.apply s) (h.copy dist len)
          (s :: acc) (em + len)).runBits rest := by
  have hr' : (some r : Option Nat) ≠ some 0 := by
    intro e; exact hr (Option.some.inj e)
  rw [loop_copy hsym pr dictBuf fuel (some r) c h acc em rest s dist len hok hs hc hr']
  have hn : ¬ (dist ≥ h.size ∨ dist ≥ dictBuf) := by omega
  have hl' : ¬ len > r := by omega
  simp only [if_neg hn, if_neg hl']

/-- in-dictionary copy, no declared size -/
theorem loop_copy_none (s : Sym) (dist len : Nat) (hok : SymOk s) (hs : ∀ b, s ≠ .lit b)
    (hc : s.copyOf c = some (dist, len)) (h1 : dist < h.size) (h2 : dist < dictBuf) :
    (loopProg pr dictBuf (fuel + 1) none c h acc em).runBits
        (symBits pr (ctxOf c h) s ++ rest)
      = (loopProg pr dictBuf fuel none (c.apply s) (h.copy dist len)
          (s :: acc) (em + len)).runBits rest := by
  have hr' : (none : Option Nat) ≠ some 0 := by intro e; cases e
  rw [loop_copy hsym pr dictBuf fuel none c h acc em rest s dist len hok hs hc hr']
  have hn : ¬ (dist ≥ h.size ∨ dist ≥ dictBuf) := by omega
  simp only [if_neg hn]

/-- the end marker: a match with distance `END_DIST`, which is never inside the dictionary -/
theorem loop_marker (hd : dictBuf ≤ END_DIST) (mlen : Nat) (hm : 2 ≤ mlen ∧ mlen ≤ 273) :
    (loopProg pr dictBuf (fuel + 1) none c h acc em).runBits
        (symBits pr (ctxOf c h) (.mtch END_DIST mlen) ++ rest)
      = some ({ stop := .endMarker, coder := c.apply (.mtch END_DIST mlen), hist := h,
                parse := .mtch END_DIST mlen :: acc, emitted := em }, rest) := by
  have hr' : (none : Option Nat) ≠ some 0 := by intro e; cases e
  have hok : SymOk (.mtch END_DIST mlen) := ⟨hm.1, hm.2, by decide⟩
  rw [loop_copy hsym pr dictBuf fuel none c h acc em rest (.mtch END_DIST mlen) END_DIST mlen hok
    (fun b hb => by cases hb) rfl hr']
  have hn : (END_DIST ≥ h.size ∨ END_DIST ≥ dictBuf) := Or.inr hd
  rw [if_pos hn]
  have : (c.apply (.mtch END_DIST mlen)).rep0 = END_DIST := rfl
  rw [if_pos this]
  rfl

end Step

/-! ## The loop round trips -/

/-- **Declared-size mode.** On the bits of a parse that denotes exactly `n` more bytes, the loop
returns that parse with `Stop.limit`, the denoted coder state and history, and the unused bits. -/
theorem loop_rt_size (hsym : SymRt) (pr : Params) (dictBuf : Nat) (parse : List Sym) :
    ∀ (c : Coder) (h : Hist) (c' : Coder) (h' : Hist) (fuel n : Nat) (acc : List Sym) (em : Nat)
      (rest : List Bool),
      parseRun dictBuf parse c h = some (c', h') → h'.size = h.size + n → parse.length < fuel →
      (loopProg pr dictBuf fuel (some n) c h acc em).runBits (parseBits pr parse c h ++ rest)
        = some ({ stop := .limit, coder := c', hist := h', parse := parse.reverse ++ acc,
                  emitted := em + n }, rest) := by
  induction parse with
  | nil =>
    intro c h c' h' fuel n acc em rest hp hsz hf
    simp only [parseRun, Option.some.injEq, Prod.mk.injEq] at hp
    obtain ⟨rfl, rfl⟩ := hp
    have hn : n = 0 := by omega
    subst hn
    cases fuel with
    | zero => simp at hf
    | succ fuel =>
      rw [loopProg, if_pos rfl]
      rfl
  | cons s p ih =>
    intro c h c' h' fuel n acc em rest hp hsz hf
    cases fuel with
    | zero => simp at hf
    | succ fuel =>
      have hf' : p.length < fuel := by simp only [List.length_cons] at hf; omega
      have e1 : p.reverse ++ (s :: acc) = (s :: p).reverse ++ acc := by
        simp only [List.reverse_cons, List.append_assoc, List.singleton_append]
      obtain ⟨hok, hcase⟩ := parseRun_cons_inv hp
      rcases hcase with ⟨b, rfl, hrest⟩ | ⟨dist, len, hs, hc, hl1, hd1, hd2, hrest⟩
      · have hge := parseRun_size_le _ _ _ _ _ _ hrest
        rw [Array.size_push] at hge
        have hn : (some n : Option Nat) ≠ some 0 := by
          intro e; have := Option.some.inj e; omega
        have hsz' : h'.size = (h.push b).size + (n - 1) := by rw [Array.size_push]; omega
        have e2 : em + 1 + (n - 1) = em + n := by omega
        rw [parseBits_lit, List.append_assoc,
          loop_lit hsym pr dictBuf fuel (some n) c h acc em _ b hok hn]
        simp only [Option.map_some]
        rw [ih _ _ _ _ _ _ _ _ _ hrest hsz' hf', e1, e2]
      · have hge := parseRun_size_le _ _ _ _ _ _ hrest
        rw [hist_copy_size] at hge
        have hsz' : h'.size = (h.copy dist len).size + (n - len) := by
          rw [hist_copy_size]; omega
        have e2 : em + len + (n - len) = em + n := by omega
        rw [parseBits_copy pr s _ c h dist len hs hc hd1, List.append_assoc,
          loop_copy_some hsym pr dictBuf fuel c h acc em _ s dist len n hok hs hc hd1 hd2
            (by omega) (by omega)]
        rw [ih _ _ _ _ _ _ _ _ _ hrest hsz' hf', e1, e2]

/-- **End-marker mode.** On the bits of a parse followed by the end marker, the loop returns the
parse plus the marker with `Stop.endMarker`, the denoted history, and the unused bits. -/
theorem loop_rt_marker (hsym : SymRt) (pr : Params) (dictBuf : Nat) (hd : dictBuf ≤ END_DIST)
    (parse : List Sym) (mlen : Nat) (hm : 2 ≤ mlen ∧ mlen ≤ 273) :
    ∀ (c : Coder) (h : Hist) (c' : Coder) (h' : Hist) (fuel : Nat) (acc : List Sym) (em : Nat)
      (rest : List Bool),
      parseRun dictBuf parse c h = some (c', h') → parse.length + 1 < fuel →
      (loopProg pr dictBuf fuel none c h acc em).runBits
          (parseBits pr (parse ++ [.mtch END_DIST mlen]) c h ++ rest)
        = some ({ stop := .endMarker, coder := c'.apply (.mtch END_DIST mlen), hist := h',
                  parse := (.mtch END_DIST mlen) :: (parse.reverse ++ acc),
                  emitted := em + (h'.size - h.size) }, rest) := by
  induction parse with
  | nil =>
    intro c h c' h' fuel acc em rest hp hf
    simp only [parseRun, Option.some.injEq, Prod.mk.injEq] at hp
    obtain ⟨rfl, rfl⟩ := hp
    cases fuel with
    | zero => simp at hf
    | succ fuel =>
      have hb : parseBits pr ([] ++ [Sym.mtch END_DIST mlen]) c h
          = symBits pr (ctxOf c h) (.mtch END_DIST mlen) ++ [] := rfl
      rw [hb, List.append_nil, loop_marker hsym pr dictBuf fuel c h acc em rest hd mlen hm,
        Nat.sub_self, Nat.add_zero]
      rfl
  | cons s p ih =>
    intro c h c' h' fuel acc em rest hp hf
    cases fuel with
    | zero => simp at hf
    | succ fuel =>
      have hf' : p.length + 1 < fuel := by simp only [List.length_cons] at hf; omega
      have e1 : p.reverse ++ (s :: acc) = (s :: p).reverse ++ acc := by
        simp only [List.reverse_cons, List.append_assoc, List.singleton_append]
      obtain ⟨hok, hcase⟩ := parseRun_cons_inv hp
      rcases hcase with ⟨b, rfl, hrest⟩ | ⟨dist, len, hs, hc, hl1, hd1, hd2, hrest⟩
      · have hge := parseRun_size_le _ _ _ _ _ _ hrest
        rw [Array.size_push] at hge
        have hn : (none : Option Nat) ≠ some 0 := by intro e; cases e
        have e2 : em + 1 + (h'.size - (h.push b).size) = em + (h'.size - h.size) := by
          rw [Array.size_push]; omega
        rw [List.cons_append, parseBits_lit, List.append_assoc,
          loop_lit hsym pr dictBuf fuel none c h acc em _ b hok hn]
        simp only [Option.map_none]
        rw [ih _ _ _ _ _ _ _ _ hrest hf', e1, e2]
      · have hge := parseRun_size_le _ _ _ _ _ _ hrest
        rw [hist_copy_size] at hge
        have e2 : em + len + (h'.size - (h.copy dist len).size) = em + (h'.size - h.size) := by
          rw [hist_copy_size]; omega
        rw [List.cons_append, parseBits_copy pr s _ c h dist len hs hc hd1, List.append_assoc,
          loop_copy_none hsym pr dictBuf fuel c h acc em _ s dist len hok hs hc hd1 hd2]
        rw [ih _ _ _ _ _ _ _ _ hrest hf', e1, e2]

/-! ## Axioms and non-vacuity -/

#print axioms loop_rt_size
#print axioms loop_rt_marker
#print axioms parseBits_append

/-- a concrete parse that `parseRun` accepts: "AB" + match(dist 1, len 4) + short rep = "ABABABAB" -/
example : parseRun 4096 [.lit 65, .lit 66, .mtch 1 4, .shortRep] Coder.init #[]
    = some ({ state := 11, rep0 := 1, rep1 := 0, rep2 := 0, rep3 := 0 },
            #[65, 66, 65, 66, 65, 66, 65]) := by
  decide

end LzmaVerif.Lzma
