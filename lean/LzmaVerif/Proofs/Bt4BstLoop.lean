/-
  (B5) the two tree walks of bt4.rs (`findLoop` = bt4.rs:225-277, `skipLoop` = :89-134) preserve the
  binary-search-tree invariant `TInv`, and every match `findLoop` reports is a real repetition from its first byte.
-/
import LzmaVerif.Proofs.Bt4Bst
import LzmaVerif.Proofs.Bt4Tree
import LzmaVerif.Proofs.Bt4Access
namespace LzmaVerif.Mf.Bt4

/-! ### index arithmetic of the cyclic buffer -/

theorem mod_decomp (cs q r : Nat) (hr : r < cs) : (cs * q + r) % cs = r := by
  rw [Nat.mul_add_mod, Nat.mod_eq_of_lt hr]

/-- `cyclic_pos` after `move_pos` (bt4.rs:68-71) -/
theorem succ_mod_cases (cs a : Nat) (hcs : 0 < cs) :
    (if a % cs + 1 = cs then 0 else a % cs + 1) = (a + 1) % cs := by
  have hd := Nat.div_add_mod a cs
  have hl := Nat.mod_lt a hcs
  split
  · rename_i h
    have : a + 1 = cs * (a / cs + 1) := by rw [Nat.mul_succ]; omega
    rw [this, Nat.mul_mod_right]
  · rename_i h
    have : a + 1 = cs * (a / cs) + (a % cs + 1) := by omega
    rw [this, mod_decomp _ _ _ (by omega)]

/-- `pair` (bt4.rs:99-100 / :238-239) is the slot pair of the node `lz_pos - delta` -/
theorem pairOf_eq_sl {P : Bt4Params} (hok : P.ok) (k : Ctx) (delta : Nat)
    (hcp : k.cyclicPos = (k.lzPos - 1) % k.cs) (hd1 : 1 ≤ delta) (hd : delta < k.cs) (hlz : k.cs + delta ≤ k.lzPos) :
    pairOf P k delta = sl k.cs (k.lzPos - delta) := by
  have hcs : 0 < k.cs := by omega
  unfold pairOf sl
  rw [shl_eq hok, ok_pairSel hok]
  show 2 * (k.cyclicPos + (if geOrGt false delta k.cyclicPos = true then k.cs else 0) - delta) = _
  rw [geOrGt_false]
  have hdm := Nat.div_add_mod (k.lzPos - 1) k.cs
  have hl := Nat.mod_lt (k.lzPos - 1) hcs
  rw [← hcp] at hdm hl
  congr 1
  split
  · rename_i h
    rw [decide_eq_true_eq] at h
    have hq : 1 ≤ (k.lzPos - 1) / k.cs := by
      rcases Nat.eq_zero_or_pos ((k.lzPos - 1) / k.cs) with h0 | h0
      · rw [h0, Nat.mul_zero] at hdm; omega
      · exact h0
    obtain ⟨q', hq'⟩ : ∃ q', (k.lzPos - 1) / k.cs = q' + 1 := ⟨(k.lzPos - 1) / k.cs - 1, by omega⟩
    rw [hq', Nat.mul_succ] at hdm
    have : k.lzPos - delta - 1 = k.cs * q' + (k.cyclicPos + k.cs - delta) := by omega
    rw [this, mod_decomp _ _ _ (by omega)]
  · rename_i h
    rw [decide_eq_true_eq] at h
    have : k.lzPos - delta - 1 = k.cs * ((k.lzPos - 1) / k.cs) + (k.cyclicPos + 0 - delta) := by omega
    rw [this, mod_decomp _ _ _ (by omega)]

/-! ### start and end of a descent -/

section
variable {d : Array UInt8} {cs niceLen lo hi : Nat}

theorem newSlots (hlo1 : 1 ≤ lo) (hgeo : hi + 1 = lo + cs) :
    NewSlot cs lo hi (sl cs (hi + 1)) ∧ NewSlot cs lo hi (sl cs (hi + 1) + 1) := by
  constructor
  · intro v a b
    have := sl_disjoint (cs := cs) (v := hi + 1) (w := v) (by omega) (by omega) (by omega) (by omega) (by omega)
    exact ⟨this.1, this.2.1⟩
  · intro v a b
    have := sl_disjoint (cs := cs) (v := hi + 1) (w := v) (by omega) (by omega) (by omega) (by omega) (by omega)
    exact ⟨this.2.2.1, this.2.2.2⟩

/-- bt4.rs:84-87 / :220-223: the holes are the two slots of the new node, `len0 = len1 = 0` -/
theorem loopInv_init (hcs : 0 < cs) (hlo1 : 1 ≤ lo) (hgeo : hi + 1 = lo + cs) {p : Nat} {T : Array Nat} {cur : Nat}
    (htbl : ∀ i, T.getD i 0 ≤ hi) (hsize : 2 * cs ≤ T.size) (hcur : cur ≤ hi) (hti : TInv d cs niceLen T lo hi) :
    LoopInv d cs niceLen lo hi p T (sl cs (hi + 1) + 1) (sl cs (hi + 1)) 0 0 cur := by
  obtain ⟨n1, n0⟩ := newSlots (cs := cs) hlo1 hgeo
  have := sl_lt hcs (hi + 1)
  refine ⟨htbl, hsize, hcur, by omega, by omega, by omega, hti, Or.inl n0, Or.inl n1, Or.inr (Or.inr ⟨n0, n1⟩), ?_, ?_⟩
  · intro v a b
    exact ⟨n0 v a (by omega), n1 v a (by omega)⟩
  · intro x _
    exact ⟨LeN.zero _ _ _, LeN.zero _ _ _⟩

theorem TInv.lo_mono {T : Array Nat} {lo' : Nat} (hl : lo ≤ lo') (ht : TInv d cs niceLen T lo hi) :
    TInv d cs niceLen T lo' hi := by
  intro q a b
  exact ⟨fun x hx => (ht q (by omega) b).1 x (Reach.lo_mono hl hx),
    fun x hx => (ht q (by omega) b).2 x (Reach.lo_mono hl hx)⟩

/-- after the descent the invariant holds for the old nodes AND for the new node `hi + 1` -/
theorem post_top (hlo1 : 1 ≤ lo) (hgeo : hi + 1 = lo + cs) {T F : Array Nat} {cur : Nat}
    (hP : Post d cs lo hi (nw d cs niceLen (hi + 1)) (posOf cs (hi + 1)) T F (sl cs (hi + 1) + 1) (sl cs (hi + 1)) cur)
    (hti : TInv d cs niceLen T lo hi) (hF : ∀ i, F.getD i 0 ≤ hi) : TInv d cs niceLen F lo (hi + 1) := by
  obtain ⟨n1, n0⟩ := newSlots (cs := cs) hlo1 hgeo
  intro q a b
  have hdrop : ∀ σ x, RS cs F lo (hi + 1) σ x → RS cs F lo hi σ x :=
    fun σ x hx => Reach.hi_drop hF (hF _) hx
  by_cases hq : q = hi + 1
  · subst hq
    constructor
    · intro x hx
      have := hP.n1 x (hdrop _ x hx)
      exact ⟨by have := this.1.target; omega, this.2⟩
    · intro x hx
      have := hP.n0 x (hdrop _ x hx)
      exact ⟨by have := this.1.target; omega, this.2⟩
  · have hq' : q ≤ hi := by omega
    constructor
    · intro x hx
      exact (hti q a hq').1 x (hP.p1 _ x (Ne.symm (n0 q a hq').1) (Ne.symm (n1 q a hq').1) (hdrop _ x hx))
    · intro x hx
      exact (hti q a hq').2 x (hP.p1 _ x (Ne.symm (n0 q a hq').2) (Ne.symm (n1 q a hq').2) (hdrop _ x hx))

end

/-! ### facts about one candidate of a walk -/

theorem pos_shift {P : Bt4Params} {c : Cfg} {data : Array UInt8} {k : Ctx} {hi : Nat} (hk : KCore P c data k hi)
    {cur : Nat} (h1 : k.cs < cur) (h2 : cur ≤ hi) (i : Nat) :
    k.p + i - (k.lzPos - cur) = posOf k.cs cur + i := by
  have := hk.lz
  have := hk.hi
  unfold posOf; omega

theorem nw_mono {P : Bt4Params} {c : Cfg} {data : Array UInt8} {k : Ctx} {hi : Nat} (_hk : KCore P c data k hi)
    {cur : Nat} (h2 : cur ≤ hi) : nw data k.cs c.niceLen (hi + 1) ≤ nw data k.cs c.niceLen cur := by
  unfold nw posOf; omega

/-- what is known when a walk looks at a candidate that passed the `delta >= cyclic_size` test -/
structure CandFacts (P : Bt4Params) (c : Cfg) (data : Array UInt8) (k : Ctx) (hi cur : Nat) : Prop where
  d1 : 1 ≤ k.lzPos - cur
  d2 : k.lzPos - cur ≤ k.p
  d3 : k.lzPos - cur ≤ c.dict
  lo : k.p + 1 < cur
  csLt : k.cs < cur
  hiLe : cur ≤ hi
  pair : pairOf P k (k.lzPos - cur) = sl k.cs cur

theorem candFacts {P : Bt4Params} {c : Cfg} {data : Array UInt8} (hok : P.ok) {k : Ctx} {hi cur : Nat}
    (hk : KCore P c data k hi) (hcp : k.cyclicPos = (k.lzPos - 1) % k.cs) (hc : EntryOk k.cs hi cur)
    (hstop : ¬ k.lzPos - cur ≥ k.cs) : CandFacts P c data k hi cur := by
  obtain ⟨d1, d2, d3⟩ := delta_of_entry hk hc (by omega)
  have h1 := hk.lz
  have h2 := hk.hi
  have h3 := hk.cs
  have hcur : k.cs < cur ∧ cur ≤ hi := by
    rcases hc with h | h
    · subst h; omega
    · exact h
  refine ⟨d1, d2, d3, by omega, hcur.1, hcur.2, ?_⟩
  have := pairOf_eq_sl hok k (k.lzPos - cur) hcp d1 (by omega) (by omega)
  rw [this]; congr 1; omega

/-- the first `min len0 len1` bytes of the candidate agree with the new string -/
theorem cand_prefix_eq {P : Bt4Params} {c : Cfg} {data : Array UInt8} {k : Ctx} {hi : Nat} {T : Array Nat}
    {ptr0 ptr1 len0 len1 cur : Nat}
    (h : LoopInv data k.cs c.niceLen (k.p + 1) hi k.p T ptr0 ptr1 len0 len1 cur)
    (hf : CandFacts P c data k hi cur) : EqN data (min len0 len1) (posOf k.cs cur) k.p := by
  have := h.v cur (Reach.refl hf.lo hf.hiLe)
  exact LeN.antisymm (this.1.mono (Nat.min_le_left _ _)) (this.2.mono (Nat.min_le_right _ _))

/-! ### `findLoop` -/

theorem findLoop_bst {P : Bt4Params} {c : Cfg} {data : Array UInt8} (hok : P.ok) (k : Ctx) {hi : Nat}
    (hk : KFacts P c data k hi) (hcp : k.cyclicPos = (k.lzPos - 1) % k.cs)
    (hNn : k.niceLimit = nw data k.cs c.niceLen (hi + 1)) (hNL : k.niceLimit ≤ k.lenLimit)
    (depth : Nat) (tree : Array Nat) (ptr0 ptr1 len0 len1 cur lenBest : Nat) (ms : Array Match) (lg : Log) :
    LoopInv data k.cs c.niceLen (k.p + 1) hi k.p tree ptr0 ptr1 len0 len1 cur → TblOk k.cs hi tree →
    EntryOk k.cs hi cur → 2 ≤ lenBest → lenBest < k.niceLimit → len0 < k.niceLimit → len1 < k.niceLimit →
    (∀ m ∈ ms.toList, ValidMatch data c.dict k.p (min c.mlmax (data.size - k.p)) m) →
    Post data k.cs (k.p + 1) hi k.niceLimit k.p tree
      (findLoop P data k depth tree ptr0 ptr1 len0 len1 cur lenBest ms lg).1 ptr0 ptr1 cur ∧
    ∀ m ∈ (findLoop P data k depth tree ptr0 ptr1 len0 len1 cur lenBest ms lg).2.1.toList,
      ValidMatch data c.dict k.p (min c.mlmax (data.size - k.p)) m := by
  have hlo1 : 1 ≤ k.p + 1 := by omega
  have hgeo : hi < k.p + 1 + k.cs := by have := hk.hi; omega
  fun_induction findLoop P data k depth tree ptr0 ptr1 len0 len1 cur lenBest ms lg with
  | case1 tree ptr0 ptr1 len0 len1 cur lenBest ms lg tree' lg' hx =>
    intro h _ _ _ _ _ _ hms
    have : tree' = (tree.setIfInBounds ptr0 0).setIfInBounds ptr1 0 := by
      have := congrArg Prod.fst hx; simpa [terminate] using this.symm
    rw [this]
    exact ⟨post_terminate h, hms⟩
  | case2 depth tree ptr0 ptr1 len0 len1 cur lenBest ms lg delta hstop tree' lg' hx =>
    intro h _ _ _ _ _ _ hms
    have : tree' = (tree.setIfInBounds ptr0 0).setIfInBounds ptr1 0 := by
      have := congrArg Prod.fst hx; simpa [terminate] using this.symm
    rw [this]
    exact ⟨post_terminate h, hms⟩
  | case3 depth tree ptr0 ptr1 len0 len1 cur lenBest ms lg delta hstop pair len lg1 hit ms1 hnice tree' lg' hx =>
    intro h ht hc hlb2 hlb hl0 hl1 hms
    rw [ok_stop hok, geOrGt_true, decide_eq_true_eq] at hstop
    have hf := candFacts hok hk.toKCore hcp hc hstop
    have hpre := cand_prefix_eq h hf
    have hmin : min len0 len1 ≤ k.lenLimit := by omega
    have hlenle : len ≤ k.lenLimit := extendMatch_le _ _ _ _ _ hmin
    have hge := extendMatch_ge data k.p delta k.lenLimit (min len0 len1)
    have heq : EqN data len (posOf k.cs cur) k.p := by
      intro i hi'
      by_cases hi2 : i < min len0 len1
      · exact hpre i hi2
      · have := extendMatch_eq data k.p delta k.lenLimit (min len0 len1) i (by omega) hi'
        rw [pos_shift hk.toKCore hf.csLt hf.hiLe] at this
        exact this.symm
    simp only [Bool.and_eq_true] at hnice
    have hhit : hit = true := hnice.1
    have hhit' : lenBest < len := by
      have := hhit; simp only [hit, ok_best hok, ltOrLe_true, decide_eq_true_eq] at this; exact this
    have hnl : len ≥ k.niceLimit := by
      have := hnice.2; rw [ok_nice hok, geOrGt_true, decide_eq_true_eq] at this; exact this
    have hvalid : ValidMatch data c.dict k.p (min c.mlmax (data.size - k.p)) (len, delta - P.distSub) := by
      rw [ok_dist hok]
      refine valid_of_prefix hk delta len hf.d1 hf.d2 hf.d3 (by omega) hlenle ?_
      intro i hi'
      rw [pos_shift hk.toKCore hf.csLt hf.hiLe]
      exact (heq i hi').symm
    have htree : tree' = (tree.setIfInBounds ptr1 (tree.getD (sl k.cs cur) 0)).setIfInBounds ptr0
        ((tree.setIfInBounds ptr1 (tree.getD (sl k.cs cur) 0)).getD (sl k.cs cur + 1) 0) := by
      have := congrArg Prod.fst hx
      simp only [relink] at this
      have hpair : pair = sl k.cs cur := hf.pair
      rw [← this, hpair]
    rw [htree]
    refine ⟨post_relink h hf.lo (by rw [hNn]; exact nw_mono hk.toKCore hf.hiLe) (heq.mono hnl), ?_⟩
    show ∀ m ∈ ms1.toList, _
    simp only [ms1, hhit, if_true, Array.toList_push]
    intro m hm
    rcases List.mem_append.1 hm with hm | hm
    · exact hms m hm
    · rw [List.mem_singleton] at hm; subst hm; exact hvalid
  | case4 depth tree ptr0 ptr1 len0 len1 cur lenBest ms lg delta hstop pair len lg1 hit ms1 hnice lenBest1 lg2 hlt
      tree1 lg3 ih =>
    intro h ht hc hlb2 hlb hl0 hl1 hms
    rw [ok_stop hok, geOrGt_true, decide_eq_true_eq] at hstop
    have hf := candFacts hok hk.toKCore hcp hc hstop
    have hpre := cand_prefix_eq h hf
    have hmin : min len0 len1 ≤ k.lenLimit := by omega
    have hlenle : len ≤ k.lenLimit := extendMatch_le _ _ _ _ _ hmin
    have hge := extendMatch_ge data k.p delta k.lenLimit (min len0 len1)
    have heq : EqN data len (posOf k.cs cur) k.p := by
      intro i hi'
      by_cases hi2 : i < min len0 len1
      · exact hpre i hi2
      · have := extendMatch_eq data k.p delta k.lenLimit (min len0 len1) i (by omega) hi'
        rw [pos_shift hk.toKCore hf.csLt hf.hiLe] at this
        exact this.symm
    have hhitiff : hit = true ↔ lenBest < len := by
      simp only [hit, ok_best hok, ltOrLe_true, decide_eq_true_eq]
    have hlennl : len < k.niceLimit := by
      apply Nat.lt_of_not_le
      intro hge'
      apply hnice
      have : hit = true := hhitiff.2 (by omega)
      simp only [this, ok_nice hok, geOrGt_true, Bool.true_and, decide_eq_true_eq]; exact hge'
    have hN := nw_mono (c := c) (data := data) hk.toKCore hf.hiLe
    have hpair : pair = sl k.cs cur := hf.pair
    have hlt' : byteAt data (posOf k.cs cur + len) < byteAt data (k.p + len) := by
      have := hlt; rw [pos_shift hk.toKCore hf.csLt hf.hiLe] at this; exact this
    obtain ⟨hinv, hpost⟩ := step_small hlo1 hgeo (Nn := k.niceLimit) h hf.lo (by omega) (by omega) heq hlt'
    rw [← hpair] at hinv hpost
    have ht1 : TblOk k.cs hi tree1 := ht.set ptr1 cur hc
    have hlb1 : 2 ≤ lenBest1 ∧ lenBest1 < k.niceLimit := by
      show 2 ≤ (if hit = true then len else lenBest) ∧ (if hit = true then len else lenBest) < k.niceLimit
      split
      · rename_i hh; have := hhitiff.1 hh; omega
      · omega
    have hms1 : ∀ m ∈ ms1.toList, ValidMatch data c.dict k.p (min c.mlmax (data.size - k.p)) m := by
      show ∀ m ∈ (if hit = true then ms.push (len, delta - P.distSub) else ms).toList, _
      split
      · rename_i hh
        have hbl := hhitiff.1 hh
        intro m hm
        rw [Array.toList_push] at hm
        rcases List.mem_append.1 hm with hm | hm
        · exact hms m hm
        · rw [List.mem_singleton] at hm; subst hm
          rw [ok_dist hok]
          refine valid_of_prefix hk delta len hf.d1 hf.d2 hf.d3 (by omega) hlenle ?_
          intro i hi'
          rw [pos_shift hk.toKCore hf.csLt hf.hiLe]
          exact (heq i hi').symm
      · exact hms
    obtain ⟨a, b⟩ := ih hinv ht1 (ht1 _) hlb1.1 hlb1.2 hl0 hlennl hms1
    exact ⟨hpost _ a, b⟩
  | case5 depth tree ptr0 ptr1 len0 len1 cur lenBest ms lg delta hstop pair len lg1 hit ms1 hnice lenBest1 lg2 hlt
      tree1 lg3 ih =>
    intro h ht hc hlb2 hlb hl0 hl1 hms
    rw [ok_stop hok, geOrGt_true, decide_eq_true_eq] at hstop
    have hf := candFacts hok hk.toKCore hcp hc hstop
    have hpre := cand_prefix_eq h hf
    have hmin : min len0 len1 ≤ k.lenLimit := by omega
    have hlenle : len ≤ k.lenLimit := extendMatch_le _ _ _ _ _ hmin
    have hge := extendMatch_ge data k.p delta k.lenLimit (min len0 len1)
    have heq : EqN data len (posOf k.cs cur) k.p := by
      intro i hi'
      by_cases hi2 : i < min len0 len1
      · exact hpre i hi2
      · have := extendMatch_eq data k.p delta k.lenLimit (min len0 len1) i (by omega) hi'
        rw [pos_shift hk.toKCore hf.csLt hf.hiLe] at this
        exact this.symm
    have hhitiff : hit = true ↔ lenBest < len := by
      simp only [hit, ok_best hok, ltOrLe_true, decide_eq_true_eq]
    have hlennl : len < k.niceLimit := by
      apply Nat.lt_of_not_le
      intro hge'
      apply hnice
      have : hit = true := hhitiff.2 (by omega)
      simp only [this, ok_nice hok, geOrGt_true, Bool.true_and, decide_eq_true_eq]; exact hge'
    have hN := nw_mono (c := c) (data := data) hk.toKCore hf.hiLe
    have hpair : pair = sl k.cs cur := hf.pair
    have hlt' : byteAt data (k.p + len) < byteAt data (posOf k.cs cur + len) := by
      have h1 := hlt
      rw [pos_shift hk.toKCore hf.csLt hf.hiLe] at h1
      rcases extendMatch_stop data k.p delta k.lenLimit (min len0 len1) hmin with h2 | h2
      · have : len = k.lenLimit := h2
        omega
      · have h3 : byteAt data (k.p + len) ≠ byteAt data (k.p + len - delta) := h2
        rw [pos_shift hk.toKCore hf.csLt hf.hiLe] at h3
        omega
    obtain ⟨hinv, hpost⟩ := step_large hlo1 hgeo (Nn := k.niceLimit) h hf.lo (by omega) (by omega) heq hlt'
    rw [← hpair] at hinv hpost
    have ht1 : TblOk k.cs hi tree1 := ht.set ptr0 cur hc
    have hlb1 : 2 ≤ lenBest1 ∧ lenBest1 < k.niceLimit := by
      show 2 ≤ (if hit = true then len else lenBest) ∧ (if hit = true then len else lenBest) < k.niceLimit
      split
      · rename_i hh; have := hhitiff.1 hh; omega
      · omega
    have hms1 : ∀ m ∈ ms1.toList, ValidMatch data c.dict k.p (min c.mlmax (data.size - k.p)) m := by
      show ∀ m ∈ (if hit = true then ms.push (len, delta - P.distSub) else ms).toList, _
      split
      · rename_i hh
        have hbl := hhitiff.1 hh
        intro m hm
        rw [Array.toList_push] at hm
        rcases List.mem_append.1 hm with hm | hm
        · exact hms m hm
        · rw [List.mem_singleton] at hm; subst hm
          rw [ok_dist hok]
          refine valid_of_prefix hk delta len hf.d1 hf.d2 hf.d3 (by omega) hlenle ?_
          intro i hi'
          rw [pos_shift hk.toKCore hf.csLt hf.hiLe]
          exact (heq i hi').symm
      · exact hms
    obtain ⟨a, b⟩ := ih hinv ht1 (ht1 _) hlb1.1 hlb1.2 hlennl hl1 hms1
    exact ⟨hpost _ a, b⟩

/-! ### the private `skip` -/

theorem skipInner_spec (data : Array UInt8) (p delta niceLimit : Nat) (fuel len : Nat) (lg : Log) :
    len < niceLimit → niceLimit ≤ fuel + len →
    (∀ i, i ≤ len → byteAt data (p + i - delta) = byteAt data (p + i)) →
    (∀ i, i < (skipInner data p delta niceLimit fuel len lg).1 → byteAt data (p + i - delta) = byteAt data (p + i)) ∧
    ((skipInner data p delta niceLimit fuel len lg).2.1 = true →
      (skipInner data p delta niceLimit fuel len lg).1 = niceLimit) ∧
    ((skipInner data p delta niceLimit fuel len lg).2.1 = false →
      (skipInner data p delta niceLimit fuel len lg).1 < niceLimit ∧
      byteAt data (p + (skipInner data p delta niceLimit fuel len lg).1 - delta) ≠
        byteAt data (p + (skipInner data p delta niceLimit fuel len lg).1)) := by
  fun_induction skipInner data p delta niceLimit fuel len lg with
  | case1 len lg => intro h1 h2 _; omega
  | case2 fuel len lg len1 heq =>
    intro _ _ he
    exact ⟨fun i hi => he i (by omega), fun _ => heq, fun h => by simp at h⟩
  | case3 fuel len lg len1 hne lg1 hby =>
    intro h1 _ he
    exact ⟨fun i hi => he i (by omega), fun h => by simp at h, fun _ => ⟨by omega, hby⟩⟩
  | case4 fuel len lg len1 hne lg1 hby ih =>
    intro h1 h2 he
    refine ih (by omega) (by omega) ?_
    intro i hi
    by_cases h : i ≤ len
    · exact he i h
    · have : i = len1 := by omega
      subst this
      exact Decidable.not_not.1 hby

theorem skipStep_spec (data : Array UInt8) (p delta niceLimit m : Nat) (lg : Log) {len : Nat} {nice : Bool}
    {lg2 : Log} (hm : m < niceLimit) (hpre : ∀ i, i < m → byteAt data (p + i - delta) = byteAt data (p + i))
    (hx : (if byteAt data (p + m - delta) = byteAt data (p + m) then
        skipInner data p delta niceLimit niceLimit m lg else (m, false, lg)) = (len, nice, lg2)) :
    (∀ i, i < len → byteAt data (p + i - delta) = byteAt data (p + i)) ∧
    (nice = true → len = niceLimit) ∧
    (nice = false → len < niceLimit ∧ byteAt data (p + len - delta) ≠ byteAt data (p + len)) := by
  split at hx
  · rename_i hb
    have := skipInner_spec data p delta niceLimit niceLimit m lg hm (by omega) (by
      intro i hi
      by_cases h : i < m
      · exact hpre i h
      · have : i = m := by omega
        subst this; exact hb)
    rw [hx] at this
    exact this
  · rename_i hb
    simp only [Prod.mk.injEq] at hx
    obtain ⟨rfl, rfl, rfl⟩ := hx
    exact ⟨hpre, fun h => by simp at h, fun _ => ⟨hm, hb⟩⟩

theorem skipLoop_bst {P : Bt4Params} {c : Cfg} {data : Array UInt8} (hok : P.ok) (k : Ctx) {hi : Nat}
    (hk : KCore P c data k hi) (hcp : k.cyclicPos = (k.lzPos - 1) % k.cs)
    (hNn : k.niceLimit = nw data k.cs c.niceLen (hi + 1))
    (depth : Nat) (tree : Array Nat) (ptr0 ptr1 len0 len1 cur : Nat) (lg : Log) :
    LoopInv data k.cs c.niceLen (k.p + 1) hi k.p tree ptr0 ptr1 len0 len1 cur → TblOk k.cs hi tree →
    EntryOk k.cs hi cur → len0 < k.niceLimit → len1 < k.niceLimit →
    Post data k.cs (k.p + 1) hi k.niceLimit k.p tree
      (skipLoop P data k depth tree ptr0 ptr1 len0 len1 cur lg).1 ptr0 ptr1 cur := by
  have hlo1 : 1 ≤ k.p + 1 := by omega
  have hgeo : hi < k.p + 1 + k.cs := by have := hk.hi; omega
  fun_induction skipLoop P data k depth tree ptr0 ptr1 len0 len1 cur lg with
  | case1 tree ptr0 ptr1 len0 len1 cur lg =>
    intro h _ _ _ _
    exact post_terminate h
  | case2 depth tree ptr0 ptr1 len0 len1 cur lg delta hstop =>
    intro h _ _ _ _
    exact post_terminate h
  | case3 depth tree ptr0 ptr1 len0 len1 cur lg delta hstop pair len0' lg1 len lg2 hx =>
    intro h ht hc hl0 hl1
    rw [ok_stop hok, geOrGt_true, decide_eq_true_eq] at hstop
    have hf := candFacts hok hk hcp hc hstop
    have hpre := cand_prefix_eq h hf
    have hs := skipStep_spec data k.p delta k.niceLimit len0' lg1 (by omega) (by
      intro i hi'
      rw [pos_shift hk hf.csLt hf.hiLe]
      exact hpre i hi') hx
    have hlen : len = k.niceLimit := hs.2.1 rfl
    have heq : EqN data k.niceLimit (posOf k.cs cur) k.p := by
      intro i hi'
      have := hs.1 i (by omega)
      rw [pos_shift hk hf.csLt hf.hiLe] at this
      exact this
    have hpair : pair = sl k.cs cur := hf.pair
    show Post _ _ _ _ _ _ _ (relink tree ptr0 ptr1 pair lg2).1 _ _ _
    simp only [relink]
    rw [hpair]
    exact post_relink h hf.lo (by rw [hNn]; exact nw_mono hk hf.hiLe) heq
  | case4 depth tree ptr0 ptr1 len0 len1 cur lg delta hstop pair len0' lg1 len nice lg2 hx hnice lg3 hlt tree1 lg4 ih =>
    intro h ht hc hl0 hl1
    rw [ok_stop hok, geOrGt_true, decide_eq_true_eq] at hstop
    have hf := candFacts hok hk hcp hc hstop
    have hpre := cand_prefix_eq h hf
    have hs := skipStep_spec data k.p delta k.niceLimit len0' lg1 (by omega) (by
      intro i hi'
      rw [pos_shift hk hf.csLt hf.hiLe]
      exact hpre i hi') hx
    have hn : nice = false := by simpa using hnice
    have hlen : len < k.niceLimit := (hs.2.2 hn).1
    have heq : EqN data len (posOf k.cs cur) k.p := by
      intro i hi'
      have := hs.1 i hi'
      rw [pos_shift hk hf.csLt hf.hiLe] at this
      exact this
    have hN := nw_mono (c := c) (data := data) hk hf.hiLe
    have hpair : pair = sl k.cs cur := hf.pair
    have hlt' : byteAt data (posOf k.cs cur + len) < byteAt data (k.p + len) := by
      have := hlt; rw [pos_shift hk hf.csLt hf.hiLe] at this; exact this
    obtain ⟨hinv, hpost⟩ := step_small hlo1 hgeo (Nn := k.niceLimit) h hf.lo (by omega) (by omega) heq hlt'
    rw [← hpair] at hinv hpost
    have ht1 : TblOk k.cs hi tree1 := ht.set ptr1 cur hc
    exact hpost _ (ih hinv ht1 (ht1 _) hl0 hlen)
  | case5 depth tree ptr0 ptr1 len0 len1 cur lg delta hstop pair len0' lg1 len nice lg2 hx hnice lg3 hlt tree1 lg4 ih =>
    intro h ht hc hl0 hl1
    rw [ok_stop hok, geOrGt_true, decide_eq_true_eq] at hstop
    have hf := candFacts hok hk hcp hc hstop
    have hpre := cand_prefix_eq h hf
    have hs := skipStep_spec data k.p delta k.niceLimit len0' lg1 (by omega) (by
      intro i hi'
      rw [pos_shift hk hf.csLt hf.hiLe]
      exact hpre i hi') hx
    have hn : nice = false := by simpa using hnice
    have hlen : len < k.niceLimit := (hs.2.2 hn).1
    have heq : EqN data len (posOf k.cs cur) k.p := by
      intro i hi'
      have := hs.1 i hi'
      rw [pos_shift hk hf.csLt hf.hiLe] at this
      exact this
    have hN := nw_mono (c := c) (data := data) hk hf.hiLe
    have hpair : pair = sl k.cs cur := hf.pair
    have hlt' : byteAt data (k.p + len) < byteAt data (posOf k.cs cur + len) := by
      have h1 := hlt
      have h3 := (hs.2.2 hn).2
      rw [pos_shift hk hf.csLt hf.hiLe] at h1 h3
      omega
    obtain ⟨hinv, hpost⟩ := step_large hlo1 hgeo (Nn := k.niceLimit) h hf.lo (by omega) (by omega) heq hlt'
    rw [← hpair] at hinv hpost
    have ht1 : TblOk k.cs hi tree1 := ht.set ptr0 cur hc
    exact hpost _ (ih hinv ht1 (ht1 _) hlen hl1)

end LzmaVerif.Mf.Bt4
