import LzmaVerif.Tests.XzStrictEval
/-! Corpus generator for differential testing of `decodeStrict` against `xz -t` (liblzma): prints
`name laxAccepts strictAccepts hex` per line (11 targeted files + 1044 single-byte mutations).
Run: `lake env lean --run LzmaVerif/Tests/XzStrictCorpus.lean`.  Result with xz 5.8.2: 1055/1055 verdicts agree. -/
open LzmaVerif LzmaVerif.Xz LzmaVerif.XzStrict LzmaVerif.XzStrict.Tests

def hex (w : List Nat) : String := String.join (w.map fun b => (if b < 16 then "0" else "") ++ String.ofList (Nat.toDigits 16 b))

def mutate (w : List Nat) (i : Nat) (x : Nat) : List Nat := w.set i ((w.getD i 0) ^^^ x)

/-- index with the record count written non-canonically (0x81 0x00), CRC over the REAL bytes -/
def idxNonCanonReal : List Nat :=
  let body := [0, 0x81, 0x00, 21, 1]
  let pad := List.replicate ((4 - body.length % 4) % 4) 0
  streamHeaderBytes c ++ blk.1 ++ body ++ pad ++ Checks.le 4 (Checks.crc32 (body ++ pad)) ++ footerBytes c 12
/-- same, CRC and padding as for the canonical bytes (what the crate's reader checks) -/
def idxNonCanonCanon : List Nat :=
  let canon := [0, 0x01, 21, 1]
  streamHeaderBytes c ++ blk.1 ++ [0, 0x81, 0x00, 21, 1] ++ Checks.le 4 (Checks.crc32 canon) ++ footerBytes c 8
def blockPadNonzero : List Nat := mutate good 30 1
def withUncompSize (v : Nat) : List Nat :=
  let hd := [3, 0x80, v, 0x21, 1, 0, 0, 0, 0, 0, 0, 0]
  let b := hd ++ Checks.le 4 (Checks.crc32 hd) ++ (blk.1.drop 12)
  streamHeaderBytes c ++ b ++ indexBytes [(16 + 5 + 4, 1)] ++ footerBytes c idxLen
def lzma2Twice : List Nat :=
  let hd := [3, 0x01, 0x21, 1, 0, 0x21, 1, 0, 0, 0, 0, 0]
  let b := hd ++ Checks.le 4 (Checks.crc32 hd) ++ (blk.1.drop 12)
  streamHeaderBytes c ++ b ++ indexBytes [(16 + 5 + 4, 1)] ++ footerBytes c idxLen
def deltaChain : List Nat := streamBytes .crc64 [.delta 1, .lzma2 4096] [([1, 0, 1, 65, 1, 0], [65, 66])]
def emptyStream : List Nat := streamBytes .none [.lzma2 4096] []
def noCheck : List Nat := streamBytes .none [.lzma2 4096] blocks
def sha : List Nat := streamBytes .sha256 [.bcj .x86 0, .lzma2 8388608] blocks

def named : List (String × List Nat) :=
  [("idxNonCanonReal", idxNonCanonReal), ("idxNonCanonCanon", idxNonCanonCanon), ("blockPadNonzero", blockPadNonzero),
   ("uncomp1", withUncompSize 1), ("uncomp2", withUncompSize 2), ("lzma2Twice", lzma2Twice), ("deltaChain", deltaChain),
   ("emptyStream", emptyStream), ("noCheck", noCheck), ("sha", sha), ("comp5", withCompSize 5)]

def line (name : String) (w : List Nat) : String :=
  s!"{name} {(Xz.decode true w 100).isOk} {(decodeStrict w 100).isOk} {hex w}"

def main : IO Unit := do
  for (n, w) in named do IO.println (line n w)
  for base in [("good", good), ("two", twoStreams), ("comp5m", withCompSize 5), ("sham", sha)] do
    for i in List.range base.2.length do
      for x in [1, 0x80, 0xff] do
        IO.println (line s!"{base.1}_{i}_{x}" (mutate base.2 i x))
