import LzmaVerif.Model.XzStrict
/-! Executable smoke tests of the strict decoder (`#eval`; expected results in the comments). -/
namespace LzmaVerif.XzStrict.Tests
open LzmaVerif Xz XzStrict

def c : Check := .crc32
def fs : List Filter := [.lzma2 4096]
/-- one block: a stored LZMA2 chunk holding the byte 65 -/
def blocks : List (List Nat × List Nat) := [([1, 0, 0, 65, 0], [65])]

def good : List Nat := streamBytes c fs blocks

def blk : List Nat × (Nat × Nat) := blockBytes c fs [1, 0, 0, 65, 0] [65]

/-- like `good`, but the index is `indexBytes recs` (CRC recomputed) and the footer announces `bsLen` -/
def variant (recs : List (Nat × Nat)) (bsLen : Nat) : List Nat :=
  streamHeaderBytes c ++ blk.1 ++ indexBytes recs ++ footerBytes c bsLen

def idxLen : Nat := (indexBytes [blk.2]).length

/-- wrong Uncompressed Size in the index record -/
def badUncomp : List Nat := variant [(blk.2.1, 2)] idxLen
/-- wrong Unpadded Size in the index record -/
def badUnpadded : List Nat := variant [(blk.2.1 + 1, 1)] idxLen
/-- wrong Backward Size in the footer (CRC recomputed) -/
def badBackward : List Nat := variant [blk.2] (idxLen + 4)
/-- non-canonical multibyte integer in the index (number of records written as 81 00), CRC over the real bytes:
    rejected by both readers (the crate checks the CRC of the re-encoded integers) -/
def twoStreams : List Nat := good ++ List.replicate 8 0 ++ streamBytes .sha256 [.delta 1, .lzma2 4096] blocks
def misaligned : List Nat := good ++ List.replicate 3 0
def garbage : List Nat := good ++ [1, 2, 3, 4]
/-- reserved block-header flag bit set (0x04), header CRC recomputed -/
def reservedFlag : List Nat :=
  let hd := [2, 0x04, 0x21, 1, 0, 0, 0, 0]
  streamHeaderBytes c ++ hd ++ Checks.le 4 (Checks.crc32 hd) ++ (blk.1.drop 12) ++ indexBytes [blk.2] ++ footerBytes c idxLen
/-- Compressed Size field present and wrong (6 instead of 5) / right (5), header CRC recomputed -/
def withCompSize (v : Nat) : List Nat :=
  let hd := [3, 0x40, v, 0x21, 1, 0, 0, 0, 0, 0, 0, 0]
  let b := hd ++ Checks.le 4 (Checks.crc32 hd) ++ (blk.1.drop 12)
  streamHeaderBytes c ++ b ++ indexBytes [(16 + 5 + 4, 1)] ++ footerBytes c idxLen
/-- non-canonical filter id (0xA1 0x00 for 0x21) in the block header, header CRC recomputed -/
def nonCanonId : List Nat :=
  let hd := [3, 0x00, 0xA1, 0x00, 1, 0, 0, 0, 0, 0, 0, 0]
  let b := hd ++ Checks.le 4 (Checks.crc32 hd) ++ (blk.1.drop 12)
  streamHeaderBytes c ++ b ++ indexBytes [(16 + 5 + 4, 1)] ++ footerBytes c idxLen

def verdicts (w : List Nat) : String × String := ((Xz.decode true w 100).tag, (decodeStrict w 100).tag)

#eval good.length                      -- 56
#eval (decodeStrict good 100).result?  -- some ([65], 56)
#eval verdicts good                    -- ("ok", "ok")
#eval verdicts badUncomp               -- ("err InvalidData", "err InvalidData")   (the reader accepted it before the fix d05c50c)
#eval verdicts badUnpadded             -- ("err InvalidData", "err InvalidData")
#eval verdicts badBackward             -- ("err InvalidData", "err InvalidData")
#eval verdicts twoStreams              -- ("ok", "ok")
#eval (decodeStrict twoStreams 100).result?  -- some ([65, 65], 56 + 8 + 84 = 148)
#eval verdicts misaligned              -- ("err InvalidData", "err InvalidData")
#eval verdicts garbage                 -- ("err InvalidData", "err InvalidData")
#eval verdicts reservedFlag            -- ("ok", "err InvalidInput")   remaining laxity of the reader
#eval verdicts (withCompSize 5)        -- ("ok", "ok")
#eval verdicts (withCompSize 6)        -- ("err InvalidData", "err InvalidData")
#eval verdicts (withCompSize 0)        -- ("err InvalidData", "err InvalidData")
#eval verdicts nonCanonId              -- ("ok", "err InvalidData")    remaining laxity of the reader
#eval verdicts (streamBytes .crc64 [.bcj .x86 0, .lzma2 65536] [])   -- ("ok", "ok")  empty stream

end LzmaVerif.XzStrict.Tests
