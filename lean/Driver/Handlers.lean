import Driver.Proto
import LzmaVerif.Model.Lzip
import LzmaVerif.Model.XzInt
import LzmaVerif.Model.LzmaStream
import LzmaVerif.Model.Lzma2
import LzmaVerif.Model.Lzma2Check
import LzmaVerif.Model.Filters
import LzmaVerif.Model.Xz
import LzmaVerif.Model.Guards
import LzmaVerif.Model.XzStrict
import LzmaVerif.Model.LzipFile
import LzmaVerif.Model.Split
import LzmaVerif.Model.BcjStream
import LzmaVerif.Model.Mem
import LzmaVerif.Model.Options
import LzmaVerif.Model.Parse
import LzmaVerif.Model.Bcj2
import LzmaVerif.Model.LzDecoder
import LzmaVerif.Model.EncWindow
import LzmaVerif.Generated.TwinParams
import Driver.MfHc4
import Driver.MfBt4
import Driver.EncFast
import Driver.Writers
import Driver.MtTrace
import Driver.Lzma2W
import Driver.EncNormal
/-! Request handlers: each maps a parsed request to the canonical answer line. -/
namespace Driver
open LzmaVerif

def optNat : Option Nat → String
  | some n => s!"ok {n}"
  | none => "err"

def showPRes : XzInt.PRes → String
  | .ok v n => s!"ok {v} {n}"
  | .tooLarge => "err toolarge"
  | .incomplete => "err incomplete"
  | .tooLong => "err toolong"

open Lzma in
def showDecOut (o : DecOut) (reenc : Option Bool) : String :=
  match o with
  | .ok out consumed _ =>
    let r := match reenc with | some true => "1" | some false => "0" | none => "-"
    s!"ok {out.size} {fnvArr out} {consumed} {r}"
  | .err e => s!"err {e.name}"
  | .capped => "capped"

open Lzma in
/-- the hypothesis of the round-trip theorems holds for a recovered parse: every symbol admissible, every
    copy inside the dictionary, and the denoted history is `presetUsed ++ out` (an end marker is stripped) -/
def parseDenotes (dictBuf : Nat) (presetUsed : Array Nat) (parse : List Sym) (out : Array Nat) : Bool :=
  let body := match parse.getLast? with
    | some (.mtch d _) => if d == END_DIST then parse.dropLast else parse
    | _ => parse
  match parseRun dictBuf body Coder.init presetUsed with
  | some (_, h) => h == presetUsed ++ out
  | none => false

open Lzma in
/-- `lzma.dec fmt=raw|alone lc= lp= pb= dict= size=<n|-> preset=<hex> in=<hex> cap=<n> reenc=<0|1>` -/
def handleLzmaDec (a : Args) : String :=
  match a.get? "fmt", a.bytes? "in", a.bytes? "preset", a.nat? "cap" with
  | some fmt, some inp, some preset, some cap =>
    let presetA := preset.toArray
    let wantReenc := a.nat? "reenc" == some 1
    if fmt == "alone" then
      let o := decodeAlone presetA inp cap
      let reenc := match o, inp with
        | .ok _ consumed parse, p :: d0 :: d1 :: d2 :: d3 :: s0 :: s1 :: s2 :: s3 :: s4 :: s5 :: s6 :: s7 :: rest =>
          if wantReenc then
            let dict := le32 d0 d1 d2 d3
            let size := le32 s0 s1 s2 s3 + 2 ^ 32 * le32 s4 s5 s6 s7
            let szOpt := if size = 2 ^ 64 - 1 then none else some size
            let dictBuf := lzmaReaderDictBuf dict (if size ≤ 2 ^ 63 - 1 then some size else none) presetA.size
            let presetUsed := presetA.extract (presetA.size - min presetA.size dictBuf) presetA.size
            some (encodeParse (paramsOfProps p) dictBuf presetUsed szOpt (match szOpt with | some n => n + 1 | none => cap + 1) parse == some (rest.take (consumed - 13))
                  && parseDenotes dictBuf presetUsed parse (match o with | .ok out _ _ => out | _ => #[]))
          else none
        | _, _ => none
      showDecOut o reenc
    else
      match a.nat? "lc", a.nat? "lp", a.nat? "pb", a.nat? "dict" with
      | some lc, some lp, some pb, some dict =>
        let size := a.nat? "size"
        let pr : Params := { lc, lp, pb }
        let dictBuf := lzmaReaderDictBuf dict size presetA.size
        let o := decodeRaw pr dictBuf presetA size inp cap
        let reenc := match o with
          | .ok _ consumed parse =>
            if wantReenc then
              let presetUsed := presetA.extract (presetA.size - min presetA.size dictBuf) presetA.size
              some (encodeParse pr dictBuf presetUsed size (match size with | some n => n + 1 | none => cap + 1) parse == some (inp.take consumed)
                  && parseDenotes dictBuf presetUsed parse (match o with | .ok out _ _ => out | _ => #[]))
            else none
          | _ => none
        showDecOut o reenc
      | _, _, _, _ => "bad-op"
  | _, _, _, _ => "bad-op"

/-- `lzma2.dec dict= preset=<hex> in=<hex> cap=<n> reenc=<0|1> [chunks=1]`
answer: `ok <len> <fnv> <consumed> <reenc> [<control bytes>]` -/
def handleLzma2Dec (a : Args) : String :=
  match a.nat? "dict", a.bytes? "in", a.bytes? "preset", a.nat? "cap" with
  | some dict, some inp, some preset, some cap =>
    match Lzma2.decode dict preset.toArray inp cap with
    | .ok r =>
      -- reenc=1: the model writer reproduces the real bytes from the recovered chunk list AND the chunk
      -- list satisfies the hypothesis of `lzma2_roundtrip` (checkChunks ⇒ ChunksOk) and denotes the output
      let reenc :=
        if a.nat? "reenc" == some 1 then
          (if Lzma2.reencode dict preset.toArray r.chunks == some (inp.take r.consumed) &&
              Lzma2.checkChunks (Lzma2.propsOf r.chunks) r.chunks (Lzma2.initW dict preset.toArray (Lzma2.propsOf r.chunks))
                == some r.out.toList
           then "1" else "0")
        else "-"
      let extra := if a.nat? "chunks" == some 1 then " " ++ hex (r.chunks.map (·.control)) else ""
      s!"ok {r.out.size} {fnvArr r.out} {r.consumed} {reenc}{extra}"
    | .err e => s!"err {e.name}"
    | .capped => "capped"
  | _, _, _, _ => "bad-op"

def archOf (s : String) : Option Filters.Arch :=
  match s with
  | "x86" => some .x86 | "ppc" => some .ppc | "ia64" => some .ia64 | "arm" => some .arm
  | "armthumb" => some .armThumb | "sparc" => some .sparc | "arm64" => some .arm64 | "riscv" => some .riscv
  | _ => none

def handleFilter (cmd : String) (a : Args) : String :=
  match a.bytes? "in" with
  | none => "bad-op"
  | some inp =>
    match cmd with
    | "bcj.code" =>
      (match (a.get? "arch").bind archOf, a.nat? "enc", a.nat? "start" with
       | some arch, some enc, some start =>
         let out := Filters.oneShot arch (enc == 1) start inp
         s!"ok {out.length} {fnv out}"
       | _, _, _ => "bad-op")
    | "bcj.step" =>
      (match (a.get? "arch").bind archOf, a.nat? "enc", a.nat? "pos", a.nat? "pm" with
       | some arch, some enc, some pos, some pm =>
         let (b, n, st) := Filters.code arch (enc == 1) { pos := pos, prevMask := pm } inp.toArray
         s!"ok {n} {st.pos % 4294967296} {st.prevMask} {fnv b.toList}"
       | _, _, _, _ => "bad-op")
    | "delta.enc" => (match a.nat? "dist" with
       | some d => let out := Filters.deltaEncode d inp; s!"ok {out.length} {fnv out}"
       | none => "bad-op")
    | "delta.dec" => (match a.nat? "dist" with
       | some d => let out := Filters.deltaDecode d inp; s!"ok {out.length} {fnv out}"
       | none => "bad-op")
    | _ => "bad-op"

def handleContainer (cmd : String) (a : Args) : String :=
  match a.bytes? "in", a.nat? "cap" with
  | some inp, some cap =>
    if cmd == "xz.strict" then
      -- the strict format decoder (what liblzma enforces); `verdict=1`: only accept / reject
      match XzStrict.decodeStrict inp cap with
      | .ok data consumed _ => if a.nat? "verdict" == some 1 then "ok" else s!"ok {data.length} {fnv data} {consumed}"
      | .err e => if a.nat? "verdict" == some 1 then "err" else s!"err {e.name}"
      | .capped => "capped"
    else if cmd == "xz.dec" then
      match Xz.decode (a.nat? "multi" == some 1) inp cap with
      | .ok data consumed blks =>
        let re := if a.nat? "reenc" == some 1 then
            (match Xz.parseStreamHeader inp with
             | .ok (c, _) => if Xz.reassemble c blks.reverse == inp.take consumed then " 1" else " 0"
             | .error _ => " 0")
          else ""
        s!"ok {data.length} {fnv data} {consumed}{re}"
      | .err e => s!"err {e.name}"
      | .capped => "capped"
    else
      match LzipFile.decode inp cap with
      | .ok data consumed ms =>
        let re := if a.nat? "reenc" == some 1 then
            (if LzipFile.reassemble ms.reverse == inp.take consumed then " 1" else " 0") else ""
        s!"ok {data.length} {fnv data} {consumed}{re}"
      | .err e => s!"err {e.name}"
      | .capped => "capped"
  | _, _ => "bad-op"

/-- split a byte list into parts of the given lengths (the rest goes into a final part) -/
def cutParts : List Nat → List Nat → List (List Nat)
  | [], rest => if rest.isEmpty then [] else [rest]
  | n :: ns, xs => xs.take n :: cutParts ns (xs.drop n)

/-- `bcj.wstream arch= start= parts=<…> in=<hex>` / `bcj.rstream arch= start= sizes=<…> grants=<…> in=<hex>` -/
def handleBcjStream (cmd : String) (a : Args) : String :=
  match (a.get? "arch").bind archOf, a.nat? "start", a.bytes? "in" with
  | some arch, some start, some inp =>
    if cmd == "bcj.wstream" then
      match a.nats? "parts" with
      | some parts => let out := BcjStream.writeParts arch start (cutParts parts inp); s!"ok {out.length} {fnv out}"
      | none => "bad-op"
    else
      match a.nats? "sizes", a.nats? "grants" with
      | some sizes, some grants => let out := BcjStream.readAll arch start inp sizes grants; s!"ok {out.length} {fnv out}"
      | _, _ => "bad-op"
  | _, _, _ => "bad-op"

def handleMem (cmd : String) (a : Args) : String :=
  match a.nat? "dict" with
  | none => "bad-op"
  | some dict =>
    match cmd with
    | "mem.enc" =>
      (match a.nat? "lc", a.nat? "lp", a.nat? "normal", a.nat? "bt4" with
       | some lc, some lp, some normal, some bt4 =>
         let o : Mem.EncOpts := { dict, lc, lp, pb := 2, normal := normal == 1, bt4 := bt4 == 1, nice := (a.nat? "nice").getD 64 }
         let allocs := if a.nat? "allocs" == some 1 then
             " " ++ ",".intercalate (((Mem.encAllocs o true).filter (· ≥ 4096)).mergeSort.map toString) else ""
         s!"ok {Mem.encEstimate o}{allocs}"
       | _, _, _, _ => "bad-op")
    | "mem.lzmadec" =>
      (match a.nat? "lc", a.nat? "lp" with
       | some lc, some lp => (match Mem.lzmaDecEstimate dict lc lp with | some e => s!"ok {e}" | none => "err")
       | _, _ => "bad-op")
    | "mem.lzma2dec" => s!"ok {Mem.lzma2DecEstimate dict}"
    | _ => "bad-op"

/-- `lzma.expected exp=<n> parts=<…>` -/
def handleExpected (a : Args) : String :=
  match a.nat? "exp", a.nats? "parts" with
  | some exp, some parts =>
    match Split.expectedRun exp parts 0 0 with
    | .ok w => s!"ok {w}"
    | .errWrite i => s!"errwrite {i}"
    | .errFinish => "errfinish"
  | _, _ => "bad-op"

/-- `opts.validate kind=lzma|lzma2|xz dict= lc= lp= pb= nice= [fids=<ids> fprops=<props>] [preset=<len>]` -/
def handleOpts (a : Args) : String :=
  match a.get? "kind", a.nat? "dict", a.nat? "lc", a.nat? "lp", a.nat? "pb", a.nat? "nice" with
  | some kind, some dict, some lc, some lp, some pb, some nice =>
    let o : Options.LzOptions := { dict, lc, lp, pb, nice }
    let ok := match kind with
      | "lzma" => Options.validate o false
      | "lzma2" => Options.validate o true
      | _ => Options.xzValidate o (((a.nats? "fids").getD []).zip ((a.nats? "fprops").getD [])) ((a.nat? "preset").getD 0)
    if ok then "ok" else "err"
  | _, _, _, _, _, _ => "bad-op"

/-- `opts.lzmanew dict= lc= lp= pb= nice= header=<0|1> marker=<0|1> expected=<none|exact|more> preset=<none|len>` -/
def handleLzmaNew (a : Args) : String :=
  match a.nat? "dict", a.nat? "lc", a.nat? "lp", a.nat? "pb", a.nat? "nice", a.nat? "header", a.nat? "marker",
        a.get? "expected", a.get? "preset" with
  | some dict, some lc, some lp, some pb, some nice, some h, some m, some e, some p =>
    match Options.lzmaWriterNew { dict, lc, lp, pb, nice } (h != 0) (m != 0) (e != "none") (p != "none") with
    | .ok => "ok"
    | .invalid => "err"
    | .unsupported => "unsupported"
  | _, _, _, _, _, _, _, _, _ => "bad-op"

def showNats (l : List Nat) : String := if l.isEmpty then "-" else ",".intercalate (l.map toString)

/-- `split.xz|split.lzip|split.mt lim=<n> parts=<n,n,…>` -/
def handleSplit (cmd : String) (a : Args) : String :=
  match a.nat? "lim", a.nats? "parts" with
  | some lim, some parts =>
    if lim = 0 then "bad-op" else
    match cmd with
    | "split.xz" => "ok " ++ showNats (Split.xzBlocks lim parts)
    | "split.lzip" => "ok " ++ showNats (Split.lzipMembers lim parts)
    | "split.mt" => "ok " ++ showNats (Split.mtUnits lim parts)
    | _ => "bad-op"
  | _, _ => "bad-op"

/-- `bcj2.enc conv=<hex: one 0/1 decision per opcode, cycled> in=<hex>` → `ok <main> <call> <jump> <rc>`;
    `bcj2.dec main=<hex> call=<hex> jump=<hex> rc=<hex> size=<n>` → `ok <len> <fnv>` / `err <ErrorName>` -/
def handleBcj2 (cmd : String) (a : Args) : String :=
  match cmd with
  | "bcj2.enc" =>
    (match a.bytes? "conv", a.bytes? "in" with
     | some conv, some inp =>
       let ca := conv.toArray
       let f : Nat → Bool := fun k => if ca.size = 0 then false else ca.getD (k % ca.size) 0 != 0
       let s := Bcj2.encode f inp
       s!"ok {hex s.main} {hex s.call} {hex s.jump} {hex s.rc}"
     | _, _ => "bad-op")
  | "bcj2.dec" =>
    (match a.bytes? "main", a.bytes? "call", a.bytes? "jump", a.bytes? "rc", a.nat? "size" with
     | some m, some c, some j, some r, some n =>
       (match Bcj2.decode m c j r n with
        | .ok out => s!"ok {out.length} {fnv out}"
        | .error e => s!"err {e.name}")
     | _, _, _, _, _ => "bad-op")
  | _ => "bad-op"

/-- the lengths of the `write` calls: `parts` repeated cyclically (the last call cut) until `total` bytes
    are written; if `parts` has no positive entry everything goes into one call -/
def expandParts (parts : List Nat) (total : Nat) : List Nat :=
  if parts.all (· == 0) then [total] else
  let rec go (fuel : Nat) (cur : List Nat) (left : Nat) (acc : List Nat) : List Nat :=
    match fuel with
    | 0 => acc.reverse
    | fuel + 1 =>
      if left = 0 then acc.reverse else
      match cur with
      | [] => go fuel parts left acc
      | p :: ps => go fuel ps (left - min p left) (min p left :: acc)
  go (2 * total + 2 * parts.length + 2) parts total []

open EncWindow in
/-- `encwin.trace dict=<n> mode=<fast|normal> lzma2=<0|1> parts=<n,n,…> total=<n> [nice=<n>] [mf=<hc4|bt4>] [policy=<k>]`
    → `ok <number of move_pos steps> <fnv32 of the sequence of (position, look-ahead length, look-back length)>`.

    Runs the window model (`Model/EncWindow.lean`, positions only: the data are the bytes 0..255 cyclic and
    are not looked at) for the parameters `LZMAEncoder::new` would build: the input of `total` bytes is written
    with `write` calls of the lengths `parts`, repeated cyclically (`parts=1` = byte by byte, `parts=-` = one
    call; zero lengths are empty `write` calls), then `finish`.  Defaults: `nice=64`, `mf=hc4` for fast and
    `bt4` for normal, `policy=0`.  `policy` selects the deterministic stand-in for the search
    (`policyOracle`): 0 = one `move_pos` and one literal per symbol – then step `i` is position `i` with
    look-ahead `min(total - i, EXTRA_SIZE_AFTER + MATCH_LEN_MAX)` and look-back `min(i, dict)`; `k > 0` = symbols
    of several bytes with read-ahead and (LZMA2) chunk ends.  By `view_independence` the answer does not depend
    on `parts`; a hook in the real encoder that logs, at every `LZEncoderData::move_pos`, the absolute position,
    `min(get_avail(), keep_size_after - (pos - symbol start))` and `min(pos, dict_size)` must reproduce the
    hash for the decisions the real search took. -/
def handleEncWin (a : Args) : String :=
  match a.nat? "dict", a.get? "mode", a.nat? "lzma2", a.nats? "parts", a.nat? "total" with
  | some dict, some modeS, some l2, some parts, some total =>
    let mode? : Option Mode := match modeS with | "fast" => some .fast | "normal" => some .normal | _ => none
    match mode? with
    | none => "bad-op"
    | some mode =>
      let mf : MF := match a.get? "mf" with
        | some "hc4" => .hc4
        | some "bt4" => .bt4
        | _ => (match mode with | .fast => .hc4 | .normal => .bt4)
      let nice := (a.nat? "nice").getD 64
      let policy := (a.nat? "policy").getD 0
      let P := mkParams dict nice mode mf (l2 != 0)
      let st := run noBuf P (policyOracle policy) (cyclicParts 0 (expandParts parts total))
      if st.stuck then "err stuck" else
      let tr := st.trace.reverse
      s!"ok {tr.length} {traceHash dict tr}"
  | _, _, _, _, _ => "bad-op"

open EncWindow in
/-- `encwin.script dict=<n> eb=<extra_size_before> ea=<extra_size_after> nice=<n> mlmax=<n> bt4=<0|1> ops=<op:n,op:n,…> [pinned=1]`
    → `ok <number of operations> <fnv32 of the logged (read_pos, read_limit, write_pos, pending_size)> low=<0|1>`.

    The model of the Rust hook `verif_hooks::lz_window_script`: the window model (`Model/EncWindow.lean`, positions
    only) is driven by the script - `0:n` one `fill_window` call offering `n` bytes, `1:_` `set_flushing`, `2:_`
    `set_finishing`, `3:n` at most `n` times `if has_enough_data(0) { skip(1) }` - and the four positions are logged
    after every operation, exactly as the hook logs them from the real `LZEncoder`.  `low=1` says the match finder was
    (re-)run at a position with less than `min(keep_size_before - 1, position)` bytes of history in the buffer (never,
    by `flush_runs_keep_history`); `pinned=1` runs the `move_window` statement as it was before the repair. -/
def handleEncWinScript (a : Args) : String :=
  let ops : Option (List (Nat × Nat)) :=
    (a.get? "ops").bind fun s =>
      if s == "-" then some [] else
      (s.splitOn ",").mapM fun t =>
        match (t.splitOn ":").mapM String.toNat? with
        | some [op, x] => some (op, x)
        | _ => none
  match a.nat? "dict", a.nat? "eb", a.nat? "ea", a.nat? "nice", a.nat? "mlmax", a.nat? "bt4", ops with
  | some dict, some eb, some ea, some nice, some mlmax, some bt4, some ops =>
    let P : Params :=
      { dictSize := dict, extraBefore := eb, extraAfter := ea, matchLenMax := mlmax, niceLen := nice
        reqFlush := if bt4 != 0 then nice else 4
        reqFinish := 4, maxAhead := 0, lzma2 := false, pinnedMove := a.nat? "pinned" == some 1 }
    let r := scriptRun P ops
    s!"ok {ops.length} {r.2} low={if r.1.low then 1 else 0}"
  | _, _, _, _, _, _, _ => "bad-op"

/-- `lzdec.run dict=<n> preset=<hex|-|empty> ops=<op:a:b,op:a:b,…|->`: the model of the Rust hook
    `verif_hooks::lz_decoder_script(dict, preset, script)`; `preset=-` is `None`, `preset=empty` is `Some(&[])`;
    every op is a triple of decimal numbers `op:a:b` (0 set_limit a, 1 put_byte a, 2 repeat a b, 3 repeat_pending,
    4 flush, other reset).  Answer: `ok <len> <fnv>` or `err <message>` (`dist overflow`, or `panic: …` where the
    Rust code would panic) -/
def handleLzDec (a : Args) : String :=
  let preset : Option (Option (List Nat)) :=
    match a.get? "preset" with
    | some "-" => some none
    | some "empty" => some (some [])
    | some h => (unhex h).map some
    | none => none
  let ops : Option (List (Nat × Nat × Nat)) :=
    (a.get? "ops").bind fun s =>
      if s == "-" then some [] else
      (s.splitOn ",").mapM fun t =>
        match (t.splitOn ":").mapM String.toNat? with
        | some [op, x, y] => some (op, x, y)
        | _ => none
  match a.nat? "dict", preset, ops with
  | some dict, some preset, some ops =>
    (match LzDecoder.runScript dict preset ops with
     | .ok out => s!"ok {out.length} {fnv out}"
     | .error e =>
       -- `class=1`: only say whether the Rust code would panic (message texts of panics are not compared)
       if a.nat? "class" == some 1 && e.startsWith "panic" then "panic" else s!"err {e}")
  | _, _, _ => "bad-op"

/-- `twin.extend buf=<hex> rp=<n> cl=<n> dist=<n> limit=<n>`: `lz::extend_match` as modelled in `Model/Twins.lean`
    with the constants regenerated from the source (`TwinGen.params`): the optimized twin's result; `mismatch` if the
    portable twin (when it does not panic) says something else.
    `twin.norm off=<u32> vals=<u32,...>`: `LZEncoder::normalize` (i32 values passed as their u32 bit patterns).
    `twin.reject buf=<hex> [zeros=<n>] rp=<n> dist=<n> limit=<n> [twin=portable] [lim=1]`:
    `LZEncoderData::get_match_len_fast_reject(dist, limit)` on the window `0^zeros ++ buf` with `read_pos = rp`:
    `ok <len>` of the optimized twin (`mismatch` if the portable twin does not panic and says something else), with
    `lim=1` followed by `buf_limit_u16`; `twin=portable`: `ok <len>` / `panic` of the portable twin.
    `twin.direct buf=<hex> pos=<n> range=<u32> code=<u32> count=<n> [twin=portable]`: `decode_direct_bits(count)` from
    the explicit state: `ok <result> <range> <code> <pos>` of the default build's dispatch (assembly model when the
    guard admits it; `mismatch` if the portable loop differs although `2^16 ≤ range`), `twin=portable`: the portable
    loop. -/
def handleTwin (cmd : String) (a : Args) : String :=
  match cmd with
  | "twin.reject" =>
    (match a.bytes? "buf", a.nat? "rp", a.nat? "dist", a.nat? "limit" with
     | some tail, some rp, some dist, some limit =>
       let buf := List.replicate ((a.nat? "zeros").getD 0) 0 ++ tail
       let q := Twins.matchLenFastRejectPortable TwinGen.params buf rp dist limit
       if a.get? "twin" == some "portable" then
         (match q with | some v => s!"ok {v}" | none => "panic")
       else
         let o := (Twins.matchLenFastRejectOptT TwinGen.params buf rp dist limit).1
         let sfx := if a.nat? "lim" == some 1 then s!" {Twins.bufLimitU16 TwinGen.params buf.length}" else ""
         (match q with
          | some v => if v == o then s!"ok {o}{sfx}" else s!"mismatch {o} {v}"
          | none => s!"ok {o}{sfx}")
     | _, _, _, _ => "bad-op")
  | "twin.direct" =>
    (match a.bytes? "buf", a.nat? "pos", a.nat? "range", a.nat? "code", a.nat? "count" with
     | some buf, some pos, some range, some code, some count =>
       let s0 : Twins.DState := ⟨range, code, pos, 0⟩
       let fmt (t : Twins.DState) : String := s!"{t.result} {t.range} {t.code} {t.pos}"
       let q := Twins.directPortable TwinGen.params buf (Twins.directFuel count) count s0
       if a.get? "twin" == some "portable" then s!"ok {fmt q}"
       else
         let o := Twins.directBitsOpt TwinGen.params buf count s0
         if 65536 ≤ range && range < 4294967296 && code < 4294967296 && o != q then s!"mismatch {fmt o} / {fmt q}"
         else s!"ok {fmt o}"
     | _, _, _, _, _ => "bad-op")
  | "twin.extend" =>
    (match a.bytes? "buf", a.nat? "rp", a.nat? "cl", a.nat? "dist", a.nat? "limit" with
     | some buf, some rp, some cl, some dist, some limit =>
       let o := (Twins.extendMatchOptT TwinGen.params buf rp cl dist limit).1
       (match Twins.extendMatchPortable TwinGen.params buf rp cl dist limit with
        | some q => if q == o then s!"ok {o}" else s!"mismatch {o} {q}"
        | none => s!"ok {o}")
     | _, _, _, _, _ => "bad-op")
  | _ =>
    (match a.nat? "off", a.nats? "vals" with
     | some off, some vals =>
       let toI (n : Nat) : Int := if n < 2147483648 then (n : Int) else (n : Int) - 4294967296
       let toU (i : Int) : Nat := (if i < 0 then i + 4294967296 else i).toNat
       let scalar := Twins.normalizeScalar (toI off) (vals.map toI)
       let simd8 := Twins.normalizeSimd (toI off) 8 0 (vals.map toI)
       let simd4 := Twins.normalizeSimd (toI off) 4 3 (vals.map toI)
       if scalar != simd8 || scalar != simd4 then "mismatch" else
       if scalar.isEmpty then "ok" else s!"ok {",".intercalate (scalar.map fun i => toString (toU i))}"
     | _, _ => "bad-op")

def handle (cmd : String) (a : Args) : String :=
  match cmd with
  | "mt.trace" => handleMtTrace a
  | "mt.wtrace" => handleMtWTrace a
  | "twin.extend" | "twin.norm" | "twin.reject" | "twin.direct" => handleTwin cmd a
  | "encfast.parse" | "lzma.parse" => handleEncFast cmd a
  | "lzipw.fast" | "lzmaw.fast" => handleWriters cmd a
  | "lzma2w.fast" => handleLzma2W a
  | "encnormal.parse" => handleEncNormalParse a
  | "mf.trace" => if a.get? "kind" == some "bt4" then handleMfBt4 a else handleMfTraceHc4 a
  | "lzdec.run" => handleLzDec a
  | "encwin.trace" => handleEncWin a
  | "encwin.script" => handleEncWinScript a
  | "bcj2.enc" | "bcj2.dec" => handleBcj2 cmd a
  | "split.xz" | "split.lzip" | "split.mt" => handleSplit cmd a
  | "lzma.expected" => handleExpected a
  | "opts.validate" => handleOpts a
  | "opts.lzmanew" => handleLzmaNew a
  | "bcj.wstream" | "bcj.rstream" => handleBcjStream cmd a
  | "mem.enc" | "mem.lzmadec" | "mem.lzma2dec" => handleMem cmd a
  | "xz.dec" | "xz.strict" | "lzip.dec" => handleContainer cmd a
  | "lzip.scan" => match a.bytes? "in" with
      -- `LZIPReaderMT::new` = `scan_members`: number of members found, or the error class
      | some inp => (match Guards.scanFile inp with
          | .ok ms => s!"ok {ms.length}"
          | .error .eof => "err UnexpectedEof"
          -- 1..19 bytes in front of the first member: `error_invalid_data("Data in front of the first LZIP member")`
          | .error .leading => "err InvalidData"
          | .error _ => "err InvalidData")
      | none => "bad-op"
  | "bcj.code" | "bcj.step" | "delta.enc" | "delta.dec" => handleFilter cmd a
  | "lzma2.dec" => handleLzma2Dec a
  | "lzma.dec" => handleLzmaDec a
  | "lzip.encdict" => match a.nat? "d" with
      | some d => optNat (Lzip.encodeDict d)
      | none => "bad-op"
  | "lzip.decdict" => match a.nat? "b" with
      | some b => optNat (Lzip.decodeDict b)
      | none => "bad-op"
  | "xz.mbenc" => match a.nat? "v" with
      | some v => (match XzInt.encode v with
          | some bs => s!"ok {hex bs} {XzInt.sizeFor v}"
          | none => "err")
      | none => "bad-op"
  | "xz.mbparse" => match a.bytes? "in" with
      | some bs => showPRes (XzInt.parseReader bs)
      | none => "bad-op"
  | "xz.mbslice" => match a.bytes? "in" with
      | some bs => showPRes (XzInt.parseSlice bs)
      | none => "bad-op"
  | "xz.dictprop" => match a.nat? "d" with
      | some d => optNat (XzInt.propOfDict d)
      | none => "bad-op"
  | "xz.propdict" => match a.nat? "p" with
      | some p => optNat (XzInt.dictOfProp p)
      | none => "bad-op"
  | _ => "bad-op"

end Driver
