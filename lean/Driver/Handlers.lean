import Driver.Proto
import LzmaVerif.Model.Lzip
import LzmaVerif.Model.XzInt
/-! Request handlers: each maps a parsed request to the canonical answer line. -/
namespace Driver
open LzmaVerif

def optNat : Option Nat → String
  | some n => s!"ok {n}"
  | none => "err"

def showPRes : XzInt.PRes → String
  | .ok v n => s!"ok {v} {n}"
  | .tooLarge => "err toolarge"
  | .incomplete => "err incomplete"
  | .tooLong => "err toolong"

def handle (cmd : String) (a : Args) : String :=
  match cmd with
  | "lzip.encdict" => match a.nat? "d" with
      | some d => optNat (Lzip.encodeDict d)
      | none => "bad-op"
  | "lzip.decdict" => match a.nat? "b" with
      | some b => optNat (Lzip.decodeDict b)
      | none => "bad-op"
  | "xz.mbenc" => match a.nat? "v" with
      | some v => (match XzInt.encode v with
          | some bs => s!"ok {hex bs} {XzInt.sizeFor v}"
          | none => "err")
      | none => "bad-op"
  | "xz.mbparse" => match a.bytes? "in" with
      | some bs => showPRes (XzInt.parseReader bs)
      | none => "bad-op"
  | "xz.mbslice" => match a.bytes? "in" with
      | some bs => showPRes (XzInt.parseSlice bs)
      | none => "bad-op"
  | "xz.dictprop" => match a.nat? "d" with
      | some d => optNat (XzInt.propOfDict d)
      | none => "bad-op"
  | "xz.propdict" => match a.nat? "p" with
      | some p => optNat (XzInt.dictOfProp p)
      | none => "bad-op"
  | _ => "bad-op"

end Driver
