import Driver.Proto
import LzmaVerif.Model.MTTrace
import LzmaVerif.Model.MTTraceW
/-!
`mt.trace units=<o|f|p per unit, - = none> srcok=<0|1> fused=<0|1> maxw=<n> initw=<n> ev=<tok,tok,…>`
replays a protocol event log of a real execution through the LTS of `Model/MT.lean`
(`LzmaVerif.MT.Trace.replay`).  Answer `ok events=<n>` or `mismatch at=<k> event=<tok> <why>; model: <state>`.

Event tokens (written by `mt_ev!` in the crate, cfg `hasenbanck_lzma_rust2_verif`):
`call` `drop` `rt:d:<seq>` `rt:n` `rt:e` – caller; `ct:m` `ct:h:<seq>` `ce:<0|1>` `cs:<r|df|dr|f|e>`
`cy:<e|r:<seq>|w|d>` `cq:<1 = len < 4|0>` `cp:<seq>` `ca:<active>` `cw:<active>:<len>` `cn` (spawning) `cx:<m|e|x>`
`cr:<r:<seq>|w|d>` – coordinator; `w<i>:<b|s:<0|1>|p:<seq>|c|w|k|a|o:<seq>|f:<seq>|t:<seq>:<0|1>|d|e|m|x>` – worker `i`.
-/
namespace Driver
open LzmaVerif.MT LzmaVerif.MT.Trace

def parseOutcomes (s : String) : Option (List Outcome) :=
  if s == "-" then some [] else
  s.toList.mapM fun c =>
    if c == 'o' then some Outcome.ok else if c == 'f' then some Outcome.fail
    else if c == 'p' then some Outcome.panic else none

def parseBool (s : String) : Option Bool :=
  if s == "1" then some true else if s == "0" then some false else none

def parseRecv : List String → Option RecvObs
  | ["e"] => some .empty
  | ["r", q] => q.toNat?.map .result
  | ["w"] => some .wake
  | ["d"] => some .disc
  | _ => none

def parseWEv : List String → Option WEv
  | ["b"] => some .start
  | ["s", b] => (parseBool b).map .sd
  | ["p", q] => q.toNat?.map .pop
  | ["c"] => some .closed
  | ["w"] => some .wait
  | ["k"] => some .woke
  | ["a"] => some .inc
  | ["o", q] => q.toNat?.map .ok
  | ["f", q] => q.toNat?.map .fail
  | ["t", q, b] => match q.toNat?, parseBool b with
    | some q, some b => some (.sent q b)
    | _, _ => none
  | ["d"] => some .dec
  | ["e"] => some .setErr
  | ["m"] => some .sentWake
  | ["x"] => some .exit
  | _ => none

def parseEv (t : String) : Option Ev :=
  match t.splitOn ":" with
  | ["call"] => some .call
  | ["drop"] => some .drop
  | ["rt", "d", q] => q.toNat?.map fun q => .ret (.data q)
  | ["rt", "n"] => some (.ret .done)
  | ["rt", "e"] => some (.ret .err)
  | ["rt", "0"] => some (.c .nop)      -- writers: a non-blocking poll found nothing
  | ["ct", "m"] => some (.c (.top none))
  | ["ct", "h", q] => q.toNat?.map fun q => .c (.top (some q))
  | ["ce", b] => (parseBool b).map fun b => .c (.err b)
  | ["cs", "r"] => some (.c (.st .reading))
  | ["cs", "df"] => some (.c (.st .drainFin))
  | ["cs", "dr"] => some (.c (.st .drainRecv))
  | ["cs", "f"] => some (.c (.st .finished))
  | ["cs", "e"] => some (.c (.st .error))
  | "cy" :: r => (parseRecv r).map fun r => .c (.tryRecv r)
  | "cr" :: r => (parseRecv r).map fun r => .c (.recv r)
  | ["cq", b] => (parseBool b).map fun b => .c (.qlen b)
  | ["cp", q] => q.toNat?.map fun q => .c (.push q)
  | ["ca", a] => a.toNat?.map fun a => .c (.ldActive a)
  | ["cw", a, q] => match a.toNat?, q.toNat? with
    | some a, some q => some (.c (.spawn a q false))
    | _, _ => none
  | ["cn"] => some (.c .spawned)
  | ["cx", "m"] => some (.c (.src .more))
  | ["cx", "e"] => some (.c (.src .done))
  | ["cx", "x"] => some (.c (.src .err))
  | w :: rest =>
    if w.startsWith "w" then
      match (w.drop 1).toNat?, parseWEv rest with
      | some i, some e => some (.w i e)
      | _, _ => none
    else none
  | [] => none

def handleMtTrace (a : Args) : String :=
  match (a.get? "units").bind parseOutcomes, (a.get? "srcok").bind parseBool, (a.get? "fused").bind parseBool,
        a.nat? "maxw", a.nat? "initw", a.get? "ev" with
  | some units, some srcOk, some fused, some maxw, some initw, some ev =>
    let toks := if ev == "-" then [] else ev.splitOn ","
    match toks.mapM parseEv with
    | none => "bad-op"
    | some evs =>
      let cfg : Cfg := { units, srcOk, endFused := fused, maxWorkers := maxw, initialWorkers := initw }
      match replay cfg evs with
      | .ok v =>
        if a.nat? "stats" == some 1 then
          s!"ok events={evs.length} labels={v.path.rev.length} swaps={v.nSwap} phantom={v.nPhantom} dropwin={v.nDropWin} obs={v.nObs} early={v.nEarly} post={v.nPost} workers={v.perm.length}"
        else s!"ok events={evs.length}"
      | .error (k, why) => s!"mismatch at={k} event={toks.getD k "(end)"} {why}"
  | _, _, _, _, _, _ => "bad-op"

/-- `mt.wtrace units=<…> initw=<n> ev=<…>`: the open-system replay for the MT writers
(`LzmaVerif.MT.TraceW.replay`): workers against `MT.workerStep`, the coordinator's operations on the
shared objects as environment actions. -/
def handleMtWTrace (a : Args) : String :=
  match (a.get? "units").bind parseOutcomes, a.nat? "initw", a.get? "ev" with
  | some units, some initw, some ev =>
    let toks := if ev == "-" then [] else ev.splitOn ","
    match toks.mapM parseEv with
    | none => "bad-op"
    | some evs =>
      let cfg : Cfg := { units, srcOk := true, maxWorkers := 256, initialWorkers := initw }
      match TraceW.replay cfg evs with
      | .ok v =>
        if a.nat? "stats" == some 1 then
          s!"ok events={evs.length} labels={v.path.rev.length} swaps={v.nSwap} phantom={v.nPhantom} dropwin={v.nDropWin} pushbusy={v.nPushBusy} workers={v.perm.length}"
        else s!"ok events={evs.length}"
      | .error (k, why) => s!"mismatch at={k} event={toks.getD k "(end)"} {why}"
  | _, _, _ => "bad-op"

end Driver
