import Driver.Proto
import LzmaVerif.Model.LzipWriter
import LzmaVerif.Generated.MfParams
/-!
`lzipw.fast kind=<hc4|bt4> dict=<n> nice=<n> depth=<n> member=<n or -> data=<hex or -> [full=1]`
   runs `LzipWriter.lzipFastBytes` (model of `LZIPWriter` in fast mode over the match-finder / fast-parser /
   range-coder models, with the constants regenerated from source) and answers `ok <number of bytes> <fnv>`
   (`full=1`: plus the bytes in hex) - the bytes the real `LZIPWriter` must produce - or `err` when the model
   says the writer refuses the options.
`lzmaw.fast kind=<hc4|bt4> dict=<n> lc=<n> lp=<n> pb=<n> nice=<n> depth=<n> header=<0|1> marker=<0|1>
            expected=<n or -> data=<hex or -> [full=1]`
   likewise for `LZMAWriter::new(out, opts, use_header, use_end_marker, expected)` (`header=0`: `expected` must be `-`).
-/
namespace Driver
open LzmaVerif LzmaVerif.LzmaWriter LzmaVerif.LzipWriter

def genConsts : MfConsts := { hc4 := MfGen.hc4Params, bt4 := MfGen.bt4Params, fast := MfGen.fastParams }

def showBytes (a : Args) (r : Option (List Nat)) : String :=
  match r with
  | none => "err"
  | some bytes =>
    let base := s!"ok {bytes.length} {fnv bytes}"
    if a.nat? "full" == some 1 then base ++ " " ++ hex bytes else base

/-- `n` or `-` -/
def Args.optNat? (a : Args) (k : String) : Option (Option Nat) :=
  (a.get? k).bind fun s => if s == "-" then some none else (String.toNat? s).map some

def handleLzipwFast (a : Args) : String :=
  match a.get? "kind", a.nat? "dict", a.nat? "nice", a.nat? "depth", a.optNat? "member", a.bytes? "data" with
  | some kind, some dict, some nice, some depth, some member, some data =>
    if kind != "hc4" && kind != "bt4" then "bad-op" else
    let d : Array UInt8 := (data.map fun b => UInt8.ofNat b).toArray
    let o : LzipOpts := { dict, nice, depth, memberSize := member, bt4 := kind == "bt4" }
    showBytes a (lzipFastBytes genConsts o d)
  | _, _, _, _, _, _ => "bad-args"

def handleLzmawFast (a : Args) : String :=
  match a.get? "kind", a.nat? "dict", a.nat? "nice", a.nat? "depth", a.bytes? "data" with
  | some kind, some dict, some nice, some depth, some data =>
    match a.nat? "lc", a.nat? "lp", a.nat? "pb", a.nat? "header", a.nat? "marker", a.optNat? "expected" with
    | some lc, some lp, some pb, some header, some marker, some expected =>
      if kind != "hc4" && kind != "bt4" then "bad-op" else
      let d : Array UInt8 := (data.map fun b => UInt8.ofNat b).toArray
      let o : FastOpts := { dict, lc, lp, pb, nice, depth, bt4 := kind == "bt4" }
      if header == 1 then showBytes a (lzmaAloneFastBytes genConsts o (marker == 1) expected d)
      else if expected.isSome then "bad-args"
      else showBytes a (lzmaRawFastBytes genConsts o (marker == 1) d)
    | _, _, _, _, _, _ => "bad-args"
  | _, _, _, _, _ => "bad-args"

def handleWriters (cmd : String) (a : Args) : String :=
  if cmd == "lzipw.fast" then handleLzipwFast a
  else if cmd == "lzmaw.fast" then handleLzmawFast a
  else "bad-op"

end Driver
