/-! Line protocol helpers for `lzdriver` (core Lean only). -/
namespace Driver

def hexVal (c : Char) : Option Nat :=
  if '0' ≤ c ∧ c ≤ '9' then some (c.toNat - '0'.toNat)
  else if 'a' ≤ c ∧ c ≤ 'f' then some (c.toNat - 'a'.toNat + 10)
  else if 'A' ≤ c ∧ c ≤ 'F' then some (c.toNat - 'A'.toNat + 10)
  else none

/-- decode a hex string into a byte list (each byte a `Nat < 256`); `-` is the empty string -/
def unhex (s : String) : Option (List Nat) :=
  if s == "-" then some [] else
  let rec go : List Char → List Nat → Option (List Nat)
    | [], acc => some acc.reverse
    | [_], _ => none
    | a :: b :: rest, acc =>
      match hexVal a, hexVal b with
      | some x, some y => go rest ((x * 16 + y) :: acc)
      | _, _ => none
  go s.toList []

def hexDigit (n : Nat) : Char :=
  if n < 10 then Char.ofNat ('0'.toNat + n) else Char.ofNat ('a'.toNat + n - 10)

def hex (bs : List Nat) : String :=
  if bs.isEmpty then "-" else
  String.ofList (bs.foldr (fun b acc => hexDigit (b / 16 % 16) :: hexDigit (b % 16) :: acc) [])

def hexArr (bs : Array Nat) : String := hex bs.toList

/-- FNV-1a 64-bit over a byte list, for compact comparison of large outputs -/
def fnv (bs : List Nat) : Nat :=
  bs.foldl (fun h b => ((h ^^^ b) * 0x100000001b3) % 2^64) 0xcbf29ce484222325

def fnvArr (bs : Array Nat) : Nat :=
  bs.foldl (fun h b => ((h ^^^ b) * 0x100000001b3) % 2^64) 0xcbf29ce484222325

abbrev Args := List (String × String)

def parseLine (line : String) : String × Args :=
  match line.trimAscii.toString.splitOn " " with
  | [] => ("", [])
  | cmd :: rest =>
    (cmd, rest.filterMap fun kv =>
      match kv.splitOn "=" with
      | [k, v] => some (k, v)
      | _ => none)

def Args.get? (a : Args) (k : String) : Option String := (a.find? (·.1 == k)).map (·.2)
def Args.nat? (a : Args) (k : String) : Option Nat := (a.get? k).bind String.toNat?
def Args.bytes? (a : Args) (k : String) : Option (List Nat) := (a.get? k).bind unhex
/-- comma separated naturals, `-` = empty -/
def Args.nats? (a : Args) (k : String) : Option (List Nat) :=
  (a.get? k).bind fun s =>
    if s == "-" then some [] else (s.splitOn ",").mapM String.toNat?

end Driver
