import Driver.Proto
import Driver.Handlers
/-! `lzdriver`: reads one request per line on stdin, answers one line on stdout. -/
open Driver

partial def loop (h : IO.FS.Stream) (out : IO.FS.Stream) : IO Unit := do
  let line ← h.getLine
  if line.isEmpty then return ()
  let (cmd, args) := parseLine line
  if cmd != "" then
    out.putStrLn (handle cmd args)
  loop h out

def main : IO Unit := do
  let out ← IO.getStdout
  loop (← IO.getStdin) out
  out.flush
