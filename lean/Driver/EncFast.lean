import Driver.Proto
import LzmaVerif.Model.EncFast
import LzmaVerif.Generated.MfParams
/-!
`encfast.parse kind=<hc4|bt4> dict=<n> lc=<n> lp=<n> pb=<n> nice=<n> depth=<n> data=<hex or -> [full=1]`
   runs the model of the fast encoder (`LzmaVerif/Model/EncFast.lean`) and answers
   `ok <number of symbols> <fnv of the rendered parse> [<rendered parse>]`.
   With `enc=1` the parse is also encoded by the model range encoder (`Lzma.encodeParse`) and the answer gets
   the extra fields `<number of bytes> <fnv of the bytes>` (before the rendering): the bytes the real
   `LZMAWriter::new_no_header(.., use_end_marker = false)` must produce.
`lzma.parse lc=<n> lp=<n> pb=<n> dict=<n> size=<n> in=<hex> [full=1]`
   decodes a raw LZMA1 stream of declared size with the decoder model and renders the RECOVERED parse in the
   same format: `ok <number of symbols> <fnv> [<rendered parse>]`.
-/
namespace Driver
open LzmaVerif LzmaVerif.Mf LzmaVerif.Lzma

def strFnv (s : String) : Nat := fnv (s.toUTF8.toList.map (·.toNat))

def encFastParse (kind : String) (dict nice depth : Nat) (d : Array UInt8) : Option (List Sym) :=
  if kind == "hc4" then some (EncFast.fastParseHc4 MfGen.hc4Params MfGen.fastParams dict nice depth d)
  else if kind == "bt4" then some (EncFast.fastParseBt4 MfGen.bt4Params MfGen.fastParams dict nice depth d)
  else none

def handleEncFastParse (a : Args) : String :=
  match a.get? "kind", a.nat? "dict", a.nat? "nice", a.nat? "depth", a.bytes? "data" with
  | some kind, some dict, some nice, some depth, some data =>
    if dict = 0 then "bad-args" else
    let d : Array UInt8 := (data.map fun b => UInt8.ofNat b).toArray
    match encFastParse kind dict nice depth d with
    | none => "bad-op"
    | some parse =>
      let s := EncFast.showParse parse
      let base := s!"ok {parse.length} {strFnv s}"
      let base :=
        if a.nat? "enc" == some 1 then
          match a.nat? "lc", a.nat? "lp", a.nat? "pb" with
          | some lc, some lp, some pb =>
            let n := d.size
            let dictBuf := lzmaReaderDictBuf dict (some n) 0
            (match encodeParse { lc, lp, pb } dictBuf #[] (some n) (n + 1) parse with
             | some bytes => if a.nat? "bytesonly" == some 1 then s!"ok {bytes.length} {fnv bytes}" else base ++ s!" {bytes.length} {fnv bytes}"
             | none => base ++ " enc-failed")
          | _, _, _ => base ++ " bad-args"
        else base
      if a.nat? "full" == some 1 then base ++ " " ++ s else base
  | _, _, _, _, _ => "bad-args"

def handleLzmaParse (a : Args) : String :=
  match a.nat? "lc", a.nat? "lp", a.nat? "pb", a.nat? "dict", a.nat? "size", a.bytes? "in" with
  | some lc, some lp, some pb, some dict, some size, some inp =>
    let dictBuf := lzmaReaderDictBuf dict (some size) 0
    match decodeRaw { lc, lp, pb } dictBuf #[] (some size) inp (size + 1) with
    | .ok _ _ parse =>
      let s := EncFast.showParse parse
      let base := s!"ok {parse.length} {strFnv s}"
      if a.nat? "full" == some 1 then base ++ " " ++ s else base
    | .err e => s!"err {e.name}"
    | .capped => "capped"
  | _, _, _, _, _, _ => "bad-args"

/-- both commands of this file -/
def handleEncFast (cmd : String) (a : Args) : String :=
  if cmd == "encfast.parse" then handleEncFastParse a
  else if cmd == "lzma.parse" then handleLzmaParse a
  else "bad-op"

end Driver
