import Driver.Proto
import LzmaVerif.Model.Bt4
import LzmaVerif.Generated.MfParams
/-! `mf.trace kind=bt4 ...`: runs the BT4 model (`LzmaVerif/Model/Bt4.lean`) on a script and answers with
    the digest of the trace, so that it can be compared with the real code (`verif_hooks::mf_trace`). -/
namespace Driver
open LzmaVerif LzmaVerif.Mf

/-- ASCII trace entry of one find: `"<pos>:" ++ matches "<len>/<dist>" joined by "," ++ ";"` -/
def mfTraceEntry (e : Nat × List Mf.Match) : String :=
  toString e.1 ++ ":" ++ ",".intercalate (e.2.map fun m => toString m.1 ++ "/" ++ toString m.2) ++ ";"

def fnvStep (h b : Nat) : Nat := ((h ^^^ b) * 0x100000001b3) % 2^64

/-- `Driver.fnv` of the concatenated trace string, computed entry by entry -/
def mfTraceFnv (tr : List (Nat × List Mf.Match)) : Nat :=
  tr.foldl (fun h e => (mfTraceEntry e).toUTF8.foldl (fun h b => fnvStep h b.toNat) h) 0xcbf29ce484222325

/-- every reported match is a real match (`Mf.validMatchB`) and lengths strictly increase -/
def mfTraceValid (data : Array UInt8) (dict mlmax : Nat) (tr : List (Nat × List Mf.Match)) : Bool :=
  tr.all fun e =>
    Mf.lensIncreasing e.2 &&
    e.2.all fun m => Mf.validMatchB data dict e.1 (min mlmax (data.size - e.1)) m

/-- `mf.trace kind=bt4 dict= nice= depth= mlmax= data=<hex|-> script=<n,n,..|-> [check=1] [full=1]` -/
def handleMfBt4 (a : Args) : String :=
  match a.get? "kind" with
  | some "bt4" =>
    match a.nat? "dict", a.nat? "nice", a.nat? "depth", a.nat? "mlmax", a.bytes? "data", a.nats? "script" with
    | some dict, some nice, some depth, some mlmax, some data, some script =>
      let dataA : Array UInt8 := (data.map fun b => UInt8.ofNat b).toArray
      let c : Bt4.Cfg := { dict := dict, niceLen := nice, mlmax := mlmax, depth := depth }
      -- `lzstart=<n>`: the renormalising model (`Model/Bt4Renorm.lean`) started at `lz_pos = n`
      let (_, tr) := match a.nat? "lzstart" with
        | some lz => Bt4.runScriptN MfGen.bt4Norm MfGen.bt4Params c dataA lz script
        | none => Bt4.runScript MfGen.bt4Params c dataA script
      let nm := tr.foldl (fun n e => n + e.2.length) 0
      let base := s!"ok {tr.length} {nm} {mfTraceFnv tr}"
      let base := if a.nat? "check" == some 1 then
          base ++ (if mfTraceValid dataA dict mlmax tr then " 1" else " 0") else base
      if a.nat? "full" == some 1 then base ++ " " ++ String.join (tr.map mfTraceEntry) else base
    | _, _, _, _, _, _ => "bad-args"
  | _ => "bad-op"

end Driver
