import Driver.EncFast
import LzmaVerif.Model.EncNormal
/-!
`encnormal.parse kind=<hc4|bt4> dict=<n> lc=<n> lp=<n> pb=<n> nice=<n> depth=<n> data=<hex or -> [enc=1] [bytesonly=1] [full=1]`
   runs the model of the NORMAL (optimal-parsing) encoder (`LzmaVerif/Model/EncNormal.lean`, prices in
   `Model/EncPrices.lean`) and answers `ok <number of symbols> <fnv of the rendered parse> [<rendered parse>]`.
   With `enc=1` the parse is also encoded by the model range encoder (`Lzma.encodeParse`) and the answer gets the
   extra fields `<number of bytes> <fnv of the bytes>`; with `bytesonly=1` the answer is `ok <number of bytes> <fnv>`:
   the bytes the real `LZMAWriter::new_no_header(.., use_end_marker = false)` in `EncodeMode::Normal` must produce.
   EVERY request also runs `parseRun` on the model's parse (the hypothesis of the round-trip theorems): if the
   parse is not admissible or does not denote the data the answer is `model-parse-invalid` instead.
-/
namespace Driver
open LzmaVerif LzmaVerif.Mf LzmaVerif.Lzma

def encNormalParse (kind : String) (pr : Params) (dict nice depth : Nat) (d : Array UInt8) : Option (List Sym) :=
  if kind == "hc4" then some (EncNormal.normalParseHc4 MfGen.hc4Params EncNormal.genParams pr dict nice depth d)
  else if kind == "bt4" then some (EncNormal.normalParseBt4 MfGen.bt4Params EncNormal.genParams pr dict nice depth d)
  else none

def handleEncNormalParse (a : Args) : String :=
  match a.get? "kind", a.nat? "dict", a.nat? "nice", a.nat? "depth", a.bytes? "data", a.nat? "lc", a.nat? "lp", a.nat? "pb" with
  | some kind, some dict, some nice, some depth, some data, some lc, some lp, some pb =>
    if dict = 0 then "bad-args" else
    let d : Array UInt8 := (data.map fun b => UInt8.ofNat b).toArray
    let pr : Params := { lc, lp, pb }
    match encNormalParse kind pr dict nice depth d with
    | none => "bad-op"
    | some parse =>
      let n := d.size
      let dictBuf := lzmaReaderDictBuf dict (some n) 0
      -- the model's own validity, observed on every request
      let valid := match parseRun dictBuf parse Coder.init (#[] : Hist) with
        | some (_, h) => h == d.map (fun b => b.toNat)
        | none => false
      if !valid then "model-parse-invalid" else
      let s := EncFast.showParse parse
      let base := s!"ok {parse.length} {strFnv s}"
      let base :=
        if a.nat? "enc" == some 1 then
          (match encodeParse pr dictBuf #[] (some n) (n + 1) parse with
           | some bytes => if a.nat? "bytesonly" == some 1 then s!"ok {bytes.length} {fnv bytes}" else base ++ s!" {bytes.length} {fnv bytes}"
           | none => base ++ " enc-failed")
        else base
      if a.nat? "full" == some 1 then base ++ " " ++ s else base
  | _, _, _, _, _, _, _, _ => "bad-args"

end Driver
