import Driver.Proto
import LzmaVerif.Model.Lzma2Writer
import LzmaVerif.Generated.MfParams
/-!
`lzma2w.fast kind=<hc4|bt4> dict=<n> lc=<n> lp=<n> pb=<n> nice=<n> depth=<n> chunk=<n, 0 = none>
             preset=<hex or -> data=<hex or -> [rep=<n>] [tail=<hex>] [parts=<n,n,…>] [chunks=1] [check=1]`
   runs the model of the LZMA2 writer in fast mode (`LzmaVerif/Model/Lzma2Writer.lean`) on the input
   `data` repeated `rep` times (default 1) followed by `tail`, history `write(part) …; finish()` (default: one
   `write` call; the partition only matters with `chunk`), and answers
   `ok <number of bytes> <fnv of the bytes>` - the bytes the real `LZMA2Writer` must produce - or `err`
   (range-coder buffer overflow).  With `chunks=1` the answer is followed by the event list
   (`L<unc>/<comp>`, `S<len>`, `R`), with `check=1` by `check=<0|1>`: `checkChunks` accepts the model's chunk
   list and it denotes the input (the hypothesis of `lzma2_roundtrip`).
-/
namespace Driver
open LzmaVerif LzmaVerif.Mf LzmaVerif.Lzma LzmaVerif.Lzma2W

def toU8 (l : List Nat) : Array UInt8 := (l.map fun b => UInt8.ofNat b).toArray

def repeatList (l : List Nat) : Nat → List Nat → List Nat
  | 0, acc => acc
  | n + 1, acc => repeatList l n (l ++ acc)

def showEv : Ev → String
  | .lzma unc _ body => s!"L{unc}/{body.length}"
  | .stored raw => s!"S{raw.length}"
  | .restart => "R"

def handleLzma2W (a : Args) : String :=
  match a.get? "kind", a.nat? "dict", a.nat? "lc", a.nat? "lp", a.nat? "pb", a.nat? "nice", a.nat? "depth",
        a.nat? "chunk", a.bytes? "preset", a.bytes? "data" with
  | some kind, some dict, some lc, some lp, some pb, some nice, some depth, some chunk, some preset, some data =>
    let rep := (a.nat? "rep").getD 1
    let tail := (a.bytes? "tail").getD []
    let o : Opts := { dict, lc, lp, pb, nice, depth, chunkSize := if chunk = 0 then none else some chunk }
    if !o.admissible then "bad-opts" else
    let all := repeatList data rep tail
    let d := toU8 all
    let pre := toU8 preset
    -- `parts=<n,n,…>`: the sizes of the `write` calls (what is left over goes into a last call, as in the
    -- harness' `write_parts`); default: one call
    let parts := (a.nats? "parts").getD [d.size]
    let parts := parts ++ [d.size - parts.foldl (· + ·) 0]
    let evs :=
      if kind == "hc4" then fastEventsParts (mkHc4 MfGen.hc4Params MfGen.fastParams o) MfGen.fastParams o pre d parts
      else fastEventsParts (mkBt4 MfGen.bt4Params MfGen.fastParams o) MfGen.fastParams o pre d parts
    match evs with
    | none => "err"
    | some evs =>
      let f0 := Flags.init (!pre.isEmpty)
      let bytes := frame o.propsByte f0 evs
      let base := s!"ok {bytes.length} {fnv bytes}"
      let base :=
        if a.nat? "check" == some 1 then
          let chunks := toChunks o.propsByte f0 evs
          -- the hypotheses of `lzma2_fast_roundtrip_partial`: `checkChunks` accepts the framing of the events and
          -- it denotes the input; `encodeChunks` reproduces the model writer's bytes
          let w0 := Lzma2.initW dict preset.toArray o.propsByte
          let ok := (match Lzma2.checkChunks o.propsByte chunks w0 with
            | some den => den == all
            | none => false) && (Lzma2.encodeChunks o.propsByte chunks w0 [] == some bytes)
          base ++ s!" check={if ok then 1 else 0}"
        else base
      if a.nat? "chunks" == some 1 then base ++ " " ++ ",".intercalate (evs.map showEv) else base
  | _, _, _, _, _, _, _, _, _, _ => "bad-args"

end Driver
