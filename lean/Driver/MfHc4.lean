import Driver.Proto
import LzmaVerif.Model.Hc4
import LzmaVerif.Generated.MfParams
/-! `mf.trace kind=hc4 …`: runs the HC4 model on a script and answers with a digest of the trace. -/
namespace Driver
open LzmaVerif LzmaVerif.Mf

/-- `"<pos>:" ++ matches joined by "," (each "<len>/<dist>") ++ ";"` -/
def mfShowFind (f : Nat × List Mf.Match) : String :=
  toString f.1 ++ ":" ++ ",".intercalate (f.2.map fun m => toString m.1 ++ "/" ++ toString m.2) ++ ";"

def mfTraceString (tr : List (Nat × List Mf.Match)) : String :=
  String.join (tr.map mfShowFind)

/-- every reported match is valid and every list has increasing lengths -/
def mfTraceCheck (d : Array UInt8) (dict mlmax : Nat) (tr : List (Nat × List Mf.Match)) : Bool :=
  tr.all fun f =>
    f.2.all (fun m => Mf.validMatchB d dict f.1 (min mlmax (d.size - f.1)) m) && Mf.lensIncreasing f.2

def handleMfTraceHc4 (a : Args) : String :=
  match a.get? "kind", a.nat? "dict", a.nat? "nice", a.nat? "depth", a.nat? "mlmax",
        a.bytes? "data", a.nats? "script" with
  | some kind, some dict, some nice, some depth, some mlmax, some data, some script =>
    if kind != "hc4" then "bad-op" else
    if dict = 0 then "bad-args" else
    let d : Array UInt8 := (data.map fun b => UInt8.ofNat b).toArray
    let c : Hc4.Cfg := { dict := dict, niceLen := nice, mlmax := mlmax, depthLimit := depth }
    -- `lzstart=<n>`: the renormalising model (`Model/Hc4Renorm.lean`) started at `lz_pos = n`
    let tr := match a.nat? "lzstart" with
      | some lz => (Hc4.runScriptN MfGen.hc4Norm MfGen.hc4Params c d lz script).1
      | none => (Hc4.runScript MfGen.hc4Params c d script).1
    let s := mfTraceString tr
    let nm := tr.foldl (fun n f => n + f.2.length) 0
    let base := s!"ok {tr.length} {nm} {fnv (s.toUTF8.toList.map (·.toNat))}"
    let base := if a.nat? "check" == some 1 then
        base ++ (if mfTraceCheck d dict mlmax tr then " 1" else " 0") else base
    if a.nat? "full" == some 1 then base ++ " " ++ s else base
  | _, _, _, _, _, _, _ => "bad-args"

end Driver
