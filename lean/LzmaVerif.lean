import LzmaVerif.Model.Lzip
import LzmaVerif.Model.XzInt
import LzmaVerif.Generated.Consts
import LzmaVerif.Proofs.LzipDict
