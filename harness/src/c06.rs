//! C06: decoders are total on untrusted bytes: no panic, no hang, bounded allocation.
use crate::codec::*;
use crate::cont::{canon, model_req, valid_files};
use crate::mem::measure;
use crate::util::*;
use lzma_rust2::filter::bcj2::BCJ2Reader;
use lzma_rust2::filter::delta::DeltaReader;
use lzma_rust2::*;
use serde_json::json;
use std::time::Instant;

fn crc32(b: &[u8]) -> u32 {
    let mut c: u32 = 0xFFFF_FFFF;
    for &x in b {
        c ^= x as u32;
        for _ in 0..8 {
            c = if c & 1 != 0 { (c >> 1) ^ 0xEDB8_8320 } else { c >> 1 };
        }
    }
    !c
}

/// recompute the CRC-32 fields of a single-stream .xz file whose STRUCTURE is that of `orig`
/// (stream header, first block header, index, footer) so that a field mutation reaches deep parsing
pub fn xz_fix_crcs(orig: &[u8], m: &mut [u8]) {
    if orig.len() != m.len() || m.len() < 36 {
        return;
    }
    let n = m.len();
    let c = crc32(&m[6..8]);
    m[8..12].copy_from_slice(&c.to_le_bytes());
    let hs = (orig[12] as usize + 1) * 4;
    if orig[12] != 0 && 12 + hs <= n {
        let c = crc32(&m[12..12 + hs - 4]);
        m[12 + hs - 4..12 + hs].copy_from_slice(&c.to_le_bytes());
    }
    let backward = u32::from_le_bytes(orig[n - 8..n - 4].try_into().unwrap()) as usize;
    let ilen = (backward + 1) * 4;
    if ilen + 12 <= n {
        let is = n - 12 - ilen;
        let c = crc32(&m[is..n - 12 - 4]);
        m[n - 12 - 4..n - 12].copy_from_slice(&c.to_le_bytes());
    }
    let c = crc32(&m[n - 8..n - 2]);
    m[n - 12..n - 8].copy_from_slice(&c.to_le_bytes());
}

/// the largest dictionary size any LZMA2 filter-properties byte / LZIP header byte in the bytes could
/// declare (over-approximation of "the dictionary size the input declares": every `21 01 dd` triple)
fn xz_declared_dict(m: &[u8]) -> usize {
    let mut best = 4096usize;
    for w in m.windows(3) {
        if w[0] == 0x21 && w[1] == 0x01 && w[2] <= 40 {
            let d = if w[2] == 40 { u32::MAX as usize } else { (2 | (w[2] as usize & 1)) << (w[2] as usize / 2 + 11) };
            best = best.max(d);
        }
    }
    best
}

fn lzip_declared_dict(m: &[u8]) -> usize {
    let mut best = 4096usize;
    for i in 0..m.len().saturating_sub(5) {
        if &m[i..i + 4] == b"LZIP" {
            let b = m[i + 5];
            let e = (b & 0x1F) as u32;
            if (12..=29).contains(&e) {
                best = best.max(1usize << e);
            }
        }
    }
    best
}

fn mbint(mut v: u64) -> Vec<u8> {
    let mut o = vec![];
    while v >= 0x80 {
        o.push((v as u8) | 0x80);
        v >>= 7;
    }
    o.push(v as u8);
    o
}

struct Verdict {
    class: String,
    secs: f64,
    peak: usize,
}

fn run_case<T>(f: impl FnOnce() -> Outcome<T>) -> Verdict {
    let t = Instant::now();
    let (o, peak) = measure(f);
    Verdict { class: o.describe().chars().take(120).collect(), secs: t.elapsed().as_secs_f64(), peak }
}

fn judge(rep: &mut Report, what: &str, v: &Verdict, declared_dict: usize, input_len: usize, detail: serde_json::Value) {
    rep.count(&format!("{what}.{}", v.class.split(':').take(2).collect::<Vec<_>>().join(":")));
    if v.class.starts_with("panic") {
        rep.fail(&format!("decoder-panic:{what}"), &v.class, detail.clone());
    }
    if v.secs > 5.0 {
        rep.fail(&format!("decoder-slow:{what}"), &format!("{:.1} s for {} input bytes", v.secs, input_len), detail.clone());
    }
    // declared dictionary (rounded) + a multiple of the input + a constant for tables and buffers
    let allowance = declared_dict + 64 * input_len + (9 << 20) + 4 * (1 << 18);
    if v.peak > allowance {
        rep.fail(&format!("decoder-alloc:{what}"), &format!("peak heap {} bytes for {} input bytes and a declared dictionary of {} bytes", v.peak, input_len, declared_dict), detail);
    }
}

/// inputs that are long chains of tiny valid units: run in a child process (a stack overflow aborts)
pub const DEEP_KINDS: &[&str] = &["xz-empty-streams", "xz-tiny-streams", "xz-tiny-blocks", "lzip-empty-members", "lzip-empty-members-mt", "lzma2-tiny-chunks", "lzma2-tiny-chunks-mt", "xz-padding-run"];

pub fn deep_input(kind: &str, n: usize) -> Vec<u8> {
    use std::io::Write;
    let xz_one = |data: &[u8]| {
        let mut w = XZWriter::new(Vec::new(), XZOptions::with_preset(0)).unwrap();
        w.write_all(data).unwrap();
        w.finish().unwrap()
    };
    match kind {
        "xz-empty-streams" => xz_one(b"").repeat(n),
        "xz-tiny-streams" => xz_one(b"a").repeat(n),
        "xz-tiny-blocks" => {
            let mut o = XZOptions::with_preset(0);
            o.set_block_size(std::num::NonZeroU64::new(4096));
            let mut w = XZWriter::new(Vec::new(), o).unwrap();
            w.write_all(&vec![b'x'; 4096 * n.min(20000)]).unwrap();
            w.finish().unwrap()
        }
        "lzip-empty-members" | "lzip-empty-members-mt" => {
            let w = LZIPWriter::new(Vec::new(), LZIPOptions::with_preset(0));
            w.finish().unwrap().repeat(n)
        }
        "lzma2-tiny-chunks" | "lzma2-tiny-chunks-mt" => {
            let mut v = vec![1u8, 0, 0, b'a'];
            for _ in 1..n {
                v.extend([2u8, 0, 0, b'b']);
            }
            v.push(0);
            v
        }
        _ => {
            let mut v = xz_one(b"abc");
            v.extend(std::iter::repeat(0u8).take(4 * n));
            v.extend(xz_one(b"def"));
            v
        }
    }
}

/// child process: decode one deep input on a thread with the default 2 MiB stack
pub fn run_deep_point(kind: &str, n: usize) -> i32 {
    let input = deep_input(kind, n);
    let kind = kind.to_string();
    let h = std::thread::spawn(move || {
        let cap = 1usize << 30;
        let o: Outcome<usize> = match kind.as_str() {
            k if k.starts_with("xz") => match xz_decompress(&input, true, &[65536], cap) {
                Outcome::Ok((out, _)) => Outcome::Ok(out.len()),
                Outcome::Err(k, m) => Outcome::Err(k, m),
                Outcome::Panic(p) => Outcome::Panic(p),
            },
            "lzip-empty-members" => match lzip_decompress(&input, &[65536], cap) {
                Outcome::Ok((out, _)) => Outcome::Ok(out.len()),
                Outcome::Err(k, m) => Outcome::Err(k, m),
                Outcome::Panic(p) => Outcome::Panic(p),
            },
            "lzip-empty-members-mt" => guard(|| {
                let mut rd = LZIPReaderMT::new(std::io::Cursor::new(input), 2)?;
                Ok(read_all_sched(&mut rd, &[65536], cap)?.len())
            }),
            "lzma2-tiny-chunks" => match lzma2_decompress(&input, 4096, None, &[65536], cap) {
                Outcome::Ok((out, _)) => Outcome::Ok(out.len()),
                Outcome::Err(k, m) => Outcome::Err(k, m),
                Outcome::Panic(p) => Outcome::Panic(p),
            },
            _ => guard(|| {
                let mut rd = LZMA2ReaderMT::new(input.as_slice(), 4096, None, 2);
                Ok(read_all_sched(&mut rd, &[65536], cap)?.len())
            }),
        };
        o.describe()
    });
    match h.join() {
        Ok(d) => {
            println!("deep-result {d}");
            if d.starts_with("panic") { 3 } else { 0 }
        }
        Err(_) => 4,
    }
}

fn run_deep(rep: &mut Report, thorough: bool) {
    let exe = std::env::current_exe().unwrap();
    let ns: &[usize] = if thorough { &[3000, 40000, 400000] } else { &[3000, 40000] };
    let mut children = vec![];
    for kind in DEEP_KINDS {
        for &n in ns {
            let t = Instant::now();
            let ch = std::process::Command::new(&exe).args(["C06-deep", kind, &n.to_string()]).stderr(std::process::Stdio::null()).stdout(std::process::Stdio::piped()).spawn().expect("spawn child");
            children.push((kind, n, t, ch));
        }
    }
    for (kind, n, t, ch) in children {
        let out = ch.wait_with_output();
        let secs = t.elapsed().as_secs_f64();
        let d = json!({"decoder": kind, "units": n, "how": format!("vh C06-deep {kind} {n}")});
        rep.count(&format!("deep.{kind}"));
        match out {
            Ok(o) => {
                let txt = String::from_utf8_lossy(&o.stdout).to_string();
                if !o.status.success() {
                    rep.fail(&format!("decoder-abort:{kind}"), &format!("decoding {n} chained tiny units ended the process: {:?} {}", o.status, txt.trim()), d.clone());
                } else if !txt.contains("deep-result ok") {
                    rep.fail(&format!("decoder-rejects-valid:{kind}"), &format!("{n} chained valid units: {}", txt.trim()), d.clone());
                }
                if secs > 120.0 {
                    rep.fail(&format!("decoder-slow:{kind}"), &format!("{secs:.0} s for {n} units"), d.clone());
                }
            }
            Err(e) => rep.fail(&format!("decoder-abort:{kind}"), &format!("{e}"), d.clone()),
        }
        rep.case(format!("deep:{kind}:{n}"), true, || d);
    }
}

pub fn run(rep: &mut Report, rng: &mut Rng, thorough: bool) {
    run_deep(rep, thorough);
    let n = if thorough { 60000 } else { 2500 };
    let files = valid_files(rng, if thorough { 6 } else { 2 }, 600);
    let cap = 1 << 20;
    for i in 0..n {
        let mut r = rng.fork();
        let which = i % 10;
        progress(&format!("C06 case {i} (kind {which}); seed-derived, rerun the engine to reproduce"));
        match which {
            0 | 1 => {
                // XZ: structure-aware mutation with CRC fix-up, or random bytes after a valid stream header
                let f = *r.pick(&files.iter().filter(|f| f.fmt == "xz").collect::<Vec<_>>());
                let mut m = f.bytes.clone();
                let k = r.range(1, 4);
                for _ in 0..k {
                    let p = r.below(m.len() as u64) as usize;
                    m[p] = match r.below(4) { 0 => 0xFF, 1 => 0, 2 => m[p] ^ (1 << r.below(8)), _ => r.next() as u8 };
                }
                if which == 0 {
                    xz_fix_crcs(&f.bytes, &mut m);
                }
                let multi = r.chance(1, 2);
                let v = run_case(|| xz_decompress(&m, multi, &[4096], cap));
                let d = json!({"decoder": "xz", "file": f.name, "multi": multi, "crc_fixup": which == 0, "input_hex": if m.len() <= 400 { hex(&m) } else { format!("fnv:{}", fnv(&m)) }, "case": i});
                judge(rep, "xz", &v, xz_declared_dict(&m), m.len(), d.clone());
                if m.len() <= 3000 {
                    crate::cont::model_case(rep, "xz", multi, &m, cap);
                }
                rep.case(format!("xz:{}:fix{}", f.name, which == 0), true, || d);
            }
            2 => {
                let f = *r.pick(&files.iter().filter(|f| f.fmt == "lzip").collect::<Vec<_>>());
                let mut m = f.bytes.clone();
                // member ends of the valid file (walking the trailers from the end)
                let mut ends = vec![];
                let mut end = m.len();
                while end >= 26 {
                    let ms = u64::from_le_bytes(m[end - 8..end].try_into().unwrap()) as usize;
                    if ms == 0 || ms > end {
                        break;
                    }
                    ends.push(end);
                    end -= ms;
                }
                if r.chance(1, 4) {
                    // damage at the FRONT of the file, where the backward scan of LZIPReaderMT arrives last: 1..=25 bytes
                    // of junk in front of the first member, or the first member cut down to its last 1..=25 bytes
                    let n = r.range(1, 25) as usize;
                    let first_end = ends.last().copied().unwrap_or(0);
                    if ends.len() >= 2 && first_end > n && r.chance(1, 2) {
                        m.drain(..first_end - n);
                    } else {
                        let junk = if r.chance(1, 3) { m[m.len() - n.min(m.len())..].to_vec() } else { r.bytes(n) };
                        m.splice(0..0, junk);
                    }
                } else if ends.len() >= 2 && r.chance(1, 2) {
                    // a trailer field of a member (not only the last one) at an extreme value
                    let e = *r.pick(&ends);
                    let field = *r.pick(&[(8usize, 8usize), (16, 8), (20, 4)]); // member_size, data_size, crc
                    let v: u64 = *r.pick(&[0u64, 1, 19, 20, 26, u64::MAX, m.len() as u64, m.len() as u64 + 1]);
                    let bytes = v.to_le_bytes();
                    m[e - field.0..e - field.0 + field.1].copy_from_slice(&bytes[..field.1]);
                } else {
                    for _ in 0..r.range(1, 4) {
                        let p = r.below(m.len() as u64) as usize;
                        m[p] = match r.below(3) { 0 => 0xFF, 1 => 0, _ => r.next() as u8 };
                    }
                }
                let v = run_case(|| lzip_decompress(&m, &[4096], cap));
                let d = json!({"decoder": "lzip", "file": f.name, "input_hex": if m.len() <= 400 { hex(&m) } else { format!("fnv:{}", fnv(&m)) }, "case": i});
                judge(rep, "lzip", &v, lzip_declared_dict(&m), m.len(), d.clone());
                if m.len() <= 3000 {
                    crate::cont::model_case(rep, "lzip", false, &m, cap);
                }
                // the backward member scan of LZIPReaderMT::new against the model scan (Guards.scanFile)
                if m.len() <= 3000 {
                    let exp = match guard(|| Ok(LZIPReaderMT::new(BudgetCursor::new(m.clone(), 300_000), 1)?.member_count())) {
                        Outcome::Ok(n) => format!("ok {n}"),
                        Outcome::Err(k, _) => format!("err {}", kind_name(k)),
                        Outcome::Panic(_) => "panic".to_string(),
                    };
                    rep.model(format!("lzip.scan in={}", hex(&m)), exp);
                }
                // LZIPReaderMT on the same bytes (real threads; no schedule control here)
                let m2 = m.clone();
                let v = run_case(|| guard(|| {
                    let mut rd = LZIPReaderMT::new(BudgetCursor::new(m2, 300_000), 2)?;
                    read_all_sched(&mut rd, &[4096], cap)
                }));
                if v.class.contains("call-budget-exhausted") {
                    rep.fail("decoder-hang:lzip-mt", "LZIPReaderMT made more than 300000 read/seek calls on a small input without finishing", d.clone());
                }
                judge(rep, "lzip-mt", &v, 2 * lzip_declared_dict(&m), m.len(), d.clone());
                rep.case(format!("lzip:{}", f.name), true, || d);
            }
            3 | 4 => {
                // raw LZMA with arbitrary caller parameters
                let props = if r.chance(3, 4) { r.below(225) as u8 } else { r.next() as u8 };
                let dict = *r.pick(&[0u32, 1, 4095, 4096, 65536, 1 << 20, 0x7FFF_FFFF, 0xFFFF_FFF0, u32::MAX]);
                let dict = if dict > (1 << 26) && !r.chance(1, 20) { 1 << 16 } else { dict };
                let size = *r.pick(&[0u64, 1, 100, 5000, u64::MAX / 2, u64::MAX / 2 + 1, u64::MAX - 1, u64::MAX]);
                let len = r.range(0, 300) as usize;
                let mut m = r.bytes(len);
                if !m.is_empty() && r.chance(3, 4) {
                    m[0] = 0;
                }
                // a caller-supplied preset dictionary, also longer than the dictionary (only its tail can be addressed)
                let preset: Option<Vec<u8>> = if (dict == 4096 || dict == 4095 || dict == 65536) && r.chance(1, 2) {
                    let d = dict as usize;
                    let plen = *r.pick(&[1usize, 100, d - 1, d, d + 1, 2 * d + 7, 3 * d]);
                    Some((0..plen).map(|k| ((k * 7 + k / 253) % 251) as u8).collect())
                } else { None };
                let size = if preset.is_some() && r.chance(1, 2) { u64::MAX } else { size };
                let v = run_case(|| guard(|| {
                    let mut rd = LZMAReader::new_with_props(m.as_slice(), size, props, dict, preset.as_deref())?;
                    read_all_sched(&mut rd, &[4096], cap)
                }));
                let d = json!({"decoder": "lzma", "props": props, "dict": dict, "size": size, "input_hex": hex(&m), "preset_len": preset.as_ref().map(|p| p.len()), "case": i});
                judge(rep, "lzma", &v, (dict as usize).max(4096).min(if size <= u64::MAX / 2 { (size as usize).max(4096) } else { usize::MAX }), m.len(), d.clone());
                if dict <= (1 << 26) && props <= 224 {
                    let o = guard(|| {
                        let mut src = m.as_slice();
                        let out = {
                            let mut rd = LZMAReader::new_with_props(&mut src, size, props, dict, preset.as_deref())?;
                            read_all_sched(&mut rd, &[4096], cap)?
                        };
                        Ok((out, m.len() - src.len()))
                    });
                    let pb = props / 45;
                    let lp = (props % 45) / 9;
                    let lc = props % 9;
                    if size <= cap as u64 || size == u64::MAX {
                        // (a declared size far beyond the cap would make the MODEL loop on zeros past the end of the input: its fuel is the declared size)
                        rep.model(
                            format!("lzma.dec fmt=raw lc={lc} lp={lp} pb={pb} dict={dict} size={} preset={} in={} cap={cap} reenc=0", if size == u64::MAX { "-".to_string() } else { size.to_string() }, preset.as_ref().map(|p| hex(p)).unwrap_or("-".into()), hex(&m)),
                            match &o { Outcome::Ok((out, used)) => format!("ok {} {} {} -", out.len(), fnv(out), used), other => canon_simple(other) },
                        );
                    }
                }
                rep.case(format!("lzma:p{}:d{}:s{}", props > 224, dict_class(dict), size == u64::MAX), true, || d);
            }
            5 | 6 => {
                // raw LZMA2: random chunk soup or mutated valid stream
                let dict = *r.pick(&[4096u32, 65536, 1 << 20, 0xFFFF_FFFF, 0, 1, 4095, 4097]);
                let dict = if dict == 0xFFFF_FFFF && !r.chance(1, 30) { 4096 } else { dict };
                let preset: Option<Vec<u8>> = if (dict == 4096 || dict == 4097 || dict == 65536) && r.chance(1, 2) {
                    let d = dict as usize;
                    let plen = *r.pick(&[1usize, 100, d - 1, d, d + 1, 2 * d + 7, 3 * d]);
                    Some((0..plen).map(|k| ((k * 7 + k / 253) % 251) as u8).collect())
                } else { None };
                let m: Vec<u8> = if which == 5 {
                    let mut v = vec![];
                    for _ in 0..r.range(1, 5) {
                        if r.chance(1, 4) {
                            // a complete stored chunk whose size field is at an extreme
                            let n = *r.pick(&[1usize, 2, 255, 256, 65535, 65536]);
                            v.push(if v.is_empty() { 1 } else { 2 });
                            v.push(((n - 1) >> 8) as u8);
                            v.push((n - 1) as u8);
                            let fill = r.next() as u8;
                            v.extend(std::iter::repeat(fill).take(n));
                            if r.chance(1, 2) {
                                v.push(0);
                                break;
                            }
                            continue;
                        }
                        if r.chance(1, 5) {
                            // an LZMA chunk header with a plausible body (first payload byte 0): state-reset-only
                            // (0xA0..), continuing (0x80..) or props-carrying controls in any order
                            let c = *r.pick(&[0x80u8, 0x9F, 0xA0, 0xA5, 0xBF, 0xC0, 0xE0]);
                            let comp = r.range(5, 12) as usize;
                            v.extend([c, 0, r.below(4) as u8, 0, (comp - 1) as u8]);
                            if c >= 0xC0 {
                                v.push(*r.pick(&[0x5Du8, 0, 0x2C, 0xE0]));
                            }
                            v.push(0);
                            v.extend(r.bytes(comp - 1));
                            continue;
                        }
                        let c = *r.pick(&[0u8, 1, 2, 3, 0x7F, 0x80, 0xA0, 0xC0, 0xE0, 0xFF]);
                        v.push(c);
                        let l = r.range(0, 12) as usize;
                        v.extend(r.bytes(l));
                    }
                    v
                } else {
                    let data = gen_data(&mut r, "text", 400);
                    let mut o = gen_lzopts(&mut r, true, 1 << 16, false);
                    if let Some(p) = &preset {
                        // a stream that really starts inside the preset dictionary (first chunk without dictionary reset)
                        o.preset = Some(p.clone());
                        o.dict = dict.max(4096);
                    }
                    let data = if preset.is_some() { let mut d2 = preset.as_ref().unwrap()[..preset.as_ref().unwrap().len().min(150)].to_vec(); d2.extend_from_slice(&data); d2 } else { data };
                    match lzma2_compress(&data, &o, None, &[data.len()], 0) {
                        Outcome::Ok(mut c) => {
                            for _ in 0..r.range(if preset.is_some() { 0 } else { 1 }, 3) {
                                let p = r.below(c.len() as u64) as usize;
                                c[p] = r.next() as u8;
                            }
                            c
                        }
                        _ => vec![0],
                    }
                };
                let v = run_case(|| lzma2_decompress(&m, dict, preset.as_deref(), &[4096], cap));
                let d = json!({"decoder": "lzma2", "dict": dict, "preset_len": preset.as_ref().map(|p| p.len()), "input_hex": if m.len() <= 600 { hex(&m) } else { format!("{}..(len {}, fnv {})", hex(&m[..16.min(m.len())]), m.len(), fnv(&m)) }, "case": i});
                judge(rep, "lzma2", &v, dict as usize, m.len(), d.clone());
                if dict != 0xFFFF_FFFF && m.len() <= 70000 {
                    let o = lzma2_decompress(&m, dict, preset.as_deref(), &[4096], cap);
                    rep.model(format!("lzma2.dec dict={dict} preset={} in={} cap={cap} reenc=0", preset.as_ref().map(|p| hex(p)).unwrap_or("-".into()), hex(&m)), match &o { Outcome::Ok((out, used)) => format!("ok {} {} {} -", out.len(), fnv(out), used), other => canon_simple(other) });
                }
                // the MT reader on the same bytes
                let m2 = m.clone();
                let dict2 = dict.min(1 << 20);
                let v = run_case(|| guard(|| {
                    let mut rd = LZMA2ReaderMT::new(m2.as_slice(), dict2, None, 2);
                    read_all_sched(&mut rd, &[4096], cap)
                }));
                judge(rep, "lzma2-mt", &v, dict2 as usize, m.len(), d.clone());
                rep.case(format!("lzma2:{}:d{}", which, dict_class(dict)), true, || d);
            }
            7 => {
                // BCJ / Delta readers over random bytes
                let arch = crate::c11::ARCHS[(i as usize / 10) % 8];
                let l = r.range(0, 9000) as usize;
                let m = r.bytes(l);
                let start = r.next() as u32 as usize;
                let v = run_case(|| guard(|| {
                    let mut rd = crate::part::new_bcj_reader(arch, m.as_slice(), start);
                    read_all_sched(&mut rd, &[r.range(1, 5000) as usize], m.len() + 16)
                }));
                let d = json!({"decoder": format!("bcj-{arch}"), "start": start, "input_len": m.len(), "input_fnv": fnv(&m), "case": i});
                judge(rep, "bcj", &v, 0, m.len(), d.clone());
                let dist = r.range(0, 300) as usize;
                let v = run_case(|| guard(|| {
                    let mut rd = DeltaReader::new(m.as_slice(), dist);
                    read_all_sched(&mut rd, &[777], m.len() + 16)
                }));
                judge(rep, "delta", &v, 0, m.len(), json!({"decoder": "delta", "distance": dist, "input_len": m.len(), "case": i}));
                rep.case(format!("bcj:{arch}"), true, || d);
            }
            8 => {
                // BCJ2: four arbitrary streams and an arbitrary declared size
                let mut streams: Vec<Vec<u8>> = (0..4).map(|_| { let l = r.range(0, 200) as usize; r.bytes(l) }).collect();
                // half of the cases: a MAIN stream rich in the opcodes the decoder looks for (E8, E9, 0F 8x, also as
                // its very last bytes) and a range-coder stream with a valid start
                if r.chance(1, 2) {
                    let l = streams[0].len();
                    for p in 0..l {
                        match r.below(6) {
                            0 => streams[0][p] = 0xE8,
                            1 => streams[0][p] = 0xE9,
                            2 => {
                                streams[0][p] = 0x0F;
                                if p + 1 < l {
                                    streams[0][p + 1] = 0x80 | (r.next() as u8 & 0x0F);
                                }
                            }
                            _ => {}
                        }
                    }
                    if !streams[3].is_empty() {
                        streams[3][0] = 0;
                    }
                }
                let size = *r.pick(&[0u64, 1, 100, 10000, 1 << 20]);
                let d = json!({"decoder": "bcj2", "declared_size": size, "streams_hex": streams.iter().map(|s| hex(s)).collect::<Vec<_>>(), "case": i});
                // the same streams read with different caller buffers: the position at which an output window ends
                // relative to an opcode is part of the input the decoder must be total on
                for sched in [vec![4096usize], vec![1], vec![2], vec![3, 1], vec![r.range(1, 24) as usize]] {
                    let s2 = streams.clone();
                    let v = run_case(|| guard(|| {
                        let inputs: Vec<std::io::Cursor<Vec<u8>>> = s2.into_iter().map(std::io::Cursor::new).collect();
                        let mut rd = BCJ2Reader::new(inputs, size);
                        read_all_sched(&mut rd, &sched, (1 << 20) + 16)
                    }));
                    let mut d2 = d.clone();
                    d2["read_sizes"] = json!(sched);
                    judge(rep, "bcj2", &v, 0, 800 + (size as usize).min(1 << 20), d2);
                }

                rep.case(format!("bcj2:s{}", size_class(size as usize)), true, || d);
            }
            9 if i % 20 == 9 => {
                // generated XZ block headers: every combination of flags / size fields / filter ids / property
                // sizes, cut by the declared header size at every offset relative to the content
                let check = *r.pick(&[0u8, 1, 4, 10]);
                let mut m = vec![0xFD, b'7', b'z', b'X', b'Z', 0, 0, check];
                m.extend(crc32(&[0, check]).to_le_bytes());
                for _ in 0..r.range(1, 3) {
                    let nf = r.range(1, 4) as u8;
                    let mut c = vec![(nf - 1) | *r.pick(&[0u8, 0x40, 0x80, 0xC0, 0x04])];
                    if c[0] & 0x40 != 0 {
                        c.extend(mbint(*r.pick(&[1u64, 127, 128, 1 << 20, u64::MAX >> 1])));
                    }
                    if c[0] & 0x80 != 0 {
                        c.extend(mbint(*r.pick(&[0u64, 1, 127, 128, 1 << 40])));
                    }
                    for fi in 0..nf {
                        let id = if fi + 1 == nf && r.chance(3, 4) { 0x21u64 } else { *r.pick(&[3u64, 4, 5, 6, 7, 8, 9, 10, 11, 0x21, 2, 0x4000]) };
                        c.extend(mbint(id));
                        let ps = match id { 0x21 | 3 => *r.pick(&[1u64, 1, 0, 2]), _ => *r.pick(&[0u64, 4, 4, 1, 5]) };
                        c.extend(mbint(ps));
                        for _ in 0..ps.min(8) {
                            c.push(*r.pick(&[0u8, 1, 4, 16, 40, 41, 0xFF]));
                        }
                    }
                    // header_data = content (cut or zero padded) + CRC32: EVERY declared header size from 8 up to
                    // beyond the content, so that every field is cut at every offset
                    let first = m.clone();
                    let mut hs = 8usize;
                    while hs <= (c.len() + 16).min(1024) {
                        let mut all = vec![(hs / 4 - 1) as u8];
                        if r.chance(1, 2) {
                            // the content runs into the place of the CRC field (parsing happens before the CRC test)
                            let mut hd = c.clone();
                            hd.resize(hs - 1, 0);
                            all.extend(&hd);
                        } else {
                            let mut hd = c.clone();
                            hd.resize(hs - 1 - 4, 0);
                            all.extend(&hd);
                            let crc = if r.chance(3, 4) { crc32(&all) } else { r.next() as u32 };
                            all.extend(crc.to_le_bytes());
                        }
                        let mut mm = first.clone();
                        mm.extend(all);
                        mm.extend([1u8, 0, 0, b'x', 0, 0, 0, 0]);
                        let v = run_case(|| xz_decompress(&mm, false, &[4096], cap));
                        let d = json!({"decoder": "xz", "generated": "block-header", "header_size": hs, "input_hex": hex(&mm), "case": i});
                        judge(rep, "xz-header", &v, xz_declared_dict(&mm), mm.len(), d);
                        rep.evaluations += 1;
                        if hs % 8 == 0 {
                            crate::cont::model_case(rep, "xz", false, &mm, cap);
                        }
                        hs += 4;
                    }
                    let mut hd = c.clone();
                    let hs = ((c.len() + 1 + 4 + 3) / 4 * 4).clamp(8, 1024);
                    hd.resize(hs - 1 - 4, 0);
                    let mut all = vec![(hs / 4 - 1) as u8];
                    all.extend(&hd);
                    all.extend(crc32(&all).to_le_bytes());
                    m.extend(all);
                    m.extend([1u8, 0, 0, b'x', 0, 0, 0, 0]);
                }
                let v = run_case(|| xz_decompress(&m, r.chance(1, 2), &[4096], cap));
                let d = json!({"decoder": "xz", "generated": "block-header", "input_hex": hex(&m), "case": i});
                judge(rep, "xz-header", &v, xz_declared_dict(&m), m.len(), d.clone());
                crate::cont::model_case(rep, "xz", false, &m, cap);
                rep.case("xz:generated-header".into(), true, || d);
            }
            _ => {
                // arbitrary bytes to the container readers
                let l = r.range(0, 200) as usize;
                let m = r.bytes(l);
                for fmt in ["xz", "lzip"] {
                    let v = run_case(|| crate::cont::real_decode(fmt, true, &m, cap));
                    judge(rep, fmt, &v, 0, m.len(), json!({"decoder": fmt, "input_hex": hex(&m), "case": i}));
                }
                rep.case("random-bytes".into(), true, || json!({"input_hex": hex(&m)}));
            }
        }
    }
}

fn canon_simple<T>(o: &Outcome<T>) -> String {
    match o {
        Outcome::Ok(_) => "ok".into(),
        Outcome::Err(k, m) => {
            if m.contains("output-cap-exceeded") { "capped".into() } else { format!("err {}", kind_name(*k)) }
        }
        Outcome::Panic(_) => "panic".into(),
    }
}
