//! C02: XZ and LZIP containers round-trip; correspondence for the header-level pure functions.
use crate::codec::reference as lref;
use crate::codec::*;
use crate::util::*;
use lzma_rust2::verif_hooks as hooks;
use serde_json::json;

fn opt_nat<T: std::fmt::Display>(o: Option<T>) -> String {
    match o {
        Some(v) => format!("ok {v}"),
        None => "err".into(),
    }
}

pub fn lzip_dict_sizes() -> Vec<u32> {
    let mut v = vec![];
    for b in 12..=29u32 {
        for f in 0..8u32 {
            let base = 1u32 << b;
            v.push(base - (base >> 4) * f);
        }
    }
    v.sort();
    v.dedup();
    v
}

pub fn model_stream(rep: &mut Report, rng: &mut Rng, thorough: bool) {
    // LZIP dictionary byte: all 256 encodings
    for b in 0..=255u8 {
        rep.model(format!("lzip.decdict b={b}"), opt_nat(hooks::lzip_decode_dict_size(b)));
    }
    let mut sizes: Vec<u32> = vec![0, 1, 4095, 4096, 4097, 5000, u32::MAX, 1 << 30, (1 << 29) + 1];
    for s in lzip_dict_sizes() {
        sizes.extend_from_slice(&[s.wrapping_sub(1), s, s + 1]);
    }
    let n = if thorough { 20000 } else { 1500 };
    for _ in 0..n {
        let bits = rng.range(12, 30);
        sizes.push((rng.next() % (1u64 << bits)) as u32);
    }
    for d in sizes {
        rep.model(format!("lzip.encdict d={d}"), opt_nat(hooks::lzip_encode_dict_size(d)));
    }
    // XZ multibyte integers
    let mut vals: Vec<u64> = vec![0, 1, 127, 128, u64::MAX, u64::MAX / 2, u64::MAX / 2 + 1];
    for k in 1..10 {
        let p = 1u64 << (7 * k).min(63);
        vals.extend_from_slice(&[p - 1, p, p + 1]);
    }
    for _ in 0..(if thorough { 20000 } else { 800 }) {
        let bits = rng.range(1, 64);
        vals.push(rng.next() >> (64 - bits));
    }
    for v in vals {
        let exp = match hooks::xz_encode_multibyte(v) {
            Some((bytes, sz)) => format!("ok {} {}", hex(&bytes), sz),
            None => "err".into(),
        };
        rep.model(format!("xz.mbenc v={v}"), exp);
    }
    for _ in 0..(if thorough { 20000 } else { 1500 }) {
        let n = rng.below(13) as usize;
        let mut bs = rng.bytes(n);
        for b in bs.iter_mut() {
            // bias towards continuation bytes so long encodings are reached
            if rng.chance(2, 3) {
                *b |= 0x80;
            }
        }
        if rng.chance(1, 2) && !bs.is_empty() {
            let l = bs.len() - 1;
            bs[l] &= 0x7F;
        }
        let cls = |e: &str| -> &'static str {
            if e.contains("too large") {
                "err toolarge"
            } else if e.contains("too long") {
                "err toolong"
            } else {
                "err incomplete"
            }
        };
        let exp = match hooks::xz_parse_multibyte_reader(&bs) {
            Ok((v, n)) => format!("ok {v} {n}"),
            Err(e) => cls(&e).to_string(),
        };
        rep.model(format!("xz.mbparse in={}", hex(&bs)), exp);
        let exp = match hooks::xz_parse_multibyte_slice(&bs) {
            Ok((v, n)) => format!("ok {v} {n}"),
            Err(e) => cls(&e).to_string(),
        };
        rep.model(format!("xz.mbslice in={}", hex(&bs)), exp);
    }
    // LZMA2 dictionary property
    let mut ds: Vec<u32> = vec![0, 1, 4095, 4096, 4097, u32::MAX, u32::MAX - 1, 0xC000_0000, 0xC000_0001, 0x8000_0000, 0x8000_0001];
    for p in 0..40u32 {
        let s = (2 | (p & 1)) << (p / 2 + 11);
        ds.extend_from_slice(&[s - 1, s, s.wrapping_add(1)]);
    }
    for _ in 0..(if thorough { 5000 } else { 500 }) {
        let bits = rng.range(12, 32);
        ds.push((rng.next() >> (64 - bits)) as u32);
    }
    for d in ds {
        rep.model(format!("xz.dictprop d={d}"), opt_nat(hooks::xz_encode_lzma2_dict_size(d)));
    }
}

pub fn gen_size(rng: &mut Rng, dict: u32, max: usize) -> usize {
    let s = match rng.below(10) {
        0 => 0,
        1 => 1,
        2 => rng.range(2, 300) as usize,
        3 => rng.range(300, 5000) as usize,
        4 => (dict as usize).saturating_sub(rng.range(0, 3) as usize) + rng.range(0, 6) as usize,
        5 => dict as usize * 2 + rng.range(0, 100) as usize,
        6 => 65536 + rng.range(0, 10) as usize - 5,
        7 => rng.range(60000, 140000) as usize,
        _ => rng.range(1, max as u64) as usize,
    };
    s.min(max)
}

/// XZ files with many blocks (the record count of the index needs a 2-byte varint from 128 on, and
/// the index length runs through every residue mod 4): own reader, liblzma, and the Lean reader/writer model.
fn run_many_blocks(rep: &mut Report, rng: &mut Rng, thorough: bool) {
    let counts: Vec<usize> = if thorough { (120..=140).chain([255, 256, 257]).collect() } else { vec![126, 127, 128, 129, 130, 131] };
    for (k, n) in counts.into_iter().enumerate() {
        let mut r = rng.fork();
        let tail = [0usize, 1, 50, 4095][k % 4];
        let len = (n - 1) * 4096 + if tail == 0 { 4096 } else { tail };
        let kind = ["const", "random", "text"][k % 3];
        let data = gen_data(&mut r, kind, len);
        let lz = LzOpts { dict: 4096, lc: 3, lp: 0, pb: 2, normal: false, nice: 32, bt4: false, depth: 0, preset: None };
        let o = XzOpts { lz, check: [1u8, 4, 10, 0][k % 4], block: Some(4096), filters: vec![] };
        let detail = || json!({"format": "xz", "stratum": "many-blocks", "blocks": n, "opts": o.json(), "data_kind": kind, "data_len": data.len()});
        rep.count("stratum.many-blocks");
        match xz_compress(&data, &o, &[data.len()], 0) {
            Outcome::Ok(c) => {
                match xz_decompress(&c, false, &[65536], data.len() + 16) {
                    Outcome::Ok((out, used)) => {
                        if out != data {
                            rep.fail("xz-roundtrip-mismatch:many-blocks", "XZ round trip returned different bytes", detail());
                        } else if used != c.len() {
                            rep.fail("xz-roundtrip-consumed", "XZ reader did not consume the whole file it wrote", detail());
                        } else if kind == "const" || (thorough && data.len() <= 600_000) {
                            rep.model(format!("xz.dec multi=0 in={} cap={} reenc=1", hex(&c), data.len() + 16), format!("ok {} {} {} 1", data.len(), fnv(&data), c.len()));
                        }
                    }
                    other => rep.fail(
                        &format!("xz-roundtrip-{}:many-blocks", other.class()),
                        &format!("XZ own reader fails on own {n}-block output: {}", other.describe()),
                        detail(),
                    ),
                }
                match lref::xz_decode(&c, data.len() + 64) {
                    Ok(out) if out == data => {}
                    Ok(_) => rep.fail("ref-xz-different-data:many-blocks", "liblzma decodes our many-block .xz to different data", detail()),
                    Err(e) => rep.fail("ref-xz-rejects:many-blocks", &format!("liblzma rejects our {n}-block .xz: {e}"), detail()),
                }
            }
            other => rep.fail(&format!("xz-write-{}", other.class()), &format!("XZ writer failed: {}", other.describe()), detail()),
        }
        rep.case(format!("xz:many-blocks:{n}:{kind}:{tail}"), true, || detail());
    }
}

pub fn run(rep: &mut Report, rng: &mut Rng, thorough: bool) {
    model_stream(rep, &mut rng.fork(), thorough);
    run_many_blocks(rep, &mut rng.fork(), thorough);
    let cases = if thorough { 3000 } else { 220 };
    let max = if thorough { 4 << 20 } else { 200 << 10 };
    let model_max = if thorough { 400_000 } else { 50_000 };
    for i in 0..cases {
        let mut r = rng.fork();
        let kind = DATA_KINDS[(i % DATA_KINDS.len() as u64) as usize];
        if i % 2 == 0 {
            // XZ
            let max_dict = if thorough { 8 << 20 } else { 1 << 20 };
            let mut o = gen_xzopts(&mut r, max_dict, 0);
            let size = gen_size(&mut r, o.lz.dict, max);
            let data = gen_data(&mut r, kind, size);
            if let Some(b) = o.block.as_mut() {
                if r.chance(1, 3) {
                    *b = (data.len() as u64 / 3).max(1);
                }
            }
            let (pstyle, parts) = gen_partition(&mut r, data.len());
            let sig = format!("xz:{}:{}:{}:{}", kind, size_class(data.len()), pstyle, o.sig());
            rep.count(&format!("xz.check{}", o.check));
            rep.count(&format!("xz.filters{}", o.filters.len()));
            rep.count(&format!("data.{kind}"));
            let detail = || json!({"format": "xz", "opts": o.json(), "data_kind": kind, "data_len": data.len(), "partition": pstyle, "data_fnv": fnv(&data), "case_seed": i});
            let comp = xz_compress(&data, &o, &parts, 0);
            match &comp {
                Outcome::Ok(c) => {
                    match xz_decompress(c, false, &[65536], data.len() + 16) {
                        Outcome::Ok((out, used)) => {
                            if out != data {
                                rep.fail(&format!("xz-roundtrip-mismatch:{}", o.sig()), "XZ round trip returned different bytes", detail());
                            } else if used != c.len() {
                                rep.fail("xz-roundtrip-consumed", "XZ reader did not consume the whole file it wrote", detail());
                            } else if c.len() <= model_max && data.len() <= model_max {
                                // the Lean reader model must agree, and the Lean writer model must
                                // re-assemble the identical file from the decoded blocks
                                rep.model(format!("xz.dec multi=0 in={} cap={} reenc=1", hex(c), data.len() + 16), format!("ok {} {} {} 1", data.len(), fnv(&data), c.len()));
                            }
                        }
                        other => rep.fail(
                            &format!("xz-roundtrip-{}:len{}:f{:?}", other.class(), size_class(data.len()), o.filters.iter().map(|f| f.0).collect::<Vec<_>>()),
                            &format!("XZ own reader fails on own output: {}", other.describe()),
                            detail(),
                        ),
                    }
                }
                other => rep.fail(&format!("xz-write-{}", other.class()), &format!("XZ writer failed on in-range options: {}", other.describe()), detail()),
            }
            rep.case(sig, !data.is_empty(), || detail());
        } else {
            let max_dict = if thorough { 8 << 20 } else { 1 << 20 };
            let mut lz = gen_lzopts(&mut r, false, max_dict, false);
            if r.chance(1, 2) {
                // off-grid sizes near representable ones
                let g = lzip_dict_sizes();
                let s = *r.pick(&g[..g.len().min(60)]);
                lz.dict = (s as i64 + r.range(0, 2000) as i64 - 1000).clamp(4096, max_dict as i64) as u32;
            }
            let size = gen_size(&mut r, lz.dict, max);
            let data = gen_data(&mut r, kind, size);
            let member = match r.below(5) {
                0 | 1 => None,
                2 => Some(lz.dict as u64),
                3 => Some((data.len() as u64 / 3).max(1)),
                _ => Some(data.len() as u64 + 5),
            };
            let (pstyle, parts) = gen_partition(&mut r, data.len());
            let sig = format!("lzip:{}:{}:{}:m{}:{}", kind, size_class(data.len()), pstyle, member.map(|m| size_class(m as usize)).unwrap_or("none"), lz.sig());
            rep.count(&format!("data.{kind}"));
            rep.count(&format!("lzip.member.{}", member.is_some()));
            let detail = || json!({"format": "lzip", "opts": lz.json(), "member_size": member, "data_kind": kind, "data_len": data.len(), "partition": pstyle, "data_fnv": fnv(&data), "case_seed": i});
            match lzip_compress(&data, &lz, member, &parts) {
                Outcome::Ok(c) => match lzip_decompress(&c, &[65536], data.len() + 16) {
                    Outcome::Ok((out, used)) => {
                        if out != data {
                            rep.fail("lzip-roundtrip-mismatch", "LZIP round trip returned different bytes", detail());
                        } else if used != c.len() {
                            rep.fail("lzip-roundtrip-consumed", "LZIP reader did not consume the whole file it wrote", detail());
                        } else if c.len() <= model_max && data.len() <= model_max {
                            rep.model(format!("lzip.dec in={} cap={} reenc=1", hex(&c), data.len() + 16), format!("ok {} {} {} 1", data.len(), fnv(&data), c.len()));
                        }
                        // header byte must announce a dictionary >= the one the encoder used
                        let hb = c[5];
                        match hooks::lzip_decode_dict_size(hb) {
                            Some(d) if d >= lz.dict.clamp(4096, 1 << 29) => {}
                            other => rep.fail("lzip-header-dict", &format!("LZIP header byte {hb:#x} decodes to {other:?} < dict {}", lz.dict), detail()),
                        }
                    }
                    other => rep.fail(&format!("lzip-roundtrip-{}", other.class()), &format!("LZIP own reader fails on own output: {}", other.describe()), detail()),
                },
                other => rep.fail(&format!("lzip-write-{}", other.class()), &format!("LZIP writer failed: {}", other.describe()), detail()),
            }
            rep.case(sig, !data.is_empty(), || detail());
        }
    }
    // the LZIP writer model in fast mode (Model/LzipWriter.lean), byte exact
    crate::fastw::run_lzip(rep, &mut rng.fork(), thorough);
}
