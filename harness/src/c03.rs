//! C03: interoperability with liblzma in both directions.
use crate::c02::gen_size;
use crate::codec::reference as lref;
use crate::codec::*;
use crate::util::*;
use liblzma::stream::{Check, Filters, LzmaOptions, MatchFinder, Mode, Stream};
use serde_json::json;

fn ref_check(c: u8) -> Check {
    match c {
        0 => Check::None,
        1 => Check::Crc32,
        4 => Check::Crc64,
        _ => Check::Sha256,
    }
}

/// liblzma LZMA options from ours (plus the things only liblzma can vary)
fn ref_opts(rng: &mut Rng, o: &LzOpts) -> Result<LzmaOptions, String> {
    let preset = rng.below(10) as u32 | if rng.chance(1, 4) { 0x8000_0000 } else { 0 };
    let mut l = LzmaOptions::new_preset(preset).map_err(|e| format!("{e:?}"))?;
    if rng.chance(2, 3) {
        l.dict_size(o.dict);
        l.literal_context_bits(o.lc);
        l.literal_position_bits(o.lp);
        l.position_bits(o.pb);
        l.nice_len(o.nice.max(8));
        l.mode(if o.normal { Mode::Normal } else { Mode::Fast });
        l.match_finder(*rng.pick(&[MatchFinder::HashChain3, MatchFinder::HashChain4, MatchFinder::BinaryTree2, MatchFinder::BinaryTree3, MatchFinder::BinaryTree4]));
        if rng.chance(1, 2) {
            l.depth(rng.range(0, 100) as u32);
        }
    } else {
        // keep the preset but a small dictionary so that the run stays cheap
        l.dict_size(o.dict.max(4096));
    }
    Ok(l)
}

fn ref_filters(fs: &[(u8, u32)], l: &LzmaOptions) -> Result<Filters, String> {
    let mut f = Filters::new();
    for &(id, prop) in fs {
        let p = prop.to_le_bytes();
        let r = match id {
            3 => f.delta_properties(&[(prop - 1) as u8]),
            4 => f.x86_properties(&p),
            5 => f.powerpc_properties(&p),
            6 => f.ia64_properties(&p),
            7 => f.arm_properties(&p),
            8 => f.arm_thumb_properties(&p),
            9 => f.sparc_properties(&p),
            10 => f.arm64_properties(&p),
            _ => f.riscv_properties(&p),
        };
        r.map_err(|e| format!("{e:?}"))?;
    }
    f.lzma2(l);
    Ok(f)
}

/// hand-assembled LZMA2 streams (stored chunks with extreme size fields between real LZMA chunks):
/// whatever liblzma's decoder accepts, ours must decode to the same bytes
fn run_crafted(rep: &mut Report, rng: &mut Rng, thorough: bool) {
    for i in 0..(if thorough { 300 } else { 24 }) {
        let mut r = rng.fork();
        let mut stream = vec![];
        let mut first = true;
        let mut shape = vec![];
        for _ in 0..r.range(1, 4) {
            if r.chance(2, 3) {
                let n = *r.pick(&[1usize, 2, 256, 4096, 65535, 65536]);
                stream.push(if first { 1 } else { *r.pick(&[1u8, 2]) });
                stream.push(((n - 1) >> 8) as u8);
                stream.push((n - 1) as u8);
                let b = r.next() as u8;
                stream.extend((0..n).map(|k| b.wrapping_add((k % 7) as u8)));
                shape.push(format!("stored{n}"));
            } else {
                // a real compressed stream without its end byte; its first chunk resets the dictionary
                let d = gen_data(&mut r, "text", 3000);
                let o = gen_lzopts(&mut r, true, 1 << 16, false);
                if let Outcome::Ok(c) = lzma2_compress(&d, &o, None, &[d.len()], 0) {
                    stream.extend(&c[..c.len() - 1]);
                    shape.push("lzma".into());
                }
            }
            first = false;
        }
        stream.push(0);
        let cap = 1 << 20;
        let detail = || json!({"direction": "crafted->both", "format": "raw lzma2", "chunks": shape, "stream_len": stream.len(), "stream_fnv": fnv(&stream), "stream_head_hex": hex(&stream[..stream.len().min(48)]), "case": i});
        rep.count("crafted.lzma2");
        if let Ok(expect) = lref::lzma2_raw_decode(&stream, 1 << 20, cap) {
            match lzma2_decompress(&stream, 1 << 20, None, &[*r.pick(&[1usize, 4096, 70000])], cap) {
                Outcome::Ok((out, used)) if out == expect && used == stream.len() => {}
                Outcome::Ok(_) => rep.fail("ours-lzma2-different-data:crafted", "a stream liblzma accepts decodes to different data / is not consumed", detail()),
                other => rep.fail("ours-lzma2-rejects:crafted", &format!("we reject an LZMA2 stream that liblzma decodes: {}", other.describe()), detail()),
            }
            rep.case(format!("crafted:lzma2:{}", shape.join("+")), true, || detail());
        }
    }
}

/// the maximal LZMA chunk (compressed size field 0xFFFF): liblzma decodes it, so must both of our readers
fn run_max_chunk(rep: &mut Report, rng: &mut Rng) {
    let Some((stream, data)) = lzma2_max_compressed_chunk(rng.next()) else {
        rep.notes.push("max-compressed-chunk: no input length gave exactly 65536 compressed bytes for this seed".into());
        return;
    };
    let cap = data.len() + 64;
    let detail = || json!({"direction": "crafted->both", "format": "raw lzma2", "chunks": ["lzma: compressed size 65536"], "stream_len": stream.len(), "stream_fnv": fnv(&stream), "data_len": data.len()});
    rep.count("crafted.max-compressed-chunk");
    match lref::lzma2_raw_decode(&stream, 1 << 16, cap) {
        Ok(d) if d == data => {
            match lzma2_decompress(&stream, 1 << 16, None, &[4096], cap) {
                Outcome::Ok((out, used)) if out == data && used == stream.len() => {}
                other => rep.fail("ours-lzma2-rejects:max-compressed-chunk", &format!("LZMA2Reader on a chunk of 65536 compressed bytes that liblzma decodes: {}", match &other { Outcome::Ok(_) => "different data".to_string(), o => o.describe() }), detail()),
            }
            for workers in [1u32, 3] {
                let s2 = stream.clone();
                let o = guard(|| {
                    let mut r = lzma_rust2::LZMA2ReaderMT::new(s2.as_slice(), 1 << 16, None, workers);
                    read_all_sched(&mut r, &[4096], cap)
                });
                match o {
                    Outcome::Ok(out) if out == data => {}
                    other => rep.fail("ours-lzma2mt-rejects:max-compressed-chunk", &format!("LZMA2ReaderMT ({workers} workers) on a chunk of 65536 compressed bytes that liblzma decodes: {}", match &other { Outcome::Ok(_) => "different data".to_string(), o => o.describe() }), detail()),
                }
            }
            rep.case("crafted:lzma2:max-compressed-chunk".into(), true, || detail());
        }
        Ok(_) => rep.notes.push("max-compressed-chunk: liblzma decodes the crafted stream to different data (generator problem)".into()),
        Err(e) => rep.notes.push(format!("max-compressed-chunk: liblzma rejects the crafted stream: {e}")),
    }
}

/// compressible / incompressible (> 64 KiB) / compressible …: the LZMA2 layer emits stored chunks followed by
/// state-reset-only LZMA chunks (control 0xA0..0xBF); both directions, raw LZMA2 and .xz
fn run_state_resets(rep: &mut Report, rng: &mut Rng, thorough: bool) {
    for i in 0..(if thorough { 12 } else { 2 }) {
        let mut r = rng.fork();
        let mut data = vec![];
        for _ in 0..r.range(3, 7) {
            let tl = r.range(5_000, 30_000) as usize;
            data.extend(gen_data(&mut r, "text", tl));
            let l = r.range(70_000, 130_000) as usize;
            data.extend(r.bytes(l));
        }
        data.extend(gen_data(&mut r, "text", 20_000));
        let cap = data.len() + 64;
        let lz = LzOpts { dict: 1 << 20, lc: 3, lp: 0, pb: 2, normal: i % 2 == 0, nice: 64, bt4: i % 2 == 0, depth: 0, preset: None };
        let detail = |dir: &str| json!({"direction": dir, "stratum": "state-resets", "data_len": data.len(), "data_fnv": fnv(&data), "opts": lz.json(), "case": i});
        rep.count("stratum.state-resets");
        // ours -> liblzma
        match lzma2_compress(&data, &lz, None, &[data.len()], 0) {
            Outcome::Ok(c) => {
                let has_reset_only = { let mut p = 0usize; let mut prev_stored = false; let mut seen = false; while p < c.len() && c[p] != 0 { let ctl = c[p]; if ctl >= 0x80 { if prev_stored && (0xA0..0xC0).contains(&ctl) { seen = true; } prev_stored = false; let comp = ((c[p + 3] as usize) << 8) + c[p + 4] as usize + 1; p += 5 + if ctl >= 0xC0 { 1 } else { 0 } + comp; } else { prev_stored = true; p += 3 + ((c[p + 1] as usize) << 8) + c[p + 2] as usize + 1; } } seen };
                rep.count(if has_reset_only { "state-resets.present" } else { "state-resets.absent" });
                match lref::lzma2_raw_decode(&c, lz.dict, cap) {
                    Ok(out) if out == data => {}
                    Ok(_) => rep.fail("ref-lzma2-different-data", "liblzma decodes our LZMA2 to different data (state-reset stratum)", detail("ours->liblzma")),
                    Err(e) => rep.fail("ref-lzma2-rejects", &format!("liblzma rejects our LZMA2 (state-reset stratum): {e}"), detail("ours->liblzma")),
                }
            }
            other => rep.fail(&format!("lzma2-write-{}", other.class()), &other.describe(), detail("ours->liblzma")),
        }
        // liblzma -> ours
        if let Ok(mut l) = LzmaOptions::new_preset(if i % 2 == 0 { 6 } else { 1 }) {
            l.dict_size(1 << 20);
            let mut f = Filters::new();
            f.lzma2(&l);
            if let Ok(c) = Stream::new_raw_encoder(&f).map_err(|e| format!("{e:?}")).and_then(|s| lref::run(s, &data, data.len() * 2 + 65536)) {
                match lzma2_decompress(&c, 1 << 20, None, &[65536], cap) {
                    Outcome::Ok((out, used)) if out == data && used == c.len() => {}
                    Outcome::Ok(_) => rep.fail("ours-lzma2-different-data", "we decode liblzma's LZMA2 to different data (state-reset stratum)", detail("liblzma->ours")),
                    other => rep.fail("ours-lzma2-rejects", &format!("we reject liblzma's LZMA2 (state-reset stratum): {}", other.describe()), detail("liblzma->ours")),
                }
            }
        }
        rep.case(format!("state-resets:{}", i % 2), true, || detail("both"));
    }
}

/// ours -> liblzma on data whose period is the dictionary size +- 1 (matches at the very edge of the dictionary)
fn run_dict_edge(rep: &mut Report, rng: &mut Rng, thorough: bool) {
    for (k, (normal, bt4)) in [(false, false), (true, true), (true, false), (false, true)].into_iter().enumerate() {
        for delta in [0i64, 1] {
            let _ = (k, thorough);
            let dict = 4096u32;
            let period = (dict as i64 + delta) as usize;
            let base = rng.bytes(period);
            let data: Vec<u8> = (0..period * 2 + 900).map(|i| base[i % period]).collect();
            let lz = LzOpts { dict, lc: 3, lp: 0, pb: 2, normal, nice: 64, bt4, depth: 0, preset: None };
            let o = XzOpts { lz: lz.clone(), check: 4, block: None, filters: vec![] };
            let detail = || json!({"direction": "ours->liblzma", "stratum": "dict-edge", "period": period, "opts": lz.json(), "data_len": data.len()});
            rep.count("stratum.dict-edge");
            match xz_compress(&data, &o, &[data.len()], 0) {
                Outcome::Ok(c) => match lref::xz_decode(&c, data.len() + 64) {
                    Ok(out) if out == data => {}
                    Ok(_) => rep.fail("ref-xz-different-data", "liblzma decodes our .xz to different data (dict-edge stratum)", detail()),
                    Err(e) => rep.fail("ref-xz-rejects:dict-edge", &format!("liblzma rejects our .xz (period dict{delta:+}): {e}"), detail()),
                },
                other => rep.fail(&format!("xz-write-{}", other.class()), &other.describe(), detail()),
            }
            rep.case(format!("o2r:xz:dict-edge:{delta}:{normal}:{bt4}"), true, || detail());
        }
    }
}

/// raw LZMA1 with dictionary sizes that are not multiples of 16 (no container rounds them) and data longer than
/// the dictionary, both directions: the decoder's position contexts must follow the stream position, not the
/// write index of its cyclic buffer
fn run_raw_odd_dict(rep: &mut Report, rng: &mut Rng, thorough: bool) {
    let cases: &[(u32, u32, u32, u32)] = &[(5001, 3, 0, 2), (4097, 0, 2, 2), (5000, 3, 0, 4), (5000, 0, 4, 0), (4104, 0, 4, 4), (70001, 3, 0, 2), (6007, 1, 3, 3)];
    for (k, &(dict, lc, lp, pb)) in cases.iter().enumerate() {
        if !thorough && k >= 5 {
            break;
        }
        let mut r = rng.fork();
        let kind = *r.pick(&["text", "mixed", "code"]);
        let len = dict as usize * 2 + r.range(500, 9000) as usize;
        let data = gen_data(&mut r, kind, len);
        let detail = |dir: &str| json!({"direction": dir, "stratum": "raw-odd-dict", "dict": dict, "lc": lc, "lp": lp, "pb": pb, "data_kind": kind, "data_len": data.len(), "data_fnv": fnv(&data)});
        rep.count("stratum.raw-odd-dict");
        // liblzma -> ours
        match lref::lzma1_raw_encode(&data, dict, lc, lp, pb) {
            Ok(c) => {
                let lz = LzOpts { dict, lc, lp, pb, normal: false, nice: 32, bt4: false, depth: 0, preset: None };
                for sched in [vec![65536usize], vec![1, 7, 4096]] {
                    match lzma_decompress(&c, &lz, LzmaFmt::RawMarker, u64::MAX, &sched, data.len() + 16) {
                        Outcome::Ok((out, _)) if out == data => {}
                        Outcome::Ok(_) => rep.fail("ours-rejects-ref:raw-lzma1-different-data", "our LZMAReader decodes liblzma's raw LZMA1 stream to different data", detail("liblzma->ours")),
                        other => rep.fail("ours-rejects-ref:raw-lzma1", &format!("our LZMAReader fails on liblzma's raw LZMA1 stream (dict {dict}): {}", other.describe()), detail("liblzma->ours")),
                    }
                }
            }
            Err(e) => rep.fail("ref-encoder-failed", &e, detail("liblzma->ours")),
        }
        // ours -> liblzma
        for (normal, bt4) in [(false, false), (true, true)] {
            let lz = LzOpts { dict, lc, lp, pb, normal, nice: 64, bt4, depth: 0, preset: None };
            match lzma_compress(&data, &lz, LzmaFmt::RawMarker, &[data.len()]) {
                Outcome::Ok(c) => match lref::lzma1_raw_decode(&c, dict, lc, lp, pb, data.len() + 64) {
                    Ok(out) if out == data => {}
                    Ok(_) => rep.fail("ref-lzma1-different-data", "liblzma decodes our raw LZMA1 stream to different data", detail("ours->liblzma")),
                    Err(e) => rep.fail("ref-lzma1-rejects", &format!("liblzma rejects our raw LZMA1 stream (dict {dict}): {e}"), detail("ours->liblzma")),
                },
                other => rep.fail(&format!("lzma-write-{}", other.class()), &other.describe(), detail("ours->liblzma")),
            }
        }
        rep.case(format!("raw-odd-dict:{dict}:{lc}:{lp}:{pb}"), true, || detail("both"));
    }
}

pub fn run(rep: &mut Report, rng: &mut Rng, thorough: bool) {
    run_raw_odd_dict(rep, &mut rng.fork(), thorough);
    run_dict_edge(rep, rng, thorough);
    run_state_resets(rep, rng, thorough);
    run_max_chunk(rep, rng);
    run_crafted(rep, rng, thorough);
    let n = if thorough { 2000 } else { 160 };
    let max = if thorough { 1 << 20 } else { 100 << 10 };
    for i in 0..n {
        let mut r = rng.fork();
        let kind = DATA_KINDS[(i % DATA_KINDS.len() as u64) as usize];
        let dir_ours_to_ref = i % 2 == 0;
        let fmt = *r.pick(&["xz", "xz", "lzma", "lzma2", "lzip"]);
        let lz = gen_lzopts(&mut r, fmt == "xz" || fmt == "lzma2", 1 << 20, false);
        let mut size = gen_size(&mut r, lz.dict, max);
        let mut kind = kind;
        if i % 16 == 15 {
            // incompressible data of at least one maximal stored LZMA2 chunk (64 KiB), both directions
            kind = "random";
            size = 65536 * r.range(1, 3) as usize + *r.pick(&[0usize, 1, 77]);
        }
        let fmt = if i % 16 == 15 { *r.pick(&["xz", "lzma2"]) } else { fmt };
        let data = gen_data(&mut r, kind, size);
        let cap = data.len() + 64;
        rep.count(&format!("{}.{}", if dir_ours_to_ref { "ours->ref" } else { "ref->ours" }, fmt));
        if dir_ours_to_ref {
            let (pstyle, parts) = gen_partition(&mut r, data.len());
            match fmt {
                "xz" => {
                    let o = gen_xzopts(&mut r, 1 << 20, data.len());
                    let detail = || json!({"direction": "ours->liblzma", "format": "xz", "opts": o.json(), "data_kind": kind, "data_len": data.len(), "partition": pstyle, "data_fnv": fnv(&data), "case": i});
                    match xz_compress(&data, &o, &parts, 0) {
                        Outcome::Ok(c) => {
                          if c.len() <= 40_000 {
                              // the strict format decoder (proved to accept the writer model's output) on the REAL writer's bytes
                              rep.model(format!("xz.strict in={} cap={}", hex(&c), cap), format!("ok {} {} {}", data.len(), fnv(&data), c.len()));
                              // structure-aware mutants with recomputed CRCs: strict model and liblzma must give the same verdict
                              for _ in 0..3 {
                                  let mut m = c.clone();
                                  let p = r.below(m.len() as u64) as usize;
                                  m[p] = match r.below(3) { 0 => m[p] ^ (1 << r.below(8)), 1 => m[p].wrapping_add(1), _ => r.next() as u8 };
                                  crate::c06::xz_fix_crcs(&c, &mut m);
                                  if m != c {
                                      let verdict = if lref::xz_decode(&m, cap).is_ok() { "ok" } else { "err" };
                                      rep.model(format!("xz.strict verdict=1 in={} cap={}", hex(&m), cap), verdict.to_string());
                                      rep.count(&format!("strict-vs-liblzma.{verdict}"));
                                  }
                              }
                          }
                          match lref::xz_decode(&c, cap) {
                            Ok(out) if out == data => {}
                            Ok(_) => rep.fail("ref-xz-different-data", "liblzma decodes our .xz to different data", detail()),
                            Err(e) => rep.fail(&format!("ref-xz-rejects:len{}:f{}", size_class(data.len()), o.filters.len()), &format!("liblzma rejects our .xz: {e}"), detail()),
                          }
                        }
                        other => rep.fail(&format!("xz-write-{}", other.class()), &other.describe(), detail()),
                    }
                    rep.case(format!("o2r:xz:{}:{}:{}", kind, size_class(data.len()), o.sig()), !data.is_empty(), || detail());
                }
                "lzip" => {
                    let member = if r.chance(1, 3) { Some((data.len() as u64 / 2).max(1)) } else { None };
                    let detail = || json!({"direction": "ours->liblzma", "format": "lzip", "opts": lz.json(), "member_size": member, "data_kind": kind, "data_len": data.len(), "data_fnv": fnv(&data), "case": i});
                    match lzip_compress(&data, &lz, member, &parts) {
                        Outcome::Ok(c) => match lref::lzip_decode(&c, cap) {
                            Ok(out) if out == data => {}
                            Ok(_) => rep.fail("ref-lzip-different-data", "liblzma decodes our .lz to different data", detail()),
                            Err(e) => rep.fail("ref-lzip-rejects", &format!("liblzma rejects our .lz: {e}"), detail()),
                        },
                        other => rep.fail(&format!("lzip-write-{}", other.class()), &other.describe(), detail()),
                    }
                    rep.case(format!("o2r:lzip:{}:{}:{}", kind, size_class(data.len()), lz.sig()), !data.is_empty(), || detail());
                }
                "lzma" => {
                    let f = *r.pick(&[LzmaFmt::HeaderMarker, LzmaFmt::HeaderSize]);
                    let detail = || json!({"direction": "ours->liblzma", "format": ".lzma", "variant": crate::c01::fmt_name(f), "opts": lz.json(), "data_kind": kind, "data_len": data.len(), "data_fnv": fnv(&data), "case": i});
                    match lzma_compress(&data, &lz, f, &parts) {
                        Outcome::Ok(c) => match lref::lzma_alone_decode(&c, cap) {
                            Ok(out) if out == data => {}
                            Ok(_) => rep.fail("ref-lzma-different-data", "liblzma decodes our .lzma to different data", detail()),
                            Err(e) => rep.fail(&format!("ref-lzma-rejects:{}", if lz.lc + lz.lp > 4 { "lc+lp>4".to_string() } else { crate::c01::fmt_name(f).to_string() }), &format!("liblzma rejects our .lzma: {e}"), detail()),
                        },
                        other => rep.fail(&format!("lzma-write-{}", other.class()), &other.describe(), detail()),
                    }
                    rep.case(format!("o2r:lzma:{}:{}:{}", kind, size_class(data.len()), lz.sig()), !data.is_empty(), || detail());
                }
                _ => {
                    let chunk = if r.chance(1, 3) { Some(lz.dict as u64) } else { None };
                    let detail = || json!({"direction": "ours->liblzma", "format": "raw lzma2", "opts": lz.json(), "chunk_size": chunk, "data_kind": kind, "data_len": data.len(), "data_fnv": fnv(&data), "case": i});
                    match lzma2_compress(&data, &lz, chunk, &parts, 0) {
                        Outcome::Ok(c) => match lref::lzma2_raw_decode(&c, lz.dict, cap) {
                            Ok(out) if out == data => {}
                            Ok(_) => rep.fail("ref-lzma2-different-data", "liblzma decodes our LZMA2 to different data", detail()),
                            Err(e) => rep.fail("ref-lzma2-rejects", &format!("liblzma rejects our LZMA2: {e}"), detail()),
                        },
                        other => rep.fail(&format!("lzma2-write-{}", other.class()), &other.describe(), detail()),
                    }
                    rep.case(format!("o2r:lzma2:{}:{}:{}", kind, size_class(data.len()), lz.sig()), !data.is_empty(), || detail());
                }
            }
        } else {
            // liblzma encodes, we decode
            let l = match ref_opts(&mut r, &lz) {
                Ok(l) => l,
                Err(_) => continue,
            };
            let sched: Vec<usize> = vec![*r.pick(&[1usize, 100, 4096, 65536])];
            match fmt {
                "xz" | "lzip" => {
                    // liblzma cannot write .lz; use .xz for both
                    let fs = gen_filters(&mut r);
                    let check = *r.pick(&[0u8, 1, 4, 10]);
                    let detail = || json!({"direction": "liblzma->ours", "format": "xz", "ref_filters": fs, "check": check, "opts": lz.json(), "data_kind": kind, "data_len": data.len(), "data_fnv": fnv(&data), "case": i});
                    let comp = ref_filters(&fs, &l).and_then(|f| Stream::new_stream_encoder(&f, ref_check(check)).map_err(|e| format!("{e:?}"))).and_then(|s| lref::run(s, &data, data.len() * 2 + 65536));
                    match comp {
                        Ok(c) => {
                            let o = xz_decompress(&c, r.chance(1, 2), &sched, cap);
                            match &o {
                                Outcome::Ok((out, used)) if out == &data && *used == c.len() => {}
                                Outcome::Ok(_) => rep.fail("ours-xz-different-data", "we decode liblzma's .xz to different data / do not consume it", detail()),
                                other => rep.fail(&format!("ours-xz-rejects:f{}", fs.len()), &format!("we reject liblzma's .xz: {}", other.describe()), detail()),
                            }
                            if c.len() <= 60_000 && data.len() <= 60_000 {
                                rep.model(format!("xz.strict in={} cap={}", hex(&c), cap), format!("ok {} {} {}", data.len(), fnv(&data), c.len()));
                                rep.model(crate::cont::model_req("xz", false, &c, cap), crate::cont::canon(&xz_decompress(&c, false, &[4096], cap)));
                            }
                        }
                        Err(_) => {}
                    }
                    rep.case(format!("r2o:xz:{}:{}:f{:?}:c{}", kind, size_class(data.len()), fs.iter().map(|f| f.0).collect::<Vec<_>>(), check), !data.is_empty(), || detail());
                }
                "lzma" => {
                    let detail = || json!({"direction": "liblzma->ours", "format": ".lzma", "opts": lz.json(), "data_kind": kind, "data_len": data.len(), "data_fnv": fnv(&data), "case": i});
                    let comp = Stream::new_lzma_encoder(&l).map_err(|e| format!("{e:?}")).and_then(|s| lref::run(s, &data, data.len() * 2 + 65536));
                    if let Ok(c) = comp {
                        let o = lzma_decompress(&c, &lz, LzmaFmt::HeaderMarker, 0, &sched, cap);
                        match &o {
                            Outcome::Ok((out, used)) if out == &data && *used == c.len() => {}
                            Outcome::Ok(_) => rep.fail("ours-lzma-different-data", "we decode liblzma's .lzma to different data / do not consume it", detail()),
                            other => rep.fail("ours-lzma-rejects", &format!("we reject liblzma's .lzma: {}", other.describe()), detail()),
                        }
                        if c.len() <= 60_000 && data.len() <= 60_000 {
                            if let Outcome::Ok((out, used)) = &o {
                                rep.model(format!("lzma.dec fmt=alone preset=- in={} cap={} reenc=0", hex(&c), cap), format!("ok {} {} {} -", out.len(), fnv(out), used));
                            }
                        }
                    }
                    rep.case(format!("r2o:lzma:{}:{}", kind, size_class(data.len())), !data.is_empty(), || detail());
                }
                _ => {
                    let detail = || json!({"direction": "liblzma->ours", "format": "raw lzma2", "opts": lz.json(), "data_kind": kind, "data_len": data.len(), "data_fnv": fnv(&data), "case": i});
                    let mut f = Filters::new();
                    f.lzma2(&l);
                    let comp = Stream::new_raw_encoder(&f).map_err(|e| format!("{e:?}")).and_then(|s| lref::run(s, &data, data.len() * 2 + 65536));
                    if let Ok(c) = comp {
                        // the dictionary liblzma used may be the preset's: give the reader a dictionary that is large enough
                        let dict = 1u32 << 26;
                        let o = lzma2_decompress(&c, dict, None, &sched, cap);
                        match &o {
                            Outcome::Ok((out, used)) if out == &data && *used == c.len() => {}
                            Outcome::Ok(_) => rep.fail("ours-lzma2-different-data", "we decode liblzma's LZMA2 to different data / do not consume it", detail()),
                            other => rep.fail("ours-lzma2-rejects", &format!("we reject liblzma's LZMA2: {}", other.describe()), detail()),
                        }
                        if c.len() <= 60_000 && data.len() <= 60_000 {
                            if let Outcome::Ok((out, used)) = &o {
                                rep.model(format!("lzma2.dec dict={dict} preset=- in={} cap={} reenc=0", hex(&c), cap), format!("ok {} {} {} -", out.len(), fnv(out), used));
                            }
                        }
                    }
                    rep.case(format!("r2o:lzma2:{}:{}", kind, size_class(data.len())), !data.is_empty(), || detail());
                }
            }
        }
    }
}
