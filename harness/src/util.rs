//! Shared infrastructure: PRNG, data generators, report/transcript writer, panic capture.
use serde_json::{json, Value};
use std::collections::BTreeSet;
use std::io::Write as _;
use std::panic::{catch_unwind, AssertUnwindSafe};

#[derive(Clone)]
pub struct Rng(pub u64);

impl Rng {
    pub fn new(seed: u64) -> Self {
        Rng(seed.wrapping_mul(0x9E3779B97F4A7C15) ^ 0xD1B54A32D192ED03)
    }
    pub fn next(&mut self) -> u64 {
        // splitmix64
        self.0 = self.0.wrapping_add(0x9E3779B97F4A7C15);
        let mut z = self.0;
        z = (z ^ (z >> 30)).wrapping_mul(0xBF58476D1CE4E5B9);
        z = (z ^ (z >> 27)).wrapping_mul(0x94D049BB133111EB);
        z ^ (z >> 31)
    }
    pub fn below(&mut self, n: u64) -> u64 {
        if n == 0 {
            0
        } else {
            self.next() % n
        }
    }
    pub fn range(&mut self, lo: u64, hi: u64) -> u64 {
        lo + self.below(hi - lo + 1)
    }
    pub fn chance(&mut self, num: u64, den: u64) -> bool {
        self.below(den) < num
    }
    pub fn pick<'a, T>(&mut self, xs: &'a [T]) -> &'a T {
        &xs[self.below(xs.len() as u64) as usize]
    }
    pub fn bytes(&mut self, n: usize) -> Vec<u8> {
        let mut v = Vec::with_capacity(n);
        while v.len() < n {
            let x = self.next().to_le_bytes();
            let k = (n - v.len()).min(8);
            v.extend_from_slice(&x[..k]);
        }
        v
    }
    pub fn fork(&mut self) -> Rng {
        Rng(self.next())
    }
}

pub fn hex(b: &[u8]) -> String {
    if b.is_empty() {
        return "-".into();
    }
    let mut s = String::with_capacity(b.len() * 2);
    for x in b {
        s.push_str(&format!("{:02x}", x));
    }
    s
}

pub fn unhex(s: &str) -> Vec<u8> {
    if s == "-" {
        return vec![];
    }
    (0..s.len() / 2)
        .map(|i| u8::from_str_radix(&s[2 * i..2 * i + 2], 16).unwrap())
        .collect()
}

pub fn fnv(b: &[u8]) -> u64 {
    let mut h: u64 = 0xcbf29ce484222325;
    for &x in b {
        h = (h ^ x as u64).wrapping_mul(0x100000001b3);
    }
    h
}

/// Kinds of generated data; the name goes into case signatures.
pub const DATA_KINDS: &[&str] = &[
    "empty", "one", "const", "periodic", "random", "mixed", "text", "lowent", "runs", "code",
];

pub fn gen_data(rng: &mut Rng, kind: &str, size: usize) -> Vec<u8> {
    match kind {
        "empty" => vec![],
        "one" => vec![rng.next() as u8],
        "const" => vec![rng.next() as u8; size],
        "periodic" => {
            let p = rng.range(1, 300) as usize;
            let pat = rng.bytes(p);
            (0..size).map(|i| pat[i % p]).collect()
        }
        "random" => rng.bytes(size),
        "mixed" => {
            let mut v = Vec::with_capacity(size);
            while v.len() < size {
                let n = (rng.range(1, 20000) as usize).min(size - v.len());
                let k = *rng.pick(&["const", "periodic", "random", "text", "lowent"]);
                v.extend(gen_data(rng, k, n));
            }
            v
        }
        "text" => {
            let words: Vec<Vec<u8>> = (0..40)
                .map(|_| {
                    let n = rng.range(1, 9) as usize;
                    (0..n).map(|_| b'a' + rng.below(26) as u8).collect()
                })
                .collect();
            let mut v = Vec::with_capacity(size + 10);
            while v.len() < size {
                let w: &Vec<u8> = rng.pick(&words[..]); v.extend_from_slice(w);
                v.push(if rng.chance(1, 12) { b'\n' } else { b' ' });
            }
            v.truncate(size);
            v
        }
        "lowent" => (0..size).map(|_| (rng.below(4) * 17) as u8).collect(),
        "runs" => {
            let mut v = Vec::with_capacity(size);
            while v.len() < size {
                let n = (rng.range(1, 600) as usize).min(size - v.len());
                let b = rng.next() as u8;
                v.extend(std::iter::repeat(b).take(n));
            }
            v
        }
        "code" => {
            // bytes dense in branch opcodes of several architectures
            let ops: &[u8] = &[0xE8, 0xE9, 0xEB, 0x00, 0xFF, 0x94, 0x90, 0x48, 0x4B, 0x40, 0xF0, 0xF8, 0xEF, 0x17, 0x97, 0x67];
            (0..size)
                .map(|_| if rng.chance(1, 3) { *rng.pick(ops) } else { rng.next() as u8 })
                .collect()
        }
        _ => panic!("unknown data kind {kind}"),
    }
}

pub fn size_class(n: usize) -> &'static str {
    match n {
        0 => "0",
        1 => "1",
        2..=15 => "2-15",
        16..=255 => "16-255",
        256..=4095 => "256-4K",
        4096..=65535 => "4K-64K",
        65536..=1048575 => "64K-1M",
        _ => ">=1M",
    }
}

/// A random partition of `len` into call sizes; styles: one call, bytes, small, primes, random.
pub fn gen_partition(rng: &mut Rng, len: usize) -> (String, Vec<usize>) {
    let style = *rng.pick(&["one", "bytes", "small", "prime", "random", "zeros", "pow2"]);
    let mut v = Vec::new();
    let mut left = len;
    match style {
        "one" => v.push(len),
        "bytes" => {
            if len > 3000 {
                // too many calls otherwise: 1-byte calls for a prefix, rest at once
                for _ in 0..1500 {
                    v.push(1);
                }
                v.push(len - 1500);
            } else {
                v = vec![1; len];
            }
        }
        _ => {
            while left > 0 {
                let n = match style {
                    "small" => rng.range(1, 7) as usize,
                    "prime" => *rng.pick(&[2usize, 3, 5, 7, 11, 13, 4093, 4099, 65537]),
                    "pow2" => 1usize << rng.range(0, 17),
                    "zeros" => {
                        if rng.chance(1, 3) {
                            0
                        } else {
                            rng.range(1, 5000) as usize
                        }
                    }
                    _ => rng.range(1, (len as u64).max(2)) as usize,
                };
                let n = n.min(left);
                v.push(n);
                left -= n;
                if v.len() > 4000 {
                    v.push(left);
                    left = 0;
                }
            }
        }
    }
    if v.is_empty() {
        v.push(0);
    }
    (style.to_string(), v)
}

#[derive(Debug, Clone)]
pub struct Failure {
    pub id: String,
    pub what: String,
    pub detail: Value,
}

/// Collected result of one engine run.
pub struct Report {
    pub property: String,
    pub evaluations: u64,
    pub signatures: BTreeSet<String>,
    pub rule: String,
    pub samples: Vec<Value>,
    pub failures: Vec<Failure>,
    pub dist: std::collections::BTreeMap<String, u64>,
    pub req: Vec<String>,
    pub exp: Vec<String>,
    pub notes: Vec<String>,
    pub max_samples: usize,
}

impl Report {
    pub fn new(property: &str, rule: &str) -> Self {
        Report {
            property: property.into(),
            evaluations: 0,
            signatures: BTreeSet::new(),
            rule: rule.into(),
            samples: vec![],
            failures: vec![],
            dist: Default::default(),
            req: vec![],
            exp: vec![],
            notes: vec![],
            max_samples: 12,
        }
    }
    /// record one evaluated case; `sig` identifies its class, `nontrivial` whether it counts.
    pub fn case(&mut self, sig: String, nontrivial: bool, sample: impl FnOnce() -> Value) {
        HEARTBEAT.fetch_add(1, std::sync::atomic::Ordering::Relaxed);
        self.evaluations += 1;
        if nontrivial && self.signatures.insert(sig) && self.samples.len() < self.max_samples {
            self.samples.push(sample());
        }
    }
    pub fn count(&mut self, key: &str) {
        HEARTBEAT.fetch_add(1, std::sync::atomic::Ordering::Relaxed);
        *self.dist.entry(key.to_string()).or_insert(0) += 1;
    }
    pub fn fail(&mut self, id: &str, what: &str, detail: Value) {
        // keep at most 40 failures, distinct ids first
        if self.failures.len() < 40 {
            self.failures.push(Failure {
                id: id.into(),
                what: what.into(),
                detail,
            });
        }
    }
    /// a request for the Lean model together with the answer the implementation gave
    pub fn model(&mut self, req: String, exp: String) {
        self.req.push(req);
        self.exp.push(exp);
    }
    pub fn write(&self, outdir: &str) {
        std::fs::create_dir_all(outdir).unwrap();
        let p = &self.property;
        let mut f = std::io::BufWriter::new(std::fs::File::create(format!("{outdir}/{p}.req")).unwrap());
        for l in &self.req {
            writeln!(f, "{l}").unwrap();
        }
        let mut f = std::io::BufWriter::new(std::fs::File::create(format!("{outdir}/{p}.exp")).unwrap());
        for l in &self.exp {
            writeln!(f, "{l}").unwrap();
        }
        let j = json!({
            "property": p,
            "evaluations": self.evaluations,
            "distinct_nontrivial": self.signatures.len(),
            "rule": self.rule,
            "samples": self.samples,
            "dist": self.dist,
            "model_requests": self.req.len(),
            "notes": self.notes,
            "failures": self.failures.iter().map(|f| json!({"id": f.id, "what": f.what, "detail": f.detail})).collect::<Vec<_>>(),
        });
        std::fs::write(format!("{outdir}/{p}.json"), serde_json::to_string_pretty(&j).unwrap()).unwrap();
    }
}

/// Outcome of running implementation code under `catch_unwind`.
pub enum Outcome<T> {
    Ok(T),
    Err(std::io::ErrorKind, String),
    Panic(String),
}

pub fn guard<T>(f: impl FnOnce() -> std::io::Result<T>) -> Outcome<T> {
    match catch_unwind(AssertUnwindSafe(f)) {
        Ok(Ok(v)) => Outcome::Ok(v),
        Ok(Err(e)) => Outcome::Err(e.kind(), e.to_string()),
        Err(p) => {
            let msg = if let Some(s) = p.downcast_ref::<String>() {
                s.clone()
            } else if let Some(s) = p.downcast_ref::<&str>() {
                s.to_string()
            } else {
                "panic".into()
            };
            Outcome::Panic(msg)
        }
    }
}

pub fn kind_name(k: std::io::ErrorKind) -> &'static str {
    use std::io::ErrorKind::*;
    match k {
        InvalidData => "InvalidData",
        InvalidInput => "InvalidInput",
        UnexpectedEof => "UnexpectedEof",
        OutOfMemory => "OutOfMemory",
        Unsupported => "Unsupported",
        WriteZero => "WriteZero",
        Interrupted => "Interrupted",
        BrokenPipe => "BrokenPipe",
        Other => "Other",
        _ => "Io",
    }
}

impl<T> Outcome<T> {
    pub fn class(&self) -> String {
        match self {
            Outcome::Ok(_) => "ok".into(),
            Outcome::Err(k, _) => format!("err:{}", kind_name(*k)),
            Outcome::Panic(_) => "panic".into(),
        }
    }
    pub fn describe(&self) -> String {
        match self {
            Outcome::Ok(_) => "ok".into(),
            Outcome::Err(k, m) => format!("err:{}:{}", kind_name(*k), m),
            Outcome::Panic(m) => format!("panic:{m}"),
        }
    }
}

/// Read everything from `r` with the given sequence of buffer sizes (cycled), capped at `cap` bytes.
/// A zero-sized buffer in the schedule performs a zero-length read (which must return 0 and not
/// disturb the stream) and is not treated as EOF.
pub fn read_all_sched<R: std::io::Read>(r: &mut R, sched: &[usize], cap: usize) -> std::io::Result<Vec<u8>> {
    let mut out = Vec::new();
    let mut i = 0;
    let mut buf = vec![0u8; sched.iter().copied().max().unwrap_or(4096).max(1)];
    loop {
        let n = if sched.is_empty() { 4096 } else { sched[i % sched.len()] };
        i += 1;
        let got = loop {
            match r.read(&mut buf[..n]) {
                Ok(g) => break g,
                Err(e) if e.kind() == std::io::ErrorKind::Interrupted => continue,
                Err(e) => {
                    // a caller may call again after an error: those calls must return as well (whatever they
                    // return); a panic here reaches the caller's catch_unwind, a hang the watchdog
                    // ... and once a reader has found its input corrupt it must not hand out further bytes as
                    // decoded data (C04/C05/C06: "error or exactly the original", per call): the oracles treat
                    // this panic like a panic of the code under test, with the case as the replay
                    for _ in 0..2 {
                        let mut extra = [0u8; 13];
                        if let Ok(n) = r.read(&mut extra) {
                            if n > 0 && e.kind() == std::io::ErrorKind::InvalidData {
                                panic!("read() after an InvalidData error (\"{e}\") returned Ok({n}): bytes handed out as decoded data by {} after it had found the stream corrupt", std::any::type_name::<R>());
                            }
                        }
                    }
                    return Err(e);
                }
            }
        };
        if n == 0 {
            if got != 0 {
                return Err(std::io::Error::other("zero-length read returned non-zero"));
            }
            if sched.iter().all(|&x| x == 0) {
                return Ok(out);
            }
            continue;
        }
        if got == 0 {
            // end of stream is sticky: reading again must neither deliver data, nor fail, nor touch the source
            // (the callers compare the source position afterwards)
            for _ in 0..2 {
                let mut extra = [0u8; 13];
                match r.read(&mut extra) {
                    Ok(0) => {}
                    Ok(k) => return Err(std::io::Error::other(format!("read-after-eof: {k} more bytes after the reader had reported the end of the stream"))),
                    Err(e) if e.kind() == std::io::ErrorKind::Interrupted => {}
                    Err(e) => return Err(std::io::Error::other(format!("read-after-eof: error after the reader had reported the end of the stream: {e}"))),
                }
            }
            return Ok(out);
        }
        out.extend_from_slice(&buf[..got]);
        if out.len() > cap {
            return Err(std::io::Error::other("output-cap-exceeded"));
        }
    }
}

pub fn write_parts<W: std::io::Write>(w: &mut W, data: &[u8], parts: &[usize], flush_every: usize) -> std::io::Result<()> {
    let mut off = 0;
    for (i, &n) in parts.iter().enumerate() {
        let n = n.min(data.len() - off);
        w.write_all(&data[off..off + n])?;
        off += n;
        if flush_every > 0 && (i + 1) % flush_every == 0 {
            w.flush()?;
        }
    }
    if off < data.len() {
        w.write_all(&data[off..])?;
    }
    Ok(())
}

pub fn install_quiet_panic_hook() {
    std::panic::set_hook(Box::new(|_| {}));
}

/// A valid LZMA2 stream whose single LZMA chunk has the MAXIMAL compressed size (size field 0xFFFF = 65536
/// bytes; no encoder in this crate or in liblzma emits it, the format allows it): the chunk body is a raw LZMA
/// stream (no end marker) of incompressible data whose length is searched so that the range coder emits
/// exactly 65536 bytes.  Returns (stream, data).
#[allow(dead_code)]
pub fn lzma2_max_compressed_chunk(seed: u64) -> Option<(Vec<u8>, Vec<u8>)> {
    use lzma_rust2::{EncodeMode, LZMAOptions, LZMAWriter, MFType};
    let mut rng = Rng::new(seed ^ 0xC0FFEE);
    let all = rng.bytes(66_000);
    let o = LZMAOptions::new(1 << 16, 3, 0, 2, EncodeMode::Fast, 32, MFType::HC4, 4);
    let props = (2 * 5 + 0) * 9 + 3u8;
    for len in (64_000..65_536).rev() {
        let mut w = LZMAWriter::new_no_header(Vec::new(), &o, false).ok()?;
        w.write_all(&all[..len]).ok()?;
        let body = w.finish().ok()?;
        if body.len() == 65_536 {
            let mut s = vec![0xE0 | (((len - 1) >> 16) as u8), ((len - 1) >> 8) as u8, (len - 1) as u8, 0xFF, 0xFF, props];
            s.extend(body);
            s.push(0);
            return Some((s, all[..len].to_vec()));
        }
        if body.len() < 65_000 {
            break;
        }
    }
    None
}

/// An in-memory `Read + Seek` source that fails after a budget of read/seek calls: a reader that loops on it
/// without making progress ends with an error instead of hanging the engine.
#[allow(dead_code)]
pub struct BudgetCursor {
    pub inner: std::io::Cursor<Vec<u8>>,
    pub left: u64,
    /// at most this many bytes per read call (a legal short-reading source); 0 = no limit
    pub max_read: usize,
}
#[allow(dead_code)]
impl BudgetCursor {
    pub fn new(data: Vec<u8>, budget: u64) -> Self {
        BudgetCursor { inner: std::io::Cursor::new(data), left: budget, max_read: 0 }
    }
    pub fn short(data: Vec<u8>, budget: u64, max_read: usize) -> Self {
        BudgetCursor { inner: std::io::Cursor::new(data), left: budget, max_read }
    }
    fn spend(&mut self) -> std::io::Result<()> {
        if self.left == 0 {
            return Err(std::io::Error::other("call-budget-exhausted"));
        }
        self.left -= 1;
        Ok(())
    }
}
impl std::io::Read for BudgetCursor {
    fn read(&mut self, buf: &mut [u8]) -> std::io::Result<usize> {
        self.spend()?;
        let n = if self.max_read > 0 { buf.len().min(self.max_read) } else { buf.len() };
        self.inner.read(&mut buf[..n])
    }
}
impl std::io::Seek for BudgetCursor {
    fn seek(&mut self, pos: std::io::SeekFrom) -> std::io::Result<u64> {
        self.spend()?;
        self.inner.seek(pos)
    }
}

// ---------------------------------------------------------------------------------------------------------
// Watchdog: a decoder (or writer) that never returns would stall the whole engine.  Engines announce the case
// they are about to run with `progress`; if nothing is announced or recorded for `HANG_SECS` seconds the
// watchdog thread writes a report that contains the hang as a failure (with the announced case as the replay)
// and ends the process.
pub static HEARTBEAT: std::sync::atomic::AtomicU64 = std::sync::atomic::AtomicU64::new(0);
pub static CURRENT_CASE: std::sync::Mutex<String> = std::sync::Mutex::new(String::new());
#[allow(dead_code)]
pub const HANG_SECS: u64 = 150;

#[allow(dead_code)]
pub fn progress(what: &str) {
    HEARTBEAT.fetch_add(1, std::sync::atomic::Ordering::Relaxed);
    if let Ok(mut g) = CURRENT_CASE.lock() {
        g.clear();
        g.push_str(what);
    }
}

#[allow(dead_code)]
pub fn start_watchdog(property: String, outdir: String) {
    std::thread::spawn(move || {
        let mut last = HEARTBEAT.load(std::sync::atomic::Ordering::Relaxed);
        let mut idle = 0u64;
        loop {
            std::thread::sleep(std::time::Duration::from_secs(5));
            let now = HEARTBEAT.load(std::sync::atomic::Ordering::Relaxed);
            if now != last {
                last = now;
                idle = 0;
                continue;
            }
            idle += 5;
            if idle >= HANG_SECS {
                let cur = CURRENT_CASE.lock().map(|g| g.clone()).unwrap_or_default();
                let rep = json!({
                    "property": property, "evaluations": now, "distinct_nontrivial": 0,
                    "failures": [{"id": "engine-hang", "what": format!("no progress for {HANG_SECS} s: the call under test did not return (endless loop / deadlock)"), "detail": {"case_in_progress": cur}}],
                    "model_requests": 0, "notes": ["written by the watchdog"], "rule": "", "samples": [], "dist": {}
                });
                let _ = std::fs::write(format!("{outdir}/{property}.json"), serde_json::to_string_pretty(&rep).unwrap());
                let _ = std::fs::write(format!("{outdir}/{property}.req"), "");
                let _ = std::fs::write(format!("{outdir}/{property}.exp"), "");
                println!("{property} evaluations={now} distinct=0 failures=1 model_requests=0 (watchdog: hang)");
                std::process::exit(0);
            }
        }
    });
}
