//! Container engines: C04 (corruption never yields different data), C12 (concatenation),
//! C16 (exact consumption).  Real XZ/LZIP readers vs. the Lean container models + the properties' oracles.
use crate::codec::*;
use crate::util::*;
use serde_json::json;

#[derive(Clone)]
pub struct ValidFile {
    pub name: String,
    pub fmt: &'static str, // "xz" | "lzip"
    pub bytes: Vec<u8>,
    pub data: Vec<u8>,
    pub check: u8,
}

fn small_lz(rng: &mut Rng) -> LzOpts {
    let mut o = gen_lzopts(rng, true, 1 << 16, false);
    o.preset = None;
    o
}

/// a family of small valid files made by the crate's own writers
pub fn valid_files(rng: &mut Rng, n_each: usize, max_len: usize) -> Vec<ValidFile> {
    let mut v = Vec::new();
    for i in 0..n_each {
        for &check in &[0u8, 1, 4, 10] {
            let kind = *rng.pick(&["text", "random", "periodic", "runs", "code"]);
            let len = if i == 0 && check == 1 { 0 } else { rng.range(1, max_len as u64) as usize };
            let data = gen_data(rng, kind, len);
            let filters = if rng.chance(1, 3) { gen_filters(rng) } else { vec![] };
            let block = if rng.chance(1, 3) && len > 8 { Some((len / 3).max(1) as u64) } else { None };
            let mut lz = small_lz(rng);
            if block.is_some() {
                lz.dict = 4096;
            }
            let o = XzOpts { lz, check, block, filters };
            if let Outcome::Ok(bytes) = xz_compress(&data, &o, &[data.len()], 0) {
                v.push(ValidFile { name: format!("xz-chk{check}-{kind}-{len}-f{}-b{}", o.filters.len(), block.is_some()), fmt: "xz", bytes, data, check });
            }
        }
        let kind = *rng.pick(&["text", "random", "periodic", "runs"]);
        let len = if i == 0 { 0 } else { rng.range(1, max_len as u64) as usize };
        let data = gen_data(rng, kind, len);
        let mut lz = small_lz(rng);
        let member = if rng.chance(1, 2) && len > 8 { lz.dict = 4096; Some(4096u64) } else { None };
        if let Outcome::Ok(bytes) = lzip_compress(&data, &lz, member, &[data.len()]) {
            v.push(ValidFile { name: format!("lzip-{kind}-{len}-m{}", member.is_some()), fmt: "lzip", bytes, data, check: 1 });
        }
        // several members (one of them possibly empty), as `cat a.lz b.lz` produces
        {
            let mut bytes = vec![];
            let mut data = vec![];
            let k = rng.range(2, 4);
            let empty_at = if rng.chance(1, 2) { Some(rng.below(k)) } else { None };
            for j in 0..k {
                let l = if empty_at == Some(j) { 0 } else { rng.range(1, (max_len as u64 / 2).max(2)) as usize };
                let d = gen_data(rng, "text", l);
                let lz = small_lz(rng);
                if let Outcome::Ok(c) = lzip_compress(&d, &lz, None, &[d.len()]) {
                    bytes.extend(c);
                    data.extend(d);
                }
            }
            v.push(ValidFile { name: format!("lzip-members{k}-empty{}", empty_at.map(|e| e as i64).unwrap_or(-1)), fmt: "lzip", bytes, data, check: 1 });
        }
    }
    v
}

pub fn real_decode(fmt: &str, multi: bool, bytes: &[u8], cap: usize) -> Outcome<(Vec<u8>, usize)> {
    if fmt == "xz" {
        xz_decompress(bytes, multi, &[4096], cap)
    } else {
        lzip_decompress(bytes, &[4096], cap)
    }
}

pub fn canon(o: &Outcome<(Vec<u8>, usize)>) -> String {
    match o {
        Outcome::Ok((out, used)) => format!("ok {} {} {}", out.len(), fnv(out), used),
        Outcome::Err(k, m) => {
            if m.contains("output-cap-exceeded") {
                "capped".into()
            } else {
                format!("err {}", kind_name(*k))
            }
        }
        Outcome::Panic(_) => "panic".into(),
    }
}

/// What the reader MODEL is expected to answer for these bytes: exactly what the real reader answers with 4096-byte
/// reads.  (Until the LZMA reader model followed the order of events at the end of `LZMADecoder::decode` - no final
/// normalisation before a "dist overflow" is returned - a finer read schedule was consulted here when the coarse one said
/// `Other`; that rule is gone: the error class of the readers does not depend on the buffer sizes, see `class_sched`.)
pub fn expected(fmt: &str, multi: bool, bytes: &[u8], cap: usize) -> String {
    canon(&real_decode(fmt, multi, bytes, cap))
}

/// The error CLASS must not depend on the sizes of the caller's buffers (C07 for corrupt input): decode with 1-byte
/// reads as well and compare the class with the 4096-byte run.  `capped` on either side is not compared (the cap is
/// checked per call).  Returns a description if the two schedules disagree.
pub fn class_sched(fmt: &str, multi: bool, bytes: &[u8], cap: usize) -> Option<String> {
    let coarse = canon(&real_decode(fmt, multi, bytes, cap));
    let fine = canon(&if fmt == "xz" { xz_decompress(bytes, multi, &[1], cap) } else { lzip_decompress(bytes, &[1], cap) });
    if coarse == "capped" || fine == "capped" || coarse == fine {
        None
    } else {
        Some(format!("4096-byte reads: {coarse}; 1-byte reads: {fine}"))
    }
}

/// model request + expected answer for one input, and the schedule check of the error class (inputs up to 64 KiB)
pub fn model_case(rep: &mut Report, fmt: &str, multi: bool, bytes: &[u8], cap: usize) {
    rep.model(model_req(fmt, multi, bytes, cap), expected(fmt, multi, bytes, cap));
    if bytes.len() <= 65536 {
        rep.count("class-sched.compared");
        if let Some(d) = class_sched(fmt, multi, bytes, cap) {
            rep.fail(&format!("error-class-depends-on-read-sizes:{fmt}"), &format!("the reader's answer depends on the sizes of the caller's buffers ({d})"), json!({"format": fmt, "multi": multi, "cap": cap, "input_hex": if bytes.len() <= 2000 { hex(bytes) } else { format!("fnv:{}", fnv(bytes)) }}));
        }
    }
}

pub fn model_req(fmt: &str, multi: bool, bytes: &[u8], cap: usize) -> String {
    if fmt == "xz" {
        format!("xz.dec multi={} in={} cap={}", multi as u8, hex(bytes), cap)
    } else {
        format!("lzip.dec in={} cap={}", hex(bytes), cap)
    }
}

/// one corrupted variant: decode with the real reader, compare with the model, apply the C04 oracle
fn check_mutant(rep: &mut Report, f: &ValidFile, mutant: &[u8], what: &str, model: bool) {
    let cap = f.data.len() * 2 + 4096;
    let o = real_decode(f.fmt, false, mutant, cap);
    rep.count(&format!("outcome.{}", o.class()));
    if model {
        model_case(rep, f.fmt, false, mutant, cap);
    }
    let detail = || json!({"file": f.name, "format": f.fmt, "mutation": what, "file_len": f.bytes.len(), "mutant_hex": if mutant.len() <= 400 { hex(mutant) } else { format!("fnv:{}", fnv(mutant)) }, "original_hex": if f.bytes.len() <= 400 { hex(&f.bytes) } else { "-".into() }});
    match &o {
        Outcome::Ok((out, _)) => {
            if out != &f.data && f.check != 0 {
                // LZIP: losing whole trailing members whose magic is damaged is what the format defines
                let tolerated = f.fmt == "lzip" && f.data.starts_with(out) && lzip_prefix_members(&f.bytes, mutant, out.len());
                if !tolerated {
                    let id = if f.fmt == "lzip" && mutant.is_empty() { "corrupt-accepted:lzip:empty-input".to_string() } else { format!("corrupt-accepted:{}:{}", f.fmt, what.split('@').next().unwrap_or(what)) };
                    rep.fail(&id, "corrupted file decoded successfully to different data", detail());
                }
            }
        }
        Outcome::Panic(m) => rep.fail(&format!("corrupt-panic:{}", f.fmt), &format!("reader panicked on corrupted input: {m}"), detail()),
        Outcome::Err(..) => {}
    }
    // the multi-threaded LZIP reader (backward member scan) on the same bytes: error or the original, and it must
    // come back (the source fails after a budget of calls)
    if f.fmt == "lzip" {
        let m2 = mutant.to_vec();
        let o = guard(|| {
            let mut r = lzma_rust2::LZIPReaderMT::new(BudgetCursor::new(m2, 200_000), 2)?;
            read_all_sched(&mut r, &[4096], cap)
        });
        rep.count(&format!("outcome-mt.{}", o.class()));
        match &o {
            Outcome::Ok(out) => {
                // (as for the single-threaded reader: a file cut exactly at a member boundary, or whose later member has
                //  a damaged magic, is by the format's definition a complete shorter file)
                let tolerated = f.data.starts_with(out) && lzip_prefix_members(&f.bytes, mutant, out.len());
                if out != &f.data && !tolerated {
                    rep.fail(&format!("corrupt-accepted:lzip-mt:{}", what.split('@').next().unwrap_or(what)), &format!("LZIPReaderMT decoded a corrupted file successfully to different data ({} bytes, original {})", out.len(), f.data.len()), detail());
                }
            }
            Outcome::Err(_, m) if m.contains("call-budget-exhausted") => rep.fail("decoder-hang:lzip-mt", "LZIPReaderMT made more than 200000 read/seek calls on a small corrupted file (no progress)", detail()),
            Outcome::Panic(m) => rep.fail("corrupt-panic:lzip-mt", &format!("LZIPReaderMT panicked on corrupted input: {m}"), detail()),
            Outcome::Err(..) => {}
        }
    }
}

/// an edit that makes the container lie about itself (CRCs recomputed): the property tolerates "exactly the
/// original content", so success with the original data is not a violation; anything else is
fn check_mutant_strict(rep: &mut Report, f: &ValidFile, mutant: &[u8], what: &str) {
    check_mutant(rep, f, mutant, what, mutant.len() <= 3000)
}

/// true if `out_len` bytes are exactly the data of the leading members of the original file and the
/// mutant differs from the original only at/after the start of the first lost member, whose magic is damaged
fn lzip_prefix_members(orig: &[u8], mutant: &[u8], out_len: usize) -> bool {
    // walk the members of the original file using their trailers
    let mut pos = 0usize;
    let mut data = 0usize;
    let mut bounds = vec![(0usize, 0usize)];
    // member sizes are stored in the last 8 bytes of each member; scan forward using data sizes is not
    // possible without decoding, so scan backward from the end
    let mut ends = vec![];
    let mut end = orig.len();
    while end >= 26 {
        let ms = u64::from_le_bytes(orig[end - 8..end].try_into().unwrap()) as usize;
        let ds = u64::from_le_bytes(orig[end - 16..end - 8].try_into().unwrap()) as usize;
        if ms == 0 || ms > end {
            break;
        }
        ends.push((end - ms, ds));
        end -= ms;
    }
    ends.reverse();
    for (start, ds) in ends {
        let _ = pos;
        pos = start;
        bounds.push((start, data));
        data += ds;
        let _ = data;
    }
    // find the member boundary whose cumulative data size equals out_len
    let mut cum = 0usize;
    let mut end2 = orig.len();
    let mut starts = vec![];
    while end2 >= 26 {
        let ms = u64::from_le_bytes(orig[end2 - 8..end2].try_into().unwrap()) as usize;
        if ms == 0 || ms > end2 {
            break;
        }
        starts.push(end2 - ms);
        end2 -= ms;
    }
    starts.reverse();
    let mut idx = 0;
    for (i, &s) in starts.iter().enumerate() {
        let e = if i + 1 < starts.len() { starts[i + 1] } else { orig.len() };
        let ds = u64::from_le_bytes(orig[e - 16..e - 8].try_into().unwrap()) as usize;
        // a boundary AFTER at least one complete member (empty members give several boundaries with the same
        // cumulative size: any of them qualifies)
        if cum == out_len && i >= 1 {
            idx = i;
            // the first lost member starts at s: its magic must be damaged in the mutant, and the retained members are
            // the original ones - except for their dictionary-size byte (offset 5 of each member), which no field of the
            // format protects: a larger dictionary decodes the same bytes
            // (also a bit of the range coder's unread flush tail may differ without any field of the format noticing.)
            // So: the retained part must either be the original bytes up to the dictionary-size bytes, or - standing
            // alone as a file - decode to exactly the same `out_len` bytes, i.e. consist of members whose CRC-32, data
            // size and member size all verify for the original data.
            let same_prefix = mutant.len() >= s
                && ((0..s).all(|k| mutant[k] == orig[k] || starts[..i].iter().any(|&st| k == st + 5))
                    || matches!((lzip_decompress(&mutant[..s], &[4096], out_len + 16), lzip_decompress(&orig[..s], &[4096], out_len + 16)),
                        (Outcome::Ok((a, _)), Outcome::Ok((b, _))) if a == b && a.len() == out_len));
            let magic_damaged = mutant.len() < s + 4 || &mutant[s..s + 4] != b"LZIP";
            let _ = idx;
            if same_prefix && magic_damaged {
                return true;
            }
        }
        cum += ds;
    }
    false
}

/// LZIP files whose members hold 64 KiB of data and more (large members may take other code paths in the readers
/// than small ones): flips in the last bytes of each member's payload and in every trailer field, and trailer sizes
/// rewritten to smaller / larger values, through LZIPReader and LZIPReaderMT
fn run_c04_big_members(rep: &mut Report, rng: &mut Rng, thorough: bool) {
    for round in 0..(if thorough { 4 } else { 1 }) {
        let mut r = rng.fork();
        let mut bytes = vec![];
        let mut data = vec![];
        let mut ends = vec![];
        let sizes = [70_000usize + 1000 * round, 210_000, 3000];
        for (k, l) in sizes.iter().enumerate() {
            let d = gen_data(&mut r, ["text", "mixed", "text"][k], *l);
            let lz = LzOpts { dict: 65536, lc: 3, lp: 0, pb: 2, normal: false, nice: 32, bt4: false, depth: 0, preset: None };
            if let Outcome::Ok(c) = lzip_compress(&d, &lz, None, &[d.len()]) {
                bytes.extend(c);
                data.extend(d);
                ends.push(bytes.len());
            }
        }
        let f = ValidFile { name: format!("lzip-big-members-{round}"), fmt: "lzip", bytes, data, check: 1 };
        rep.count("file.lzip-big");
        match real_decode("lzip", false, &f.bytes, f.data.len() + 64) {
            Outcome::Ok((out, _)) if out == f.data => {}
            other => rep.fail("valid-file-rejected", &format!("valid file not decoded: {}", other.describe()), json!({"file": f.name})),
        }
        for (mi, &end) in ends.iter().enumerate() {
            // single-bit flips in the last 24 payload bytes and the whole trailer (a sample of bits in quick)
            for off in 1..=44usize {
                for bit in 0..8u8 {
                    if !thorough && (off * 8 + bit as usize) % 5 != round % 5 {
                        continue;
                    }
                    let mut m = f.bytes.clone();
                    m[end - off] ^= 1 << bit;
                    check_mutant(rep, &f, &m, &format!("bigmember{mi}-flip@end-{off}.{bit}"), false);
                    rep.evaluations += 1;
                }
            }
            // data_size (trailer bytes 4..12) and member_size (12..20) rewritten
            let ds = u64::from_le_bytes(f.bytes[end - 16..end - 8].try_into().unwrap());
            for nv in [ds / 2, 65536, 65537, ds - 1, ds + 1, ds.saturating_sub(4096), 0] {
                let mut m = f.bytes.clone();
                m[end - 16..end - 8].copy_from_slice(&nv.to_le_bytes());
                check_mutant(rep, &f, &m, &format!("bigmember{mi}-datasize={nv}"), false);
                rep.evaluations += 1;
            }
        }
        rep.case(format!("lzip-big-members:{round}"), true, || json!({"file": f.name, "len": f.bytes.len()}));
    }
}

/// what the backward member scan of `LZIPReaderMT::new` answers for these bytes, in the vocabulary of the
/// driver's `lzip.scan` (model `Guards.scanFile`)
pub fn mt_scan_answer(bytes: &[u8]) -> String {
    let b = bytes.to_vec();
    match guard(|| Ok(lzma_rust2::LZIPReaderMT::new(BudgetCursor::new(b, 300_000), 1)?.member_count())) {
        Outcome::Ok(n) => format!("ok {n}"),
        Outcome::Err(k, _) => format!("err {}", kind_name(k)),
        Outcome::Panic(_) => "panic".to_string(),
    }
}

/// Bytes in FRONT of the first member (the backward scan of LZIPReaderMT arrives there last, the forward reader
/// first): 1..=25 bytes of junk in front of valid single- and multi-member files, and multi-member files whose first
/// member is cut down to its last 1..=25 bytes, through LZIPReader and LZIPReaderMT.  No tolerance applies here
/// (the format ignores bytes only AFTER a complete member): success with anything but the full original data is
/// a failure of the property.  The reader model and the scan model must give the real readers' answers.
fn run_c04_leading(rep: &mut Report, rng: &mut Rng, thorough: bool) {
    let mut files: Vec<ValidFile> = vec![];
    let rounds = if thorough { 6 } else { 2 };
    for round in 0..rounds {
        let mut r = rng.fork();
        // single member
        let len = r.range(1, if thorough { 2000 } else { 300 }) as usize;
        let kind = *r.pick(&["text", "random", "runs"]);
        let d = gen_data(&mut r, kind, len);
        if let Outcome::Ok(c) = lzip_compress(&d, &small_lz(&mut r), None, &[d.len()]) {
            files.push(ValidFile { name: format!("lzip-lead-single-{round}"), fmt: "lzip", bytes: c, data: d, check: 1 });
        }
        // 2..=4 members, every one with data (so that a lost member is visible in the output)
        let k = r.range(2, 4) as usize;
        let (mut bytes, mut data, mut first) = (vec![], vec![], 0usize);
        for j in 0..k {
            let l = r.range(1, if thorough { 1500 } else { 200 }) as usize;
            let d = gen_data(&mut r, ["text", "periodic", "random", "runs"][j % 4], l);
            if let Outcome::Ok(c) = lzip_compress(&d, &small_lz(&mut r), None, &[d.len()]) {
                if bytes.is_empty() {
                    first = c.len();
                }
                bytes.extend(c);
                data.extend(d);
            }
        }
        files.push(ValidFile { name: format!("lzip-lead-members{k}-{round}-first{first}"), fmt: "lzip", bytes, data, check: 1 });
        // the 3-member shape of the finding: 10000 bytes in members of 4096 + 4096 + 1808 (LZIPWriter's member size)
        if round == 0 {
            let d = gen_data(&mut r, "text", 10000);
            let mut lz = small_lz(&mut r);
            lz.dict = 4096;
            if let Outcome::Ok(c) = lzip_compress(&d, &lz, Some(4096), &[d.len()]) {
                files.push(ValidFile { name: "lzip-lead-writer-members-10000".into(), fmt: "lzip", bytes: c, data: d, check: 1 });
            }
        }
    }
    for f in &files {
        rep.count("file.lzip-leading");
        let cap = f.data.len() * 2 + 4096;
        // first member's size: walk the trailers from the end
        let mut starts = vec![];
        let mut end = f.bytes.len();
        while end >= 26 {
            let ms = u64::from_le_bytes(f.bytes[end - 8..end].try_into().unwrap()) as usize;
            if ms == 0 || ms > end {
                break;
            }
            end -= ms;
            starts.push(end);
        }
        starts.reverse();
        if starts.first() != Some(&0) {
            rep.fail("valid-file-rejected", "generator: the members of a written LZIP file do not tile it", json!({"file": f.name}));
            continue;
        }
        rep.model(format!("lzip.scan in={}", hex(&f.bytes)), format!("ok {}", starts.len()));
        if mt_scan_answer(&f.bytes) != format!("ok {}", starts.len()) {
            rep.fail("valid-file-rejected", &format!("LZIPReaderMT::new on a valid file of {} members: {}", starts.len(), mt_scan_answer(&f.bytes)), json!({"file": f.name}));
        }
        let mut mutants: Vec<(String, Vec<u8>)> = vec![];
        for n in 1..=25usize {
            // junk of several kinds: random, zeros, the magic (whole / a fragment / repeated), the tail of a real trailer
            let kinds: &[&str] = if thorough { &["random", "zero", "magic", "trailer", "text"] } else { &["random", "magic", "trailer"] };
            for &jk in kinds {
                let junk: Vec<u8> = match jk {
                    "random" => rng.bytes(n),
                    "zero" => vec![0u8; n],
                    "magic" => b"LZIP".iter().cycle().take(n).cloned().collect(),
                    "trailer" => f.bytes[f.bytes.len() - n..].to_vec(),
                    _ => gen_data(rng, "text", n),
                };
                let mut m = junk;
                m.extend(&f.bytes);
                mutants.push((format!("leading-junk-{jk}+{n}"), m));
            }
            if starts.len() >= 2 && starts[1] > n {
                // all but the last n bytes of the first member deleted
                mutants.push((format!("first-member-cut-to-last+{n}"), f.bytes[starts[1] - n..].to_vec()));
            }
        }
        for (what, m) in &mutants {
            let detail = || json!({"file": f.name, "format": "lzip", "mutation": what, "file_len": f.bytes.len(), "members": starts.len(), "mutant_hex": if m.len() <= 400 { hex(m) } else { format!("fnv:{}", fnv(m)) }});
            let class = what.split('+').next().unwrap_or(what).to_string();
            // LZIPReader
            let o = real_decode("lzip", false, m, cap);
            rep.count(&format!("leading.outcome.{}", o.class()));
            if m.len() <= 3000 {
                rep.model(model_req("lzip", false, m, cap), expected("lzip", false, m, cap));
                rep.model(format!("lzip.scan in={}", hex(m)), mt_scan_answer(m));
            }
            match &o {
                Outcome::Ok((out, _)) if out != &f.data => rep.fail(&format!("corrupt-accepted:lzip:{class}"), &format!("LZIPReader decoded a file with damaged front successfully to different data ({} bytes, original {})", out.len(), f.data.len()), detail()),
                Outcome::Panic(p) => rep.fail("corrupt-panic:lzip", &format!("reader panicked on corrupted input: {p}"), detail()),
                _ => {}
            }
            // LZIPReaderMT
            let m2 = m.clone();
            let workers = *rng.pick(&[1u32, 2, 4]);
            let o = guard(|| {
                let mut r = lzma_rust2::LZIPReaderMT::new(BudgetCursor::new(m2, 200_000), workers)?;
                read_all_sched(&mut r, &[4096], cap)
            });
            rep.count(&format!("leading.outcome-mt.{}", o.class()));
            match &o {
                Outcome::Ok(out) if out != &f.data => rep.fail(&format!("corrupt-accepted:lzip-mt:{class}"), &format!("LZIPReaderMT decoded a file with damaged front successfully to different data ({} bytes, original {})", out.len(), f.data.len()), detail()),
                Outcome::Ok(_) => rep.count("leading.mt-accepted-with-original-data"),
                Outcome::Err(_, e) if e.contains("call-budget-exhausted") => rep.fail("decoder-hang:lzip-mt", "LZIPReaderMT made more than 200000 read/seek calls on a small corrupted file (no progress)", detail()),
                Outcome::Panic(p) => rep.fail("corrupt-panic:lzip-mt", &format!("LZIPReaderMT panicked on corrupted input: {p}"), detail()),
                Outcome::Err(..) => {}
            }
            rep.evaluations += 2;
        }
        rep.case(format!("leading:{}", f.name), true, || json!({"file": f.name, "len": f.bytes.len(), "members": starts.len(), "mutants": mutants.len()}));
    }
}

pub fn run_c04(rep: &mut Report, rng: &mut Rng, thorough: bool) {
    run_c04_big_members(rep, &mut rng.fork(), thorough);
    run_c04_leading(rep, &mut rng.fork(), thorough);
    let files = valid_files(rng, if thorough { 8 } else { 2 }, if thorough { 1200 } else { 120 });
    for f in &files {
        rep.count(&format!("file.{}", f.fmt));
        // sanity: the valid file decodes
        let o = real_decode(f.fmt, false, &f.bytes, f.data.len() + 64);
        rep.model(model_req(f.fmt, false, &f.bytes, f.data.len() + 64), canon(&o));
        match &o {
            Outcome::Ok((out, _)) if out == &f.data => {}
            other => rep.fail("valid-file-rejected", &format!("valid file not decoded: {}", other.describe()), json!({"file": f.name})),
        }
        // every single-bit flip
        let exhaustive = f.bytes.len() <= if thorough { 2200 } else { 260 };
        let nbits = f.bytes.len() * 8;
        let flips: Vec<usize> = if exhaustive { (0..nbits).collect() } else { (0..600).map(|_| rng.below(nbits as u64) as usize).collect() };
        for bit in flips {
            let mut m = f.bytes.clone();
            m[bit / 8] ^= 1 << (bit % 8);
            check_mutant(rep, f, &m, &format!("bitflip@{bit}"), true);
            rep.evaluations += 1;
        }
        // a corrupt symbol that ends exactly at the end of the input: flips in the LZMA payload of an LZIP member that
        // end in "dist overflow" (`Other`), then the cuts of that mutant around the first one that is `Other`.  Short cuts are
        // `UnexpectedEof`; from the
        // cut that holds the last byte the failing symbol needs the answer is `Other` - although the normalisation
        // that would follow asks for a byte that is not there (`LZMADecoder::decode` returns the error of `repeat`
        // without normalising; the reader model must do the same, `Lzma.rawFinish`).
        if f.fmt == "lzip" && f.bytes.len() > 26 && f.bytes.len() <= 4096 {
            let want = if thorough { 40 } else { 10 };
            let mut found = 0;
            let lo = 6 * 8;
            let hi = (f.bytes.len() - 20) * 8;
            for _ in 0..want * 6 {
                if found >= want || hi <= lo {
                    break;
                }
                let bit = lo + rng.below((hi - lo) as u64) as usize;
                let mut m = f.bytes.clone();
                m[bit / 8] ^= 1 << (bit % 8);
                if !matches!(real_decode(f.fmt, false, &m, f.data.len() * 2 + 4096), Outcome::Err(std::io::ErrorKind::Other, _)) {
                    continue;
                }
                found += 1;
                rep.count("flip-then-cut.mutants");
                // the first cut that is `Other`: the model is asked about the 32 cuts before it (all `UnexpectedEof`
                // unless something else is wrong) and the 24 behind it (cuts far away all behave alike)
                let first_other = (6..m.len()).find(|&k| matches!(real_decode(f.fmt, false, &m[..k], f.data.len() * 2 + 4096), Outcome::Err(std::io::ErrorKind::Other, _)));
                if let Some(k0) = first_other {
                    for k in k0.saturating_sub(32).max(6)..(k0 + 25).min(m.len()) {
                        check_mutant(rep, f, &m[..k], &format!("bitflip@{bit}+cut@{k}"), true);
                        rep.evaluations += 1;
                    }
                }
            }
        }
        // byte substitutions, deletions, insertions, duplications, swaps, truncations
        let n_other = if thorough { 600 } else { 120 };
        for _ in 0..n_other {
            let mut m = f.bytes.clone();
            if m.is_empty() {
                break;
            }
            let what = match rng.below(7) {
                0 => {
                    let p = rng.below(m.len() as u64) as usize;
                    m[p] = rng.next() as u8;
                    format!("subst@{p}")
                }
                1 => {
                    let p = rng.below(m.len() as u64) as usize;
                    let n = (rng.range(1, 8) as usize).min(m.len() - p);
                    m.drain(p..p + n);
                    format!("delete@{p}+{n}")
                }
                2 => {
                    let p = rng.below(m.len() as u64 + 1) as usize;
                    let n = rng.range(1, 8) as usize;
                    let ins = rng.bytes(n);
                    m.splice(p..p, ins);
                    format!("insert@{p}+{n}")
                }
                3 => {
                    let p = rng.below(m.len() as u64) as usize;
                    let n = (rng.range(1, 16) as usize).min(m.len() - p);
                    let seg = m[p..p + n].to_vec();
                    m.splice(p..p, seg);
                    format!("dup@{p}+{n}")
                }
                4 => {
                    let p = rng.below(m.len() as u64) as usize;
                    let q = rng.below(m.len() as u64) as usize;
                    m.swap(p, q);
                    format!("swap@{p},{q}")
                }
                5 => {
                    let p = rng.below(m.len() as u64) as usize;
                    m.truncate(p);
                    format!("truncate@{p}")
                }
                _ => {
                    let p = rng.below(m.len() as u64) as usize;
                    m[p] = 0;
                    format!("zero@{p}")
                }
            };
            if m == f.bytes {
                continue;
            }
            check_mutant(rep, f, &m, &what, true);
            rep.evaluations += 1;
        }
        rep.case(format!("file:{}", f.name), !f.data.is_empty(), || json!({"file": f.name, "len": f.bytes.len(), "hex": if f.bytes.len() <= 300 { hex(&f.bytes) } else { "-".into() }, "exhaustive_bitflips": exhaustive}));
    }
    // whole-block edits of multi-block XZ files: the index (unpadded size, uncompressed size per block,
    // in order) is what the format offers against them
    for k in 0..(if thorough { 60 } else { 8 }) {
        let mut r = rng.fork();
        let nblocks = r.range(3, 6) as usize;
        let bs = 4096usize;
        let mut data = vec![];
        for b in 0..nblocks {
            // blocks of different compressibility => different compressed sizes
            let kind = ["text", "random", "const", "mixed", "periodic"][(b + k as usize) % 5];
            let len = if b + 1 == nblocks { r.range(1, bs as u64) as usize } else { bs };
            data.extend(gen_data(&mut r, kind, len));
        }
        let check = *r.pick(&[1u8, 4, 10]);
        let mut o = XzOpts { lz: small_lz(&mut r), check, block: Some(bs as u64), filters: vec![] };
        o.lz.dict = 4096;
        let bytes = match xz_compress(&data, &o, &[data.len()], 0) {
            Outcome::Ok(b) => b,
            _ => continue,
        };
        // block extents: unpadded sizes from the index, each padded to a multiple of four
        let n = bytes.len();
        let backward = u32::from_le_bytes(bytes[n - 8..n - 4].try_into().unwrap()) as usize;
        let idx_start = n - 12 - (backward + 1) * 4;
        let mut p = idx_start + 1;
        let mut rd = |p: &mut usize| -> u64 {
            let mut v = 0u64;
            let mut sh = 0;
            loop {
                let b = bytes[*p];
                *p += 1;
                v |= ((b & 0x7F) as u64) << sh;
                sh += 7;
                if b & 0x80 == 0 {
                    return v;
                }
            }
        };
        let cnt = rd(&mut p) as usize;
        let mut ext = vec![];
        let mut pos = 12usize;
        let mut recs = vec![];
        for _ in 0..cnt {
            let unp = rd(&mut p) as usize;
            let unc = rd(&mut p);
            let padded = (unp + 3) / 4 * 4;
            ext.push((pos, pos + padded));
            recs.push((unp, unc));
            pos += padded;
        }
        if pos != idx_start || cnt < 2 {
            continue;
        }
        let f = ValidFile { name: format!("xz-blocks{cnt}-chk{check}-{k}"), fmt: "xz", bytes: bytes.clone(), data: data.clone(), check };
        rep.count("file.xz-multiblock");
        let blk = |i: usize| bytes[ext[i].0..ext[i].1].to_vec();
        for i in 0..cnt {
            // duplicate block i
            let mut m = bytes[..ext[i].1].to_vec();
            m.extend(blk(i));
            m.extend(&bytes[ext[i].1..]);
            check_mutant(rep, &f, &m, &format!("dup-block@{i}"), m.len() <= 40000);
            // delete block i
            let mut m = bytes[..ext[i].0].to_vec();
            m.extend(&bytes[ext[i].1..]);
            check_mutant(rep, &f, &m, &format!("delete-block@{i}"), m.len() <= 40000);
            rep.evaluations += 2;
            if i + 1 < cnt {
                let mut m = bytes[..ext[i].0].to_vec();
                m.extend(blk(i + 1));
                m.extend(blk(i));
                m.extend(&bytes[ext[i + 1].1..]);
                if recs[i] == recs[i + 1] {
                    // equal records: the result is again a well-formed file (of the swapped data): the XZ
                    // format has no whole-stream check, nothing can detect this
                    rep.count("swap-equal-size-blocks(skipped: undetectable by the format)");
                } else {
                    check_mutant(rep, &f, &m, &format!("swap-blocks@{i}"), m.len() <= 40000);
                    rep.evaluations += 1;
                }
            }
        }
        // index / footer field edits with the CRCs recomputed
        for j in idx_start + 1..n - 12 - 4 {
            for delta in [1u8, 0x7F] {
                let mut m = bytes.clone();
                m[j] = m[j].wrapping_add(delta);
                crate::c06::xz_fix_crcs(&bytes, &mut m);
                check_mutant(rep, &f, &m, &format!("index-field-crcfix@{}", j - idx_start), m.len() <= 40000);
                rep.evaluations += 1;
            }
        }
        for d in [1u32, 2, 0xFFFF] {
            let mut m = bytes.clone();
            let bw = (backward as u32).wrapping_add(d);
            m[n - 8..n - 4].copy_from_slice(&bw.to_le_bytes());
            crate::c06::xz_fix_crcs(&bytes, &mut m);
            // fix-up located the index with the ORIGINAL backward size; the footer CRC covers the new one
            check_mutant_strict(rep, &f, &m, &format!("backward-size-crcfix+{d}"));
            rep.evaluations += 1;
        }
        rep.case(format!("xzblocks:{cnt}:chk{check}"), true, || json!({"file": f.name, "len": bytes.len(), "records": recs}));
    }
    // non-format inputs: must be an error, never an empty success
    for i in 0..(if thorough { 2000 } else { 300 }) {
        let n = rng.range(1, 64) as usize;
        let mut g = match rng.below(4) {
            0 => gen_data(rng, "text", n),
            1 => rng.bytes(n),
            2 => {
                let mut v = b"LZIP".to_vec();
                v.extend(rng.bytes(n));
                v
            }
            _ => {
                let mut v = vec![0xFD, b'7', b'z', b'X', b'Z', 0];
                v.extend(rng.bytes(n));
                v
            }
        };
        if g.is_empty() {
            g.push(1);
        }
        for fmt in ["xz", "lzip"] {
            let o = real_decode(fmt, false, &g, 1 << 16);
            model_case(rep, fmt, false, &g, 1 << 16);
            if let Outcome::Ok((out, _)) = &o {
                rep.fail(&format!("garbage-accepted:{fmt}"), &format!("non-{fmt} input of {} bytes decoded successfully to {} bytes", g.len(), out.len()), json!({"input_hex": hex(&g), "case": i}));
            }
            if let Outcome::Panic(m) = &o {
                rep.fail(&format!("garbage-panic:{fmt}"), m, json!({"input_hex": hex(&g)}));
            }
            rep.evaluations += 1;
        }
    }
}

pub fn run_c12(rep: &mut Report, rng: &mut Rng, thorough: bool) {
    let pool = valid_files(rng, if thorough { 6 } else { 3 }, if thorough { 3000 } else { 400 });
    let xz: Vec<&ValidFile> = pool.iter().filter(|f| f.fmt == "xz").collect();
    let lz: Vec<&ValidFile> = pool.iter().filter(|f| f.fmt == "lzip").collect();
    for i in 0..(if thorough { 1500 } else { 200 }) {
        let n = rng.range(1, if thorough { 8 } else { 4 }) as usize;
        let is_xz = i % 2 == 0;
        let mut bytes = Vec::new();
        let mut data = Vec::new();
        let mut pads = Vec::new();
        let mut first_len = 0;
        let mut names = Vec::new();
        for k in 0..n {
            let f = if is_xz { *rng.pick(&xz) } else { *rng.pick(&lz) };
            bytes.extend_from_slice(&f.bytes);
            data.extend_from_slice(&f.data);
            names.push(f.name.clone());
            if k == 0 {
                first_len = f.bytes.len();
            }
            if is_xz {
                // stream padding: mostly legal multiples of 4, sometimes illegal
                // (the format puts no upper bound on the padding: lengths around the widths of narrow counters -
                //  u8, u16 - and a few KiB are part of the legal and illegal sets)
                let pad = if k + 1 == n && rng.chance(1, 2) {
                    0
                } else if rng.chance(1, 5) {
                    *rng.pick(&[252usize, 256, 260, 1024, 4096, 65532, 65536, 65540, 255, 257, 1023, 65535, 65537])
                } else {
                    *rng.pick(&[0usize, 0, 4, 8, 12, 1, 2, 3, 5])
                };
                pads.push(pad);
                bytes.extend(std::iter::repeat(0u8).take(pad));
            }
        }
        let legal = pads.iter().all(|p| p % 4 == 0);
        let sig = format!("{}:n{}:pads{:?}", if is_xz { "xz" } else { "lzip" }, n, pads.iter().map(|p| p % 4).collect::<Vec<_>>());
        let detail = || json!({"format": if is_xz {"xz"} else {"lzip"}, "parts": names, "paddings": pads, "total_len": bytes.len(), "case": i});
        let cap = data.len() + 64;
        // the same bytes delivered by a source that returns 1..6 bytes per read call (a pipe, a socket):
        // the result must not depend on where the read boundaries fall (inside paddings, magic bytes, headers)
        {
            let grants: Vec<usize> = (0..bytes.len() + 8).map(|_| rng.range(1, 6) as usize).collect();
            let src = crate::part::ShortReader { data: bytes.clone(), pos: 0, grants, gi: 0 };
            let short = guard(|| {
                if is_xz {
                    let mut r = lzma_rust2::XZReader::new(src, true);
                    read_all_sched(&mut r, &[4096], cap)
                } else {
                    let mut r = lzma_rust2::LZIPReader::new(src)?;
                    read_all_sched(&mut r, &[4096], cap)
                }
            });
            let whole = real_decode(if is_xz { "xz" } else { "lzip" }, true, &bytes, cap);
            let same = match (&short, &whole) {
                (Outcome::Ok(a), Outcome::Ok((b, _))) => a == b,
                (Outcome::Err(k1, _), Outcome::Err(k2, _)) => k1 == k2,
                _ => false,
            };
            if !same {
                rep.fail(&format!("short-reads-change-result:{}", if is_xz { "xz" } else { "lzip" }), &format!("source delivering 1..6 bytes per call: {} ; contiguous source: {}", short.describe(), whole.describe()), detail());
            }
        }
        if !is_xz && legal {
            // the multi-threaded reader on the same member sequence (empty members included)
            let b2 = bytes.clone();
            let o = guard(|| {
                let mut r = lzma_rust2::LZIPReaderMT::new(BudgetCursor::new(b2, 500_000), *rng.pick(&[1u32, 2, 4]))?;
                read_all_sched(&mut r, &[4096], cap)
            });
            match &o {
                Outcome::Ok(out) if out == &data => {}
                Outcome::Ok(out) => rep.fail("lzip-mt-concat-mismatch", &format!("LZIPReaderMT returned {} bytes for a member sequence holding {}", out.len(), data.len()), detail()),
                other => rep.fail(&format!("lzip-mt-concat-{}", other.class()), &format!("valid member sequence rejected by LZIPReaderMT: {}", other.describe()), detail()),
            }
        }
        if is_xz {
            let o = real_decode("xz", true, &bytes, cap);
            model_case(rep, "xz", true, &bytes, cap);
            match (&o, legal) {
                (Outcome::Ok((out, used)), true) => {
                    if out != &data {
                        rep.fail("xz-concat-mismatch", "concatenated streams decoded to different data", detail());
                    } else if *used != bytes.len() {
                        rep.fail("xz-concat-consumed", "multi-stream reader did not consume the whole input", detail());
                    }
                }
                (other, true) => rep.fail(&format!("xz-concat-{}", other.class()), &format!("valid concatenation rejected: {}", other.describe()), detail()),
                (Outcome::Ok(_), false) => rep.fail("xz-concat-badpad-accepted", "stream padding that is not a multiple of 4 was accepted", detail()),
                (Outcome::Panic(m), false) => rep.fail("xz-concat-panic", m, detail()),
                _ => {}
            }
            // multi = false: stops after the first stream, having consumed exactly its bytes
            let o1 = real_decode("xz", false, &bytes, cap);
            model_case(rep, "xz", false, &bytes, cap);
            match &o1 {
                Outcome::Ok((out, used)) => {
                    let f0 = xz.iter().find(|f| f.name == names[0]).unwrap();
                    if out != &f0.data || *used != first_len {
                        rep.fail("xz-single-stream-stop", "multi=false did not stop exactly after the first stream", detail());
                    }
                }
                other => rep.fail(&format!("xz-single-{}", other.class()), &other.describe(), detail()),
            }
        } else {
            let o = real_decode("lzip", false, &bytes, cap);
            model_case(rep, "lzip", false, &bytes, cap);
            match &o {
                Outcome::Ok((out, used)) => {
                    if out != &data {
                        rep.fail("lzip-concat-mismatch", "concatenated members decoded to different data", detail());
                    } else if *used != bytes.len() {
                        rep.fail("lzip-concat-consumed", "reader did not consume all members", detail());
                    }
                }
                other => rep.fail(&format!("lzip-concat-{}", other.class()), &format!("valid member sequence rejected: {}", other.describe()), detail()),
            }
        }
        rep.case(sig, n > 1, || detail());
    }
}

pub fn run_c16(rep: &mut Report, rng: &mut Rng, thorough: bool) {
    // valid streams of every format followed by nothing, zeros, another stream, random bytes
    let n = if thorough { 1500 } else { 200 };
    for i in 0..n {
        let mut r = rng.fork();
        let kind = *r.pick(&["text", "random", "periodic", "runs", "mixed", "empty", "one"]);
        let fmt_i = i % 4;
        let lzma2 = fmt_i == 1;
        let o = gen_lzopts(&mut r, lzma2 || fmt_i == 2, 1 << 18, fmt_i < 2);
        let size = crate::c02::gen_size(&mut r, o.dict, if thorough { 300_000 } else { 40_000 });
        let data = gen_data(&mut r, kind, size);
        let trailer_kind = *r.pick(&["none", "zeros", "random", "stream", "ff"]);
        let sched: Vec<usize> = match r.below(3) {
            0 => vec![65536],
            1 => vec![1],
            _ => vec![r.range(1, 300) as usize, r.range(1, 5000) as usize, 7],
        };
        let cap = 2 * data.len() + 64;
        let (fmtname, comp, res): (&str, Vec<u8>, Box<dyn Fn(&[u8]) -> Outcome<(Vec<u8>, usize)>>) = match fmt_i {
            0 => {
                let f = *r.pick(&[LzmaFmt::HeaderMarker, LzmaFmt::HeaderSize, LzmaFmt::RawMarker, LzmaFmt::RawSize]);
                let mut o2 = o.clone();
                if matches!(f, LzmaFmt::HeaderMarker | LzmaFmt::HeaderSize) {
                    o2.preset = None;
                }
                let c = match lzma_compress(&data, &o2, f, &[data.len()]) {
                    Outcome::Ok(c) => c,
                    _ => continue,
                };
                let dl = data.len() as u64;
                let s2 = sched.clone();
                (crate::c01::fmt_name(f), c, Box::new(move |b: &[u8]| lzma_decompress(b, &o2, f, dl, &s2, cap)))
            }
            1 => {
                let c = match lzma2_compress(&data, &o, None, &[data.len()], 0) {
                    Outcome::Ok(c) => c,
                    _ => continue,
                };
                let o2 = o.clone();
                let s2 = sched.clone();
                ("lzma2", c, Box::new(move |b: &[u8]| lzma2_decompress(b, o2.dict, o2.preset.as_deref(), &s2, cap)))
            }
            2 => {
                let mut xo = gen_xzopts(&mut r, 1 << 18, data.len());
                xo.lz.preset = None;
                let c = match xz_compress(&data, &xo, &[data.len()], 0) {
                    Outcome::Ok(c) => c,
                    _ => continue,
                };
                let s2 = sched.clone();
                ("xz", c, Box::new(move |b: &[u8]| xz_decompress(b, false, &s2, cap)))
            }
            _ => {
                let mut o2 = o.clone();
                o2.preset = None;
                let c = match lzip_compress(&data, &o2, None, &[data.len()]) {
                    Outcome::Ok(c) => c,
                    _ => continue,
                };
                let s2 = sched.clone();
                ("lzip", c, Box::new(move |b: &[u8]| lzip_decompress(b, &s2, cap)))
            }
        };
        let trailer: Vec<u8> = match trailer_kind {
            "none" => vec![],
            "zeros" => vec![0; r.range(1, 40) as usize],
            "random" => {
                let n = r.range(1, 40) as usize;
                r.bytes(n)
            }
            "ff" => vec![0xFF; r.range(1, 9) as usize],
            _ => comp.clone(),
        };
        let mut input = comp.clone();
        input.extend_from_slice(&trailer);
        let out = res(&input);
        let detail = || json!({"format": fmtname, "data_len": data.len(), "stream_len": comp.len(), "trailer": trailer_kind, "trailer_len": trailer.len(), "read_sizes": sched, "opts": o.json(), "case": i});
        rep.count(&format!("fmt.{fmtname}"));
        rep.count(&format!("trailer.{trailer_kind}"));
        match &out {
            Outcome::Ok((d, used)) => {
                // LZIP has to look at the next 4 bytes to know whether another member follows;
                // a second copy of the stream IS another member.
                if fmtname == "lzip" {
                    let probe = trailer.len().min(4);
                    let another = trailer_kind == "stream";
                    if another {
                        if *used != input.len() || d.len() != 2 * data.len() {
                            rep.fail("lzip-second-member", "second member not decoded", detail());
                        }
                    } else if d != &data || *used != comp.len() + probe {
                        rep.fail("lzip-consumed", &format!("LZIP reader consumed {} bytes of a {}-byte member followed by {} trailing bytes", used, comp.len(), trailer.len()), detail());
                    }
                } else if d != &data {
                    rep.fail(&format!("{fmtname}-data-with-trailer"), "data differs when trailing bytes follow the stream", detail());
                } else if *used != comp.len() {
                    rep.fail(&format!("consumed:{fmtname}"), &format!("reader consumed {} bytes of a {}-byte stream", used, comp.len()), detail());
                }
            }
            other => rep.fail(&format!("{fmtname}-trailer-{}", other.class()), &format!("stream followed by trailing bytes rejected: {}", other.describe()), detail()),
        }
        // the model on the same bytes (container formats and raw codecs)
        if input.len() <= 60_000 && data.len() <= 60_000 {
            match fmtname {
                "xz" => rep.model(model_req("xz", false, &input, cap), canon(&out)),
                "lzip" => rep.model(model_req("lzip", false, &input, cap), canon(&out)),
                "lzma2" => {
                    if let Outcome::Ok((d, used)) = &out {
                        rep.model(format!("lzma2.dec dict={} preset={} in={} cap={} reenc=0", o.dict, hex(o.preset.as_deref().unwrap_or(&[])), hex(&input), cap), format!("ok {} {} {} -", d.len(), fnv(d), used));
                    }
                }
                _ => {}
            }
        }
        rep.case(format!("{fmtname}:{trailer_kind}:{}:{}", size_class(data.len()), sched.len()), !data.is_empty(), || detail());
    }
}
