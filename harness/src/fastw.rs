//! Byte-exact correspondence of the WRITER models in fast mode (`Model/LzipWriter.lean`, `Model/LzmaWriter.lean`):
//! the real `LZIPWriter` / `LZMAWriter` configured with `EncodeMode::Fast` (HC4 or BT4) against the bytes the Lean
//! models compute from options and data alone (`lzipw.fast`, `lzmaw.fast`).  The theorems
//! `Props.C02Fast.lzip_fast_file_roundtrip` / `lzma_alone_fast_roundtrip` are about exactly those model functions.
//! The number of cases can be raised for a validation run with the environment variable `VH_FASTW_N`.
use crate::codec::*;
use crate::twin::mf_data;
use crate::util::*;
use lzma_rust2::{LZMAReader, LZMAWriter};
use serde_json::json;

fn n_cases(thorough: bool, quick: u64, thor: u64) -> u64 {
    std::env::var("VH_FASTW_N").ok().and_then(|s| s.parse().ok()).unwrap_or(if thorough { thor } else { quick })
}

fn opt_str(o: Option<u64>) -> String {
    o.map(|v| v.to_string()).unwrap_or("-".into())
}

/// `LZIPWriter` in fast mode vs `LzipWriter.lzipFastBytes` (property C02)
pub fn run_lzip(rep: &mut Report, rng: &mut Rng, thorough: bool) {
    let n = n_cases(thorough, 150, 500);
    let big = thorough || std::env::var("VH_FASTW_N").is_ok();
    for i in 0..n {
        let mut r = rng.fork();
        let bt4 = i % 3 == 2;
        // on the LZIP grid (2^b - k * 2^(b-4)): 4096, 5120, 7680, 8192, 61440, 65536, 1 << 20; off the grid: the rest;
        // below MIN_DICT_SIZE (clamped by `LZIPWriter::new`): 0, 100, 4095
        let mut dict: u32 = *r.pick(&[4096u32, 4096, 4097, 5000, 5120, 7680, 8191, 8192, 8193, 61440, 65536, 100_000, 0, 100, 4095, 1 << 20]);
        if dict == 1 << 20 && !big {
            dict = 12288;
        }
        let eff = dict.clamp(4096, 1 << 29) as u64;
        let nice: u32 = if r.chance(1, 25) { *r.pick(&[0u32, 7, 274, 1000]) } else { *r.pick(&[8u32, 16, 32, 64, 273]) };
        let depth: i32 = *r.pick(&[0i32, 0, 1, 48, -3]);
        let member_style = r.below(7);
        let member: Option<u64> = match member_style {
            0 | 1 => None,
            2 => Some(1),
            3 => Some(eff),
            4 => Some(eff + 1 + r.below(3000)),
            5 => Some(eff * 2),
            _ => Some(r.range(1, 3 * eff)),
        };
        let lim = member.map(|m| m.max(eff)).unwrap_or(u64::MAX);
        let max_len: u64 = if big { 120_000 } else { 26_000 };
        let len = match r.below(9) {
            0 => r.below(3),
            1 => r.range(2, 600),
            2 | 3 => r.range(600, if big { 12_000 } else { 5_000 }),
            // exact multiples of the member size and their neighbours
            4 if lim < max_len => lim * r.range(1, (max_len / lim).min(4) + 1),
            5 if lim < max_len => (lim * r.range(1, (max_len / lim).min(4) + 1)).saturating_add_signed(r.range(0, 3) as i64 - 1),
            6 if lim < max_len => lim * r.range(1, (max_len / lim).min(4) + 1) + r.below(lim),
            7 => (2 * eff + r.below(3000)).min(max_len),
            _ => r.range(4096, if big { 120_000 } else { 9_000 }),
        } as usize;
        // (kind 5 = repetitions at distances just below the dictionary size: needs more than `dict` bytes)
        let kind = match r.below(7) {
            5 if eff as usize + 65 > len.max(if big { 70_000 } else { 9_000 }) => 3,
            k => k,
        };
        let data = mf_data(&mut r, kind, eff as usize, len);
        let lz = LzOpts { dict, lc: 3, lp: 0, pb: 2, normal: false, nice, bt4, depth, preset: None };
        let (pstyle, parts) = gen_partition(&mut r, data.len());
        let detail = || json!({"stratum": "lzipw.fast", "opts": lz.json(), "member_size": member, "data_kind": kind, "data_len": data.len(), "partition": pstyle, "data_fnv": fnv(&data), "data_hex": if data.len() <= 300 { hex(&data) } else { String::new() }});
        rep.count(&format!("lzipw.fast.{}", if bt4 { "bt4" } else { "hc4" }));
        let nmem = if data.is_empty() { 1 } else { (data.len() as u64).div_ceil(lim) };
        rep.count(&format!("lzipw.fast.members.{}", nmem.min(5)));
        let req = format!("lzipw.fast kind={} dict={dict} nice={nice} depth={} member={} data={}", if bt4 { "bt4" } else { "hc4" }, depth.max(0), opt_str(member), hex(&data));
        match lzip_compress(&data, &lz, member, &parts) {
            Outcome::Ok(c) => {
                rep.model(req, format!("ok {} {}", c.len(), fnv(&c)));
                match lzip_decompress(&c, &[65536], data.len() + 16) {
                    Outcome::Ok((out, used)) if out == data && used == c.len() => {}
                    other => rep.fail("lzipw-fast-roundtrip", &format!("LZIP reader on the fast writer's output: {}", other.class()), detail()),
                }
            }
            Outcome::Err(std::io::ErrorKind::InvalidInput, _) if !(8..=273).contains(&nice) => rep.model(req, "err".into()),
            other => rep.fail(&format!("lzipw-fast-write-{}", other.class()), &other.describe(), detail()),
        }
        rep.case(format!("lzipw.fast:{}:{}:{}:{}:m{}:{}", bt4 as u8, dict_class(dict), nice, kind, member_style, size_class(data.len())), !data.is_empty(), || detail());
    }
}

/// `LZMAWriter::new(out, opts, use_header, use_end_marker, expected)` in fast mode vs `LzmaWriter.lzmaAloneFastBytes`
/// / `lzmaRawFastBytes` (property C01); the two header variants of `new_use_header` are also read back
pub fn run_lzma(rep: &mut Report, rng: &mut Rng, thorough: bool) {
    let n = n_cases(thorough, 90, 300);
    let big = thorough || std::env::var("VH_FASTW_N").is_ok();
    for i in 0..n {
        let mut r = rng.fork();
        let bt4 = i % 3 == 2;
        let mut dict: u32 = if r.chance(1, 20) { *r.pick(&[0u32, 4095]) } else { *r.pick(&[4096u32, 4096, 4097, 5000, 6144, 6145, 8192, 12288, 12289, 65536, 65537, 100_000, 1 << 20]) };
        if dict == 1 << 20 && !big {
            dict = 1 << 17;
        }
        let nice: u32 = if r.chance(1, 25) { *r.pick(&[7u32, 274]) } else { *r.pick(&[8u32, 16, 32, 64, 273]) };
        let depth: i32 = *r.pick(&[0i32, 0, 1, 48]);
        let (lc, lp, pb) = if r.chance(1, 25) { *r.pick(&[(9u32, 0u32, 0u32), (0, 5, 0), (0, 0, 5)]) } else { *r.pick(&[(3u32, 0u32, 2u32), (0, 0, 0), (4, 0, 4), (0, 4, 2), (8, 4, 4), (1, 3, 1)]) };
        let max_len: u64 = if big { 120_000 } else { 26_000 };
        let len = match r.below(6) {
            0 => r.below(3),
            1 => r.range(2, 600),
            2 | 3 => r.range(600, if big { 12_000 } else { 5_000 }),
            4 => (2 * dict.max(4096) as u64 + r.below(3000)).min(max_len),
            _ => r.range(4096, if big { 120_000 } else { 9_000 }),
        } as usize;
        let kind = match r.below(7) {
            5 if dict.max(4096) as usize + 65 > len.max(if big { 70_000 } else { 9_000 }) => 3,
            k => k,
        };
        let data = mf_data(&mut r, kind, dict.max(4096) as usize, len);
        // variant: the two of `new_use_header`, the two raw ones, header + marker + size, wrong expected sizes
        let variant = r.below(8);
        let (header, marker, expected): (bool, bool, Option<u64>) = match variant {
            0 | 1 => (true, false, Some(data.len() as u64)),
            2 | 3 => (true, true, None),
            4 => (false, true, None),
            5 => (false, false, None),
            6 => (true, true, Some(data.len() as u64)),
            _ => (true, r.chance(1, 2), Some(if r.chance(1, 2) { data.len() as u64 + 1 + r.below(5) } else { (data.len() as u64).saturating_sub(1 + r.below(5)) })),
        };
        let lz = LzOpts { dict, lc, lp, pb, normal: false, nice, bt4, depth, preset: None };
        let (pstyle, parts) = gen_partition(&mut r, data.len());
        let detail = || json!({"stratum": "lzmaw.fast", "opts": lz.json(), "use_header": header, "use_end_marker": marker, "expected": expected, "data_kind": kind, "data_len": data.len(), "partition": pstyle, "data_fnv": fnv(&data), "data_hex": if data.len() <= 300 { hex(&data) } else { String::new() }});
        rep.count(&format!("lzmaw.fast.{}", if bt4 { "bt4" } else { "hc4" }));
        rep.count(&format!("lzmaw.fast.variant{variant}"));
        let req = format!(
            "lzmaw.fast kind={} dict={dict} lc={lc} lp={lp} pb={pb} nice={nice} depth={} header={} marker={} expected={} data={}",
            if bt4 { "bt4" } else { "hc4" }, depth.max(0), header as u8, marker as u8, opt_str(expected), hex(&data));
        let opts_ok = lc <= 8 && lp <= 4 && pb <= 4 && (4096..=(768u32 << 20)).contains(&dict) && (8..=273).contains(&nice);
        let size_ok = expected.map(|e| e == data.len() as u64).unwrap_or(true);
        let written = guard(|| {
            let mut w = LZMAWriter::new(Vec::new(), &lz.to_opts(), header, marker, expected)?;
            write_parts(&mut w, &data, &parts, 0)?;
            w.finish()
        });
        match written {
            Outcome::Ok(c) => {
                rep.model(req, format!("ok {} {}", c.len(), fnv(&c)));
                if header && variant <= 3 {
                    let back = guard(|| {
                        let mut src = &c[..];
                        let out = {
                            let mut rd = LZMAReader::new_mem_limit(&mut src, u32::MAX, None)?;
                            read_all_sched(&mut rd, &[65536], data.len() + 16)?
                        };
                        Ok((out, c.len() - src.len()))
                    });
                    match back {
                        Outcome::Ok((out, used)) if out == data && used == c.len() => {}
                        other => rep.fail("lzmaw-fast-roundtrip", &format!(".lzma reader on the fast writer's output: {}", other.class()), detail()),
                    }
                }
            }
            Outcome::Err(std::io::ErrorKind::InvalidInput, _) if !opts_ok || !size_ok => rep.model(req, "err".into()),
            other => rep.fail(&format!("lzmaw-fast-write-{}", other.class()), &other.describe(), detail()),
        }
        rep.case(format!("lzmaw.fast:{}:{}:{}:{}:v{}:{}", bt4 as u8, dict_class(dict), nice, kind, variant, size_class(data.len())), !data.is_empty(), || detail());
    }
}
