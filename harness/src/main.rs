mod c01;
mod c02;
mod c03;
mod c11;
mod codec;
mod part;
mod cont;
mod util;

use util::*;

fn main() {
    let args: Vec<String> = std::env::args().collect();
    if args.len() < 5 {
        eprintln!("usage: vh <property> <quick|thorough> <seed> <outdir> [extra]");
        std::process::exit(2);
    }
    let prop = args[1].as_str();
    let thorough = args[2] == "thorough";
    let seed: u64 = args[3].parse().unwrap_or(1);
    let outdir = &args[4];
    install_quiet_panic_hook();
    let mut rng = Rng::new(seed ^ fnv(prop.as_bytes()));
    let mut rep = match prop {
        "C01" => {
            let mut rep = Report::new("C01", "cases = (format variant, data kind, size class, partition style, option class); one PRNG; non-trivial = non-empty input; distinct = distinct signature");
            c01::run(&mut rep, &mut rng, thorough);
            rep
        }
        "C11" => {
            let mut rep = Report::new("C11", "cases = (filter, data kind incl. architecture-specific branch-dense code, size class, start-offset class); one PRNG; non-trivial = at least 16 bytes; distinct = distinct signature");
            c11::run(&mut rep, &mut rng, thorough);
            rep
        }
        "C03" => {
            let mut rep = Report::new("C03", "alternating directions: our writers (.xz, .lz, .lzma, raw LZMA2; random in-range options, filters, checks, partitions) decoded by liblzma, and liblzma's encoders (presets 0-9/extreme, custom lc/lp/pb/dict/nice/mf/mode/depth, filter chains, all checks) decoded by our readers (and by the Lean reader models); non-trivial = non-empty data; distinct = distinct (direction, format, data, option class)");
            c03::run(&mut rep, &mut rng, thorough);
            rep
        }
        "C04" => {
            let mut rep = Report::new("C04", "valid XZ/LZIP files made by the crate's writers x corruptions: every single-bit flip (exhaustive on small files), substitutions, deletions, insertions, duplications, swaps, truncations, zeroing; plus non-format inputs. non-trivial = file with data; distinct = distinct file");
            cont::run_c04(&mut rep, &mut rng, thorough);
            rep
        }
        "C07" => {
            let mut rep = Report::new("C07", "every writer (LZMA x4 variants, LZMA2 with/without chunk size, XZ with filters and block sizes, LZIP with member sizes, Delta) with random partitions incl. empty writes and flushes, decoded by the matching reader with buffer schedules incl. 0- and 1-byte buffers; BCJ readers with all schedules; non-trivial = non-empty data; distinct = (writer, data, size, partition style, read style)");
            part::run_c07(&mut rep, &mut rng, thorough);
            rep
        }
        "C13" => {
            let mut rep = Report::new("C13", "each case: two identical runs (allocator state perturbed in between) + runs with random partitions must give byte-identical output (LZMA, LZMA2 and XZ without chunk/block size, LZIP with member size); non-trivial = non-empty data; distinct = (writer, data, size, option class)");
            part::run_c13(&mut rep, &mut rng, thorough);
            rep
        }
        "C18" => {
            let mut rep = Report::new("C18", "XZ block sizes (from the index), LZIP member sizes (from the trailers), LZMA2 MT unit sizes (from the chunk headers) against the configured limit raised to the dictionary size, for one huge write and random partitions; member_count/chunk_count of the MT readers; .lzma expected size equal/smaller/larger; non-trivial = non-empty data");
            part::run_c18(&mut rep, &mut rng, thorough);
            rep
        }
        "C12" => {
            let mut rep = Report::new("C12", "sequences of 1..n valid XZ streams (with stream padding of legal and illegal length) / LZIP members, decoded with multi=true and multi=false; non-trivial = more than one part; distinct = (format, count, padding residues)");
            cont::run_c12(&mut rep, &mut rng, thorough);
            rep
        }
        "C16" => {
            let mut rep = Report::new("C16", "valid streams of every format followed by nothing / zeros / random bytes / 0xFF / another stream, read with three buffer schedules; the bytes consumed from the source must be exactly the stream; non-trivial = non-empty data; distinct = (format, trailer kind, size class, schedule)");
            cont::run_c16(&mut rep, &mut rng, thorough);
            rep
        }
        "C02" => {
            let mut rep = Report::new("C02", "cases = (format, data kind, size class, partition style, option class); generated from one PRNG; non-trivial = non-empty input; distinct = distinct signature");
            c02::run(&mut rep, &mut rng, thorough);
            rep
        }
        _ => {
            eprintln!("unknown property {prop}");
            std::process::exit(2);
        }
    };
    rep.notes.push(format!("seed={seed} tier={}", args[2]));
    rep.write(outdir);
    println!("{} evaluations={} distinct={} failures={} model_requests={}", prop, rep.evaluations, rep.signatures.len(), rep.failures.len(), rep.req.len());
}
