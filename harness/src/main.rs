mod c01;
mod c02;
mod c03;
mod bcj2;
mod c06;
mod c11;
mod codec;
mod fastw;
mod fault;
mod opts;
mod mem;
mod part;
mod twin;
mod lzma2w;
mod cont;
mod util;

use util::*;

#[global_allocator]
static GLOBAL: mem::Counting = mem::Counting;

fn main() {
    let args: Vec<String> = std::env::args().collect();
    if args.len() == 4 && args[1] == "C06-deep" {
        install_quiet_panic_hook();
        std::process::exit(c06::run_deep_point(&args[2], args[3].parse().unwrap_or(1000)));
    }
    if args.len() < 5 {
        eprintln!("usage: vh <property> <quick|thorough> <seed> <outdir> [extra]");
        std::process::exit(2);
    }
    let prop = args[1].as_str();
    let thorough = args[2] == "thorough";
    let seed: u64 = args[3].parse().unwrap_or(1);
    let outdir = &args[4];
    install_quiet_panic_hook();
    if !prop.ends_with("-point") {
        start_watchdog(prop.to_string(), outdir.clone());
    }
    let mut rng = Rng::new(seed ^ fnv(prop.as_bytes()));
    if prop == "memprobe2" {
        use std::io::Write;
        let data = gen_data(&mut rng, "mixed", 300_000);
        for dict in [4096u32, 65536, 1 << 20] {
            let o = codec::LzOpts { dict, lc: 3, lp: 0, pb: 2, normal: false, nice: 32, bt4: false, depth: 0, preset: None };
            for chunk in [None, Some((dict as u64).max(65536))] {
                let (c, peak) = mem::measure(|| {
                    let mut opts = lzma_rust2::LZMA2Options { lzma_options: o.to_opts(), chunk_size: None };
                    opts.set_chunk_size(chunk.and_then(std::num::NonZeroU64::new));
                    let mut w = lzma_rust2::LZMA2Writer::new(Vec::new(), opts);
                    for piece in data.chunks(40_000) {
                        w.write_all(piece).unwrap();
                    }
                    w.finish().unwrap()
                });
                let units = crate::part::lzma2_unit_sizes(&c);
                println!("dict={dict} chunk={chunk:?} est={} peak={} out_cap={} units={}", o.to_opts().get_memory_usage() as u64 * 1024, peak, c.capacity(), units.map(|u| u.len()).unwrap_or(0));
            }
        }
        return;
    }
    if prop == "memprobe" {
        for (dict, normal, bt4, lc, lp, nice) in [(4096u32, false, false, 3u32, 0u32, 64u32), (1 << 20, true, true, 3, 0, 64), (100_000, true, false, 0, 4, 273), (65536, false, true, 2, 2, 8)] {
            let o = codec::LzOpts { dict, lc, lp, pb: 2, normal, nice, bt4, depth: 0, preset: None };
            let (_, v) = mem::large_allocs(|| {
                let mut w = lzma_rust2::LZMA2Writer::new(Vec::new(), lzma_rust2::LZMA2Options { lzma_options: o.to_opts(), chunk_size: None });
                use std::io::Write;
                w.write_all(&[1u8; 1000]).unwrap();
                w.finish().unwrap()
            });
            println!("enc dict={dict} normal={normal} bt4={bt4} lc={lc} lp={lp} nice={nice}: {:?} est={}", v, o.to_opts().get_memory_usage());
            let (_, v) = mem::large_allocs(|| lzma_rust2::LZMA2Reader::new(&b""[..], dict, None));
            println!("lzma2dec dict={dict}: {:?} est={}", v, lzma_rust2::lzma2_get_memory_usage(dict));
            let (_, v) = mem::large_allocs(|| lzma_rust2::LZMAReader::new(&[0u8, 0, 0, 0, 0][..], u64::MAX, lc, lp, 2, dict, None).map(|_| ()));
            println!("lzmadec dict={dict} lc={lc} lp={lp}: {:?} est={:?}", v, lzma_rust2::lzma_get_memory_usage(dict, lc, lp));
        }
        return;
    }
    let mut rep = match prop {
        "C01" => {
            let mut rep = Report::new("C01", "cases = (format variant, data kind, size class, partition style, option class); one PRNG; non-trivial = non-empty input; distinct = distinct signature");
            c01::run(&mut rep, &mut rng, thorough);
            rep
        }
        "C11" => {
            let mut rep = Report::new("C11", "cases = (filter, data kind incl. architecture-specific branch-dense code, size class, start-offset class); one PRNG; non-trivial = at least 16 bytes; distinct = distinct signature");
            c11::run(&mut rep, &mut rng, thorough);
            rep
        }
        "C03" => {
            let mut rep = Report::new("C03", "alternating directions: our writers (.xz, .lz, .lzma, raw LZMA2; random in-range options, filters, checks, partitions) decoded by liblzma, and liblzma's encoders (presets 0-9/extreme, custom lc/lp/pb/dict/nice/mf/mode/depth, filter chains, all checks) decoded by our readers (and by the Lean reader models); non-trivial = non-empty data; distinct = distinct (direction, format, data, option class)");
            c03::run(&mut rep, &mut rng, thorough);
            rep
        }
        "C04" => {
            let mut rep = Report::new("C04", "valid XZ/LZIP files made by the crate's writers x corruptions: every single-bit flip (exhaustive on small files), substitutions, deletions, insertions, duplications, swaps, truncations, zeroing; plus non-format inputs. non-trivial = file with data; distinct = distinct file");
            cont::run_c04(&mut rep, &mut rng, thorough);
            rep
        }
        "C07" => {
            let mut rep = Report::new("C07", "every writer (LZMA x4 variants, LZMA2 with/without chunk size, XZ with filters and block sizes, LZIP with member sizes, Delta) with random partitions incl. empty writes and flushes, decoded by the matching reader with buffer schedules incl. 0- and 1-byte buffers; BCJ readers with all schedules; non-trivial = non-empty data; distinct = (writer, data, size, partition style, read style)");
            part::run_c07(&mut rep, &mut rng, thorough);
            rep
        }
        "C13" => {
            let mut rep = Report::new("C13", "each case: two identical runs (allocator state perturbed in between) + runs with random partitions must give byte-identical output (LZMA, LZMA2 and XZ without chunk/block size, LZIP with member size); non-trivial = non-empty data; distinct = (writer, data, size, option class)");
            part::run_c13(&mut rep, &mut rng, thorough);
            rep
        }
        "C18" => {
            let mut rep = Report::new("C18", "XZ block sizes (from the index), LZIP member sizes (from the trailers), LZMA2 MT unit sizes (from the chunk headers) against the configured limit raised to the dictionary size, for one huge write and random partitions; member_count/chunk_count of the MT readers; .lzma expected size equal/smaller/larger; non-trivial = non-empty data");
            part::run_c18(&mut rep, &mut rng, thorough);
            rep
        }
        "C17" => {
            let mut rep = Report::new("C17", "grid dictionary size x mode x match finder x (lc,lp) for the encoder estimate; dictionary x (lc,lp) for the decoder estimates; peak heap measured by a counting global allocator; .lzma headers x limits need-1/need/need+1; all cases non-trivial; distinct = distinct grid point");
            mem::run(&mut rep, &mut rng, thorough);
            rep
        }
        "C19" => {
            let mut rep = Report::new("C19", "boundary grid of every public option field (lc, lp, pb, lc+lp, dict_size, nice_len x mode x match finder, depth_limit, preset dictionary length, delta distance, BCJ start offsets, number of filters, block size) x {small, large, empty} input x every writer (LZMA raw/.lzma, LZMA2, XZ, LZIP, LZMA2-MT); each run under catch_unwind; verdict: error, or success with a stream the matching reader decodes to the input");
            opts::run(&mut rep, &mut rng, thorough, seed, outdir);
            rep
        }
        "C19-point" => {
            let mut rep = Report::new("C19", "one option point");
            rep.max_samples = 4;
            let idx: usize = args.get(5).and_then(|s| s.parse().ok()).unwrap_or(0);
            // bound the address space of the child: a writer that tries to allocate terabytes must not take the machine down
            opts::run_point(&mut rep, &mut rng, thorough, idx);
            rep
        }
        "C05" => {
            let mut rep = Report::new("C05", "valid streams of every format (XZ single/multi, LZIP, LZMA2, LZMA x4) x every truncation point x an I/O error injected at every read-call index x random short-read/Interrupted scripts; writers x short-writing/Interrupted sinks x sink errors at random write-call indices; all cases non-trivial; distinct = distinct stream / writer case");
            fault::run(&mut rep, &mut rng, thorough);
            rep
        }
        "C06" => {
            let mut rep = Report::new("C06", "hostile inputs to every decoder: XZ/LZIP files mutated structure-aware (CRC-32 fields recomputed so the damage reaches deep parsing), raw LZMA with arbitrary props/dict/size, LZMA2 chunk soup and mutated streams (also through the MT readers), BCJ/Delta readers over random bytes with arbitrary offsets, BCJ2 with four arbitrary streams, random bytes; each case measured: panic, wall time, peak heap (counting allocator); non-trivial = all; distinct = decoder x shape class");
            c06::run(&mut rep, &mut rng, thorough);
            rep
        }
        "C12" => {
            let mut rep = Report::new("C12", "sequences of 1..n valid XZ streams (with stream padding of legal and illegal length) / LZIP members, decoded with multi=true and multi=false; non-trivial = more than one part; distinct = (format, count, padding residues)");
            cont::run_c12(&mut rep, &mut rng, thorough);
            rep
        }
        "C16" => {
            let mut rep = Report::new("C16", "valid streams of every format followed by nothing / zeros / random bytes / 0xFF / another stream, read with three buffer schedules; the bytes consumed from the source must be exactly the stream; non-trivial = non-empty data; distinct = (format, trailer kind, size class, schedule)");
            cont::run_c16(&mut rep, &mut rng, thorough);
            rep
        }
        "TWIN" => {
            let mut rep = Report::new("TWIN", "cases = one call of the real function through its hook on generated arguments (extend_match: repetitive buffers, limits touching the physical end; normalize: table lengths around the SIMD width, offsets near i32::MAX; get_match_len_fast_reject: read_pos on the last bytes of the physical buffer, length limits 0/1/2/up to/beyond the end, windows of LZEncoder::new; decode_direct_bits: default dispatch and portable loop from explicit states, counts 0..40, buffer ending inside the run, code >= range, range at its extremes); non-trivial = non-empty argument; distinct = (function, size class, extension, touches-end)");
            twin::run_twins(&mut rep, &mut rng, thorough);
            rep
        }
        "W2" => {
            // own validation of Model/Lzma2Writer.lean: `vh W2 <quick|thorough> <seed> <outdir> [cases]`
            let mut rep = Report::new("W2", "LZMA2Writer (fast mode) against the model lzma2FastBytes, byte for byte");
            let n: u64 = args.get(5).and_then(|s| s.parse().ok()).unwrap_or(100);
            lzma2w::run_lzma2w(&mut rep, &mut rng, n, thorough, args.get(6).map(|s| s == "check").unwrap_or(false));
            rep
        }
        "ENCNORMAL" => {
            // bulk validation of the normal-mode encoder model: `vh ENCNORMAL <tier> <seed> <outdir> [cases] [max_len]`
            let mut rep = Report::new("ENCNORMAL", "cases = the real LZMAWriter (raw LZMA1, EncodeMode::Normal) against Model/EncNormal.lean, byte for byte; non-trivial = non-empty input");
            let n: u64 = args.get(5).and_then(|s| s.parse().ok()).unwrap_or(200);
            let max_len: usize = args.get(6).and_then(|s| s.parse().ok()).unwrap_or(40_000);
            twin::run_encnormal(&mut rep, &mut rng, n, max_len);
            rep
        }
        "C02" => {
            let mut rep = Report::new("C02", "cases = (format, data kind, size class, partition style, option class); generated from one PRNG; non-trivial = non-empty input; distinct = distinct signature");
            c02::run(&mut rep, &mut rng, thorough);
            rep
        }
        _ => {
            eprintln!("unknown property {prop}");
            std::process::exit(2);
        }
    };
    rep.notes.push(format!("seed={seed} tier={}", args[2]));
    rep.write(outdir);
    println!("{} evaluations={} distinct={} failures={} model_requests={}", prop, rep.evaluations, rep.signatures.len(), rep.failures.len(), rep.req.len());
}
