mod c01;
mod c02;
mod codec;
mod util;

use util::*;

fn main() {
    let args: Vec<String> = std::env::args().collect();
    if args.len() < 5 {
        eprintln!("usage: vh <property> <quick|thorough> <seed> <outdir> [extra]");
        std::process::exit(2);
    }
    let prop = args[1].as_str();
    let thorough = args[2] == "thorough";
    let seed: u64 = args[3].parse().unwrap_or(1);
    let outdir = &args[4];
    install_quiet_panic_hook();
    let mut rng = Rng::new(seed ^ fnv(prop.as_bytes()));
    let mut rep = match prop {
        "C01" => {
            let mut rep = Report::new("C01", "cases = (format variant, data kind, size class, partition style, option class); one PRNG; non-trivial = non-empty input; distinct = distinct signature");
            c01::run(&mut rep, &mut rng, thorough);
            rep
        }
        "C02" => {
            let mut rep = Report::new("C02", "cases = (format, data kind, size class, partition style, option class); generated from one PRNG; non-trivial = non-empty input; distinct = distinct signature");
            c02::run(&mut rep, &mut rng, thorough);
            rep
        }
        _ => {
            eprintln!("unknown property {prop}");
            std::process::exit(2);
        }
    };
    rep.notes.push(format!("seed={seed} tier={}", args[2]));
    rep.write(outdir);
    println!("{} evaluations={} distinct={} failures={} model_requests={}", prop, rep.evaluations, rep.signatures.len(), rep.failures.len(), rep.req.len());
}
