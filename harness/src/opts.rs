//! C19: for every value a caller can put into the public option structs, a writer either returns an
//! error or produces a stream its reader decodes to the written bytes; it never panics.
use crate::codec::*;
use crate::util::*;
use lzma_rust2::*;
use serde_json::json;
use std::num::NonZeroU64;

fn base() -> LzOpts {
    LzOpts { dict: 65536, lc: 3, lp: 0, pb: 2, normal: false, nice: 32, bt4: false, depth: 0, preset: None }
}

/// boundary grid of one-field deviations from a sane base (plus a few pairs)
fn grid(thorough: bool) -> Vec<(String, LzOpts)> {
    let mut v = vec![("base".to_string(), base())];
    for lc in [0u32, 4, 5, 8, 9, 12, 31, 32, u32::MAX] {
        let mut o = base();
        o.lc = lc;
        v.push((format!("lc={lc}"), o));
    }
    for lp in [1u32, 4, 5, 6, 32, u32::MAX] {
        let mut o = base();
        o.lp = lp;
        o.lc = 0;
        v.push((format!("lp={lp}"), o));
    }
    for (lc, lp) in [(4u32, 1u32), (3, 2), (2, 3), (1, 4), (8, 4), (4, 4)] {
        let mut o = base();
        o.lc = lc;
        o.lp = lp;
        v.push((format!("lc={lc},lp={lp}"), o));
    }
    for pb in [0u32, 4, 5, 6, 31, 32, u32::MAX] {
        let mut o = base();
        o.pb = pb;
        v.push((format!("pb={pb}"), o));
    }
    let mut dicts = vec![0u32, 1, 2, 4095, 4096, 4097];
    if thorough {
        dicts.extend_from_slice(&[1 << 30, (3 << 29) + 1, 0x7FFF_FFFF, 0x8000_0000, 0xFFFF_FFF0, u32::MAX]);
    }
    for dict in dicts {
        let mut o = base();
        o.dict = dict;
        v.push((format!("dict={dict}"), o));
    }
    // dictionary sizes that are not of the form 2^n / 3 * 2^(n-1) (no preset uses one), in the mode with distance price
    // tables: the tables are sized from the distance slot of `dict_size - 1`; just above a slot boundary the top slot holds
    // a single distance (the inputs with period `dict_size` put matches exactly there)
    for dict in [4097u32, 5000, 6145, 7000, 12289, 100_000] {
        for bt4 in [false, true] {
            let mut o = base();
            o.dict = dict;
            o.normal = true;
            o.bt4 = bt4;
            v.push((format!("dict={dict},normal=true,bt4={bt4}"), o));
        }
    }
    for nice in [0u32, 1, 2, 7, 8, 9, 272, 273, 274, 1000, u32::MAX] {
        for normal in [false, true] {
            for bt4 in [false, true] {
                let mut o = base();
                o.nice = nice;
                o.normal = normal;
                o.bt4 = bt4;
                v.push((format!("nice={nice},normal={normal},bt4={bt4}"), o));
            }
        }
    }
    for depth in [i32::MIN, -1, 0, 1, i32::MAX] {
        let mut o = base();
        o.depth = depth;
        o.bt4 = depth % 2 == 0;
        v.push((format!("depth={depth}"), o));
    }
    for plen in [0usize, 1, 65536, 65537, 70000, 140000] {
        let mut o = base();
        // position-dependent content: a writer and a reader that keep different parts of an over-long preset
        // dictionary disagree about it
        o.preset = Some((0..plen).map(|k| ((k * 31 + k / 251) % 253) as u8).collect());
        v.push((format!("preset_len={plen}"), o));
    }
    v
}

fn verdict<T>(rep: &mut Report, what: &str, point: &str, input_len: usize, r: Outcome<T>, check: impl FnOnce(T) -> std::result::Result<(), String>) {
    let d = json!({"writer": what, "option_point": point, "input_len": input_len});
    match r {
        Outcome::Ok(v) => {
            if let Err(e) = check(v) {
                rep.fail(&format!("undecodable:{what}:{}", point.split('=').next().unwrap_or(point)), &format!("writer reported success but the stream does not decode to the input: {e}"), d);
            } else {
                rep.count("outcome.ok");
            }
        }
        Outcome::Err(..) => rep.count("outcome.err"),
        Outcome::Panic(m) => rep.fail(&format!("panic:{what}:{}", point.split('=').next().unwrap_or(point)), &format!("panic: {}", m.chars().take(160).collect::<String>()), d),
    }
}

/// Parent: every grid point runs in a child process (`vh C19-point <index> ...`), because some option values
/// make the allocator abort the process, which `catch_unwind` cannot intercept.
pub fn run(rep: &mut Report, rng: &mut Rng, thorough: bool, seed: u64, outdir: &str) {
    let n = grid(thorough).len();
    let exe = std::env::current_exe().unwrap();
    let tier = if thorough { "thorough" } else { "quick" };
    let mut children: Vec<(usize, std::process::Child)> = Vec::new();
    let mut next = 0usize;
    let mut done = 0usize;
    let par = 8;
    let mut finish = |idx: usize, mut ch: std::process::Child, rep: &mut Report| {
        let st = ch.wait();
        let sub = format!("{outdir}/c19-point-{idx}");
        let ok = matches!(&st, Ok(s) if s.success());
        if let Ok(txt) = std::fs::read_to_string(format!("{sub}/C19.json")) {
            if let Ok(j) = serde_json::from_str::<serde_json::Value>(&txt) {
                rep.evaluations += j["evaluations"].as_u64().unwrap_or(0);
                for f in j["failures"].as_array().cloned().unwrap_or_default() {
                    rep.fail(f["id"].as_str().unwrap_or("?"), f["what"].as_str().unwrap_or("?"), f["detail"].clone());
                }
                for smp in j["samples"].as_array().cloned().unwrap_or_default() {
                    let sig = format!("point:{}", smp["option_point"].as_str().unwrap_or("?"));
                    rep.case(sig, true, || smp.clone());
                    rep.evaluations -= 1;
                }
                for (k, v) in j["dist"].as_object().cloned().unwrap_or_default() {
                    *rep.dist.entry(k).or_insert(0) += v.as_u64().unwrap_or(0);
                }
            }
            if let (Ok(rq), Ok(ex)) = (std::fs::read_to_string(format!("{sub}/C19.req")), std::fs::read_to_string(format!("{sub}/C19.exp"))) {
                for (a, b) in rq.lines().zip(ex.lines()) {
                    rep.model(a.to_string(), b.to_string());
                }
            }
        }
        if !ok {
            let (name, o) = grid(thorough)[idx].clone();
            rep.fail(&format!("abort:{}", name.split('=').next().unwrap_or(&name)), &format!("the process died (abort / allocation failure / timeout) at option point {name}: {st:?}"), json!({"option_point": name, "opts": o.json()}));
        }
        let _ = std::fs::remove_dir_all(&sub);
    };
    while done < n {
        while next < n && children.len() < par {
            let sub = format!("{outdir}/c19-point-{next}");
            let ch = std::process::Command::new(&exe)
                .args(["C19-point", tier, &seed.to_string(), &sub, &next.to_string()])
                .stdout(std::process::Stdio::null())
                .stderr(std::process::Stdio::null())
                .spawn()
                .expect("spawn child");
            children.push((next, ch));
            next += 1;
        }
        let (idx, ch) = children.remove(0);
        finish(idx, ch, rep);
        done += 1;
    }
    filters_part(rep, rng);
    lzma_new_part(rep, rng);
}

/// every combination of the arguments of the general constructor `LZMAWriter::new(out, options, use_header,
/// use_end_marker, expected_uncompressed_size)` (+ preset dictionary): refused, or a stream the reader a user would
/// pair with it decodes - `.lzma` header: `LZMAReader::new_mem_limit`; raw: `LZMAReader::new` told the size exactly when
/// the stream has no end marker (a raw stream without marker and without a size known out of band has no decoder)
fn lzma_new_part(rep: &mut Report, rng: &mut Rng) {
    let o = base();
    for data in [gen_data(rng, "text", 700), vec![]] {
        for use_header in [false, true] {
            for use_marker in [false, true] {
                for (ek, expected) in [("none", None), ("exact", Some(data.len() as u64)), ("more", Some(data.len() as u64 + 3))] {
                    for preset in [None, Some(gen_data(rng, "text", 200))] {
                        let mut o1 = o.clone();
                        o1.preset = preset.clone();
                        let point = format!("lzma_new=header:{use_header},marker:{use_marker},expected:{ek},preset:{}", preset.is_some());
                        let (o2, d2) = (o1.clone(), data.clone());
                        let r = guard(move || {
                            let mut w = LZMAWriter::new(Vec::new(), &o2.to_opts(), use_header, use_marker, expected)?;
                            std::io::Write::write_all(&mut w, &d2)?;
                            w.finish()
                        });
                        if !data.is_empty() {
                            // the model describes the constructor's decision alone (write / finish against a declared size: C18)
                            let o3 = o1.clone();
                            let r = guard(move || LZMAWriter::new(Vec::new(), &o3.to_opts(), use_header, use_marker, expected).map(|_| ()));
                            rep.model(
                                format!("opts.lzmanew dict={} lc={} lp={} pb={} nice={} header={} marker={} expected={} preset={}", o1.dict, o1.lc, o1.lp, o1.pb, o1.nice, use_header as u8, use_marker as u8,
                                    match ek { "none" => "none", "exact" => "exact", _ => "more" }, preset.as_ref().map(|p| p.len().to_string()).unwrap_or("none".into())),
                                match &r { Outcome::Ok(_) => "ok", Outcome::Err(std::io::ErrorKind::InvalidInput, _) => "err", Outcome::Err(std::io::ErrorKind::Unsupported, _) => "unsupported", Outcome::Err(..) => "err-other", Outcome::Panic(_) => "panic" }.to_string(),
                            );
                        }
                        let fmt = match (use_header, use_marker) { (true, _) => LzmaFmt::HeaderSize, (false, true) => LzmaFmt::RawMarker, (false, false) => LzmaFmt::RawSize };
                        verdict(rep, "lzma-new", &point, data.len(), r, |c| match lzma_decompress(&c, &o1, fmt, data.len() as u64, &[65536], data.len() + 16) {
                            Outcome::Ok((d, _)) if d == data => Ok(()),
                            other => Err(other.describe()),
                        });
                        rep.evaluations += 1;
                        rep.case(format!("point:{point}"), true, || json!({"option_point": point}));
                    }
                }
            }
        }
    }
}

/// Child: one option point.
pub fn run_point(rep: &mut Report, rng: &mut Rng, thorough: bool, index: usize) {
    let inputs: Vec<Vec<u8>> = vec![gen_data(rng, "text", 300), gen_data(rng, "mixed", if thorough { 400_000 } else { 90_000 }), vec![]];
    for (point, o) in grid(thorough).into_iter().skip(index).take(1) {
        let mut inputs = inputs.clone();
        if let Some(p) = &o.preset {
            if p.len() > 600 {
                // data that repeats the end and the beginning of the preset dictionary
                let mut d = p[p.len() - 300..].to_vec();
                d.extend_from_slice(&p[..300]);
                d.extend_from_slice(&p[p.len() - 500..p.len() - 100]);
                inputs.insert(0, d);
            }
        }
        if (4096..=(1u32 << 17)).contains(&o.dict) {
            // data with period dict + 1 (and dict): the match finders' reach ends exactly there
            for extra in [1usize, 0] {
                let period = o.dict as usize + extra;
                let base = rng.bytes(period);
                inputs.insert(0, (0..period * 2 + 700).map(|k| base[k % period]).collect());
            }
        }
        if index == 0 {
            // the first (in-range) point also gets inputs that compress better than 32:1 and are longer than 2 MiB:
            // an LZMA2 chunk then ends at the limit of its 21-bit uncompressed-size field, not at 64 KiB of output
            inputs.push(vec![0u8; (2 << 20) + 300]);
            let pat = rng.bytes(1024);
            inputs.push((0..(3usize << 20) + 77).map(|k| pat[k % 1024]).collect());
        }
        let mut first = true;
        let mut xz_first = true;
        for data in &inputs {
            let huge_dict = o.dict > (1 << 28);
            if huge_dict && data.len() > 1000 {
                continue;
            }
            // LZMA (raw with end marker)
            let o1 = o.clone();
            let r = guard(|| {
                let mut w = LZMAWriter::new_no_header(Vec::new(), &o1.to_opts(), true)?;
                std::io::Write::write_all(&mut w, data)?;
                w.finish()
            });
            if first {
                first = false;
                let cls = |r: &Outcome<Vec<u8>>| match r { Outcome::Ok(_) => "ok", Outcome::Err(std::io::ErrorKind::InvalidInput, _) => "err", Outcome::Err(..) => "err-other", Outcome::Panic(_) => "panic" };
                rep.model(format!("opts.validate kind=lzma dict={} lc={} lp={} pb={} nice={}", o.dict, o.lc, o.lp, o.pb, o.nice), cls(&r).to_string());
                let r2 = lzma2_compress(data, &o, None, &[data.len()], 0);
                rep.model(format!("opts.validate kind=lzma2 dict={} lc={} lp={} pb={} nice={}", o.dict, o.lc, o.lp, o.pb, o.nice), cls(&r2).to_string());
            }
            verdict(rep, "lzma", &point, data.len(), r, |c| match lzma_decompress(&c, &o, LzmaFmt::RawMarker, 0, &[65536], data.len() + 16) {
                Outcome::Ok((d, _)) if &d == data => Ok(()),
                other => Err(other.describe()),
            });
            // .lzma header (no preset)
            if o.preset.is_none() {
                let o1 = o.clone();
                let r = guard(|| {
                    let mut w = LZMAWriter::new_use_header(Vec::new(), &o1.to_opts(), Some(data.len() as u64))?;
                    std::io::Write::write_all(&mut w, data)?;
                    w.finish()
                });
                verdict(rep, "lzma-alone", &point, data.len(), r, |c| match lzma_decompress(&c, &o, LzmaFmt::HeaderSize, 0, &[65536], data.len() + 16) {
                    Outcome::Ok((d, _)) if &d == data => Ok(()),
                    other => Err(other.describe()),
                });
            }
            // LZMA2
            let r = lzma2_compress(data, &o, None, &[data.len()], 0);
            verdict(rep, "lzma2", &point, data.len(), r, |c| match lzma2_decompress(&c, o.dict, o.preset.as_deref(), &[65536], data.len() + 16) {
                Outcome::Ok((d, _)) if &d == data => Ok(()),
                other => Err(other.describe()),
            });
            // XZ and LZIP: also with a preset dictionary in the option struct - neither format can announce one, so the
            // writer must refuse it or not use it (the readers below have none)
            {
                let xo = XzOpts { lz: o.clone(), check: 1, block: None, filters: vec![] };
                let r = xz_compress(data, &xo, &[data.len()], 0);
                if xz_first {
                    xz_first = false;
                    rep.model(
                        format!("opts.validate kind=xz dict={} lc={} lp={} pb={} nice={} preset={}", o.dict, o.lc, o.lp, o.pb, o.nice, o.preset.as_ref().map(|p| p.len()).unwrap_or(0)),
                        match &r { Outcome::Ok(_) => "ok", Outcome::Err(std::io::ErrorKind::InvalidInput, _) => "err", Outcome::Err(..) => "err-other", Outcome::Panic(_) => "panic" }.to_string(),
                    );
                }
                verdict(rep, "xz", &point, data.len(), r, |c| match xz_decompress(&c, false, &[65536], data.len() + 16) {
                    Outcome::Ok((d, _)) if &d == data => Ok(()),
                    other => Err(other.describe()),
                });
                // LZIP
                let r = lzip_compress(data, &o, None, &[data.len()]);
                verdict(rep, "lzip", &point, data.len(), r, |c| match lzip_decompress(&c, &[65536], data.len() + 16) {
                    Outcome::Ok((d, _)) if &d == data => Ok(()),
                    other => Err(other.describe()),
                });
            }
            if o.preset.is_none() {
                // MT writers
                if data.len() < 100_000 {
                    let o1 = o.clone();
                    let r = guard(|| {
                        let mut opts = LZMA2Options { lzma_options: o1.to_opts(), chunk_size: None };
                        opts.set_chunk_size(NonZeroU64::new(50_000));
                        let mut w = LZMA2WriterMT::new(Vec::new(), opts, 2)?;
                        std::io::Write::write_all(&mut w, data)?;
                        w.finish()
                    });
                    verdict(rep, "lzma2-mt", &point, data.len(), r, |c| match lzma2_decompress(&c, o.dict, None, &[65536], data.len() + 16) {
                        Outcome::Ok((d, _)) if &d == data => Ok(()),
                        other => Err(other.describe()),
                    });
                }
            }
            rep.evaluations += 1;
        }
        rep.case(format!("point:{point}"), true, || json!({"option_point": point, "opts": o.json()}));
    }
}

fn filters_part(rep: &mut Report, rng: &mut Rng) {
    // XZ filter options
    let data = gen_data(rng, "code", 5000);
    let mut fpoints: Vec<(String, Vec<(u8, u32)>)> = vec![];
    for d in [0u32, 1, 2, 255, 256, 257, 1000, u32::MAX] {
        fpoints.push((format!("delta={d}"), vec![(3, d)]));
    }
    for (id, a) in [(4u8, 1u32), (5, 4), (6, 16), (7, 4), (8, 2), (9, 4), (10, 4), (11, 2)] {
        for off in [0u32, 1, a, a + 1, 3, 0xFFFF_FFF0, u32::MAX] {
            fpoints.push((format!("bcj{id}-offset={off}"), vec![(id, off)]));
        }
    }
    fpoints.push(("filters=4".into(), vec![(3, 1), (3, 2), (4, 0), (7, 0)]));
    fpoints.push(("filters=3".into(), vec![(3, 1), (4, 0), (7, 0)]));
    for (point, fs) in fpoints {
        let xo = XzOpts { lz: base(), check: 4, block: Some(70_000), filters: fs.clone() };
        let r = xz_compress(&data, &xo, &[data.len()], 0);
        rep.model(
            format!("opts.validate kind=xz dict=65536 lc=3 lp=0 pb=2 nice=32 fids={} fprops={}", fs.iter().map(|f| f.0.to_string()).collect::<Vec<_>>().join(","), fs.iter().map(|f| f.1.to_string()).collect::<Vec<_>>().join(",")),
            match &r { Outcome::Ok(_) => "ok", Outcome::Err(std::io::ErrorKind::InvalidInput, _) => "err", Outcome::Err(..) => "err-other", Outcome::Panic(_) => "panic" }.to_string(),
        );
        verdict(rep, "xz-filters", &point, data.len(), r, |c| match xz_decompress(&c, false, &[65536], data.len() + 16) {
            Outcome::Ok((d, _)) if d == data => Ok(()),
            other => Err(other.describe()),
        });
        rep.evaluations += 1;
        rep.case(format!("fpoint:{point}"), true, || json!({"option_point": point, "filters": fs}));
    }
    // zero-sized limits are unrepresentable (NonZeroU64); tiny limits are raised to the dictionary size
    for lim in [1u64, 2, 4095] {
        let xo = XzOpts { lz: base(), check: 1, block: Some(lim), filters: vec![] };
        let r = xz_compress(&data, &xo, &[data.len()], 0);
        verdict(rep, "xz", &format!("block_size={lim}"), data.len(), r, |c| match xz_decompress(&c, false, &[65536], data.len() + 16) {
            Outcome::Ok((d, _)) if d == data => Ok(()),
            other => Err(other.describe()),
        });
        rep.evaluations += 1;
    }
}
