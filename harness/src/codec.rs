//! Thin wrappers around the crate's public writers/readers, all under `catch_unwind`.
use crate::util::*;
use lzma_rust2::*;
use std::io::{Read, Write};
use std::num::NonZeroU64;

#[derive(Clone, Debug)]
pub struct LzOpts {
    pub dict: u32,
    pub lc: u32,
    pub lp: u32,
    pub pb: u32,
    pub normal: bool,
    pub nice: u32,
    pub bt4: bool,
    pub depth: i32,
    pub preset: Option<Vec<u8>>,
}

impl LzOpts {
    pub fn to_opts(&self) -> LZMAOptions {
        let mut o = LZMAOptions::new(
            self.dict,
            self.lc,
            self.lp,
            self.pb,
            if self.normal { EncodeMode::Normal } else { EncodeMode::Fast },
            self.nice,
            if self.bt4 { MFType::BT4 } else { MFType::HC4 },
            self.depth,
        );
        o.preset_dict = self.preset.clone();
        o
    }
    pub fn sig(&self) -> String {
        format!(
            "lc{}lp{}pb{}{}{}d{}n{}p{}",
            self.lc,
            self.lp,
            self.pb,
            if self.normal { "N" } else { "F" },
            if self.bt4 { "B" } else { "H" },
            dict_class(self.dict),
            nice_class(self.nice),
            self.preset.as_ref().map(|p| size_class(p.len())).unwrap_or("none")
        )
    }
    pub fn json(&self) -> serde_json::Value {
        serde_json::json!({"dict": self.dict, "lc": self.lc, "lp": self.lp, "pb": self.pb,
            "mode": if self.normal {"normal"} else {"fast"}, "nice_len": self.nice,
            "mf": if self.bt4 {"bt4"} else {"hc4"}, "depth": self.depth,
            "preset_dict_len": self.preset.as_ref().map(|p| p.len())})
    }
    pub fn props(&self) -> u8 {
        ((self.pb * 5 + self.lp) * 9 + self.lc) as u8
    }
}

pub fn dict_class(d: u32) -> &'static str {
    match d {
        0..=4095 => "<4K",
        4096 => "4K",
        4097..=65535 => "4K-64K",
        65536 => "64K",
        65537..=1048575 => "64K-1M",
        _ => ">=1M",
    }
}
pub fn nice_class(n: u32) -> &'static str {
    match n {
        0..=7 => "<8",
        8 => "8",
        9..=31 => "9-31",
        32..=272 => "32-272",
        273 => "273",
        _ => ">273",
    }
}

/// In-range LZMA options. `lzma2`: lc+lp ≤ 4. `max_dict`: upper bound for the dictionary.
pub fn gen_lzopts(rng: &mut Rng, lzma2: bool, max_dict: u32, allow_preset: bool) -> LzOpts {
    let (lc, lp) = loop {
        let lc = if rng.chance(1, 3) { *rng.pick(&[0u32, 3, 4, 8]) } else { rng.below(9) as u32 };
        let lp = if rng.chance(1, 2) { 0 } else { rng.below(5) as u32 };
        if !lzma2 || lc + lp <= 4 {
            break (lc, lp);
        }
    };
    let pb = if rng.chance(1, 2) { 2 } else { rng.below(5) as u32 };
    let dict = match rng.below(8) {
        0 => 4096,
        1 => rng.range(4096, 8192) as u32,
        2 => rng.range(4096, 65536) as u32,
        3 => 65536,
        4 => rng.range(65536, 1 << 20) as u32,
        5 => 1 << rng.range(12, 22),
        6 => (1 << rng.range(12, 20)) + (1 << rng.range(8, 11)),
        _ => rng.range(4096, max_dict as u64) as u32,
    }
    .min(max_dict)
    .max(4096);
    let nice = match rng.below(5) {
        0 => 8,
        1 => 273,
        2 => rng.range(8, 32) as u32,
        _ => rng.range(8, 273) as u32,
    };
    let depth = match rng.below(5) {
        0 => 0,
        1 => 1,
        2 => rng.range(2, 64) as i32,
        3 => 0,
        _ => rng.range(1, 1000) as i32,
    };
    let preset = if allow_preset && rng.chance(1, 5) {
        let n = *rng.pick(&[1usize, 7, 100, 4096, 5000, 70000]);
        let k = *rng.pick(&["text", "random", "periodic"]);
        Some(gen_data(rng, k, n))
    } else {
        None
    };
    LzOpts { dict, lc, lp, pb, normal: rng.chance(1, 2), nice, bt4: rng.chance(1, 2), depth, preset }
}

pub fn lzma2_compress(data: &[u8], o: &LzOpts, chunk: Option<u64>, parts: &[usize], flush_every: usize) -> Outcome<Vec<u8>> {
    guard(|| {
        let mut opts = LZMA2Options { lzma_options: o.to_opts(), chunk_size: None };
        opts.set_chunk_size(chunk.and_then(NonZeroU64::new));
        let mut w = LZMA2Writer::new(Vec::new(), opts);
        write_parts(&mut w, data, parts, flush_every)?;
        w.finish()
    })
}

pub fn lzma2_decompress(comp: &[u8], dict: u32, preset: Option<&[u8]>, sched: &[usize], cap: usize) -> Outcome<(Vec<u8>, usize)> {
    guard(|| {
        let mut src = comp;
        let out = {
            let mut r = LZMA2Reader::new(&mut src, dict, preset);
            read_all_sched(&mut r, sched, cap)?
        };
        Ok((out, comp.len() - src.len()))
    })
}

#[derive(Clone, Copy, Debug, PartialEq)]
pub enum LzmaFmt {
    /// .lzma header, unknown size, end marker
    HeaderMarker,
    /// .lzma header with size, no end marker
    HeaderSize,
    /// raw, end marker, reader told u64::MAX
    RawMarker,
    /// raw, no end marker, reader told the size
    RawSize,
    /// raw, end marker AND reader told the size
    RawBoth,
}

pub const LZMA_FMTS: &[LzmaFmt] = &[LzmaFmt::HeaderMarker, LzmaFmt::HeaderSize, LzmaFmt::RawMarker, LzmaFmt::RawSize, LzmaFmt::RawBoth];

pub fn lzma_compress(data: &[u8], o: &LzOpts, fmt: LzmaFmt, parts: &[usize]) -> Outcome<Vec<u8>> {
    guard(|| {
        let opts = o.to_opts();
        let mut w = match fmt {
            LzmaFmt::HeaderMarker => LZMAWriter::new_use_header(Vec::new(), &opts, None)?,
            LzmaFmt::HeaderSize => LZMAWriter::new_use_header(Vec::new(), &opts, Some(data.len() as u64))?,
            LzmaFmt::RawMarker | LzmaFmt::RawBoth => LZMAWriter::new_no_header(Vec::new(), &opts, true)?,
            LzmaFmt::RawSize => LZMAWriter::new_no_header(Vec::new(), &opts, false)?,
        };
        write_parts(&mut w, data, parts, 0)?;
        w.finish()
    })
}

pub fn lzma_decompress(comp: &[u8], o: &LzOpts, fmt: LzmaFmt, size: u64, sched: &[usize], cap: usize) -> Outcome<(Vec<u8>, usize)> {
    guard(|| {
        let mut src = comp;
        let out = {
            let mut r = match fmt {
                LzmaFmt::HeaderMarker | LzmaFmt::HeaderSize => LZMAReader::new_mem_limit(&mut src, u32::MAX, o.preset.as_deref())?,
                LzmaFmt::RawMarker => LZMAReader::new(&mut src, u64::MAX, o.lc, o.lp, o.pb, o.dict, o.preset.as_deref())?,
                LzmaFmt::RawSize | LzmaFmt::RawBoth => LZMAReader::new(&mut src, size, o.lc, o.lp, o.pb, o.dict, o.preset.as_deref())?,
            };
            read_all_sched(&mut r, sched, cap)?
        };
        Ok((out, comp.len() - src.len()))
    })
}

#[derive(Clone, Debug)]
pub struct XzOpts {
    pub lz: LzOpts,
    pub check: u8, // 0,1,4,10
    pub block: Option<u64>,
    pub filters: Vec<(u8, u32)>, // (filter id, property)
}

pub fn check_type(c: u8) -> CheckType {
    match c {
        0 => CheckType::None,
        1 => CheckType::Crc32,
        4 => CheckType::Crc64,
        _ => CheckType::Sha256,
    }
}

pub fn filter_type(id: u8) -> FilterType {
    match id {
        3 => FilterType::Delta,
        4 => FilterType::BcjX86,
        5 => FilterType::BcjPPC,
        6 => FilterType::BcjIA64,
        7 => FilterType::BcjARM,
        8 => FilterType::BcjARMThumb,
        9 => FilterType::BcjSPARC,
        10 => FilterType::BcjARM64,
        _ => FilterType::BcjRISCV,
    }
}

pub fn filter_align(id: u8) -> u32 {
    match id {
        4 => 1,
        5 | 7 | 9 | 10 => 4,
        6 => 16,
        8 | 11 => 2,
        _ => 1,
    }
}

impl XzOpts {
    pub fn to_opts(&self) -> XZOptions {
        let mut o = XZOptions::default();
        o.lzma_options = self.lz.to_opts();
        o.check_type = check_type(self.check);
        o.block_size = self.block.and_then(NonZeroU64::new);
        o.filters = self.filters.iter().map(|&(id, p)| FilterConfig { filter_type: filter_type(id), property: p }).collect();
        o
    }
    pub fn sig(&self) -> String {
        format!("chk{}blk{}f{:?}{}", self.check, self.block.map(|b| size_class(b as usize)).unwrap_or("none"),
            self.filters.iter().map(|f| f.0).collect::<Vec<_>>(), self.lz.sig())
    }
    pub fn json(&self) -> serde_json::Value {
        serde_json::json!({"lzma": self.lz.json(), "check": self.check, "block_size": self.block, "filters": self.filters})
    }
}

pub fn gen_filters(rng: &mut Rng) -> Vec<(u8, u32)> {
    let n = match rng.below(6) {
        0 | 1 | 2 => 0,
        3 | 4 => 1,
        _ => rng.range(2, 3),
    };
    (0..n)
        .map(|_| {
            let id = rng.range(3, 11) as u8;
            let prop = if id == 3 {
                let x = rng.range(1, 256) as u32;
                *rng.pick(&[1u32, 2, 3, 4, 16, 255, 256, x])
            } else if rng.chance(1, 2) {
                0
            } else {
                let a = filter_align(id);
                let x = rng.next() as u32 & 0x0FFF_FFFF;
                (*rng.pick(&[a, 4096, 0x1000_0000, x]) / a) * a
            };
            (id, prop)
        })
        .collect()
}

pub fn gen_xzopts(rng: &mut Rng, max_dict: u32, data_len: usize) -> XzOpts {
    let mut lz = gen_lzopts(rng, true, max_dict, false);
    lz.preset = None;
    let block = match rng.below(6) {
        0 | 1 => None,
        2 => Some(lz.dict as u64),
        3 => Some(rng.range(1, (data_len as u64).max(2))),
        4 => Some(data_len as u64 + rng.range(0, 1000)),
        _ => Some(rng.range(4096, 200000)),
    };
    XzOpts { lz, check: *rng.pick(&[0u8, 1, 4, 10]), block, filters: gen_filters(rng) }
}

pub fn xz_compress(data: &[u8], o: &XzOpts, parts: &[usize], flush_every: usize) -> Outcome<Vec<u8>> {
    guard(|| {
        let mut w = XZWriter::new(Vec::new(), o.to_opts())?;
        write_parts(&mut w, data, parts, flush_every)?;
        w.finish()
    })
}

pub fn xz_decompress(comp: &[u8], multi: bool, sched: &[usize], cap: usize) -> Outcome<(Vec<u8>, usize)> {
    guard(|| {
        let mut src = comp;
        let out = {
            let mut r = XZReader::new(&mut src, multi);
            read_all_sched(&mut r, sched, cap)?
        };
        Ok((out, comp.len() - src.len()))
    })
}

pub fn lzip_compress(data: &[u8], o: &LzOpts, member: Option<u64>, parts: &[usize]) -> Outcome<Vec<u8>> {
    guard(|| {
        let mut opts = LZIPOptions { lzma_options: o.to_opts(), member_size: None };
        opts.set_member_size(member.and_then(NonZeroU64::new));
        let mut w = LZIPWriter::new(Vec::new(), opts);
        write_parts(&mut w, data, parts, 0)?;
        w.finish()
    })
}

pub fn lzip_decompress(comp: &[u8], sched: &[usize], cap: usize) -> Outcome<(Vec<u8>, usize)> {
    guard(|| {
        let mut src = comp;
        let out = {
            let mut r = LZIPReader::new(&mut src)?;
            read_all_sched(&mut r, sched, cap)?
        };
        Ok((out, comp.len() - src.len()))
    })
}

/// reference decoders (liblzma)
pub mod reference {
    use liblzma::stream::{Action, Filters, LzmaOptions, Status, Stream};
    pub fn run(mut s: Stream, input: &[u8], cap: usize) -> Result<Vec<u8>, String> {
        let mut out: Vec<u8> = Vec::with_capacity((input.len() * 4).max(4096));
        let mut inp = input;
        loop {
            if out.capacity() - out.len() < 4096 {
                out.reserve(out.len().max(65536));
            }
            let before_in = s.total_in();
            let before_out = out.len();
            let action = if inp.is_empty() { Action::Finish } else { Action::Run };
            let st = s.process_vec(inp, &mut out, action).map_err(|e| format!("{e:?}"))?;
            let used = (s.total_in() - before_in) as usize;
            inp = &inp[used..];
            if out.len() > cap {
                return Err("output cap".into());
            }
            match st {
                Status::StreamEnd => return Ok(out),
                _ => {
                    if used == 0 && out.len() == before_out && inp.is_empty() {
                        return Err("truncated (no progress)".into());
                    }
                }
            }
        }
    }
    pub fn xz_decode(input: &[u8], cap: usize) -> Result<Vec<u8>, String> {
        let s = Stream::new_stream_decoder(u64::MAX, liblzma::stream::CONCATENATED).map_err(|e| format!("{e:?}"))?;
        run(s, input, cap)
    }
    pub fn lzip_decode(input: &[u8], cap: usize) -> Result<Vec<u8>, String> {
        let s = Stream::new_lzip_decoder(u64::MAX, liblzma::stream::CONCATENATED).map_err(|e| format!("{e:?}"))?;
        run(s, input, cap)
    }
    pub fn lzma_alone_decode(input: &[u8], cap: usize) -> Result<Vec<u8>, String> {
        let s = Stream::new_lzma_decoder(u64::MAX).map_err(|e| format!("{e:?}"))?;
        run(s, input, cap)
    }
    fn lzma1_filters(dict: u32, lc: u32, lp: u32, pb: u32) -> Result<Filters, String> {
        let mut o = LzmaOptions::new_preset(6).map_err(|e| format!("{e:?}"))?;
        o.dict_size(dict).literal_context_bits(lc).literal_position_bits(lp).position_bits(pb);
        let mut f = Filters::new();
        f.lzma1(&o);
        Ok(f)
    }
    /// raw LZMA1 (no header, end marker) from the reference encoder with explicit dictionary size and lc/lp/pb
    pub fn lzma1_raw_encode(data: &[u8], dict: u32, lc: u32, lp: u32, pb: u32) -> Result<Vec<u8>, String> {
        let s = Stream::new_raw_encoder(&lzma1_filters(dict, lc, lp, pb)?).map_err(|e| format!("{e:?}"))?;
        run(s, data, data.len() * 2 + 65536)
    }
    pub fn lzma1_raw_decode(input: &[u8], dict: u32, lc: u32, lp: u32, pb: u32, cap: usize) -> Result<Vec<u8>, String> {
        let s = Stream::new_raw_decoder(&lzma1_filters(dict, lc, lp, pb)?).map_err(|e| format!("{e:?}"))?;
        run(s, input, cap)
    }
    pub fn lzma2_raw_decode(input: &[u8], dict: u32, cap: usize) -> Result<Vec<u8>, String> {
        let mut o = LzmaOptions::new_preset(6).map_err(|e| format!("{e:?}"))?;
        o.dict_size(dict);
        let mut f = Filters::new();
        f.lzma2(&o);
        let s = Stream::new_raw_decoder(&f).map_err(|e| format!("{e:?}"))?;
        run(s, input, cap)
    }
}
