//! C07 (partition independence), C13 (output is a pure function), C18 (size options).
use crate::c02::gen_size;
use crate::codec::*;
use crate::util::*;
use lzma_rust2::filter::bcj::{BCJReader, BCJWriter};
use lzma_rust2::filter::delta::{DeltaReader, DeltaWriter};
use lzma_rust2::*;
use serde_json::json;
use std::io::{Read, Write};

fn nats(v: &[usize]) -> String {
    if v.is_empty() { "-".into() } else { v.iter().map(|x| x.to_string()).collect::<Vec<_>>().join(",") }
}
fn nats64(v: &[u64]) -> String {
    if v.is_empty() { "-".into() } else { v.iter().map(|x| x.to_string()).collect::<Vec<_>>().join(",") }
}

/// partition with empty writes sprinkled in
fn gen_parts(rng: &mut Rng, len: usize) -> (String, Vec<usize>) {
    let (style, mut p) = gen_partition(rng, len);
    if rng.chance(1, 2) {
        let n = p.len().min(50);
        for _ in 0..(n / 3 + 1) {
            let at = rng.below(p.len() as u64 + 1) as usize;
            p.insert(at, 0);
        }
    }
    (style, p)
}

fn sched_styles(rng: &mut Rng) -> (String, Vec<usize>) {
    match rng.below(6) {
        0 => ("one".into(), vec![1]),
        1 => ("zero-mixed".into(), vec![0, 1, 0, 7, 0, 0, 4096]),
        2 => ("primes".into(), vec![2, 3, 5, 7, 11, 13, 4093, 4099]),
        3 => ("huge".into(), vec![1 << 22]),
        4 => ("around4096".into(), vec![4095, 4096, 4097, 1]),
        _ => ("random".into(), (0..8).map(|_| rng.range(0, 9000) as usize).collect()),
    }
}

/// inner reader that delivers short reads according to a list of grants (then full reads)
pub struct ShortReader {
    pub data: Vec<u8>,
    pub pos: usize,
    pub grants: Vec<usize>,
    pub gi: usize,
}

impl Read for ShortReader {
    fn read(&mut self, buf: &mut [u8]) -> std::io::Result<usize> {
        let left = self.data.len() - self.pos;
        let want = buf.len().min(left);
        if want == 0 {
            // like the model: a grant is only consumed by a call that could deliver something
            return Ok(0);
        }
        let g = if self.gi < self.grants.len() { self.gi += 1; self.grants[self.gi - 1] } else { want };
        let n = g.min(want).max(1);
        buf[..n].copy_from_slice(&self.data[self.pos..self.pos + n]);
        self.pos += n;
        Ok(n)
    }
}

pub fn new_bcj_writer<W: std::io::Write>(arch: &str, w: W, start: usize) -> BCJWriter<W> {
    match arch {
        "x86" => BCJWriter::new_x86(w, start),
        "ppc" => BCJWriter::new_ppc(w, start),
        "ia64" => BCJWriter::new_ia64(w, start),
        "arm" => BCJWriter::new_arm(w, start),
        "armthumb" => BCJWriter::new_arm_thumb(w, start),
        "sparc" => BCJWriter::new_sparc(w, start),
        "arm64" => BCJWriter::new_arm64(w, start),
        _ => BCJWriter::new_riscv(w, start),
    }
}

pub fn new_bcj_reader<R: Read>(arch: &str, r: R, start: usize) -> BCJReader<R> {
    match arch {
        "x86" => BCJReader::new_x86(r, start),
        "ppc" => BCJReader::new_ppc(r, start),
        "ia64" => BCJReader::new_ia64(r, start),
        "arm" => BCJReader::new_arm(r, start),
        "armthumb" => BCJReader::new_arm_thumb(r, start),
        "sparc" => BCJReader::new_sparc(r, start),
        "arm64" => BCJReader::new_arm64(r, start),
        _ => BCJReader::new_riscv(r, start),
    }
}

/// uncompressed sizes of the blocks of a single-stream .xz file (from its index)
pub fn xz_block_sizes(file: &[u8]) -> Option<Vec<u64>> {
    if file.len() < 24 {
        return None;
    }
    let f = &file[file.len() - 12..];
    let backward = u32::from_le_bytes(f[4..8].try_into().ok()?) as usize;
    let idx_len = (backward + 1) * 4;
    let start = file.len().checked_sub(12 + idx_len)?;
    let idx = &file[start..file.len() - 12];
    let mut p = 1usize;
    let mut rd = |p: &mut usize| -> Option<u64> {
        let mut v = 0u64;
        let mut sh = 0;
        loop {
            let b = *idx.get(*p)?;
            *p += 1;
            v |= ((b & 0x7F) as u64) << sh;
            sh += 7;
            if b & 0x80 == 0 {
                return Some(v);
            }
        }
    };
    let n = rd(&mut p)?;
    let mut v = vec![];
    for _ in 0..n {
        let _unp = rd(&mut p)?;
        v.push(rd(&mut p)?);
    }
    Some(v)
}

/// data sizes of the members of a .lz file (walking the trailers from the end)
pub fn lzip_member_sizes(file: &[u8]) -> Vec<u64> {
    let mut v = vec![];
    let mut end = file.len();
    while end >= 26 {
        let ms = u64::from_le_bytes(file[end - 8..end].try_into().unwrap()) as usize;
        let ds = u64::from_le_bytes(file[end - 16..end - 8].try_into().unwrap());
        if ms == 0 || ms > end {
            break;
        }
        v.push(ds);
        end -= ms;
    }
    v.reverse();
    v
}

/// uncompressed sizes of the independent units (runs of chunks starting with a dictionary reset) of an LZMA2 stream
pub fn lzma2_unit_sizes(s: &[u8]) -> Option<Vec<u64>> {
    let mut p = 0;
    let mut v: Vec<u64> = vec![];
    loop {
        let c = *s.get(p)?;
        if c == 0 {
            return Some(v);
        }
        let reset = c >= 0xE0 || c == 1;
        let (unc, skip) = if c >= 0x80 {
            let unc = (((c & 0x1F) as u64) << 16) + u16::from_be_bytes([*s.get(p + 1)?, *s.get(p + 2)?]) as u64 + 1;
            let comp = u16::from_be_bytes([*s.get(p + 3)?, *s.get(p + 4)?]) as usize + 1;
            (unc, 5 + if c >= 0xC0 { 1 } else { 0 } + comp)
        } else {
            let unc = u16::from_be_bytes([*s.get(p + 1)?, *s.get(p + 2)?]) as u64 + 1;
            (unc, 3 + unc as usize)
        };
        if reset || v.is_empty() {
            v.push(unc);
        } else {
            *v.last_mut().unwrap() += unc;
        }
        p += skip;
    }
}

/// The decoder's cyclic dictionary (`lz::LZDecoder`) driven through the hook with scripts that follow the reader
/// loop (set_limit / repeat_pending / symbols while has_space / flush) and with arbitrary scripts; the model
/// (`lzdec.run`) must hand out the same bytes or the same error.
fn lz_decoder_scripts(rep: &mut Report, rng: &mut Rng, n: u64) {
    for i in 0..n {
        let mut r = rng.fork();
        let dict = match r.below(4) { 0 => r.range(1, 8), 1 => r.range(8, 64), _ => r.range(1, 300) } as usize;
        let preset: Option<Vec<u8>> = match r.below(4) {
            0 => None,
            1 => Some(vec![]),
            _ => { let l = r.range(1, 2 * dict as u64 + 3) as usize; Some(r.bytes(l)) }
        };
        let mut ops: Vec<(u8, usize, usize)> = vec![];
        let reader_like = r.chance(3, 4);
        let mut avail = preset.as_ref().map(|p| p.len().min(dict)).unwrap_or(0);
        for _ in 0..r.range(1, 12) {
            if reader_like {
                ops.push((0, r.range(1, dict as u64 + 5) as usize, 0));
                ops.push((3, 0, 0));
                for _ in 0..r.range(0, 10) {
                    if avail == 0 || r.chance(1, 3) {
                        ops.push((1, r.below(256) as usize, 0));
                        avail += 1;
                    } else {
                        // admissible mostly; sometimes a distance beyond what the dictionary holds
                        let full = avail.min(dict);
                        let dist = if r.chance(1, 12) { full + r.below(3) as usize } else { r.below(full as u64) as usize };
                        let len = r.range(1, 2 * dict as u64 + 4) as usize;
                        ops.push((2, dist, len));
                        avail += len;
                    }
                }
                ops.push((4, 0, 0));
                if r.chance(1, 25) {
                    ops.push((5, 0, 0));
                    avail = 0;
                }
            } else {
                let op = r.below(6) as u8;
                ops.push((op, r.below(dict as u64 + 6) as usize, r.below(dict as u64 * 2 + 4) as usize));
            }
        }
        let real = std::panic::catch_unwind(|| lzma_rust2::verif_hooks::lz_decoder_script(dict, preset.as_deref(), &ops));
        let exp = match real {
            Ok(Ok(out)) => format!("ok {} {}", out.len(), fnv(&out)),
            Ok(Err(e)) => format!("err {e}"),
            Err(_) => "panic".to_string(),
        };
        let ops_s = ops.iter().map(|(a, b, c)| format!("{a}:{b}:{c}")).collect::<Vec<_>>().join(",");
        let pre_s = match &preset { None => "-".to_string(), Some(p) if p.is_empty() => "empty".to_string(), Some(p) => hex(p) };
        rep.count(if reader_like { "lzdec.reader-like" } else { "lzdec.arbitrary" });
        // a script on which the real code panics (debug assertions / index checks are on in this build) is outside the
        // callers' protocol; the model reports it as `err panic: …` – compare only the class
        if exp == "panic" {
            rep.model(format!("lzdec.run dict={dict} preset={pre_s} ops={ops_s} class=1"), "panic".into());
        } else {
            rep.model(format!("lzdec.run dict={dict} preset={pre_s} ops={ops_s}"), exp);
        }
        rep.case(format!("lzdec:{}:{}", reader_like, dict.min(9)), true, || json!({"dict": dict, "preset_len": preset.as_ref().map(|p| p.len()), "ops": ops_s, "case": i}));
    }
}

pub fn run_c07(rep: &mut Report, rng: &mut Rng, thorough: bool) {
    run_window_exact(rep, &mut rng.fork(), thorough);
    // flush calls right before a window move (pending bytes in the match finder), real writer and window model
    crate::c01::run_flush_window(rep, &mut rng.fork(), thorough, false, "flush-");
    crate::c01::run_encwin_script(rep, &mut rng.fork(), thorough, false, "flush-");
    run_preset_continuation(rep, &mut rng.fork(), thorough);
    // BCJ2: the four input streams in pieces, the output in reads of 1..7 / 4096 / 70000 bytes
    crate::bcj2::run(rep, rng, thorough);
    lz_decoder_scripts(rep, rng, if thorough { 30000 } else { 3000 });
    // the state a filter carries from one piece to the next, checked call by call against the model
    crate::c11::bcj_steps(rep, rng, if thorough { 40000 } else { 4000 });
    let n = if thorough { 4000 } else { 300 };
    let max = if thorough { 1 << 20 } else { 80 << 10 };
    for i in 0..n {
        let mut r = rng.fork();
        let kind = DATA_KINDS[(i % DATA_KINDS.len() as u64) as usize];
        let which = i % 8;
        let lz = gen_lzopts(&mut r, which == 1 || which == 2, 1 << 19, false);
        let size = gen_size(&mut r, lz.dict, max);
        let data = if which >= 5 { crate::c11::gen_arch_code(&mut r, crate::c11::ARCHS[(i as usize / 8) % 8], size) } else { gen_data(&mut r, kind, size) };
        let (pstyle, parts) = gen_parts(&mut r, data.len());
        let flush_every = if r.chance(1, 3) { r.range(1, 6) as usize } else { 0 };
        let (sstyle, sched) = sched_styles(&mut r);
        let cap = data.len() + 64;
        let mk_detail = |w: &str, extra: serde_json::Value| json!({"writer": w, "data_kind": kind, "data_len": data.len(), "partition": pstyle, "parts_head": parts.iter().take(12).collect::<Vec<_>>(), "flush_every": flush_every, "read_sizes": sched, "data_fnv": fnv(&data), "extra": extra, "case": i});
        let (name, res): (String, Outcome<Vec<u8>>) = match which {
            0 => {
                let f = *r.pick(&[LzmaFmt::HeaderMarker, LzmaFmt::HeaderSize, LzmaFmt::RawMarker, LzmaFmt::RawSize]);
                let dl = data.len() as u64;
                let lz2 = lz.clone();
                let name = format!("lzma-{}", crate::c01::fmt_name(f));
                let o = match lzma_compress(&data, &lz, f, &parts) {
                    Outcome::Ok(c) => match lzma_decompress(&c, &lz2, f, dl, &sched, cap) {
                        Outcome::Ok((d, _)) => Outcome::Ok(d),
                        Outcome::Err(k, m) => Outcome::Err(k, m),
                        Outcome::Panic(m) => Outcome::Panic(m),
                    },
                    Outcome::Err(k, m) => Outcome::Err(k, format!("write: {m}")),
                    Outcome::Panic(m) => Outcome::Panic(format!("write: {m}")),
                };
                (name, o)
            }
            1 => {
                let chunk = if r.chance(1, 2) { Some(r.range(1, (data.len() as u64).max(2))) } else { None };
                let o = match lzma2_compress(&data, &lz, chunk, &parts, flush_every) {
                    Outcome::Ok(c) => match lzma2_decompress(&c, lz.dict, None, &sched, cap) {
                        Outcome::Ok((d, _)) => Outcome::Ok(d),
                        Outcome::Err(k, m) => Outcome::Err(k, m),
                        Outcome::Panic(m) => Outcome::Panic(m),
                    },
                    Outcome::Err(k, m) => Outcome::Err(k, format!("write: {m}")),
                    Outcome::Panic(m) => Outcome::Panic(format!("write: {m}")),
                };
                ("lzma2".into(), o)
            }
            2 | 5 => {
                let mut xo = gen_xzopts(&mut r, 1 << 19, data.len());
                if which == 5 && xo.filters.is_empty() {
                    xo.filters = vec![(*r.pick(&[4u8, 5, 6, 7, 8, 9, 10, 11, 3]), 0)];
                    if xo.filters[0].0 == 3 {
                        xo.filters[0].1 = r.range(1, 256) as u32;
                    }
                }
                let o = match xz_compress(&data, &xo, &parts, flush_every) {
                    Outcome::Ok(c) => match xz_decompress(&c, false, &sched, cap) {
                        Outcome::Ok((d, _)) => Outcome::Ok(d),
                        Outcome::Err(k, m) => Outcome::Err(k, m),
                        Outcome::Panic(m) => Outcome::Panic(m),
                    },
                    Outcome::Err(k, m) => Outcome::Err(k, format!("write: {m}")),
                    Outcome::Panic(m) => Outcome::Panic(format!("write: {m}")),
                };
                (format!("xz-f{:?}", xo.filters.iter().map(|f| f.0).collect::<Vec<_>>()), o)
            }
            3 => {
                let member = if r.chance(1, 2) { Some(r.range(1, (data.len() as u64).max(2))) } else { None };
                let o = match lzip_compress(&data, &lz, member, &parts) {
                    Outcome::Ok(c) => match lzip_decompress(&c, &sched, cap) {
                        Outcome::Ok((d, _)) => Outcome::Ok(d),
                        Outcome::Err(k, m) => Outcome::Err(k, m),
                        Outcome::Panic(m) => Outcome::Panic(m),
                    },
                    Outcome::Err(k, m) => Outcome::Err(k, format!("write: {m}")),
                    Outcome::Panic(m) => Outcome::Panic(format!("write: {m}")),
                };
                ("lzip".into(), o)
            }
            4 => {
                let dist = r.range(1, 256) as usize;
                let o = guard(|| {
                    let mut w = DeltaWriter::new(Vec::new(), dist);
                    write_parts(&mut w, &data, &parts, flush_every)?;
                    let enc = w.into_inner();
                    let mut rd = DeltaReader::new(enc.as_slice(), dist);
                    read_all_sched(&mut rd, &sched, cap)
                });
                ("delta".into(), o)
            }
            _ => {
                // standalone BCJ writer/reader: the READER side with arbitrary buffer schedules
                // (the writer gets all data in one call: its documented contract)
                let arch = crate::c11::ARCHS[(i as usize / 8) % 8];
                let o = match crate::c11::real_encode(arch, 0, &data) {
                    Outcome::Ok(enc) => crate::c11::real_decode(arch, 0, &enc, &sched),
                    Outcome::Err(k, m) => Outcome::Err(k, m),
                    Outcome::Panic(m) => Outcome::Panic(m),
                };
                (format!("bcjreader-{arch}"), o)
            }
        };
        rep.count(&format!("writer.{}", name.split('-').next().unwrap()));
        rep.count(&format!("sched.{sstyle}"));
        match &res {
            Outcome::Ok(d) if d == &data => {}
            Outcome::Ok(d) => rep.fail(&format!("partition-mismatch:{name}"), &format!("decoded {} bytes differ from the {} written (partition {pstyle}, reads {sstyle})", d.len(), data.len()), mk_detail(&name, json!(null))),
            other => rep.fail(&format!("partition-{}:{name}", other.class()), &other.describe(), mk_detail(&name, json!(null))),
        }
        rep.case(format!("{name}:{kind}:{}:{pstyle}:{sstyle}:{}", size_class(data.len()), flush_every > 0), !data.is_empty(), || mk_detail(&name, json!(null)));
    }
    // streaming BCJ writer (the mode XZWriter uses) and BCJ reader against the Lean buffer-machine models
    for k in 0..(if thorough { 400 } else { 64 }) {
        let mut r = rng.fork();
        let arch = crate::c11::ARCHS[k % 8];
        let size = match r.below(4) { 0 => r.range(0, 40) as usize, 1 => r.range(4090, 4110) as usize, 2 => r.range(8185, 8200) as usize, _ => r.range(1, 14000) as usize };
        let data = crate::c11::gen_arch_code(&mut r, arch, size);
        let a = crate::c11::align_of(arch);
        let start = (*r.pick(&[0u32, 4096, 0x7FFF_FFF0, 0xFFFF_FF00]) / a) * a;
        let (pstyle, parts) = gen_parts(&mut r, data.len());
        let parts: Vec<usize> = parts.into_iter().take(3000).collect();
        let w = guard(|| {
            let mut w = match arch {
                "x86" => BCJWriter::new_x86(Vec::new(), start as usize),
                "ppc" => BCJWriter::new_ppc(Vec::new(), start as usize),
                "ia64" => BCJWriter::new_ia64(Vec::new(), start as usize),
                "arm" => BCJWriter::new_arm(Vec::new(), start as usize),
                "armthumb" => BCJWriter::new_arm_thumb(Vec::new(), start as usize),
                "sparc" => BCJWriter::new_sparc(Vec::new(), start as usize),
                "arm64" => BCJWriter::new_arm64(Vec::new(), start as usize),
                _ => BCJWriter::new_riscv(Vec::new(), start as usize),
            }
            .verif_streaming();
            write_parts(&mut w, &data, &parts, 0)?;
            w.finish()
        });
        let detail = || json!({"arch": arch, "start": start, "data_len": data.len(), "partition": pstyle, "parts_head": parts.iter().take(16).collect::<Vec<_>>(), "data_fnv": fnv(&data), "case": k});
        match (&w, crate::c11::real_encode(arch, start, &data)) {
            (Outcome::Ok(enc), Outcome::Ok(one)) => {
                if enc != &one {
                    rep.fail(&format!("bcj-streaming-writer-partition:{arch}"), "streaming BCJ writer output depends on the partition", detail());
                }
                rep.model(format!("bcj.wstream arch={arch} start={start} parts={} in={}", nats(&parts), hex(&data)), format!("ok {} {}", enc.len(), fnv(enc)));
                // reader with short inner reads
                let grants: Vec<usize> = (0..r.range(0, 12)).map(|_| *r.pick(&[1usize, 2, 3, 5, 100, 4095, 4096, 5000])).collect();
                let (sstyle, sizes) = sched_styles(&mut r);
                let dec = guard(|| {
                    let mut rd = new_bcj_reader(arch, ShortReader { data: enc.clone(), pos: 0, grants: grants.clone(), gi: 0 }, start as usize);
                    read_all_sched(&mut rd, &sizes, enc.len() + 16)
                });
                match dec {
                    Outcome::Ok(d) => {
                        if d != data {
                            let mut dd = detail();
                            dd["read_sizes"] = json!(sizes);
                            dd["grants"] = json!(grants);
                            rep.fail(&format!("bcj-reader-schedule:{arch}"), &format!("BCJ reader output depends on buffer sizes / short inner reads ({sstyle})"), dd);
                        }
                        rep.model(format!("bcj.rstream arch={arch} start={start} sizes={} grants={} in={}", nats(&sizes), nats(&grants), hex(enc)), format!("ok {} {}", d.len(), fnv(&d)));
                    }
                    other => rep.fail(&format!("bcj-reader-{}:{arch}", other.class()), &other.describe(), detail()),
                }
            }
            (other, _) => rep.fail(&format!("bcj-streaming-writer-{}:{arch}", other.class()), &other.describe(), detail()),
        }
        rep.case(format!("bcjstream:{arch}:{}:{pstyle}", size_class(size)), size >= 16, || detail());
    }
    // every two-way split of short opcode-dense inputs (streaming writer), and 1-byte / split-sized reads
    for k in 0..(if thorough { 600 } else { 60 }) {
        let mut r = rng.fork();
        let arch = if k % 2 == 0 { "x86" } else { crate::c11::ARCHS[(k as usize / 2) % 8] };
        let len = r.range(10, 72) as usize;
        let data = if arch == "x86" { crate::c11::gen_x86_dense(&mut r, len) } else { crate::c11::gen_arch_code(&mut r, arch, len) };
        let a = crate::c11::align_of(arch);
        let start = (*r.pick(&[0u32, 0xFFFF_FFF0]) / a) * a;
        let one = match crate::c11::real_encode(arch, start, &data) {
            Outcome::Ok(o) => o,
            _ => continue,
        };
        rep.count("bcj.all-splits");
        for s in 0..=len {
            let detail = || json!({"arch": arch, "start": start, "data_hex": hex(&data), "split_at": s, "case": k});
            let w = guard(|| {
                let mut w = new_bcj_writer(arch, Vec::new(), start as usize).verif_streaming();
                write_parts(&mut w, &data, &[s, len - s], 0)?;
                w.finish()
            });
            match w {
                Outcome::Ok(enc) if enc == one => {}
                Outcome::Ok(_) => rep.fail(&format!("bcj-streaming-writer-partition:{arch}"), "streaming BCJ writer output depends on the partition (two-way split)", detail()),
                other => rep.fail(&format!("bcj-streaming-writer-{}:{arch}", other.class()), &other.describe(), detail()),
            }
            let sizes = if s == 0 { vec![1usize] } else { vec![s, 1, 3] };
            let dec = guard(|| {
                let mut rd = new_bcj_reader(arch, one.as_slice(), start as usize);
                read_all_sched(&mut rd, &sizes, len + 16)
            });
            match dec {
                Outcome::Ok(d) if d == data => {}
                Outcome::Ok(_) => rep.fail(&format!("bcj-reader-schedule:{arch}"), "BCJ reader output depends on the read sizes (short dense input)", detail()),
                other => rep.fail(&format!("bcj-reader-{}:{arch}", other.class()), &other.describe(), detail()),
            }
        }
        rep.case(format!("bcjsplits:{arch}:{}", len / 16), true, || json!({"arch": arch, "data_hex": hex(&data)}));
    }
    // standalone BCJWriter with several writes: recorded finding (see KNOWN_FINDINGS) - still evaluated so that
    // a change of behaviour is noticed
    for (k, arch) in crate::c11::ARCHS.iter().enumerate() {
        let mut r = rng.fork();
        let data = crate::c11::gen_arch_code(&mut r, arch, 6000);
        let one = crate::c11::real_encode(arch, 0, &data);
        let multi = guard(|| {
            let mut w = match *arch {
                "x86" => BCJWriter::new_x86(Vec::new(), 0),
                "ppc" => BCJWriter::new_ppc(Vec::new(), 0),
                "ia64" => BCJWriter::new_ia64(Vec::new(), 0),
                "arm" => BCJWriter::new_arm(Vec::new(), 0),
                "armthumb" => BCJWriter::new_arm_thumb(Vec::new(), 0),
                "sparc" => BCJWriter::new_sparc(Vec::new(), 0),
                "arm64" => BCJWriter::new_arm64(Vec::new(), 0),
                _ => BCJWriter::new_riscv(Vec::new(), 0),
            };
            for c in data.chunks(1001) {
                w.write_all(c)?;
            }
            w.finish()
        });
        if let (Outcome::Ok(a), Outcome::Ok(b)) = (&one, &multi) {
            if a != b {
                rep.fail(&format!("standalone-bcjwriter-multiwrite:{arch}"), "standalone BCJWriter: output of several write calls differs from the one-call output", json!({"arch": arch, "case": k}));
            }
        }
        rep.evaluations += 1;
    }
    let _ = (BCJReader::new_x86(&b""[..], 0), 0);
}

/// size of the encoder's LZ window buffer (`get_buf_size`): extra_before = max(mode's, the LZMA2 writer's 64 KiB - dict)
fn window_buf_size(dict: usize, normal: bool, lzma2: bool) -> usize {
    let (eb, ea) = if normal { (4096usize, 4096usize) } else { (1, 272) };
    let eb = if lzma2 { eb.max(65536usize.saturating_sub(dict)) } else { eb };
    dict + eb + ea + 273 + (dict / 2 + (256 << 10))
}

/// inputs exactly as long as the encoder's window buffer (and one byte around it) whose tail is repetitive up to the
/// last byte: one write leaves the data end on the last byte of the buffer, `write(len - k); write(k)` lets the window
/// slide first; the bytes must be the same
fn run_window_exact(rep: &mut Report, rng: &mut Rng, thorough: bool) {
    for (ci, (normal, bt4, which)) in [(true, true, 0u8), (false, false, 0), (true, false, 3), (false, true, 1), (true, true, 2), (false, true, 0), (true, false, 0)].into_iter().enumerate() {
        if !thorough && ci >= 5 {
            break;
        }
        let dict: u32 = if which == 1 || which == 2 { 65536 } else { 4096 };
        let b = window_buf_size(dict as usize, normal, which == 1 || which == 2);
        for delta in if thorough { vec![-2i64, -1, 0, 1, 2] } else { vec![-1i64, 0, 1] } {
            let mut r = rng.fork();
            let len = (b as i64 + delta) as usize;
            let kind = *r.pick(&["text", "periodic", "runs", "mixed"]);
            let mut data = gen_data(&mut r, kind, len);
            // the tail repeats earlier data up to the very last byte
            let d = r.range(1, 3000) as usize;
            for k in len - 200..len {
                data[k] = data[k - d];
            }
            let lz = LzOpts { dict, lc: 3, lp: 0, pb: 2, normal, nice: 64, bt4, depth: 8, preset: None };
            let run = |parts: &[usize]| -> Outcome<Vec<u8>> {
                match which {
                    0 => lzma_compress(&data, &lz, LzmaFmt::HeaderMarker, parts),
                    1 => lzma2_compress(&data, &lz, None, parts, 0),
                    2 => xz_compress(&data, &XzOpts { lz: lz.clone(), check: 4, block: None, filters: vec![] }, parts, 0),
                    _ => lzip_compress(&data, &lz, None, parts),
                }
            };
            let name = ["lzma", "lzma2", "xz", "lzip"][which as usize];
            let detail = |what: &str| json!({"stratum": "window-exact", "writer": name, "opts": lz.json(), "data_kind": kind, "data_len": len, "window_buf_size": b, "tail_distance": d, "data_fnv": fnv(&data), "partition": what});
            rep.count("stratum.window-exact");
            match run(&[len]) {
                Outcome::Ok(x) => {
                    let mut partitions: Vec<Vec<usize>> = [1usize, 2, 3, 5, 8, 20, 545, 600, 4097].iter().map(|&k| vec![len - k, k]).collect();
                    partitions.push(vec![1, len - 1]);
                    partitions.push(vec![len / 2, len - len / 2]);
                    partitions.push(vec![len - 4370, 4369, 1]);
                    for parts in partitions {
                        let what = format!("{parts:?}");
                        match run(&parts) {
                            Outcome::Ok(z) => {
                                if z != x {
                                    rep.fail(&format!("partition-dependent-bytes:{name}:window-exact"), &format!("input of window-buffer length{delta:+}: partition {what} produced different bytes ({} vs {}) than a single write", z.len(), x.len()), detail(&what));
                                }
                            }
                            other => rep.fail(&format!("partition-{}:{name}", other.class()), &other.describe(), detail(&what)),
                        }
                        rep.evaluations += 1;
                    }
                }
                other => rep.fail(&format!("write-{}:{name}", other.class()), &other.describe(), detail("single write")),
            }
            rep.case(format!("window-exact:{name}:{normal}:{bt4}:{delta}"), true, || detail("case"));
        }
    }
}

/// a preset dictionary that the input continues (the dictionary is the beginning of a text, the input its
/// continuation; the last bytes of the dictionary are still pending in the match finder when the first write
/// arrives), written with very small first writes vs one write: the bytes must be the same
fn run_preset_continuation(rep: &mut Report, rng: &mut Rng, thorough: bool) {
    let n = if thorough { 60 } else { 12 };
    for i in 0..n {
        let mut r = rng.fork();
        let bt4 = i % 3 != 2;
        let normal = i % 2 == 0;
        let lzma2 = i % 4 < 2;
        // a text with many repeated phrases that share prefixes (several continuations per 4-byte string)
        let phrases: Vec<Vec<u8>> = (0..12).map(|k| { let mut p = b"the quick ".to_vec(); p.extend(gen_data(&mut r, "text", 3 + k)); p }).collect();
        let mut text = Vec::new();
        while text.len() < 2500 {
            let ph: &Vec<u8> = r.pick(&phrases[..]);
            text.extend_from_slice(ph);
        }
        let cut = r.range(150, 1200) as usize;
        let (preset, data) = (text[..cut].to_vec(), text[cut..].to_vec());
        let lz = LzOpts { dict: 4096, lc: 3, lp: 0, pb: 2, normal, nice: *r.pick(&[16u32, 32, 64]), bt4, depth: 0, preset: Some(preset.clone()) };
        let run = |parts: &[usize]| -> Outcome<Vec<u8>> {
            if lzma2 { lzma2_compress(&data, &lz, None, parts, 0) } else { lzma_compress(&data, &lz, LzmaFmt::RawMarker, parts) }
        };
        let name = if lzma2 { "lzma2" } else { "lzma" };
        let detail = |what: &str| json!({"stratum": "preset-continuation", "writer": name, "opts": lz.json(), "preset_len": preset.len(), "data_len": data.len(), "preset_hex": hex(&preset), "data_hex": hex(&data), "partition": what});
        rep.count("stratum.preset-continuation");
        match run(&[data.len()]) {
            Outcome::Ok(x) => {
                for parts in [vec![1usize], vec![1, 1, 1], vec![2], vec![3], vec![5, 7], vec![40], vec![1, 300], vec![r.range(1, 60) as usize]] {
                    let mut p = parts.clone();
                    let used: usize = p.iter().sum();
                    p.push(data.len() - used);
                    let what = format!("{parts:?}+rest");
                    match run(&p) {
                        Outcome::Ok(z) => {
                            if z != x {
                                rep.fail(&format!("partition-dependent-bytes:{name}:preset"), &format!("with a preset dictionary, first writes {what} produced different bytes ({} vs {}) than a single write", z.len(), x.len()), detail(&what));
                            }
                        }
                        other => rep.fail(&format!("partition-{}:{name}", other.class()), &other.describe(), detail(&what)),
                    }
                    rep.evaluations += 1;
                }
            }
            other => rep.fail(&format!("write-{}:{name}", other.class()), &other.describe(), detail("single write")),
        }
        rep.case(format!("preset-continuation:{name}:{normal}:{bt4}:{}", i % 6), true, || detail("case"));
    }
}

pub fn run_c13(rep: &mut Report, rng: &mut Rng, thorough: bool) {
    run_window_exact(rep, &mut rng.fork(), thorough);
    run_preset_continuation(rep, &mut rng.fork(), thorough);
    let n = if thorough { 1500 } else { 160 };
    let max = if thorough { 1 << 20 } else { 80 << 10 };
    // keep some garbage allocated between runs so that the allocator state differs
    let mut junk: Vec<Vec<u8>> = Vec::new();
    for i in 0..n {
        let mut r = rng.fork();
        let kind = DATA_KINDS[(i % DATA_KINDS.len() as u64) as usize];
        let which = i % 4;
        let lz = gen_lzopts(&mut r, which == 1 || which == 2, 1 << 19, which < 2);
        let size = gen_size(&mut r, lz.dict, max);
        let data = gen_data(&mut r, kind, size);
        let one = vec![data.len()];
        let run = |parts: &[usize]| -> Outcome<Vec<u8>> {
            match which {
                0 => {
                    let mut o2 = lz.clone();
                    o2.preset = None;
                    lzma_compress(&data, &o2, LzmaFmt::HeaderMarker, parts)
                }
                1 => lzma2_compress(&data, &lz, None, parts, 0),
                2 => {
                    let mut l2 = lz.clone();
                    l2.preset = None;
                    xz_compress(&data, &XzOpts { lz: l2, check: 4, block: None, filters: vec![] }, parts, 0)
                }
                _ => lzip_compress(&data, &lz, Some((data.len() as u64 / 3).max(1)), parts),
            }
        };
        let name = ["lzma", "lzma2", "xz", "lzip"][which as usize];
        let detail = |what: &str| json!({"writer": name, "opts": lz.json(), "data_kind": kind, "data_len": data.len(), "data_fnv": fnv(&data), "what": what, "case": i});
        let a = run(&one);
        junk.push(vec![0xAA; r.range(1, 200_000) as usize]);
        if junk.len() > 20 {
            junk.remove(0);
        }
        let b = run(&one);
        rep.count(&format!("writer.{name}"));
        match (&a, &b) {
            (Outcome::Ok(x), Outcome::Ok(y)) => {
                if x != y {
                    rep.fail(&format!("nondeterministic:{name}"), "two runs with identical input and options produced different bytes", detail("repeat"));
                }
                for _ in 0..(if thorough { 4 } else { 2 }) {
                    let (pstyle, parts) = gen_parts(&mut r, data.len());
                    match run(&parts) {
                        Outcome::Ok(z) => {
                            if &z != x {
                                rep.fail(&format!("partition-dependent-bytes:{name}"), &format!("partition {pstyle} produced different bytes than a single write"), detail(&pstyle));
                            }
                        }
                        other => rep.fail(&format!("partition-{}:{name}", other.class()), &other.describe(), detail(&pstyle)),
                    }
                    rep.evaluations += 1;
                }
            }
            (o, _) => {
                if !matches!(o, Outcome::Ok(_)) {
                    rep.fail(&format!("write-{}:{name}", o.class()), &o.describe(), detail("first run"));
                }
            }
        }
        rep.case(format!("{name}:{kind}:{}:{}", size_class(data.len()), lz.sig()), !data.is_empty(), || detail("case"));
    }
}

/// LZIPWriterMT cuts members of exactly the configured size whatever the write partition: a short write followed by
/// one that spans several members, writes longer than a member, one write, random partitions
fn run_c18_lzip_mt(rep: &mut Report, rng: &mut Rng, thorough: bool) {
    let n = if thorough { 60 } else { 10 };
    for i in 0..n {
        let mut r = rng.fork();
        let dict = 4096u32;
        let member = *r.pick(&[4096u64, 5000, 10_000, 16_384]);
        let len = (member as usize) * r.range(3, 9) as usize + r.range(0, member) as usize;
        let kind = *r.pick(&["text", "mixed", "random"]);
        let data = gen_data(&mut r, kind, len);
        let lz = LzOpts { dict, lc: 3, lp: 0, pb: 2, normal: false, nice: 32, bt4: false, depth: 0, preset: None };
        let first = r.range(1, member - 1) as usize;
        let big = (member as usize * 27) / 10;
        let mut equal = vec![];
        let mut left = len;
        while left > 0 {
            let k = big.min(left);
            equal.push(k);
            left -= k;
        }
        let partitions: Vec<(String, Vec<usize>)> = vec![
            ("one".into(), vec![len]),
            (format!("short({first})+rest"), vec![first, len - first]),
            (format!("equal({big})"), equal),
            gen_partition(&mut r, len),
        ];
        let mut expect: Vec<u64> = vec![member; len / member as usize];
        if len as u64 % member != 0 {
            expect.push(len as u64 % member);
        }
        for (pstyle, parts) in partitions {
            let workers = *r.pick(&[1u32, 2, 3]);
            let comp = guard(|| {
                let mut opts = LZIPOptions { lzma_options: lz.to_opts(), member_size: None };
                opts.set_member_size(std::num::NonZeroU64::new(member));
                let mut w = LZIPWriterMT::new(Vec::new(), opts, workers)?;
                write_parts(&mut w, &data, &parts, 0)?;
                w.finish()
            });
            let detail = || json!({"writer": "lzip-mt", "member_size": member, "data_len": len, "data_kind": kind, "partition": pstyle, "parts_head": &parts[..parts.len().min(8)], "workers": workers});
            rep.count("writer.lzipmt");
            match comp {
                Outcome::Ok(c) => {
                    let sizes = lzip_member_sizes(&c);
                    if sizes != expect {
                        rep.fail("lzipmt-member-sizes", &format!("member data sizes {:?}... differ from members of exactly {member} bytes + remainder (partition {pstyle})", &sizes[..sizes.len().min(8)]), detail());
                    }
                    match lzip_decompress(&c, &[65536], len + 16) {
                        Outcome::Ok((out, _)) if out == data => {}
                        other => rep.fail("lzipmt-roundtrip", &other.describe(), detail()),
                    }
                }
                other => rep.fail(&format!("lzipmt-write-{}", other.class()), &other.describe(), detail()),
            }
            rep.evaluations += 1;
        }
        rep.case(format!("lzipmt:{member}:{kind}"), true, || json!({"writer": "lzip-mt", "member_size": member, "data_len": len}));
    }
}

pub fn run_c18(rep: &mut Report, rng: &mut Rng, thorough: bool) {
    run_c18_lzip_mt(rep, &mut rng.fork(), thorough);
    let n = if thorough { 3000 } else { 240 };
    let max = if thorough { 2 << 20 } else { 200 << 10 };
    for i in 0..n {
        let mut r = rng.fork();
        let kind = DATA_KINDS[(i % DATA_KINDS.len() as u64) as usize];
        let which = i % 4;
        let mut lz = gen_lzopts(&mut r, true, 1 << 17, false);
        lz.dict = *r.pick(&[4096u32, 8192, 65536, 100_000]);
        let limit: u64 = match r.below(5) {
            0 => lz.dict as u64,
            1 => r.range(1, lz.dict as u64),
            2 => lz.dict as u64 + r.range(1, 50_000),
            _ => r.range(lz.dict as u64, 4 * lz.dict as u64),
        };
        let eff = limit.max(lz.dict as u64);
        let size = match r.below(5) {
            0 => (eff as usize) * 3,
            1 => (eff as usize) * 2 + 1,
            2 => eff as usize - 1,
            3 => eff as usize,
            _ => r.range(0, max as u64) as usize,
        }
        .min(max);
        let data = gen_data(&mut r, kind, size);
        let (pstyle, parts) = if r.chance(1, 3) { ("one".to_string(), vec![data.len()]) } else { gen_partition(&mut r, data.len()) };
        let detail = |w: &str| json!({"writer": w, "limit": limit, "effective_limit": eff, "dict": lz.dict, "data_len": data.len(), "data_kind": kind, "partition": pstyle, "case": i});
        let expect_sizes = |total: u64| -> Vec<u64> {
            let mut v = vec![];
            let mut left = total;
            while left > 0 {
                let k = left.min(eff);
                v.push(k);
                left -= k;
            }
            v
        };
        match which {
            0 => {
                let o = XzOpts { lz: lz.clone(), check: 1, block: Some(limit), filters: vec![] };
                match xz_compress(&data, &o, &parts, 0) {
                    Outcome::Ok(c) => match xz_block_sizes(&c) {
                        Some(sizes) => {
                            if parts.len() <= 5000 {
                                rep.model(format!("split.xz lim={eff} parts={}", nats(&parts)), format!("ok {}", nats64(&sizes)));
                            }
                            if sizes != expect_sizes(data.len() as u64) {
                                rep.fail("xz-block-sizes", &format!("block sizes {:?}... differ from full blocks of {} bytes + remainder", &sizes[..sizes.len().min(6)], eff), detail("xz"));
                            }
                        }
                        None => rep.fail("xz-index-unreadable", "could not parse the index of our own file", detail("xz")),
                    },
                    other => rep.fail(&format!("xz-write-{}", other.class()), &other.describe(), detail("xz")),
                }
                rep.count("writer.xz");
            }
            1 => {
                match lzip_compress(&data, &lz, Some(limit), &parts) {
                    Outcome::Ok(c) => {
                        let sizes = lzip_member_sizes(&c);
                        if parts.len() <= 5000 {
                            rep.model(format!("split.lzip lim={eff} parts={}", nats(&parts)), format!("ok {}", nats64(&sizes)));
                        }
                        let mut exp = expect_sizes(data.len() as u64);
                        if exp.is_empty() {
                            exp.push(0);
                        }
                        if sizes != exp {
                            rep.fail("lzip-member-sizes", &format!("member sizes {:?}... differ from full members of {} bytes + remainder", &sizes[..sizes.len().min(6)], eff), detail("lzip"));
                        }
                        // member_count of the MT reader = number of members
                        let mc = guard(|| Ok(LZIPReaderMT::new(std::io::Cursor::new(c.clone()), 2)?.member_count()));
                        if let Outcome::Ok(mc) = mc {
                            if mc != sizes.len() {
                                rep.fail("lzip-member-count", &format!("member_count() = {mc}, file has {} members", sizes.len()), detail("lzip"));
                            }
                        }
                    }
                    other => rep.fail(&format!("lzip-write-{}", other.class()), &other.describe(), detail("lzip")),
                }
                rep.count("writer.lzip");
            }
            2 => {
                // MT writers cut units of exactly the configured size; chunk_count of the MT reader
                let comp = guard(|| {
                    let mut opts = LZMA2Options { lzma_options: lz.to_opts(), chunk_size: None };
                    opts.set_chunk_size(std::num::NonZeroU64::new(limit));
                    let mut w = LZMA2WriterMT::new(Vec::new(), opts, *r.pick(&[1u32, 2, 4]))?;
                    write_parts(&mut w, &data, &parts, 0)?;
                    w.finish()
                });
                match comp {
                    Outcome::Ok(c) => {
                        match lzma2_unit_sizes(&c) {
                            Some(sizes) => {
                                if parts.len() <= 5000 {
                                    rep.model(format!("split.mt lim={eff} parts={}", nats(&parts)), format!("ok {}", nats64(&sizes)));
                                }
                                if sizes != expect_sizes(data.len() as u64) {
                                    rep.fail("lzma2mt-unit-sizes", &format!("unit sizes {:?}... differ from units of exactly {} bytes + remainder", &sizes[..sizes.len().min(6)], eff), detail("lzma2-mt"));
                                }
                                let cc = guard(|| {
                                    let mut rd = LZMA2ReaderMT::new(c.as_slice(), lz.dict, None, 2);
                                    let mut out = Vec::new();
                                    rd.read_to_end(&mut out)?;
                                    Ok((rd.chunk_count(), out))
                                });
                                match cc {
                                    Outcome::Ok((cnt, out)) => {
                                        if out != data {
                                            rep.fail("lzma2mt-roundtrip", "MT reader output differs", detail("lzma2-mt"));
                                        } else if !data.is_empty() && cnt as usize != sizes.len() {
                                            rep.fail("lzma2mt-chunk-count", &format!("chunk_count() = {cnt}, stream has {} independent units", sizes.len()), detail("lzma2-mt"));
                                        }
                                    }
                                    other => rep.fail(&format!("lzma2mt-read-{}", other.class()), &other.describe(), detail("lzma2-mt")),
                                }
                            }
                            None => rep.fail("lzma2mt-unparsable", "could not walk the chunk headers of the MT writer's output", detail("lzma2-mt")),
                        }
                    }
                    other => rep.fail(&format!("lzma2mt-write-{}", other.class()), &other.describe(), detail("lzma2-mt")),
                }
                rep.count("writer.lzma2mt");
            }
            _ => {
                // .lzma expected size: equal / smaller / larger
                let mode = r.below(3);
                let declared = match mode {
                    0 => data.len() as u64,
                    1 => (data.len() as u64).saturating_sub(r.range(1, 10)),
                    _ => data.len() as u64 + r.range(1, 10),
                };
                let mut o2 = lz.clone();
                o2.preset = None;
                let mut fail_at: Option<usize> = None;
                // every constructor through which an expected size can be given: header / no header, with and
                // without an end marker
                let (use_header, use_marker) = *r.pick(&[(true, false), (true, false), (true, true), (false, false), (false, true)]);
                let res = guard(|| {
                    let mut w = if use_header && !use_marker {
                        LZMAWriter::new_use_header(Vec::new(), &o2.to_opts(), Some(declared))?
                    } else {
                        LZMAWriter::new(Vec::new(), &o2.to_opts(), use_header, use_marker, Some(declared))?
                    };
                    let mut off = 0;
                    for (k, &n) in parts.iter().enumerate() {
                        let n = n.min(data.len() - off);
                        if let Err(e) = w.write_all(&data[off..off + n]) {
                            fail_at = Some(k);
                            return Err(e);
                        }
                        off += n;
                    }
                    w.finish()
                });
                if parts.len() <= 5000 && parts.iter().sum::<usize>() == data.len() {
                    let exp = match (&res, fail_at) {
                        (Outcome::Ok(c), _) => format!("ok {}", if use_header { u64::from_le_bytes(c[5..13].try_into().unwrap()) } else { declared }),
                        (_, Some(k)) => format!("errwrite {k}"),
                        _ => "errfinish".to_string(),
                    };
                    rep.model(format!("lzma.expected exp={declared} parts={}", nats(&parts)), exp);
                }
                let d = json!({"writer": ".lzma expected size", "use_header": use_header, "use_end_marker": use_marker, "declared": declared, "written": data.len(), "partition": pstyle, "case": i});
                match (&res, declared == data.len() as u64) {
                    (Outcome::Ok(c), true) => {
                        let hdr = if use_header { u64::from_le_bytes(c[5..13].try_into().unwrap()) } else { data.len() as u64 };
                        if hdr != data.len() as u64 {
                            rep.fail("lzma-header-size", &format!("header says {hdr}, {} bytes were written", data.len()), d);
                        }
                    }
                    (Outcome::Ok(_), false) => rep.fail(&format!("lzma-expected-size-ignored:{}", if declared < data.len() as u64 { "beyond" } else { "short" }), "writer accepted a size different from the declared one", d),
                    (Outcome::Err(..), false) => {}
                    (other, _) => rep.fail(&format!("lzma-expected-{}", other.class()), &other.describe(), d),
                }
                rep.count("writer.lzma-expected");
            }
        }
        rep.case(format!("w{which}:{kind}:{}:{pstyle}:lim{}", size_class(data.len()), if limit < lz.dict as u64 { "<dict" } else if limit == lz.dict as u64 { "=dict" } else { ">dict" }), !data.is_empty(), || detail("case"));
    }
}
