//! C01: LZMA / LZMA2 round trip on the real code + correspondence of the Lean codec model:
//! the model decoder must decode the real encoder's bytes to the same output with the same number
//! of consumed bytes, and the model encoder must reproduce the real bytes from the decoded parse.
use crate::c02::gen_size;
use crate::codec::*;
use crate::util::*;
use serde_json::json;

pub fn fmt_name(f: LzmaFmt) -> &'static str {
    match f {
        LzmaFmt::HeaderMarker => "HeaderMarker",
        LzmaFmt::HeaderSize => "HeaderSize",
        LzmaFmt::RawMarker => "RawMarker",
        LzmaFmt::RawSize => "RawSize",
        LzmaFmt::RawBoth => "RawBoth",
    }
}

/// request line for the model LZMA1 decoder
pub fn lzma_req(o: &LzOpts, fmt: LzmaFmt, size: u64, comp: &[u8], cap: usize, reenc: bool) -> String {
    let preset = o.preset.as_deref().unwrap_or(&[]);
    match fmt {
        LzmaFmt::HeaderMarker | LzmaFmt::HeaderSize => format!(
            "lzma.dec fmt=alone preset={} in={} cap={} reenc={}",
            hex(preset), hex(comp), cap, reenc as u8
        ),
        _ => format!(
            "lzma.dec fmt=raw lc={} lp={} pb={} dict={} size={} preset={} in={} cap={} reenc={}",
            o.lc, o.lp, o.pb, o.dict,
            if fmt == LzmaFmt::RawMarker { "-".to_string() } else { size.to_string() },
            hex(preset), hex(comp), cap, reenc as u8
        ),
    }
}

pub fn class_of<T>(o: &Outcome<T>) -> String {
    match o {
        Outcome::Ok(_) => "ok".into(),
        Outcome::Err(k, _) => format!("err {}", kind_name(*k)),
        Outcome::Panic(_) => "panic".into(),
    }
}

/// LZMA2 chunk-limit stratum: p pairwise-distinct bytes, then > 2 MiB of zeros (maximal matches): the first
/// chunk ends within MATCH_LEN_MAX of the 2 MiB limit, at an offset that depends on p
fn run_chunk_limit(rep: &mut Report, rng: &mut Rng, thorough: bool, sweep: bool) {
    let ps: Vec<usize> = if sweep || thorough { (0..273).collect() } else { (0..3).map(|_| rng.range(0, 272) as usize).collect() };
    for p in ps {
        let mut data: Vec<u8> = (0..p).map(|k| (k as u8).wrapping_mul(37).wrapping_add(11) | 1).collect();
        // pairwise distinct is not required, only "no matches": a permutation-like ramp
        for (k, b) in data.iter_mut().enumerate() {
            *b = (k as u8).wrapping_add(1);
        }
        data.extend(std::iter::repeat(0u8).take((3 << 20) + 17));
        let mut o = LzOpts { dict: 1 << 16, lc: 3, lp: 0, pb: 2, normal: false, nice: 273, bt4: false, depth: 4, preset: None };
        if rng.chance(1, 2) {
            o.dict = 1 << 20;
        }
        let detail = || json!({"format": "lzma2", "stratum": "chunk-limit", "prefix_len": p, "zeros": (3 << 20) + 17, "opts": o.json()});
        rep.count("stratum.chunk-limit");
        match lzma2_compress(&data, &o, None, &[data.len()], 0) {
            Outcome::Ok(c) => {
                match lzma2_decompress(&c, o.dict, None, &[1 << 16], data.len() + 16) {
                    Outcome::Ok((out, used)) if out == data && used == c.len() => {}
                    Outcome::Ok(_) => rep.fail("lzma2-roundtrip-mismatch", "LZMA2 round trip returned different bytes (chunk-limit stratum)", detail()),
                    other => rep.fail(&format!("lzma2-roundtrip-{}", other.class()), &format!("LZMA2 own reader fails on own output: {}", other.describe()), detail()),
                }
                // every chunk header must describe at most 2 MiB / 64 KiB
                let mut pos = 0usize;
                while pos < c.len() && c[pos] != 0 {
                    let ctl = c[pos];
                    if ctl >= 0x80 {
                        let unc = (((ctl & 0x1F) as usize) << 16) + ((c[pos + 1] as usize) << 8) + c[pos + 2] as usize + 1;
                        let comp = ((c[pos + 3] as usize) << 8) + c[pos + 4] as usize + 1;
                        if unc > (2 << 20) {
                            rep.fail("lzma2-chunk-too-large", "chunk header declares more than 2 MiB", detail());
                        }
                        pos += 5 + if ctl >= 0xC0 { 1 } else { 0 } + comp;
                    } else {
                        pos += 3 + ((c[pos + 1] as usize) << 8) + c[pos + 2] as usize + 1;
                    }
                }
                if pos + 1 != c.len() {
                    rep.fail("lzma2-chunk-walk", "chunk headers do not tile the stream", detail());
                }
            }
            other => rep.fail(&format!("lzma2-write-{}", other.class()), &other.describe(), detail()),
        }
        rep.case(format!("lzma2:chunk-limit:{}", p / 32), true, || detail());
    }
}

/// LZMA2 with a chunk_size well above 256 KiB and a small dictionary: the encoder window slides INSIDE a later
/// independent chunk; incompressible regions force stored chunks there
fn run_big_chunks(rep: &mut Report, rng: &mut Rng, thorough: bool, sweep: bool) {
    for k in 0..(if thorough || sweep { 12 } else { 2 }) {
        let mut r = rng.fork();
        let dict = *r.pick(&[4096u32, 20480, 4096, 65535]);
        let chunk = r.range(280_000, 520_000);
        let total = chunk as usize * 2 + r.range(100_000, 400_000) as usize;
        let mut data = vec![];
        while data.len() < total {
            let kind = *r.pick(&["random", "text", "random", "mixed"]);
            let l = r.range(20_000, 200_000) as usize;
            data.extend(gen_data(&mut r, kind, l));
        }
        data.truncate(total);
        let mut o = gen_lzopts(&mut r, true, 1 << 16, false);
        o.dict = dict;
        o.preset = None;
        o.nice = o.nice.min(64);
        o.depth = o.depth.clamp(0, 16);
        let (pstyle, parts) = gen_partition(&mut r, data.len());
        let detail = || json!({"format": "lzma2", "stratum": "big-chunks", "chunk_size": chunk, "opts": o.json(), "data_len": data.len(), "partition": pstyle, "data_fnv": fnv(&data), "case": k});
        rep.count("stratum.big-chunks");
        match lzma2_compress(&data, &o, Some(chunk), &parts, 0) {
            Outcome::Ok(c) => match lzma2_decompress(&c, o.dict, None, &[1 << 16], data.len() + 16) {
                Outcome::Ok((out, used)) if out == data && used == c.len() => {}
                Outcome::Ok(_) => rep.fail("lzma2-roundtrip-mismatch", "LZMA2 round trip returned different bytes (big-chunks stratum)", detail()),
                other => rep.fail(&format!("lzma2-roundtrip-{}", other.class()), &format!("LZMA2 own reader fails on own output: {}", other.describe()), detail()),
            },
            other => rep.fail(&format!("lzma2-write-{}", other.class()), &format!("LZMA2 writer failed on in-range options: {}", other.describe()), detail()),
        }
        rep.case(format!("lzma2:big-chunks:d{}:{}", dict_class(dict), pstyle), true, || detail());
    }
}

/// LZMA2 in NORMAL mode over (nearly) incompressible data: every chunk ends at the 64 KiB compressed limit, usually in
/// the middle of a multi-symbol parse of the optimal parser, and is then stored uncompressed - the encoder is reset
/// while symbols are still queued (`LZMAEncoder::reset` -> `NormalEncoderMode::reset`)
fn run_stored_normal(rep: &mut Report, rng: &mut Rng, thorough: bool, sweep: bool) {
    for k in 0..(if thorough || sweep { 40 } else { 12 }) {
        let mut r = rng.fork();
        let len = r.range(700_000, 1_200_000) as usize;
        let data: Vec<u8> = if k % 3 == 2 { r.bytes(len).into_iter().map(|b| b % 200).collect() } else { r.bytes(len) };
        let mut o = gen_lzopts(&mut r, true, 1 << 20, false);
        o.normal = true;
        o.bt4 = k % 2 == 0;
        o.dict = *r.pick(&[1u32 << 16, 1 << 18, 1 << 20]);
        o.preset = None;
        o.nice = *r.pick(&[16u32, 32, 64, 273]);
        o.depth = 0;
        let detail = || json!({"format": "lzma2", "stratum": "stored-normal", "opts": o.json(), "data_len": data.len(), "data_fnv": fnv(&data), "case": k});
        rep.count("stratum.stored-normal");
        match lzma2_compress(&data, &o, None, &[data.len()], 0) {
            Outcome::Ok(c) => match lzma2_decompress(&c, o.dict, None, &[1 << 16], data.len() + 16) {
                Outcome::Ok((out, used)) if out == data && used == c.len() => {}
                Outcome::Ok(_) => rep.fail("lzma2-roundtrip-mismatch", "LZMA2 round trip returned different bytes (stored-normal stratum)", detail()),
                other => rep.fail(&format!("lzma2-roundtrip-{}", other.class()), &format!("LZMA2 own reader fails on own output: {}", other.describe()), detail()),
            },
            other => rep.fail(&format!("lzma2-write-{}", other.class()), &format!("LZMA2 writer failed on in-range options: {}", other.describe()), detail()),
        }
        rep.case(format!("lzma2:stored-normal:d{}:bt4{}", dict_class(o.dict), o.bt4), true, || detail());
    }
}

/// data whose period is the dictionary size +- a few bytes: the nearest earlier occurrence of every byte pair /
/// triple lies exactly at the edge of what the dictionary (and the match finders' cyclic buffers) may reach
fn run_dict_edge(rep: &mut Report, rng: &mut Rng, thorough: bool, sweep: bool) {
    let dicts: &[u32] = if thorough || sweep { &[4096, 4097, 6000, 65536] } else { &[4096, 65536] };
    for &dict in dicts {
        for delta in [-2i64, -1, 0, 1, 2] {
            for (normal, bt4) in [(false, false), (true, true), (true, false), (false, true)] {
                if !(thorough || sweep) && rng.chance(1, 2) {
                    continue;
                }
                let period = (dict as i64 + delta) as usize;
                let base = rng.bytes(period);
                let total = period * 2 + rng.range(100, 1500) as usize;
                let data: Vec<u8> = (0..total).map(|k| base[k % period]).collect();
                let o = LzOpts { dict, lc: 3, lp: 0, pb: 2, normal, nice: *rng.pick(&[32u32, 273]), bt4, depth: 0, preset: None };
                let lzma2 = rng.chance(1, 2);
                let detail = || json!({"stratum": "dict-edge", "period": period, "data_len": data.len(), "opts": o.json(), "format": if lzma2 { "lzma2" } else { "lzma" }});
                rep.count("stratum.dict-edge");
                let ok = if lzma2 {
                    match lzma2_compress(&data, &o, None, &[data.len()], 0) {
                        Outcome::Ok(c) => match lzma2_decompress(&c, o.dict, None, &[65536], data.len() + 16) {
                            Outcome::Ok((out, used)) => (out == data && used == c.len()).then_some(()).ok_or("different data".to_string()),
                            other => Err(other.describe()),
                        },
                        other => Err(format!("writer: {}", other.describe())),
                    }
                } else {
                    match lzma_compress(&data, &o, LzmaFmt::RawMarker, &[data.len()]) {
                        Outcome::Ok(c) => match lzma_decompress(&c, &o, LzmaFmt::RawMarker, data.len() as u64, &[65536], data.len() + 16) {
                            Outcome::Ok((out, _)) => (out == data).then_some(()).ok_or("different data".to_string()),
                            other => Err(other.describe()),
                        },
                        other => Err(format!("writer: {}", other.describe())),
                    }
                };
                if let Err(e) = ok {
                    rep.fail(&format!("{}-roundtrip-dict-edge", if lzma2 { "lzma2" } else { "lzma" }), &format!("data with period dict{delta:+} does not round-trip: {e}"), detail());
                }
                rep.case(format!("dict-edge:{}:{delta}:{normal}:{bt4}", dict_class(dict)), true, || detail());
            }
        }
    }
}

/// streams long enough for the encoder window to move, made of short copies at distances within 64 of the
/// dictionary size (the history kept across a window move is exactly what such a copy needs), written with
/// varying first-write sizes so that the move happens at varying offsets
pub fn far_repeat_data(rng: &mut Rng, dict: usize, total: usize) -> Vec<u8> {
    let mut data = rng.bytes(dict + 64);
    while data.len() < total {
        let dist = dict - rng.below(64) as usize;
        let len = rng.range(2, 40) as usize;
        // long stretches at one distance keep it as rep0; occasionally switch
        let reps = rng.range(1, 30);
        for _ in 0..reps {
            for _ in 0..len {
                let b = data[data.len() - dist];
                data.push(b);
            }
            for _ in 0..rng.below(3) {
                data.push(rng.next() as u8);
            }
        }
    }
    data.truncate(total);
    data
}

fn run_far_repeats(rep: &mut Report, rng: &mut Rng, thorough: bool, sweep: bool) {
    let n = if thorough || sweep { 48 } else { 8 };
    for i in 0..n {
        let mut r = rng.fork();
        let dict = if i % 4 == 3 { 65536usize } else { 4096 };
        let normal = i % 8 >= 6;
        let bt4 = i % 2 == 1;
        let lzma2 = dict == 65536; // (LZMA2 with a dictionary below 64 KiB keeps 64 KiB - dict extra history)
        let total = dict + dict / 2 + (256 << 10) + 545 + r.range(20_000, 60_000) as usize;
        let data = far_repeat_data(&mut r, dict, total);
        let o = LzOpts { dict: dict as u32, lc: 3, lp: 0, pb: 2, normal, nice: 32, bt4, depth: 0, preset: None };
        let first = r.range(1, 70_000) as usize;
        let mut parts = vec![first];
        let mut left = data.len() - first;
        while left > 0 {
            let k = (r.range(1, 90_000) as usize).min(left);
            parts.push(k);
            left -= k;
        }
        let detail = || json!({"stratum": "far-repeats", "data_len": data.len(), "opts": o.json(), "format": if lzma2 { "lzma2" } else { "lzma" }, "first_write": first, "data_fnv": fnv(&data)});
        rep.count("stratum.far-repeats");
        let ok = if lzma2 {
            match lzma2_compress(&data, &o, None, &parts, 0) {
                Outcome::Ok(c) => match lzma2_decompress(&c, o.dict, None, &[65536], data.len() + 16) {
                    Outcome::Ok((out, used)) => (out == data && used == c.len()).then_some(()).ok_or("different data".to_string()),
                    other => Err(other.describe()),
                },
                other => Err(format!("writer: {}", other.describe())),
            }
        } else {
            match lzma_compress(&data, &o, LzmaFmt::RawMarker, &parts) {
                Outcome::Ok(c) => match lzma_decompress(&c, &o, LzmaFmt::RawMarker, data.len() as u64, &[65536], data.len() + 16) {
                    Outcome::Ok((out, _)) => (out == data).then_some(()).ok_or("different data".to_string()),
                    other => Err(other.describe()),
                },
                other => Err(format!("writer: {}", other.describe())),
            }
        };
        if let Err(e) = ok {
            rep.fail(&format!("{}-roundtrip-far-repeats", if lzma2 { "lzma2" } else { "lzma" }), &format!("long stream of copies at distances dict-63..dict does not round-trip: {e}"), detail());
        }
        rep.case(format!("far-repeats:{}:{normal}:{bt4}:{}", dict_class(dict as u32), first % 64), true, || detail());
    }
}

/// low-entropy data (four symbols): every 4-byte string has candidates all over the dictionary, also at the
/// largest distances
pub fn lowent_data(seed: u64, len: usize) -> Vec<u8> {
    let mut x = seed | 1;
    (0..len).map(|_| { x ^= x << 13; x ^= x >> 7; x ^= x << 17; b"abcd"[(x >> 30) as usize & 3] }).collect()
}

/// size of the LZMA2 writer's LZ window buffer (`get_buf_size`) and its `keep_size_after`
fn lzma2_window(dict: usize, normal: bool) -> (usize, usize) {
    let (eb, ea) = if normal { (4096usize, 4096usize) } else { (1, 272) };
    let eb = eb.max(65536usize.saturating_sub(dict));
    (dict + eb + ea + 273 + (dict / 2 + (256 << 10)), ea + 273)
}

/// "write k; flush; write rest" with k within `keep_size_after` of the window buffer's end: `flush` leaves up to
/// `nice_len - 1` bytes pending in the match finder (BT4: `move_pos(nice_len, 4)`), the next `fill_window` moves the
/// window first and then re-runs the match finder on the pending bytes, which looks `dict_size` bytes back from
/// the FIRST of them.  Before the repair `fix: move_window keeps the history of the pending bytes` the move kept
/// only `keep_size_before` bytes before `read_pos`: BT4 indexed before the buffer (panic; out-of-bounds read in the
/// `optimization` build).  `prop` prefixes the failure ids (the stratum runs in the C01 and in the C07 engine).
pub fn run_flush_window(rep: &mut Report, rng: &mut Rng, thorough: bool, sweep: bool, prop: &str) {
    let n = if thorough { 60 } else if sweep { 40 } else { 10 };
    for i in 0..n {
        let mut r = rng.fork();
        // (the first cases are the ones that showed the defect; then the neighbourhood)
        let bt4 = i % 5 != 4;
        let normal = i % 7 == 5;
        let dict: usize = if i < 4 { 65536 } else { *r.pick(&[65536usize, 65536, 98304, 131072, 262144]) };
        let nice: u32 = if i < 6 || !bt4 { 273 } else { *r.pick(&[273u32, 273, 200, 128, 64]) };
        let (b, keep_after) = lzma2_window(dict, normal);
        // the first flush happens with read_pos = k - 1 >= buf_size - keep_size_after: the next fill moves the window
        let back = if i == 0 { 225 } else { r.range(0, keep_after as u64 - 1) as usize };
        let k = b - back;
        let tail = r.range(300, 6000) as usize;
        let data = match i % 6 { 5 => gen_data(&mut r, "text", k + tail), 3 => far_repeat_data(&mut r, dict, k + tail), _ => lowent_data(r.next(), k + tail) };
        // some cases flush earlier too / write the first k bytes in two pieces / flush twice in a row
        let (parts, flush_after): (Vec<usize>, Vec<usize>) = match i % 4 {
            0 => (vec![k, tail], vec![0]),
            1 => { let a = r.range(1, k as u64 - 1) as usize; (vec![a, k - a, tail], vec![0, 1]) }
            2 => { let a = r.range(1, k as u64 - 1) as usize; (vec![a, k - a, 1, tail - 1], vec![1, 2]) }
            _ => (vec![k, 7, tail - 7], vec![0, 0, 1]),
        };
        let o = LzOpts { dict: dict as u32, lc: 3, lp: 0, pb: 2, normal, nice, bt4, depth: 0, preset: None };
        let detail = || json!({"stratum": "flush-window", "format": "lzma2", "opts": o.json(), "window_buf_size": b, "first_flush_at": k, "parts": parts, "flush_after_part": flush_after, "data_len": data.len(), "data_kind": i % 6, "data_fnv": fnv(&data),
            "replay": "LZMA2Writer: write the parts in order, call flush() after the listed part indices, finish(); decode with LZMA2Reader"});
        rep.count("stratum.flush-window");
        rep.evaluations += 1;
        let res = guard(|| {
            let opts = lzma_rust2::LZMA2Options { lzma_options: o.to_opts(), chunk_size: None };
            let mut w = lzma_rust2::LZMA2Writer::new(Vec::new(), opts);
            let mut off = 0;
            for (pi, &n) in parts.iter().enumerate() {
                std::io::Write::write_all(&mut w, &data[off..off + n])?;
                off += n;
                for _ in flush_after.iter().filter(|&&f| f == pi) {
                    std::io::Write::flush(&mut w)?;
                }
            }
            w.finish()
        });
        match res {
            Outcome::Ok(c) => match lzma2_decompress(&c, o.dict, None, &[65536], data.len() + 16) {
                Outcome::Ok((out, used)) if out == data && used == c.len() => {}
                Outcome::Ok(_) => rep.fail(&format!("{prop}lzma2-roundtrip-flush-window"), "write k; flush; write rest (k at the end of the encoder window) does not round-trip: different data", detail()),
                other => rep.fail(&format!("{prop}lzma2-roundtrip-flush-window"), &format!("write k; flush; write rest (k at the end of the encoder window) does not round-trip: {}", other.describe()), detail()),
            },
            other => rep.fail(&format!("{prop}lzma2-writer-{}-flush-window", other.class()), &format!("write k; flush; write rest (k at the end of the encoder window): writer: {}", other.describe()), detail()),
        }
        rep.case(format!("flush-window:{}:{normal}:{bt4}:{nice}:{}", dict_class(dict as u32), i % 4), true, || detail());
    }
}

/// The encoder's LZ window itself: the real `LZEncoder` (hook `lz_window_script`) and the window model
/// (`Model/EncWindow.lean`, request `encwin.script`) are driven by the same script of `fill_window` / `set_flushing` /
/// `set_finishing` / `skip(1)` operations and must log the same `(read_pos, read_limit, write_pos, pending_size)`
/// after every operation.  The scripts fill the window to within `keep_size_after` of its end, flush (pending bytes),
/// and fill again (window move with pending bytes), several windows long.
pub fn run_encwin_script(rep: &mut Report, rng: &mut Rng, thorough: bool, sweep: bool, prop: &str) {
    let n = if thorough { 120 } else if sweep { 60 } else { 16 };
    let data = lowent_data(0x5eed, 1 << 16);
    for i in 0..n {
        let mut r = rng.fork();
        let bt4 = i % 3 != 2;
        let normal = i % 4 == 3;
        let dict: u32 = if i == 0 { 65536 } else { *r.pick(&[4096u32, 4096, 8192, 65536, 65536, 131072]) };
        let nice: u32 = if i < 3 { 273 } else { *r.pick(&[273u32, 273, 128, 64, 8]) };
        let lzma2 = i % 2 == 0;
        let (eb, ea) = if normal { (4096u32, 4096u32) } else { (1, 272) };
        let eb = if lzma2 { eb.max(65536u32.saturating_sub(dict)) } else { eb };
        let keep_after = (ea + 273) as usize;
        let b = (dict + eb) as usize + keep_after + (dict as usize / 2 + (256 << 10));
        let big = 1u32 << 30;
        let mut script: Vec<(u32, u32)> = Vec::new();
        // position of write_pos inside the buffer as the script goes (only to aim the fills; the hook decides)
        let windows = r.range(2, if thorough { 6 } else { 3 });
        let mut wp = 0usize;
        for w in 0..windows {
            // fill up to `back` bytes before the end of the buffer, in one to three calls, coding in between
            let back = if i == 0 && w == 0 { 225 } else if r.chance(1, 5) { 0 } else { r.range(0, keep_after as u64 + 80) as usize };
            let target = b - back;
            let mut need = target.saturating_sub(wp);
            let pieces = r.range(1, 3);
            for p in 0..pieces {
                let k = if p + 1 == pieces { need } else { r.range(0, need as u64) as usize };
                script.push((0, k as u32));
                need -= k;
                if r.chance(2, 3) { script.push((3, if r.chance(1, 4) { r.range(0, 5000) as u32 } else { big })); }
            }
            script.push((3, big));
            if r.chance(5, 6) {
                script.push((1, 0));
                script.push((3, if r.chance(1, 6) { r.range(0, 400) as u32 } else { big }));
                if r.chance(1, 4) { script.push((1, 0)); script.push((3, big)); }
            }
            // the next fill moves the window (if read_pos got far enough); small or large
            let k = *r.pick(&[0u32, 1, 3, 100, 272, 273, 544, 545, 546, 5000, big]);
            script.push((0, k));
            script.push((3, big));
            if r.chance(1, 3) { script.push((1, 0)); script.push((3, big)); script.push((0, r.range(0, 600) as u32)); script.push((3, big)); }
            // where write_pos is now: unknown in general - continue from "at least the kept part"
            wp = (dict + eb) as usize + 600;
        }
        script.push((2, 0));
        script.push((3, big));
        rep.count("stratum.encwin-script");
        rep.evaluations += 1;
        let sc = script.iter().map(|(o, k)| format!("{o}:{k}")).collect::<Vec<_>>().join(",");
        let detail = || json!({"stratum": "encwin-script", "match_finder": if bt4 { "bt4" } else { "hc4" }, "dict": dict, "extra_size_before": eb, "extra_size_after": ea, "nice_len": nice, "window_buf_size": b, "script": sc,
            "replay": "verif_hooks::lz_window_script(bt4, dict, eb, ea, nice, 273, 0, lowent_data(0x5eed, 65536), script)"});
        let log = guard(|| Ok(lzma_rust2::verif_hooks::lz_window_script(bt4, dict, eb, ea, nice, 273, 0, &data, &script)));
        match log {
            Outcome::Ok(log) => {
                let mut h: u32 = 2166136261;
                let mut bad = None;
                for (k, &(rp, rl, wpos, pend)) in log.iter().enumerate() {
                    for x in [rp as u32, rl as u32, wpos as u32, pend] {
                        h = (h ^ x).wrapping_mul(16777619);
                    }
                    // what every later buffer access relies on
                    if rp < -1 || rp >= wpos || wpos as usize > b || (pend as i64) > rp as i64 + 1 {
                        bad.get_or_insert(format!("after operation {k} ({:?}): read_pos {rp}, read_limit {rl}, write_pos {wpos}, pending_size {pend} (buffer {b})", script[k]));
                    }
                }
                if let Some(m) = bad {
                    rep.fail(&format!("{prop}encwin-positions-out-of-range"), &m, detail());
                }
                rep.model(
                    format!("encwin.script dict={dict} eb={eb} ea={ea} nice={nice} mlmax=273 bt4={} ops={sc}", bt4 as u8),
                    format!("ok {} {h} low=0", script.len()),
                );
            }
            other => rep.fail(&format!("{prop}encwin-window-{}", other.class()), &format!("LZEncoder driven by a fill / flush / skip script: {}", other.describe()), detail()),
        }
        rep.case(format!("encwin-script:{}:{}:{nice}:{}", bt4 as u8, dict_class(dict), windows), true, || detail());
    }
}

pub fn run(rep: &mut Report, rng: &mut Rng, thorough: bool) {
    // a search run (the check re-invokes the engine with seeds >= 1000 when a proof obligation or the
    // correspondence broke) sweeps the targeted strata completely
    let sweep = std::env::args().nth(3).and_then(|s| s.parse::<u64>().ok()).map(|s| s >= 1000).unwrap_or(false);
    // VH_ONLY_ENCWIN=<rounds>: only the window-script correspondence, <rounds> times the thorough amount (for bulk
    // validation of the window model outside ./check)
    if let Some(rounds) = std::env::var("VH_ONLY_ENCWIN").ok().and_then(|s| s.parse::<u64>().ok()) {
        for _ in 0..rounds {
            run_encwin_script(rep, &mut rng.fork(), true, false, "");
            run_flush_window(rep, &mut rng.fork(), false, false, "");
        }
        return;
    }
    run_chunk_limit(rep, rng, thorough, sweep);
    run_dict_edge(rep, rng, thorough, sweep);
    run_far_repeats(rep, &mut rng.fork(), thorough, sweep);
    run_flush_window(rep, &mut rng.fork(), thorough, sweep, "");
    run_encwin_script(rep, &mut rng.fork(), thorough, sweep, "");
    crate::twin::run_mf(rep, &mut rng.fork(), thorough, sweep);
    crate::twin::run_mf_adv(rep, &mut rng.fork(), thorough, sweep);
    crate::twin::run_mf_renorm(rep, &mut rng.fork(), thorough, sweep);
    crate::twin::run_encfast(rep, &mut rng.fork(), thorough, sweep);
    // the LZMA2 writer in fast mode against `Model/Lzma2Writer.lean` (`lzma2w.fast`), byte for byte
    crate::lzma2w::run_lzma2w(rep, &mut rng.fork(), if thorough { 900 } else if sweep { 300 } else { 80 }, thorough, !thorough);
    run_big_chunks(rep, rng, thorough, sweep);
    run_stored_normal(rep, &mut rng.fork(), thorough, sweep);
    let cases = if thorough { 3000 } else { 260 };
    let max = if thorough { 2 << 20 } else { 96 << 10 };
    // model decode is slower than the real one: cap what is sent to the model
    let model_max = if thorough { 600_000 } else { 70_000 };
    for i in 0..cases {
        let mut r = rng.fork();
        let kind = DATA_KINDS[(i % DATA_KINDS.len() as u64) as usize];
        let lzma2 = i % 3 == 0;
        let max_dict = if thorough { 4 << 20 } else { 1 << 20 };
        let mut o = gen_lzopts(&mut r, lzma2, max_dict, true);
        let mut size = gen_size(&mut r, o.dict, max);
        let mut kind = kind;
        if i % 13 == 7 {
            // window stratum: small dictionary, a stream long enough for the encoder window to move
            // several times, and the maximal position-bit options (contexts depend on pos mod 16)
            o.dict = *r.pick(&[4096u32, 4096, 8192, 65536]);
            let (lc, lp, pb) = *r.pick(&[(0u32, 4u32, 4u32), (0, 4, 0), (3, 0, 4), (0, 4, 2), (1, 3, 4), (3, 1, 3)]);
            o.lc = lc;
            o.lp = lp;
            o.pb = pb;
            o.nice = o.nice.min(64);
            o.depth = o.depth.clamp(0, 16);
            o.preset = None;
            kind = *r.pick(&["text", "mixed", "code"]);
            size = r.range(300_000, if thorough { 1_500_000 } else { 600_000 }) as usize;
            rep.count("stratum.window-move");
        }
        let data = gen_data(&mut r, kind, size);
        let (pstyle, parts) = gen_partition(&mut r, data.len());
        rep.count(&format!("data.{kind}"));
        if lzma2 {
            let chunk = match r.below(4) {
                0 | 1 => None,
                2 => Some(o.dict as u64),
                _ => Some(r.range(1, (data.len() as u64).max(2))),
            };
            let flush_every = if r.chance(1, 4) { r.range(1, 5) as usize } else { 0 };
            let sig = format!("lzma2:{}:{}:{}:c{}:f{}:{}", kind, size_class(data.len()), pstyle, chunk.map(|c| size_class(c as usize)).unwrap_or("none"), flush_every > 0, o.sig());
            let detail = || json!({"format": "lzma2", "opts": o.json(), "chunk_size": chunk, "flush_every": flush_every, "data_kind": kind, "data_len": data.len(), "partition": pstyle, "data_fnv": fnv(&data), "case": i});
            rep.count("fmt.lzma2");
            match lzma2_compress(&data, &o, chunk, &parts, flush_every) {
                Outcome::Ok(c) => {
                    match lzma2_decompress(&c, o.dict, o.preset.as_deref(), &[65536], data.len() + 16) {
                        Outcome::Ok((out, used)) => {
                            if out != data {
                                rep.fail("lzma2-roundtrip-mismatch", "LZMA2 round trip returned different bytes", detail());
                            } else if used != c.len() {
                                rep.fail("lzma2-roundtrip-consumed", "LZMA2 reader did not consume exactly the stream", detail());
                            }
                        }
                        other => rep.fail(&format!("lzma2-roundtrip-{}", other.class()), &format!("LZMA2 own reader fails on own output: {}", other.describe()), detail()),
                    }
                    if c.len() <= model_max && data.len() <= model_max {
                        rep.model(
                            format!("lzma2.dec dict={} preset={} in={} cap={} reenc=1", o.dict, hex(o.preset.as_deref().unwrap_or(&[])), hex(&c), data.len() + 16),
                            format!("ok {} {} {} 1", data.len(), fnv(&data), c.len()),
                        );
                    }
                }
                other => rep.fail(&format!("lzma2-write-{}", other.class()), &format!("LZMA2 writer failed on in-range options: {}", other.describe()), detail()),
            }
            rep.case(sig, !data.is_empty(), || detail());
        } else {
            let fmt = LZMA_FMTS[(r.below(LZMA_FMTS.len() as u64)) as usize];
            let mut o = o;
            if matches!(fmt, LzmaFmt::HeaderMarker | LzmaFmt::HeaderSize) {
                o.preset = None; // header + preset dictionary is documented as unsupported
            }
            let sig = format!("lzma:{}:{}:{}:{}:{}", fmt_name(fmt), kind, size_class(data.len()), pstyle, o.sig());
            let detail = || json!({"format": "lzma", "variant": fmt_name(fmt), "opts": o.json(), "data_kind": kind, "data_len": data.len(), "partition": pstyle, "data_fnv": fnv(&data), "case": i});
            rep.count(&format!("fmt.{}", fmt_name(fmt)));
            match lzma_compress(&data, &o, fmt, &parts) {
                Outcome::Ok(c) => {
                    match lzma_decompress(&c, &o, fmt, data.len() as u64, &[65536], data.len() + 16) {
                        Outcome::Ok((out, used)) => {
                            if out != data {
                                rep.fail("lzma-roundtrip-mismatch", "LZMA round trip returned different bytes", detail());
                            } else if used != c.len() && fmt != LzmaFmt::RawBoth {
                                rep.fail("lzma-roundtrip-consumed", "LZMA reader did not consume exactly the stream", detail());
                            }
                            if c.len() <= model_max && data.len() <= model_max {
                                rep.model(
                                    lzma_req(&o, fmt, data.len() as u64, &c, data.len() + 16, fmt != LzmaFmt::RawBoth),
                                    format!("ok {} {} {} {}", data.len(), fnv(&data), used, if fmt != LzmaFmt::RawBoth { "1" } else { "-" }),
                                );
                            }
                        }
                        other => rep.fail(&format!("lzma-roundtrip-{}:{}", other.class(), fmt_name(fmt)), &format!("LZMA own reader fails on own output: {}", other.describe()), detail()),
                    }
                }
                other => rep.fail(&format!("lzma-write-{}", other.class()), &format!("LZMA writer failed on in-range options: {}", other.describe()), detail()),
            }
            rep.case(sig, !data.is_empty(), || detail());
        }
    }
    // the `.lzma` / raw writer models in fast mode (Model/LzmaWriter.lean), byte exact
    crate::fastw::run_lzma(rep, &mut rng.fork(), thorough);
    // the normal-mode encoder model against the real writer, byte for byte (last, so that the strata above keep their
    // PRNG streams); the optimal parser of the model costs ~15 us per byte in the compiled driver
    let (n, max_len) = if thorough { (500, 330_000) } else if sweep { (150, 60_000) } else { (45, 12_000) };
    crate::twin::run_encnormal(rep, &mut rng.fork(), n, max_len);
}
