//! C05: truncation and I/O faults surface as errors; short reads/writes and Interrupted change nothing.
use crate::codec::*;
use crate::util::*;
use lzma_rust2::*;
use serde_json::json;
use std::io::{ErrorKind, Read, Write};

#[derive(Clone, Copy, Debug, PartialEq)]
pub enum Act {
    /// deliver at most n bytes
    Max(usize),
    Interrupted,
    Fail(ErrorKind),
}

/// source that follows a script of per-call actions (after the script: full reads), counting calls
pub struct FaultReader {
    pub data: Vec<u8>,
    pub pos: usize,
    pub script: Vec<Act>,
    pub calls: usize,
    pub fail_at: Option<(usize, ErrorKind)>,
}

impl Read for FaultReader {
    fn read(&mut self, buf: &mut [u8]) -> std::io::Result<usize> {
        let i = self.calls;
        self.calls += 1;
        if let Some((k, kind)) = self.fail_at {
            if i == k {
                return Err(std::io::Error::new(kind, "injected"));
            }
        }
        let act = self.script.get(i).copied().unwrap_or(Act::Max(usize::MAX));
        match act {
            Act::Interrupted => Err(std::io::Error::new(ErrorKind::Interrupted, "injected interrupt")),
            Act::Fail(k) => Err(std::io::Error::new(k, "injected")),
            Act::Max(n) => {
                let left = self.data.len() - self.pos;
                let k = buf.len().min(left).min(n.max(1));
                buf[..k].copy_from_slice(&self.data[self.pos..self.pos + k]);
                self.pos += k;
                Ok(k)
            }
        }
    }
}

pub struct FaultWriter {
    pub out: Vec<u8>,
    pub script: Vec<Act>,
    pub calls: usize,
    pub fail_at: Option<(usize, ErrorKind)>,
}

impl Write for FaultWriter {
    fn write(&mut self, buf: &[u8]) -> std::io::Result<usize> {
        let i = self.calls;
        self.calls += 1;
        if let Some((k, kind)) = self.fail_at {
            if i == k {
                return Err(std::io::Error::new(kind, "injected"));
            }
        }
        match self.script.get(i).copied().unwrap_or(Act::Max(usize::MAX)) {
            Act::Interrupted => Err(std::io::Error::new(ErrorKind::Interrupted, "injected interrupt")),
            Act::Fail(k) => Err(std::io::Error::new(k, "injected")),
            Act::Max(n) => {
                let k = buf.len().min(n.max(1));
                self.out.extend_from_slice(&buf[..k]);
                Ok(k)
            }
        }
    }
    fn flush(&mut self) -> std::io::Result<()> {
        Ok(())
    }
}

#[derive(Clone)]
pub struct Stream {
    pub fmt: &'static str,
    pub name: String,
    pub bytes: Vec<u8>,
    pub data: Vec<u8>,
    pub lz: LzOpts,
    pub lzma_fmt: LzmaFmt,
    pub bounds: Vec<(usize, usize)>, // lzip-multi: (end offset, data length) of each member
}

pub fn decode_from<R: Read>(s: &Stream, src: R, cap: usize) -> Outcome<Vec<u8>> {
    let size = s.data.len() as u64;
    match s.fmt {
        "xz" => guard(|| {
            let mut r = XZReader::new(src, false);
            read_all_sched(&mut r, &[777], cap)
        }),
        "xz-multi" => guard(|| {
            let mut r = XZReader::new(src, true);
            read_all_sched(&mut r, &[777], cap)
        }),
        "lzip" | "lzip-multi" => guard(|| {
            let mut r = LZIPReader::new(src)?;
            read_all_sched(&mut r, &[777], cap)
        }),
        "lzma2" => guard(|| {
            let mut r = LZMA2Reader::new(src, s.lz.dict, s.lz.preset.as_deref());
            read_all_sched(&mut r, &[777], cap)
        }),
        _ => guard(|| {
            let mut r = match s.lzma_fmt {
                LzmaFmt::HeaderMarker | LzmaFmt::HeaderSize => LZMAReader::new_mem_limit(src, u32::MAX, None)?,
                LzmaFmt::RawMarker => LZMAReader::new(src, u64::MAX, s.lz.lc, s.lz.lp, s.lz.pb, s.lz.dict, s.lz.preset.as_deref())?,
                _ => LZMAReader::new(src, size, s.lz.lc, s.lz.lp, s.lz.pb, s.lz.dict, s.lz.preset.as_deref())?,
            };
            read_all_sched(&mut r, &[777], cap)
        }),
    }
}

pub fn streams(rng: &mut Rng, n_each: usize, max_len: usize) -> Vec<Stream> {
    let mut v = vec![];
    for i in 0..n_each {
        // several LZIP members: a cut exactly at a member boundary is a complete shorter file, every other cut
        // (in particular inside the next member's magic bytes) must be an error
        {
            let mut bytes = vec![];
            let mut data = vec![];
            let mut bounds = vec![];
            let mut lz0 = gen_lzopts(rng, false, 1 << 16, false);
            lz0.preset = None;
            for _ in 0..rng.range(2, 4) {
                let l = rng.range(0, 60) as usize;
                let d = gen_data(rng, "text", l);
                if let Outcome::Ok(c) = lzip_compress(&d, &lz0, None, &[d.len()]) {
                    bytes.extend(c);
                    data.extend(d);
                    bounds.push((bytes.len(), data.len()));
                }
            }
            if bounds.len() >= 2 {
                v.push(Stream { fmt: "lzip-multi", name: format!("lzip-members{}-{}", bounds.len(), bytes.len()), bytes, data, lz: lz0, lzma_fmt: LzmaFmt::RawMarker, bounds });
            }
        }
        for fmt in ["xz", "xz-multi", "lzip", "lzma2", "lzma"] {
            let kind = *rng.pick(&["text", "random", "periodic", "runs", "mixed"]);
            let len = if i == 0 { rng.range(1, 40) as usize } else { rng.range(1, max_len as u64) as usize };
            let data = gen_data(rng, kind, len);
            let mut lz = gen_lzopts(rng, fmt != "lzma" && fmt != "lzip", 1 << 16, fmt == "lzma2");
            let mut lzma_fmt = LzmaFmt::RawMarker;
            let bytes = match fmt {
                "xz" | "xz-multi" => {
                    lz.preset = None;
                    let mut o = gen_xzopts(rng, 1 << 16, data.len());
                    o.lz = lz.clone();
                    if fmt == "xz-multi" && rng.chance(1, 2) {
                        match (xz_compress(&data, &o, &[data.len()], 0), xz_compress(&data, &o, &[data.len()], 0)) {
                            (Outcome::Ok(mut a), Outcome::Ok(b)) => {
                                a.extend_from_slice(&[0, 0, 0, 0]);
                                a.extend_from_slice(&b);
                                v.push(Stream { fmt: "xz-multi", name: format!("xz2x-{kind}-{len}"), bytes: a, data: [data.clone(), data.clone()].concat(), lz: lz.clone(), lzma_fmt, bounds: vec![] });
                                continue;
                            }
                            _ => continue,
                        }
                    }
                    match xz_compress(&data, &o, &[data.len()], 0) {
                        Outcome::Ok(c) => c,
                        _ => continue,
                    }
                }
                "lzip" => {
                    lz.preset = None;
                    let member = if rng.chance(1, 2) && len > 8 { lz.dict = 4096; Some(4096u64) } else { None };
                    match lzip_compress(&data, &lz, member, &[data.len()]) {
                        Outcome::Ok(c) => c,
                        _ => continue,
                    }
                }
                "lzma2" => match lzma2_compress(&data, &lz, None, &[data.len()], 0) {
                    Outcome::Ok(c) => c,
                    _ => continue,
                },
                _ => {
                    lzma_fmt = *rng.pick(&[LzmaFmt::HeaderMarker, LzmaFmt::HeaderSize, LzmaFmt::RawMarker, LzmaFmt::RawSize]);
                    if matches!(lzma_fmt, LzmaFmt::HeaderMarker | LzmaFmt::HeaderSize) {
                        lz.preset = None;
                    }
                    match lzma_compress(&data, &lz, lzma_fmt, &[data.len()]) {
                        Outcome::Ok(c) => c,
                        _ => continue,
                    }
                }
            };
            v.push(Stream { fmt, name: format!("{fmt}-{}-{kind}-{len}", crate::c01::fmt_name(lzma_fmt)), bytes, data, lz, lzma_fmt, bounds: vec![] });
        }
    }
    v
}

/// the filter readers standing alone (as users of the public `BCJReader` / `DeltaReader` meet them) over a source
/// that fails exactly ONE read call (a later call succeeds again): the error must reach the caller, whatever the
/// size of the caller's buffer, and short reads / Interrupted must not change the bytes
fn run_filter_readers(rep: &mut Report, rng: &mut Rng, thorough: bool) {
    let archs = ["x86", "ppc", "ia64", "arm", "armthumb", "sparc", "arm64", "riscv", "delta"];
    for (ai, arch) in archs.iter().enumerate() {
        let mut r = rng.fork();
        let len = r.range(9_000, 30_000) as usize;
        let data = gen_data(&mut r, if ai % 2 == 0 { "code" } else { "mixed" }, len);
        let open = |src: FaultReader| -> Box<dyn Read> {
            if *arch == "delta" { Box::new(filter::delta::DeltaReader::new(src, 7)) } else { Box::new(crate::part::new_bcj_reader(arch, src, 0)) }
        };
        let clean = guard(|| read_all_sched(&mut open(FaultReader { data: data.clone(), pos: 0, script: vec![], calls: 0, fail_at: None }), &[65536], len * 2));
        let Outcome::Ok(expect) = clean else {
            rep.fail("filter-reader-failed", &clean.describe(), json!({"filter": arch}));
            continue;
        };
        rep.count("fmt.filter-reader");
        for &k in if thorough { &[0usize, 1, 2, 3, 4, 5, 7][..] } else { &[0usize, 1, 2, 4][..] } {
            for kind in [ErrorKind::Other, ErrorKind::TimedOut] {
                for sched in [vec![65536usize], vec![777], vec![4096, 1]] {
                    // short reads before the fault so that the failing call is not the first one inside a read()
                    let script: Vec<Act> = (0..k + 3).map(|j| Act::Max(if j % 2 == 0 { 1500 } else { 700 })).collect();
                    let src = FaultReader { data: data.clone(), pos: 0, script, calls: 0, fail_at: Some((k, kind)) };
                    let o = guard(|| read_all_sched(&mut open(src), &sched, len * 2));
                    rep.evaluations += 1;
                    let detail = || json!({"filter": arch, "data_len": len, "fault": format!("one-shot {kind:?} at source read call {k}"), "caller_buffer": sched});
                    match o {
                        Outcome::Err(got, _) if got == kind => {}
                        Outcome::Err(got, m) => rep.fail("fault-kind-changed:filter-reader", &format!("source error {kind:?} arrived as {got:?}: {m}"), detail()),
                        Outcome::Ok(out) => rep.fail("fault-swallowed:filter-reader", &format!("the source's error was swallowed: the read succeeded with {} bytes ({})", out.len(), if out == expect { "the right ones" } else { "different from the fault-free run" }), detail()),
                        Outcome::Panic(m) => rep.fail("fault-panic:filter-reader", &m, detail()),
                    }
                }
            }
        }
        // short reads and Interrupted only: same bytes
        let script: Vec<Act> = (0..400).map(|j| if j % 5 == 3 { Act::Interrupted } else { Act::Max(1 + (j * 37) % 900) }).collect();
        let o = guard(|| read_all_sched(&mut open(FaultReader { data: data.clone(), pos: 0, script, calls: 0, fail_at: None }), &[5000, 3], len * 2));
        match o {
            Outcome::Ok(out) if out == expect => {}
            other => rep.fail("short-read-changes-bytes:filter-reader", &other.describe(), json!({"filter": arch, "data_len": len})),
        }
        // a source that never delivers more than 1..4 bytes per call (a pipe, a tty), over code-like data long enough for
        // the reader's 4096-byte buffer to be refilled and compacted many times in every phase of an instruction
        if *arch != "delta" {
            let big = if *arch == "x86" { crate::c11::gen_x86_dense(&mut r, if thorough { 400_000 } else { 150_000 }) } else { crate::c11::gen_arch_code(&mut r, arch, if thorough { 120_000 } else { 40_000 }) };
            let clean = guard(|| read_all_sched(&mut open(FaultReader { data: big.clone(), pos: 0, script: vec![], calls: 0, fail_at: None }), &[65536], big.len() * 2));
            if let Outcome::Ok(expect_big) = clean {
                for grant in [1usize, 2, 3, 4] {
                    let script: Vec<Act> = (0..big.len() / grant + 16).map(|j| Act::Max(if grant == 4 { 1 + j % 4 } else { grant })).collect();
                    let o = guard(|| read_all_sched(&mut open(FaultReader { data: big.clone(), pos: 0, script, calls: 0, fail_at: None }), &[4096], big.len() * 2));
                    rep.evaluations += 1;
                    match o {
                        Outcome::Ok(out) if out == expect_big => rep.count("filter-reader.tiny-reads.same"),
                        other => rep.fail("short-read-changes-bytes:filter-reader", &format!("source delivering at most {grant} byte(s) per call: {}", match &other { Outcome::Ok(out) => format!("Ok with {} of {} bytes", out.len(), expect_big.len()), o => o.describe() }), json!({"filter": arch, "data_len": big.len(), "grant": grant, "data_fnv": fnv(&big)})),
                    }
                }
            }
        }
        rep.case(format!("filter-reader:{arch}"), true, || json!({"filter": arch, "data_len": len}));
    }
}

pub fn run(rep: &mut Report, rng: &mut Rng, thorough: bool) {
    run_filter_readers(rep, &mut rng.fork(), thorough);
    let ss = streams(rng, if thorough { 12 } else { 3 }, if thorough { 4000 } else { 300 });
    for s in &ss {
        let cap = s.data.len() * 2 + 4096;
        rep.count(&format!("fmt.{}", s.fmt));
        let detail = |what: &str| json!({"stream": s.name, "format": s.fmt, "stream_len": s.bytes.len(), "data_len": s.data.len(), "fault": what, "stream_hex": if s.bytes.len() <= 300 { hex(&s.bytes) } else { format!("fnv:{}", fnv(&s.bytes)) }});
        // sanity
        match decode_from(s, s.bytes.as_slice(), cap) {
            Outcome::Ok(d) if d == s.data => {}
            other => {
                rep.fail("valid-stream-rejected", &other.describe(), detail("none"));
                continue;
            }
        }
        // (a) every truncation point
        let points: Vec<usize> = if s.bytes.len() <= 2500 { (0..s.bytes.len()).collect() } else { (0..800).map(|_| rng.below(s.bytes.len() as u64) as usize).collect() };
        for &k in &points {
            let o = decode_from(s, &s.bytes[..k], cap);
            rep.evaluations += 1;
            if s.bytes.len() <= 700 && matches!(s.fmt, "xz" | "xz-multi" | "lzip" | "lzip-multi") {
                // the reader models on the same prefix: same verdict and error class
                let f = if s.fmt.starts_with("xz") { "xz" } else { "lzip" };
                let multi = s.fmt == "xz-multi";
                let real = crate::cont::real_decode(f, multi, &s.bytes[..k], cap);
                crate::cont::model_case(rep, f, multi, &s.bytes[..k], cap);
            }
            match &o {
                Outcome::Err(..) => rep.count("trunc.err"),
                Outcome::Ok(d) => {
                    // a prefix that is itself a complete stream (two concatenated XZ streams cut at the boundary) is fine
                    let complete_prefix = (s.fmt == "xz-multi" && s.data.starts_with(d) && !d.is_empty() && d.len() * 2 == s.data.len())
                        || s.bounds.iter().any(|&(b, dl)| b == k && d[..] == s.data[..dl]);
                    if complete_prefix {
                        rep.count("trunc.complete-prefix");
                    } else {
                        let id = if s.fmt.starts_with("lzip") && k == 0 { "truncation-accepted:lzip:empty-input".to_string() } else { format!("truncation-accepted:{}", s.fmt) };
                        rep.fail(&id, &format!("stream truncated to {k} of {} bytes decoded successfully to {} bytes", s.bytes.len(), d.len()), detail(&format!("truncate@{k}")));
                    }
                }
                Outcome::Panic(m) => rep.fail(&format!("truncation-panic:{}", s.fmt), m, detail(&format!("truncate@{k}"))),
            }
        }
        // (b) an I/O error injected at every read-call index the reader makes (1-byte reads so that there are many calls)
        let mut probe = FaultReader { data: s.bytes.clone(), pos: 0, script: vec![Act::Max(64); 100000], calls: 0, fail_at: None };
        let _ = decode_from(s, &mut probe, cap);
        let ncalls = probe.calls;
        let idxs: Vec<usize> = if ncalls <= 400 { (0..ncalls).collect() } else { (0..300).map(|_| rng.below(ncalls as u64) as usize).collect() };
        for &j in &idxs {
            let kind = *rng.pick(&[ErrorKind::ConnectionReset, ErrorKind::PermissionDenied, ErrorKind::TimedOut, ErrorKind::Other]);
            let mut src = FaultReader { data: s.bytes.clone(), pos: 0, script: vec![Act::Max(64); 100000], calls: 0, fail_at: Some((j, kind)) };
            let o = decode_from(s, &mut src, cap);
            rep.evaluations += 1;
            match &o {
                Outcome::Err(k, _) if *k == kind => rep.count("ioerr.same-kind"),
                Outcome::Err(k, m) => rep.fail(&format!("io-error-kind-changed:{}", s.fmt), &format!("source failed with {:?} at read call {j}, reader reported {:?}: {m}", kind, k), detail(&format!("ioerror@{j}"))),
                Outcome::Ok(d) => {
                    // the failing call may be one the reader never needs (e.g. a probe after the end): then success with the right data is fine
                    if d != &s.data || src.calls > j {
                        rep.fail(&format!("io-error-swallowed:{}", s.fmt), &format!("source failed at read call {j} (reader made {} calls) but the read succeeded with {} bytes", src.calls, d.len()), detail(&format!("ioerror@{j}")));
                    }
                }
                Outcome::Panic(m) => rep.fail(&format!("io-error-panic:{}", s.fmt), m, detail(&format!("ioerror@{j}"))),
            }
        }
        // (c) short reads and Interrupted: same data
        for t in 0..(if thorough { 12 } else { 4 }) {
            let script: Vec<Act> = (0..60000)
                .map(|_| match rng.below(10) {
                    0 => Act::Interrupted,
                    1..=4 => Act::Max(1),
                    5..=7 => Act::Max(rng.range(1, 7) as usize),
                    _ => Act::Max(rng.range(1, 5000) as usize),
                })
                .collect();
            let with_intr = t % 2 == 0;
            let script: Vec<Act> = if with_intr { script } else { script.into_iter().map(|a| if a == Act::Interrupted { Act::Max(1) } else { a }).collect() };
            let mut src = FaultReader { data: s.bytes.clone(), pos: 0, script, calls: 0, fail_at: None };
            let o = decode_from(s, &mut src, cap);
            rep.evaluations += 1;
            match &o {
                Outcome::Ok(d) if d == &s.data => rep.count(if with_intr { "short+intr.ok" } else { "short.ok" }),
                other => rep.fail(&format!("short-reads-change-result:{}:{}", s.fmt, if with_intr { "interrupted" } else { "short" }), &format!("short reads{} changed the result: {}", if with_intr { " + Interrupted" } else { "" }, other.describe()), detail("short reads")),
            }
        }
        rep.case(format!("stream:{}", s.name), true, || detail("case"));
    }
    // BCJ2: every proper prefix of each of the four streams of a valid encoding must be an error
    for i in 0..(if thorough { 200 } else { 25 }) {
        let mut r = rng.fork();
        let len = r.range(1, 90) as usize;
        let mut data = r.bytes(len);
        for k in (0..len).step_by(3) {
            if r.chance(1, 2) {
                data[k] = *r.pick(&[0xE8u8, 0xE9, 0x0F]);
            }
        }
        let conv = r.chance(2, 3);
        let s = crate::bcj2::encode(&move |_| conv, &data);
        rep.count("fmt.bcj2");
        for which in 0..4 {
            for k in 0..s[which].len() {
                let mut m = s.clone();
                m[which].truncate(k);
                rep.evaluations += 1;
                match crate::bcj2::real_decode(&m, data.len() as u64, &[], &[4096]) {
                    Outcome::Err(..) => rep.count("trunc.err"),
                    Outcome::Ok(out) => rep.fail("truncation-accepted:bcj2", &format!("stream {} (0 = MAIN, 1 = CALL, 2 = JUMP, 3 = RC) cut to {k} of {} bytes: BCJ2Reader returned Ok with {} of {} bytes", which, s[which].len(), out.len(), data.len()),
                        json!({"format": "bcj2", "data_hex": hex(&data), "convert": conv, "stream": which, "cut": k, "case": i})),
                    Outcome::Panic(p) => rep.fail("truncation-panic:bcj2", &p, json!({"format": "bcj2", "data_hex": hex(&data), "stream": which, "cut": k})),
                }
            }
        }
        // short reads and Interrupted on each of the four input streams: the same bytes
        for (pieces, intr) in [(vec![], [2usize, 0, 0, 0]), (vec![3usize], [0, 2, 2, 0]), (vec![5], [0, 0, 0, 2]), (vec![1, 2, 3], [3, 2, 5, 2]), (vec![40], [2, 3, 3, 3])] {
            rep.evaluations += 1;
            match crate::bcj2::real_decode_intr(&s, data.len() as u64, &pieces, &[*r.pick(&[1usize, 7, 4096])], intr) {
                Outcome::Ok(out) if out == data => rep.count("bcj2.interrupted.same"),
                other => rep.fail("short-reads-change-result:bcj2:interrupted", &format!("BCJ2Reader over sources that report Interrupted (every k-th call of stream i, k = {:?}; pieces {:?}): {}", intr, pieces, match &other { Outcome::Ok(out) => format!("Ok with {} of {} bytes", out.len(), data.len()), o => o.describe() }),
                    json!({"format": "bcj2", "data_hex": hex(&data), "convert": conv, "interrupt_every": intr, "pieces": pieces, "case": i})),
            }
        }
        rep.case(format!("bcj2:{}", size_class(len)), true, || json!({"format": "bcj2", "data_hex": hex(&data), "convert": conv}));
    }
    // writers: short-writing sinks give the same bytes; sink errors are reported
    for i in 0..(if thorough { 400 } else { 60 }) {
        let mut r = rng.fork();
        let kind = *r.pick(&["text", "random", "mixed", "code"]);
        let dlen = r.range(1, 60000) as usize;
        let data = gen_data(&mut r, kind, dlen);
        let which = i % 7;
        let mut lz = gen_lzopts(&mut r, which != 0 && which != 3 && which != 6, 1 << 16, false);
        if which >= 5 {
            // MT writers: many small units so that the queue fills up (units are handed to the sink from
            // several places: while waiting for room in the queue, at flush and at finish)
            lz.dict = 4096;
            lz.preset = None;
            lz.nice = lz.nice.min(32);
        }
        let mt_len = r.range(40000, 140000) as usize;
        let data = if which >= 5 { gen_data(&mut r, kind, mt_len) } else { data };
        let mt_workers = r.range(1, 4) as u32;
        let xo = {
            let mut o = gen_xzopts(&mut r, 1 << 16, data.len());
            o.lz = lz.clone();
            if which == 4 && o.filters.is_empty() {
                o.filters = vec![(*r.pick(&[3u8, 4, 7, 10]), 0)];
                if o.filters[0].0 == 3 {
                    o.filters[0].1 = 5;
                }
            }
            o
        };
        let name = ["lzma", "lzma2", "xz", "lzip", "xz-filters", "lzma2-mt", "lzip-mt"][which as usize];
        let run_with = |sink: FaultWriter| -> (Outcome<Vec<u8>>, usize) {
            let mut calls = 0usize;
            let o = guard(|| {
                let (out, c) = match which {
                    0 => {
                        let mut w = LZMAWriter::new_use_header(sink, &lz.to_opts(), None)?;
                        w.write_all(&data)?;
                        let s = w.finish()?;
                        (s.out, s.calls)
                    }
                    1 => {
                        let mut w = LZMA2Writer::new(sink, LZMA2Options { lzma_options: lz.to_opts(), chunk_size: None });
                        w.write_all(&data)?;
                        let s = w.finish()?;
                        (s.out, s.calls)
                    }
                    2 | 4 => {
                        let mut w = XZWriter::new(sink, xo.to_opts())?;
                        w.write_all(&data)?;
                        let s = w.finish()?;
                        (s.out, s.calls)
                    }
                    5 => {
                        let mut o = LZMA2Options { lzma_options: lz.to_opts(), chunk_size: None };
                        o.set_chunk_size(std::num::NonZeroU64::new(4096));
                        let mut w = LZMA2WriterMT::new(sink, o, mt_workers)?;
                        w.write_all(&data)?;
                        let s = w.finish()?;
                        (s.out, s.calls)
                    }
                    6 => {
                        let mut o = LZIPOptions { lzma_options: lz.to_opts(), member_size: None };
                        o.set_member_size(std::num::NonZeroU64::new(4096));
                        let mut w = LZIPWriterMT::new(sink, o, mt_workers)?;
                        w.write_all(&data)?;
                        let s = w.finish()?;
                        (s.out, s.calls)
                    }
                    _ => {
                        let mut w = LZIPWriter::new(sink, LZIPOptions { lzma_options: lz.to_opts(), member_size: None });
                        w.write_all(&data)?;
                        let s = w.finish()?;
                        (s.out, s.calls)
                    }
                };
                calls = c;
                Ok(out)
            });
            (o, calls)
        };
        let detail = |what: &str| json!({"writer": name, "data_len": data.len(), "data_kind": kind, "fault": what, "opts": lz.json(), "filters": xo.filters, "case": i});
        let (base, ncalls) = run_with(FaultWriter { out: vec![], script: vec![], calls: 0, fail_at: None });
        let base = match base {
            Outcome::Ok(b) => b,
            other => {
                rep.fail(&format!("writer-failed:{name}"), &other.describe(), detail("none"));
                continue;
            }
        };
        rep.count(&format!("writer.{name}"));
        let script: Vec<Act> = (0..200000).map(|_| match r.below(8) { 0 => Act::Interrupted, 1..=4 => Act::Max(r.range(1, 9) as usize), _ => Act::Max(r.range(1, 3000) as usize) }).collect();
        let (o, _) = run_with(FaultWriter { out: vec![], script, calls: 0, fail_at: None });
        rep.evaluations += 1;
        match &o {
            Outcome::Ok(b) if b == &base => {}
            Outcome::Ok(_) => rep.fail(&format!("short-writes-change-output:{name}"), "a sink that accepts short writes / reports Interrupted received different bytes", detail("short writes")),
            other => rep.fail(&format!("short-writes-{}:{name}", other.class()), &other.describe(), detail("short writes")),
        }
        for _ in 0..4 {
            if ncalls == 0 {
                break;
            }
            let j = r.below(ncalls as u64) as usize;
            let (o, _) = run_with(FaultWriter { out: vec![], script: vec![], calls: 0, fail_at: Some((j, ErrorKind::StorageFull)) });
            rep.evaluations += 1;
            match &o {
                Outcome::Err(ErrorKind::StorageFull, _) => {}
                other => rep.fail(&format!("sink-error-not-reported:{name}"), &format!("sink failed at write call {j} of {ncalls}; writer returned {}", other.describe()), detail(&format!("sinkerror@{j}"))),
            }
        }
        rep.case(format!("writer:{name}:{kind}:{}", size_class(data.len())), true, || detail("case"));
    }
}
