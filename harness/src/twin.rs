//! Correspondence for the models of the unsafe fast paths (`Model/Twins.lean`, properties C14 / C15) and of the
//! match finders (`Model/Hc4.lean`, `Model/Bt4.lean`, property C01): the real functions are called through the
//! verification hooks on generated arguments, the Lean driver answers the same requests.
use crate::codec::dict_class;
use crate::util::*;
use lzma_rust2::verif_hooks as hooks;
use serde_json::json;

/// `lz::extend_match` (the twin selected by the build's features) against `Twins.extendMatchOptT` / `extendMatchPortable`
fn extend_cases(rep: &mut Report, rng: &mut Rng, n: u64) {
    for i in 0..n {
        let mut r = rng.fork();
        // buffers with a lot of repetition so that matches of every length occur; sizes around word multiples
        let size = match i % 4 {
            0 => r.range(2, 40) as usize,
            1 => r.range(2, 300) as usize,
            2 => 64 + r.range(0, 17) as usize,
            _ => r.range(2, 2000) as usize,
        };
        let period = r.range(1, 24) as usize;
        let base = r.bytes(period);
        let mut buf: Vec<u8> = (0..size).map(|k| base[k % period]).collect();
        // break the periodicity at a few places (mismatch positions inside / at the end of words)
        for _ in 0..r.below(4) {
            let p = r.below(size as u64) as usize;
            buf[p] ^= 1 << r.below(8);
        }
        // contract: 1 <= distance <= read_pos + current_len, current_len <= limit, read_pos + limit <= buf.len()
        let read_pos = r.below(size as u64) as usize;
        let max_limit = size - read_pos;
        let limit = match r.below(3) {
            0 => max_limit, // touches the physical end of the buffer
            _ => r.range(0, max_limit as u64) as usize,
        };
        let cur = r.range(0, limit as u64) as usize;
        if read_pos + cur == 0 {
            continue;
        }
        let dist = match r.below(3) {
            0 => period.min(read_pos + cur).max(1),
            1 => 1,
            _ => r.range(1, (read_pos + cur) as u64) as usize,
        };
        let got = hooks::lz_extend_match(&buf, read_pos as i32, cur as i32, dist as i32, limit as i32);
        // specification: byte-wise extension
        let mut want = cur;
        while want < limit && buf[read_pos + want] == buf[read_pos + want - dist] {
            want += 1;
        }
        let detail = || json!({"fn": "extend_match", "buf": hex(&buf), "read_pos": read_pos, "current_len": cur, "distance": dist, "limit": limit});
        if got as usize != want {
            rep.fail("twin-extend-match-wrong", &format!("extend_match returned {got}, the byte-wise extension is {want}"), detail());
        }
        rep.model(format!("twin.extend buf={} rp={read_pos} cl={cur} dist={dist} limit={limit}", hex(&buf)), format!("ok {got}"));
        rep.count("twin.extend");
        rep.case(format!("extend:{}:{}:{}", size.min(70), (limit - cur).min(20), (read_pos + limit == size) as u8), true, || detail());
    }
}

/// `LZEncoder::normalize` (AVX2 / SSE4.1 / NEON chosen at run time, scalar otherwise) against `Twins.normalizeScalar`
fn normalize_cases(rep: &mut Report, rng: &mut Rng, n: u64) {
    for i in 0..n {
        let mut r = rng.fork();
        let len = match i % 3 {
            0 => r.range(0, 20) as usize,
            1 => r.range(0, 80) as usize,
            _ => 8 * r.range(0, 9) as usize + r.below(2) as usize,
        };
        let off: i32 = match r.below(4) {
            0 => 0x7FFF_FFFF - (r.range(1, 1 << 20) as i32 + 1),
            1 => r.range(0, 1000) as i32,
            2 => 0x7FFF_FFFF - 4097,
            _ => r.range(0, 0x7FFF_FFFE) as i32,
        };
        let mut vals: Vec<i32> = (0..len)
            .map(|_| match r.below(6) {
                0 => 0,
                1 => off,
                2 => off.wrapping_add(r.range(0, 5000) as i32).max(0),
                3 => (off - r.range(0, 5000) as i32).max(0),
                4 => 0x7FFF_FFFF,
                _ => r.range(0, 0x7FFF_FFFF) as i32,
            })
            .collect();
        let before = vals.clone();
        hooks::lz_normalize(&mut vals, off);
        let want: Vec<i32> = before.iter().map(|&p| p.max(off).wrapping_sub(off)).collect();
        let detail = || json!({"fn": "normalize", "offset": off, "values": before});
        if vals != want {
            rep.fail("twin-normalize-wrong", "LZEncoder::normalize differs from max(p, off) - off", detail());
        }
        let u = |v: &[i32]| if v.is_empty() { "-".to_string() } else { v.iter().map(|x| (*x as u32).to_string()).collect::<Vec<_>>().join(",") };
        rep.model(format!("twin.norm off={} vals={}", off as u32, u(&before)), format!("ok {}", if vals.is_empty() { String::new() } else { u(&vals) }).trim_end().to_string());
        rep.count("twin.norm");
        rep.case(format!("norm:{}:{}", len.min(40), r.below(4)), len > 0, || detail());
    }
}

pub fn run_twins(rep: &mut Report, rng: &mut Rng, thorough: bool) {
    extend_cases(rep, &mut rng.fork(), if thorough { 30_000 } else { 3_000 });
    normalize_cases(rep, &mut rng.fork(), if thorough { 6_000 } else { 600 });
}

/// trace string of the match finder as the driver's `mf.trace` builds it
pub fn trace_string(t: &[(u32, Vec<(u32, i32)>)]) -> (usize, usize, String) {
    let mut s = String::new();
    let mut nm = 0;
    for (pos, ms) in t {
        s.push_str(&format!("{pos}:"));
        s.push_str(&ms.iter().map(|(l, d)| format!("{l}/{d}")).collect::<Vec<_>>().join(","));
        s.push(';');
        nm += ms.len();
    }
    (t.len(), nm, s)
}

/// data kinds for the match finders
fn mf_data(r: &mut Rng, kind: u64, dict: usize, len: usize) -> Vec<u8> {
    match kind % 7 {
        0 => r.bytes(len),
        1 => vec![r.next() as u8; len],
        2 => gen_data(r, "text", len),
        3 => {
            // period dict-1 .. dict+2
            let p = (dict as i64 + r.range(0, 3) as i64 - 1).max(1) as usize;
            let base = r.bytes(p);
            (0..len).map(|k| base[k % p]).collect()
        }
        4 => gen_data(r, "mixed", len),
        5 => crate::c01::far_repeat_data(r, dict.max(64), len.max(dict + 65)),
        _ => {
            // few distinct symbols: long hash chains / deep trees
            (0..len).map(|_| b"ab"[(r.below(7) == 0) as usize]).collect()
        }
    }
}

/// HC4 / BT4 through the hook `mf_trace` against the Lean models (`mf.trace`, with `check=1`: every match the real
/// finder reports is validated by the model's `validMatchB`)
pub fn run_mf(rep: &mut Report, rng: &mut Rng, thorough: bool, sweep: bool) {
    let n = if thorough { 600 } else if sweep { 200 } else { 60 };
    for i in 0..n {
        let mut r = rng.fork();
        let bt4 = i % 2 == 1;
        let dict: u32 = *r.pick(&[4096u32, 4096, 4097, 5000, 8192, 65536]);
        let nice: u32 = *r.pick(&[8u32, 16, 32, 64, 273]);
        let depth: i32 = *r.pick(&[0i32, 0, 1, 4, 48]);
        let normal = r.chance(1, 2);
        let (eb, ea) = if normal { (4096u32, 4096u32) } else { (1, 272) };
        let len = match r.below(6) {
            0 => r.range(0, 6) as usize,
            1 => r.range(6, 600) as usize,
            2 | 3 => r.range(600, 20_000) as usize,
            4 => dict as usize * 2 + r.range(0, 3000) as usize,
            _ => if thorough || sweep { r.range(270_000, 330_000) as usize } else { r.range(20_000, 60_000) as usize },
        };
        let kind = r.below(7);
        let data = mf_data(&mut r, kind, dict as usize, len);
        // script: like the encoders (find, then skip len-1 of some reported or shorter length), or finds only, or random
        let style = r.below(3);
        let mut script: Vec<u32> = Vec::new();
        let mut covered = 0usize;
        while covered < data.len() + 2 && script.len() < 400_000 {
            match style {
                0 => { script.push(0); covered += 1; }
                _ => {
                    script.push(0);
                    covered += 1;
                    if r.chance(1, 2) {
                        let k = if style == 1 { r.range(1, 20) } else { r.range(1, 272) } as u32;
                        script.push(k);
                        covered += k as usize;
                    }
                }
            }
        }
        let trace = hooks::mf_trace(bt4, dict, eb, ea, nice, 273, depth, &data, &script);
        let (nf, nm, s) = trace_string(&trace);
        // oracle on the real trace: every reported match is a repetition inside the dictionary, lengths increase
        let mut bad = None;
        for (pos, ms) in &trace {
            let p = *pos as usize;
            let limit = 273usize.min(data.len().saturating_sub(p));
            let mut prev = 0u32;
            if ms.len() > nice as usize - 1 {
                bad = Some(format!("{} matches at position {p} exceed the capacity nice_len - 1 = {}", ms.len(), nice - 1));
            }
            for &(l, d) in ms {
                let (l, d1) = (l as usize, d as i64 + 1);
                if l < 2 || l > limit || d1 < 1 || d1 as usize > p || d1 as usize > dict as usize || l as u32 <= prev {
                    bad = Some(format!("match (len {l}, dist {d}) at position {p} is out of range (limit {limit}, dict {dict}, previous len {prev})"));
                    break;
                }
                if (0..l).any(|k| data[p + k] != data[p + k - d1 as usize]) {
                    bad = Some(format!("match (len {l}, dist {d}) at position {p} is not a repetition"));
                    break;
                }
                prev = l as u32;
            }
            if bad.is_some() {
                break;
            }
        }
        let detail = || json!({"match_finder": if bt4 { "bt4" } else { "hc4" }, "dict": dict, "nice_len": nice, "depth_limit": depth, "mode": if normal { "normal" } else { "fast" }, "data_kind": kind, "data_len": data.len(), "data_fnv": fnv(&data), "script_style": style, "data_hex": if data.len() <= 300 { hex(&data) } else { String::new() }});
        if let Some(b) = bad {
            rep.fail(&format!("mf-invalid-match:{}", if bt4 { "bt4" } else { "hc4" }), &b, detail());
        }
        rep.count(&format!("mf.{}", if bt4 { "bt4" } else { "hc4" }));
        rep.count(&format!("mf.kind{kind}"));
        let sc = if script.is_empty() { "-".to_string() } else { script.iter().map(|x| x.to_string()).collect::<Vec<_>>().join(",") };
        if data.len() <= if thorough { 340_000 } else { 70_000 } {
            rep.model(
                format!("mf.trace kind={} dict={dict} nice={nice} depth={} mlmax=273 data={} script={sc} check=1", if bt4 { "bt4" } else { "hc4" }, depth.max(0), hex(&data)),
                format!("ok {nf} {nm} {} 1", fnv(s.as_bytes())),
            );
        }
        rep.case(format!("mf:{}:{}:{}:{}:{}", bt4 as u8, dict_class(dict), nice, kind, size_class(data.len())), !data.is_empty(), || detail());
    }
}

/// The whole fast-mode encoder (match finder + parser + range coder) as modelled in `Model/EncFast.lean` against the
/// real `LZMAWriter::new_no_header(.., false)`: the model must produce the SAME BYTES (request `encfast.parse …
/// enc=1 bytesonly=1`), for HC4 (the theorem `fast_roundtrip_generated` covers it) and BT4 (model only).
pub fn run_encfast(rep: &mut Report, rng: &mut Rng, thorough: bool, sweep: bool) {
    let n = if thorough { 500 } else if sweep { 150 } else { 50 };
    for i in 0..n {
        let mut r = rng.fork();
        let bt4 = i % 3 == 2;
        let dict: u32 = *r.pick(&[4096u32, 4096, 5000, 8192, 65536]);
        let nice: u32 = *r.pick(&[8u32, 16, 32, 64, 273]);
        let depth: i32 = *r.pick(&[0i32, 0, 1, 48]);
        let (lc, lp, pb) = *r.pick(&[(3u32, 0u32, 2u32), (0, 0, 0), (4, 0, 4), (0, 4, 2), (8, 4, 4), (1, 3, 1)]);
        let len = match r.below(6) {
            0 => r.range(0, 6) as usize,
            1 => r.range(6, 600) as usize,
            2 | 3 => r.range(600, 20_000) as usize,
            4 => dict as usize * 2 + r.range(0, 3000) as usize,
            _ => if thorough || sweep { r.range(270_000, 320_000) as usize } else { r.range(20_000, 60_000) as usize },
        };
        let kind = r.below(7);
        let data = mf_data(&mut r, kind, dict as usize, len);
        let lz = crate::codec::LzOpts { dict, lc, lp, pb, normal: false, nice, bt4, depth, preset: None };
        let (_, parts) = gen_partition(&mut r, data.len());
        let detail = || json!({"stratum": "encfast", "opts": lz.json(), "data_kind": kind, "data_len": data.len(), "data_fnv": fnv(&data), "data_hex": if data.len() <= 300 { hex(&data) } else { String::new() }});
        rep.count(&format!("encfast.{}", if bt4 { "bt4" } else { "hc4" }));
        match crate::codec::lzma_compress(&data, &lz, crate::codec::LzmaFmt::RawSize, &parts) {
            Outcome::Ok(c) => {
                if data.len() <= if thorough { 330_000 } else { 70_000 } {
                    rep.model(
                        format!("encfast.parse kind={} dict={dict} lc={lc} lp={lp} pb={pb} nice={nice} depth={} data={} enc=1 bytesonly=1", if bt4 { "bt4" } else { "hc4" }, depth.max(0), hex(&data)),
                        format!("ok {} {}", c.len(), fnv(&c)),
                    );
                }
            }
            other => rep.fail(&format!("lzma-write-{}", other.class()), &other.describe(), detail()),
        }
        rep.case(format!("encfast:{}:{}:{}:{}:{}", bt4 as u8, dict_class(dict), nice, kind, size_class(data.len())), !data.is_empty(), || detail());
    }
}

/// The whole NORMAL-mode encoder (match finder + optimal parser with its price tables and probability models + range
/// coder) as modelled in `Model/EncNormal.lean` / `Model/EncPrices.lean` against the real
/// `LZMAWriter::new_no_header(.., false)` in `EncodeMode::Normal`: the model must produce the SAME BYTES (request
/// `encnormal.parse … enc=1 bytesonly=1`; the driver also runs `parseRun` on the model's parse on every request), over
/// HC4 and BT4, every lc/lp/pb class, dictionary sizes from 4096, nice_len 8..273, depth limits, random write partitions.
/// `n` cases; `max_len` bounds the input size (the optimal parser does much more work per byte than the fast one).
pub fn run_encnormal(rep: &mut Report, rng: &mut Rng, n: u64, max_len: usize) {
    for i in 0..n {
        let mut r = rng.fork();
        let bt4 = i % 2 == 1;
        let dict: u32 = *r.pick(&[4096u32, 4096, 4097, 5000, 8192, 65536, 1 << 20]);
        let nice: u32 = *r.pick(&[8u32, 9, 16, 17, 32, 64, 128, 272, 273]);
        let depth: i32 = *r.pick(&[0i32, 0, 1, 4, 48]);
        let (lc, lp, pb) = *r.pick(&[(3u32, 0u32, 2u32), (3, 0, 2), (0, 0, 0), (4, 0, 4), (0, 4, 2), (8, 4, 4), (1, 3, 1), (2, 2, 3), (0, 2, 0)]);
        let len = match r.below(8) {
            0 => r.range(0, 6) as usize,
            1 => r.range(6, 600) as usize,
            2 | 3 => r.range(600, 6_000) as usize,
            4 => (dict as usize).min(70_000) * 2 + r.range(0, 3000) as usize,
            5 => r.range(4000, 4200) as usize,
            _ => r.range(6_000, 40_000) as usize,
        }.min(max_len);
        let kind = r.below(7);
        let mut data = mf_data(&mut r, kind, dict as usize, len);
        // far-repeat data needs more than a dictionary's worth of input; allowed where that stays within 8x the budget
        data.truncate(if dict as usize + 600 <= 8 * max_len { max_len.max(dict as usize + 600) } else { max_len });
        let lz = crate::codec::LzOpts { dict, lc, lp, pb, normal: true, nice, bt4, depth, preset: None };
        let (_, parts) = gen_partition(&mut r, data.len());
        let detail = || json!({"stratum": "encnormal", "opts": lz.json(), "data_kind": kind, "data_len": data.len(), "data_fnv": fnv(&data), "data_hex": if data.len() <= 300 { hex(&data) } else { String::new() }});
        rep.count(&format!("encnormal.{}", if bt4 { "bt4" } else { "hc4" }));
        match crate::codec::lzma_compress(&data, &lz, crate::codec::LzmaFmt::RawSize, &parts) {
            Outcome::Ok(c) => {
                rep.model(
                    format!("encnormal.parse kind={} dict={dict} lc={lc} lp={lp} pb={pb} nice={nice} depth={} data={} enc=1 bytesonly=1", if bt4 { "bt4" } else { "hc4" }, depth.max(0), hex(&data)),
                    format!("ok {} {}", c.len(), fnv(&c)),
                );
            }
            other => rep.fail(&format!("lzma-write-{}", other.class()), &other.describe(), detail()),
        }
        rep.case(format!("encnormal:{}:{}:{}:{}:{}", bt4 as u8, dict_class(dict), nice, kind, size_class(data.len())), !data.is_empty(), || detail());
    }
}
