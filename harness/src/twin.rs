//! Correspondence for the models of the unsafe fast paths (`Model/Twins.lean`, properties C14 / C15) and of the
//! match finders (`Model/Hc4.lean`, `Model/Bt4.lean`, property C01): the real functions are called through the
//! verification hooks on generated arguments, the Lean driver answers the same requests.
use crate::codec::dict_class;
use crate::util::*;
use lzma_rust2::verif_hooks as hooks;
use serde_json::json;

/// `lz::extend_match` (the twin selected by the build's features) against `Twins.extendMatchOptT` / `extendMatchPortable`
fn extend_cases(rep: &mut Report, rng: &mut Rng, n: u64) {
    for i in 0..n {
        let mut r = rng.fork();
        // buffers with a lot of repetition so that matches of every length occur; sizes around word multiples
        let size = match i % 4 {
            0 => r.range(2, 40) as usize,
            1 => r.range(2, 300) as usize,
            2 => 64 + r.range(0, 17) as usize,
            _ => r.range(2, 2000) as usize,
        };
        let period = r.range(1, 24) as usize;
        let base = r.bytes(period);
        let mut buf: Vec<u8> = (0..size).map(|k| base[k % period]).collect();
        // break the periodicity at a few places (mismatch positions inside / at the end of words)
        for _ in 0..r.below(4) {
            let p = r.below(size as u64) as usize;
            buf[p] ^= 1 << r.below(8);
        }
        // contract: 1 <= distance <= read_pos + current_len, current_len <= limit, read_pos + limit <= buf.len()
        let read_pos = r.below(size as u64) as usize;
        let max_limit = size - read_pos;
        let limit = match r.below(3) {
            0 => max_limit, // touches the physical end of the buffer
            _ => r.range(0, max_limit as u64) as usize,
        };
        let cur = r.range(0, limit as u64) as usize;
        if read_pos + cur == 0 {
            continue;
        }
        let dist = match r.below(3) {
            0 => period.min(read_pos + cur).max(1),
            1 => 1,
            _ => r.range(1, (read_pos + cur) as u64) as usize,
        };
        let got = hooks::lz_extend_match(&buf, read_pos as i32, cur as i32, dist as i32, limit as i32);
        // specification: byte-wise extension
        let mut want = cur;
        while want < limit && buf[read_pos + want] == buf[read_pos + want - dist] {
            want += 1;
        }
        let detail = || json!({"fn": "extend_match", "buf": hex(&buf), "read_pos": read_pos, "current_len": cur, "distance": dist, "limit": limit});
        if got as usize != want {
            rep.fail("twin-extend-match-wrong", &format!("extend_match returned {got}, the byte-wise extension is {want}"), detail());
        }
        rep.model(format!("twin.extend buf={} rp={read_pos} cl={cur} dist={dist} limit={limit}", hex(&buf)), format!("ok {got}"));
        rep.count("twin.extend");
        rep.case(format!("extend:{}:{}:{}", size.min(70), (limit - cur).min(20), (read_pos + limit == size) as u8), true, || detail());
    }
}

/// `LZEncoder::normalize` (AVX2 / SSE4.1 / NEON chosen at run time, scalar otherwise) against `Twins.normalizeScalar`
fn normalize_cases(rep: &mut Report, rng: &mut Rng, n: u64) {
    for i in 0..n {
        let mut r = rng.fork();
        let len = match i % 3 {
            0 => r.range(0, 20) as usize,
            1 => r.range(0, 80) as usize,
            _ => 8 * r.range(0, 9) as usize + r.below(2) as usize,
        };
        let off: i32 = match r.below(4) {
            0 => 0x7FFF_FFFF - (r.range(1, 1 << 20) as i32 + 1),
            1 => r.range(0, 1000) as i32,
            2 => 0x7FFF_FFFF - 4097,
            _ => r.range(0, 0x7FFF_FFFE) as i32,
        };
        let mut vals: Vec<i32> = (0..len)
            .map(|_| match r.below(6) {
                0 => 0,
                1 => off,
                2 => off.wrapping_add(r.range(0, 5000) as i32).max(0),
                3 => (off - r.range(0, 5000) as i32).max(0),
                4 => 0x7FFF_FFFF,
                _ => r.range(0, 0x7FFF_FFFF) as i32,
            })
            .collect();
        let before = vals.clone();
        hooks::lz_normalize(&mut vals, off);
        let want: Vec<i32> = before.iter().map(|&p| p.max(off).wrapping_sub(off)).collect();
        let detail = || json!({"fn": "normalize", "offset": off, "values": before});
        if vals != want {
            rep.fail("twin-normalize-wrong", "LZEncoder::normalize differs from max(p, off) - off", detail());
        }
        let u = |v: &[i32]| if v.is_empty() { "-".to_string() } else { v.iter().map(|x| (*x as u32).to_string()).collect::<Vec<_>>().join(",") };
        rep.model(format!("twin.norm off={} vals={}", off as u32, u(&before)), format!("ok {}", if vals.is_empty() { String::new() } else { u(&vals) }).trim_end().to_string());
        rep.count("twin.norm");
        rep.case(format!("norm:{}:{}", len.min(40), r.below(4)), len > 0, || detail());
    }
}

/// byte-wise semantics of `get_match_len_fast_reject` (what the portable twin computes when it does not panic)
fn reject_spec(buf: &[u8], rp: usize, md: usize, limit: usize) -> usize {
    if buf[rp] != buf[rp - md] || buf[rp + 1] != buf[rp + 1 - md] {
        return 0;
    }
    let mut len = 2;
    while len < limit && buf[rp + len] == buf[rp + len - md] {
        len += 1;
    }
    len
}

/// `LZEncoderData::get_match_len_fast_reject` (the twin selected by the build's features: in the default build the
/// clamped u16 reads + the optimized `extend_match`) against `Twins.matchLenFastRejectOptT` / `…Portable`.
/// Boundary heavy: `read_pos` on the last / last but one byte of the physical buffer (the clamp engages), length limits
/// 0 / 1 / 2 / exactly up to the physical end / beyond it, buffers of 2..4 bytes.
fn reject_cases(rep: &mut Report, rng: &mut Rng, n: u64) {
    let optimized = true; // `vh` links the crate with its default features (`optimization` on)
    for i in 0..n {
        let mut r = rng.fork();
        let size = match i % 5 {
            0 => r.range(2, 6) as usize,
            1 => r.range(2, 40) as usize,
            2 => r.range(2, 300) as usize,
            3 => 64 + r.range(0, 17) as usize,
            _ => r.range(2, 2000) as usize,
        };
        let period = r.range(1, 24) as usize;
        let base = r.bytes(period);
        let mut buf: Vec<u8> = (0..size).map(|k| base[k % period]).collect();
        for _ in 0..r.below(4) {
            let p = r.below(size as u64) as usize;
            buf[p] ^= 1 << r.below(8);
        }
        // 1 <= match_dist <= read_pos < size
        let rp = match r.below(6) {
            0 => size - 1, // the u16 read at read_pos would leave the buffer: clamped
            1 | 2 => size.saturating_sub(2).max(1),
            3 => size.saturating_sub(3).max(1),
            _ => r.range(1, size as u64 - 1) as usize,
        };
        let md = match r.below(4) {
            0 | 1 => period.min(rp),
            2 => 1,
            _ => r.range(1, rp as u64) as usize,
        };
        let room = size - rp;
        let limit = match r.below(8) {
            0 => 0,
            1 => 1,
            2 => 2,
            3 | 4 => room,
            5 => room + r.range(1, 300) as usize, // beyond the physical end: only the optimized twin clamps
            _ => r.range(0, room as u64) as usize,
        };
        // verdict of the clamped reads (only to steer clear of `get_unchecked(size + 1..)`, see below)
        let lim = size - 2;
        let (c0, c1) = (rp.min(lim), (rp - md).min(lim));
        let passes = buf[c0..c0 + 2] == buf[c1..c1 + 2];
        let in_contract = rp + 2 <= size && limit >= 2 && limit <= room;
        let detail = || json!({"fn": "get_match_len_fast_reject", "buf": hex(&buf), "read_pos": rp, "dist": md - 1, "len_limit": limit});
        if rp + 2 > size && passes {
            // `extend_match(buf, read_pos, 2, ..)` would form `get_unchecked(size + 1..size + 1)`: library UB (abort under
            // debug assertions) although nothing is read. Unreachable from the encoder (it needs avail >= 2).
            rep.count("twin.reject.skipped-start-past-end");
            continue;
        }
        if !optimized && !(rp + 2 <= size && rp + limit.max(2) <= size) {
            continue;
        }
        let got = match std::panic::catch_unwind(|| hooks::lz_match_len_fast_reject(&buf, rp as i32, md as i32 - 1, limit as i32)) {
            Ok(v) => v,
            Err(_) => {
                rep.fail("twin-fast-reject-panic", "get_match_len_fast_reject panicked inside the optimized twin's domain", detail());
                continue;
            }
        };
        if in_contract {
            let want = reject_spec(&buf, rp, md, limit);
            if got != want {
                rep.fail("twin-fast-reject-wrong", &format!("get_match_len_fast_reject returned {got}, the byte-wise answer is {want}"), detail());
            }
            rep.count("twin.reject.in-contract");
        } else {
            rep.count("twin.reject.outside-contract");
        }
        if rp + 2 > size {
            rep.count("twin.reject.clamped");
        }
        rep.model(format!("twin.reject buf={} rp={rp} dist={} limit={limit}", hex(&buf), md - 1), format!("ok {got}"));
        rep.count("twin.reject");
        rep.case(format!("reject:{}:{}:{}:{}:{}", size.min(70), room.min(4), limit.min(3), (limit > room) as u8, got.min(10)), true, || detail());
    }
}

/// The same on a window allocated by `LZEncoder::new` (its `buf_size` and `buf_limit_u16`): the bytes sit at the
/// physical end of the zeroed buffer.
fn reject_window_cases(rep: &mut Report, rng: &mut Rng, n: u64) {
    for _ in 0..n {
        let mut r = rng.fork();
        let dict: u32 = *r.pick(&[4096u32, 5000, 65536]);
        let eb: u32 = *r.pick(&[0u32, 1, 4096]);
        let ea: u32 = *r.pick(&[0u32, 272, 4096]);
        let tl = r.range(4, 48) as usize;
        let period = r.range(1, 6) as usize;
        let base = r.bytes(period);
        let mut tail: Vec<u8> = (0..tl).map(|k| base[k % period]).collect();
        if r.chance(1, 2) {
            let p = r.below(tl as u64) as usize;
            tail[p] ^= 1 << r.below(8);
        }
        let back = match r.below(4) {
            0 => 1,
            1 => 2,
            _ => r.range(2, tl as u64 - 1) as usize,
        };
        let md = if r.chance(1, 2) { period.min(tl - back) } else { r.range(1, (tl - back) as u64) as usize };
        let limit = match r.below(3) {
            0 => back,
            1 => 2,
            _ => r.range(0, back as u64) as usize,
        };
        if back < 2 {
            // clamped read: only when it rejects (see `reject_cases`)
            // (also for a clamp that is off by one, so that such a defect is reported by value and not by an abort)
            let passes = |lim: usize| tail[(tl - 1).min(lim)..][..2] == tail[(tl - back - md).min(lim)..][..2];
            if passes(tl - 2) || passes(tl - 3) {
                rep.count("twin.reject.skipped-start-past-end");
                continue;
            }
        }
        let (size, lim, got) = hooks::lz_window_fast_reject(dict, eb, ea, 273, &tail, back, md as i32 - 1, limit as i32);
        let detail = || json!({"fn": "get_match_len_fast_reject", "window": "LZEncoder::new", "dict": dict, "extra_before": eb, "extra_after": ea, "buf_size": size, "buf_limit_u16": lim, "tail": hex(&tail), "back": back, "dist": md - 1, "len_limit": limit});
        if lim + 2 != size {
            rep.fail("twin-buf-limit-u16", &format!("LZEncoder::new computed buf_limit_u16 = {lim} for buf_size = {size}"), detail());
        }
        rep.model(format!("twin.reject zeros={} buf={} rp={} dist={} limit={limit} lim=1", size - tl, hex(&tail), size - back, md - 1), format!("ok {got} {lim}"));
        rep.count("twin.reject.window");
        rep.case(format!("reject-window:{dict}:{eb}:{ea}:{}:{}", back.min(3), limit.min(3)), true, || detail());
    }
}

/// the loop of the source before its restructuring (kept there as a comment): `count` times normalize once, halve
fn direct_spec(buf: &[u8], mut pos: usize, mut range: u32, mut code: u32, count: u32) -> (u32, u32, u32, usize) {
    let mut result = 0u32;
    for _ in 0..count {
        if range < 0x0100_0000 {
            code = (code << 8) | buf.get(pos).copied().unwrap_or(0) as u32;
            range <<= 8;
            pos += 1;
        }
        range >>= 1;
        let t = code.wrapping_sub(range) >> 31;
        code = code.wrapping_sub(range & t.wrapping_sub(1));
        result = (result << 1) | (1 - t);
    }
    (result, range, code, pos)
}

/// `RangeDecoder::decode_direct_bits` from explicit states: the buffer decoder as the default build dispatches it
/// (x86-64 assembly when `count > 0 && pos + count <= buf.len()`, else the portable loop) and the portable loop alone
/// (a reader that is not a buffer), against `Twins.directBitsOpt` / `Twins.directPortable`.  States: counts 0..32 (and
/// a few beyond), positions such that the buffer ends before / inside / after the run or is already overrun, ranges
/// at the extremes (1, 2^8, 2^16 ± 1, 2^24 ± 1, 2^31, 2^32 - 1, and 0 for the assembly), codes below / equal to / above
/// the range as corrupt streams produce them.
fn direct_cases(rep: &mut Report, rng: &mut Rng, n: u64) {
    for i in 0..n {
        let mut r = rng.fork();
        let len = match i % 6 {
            0 => r.range(0, 2) as usize,
            1 => r.range(1, 5) as usize,
            2 => r.range(3, 12) as usize,
            _ => r.range(8, 64) as usize,
        };
        let mut buf = r.bytes(len);
        if len > 0 && r.chance(1, 3) {
            buf[len - 1] = *r.pick(&[0u8, 0xFF, 0x80, 1]);
        }
        let count = match r.below(10) {
            0 => 0,
            1 => 1,
            2 => 32,
            3 => r.range(33, 40) as u32,
            4 => r.range(26, 31) as u32,
            _ => r.range(1, 26) as u32,
        };
        // position relative to the end of the buffer
        let pos = match r.below(11) {
            0 => 0,
            1 => len,
            2 => len + r.range(1, 6) as usize,
            3 | 4 => len.saturating_sub(count as usize),    // guard holds with equality
            5 => (len + 1).saturating_sub(count as usize),  // guard fails by one
            6 => len.saturating_sub(1),
            7 | 8 => r.below((len as u64 + 1).saturating_sub(count as u64).max(1)) as usize, // run inside the buffer
            _ => r.below(len as u64 + 1) as usize,
        };
        let range: u32 = match r.below(16) {
            0 => 0xFFFF_FFFF,
            1 => 0x0100_0000,
            2 => 0x00FF_FFFF,
            3 => 0x0001_0000,
            4 => *r.pick(&[0xFFFFu32, 0x100, 0xFF, 1, 0x8000]),
            5 => 0x8000_0000,
            6 => 0x7FFF_FFFF,
            7 => 0,
            8 | 9 => r.range(0x0001_0000, 0x00FF_FFFF) as u32,
            10 => r.range(1, 0xFFFF) as u32,
            _ => r.range(0x0100_0000, 0xFFFF_FFFF) as u32,
        };
        let code: u32 = match r.below(8) {
            0 => range,
            1 => range.wrapping_sub(1),
            2 => 0xFFFF_FFFF,
            3 => 0,
            4 => r.next() as u32,
            5 => 0x8000_0000u32.wrapping_add(r.below(3) as u32).wrapping_sub(1),
            _ => r.below(range.max(1) as u64) as u32,
        };
        let guard_holds = count > 0 && pos + count as usize <= len;
        let detail = || json!({"fn": "decode_direct_bits", "buf": hex(&buf), "pos": pos, "range": range, "code": code, "count": count});
        let args = format!("buf={} pos={pos} range={range} code={code} count={count}", hex(&buf));
        let show = |t: (u32, u32, u32, usize)| format!("ok {} {} {} {}", t.0, t.1, t.2, t.3);
        // with range = 0 the portable loop never terminates (it normalizes until range >= 2^24); the decoder never
        // holds that state once `prepare` has run
        let mut call = |portable: bool| match std::panic::catch_unwind(|| hooks::rc_decode_direct_bits(&buf, pos, range, code, count, portable)) {
            Ok(t) => Some(t),
            Err(_) => {
                rep.fail("twin-direct-bits-panic", &format!("decode_direct_bits panicked ({})", if portable { "portable loop" } else { "buffer decoder" }), detail());
                None
            }
        };
        let portable = if range != 0 { call(true) } else { None };
        let default = if range != 0 || guard_holds || count == 0 { call(false) } else { None };
        if let Some(p) = portable {
            rep.model(format!("twin.direct {args} twin=portable"), show(p));
            rep.count("twin.direct.portable");
            if range >= 0x0001_0000 && p != direct_spec(&buf, pos, range, code, count) {
                rep.fail("twin-direct-bits-portable-wrong", "the portable decode_direct_bits differs from the plain loop (normalize, halve) although range >= 2^16", detail());
            }
        }
        if let Some(d) = default {
            rep.model(format!("twin.direct {args}"), show(d));
            rep.count("twin.direct.default");
            rep.count(if guard_holds { "twin.direct.default.asm-guard-holds" } else { "twin.direct.default.guard-fails" });
            if let Some(p) = portable {
                if p != d {
                    if range >= 0x0001_0000 {
                        // a difference between the two REAL twins inside the decoder's invariant: a C14 defect
                        rep.fail("twin-direct-bits-twins-differ", &format!("buffer decoder: {d:?}, portable loop: {p:?} (result, range, code, pos)"), detail());
                    } else {
                        rep.count("twin.direct.small-range-twins-differ");
                    }
                }
            }
        }
        let rc = if range == 0 { 0 } else if range < 1 << 16 { 1 } else if range < 1 << 24 { 2 } else { 3 };
        let pc = if pos >= len { 2 } else if pos + count as usize > len { 1 } else { 0 };
        rep.case(format!("direct:{}:{rc}:{pc}:{}", count.min(33), (code >= range) as u8), count > 0, || detail());
    }
}

pub fn run_twins(rep: &mut Report, rng: &mut Rng, thorough: bool) {
    extend_cases(rep, &mut rng.fork(), if thorough { 30_000 } else { 3_000 });
    normalize_cases(rep, &mut rng.fork(), if thorough { 6_000 } else { 600 });
    reject_cases(rep, &mut rng.fork(), if thorough { 30_000 } else { 3_000 });
    reject_window_cases(rep, &mut rng.fork(), if thorough { 300 } else { 40 });
    direct_cases(rep, &mut rng.fork(), if thorough { 30_000 } else { 3_000 });
}

/// trace string of the match finder as the driver's `mf.trace` builds it
pub fn trace_string(t: &[(u32, Vec<(u32, i32)>)]) -> (usize, usize, String) {
    let mut s = String::new();
    let mut nm = 0;
    for (pos, ms) in t {
        s.push_str(&format!("{pos}:"));
        s.push_str(&ms.iter().map(|(l, d)| format!("{l}/{d}")).collect::<Vec<_>>().join(","));
        s.push(';');
        nm += ms.len();
    }
    (t.len(), nm, s)
}

/// data kinds for the match finders
pub fn mf_data(r: &mut Rng, kind: u64, dict: usize, len: usize) -> Vec<u8> {
    match kind % 7 {
        0 => r.bytes(len),
        1 => vec![r.next() as u8; len],
        2 => gen_data(r, "text", len),
        3 => {
            // period dict-1 .. dict+2
            let p = (dict as i64 + r.range(0, 3) as i64 - 1).max(1) as usize;
            let base = r.bytes(p);
            (0..len).map(|k| base[k % p]).collect()
        }
        4 => gen_data(r, "mixed", len),
        5 => crate::c01::far_repeat_data(r, dict.max(64), len.max(dict + 65)),
        _ => {
            // few distinct symbols: long hash chains / deep trees
            (0..len).map(|_| b"ab"[(r.below(7) == 0) as usize]).collect()
        }
    }
}

/// HC4 / BT4 through the hook `mf_trace` against the Lean models (`mf.trace`, with `check=1`: every match the real
/// finder reports is validated by the model's `validMatchB`)
pub fn run_mf(rep: &mut Report, rng: &mut Rng, thorough: bool, sweep: bool) {
    let n = if thorough { 600 } else if sweep { 200 } else { 60 };
    for i in 0..n {
        let mut r = rng.fork();
        let bt4 = i % 2 == 1;
        let dict: u32 = *r.pick(&[4096u32, 4096, 4097, 5000, 8192, 65536]);
        let nice: u32 = *r.pick(&[8u32, 16, 32, 64, 273]);
        let depth: i32 = *r.pick(&[0i32, 0, 1, 4, 48]);
        let normal = r.chance(1, 2);
        let (eb, ea) = if normal { (4096u32, 4096u32) } else { (1, 272) };
        let len = match r.below(6) {
            0 => r.range(0, 6) as usize,
            1 => r.range(6, 600) as usize,
            2 | 3 => r.range(600, 20_000) as usize,
            4 => dict as usize * 2 + r.range(0, 3000) as usize,
            _ => if thorough || sweep { r.range(270_000, 330_000) as usize } else { r.range(20_000, 60_000) as usize },
        };
        let kind = r.below(7);
        let data = mf_data(&mut r, kind, dict as usize, len);
        // script: like the encoders (find, then skip len-1 of some reported or shorter length), or finds only, or random
        let style = r.below(3);
        let mut script: Vec<u32> = Vec::new();
        let mut covered = 0usize;
        while covered < data.len() + 2 && script.len() < 400_000 {
            match style {
                0 => { script.push(0); covered += 1; }
                _ => {
                    script.push(0);
                    covered += 1;
                    if r.chance(1, 2) {
                        let k = if style == 1 { r.range(1, 20) } else { r.range(1, 272) } as u32;
                        script.push(k);
                        covered += k as usize;
                    }
                }
            }
        }
        let trace = hooks::mf_trace(bt4, dict, eb, ea, nice, 273, depth, &data, &script);
        let (nf, nm, s) = trace_string(&trace);
        // oracle on the real trace: every reported match is a repetition inside the dictionary, lengths increase
        let mut bad = None;
        for (pos, ms) in &trace {
            let p = *pos as usize;
            let limit = 273usize.min(data.len().saturating_sub(p));
            let mut prev = 0u32;
            if ms.len() > nice as usize - 1 {
                bad = Some(format!("{} matches at position {p} exceed the capacity nice_len - 1 = {}", ms.len(), nice - 1));
            }
            for &(l, d) in ms {
                let (l, d1) = (l as usize, d as i64 + 1);
                if l < 2 || l > limit || d1 < 1 || d1 as usize > p || d1 as usize > dict as usize || l as u32 <= prev {
                    bad = Some(format!("match (len {l}, dist {d}) at position {p} is out of range (limit {limit}, dict {dict}, previous len {prev})"));
                    break;
                }
                if (0..l).any(|k| data[p + k] != data[p + k - d1 as usize]) {
                    bad = Some(format!("match (len {l}, dist {d}) at position {p} is not a repetition"));
                    break;
                }
                prev = l as u32;
            }
            if bad.is_some() {
                break;
            }
        }
        let detail = || json!({"match_finder": if bt4 { "bt4" } else { "hc4" }, "dict": dict, "nice_len": nice, "depth_limit": depth, "mode": if normal { "normal" } else { "fast" }, "data_kind": kind, "data_len": data.len(), "data_fnv": fnv(&data), "script_style": style, "data_hex": if data.len() <= 300 { hex(&data) } else { String::new() }});
        if let Some(b) = bad {
            rep.fail(&format!("mf-invalid-match:{}", if bt4 { "bt4" } else { "hc4" }), &b, detail());
        }
        rep.count(&format!("mf.{}", if bt4 { "bt4" } else { "hc4" }));
        rep.count(&format!("mf.kind{kind}"));
        let sc = if script.is_empty() { "-".to_string() } else { script.iter().map(|x| x.to_string()).collect::<Vec<_>>().join(",") };
        if data.len() <= if thorough { 340_000 } else { 70_000 } {
            rep.model(
                format!("mf.trace kind={} dict={dict} nice={nice} depth={} mlmax=273 data={} script={sc} check=1", if bt4 { "bt4" } else { "hc4" }, depth.max(0), hex(&data)),
                format!("ok {nf} {nm} {} 1", fnv(s.as_bytes())),
            );
        }
        rep.case(format!("mf:{}:{}:{}:{}:{}", bt4 as u8, dict_class(dict), nice, kind, size_class(data.len())), !data.is_empty(), || detail());
    }
}

/// adversarial inputs for the BT4 tree (B5, `bt4_tree_matches_valid`): tiny alphabets, long runs, periodic data with a
/// period near `cyclic_size = dict + 1`, many suffixes sharing a 4-byte prefix
fn mf_adv_data(r: &mut Rng, kind: u64, dict: usize, len: usize) -> Vec<u8> {
    match kind % 6 {
        0 => { let a = r.range(1, 3) as u8; (0..len).map(|_| 97 + (r.below(a as u64 + 1) as u8)).collect() }
        1 => {
            let mut out = Vec::with_capacity(len);
            while out.len() < len {
                let b = 97 + r.below(2) as u8;
                let n = r.range(1, 60) as usize;
                out.extend(std::iter::repeat(b).take(n));
            }
            out.truncate(len);
            out
        }
        2 => {
            // period cyclic_size - 2 ..= cyclic_size + 2 over {a, b}, a few flipped bits
            let p = (dict as i64 + 1 + r.range(0, 4) as i64 - 2).max(1) as usize;
            let base: Vec<u8> = (0..p).map(|_| 97 + r.below(2) as u8).collect();
            let mut out: Vec<u8> = (0..len).map(|k| base[k % p]).collect();
            for _ in 0..r.below(6) {
                if !out.is_empty() { let i = r.below(out.len() as u64) as usize; out[i] ^= 1; }
            }
            out
        }
        3 => {
            // the same 4-byte prefix again and again, then short random tails over {a, b}
            let mut out = Vec::with_capacity(len + 16);
            while out.len() < len {
                out.extend_from_slice(b"abcd");
                for _ in 0..r.below(12) { out.push(97 + r.below(2) as u8); }
            }
            out.truncate(len);
            out
        }
        4 => {
            // Fibonacci word with a few foreign symbols
            let (mut a, mut b) = (vec![97u8], vec![97u8, 98]);
            while b.len() < len { let mut c = b.clone(); c.extend_from_slice(&a); a = b; b = c; }
            b.truncate(len);
            for _ in 0..r.below(4) { if !b.is_empty() { let i = r.below(b.len() as u64) as usize; b[i] = 99; } }
            b
        }
        _ => {
            // repeated block with varying cut and one of three separators
            let bl = r.range(4, 40) as usize;
            let blk: Vec<u8> = (0..bl).map(|_| 97 + r.below(2) as u8).collect();
            let mut out = Vec::with_capacity(len + 64);
            while out.len() < len {
                let n = r.range(3, bl as u64) as usize;
                out.extend_from_slice(&blk[..n]);
                out.push(97 + r.below(3) as u8);
            }
            out.truncate(len);
            out
        }
    }
}

/// BT4 on adversarial data and parameters (small dictionaries, `nice_len` up to 273, `depth_limit` up to 1000)
/// through the hook `mf_trace` against the Lean model, every reported match validated on both sides
pub fn run_mf_adv(rep: &mut Report, rng: &mut Rng, thorough: bool, sweep: bool) {
    let n = if thorough { 1500 } else if sweep { 400 } else { 150 };
    for _ in 0..n {
        let mut r = rng.fork();
        let dict: u32 = *r.pick(&[1u32, 2, 3, 4, 7, 8, 9, 16, 17, 33, 64, 255, 256, 4096]);
        let nice: u32 = *r.pick(&[8u32, 9, 16, 32, 64, 273]);
        let depth: i32 = *r.pick(&[0i32, 1, 2, 3, 8, 100, 1000]);
        let normal = r.chance(1, 2);
        let (eb, ea) = if normal { (4096u32, 4096u32) } else { (1, 272) };
        let len = *r.pick(&[20usize, 50, 100, 300, 700, 1500, 4000]);
        let len = if dict == 4096 && r.chance(1, 2) { 3 * 4096 + r.range(0, 500) as usize } else { len };
        let kind = r.below(6);
        let data = mf_adv_data(&mut r, kind, dict as usize, len);
        let style = r.below(3);
        let mut script: Vec<u32> = Vec::new();
        let mut covered = 0usize;
        while covered < data.len() + 2 {
            script.push(0);
            covered += 1;
            if style != 0 && r.chance(2, 5) {
                let k = *r.pick(&[2u64, 8, 40, 300]);
                let k = r.range(1, k) as u32;
                script.push(k);
                covered += k as usize;
            }
        }
        let trace = hooks::mf_trace(true, dict, eb, ea, nice, 273, depth, &data, &script);
        let (nf, nm, s) = trace_string(&trace);
        let mut bad = None;
        'outer: for (pos, ms) in &trace {
            let p = *pos as usize;
            let limit = 273usize.min(data.len().saturating_sub(p));
            let mut prev = 0u32;
            for &(l, d) in ms {
                let (l, d1) = (l as usize, d as i64 + 1);
                if l < 2 || l > limit || d1 < 1 || d1 as usize > p || d1 as usize > dict as usize || l as u32 <= prev {
                    bad = Some(format!("match (len {l}, dist {d}) at position {p} is out of range (limit {limit}, dict {dict}, previous len {prev})"));
                    break 'outer;
                }
                if (0..l).any(|k| data[p + k] != data[p + k - d1 as usize]) {
                    bad = Some(format!("match (len {l}, dist {d}) at position {p} is not a repetition"));
                    break 'outer;
                }
                prev = l as u32;
            }
        }
        let detail = || json!({"match_finder": "bt4", "stratum": "adversarial", "dict": dict, "nice_len": nice, "depth_limit": depth, "mode": if normal { "normal" } else { "fast" }, "data_kind": kind, "data_len": data.len(), "data_fnv": fnv(&data), "script_style": style, "data_hex": if data.len() <= 300 { hex(&data) } else { String::new() }});
        if let Some(b) = bad {
            rep.fail("mf-invalid-match:bt4", &b, detail());
        }
        rep.count("mf.bt4.adv");
        let sc = script.iter().map(|x| x.to_string()).collect::<Vec<_>>().join(",");
        rep.model(
            format!("mf.trace kind=bt4 dict={dict} nice={nice} depth={} mlmax=273 data={} script={sc} check=1", depth.max(0), hex(&data)),
            format!("ok {nf} {nm} {} 1", fnv(s.as_bytes())),
        );
        rep.case(format!("mfadv:{}:{}:{}:{}", dict_class(dict), nice, depth, kind), !data.is_empty(), || detail());
    }
}

/// The match finders' 31-bit renormalisation (`hc4.rs` / `bt4.rs` `move_pos`: `if self.lz_pos == 0x7FFFFFFF { normalize }`):
/// the real finder is started at a biased `lz_pos` (hook `mf_trace_biased`) so that the crossing happens inside the
/// trace - at a position searched by a `find_matches`, or inside a `skip`, at the first position, near the end, or
/// not at all.  Two comparisons per case: (a) against the renormalising Lean model started at the same `lz_pos`
/// (`mf.trace ... lzstart=`, `Model/Hc4Renorm.lean` / `Bt4Renorm.lean`), (b) against the real finder WITHOUT bias on
/// the same input and script - the statement of `hc4_renorm_simulates` / `bt4_renorm_simulates` on the real code.
/// (A second crossing in one trace would need `0x7FFFFFFF - cyclic_size` more positions, > 1.2 GiB with the largest
/// dictionary the encoders accept; the theorems cover any number of crossings.)
pub fn run_mf_renorm(rep: &mut Report, rng: &mut Rng, thorough: bool, sweep: bool) {
    let n = if thorough { 500 } else if sweep { 160 } else { 48 };
    for i in 0..n {
        let mut r = rng.fork();
        let bt4 = i % 2 == 1;
        let big = i % 12 == 10 || i % 12 == 11;
        let dict: u32 = if big { *r.pick(&[65536u32, 1 << 20]) } else { *r.pick(&[1u32, 2, 8, 9, 64, 255, 4096, 4097, 5000]) };
        let nice: u32 = *r.pick(&[8u32, 16, 32, 273]);
        let depth: i32 = *r.pick(&[0i32, 0, 1, 4, 100]);
        let normal = r.chance(1, 2);
        let (eb, ea) = if normal { (4096u32, 4096u32) } else { (1, 272) };
        let len = if big {
            if thorough { r.range(100_000, 200_000) as usize } else { r.range(20_000, 40_000) as usize }
        } else if dict >= 4096 {
            dict as usize * 3 + r.range(0, 3000) as usize
        } else {
            *r.pick(&[40usize, 300, 1500, 4000])
        };
        let kind = r.below(13);
        let data = if kind < 7 { mf_data(&mut r, kind, dict as usize, len) } else { mf_adv_data(&mut r, kind - 7, dict as usize, len) };
        let style = r.below(3);
        let mut script: Vec<u32> = Vec::new();
        // (first position, number of positions, is_find) per op
        let mut spans: Vec<(usize, usize, bool)> = Vec::new();
        let mut covered = 0usize;
        while covered < data.len() + 2 {
            script.push(0);
            spans.push((covered, 1, true));
            covered += 1;
            if style != 0 && r.chance(1, 2) {
                let k = if style == 1 { r.range(1, 20) } else { r.range(1, 272) } as u32;
                script.push(k);
                spans.push((covered, k as usize, false));
                covered += k as usize;
            }
        }
        // the position whose `move_pos` reaches 0x7FFFFFFF
        let want = r.below(10);
        let cross: usize = match want {
            0 => 0,
            1 => data.len() + 50,                                   // never reached
            2 => data.len().saturating_sub(r.range(1, 8) as usize), // in the pending tail / last positions
            3 | 4 | 5 => {
                // inside a skip (if the script has one)
                let sk: Vec<&(usize, usize, bool)> = spans.iter().filter(|s| !s.2 && s.0 < data.len()).collect();
                if sk.is_empty() { r.below(data.len().max(1) as u64) as usize } else { let s = sk[r.below(sk.len() as u64) as usize]; s.0 + r.below(s.1 as u64) as usize }
            }
            _ => {
                // at a find, in the second half so that the tables are full of live and stale entries
                let fs: Vec<&(usize, usize, bool)> = spans.iter().filter(|s| s.2 && s.0 < data.len() && s.0 * 3 >= data.len()).collect();
                if fs.is_empty() { r.below(data.len().max(1) as u64) as usize } else { fs[r.below(fs.len() as u64) as usize].0 }
            }
        };
        let lz_start: i32 = 0x7FFF_FFFF - 1 - cross as i32;
        assert!(lz_start as i64 >= dict as i64 + 1);
        let trace = hooks::mf_trace_biased(bt4, dict, eb, ea, nice, 273, depth, Some(lz_start), &data, &script);
        let plain = hooks::mf_trace(bt4, dict, eb, ea, nice, 273, depth, &data, &script);
        let (nf, nm, s) = trace_string(&trace);
        let name = if bt4 { "bt4" } else { "hc4" };
        let where_ = if cross >= data.len() { "none" } else if spans.iter().any(|s| s.2 && s.0 == cross) { "find" } else { "skip" };
        let detail = || json!({"match_finder": name, "stratum": "renormalisation", "dict": dict, "nice_len": nice, "depth_limit": depth, "mode": if normal { "normal" } else { "fast" }, "data_kind": kind, "data_len": data.len(), "data_fnv": fnv(&data), "script_style": style, "lz_pos_start": lz_start, "crossing_position": cross, "crossing_in": where_, "data_hex": if data.len() <= 300 { hex(&data) } else { String::new() }});
        if trace != plain {
            let at = trace.iter().zip(plain.iter()).position(|(a, b)| a != b).unwrap_or(trace.len().min(plain.len()));
            rep.fail(
                &format!("mf-renorm-changes-matches:{name}"),
                &format!("the match finder started at lz_pos = {lz_start} (renormalisation at position {cross}) reports other matches than the same finder started at cyclic_size: first difference at find #{at}: {:?} vs {:?}", trace.get(at), plain.get(at)),
                detail(),
            );
        }
        rep.count(&format!("mf.renorm.{name}"));
        rep.count(&format!("mf.renorm.cross-{where_}"));
        let sc = script.iter().map(|x| x.to_string()).collect::<Vec<_>>().join(",");
        if data.len() <= if thorough { 210_000 } else { 70_000 } {
            rep.model(
                format!("mf.trace kind={name} dict={dict} nice={nice} depth={} mlmax=273 data={} script={sc} lzstart={lz_start} check=1", depth.max(0), hex(&data)),
                format!("ok {nf} {nm} {} 1", fnv(s.as_bytes())),
            );
        }
        rep.case(format!("mfrenorm:{}:{}:{}:{}", bt4 as u8, dict_class(dict), where_, kind), !data.is_empty(), || detail());
    }
}

/// The whole fast-mode encoder (match finder + parser + range coder) as modelled in `Model/EncFast.lean` against the
/// real `LZMAWriter::new_no_header(.., false)`: the model must produce the SAME BYTES (request `encfast.parse …
/// enc=1 bytesonly=1`), for HC4 (the theorem `fast_roundtrip_generated` covers it) and BT4 (model only).
pub fn run_encfast(rep: &mut Report, rng: &mut Rng, thorough: bool, sweep: bool) {
    let n = if thorough { 500 } else if sweep { 150 } else { 50 };
    for i in 0..n {
        let mut r = rng.fork();
        let bt4 = i % 3 == 2;
        let dict: u32 = *r.pick(&[4096u32, 4096, 5000, 8192, 65536]);
        let nice: u32 = *r.pick(&[8u32, 16, 32, 64, 273]);
        let depth: i32 = *r.pick(&[0i32, 0, 1, 48]);
        let (lc, lp, pb) = *r.pick(&[(3u32, 0u32, 2u32), (0, 0, 0), (4, 0, 4), (0, 4, 2), (8, 4, 4), (1, 3, 1)]);
        let len = match r.below(6) {
            0 => r.range(0, 6) as usize,
            1 => r.range(6, 600) as usize,
            2 | 3 => r.range(600, 20_000) as usize,
            4 => dict as usize * 2 + r.range(0, 3000) as usize,
            _ => if thorough || sweep { r.range(270_000, 320_000) as usize } else { r.range(20_000, 60_000) as usize },
        };
        let kind = r.below(7);
        let data = mf_data(&mut r, kind, dict as usize, len);
        let lz = crate::codec::LzOpts { dict, lc, lp, pb, normal: false, nice, bt4, depth, preset: None };
        let (_, parts) = gen_partition(&mut r, data.len());
        let detail = || json!({"stratum": "encfast", "opts": lz.json(), "data_kind": kind, "data_len": data.len(), "data_fnv": fnv(&data), "data_hex": if data.len() <= 300 { hex(&data) } else { String::new() }});
        rep.count(&format!("encfast.{}", if bt4 { "bt4" } else { "hc4" }));
        match crate::codec::lzma_compress(&data, &lz, crate::codec::LzmaFmt::RawSize, &parts) {
            Outcome::Ok(c) => {
                if data.len() <= if thorough { 330_000 } else { 70_000 } {
                    rep.model(
                        format!("encfast.parse kind={} dict={dict} lc={lc} lp={lp} pb={pb} nice={nice} depth={} data={} enc=1 bytesonly=1", if bt4 { "bt4" } else { "hc4" }, depth.max(0), hex(&data)),
                        format!("ok {} {}", c.len(), fnv(&c)),
                    );
                }
            }
            other => rep.fail(&format!("lzma-write-{}", other.class()), &other.describe(), detail()),
        }
        rep.case(format!("encfast:{}:{}:{}:{}:{}", bt4 as u8, dict_class(dict), nice, kind, size_class(data.len())), !data.is_empty(), || detail());
    }
}

/// The whole NORMAL-mode encoder (match finder + optimal parser with its price tables and probability models + range
/// coder) as modelled in `Model/EncNormal.lean` / `Model/EncPrices.lean` against the real
/// `LZMAWriter::new_no_header(.., false)` in `EncodeMode::Normal`: the model must produce the SAME BYTES (request
/// `encnormal.parse … enc=1 bytesonly=1`; the driver also runs `parseRun` on the model's parse on every request), over
/// HC4 and BT4, every lc/lp/pb class, dictionary sizes from 4096, nice_len 8..273, depth limits, random write partitions.
/// `n` cases; `max_len` bounds the input size (the optimal parser does much more work per byte than the fast one).
pub fn run_encnormal(rep: &mut Report, rng: &mut Rng, n: u64, max_len: usize) {
    for i in 0..n {
        let mut r = rng.fork();
        let bt4 = i % 2 == 1;
        let dict: u32 = *r.pick(&[4096u32, 4096, 4097, 5000, 8192, 65536, 1 << 20]);
        let nice: u32 = *r.pick(&[8u32, 9, 16, 17, 32, 64, 128, 272, 273]);
        let depth: i32 = *r.pick(&[0i32, 0, 1, 4, 48]);
        let (lc, lp, pb) = *r.pick(&[(3u32, 0u32, 2u32), (3, 0, 2), (0, 0, 0), (4, 0, 4), (0, 4, 2), (8, 4, 4), (1, 3, 1), (2, 2, 3), (0, 2, 0)]);
        let len = match r.below(8) {
            0 => r.range(0, 6) as usize,
            1 => r.range(6, 600) as usize,
            2 | 3 => r.range(600, 6_000) as usize,
            4 => (dict as usize).min(70_000) * 2 + r.range(0, 3000) as usize,
            5 => r.range(4000, 4200) as usize,
            _ => r.range(6_000, 40_000) as usize,
        }.min(max_len);
        let kind = r.below(7);
        let mut data = mf_data(&mut r, kind, dict as usize, len);
        // far-repeat data needs more than a dictionary's worth of input; allowed where that stays within 8x the budget
        data.truncate(if dict as usize + 600 <= 8 * max_len { max_len.max(dict as usize + 600) } else { max_len });
        let lz = crate::codec::LzOpts { dict, lc, lp, pb, normal: true, nice, bt4, depth, preset: None };
        let (_, parts) = gen_partition(&mut r, data.len());
        let detail = || json!({"stratum": "encnormal", "opts": lz.json(), "data_kind": kind, "data_len": data.len(), "data_fnv": fnv(&data), "data_hex": if data.len() <= 300 { hex(&data) } else { String::new() }});
        rep.count(&format!("encnormal.{}", if bt4 { "bt4" } else { "hc4" }));
        match crate::codec::lzma_compress(&data, &lz, crate::codec::LzmaFmt::RawSize, &parts) {
            Outcome::Ok(c) => {
                rep.model(
                    format!("encnormal.parse kind={} dict={dict} lc={lc} lp={lp} pb={pb} nice={nice} depth={} data={} enc=1 bytesonly=1", if bt4 { "bt4" } else { "hc4" }, depth.max(0), hex(&data)),
                    format!("ok {} {}", c.len(), fnv(&c)),
                );
            }
            other => rep.fail(&format!("lzma-write-{}", other.class()), &other.describe(), detail()),
        }
        rep.case(format!("encnormal:{}:{}:{}:{}:{}", bt4 as u8, dict_class(dict), nice, kind, size_class(data.len())), !data.is_empty(), || detail());
    }
}
